(* The array model (layer L2), shared by C06 C01 C04 C05 C11 C19 C07 C08 C12 C14.  Definitions only.

   Abstraction (DESIGN.md 4 "The array model"):
   - a data block is identified by an abstract id `bid` (the harness numbers the distinct zero-padded block
     contents it meets; id 0 is the all-zero block);
   - a block hash is `hval`: the two special values of elem.h (ZERO = all 0xFF "was filled with zeros",
     INVALID = all 0x00 "unknown") or a real hash id.  The hash function is a parameter
     `hashf : bid -> N -> hval` (hash of the first `len` bytes of the block): the model never computes hashes;
   - a parity block is represented by WHAT IT ENCODES: `PEnc v` is the level's generator applied to the vector
     `v` (one bid per disk position, 0 where nothing is allocated).  Two parity blocks of the same level are
     taken to be equal iff they encode the same vector; reconstruction of a set F of positions from `PEnc v`
     and the surviving blocks d succeeds with v|F iff v agrees with d outside F (this is C03's theorem), and
     gives unknown junk otherwise.  `PJunk` is any other content, `PNone` a position beyond the end of file. *)
From Coq Require Import NArith ZArith List Bool Arith.
Import ListNotations.

Definition bid := N.
Inductive hval := HZero | HInvalid | HReal (h : N).
Definition hval_eqb (a b : hval) : bool :=
  match a, b with
  | HZero, HZero => true | HInvalid, HInvalid => true | HReal x, HReal y => N.eqb x y | _, _ => false
  end.
(* hash_is_unique of elem.h (for a full-size hash) *)
Definition h_unique (h : hval) : bool := match h with HReal _ => true | _ => false end.

Inductive bstate := SBlk | SChg | SRep.
Definition bstate_eqb (a b : bstate) : bool :=
  match a, b with SBlk, SBlk => true | SChg, SChg => true | SRep, SRep => true | _, _ => false end.

Record fblock := mkFB { fb_state : bstate; fb_pos : nat; fb_hash : hval }.

Record cfile := mkCF {
  cf_name : N;            (* id of the path inside the disk *)
  cf_size : N;            (* bytes *)
  cf_mtime : Z;           (* seconds *)
  cf_nsec : Z;            (* nanoseconds, -1 = STAT_NSEC_INVALID *)
  cf_inode : N;
  cf_copy : bool;         (* FILE_IS_COPY: hashes inherited from another file by scan *)
  cf_blocks : list fblock (* block idx order *)
}.

Record clink := mkCL { cl_name : N; cl_to : N; cl_hard : bool }.

Record cdisk := mkCD {
  cd_files : list cfile;
  cd_deleted : list (nat * hval);     (* DELETED blocks: position, past hash *)
  cd_links : list clink;
  cd_dirs : list N
}.

Record info := mkInfo { i_time : N; i_bad : bool; i_rehash : bool; i_justsynced : bool }.

Record content := mkC {
  c_disks : list (option cdisk);      (* by disk position; None = position without a disk *)
  c_info : list (option info);        (* by stripe position *)
  c_blockmax : nat                    (* allocated parity size in blocks, 'x' record *)
}.

Inductive penc := PEnc (v : list bid) | PJunk (tag : N) | PNone.
Definition parity := list (list penc).       (* level -> position -> what the block encodes *)

(* what a disk position holds at a stripe position (fs_par2block_find) *)
Inductive slot :=
| SEmpty
| SFile (f : cfile) (idx : nat) (b : fblock)
| SDeleted (h : hval).

Fixpoint find_in_file (pos : nat) (idx : nat) (bl : list fblock) : option (nat * fblock) :=
  match bl with
  | [] => None
  | b :: t => if Nat.eqb (fb_pos b) pos then Some (idx, b) else find_in_file pos (S idx) t
  end.
Fixpoint find_in_files (pos : nat) (fl : list cfile) : option (cfile * nat * fblock) :=
  match fl with
  | [] => None
  | f :: t => match find_in_file pos 0 (cf_blocks f) with
              | Some (i, b) => Some (f, i, b)
              | None => find_in_files pos t
              end
  end.
Fixpoint find_deleted (pos : nat) (dl : list (nat * hval)) : option hval :=
  match dl with [] => None | (p, h) :: t => if Nat.eqb p pos then Some h else find_deleted pos t end.

Definition slot_at (d : cdisk) (pos : nat) : slot :=
  match find_in_files pos (cd_files d) with
  | Some (f, i, b) => SFile f i b
  | None => match find_deleted pos (cd_deleted d) with Some h => SDeleted h | None => SEmpty end
  end.

Definition slot_has_file (s : slot) : bool := match s with SFile _ _ _ => true | _ => false end.
(* block_has_invalid_parity: DELETED, CHG, REP *)
Definition slot_invalid_parity (s : slot) : bool :=
  match s with
  | SDeleted _ => true
  | SFile _ _ b => negb (bstate_eqb (fb_state b) SBlk)
  | SEmpty => false
  end.

(* bytes of block idx of a file of `size` bytes: file_block_size *)
Definition block_len (bs : N) (size : N) (idx : nat) : N :=
  let i := N.of_nat idx in
  if (N.mul (N.succ i) bs <=? size)%N then bs else (size - N.mul i bs)%N.
Definition nblocks (bs : N) (size : N) : nat := N.to_nat ((size + bs - 1) / bs)%N.

(* the data disks, as the tool sees them when it reads *)
Record fsfile := mkFF {
  ff_name : N; ff_size : N; ff_mtime : Z; ff_nsec : Z; ff_inode : N;
  ff_blocks : list bid      (* zero-padded block ids, length = nblocks *)
}.
Definition fsdisk := list fsfile.

Definition find_fs (name : N) (d : fsdisk) : option fsfile := find (fun f => N.eqb (ff_name f) name) d.

Definition nth_default {A} (d : A) (l : list A) (n : nat) : A := nth n l d.

Fixpoint update_nth {A} (n : nat) (f : A -> A) (l : list A) : list A :=
  match n, l with
  | _, [] => []
  | O, x :: t => f x :: t
  | S n', x :: t => x :: update_nth n' f t
  end.

(* set position n of a list, extending it with `pad` if it is too short *)
Fixpoint set_ext {A} (pad : A) (n : nat) (x : A) (l : list A) : list A :=
  match n, l with
  | O, [] => [x]
  | O, _ :: t => x :: t
  | S n', [] => pad :: set_ext pad n' x []
  | S n', y :: t => y :: set_ext pad n' x t
  end.
