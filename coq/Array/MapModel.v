(* The disk -> parity-position mapping of a SnapRAID array: cmdline/state.c, the 'M' record loader of state_read_content
   (state.c:2540-2625: a content mapping (name, position, uuid) is resolved to a configured disk by name, else by uuid --
   the automatic rename -- and recorded under the name of THAT disk) followed by state_map() (state.c:1320-1510: mappings
   without a disk are dropped, every configured disk without a mapping gets the FIRST FREE position, uuid changes are
   counted and abort the command when more than the parity levels, the number of columns is bounded by RAID_DATA_MAX).
   Executable definitions only (extracted: Extract/Extract_C06map.v).  Names and uuids are ids (N); uuid 0 = empty string. *)
From Coq Require Import NArith List Bool Arith.
Import ListNotations.

Record mapping := mkMap { m_name : N; m_pos : nat; m_uuid : N }.
(* a `disk` line of the configuration with the uuid detected for its directory (None: has_unsupported_uuid) *)
Record cfgdisk := mkCfg { g_name : N; g_uuid : option N }.

Record mopts := mkMO {
  mo_match_first : bool;      (* --test-match-first-uuid: find_disk_by_uuid returns the first configured disk *)
  mo_skip_access : bool;      (* opt.skip_disk_access: no uuid available, no uuid check *)
  mo_force_uuid : bool;       (* --force-uuid *)
  mo_level : nat;             (* number of parity levels: the uuid changes tolerated *)
  mo_par_mismatch : nat       (* parity files whose uuid changed (counted by the same loop) *)
}.
Definition RAID_DATA_MAX : nat := 251.

Definition find_by_name (cfg : list cfgdisk) (name : N) : option cfgdisk := find (fun d => N.eqb (g_name d) name) cfg.
(* find_disk_by_uuid: never an empty uuid, never a duplicate; the test option short-cuts to the first disk *)
Definition find_by_uuid (o : mopts) (cfg : list cfgdisk) (uuid : N) : option cfgdisk :=
  if mo_match_first o then hd_error cfg else
  if N.eqb uuid 0 then None else
  match filter (fun d => match g_uuid d with Some u => N.eqb u uuid | None => false end) cfg with
  | [d] => Some d
  | _ => None
  end.
(* the disk a content mapping belongs to: by name, else by uuid (the rename) *)
Definition resolve (o : mopts) (cfg : list cfgdisk) (m : mapping) : option cfgdisk :=
  match find_by_name cfg (m_name m) with
  | Some d => Some d
  | None => find_by_uuid o cfg (m_uuid m)
  end.

(* the 'M' records: each becomes a mapping under the name of the disk it was resolved to; an unresolved one aborts *)
Fixpoint load_maps (o : mopts) (cfg : list cfgdisk) (ms : list mapping) : option (list mapping) :=
  match ms with
  | [] => Some []
  | m :: t =>
      match resolve o cfg m, load_maps o cfg t with
      | Some d, Some r => Some (mkMap (g_name d) (m_pos m) (m_uuid m) :: r)
      | _, _ => None
      end
  end.

(* the search of state_map for a hole: the first position from `p` on that no mapping uses *)
Fixpoint first_free (fuel : nat) (used : list nat) (p : nat) : nat :=
  match fuel with
  | O => p
  | S f => if existsb (Nat.eqb p) used then first_free f used (S p) else p
  end.

(* the loop over the configured disks; `hole` is kept from one disk to the next, new mappings go to the tail *)
Fixpoint assign (cfg : list cfgdisk) (hole : nat) (ms : list mapping) : list mapping :=
  match cfg with
  | [] => ms
  | d :: t =>
      if existsb (fun m => N.eqb (m_name m) (g_name d)) ms then assign t hole ms
      else let h := first_free (S (length ms)) (map m_pos ms) hole in
           assign t h (ms ++ [mkMap (g_name d) h 0])
  end.

(* the uuid check: number of changed (non empty) uuids, and the mappings with the uuid of their disk *)
Definition uuid_step (cfg : list cfgdisk) (m : mapping) : nat * mapping :=
  match find_by_name cfg (m_name m) with
  | Some d => match g_uuid d with
              | None => (0, m)
              | Some u => if N.eqb u (m_uuid m) then (0, m)
                          else ((if N.eqb (m_uuid m) 0 then 0 else 1), mkMap (m_name m) (m_pos m) u)
              end
  | None => (0, m)       (* "Internal inconsistency" in the C: cannot happen after the first loop *)
  end.
Definition diskcount (ms : list mapping) : nat := fold_left (fun n m => Nat.max n (S (m_pos m))) ms 0.

Definition state_map (o : mopts) (cfg : list cfgdisk) (ms : list mapping) : option (list mapping) :=
  let kept := filter (fun m => match find_by_name cfg (m_name m) with Some _ => true | None => false end) ms in
  let ms1 := assign cfg 0 kept in
  let steps := if mo_skip_access o then map (fun m => (0, m)) ms1 else map (uuid_step cfg) ms1 in
  let mism := fold_left (fun n x => n + fst x) steps (mo_par_mismatch o) in
  let ms2 := map snd steps in
  if negb (mo_force_uuid o) && (mo_level o <? mism) then None else
  if RAID_DATA_MAX <? diskcount ms2 then None else Some ms2.

Definition remap (o : mopts) (content : list mapping) (cfg : list cfgdisk) : option (list mapping) :=
  match load_maps o cfg content with
  | Some ms => state_map o cfg ms
  | None => None
  end.

(* the seeded variant C06e_1: the loader keeps the name found in the content file *)
Fixpoint load_maps_oldname (o : mopts) (cfg : list cfgdisk) (ms : list mapping) : option (list mapping) :=
  match ms with
  | [] => Some []
  | m :: t =>
      match resolve o cfg m, load_maps_oldname o cfg t with
      | Some d, Some r => Some (mkMap (m_name m) (m_pos m) (m_uuid m) :: r)
      | _, _ => None
      end
  end.
Definition remap_oldname (o : mopts) (content : list mapping) (cfg : list cfgdisk) : option (list mapping) :=
  match load_maps_oldname o cfg content with
  | Some ms => state_map o cfg ms
  | None => None
  end.
