(* Proofs about the disk -> position mapping (Array/MapModel.v) and its link with the C06 invariant. *)
From Coq Require Import NArith ZArith List Bool Arith Lia Permutation.
From Snap.Array Require Import ArrayDefs SyncModel SyncProofsDefs MapModel.
Import ListNotations.

(* ---------------------------------------------------------------------------------------------------------- *)
(* resolution and the 'M' records                                                                               *)
(* ---------------------------------------------------------------------------------------------------------- *)
Lemma find_by_name_name cfg n d : find_by_name cfg n = Some d -> g_name d = n /\ In d cfg.
Proof. unfold find_by_name. intro H. apply find_some in H. destruct H as [H1 H2]. apply N.eqb_eq in H2. auto. Qed.
Lemma find_by_name_in cfg d : In d cfg -> exists d', find_by_name cfg (g_name d) = Some d'.
Proof.
  intro H. unfold find_by_name. destruct (find (fun d0 => N.eqb (g_name d0) (g_name d)) cfg) as [d'|] eqn:E; [eauto|].
  apply (find_none _ _ E) in H. rewrite N.eqb_refl in H. discriminate.
Qed.
Lemma find_by_uuid_in o cfg u d : find_by_uuid o cfg u = Some d -> In d cfg.
Proof.
  unfold find_by_uuid. destruct (mo_match_first o).
  - destruct cfg; simpl; [discriminate|]. intro H. injection H as <-. left. reflexivity.
  - destruct (N.eqb u 0); [discriminate|].
    destruct (filter _ cfg) as [|x [|y t]] eqn:E; try discriminate. intro H. injection H as <-.
    assert (Hin : In x (filter (fun d0 => match g_uuid d0 with Some u0 => N.eqb u0 u | None => false end) cfg)) by (rewrite E; left; reflexivity).
    apply filter_In in Hin. tauto.
Qed.
Lemma resolve_in o cfg m d : resolve o cfg m = Some d -> In d cfg.
Proof.
  unfold resolve. destruct (find_by_name cfg (m_name m)) as [d'|] eqn:E.
  - intro H. injection H as <-. apply find_by_name_name in E. tauto.
  - apply find_by_uuid_in.
Qed.
(* a disk found by name keeps its name: no rename *)
Lemma resolve_by_name o cfg m d : find_by_name cfg (m_name m) = Some d -> resolve o cfg m = Some d.
Proof. unfold resolve. intros ->. reflexivity. Qed.

Definition key (m : mapping) : N * nat := (m_name m, m_pos m).

Lemma load_maps_spec o cfg : forall ms r, load_maps o cfg ms = Some r ->
  map m_pos r = map m_pos ms /\
  (forall m, In m ms -> exists d, resolve o cfg m = Some d /\ In (g_name d, m_pos m) (map key r)) /\
  (forall m', In m' r -> exists d, In d cfg /\ m_name m' = g_name d).
Proof.
  induction ms as [|m t IH]; intros r H; simpl in H.
  - injection H as <-. split; [reflexivity|]. split; [intros m []|intros m' []].
  - destruct (resolve o cfg m) as [d|] eqn:E; [|discriminate].
    destruct (load_maps o cfg t) as [r0|] eqn:E0; [|discriminate]. injection H as <-.
    destruct (IH r0 eq_refl) as (P1 & P2 & P3). split; [simpl; f_equal; exact P1|]. split.
    + intros m0 [<-|Hin].
      * exists d. split; [exact E|]. left. reflexivity.
      * destruct (P2 m0 Hin) as [d0 [A B]]. exists d0. split; [exact A|]. right. exact B.
    + intros m' [<-|Hin]; [|exact (P3 m' Hin)]. exists d. split; [eapply resolve_in; exact E | reflexivity].
Qed.

(* ---------------------------------------------------------------------------------------------------------- *)
(* the first free position                                                                                      *)
(* ---------------------------------------------------------------------------------------------------------- *)
Lemma existsb_eqb_In p l : existsb (Nat.eqb p) l = true <-> In p l.
Proof.
  rewrite existsb_exists. split.
  - intros [x [H E]]. apply Nat.eqb_eq in E. subst. exact H.
  - intro H. exists p. split; [exact H | apply Nat.eqb_refl].
Qed.
Lemma first_free_spec fuel used : forall p,
  p <= first_free fuel used p /\
  (forall q, p <= q < first_free fuel used p -> In q used) /\
  (In (first_free fuel used p) used -> first_free fuel used p = p + fuel).
Proof.
  induction fuel as [|f IH]; intro p; simpl.
  - split; [lia|]. split; [intros q Hq; lia | intros _; lia].
  - destruct (existsb (Nat.eqb p) used) eqn:E.
    + destruct (IH (S p)) as (A & B & C). apply existsb_eqb_In in E. split; [lia|]. split.
      * intros q Hq. destruct (Nat.eq_dec q p) as [->|Hne]; [exact E | apply B; lia].
      * intro H. rewrite (C H). lia.
    + split; [lia|]. split; [intros q Hq; lia|]. intro H. apply existsb_eqb_In in H. congruence.
Qed.
Lemma first_free_notin used p : ~ In (first_free (S (length used)) used p) used.
Proof.
  intro H. destruct (first_free_spec (S (length used)) used p) as (A & B & C).
  specialize (C H).
  assert (Hincl : incl (seq p (S (S (length used)))) used).
  { intros q Hq. apply in_seq in Hq. destruct (Nat.eq_dec q (first_free (S (length used)) used p)) as [->|Hne]; [exact H|].
    apply B. lia. }
  pose proof (NoDup_incl_length (seq_NoDup _ _) Hincl) as L. rewrite seq_length in L. lia.
Qed.

(* ---------------------------------------------------------------------------------------------------------- *)
(* the assignment of the unmapped disks                                                                         *)
(* ---------------------------------------------------------------------------------------------------------- *)
(* each new mapping takes a position that is free and below which every position is used, in order *)
Inductive lowest : list nat -> list mapping -> Prop :=
| L_nil used : lowest used []
| L_cons used m t : ~ In (m_pos m) used -> (forall q, q < m_pos m -> In q used) -> lowest (used ++ [m_pos m]) t -> lowest used (m :: t).
(* the configured disks without a mapping, in configuration order (a name listed twice counts once) *)
Fixpoint new_names (cfg : list cfgdisk) (names : list N) : list N :=
  match cfg with
  | [] => []
  | d :: t => if existsb (N.eqb (g_name d)) names then new_names t names else g_name d :: new_names t (names ++ [g_name d])
  end.

Lemma existsb_name ms n : existsb (fun m => N.eqb (m_name m) n) ms = existsb (N.eqb n) (map m_name ms).
Proof. induction ms as [|m t IH]; simpl; [reflexivity|]. rewrite IH, (N.eqb_sym (m_name m) n). reflexivity. Qed.

Lemma assign_spec cfg : forall hole ms,
  (forall q, q < hole -> In q (map m_pos ms)) ->
  exists news, assign cfg hole ms = ms ++ news /\ lowest (map m_pos ms) news /\
               map m_name news = new_names cfg (map m_name ms) /\ (forall m, In m news -> m_uuid m = 0%N).
Proof.
  induction cfg as [|d t IH]; intros hole ms Hh; cbn [assign new_names].
  - exists []. rewrite app_nil_r. repeat split; [constructor | intros m []].
  - rewrite existsb_name. destruct (existsb (N.eqb (g_name d)) (map m_name ms)) eqn:E.
    + apply IH. exact Hh.
    + cbv zeta. set (h := first_free (S (length ms)) (map m_pos ms) hole).
      assert (Hlen : S (length ms) = S (length (map m_pos ms))) by (rewrite map_length; reflexivity).
      destruct (first_free_spec (S (length ms)) (map m_pos ms) hole) as (A & B & _). fold h in A, B.
      assert (Hnot : ~ In h (map m_pos ms)) by (unfold h; rewrite Hlen; apply first_free_notin).
      assert (Hlow : forall q, q < h -> In q (map m_pos ms)).
      { intros q Hq. destruct (Nat.lt_ge_cases q hole) as [H|H]; [apply Hh; exact H | apply B; lia]. }
      destruct (IH h (ms ++ [mkMap (g_name d) h 0])) as [news (E1 & E2 & E3 & E4)].
      { intros q Hq. rewrite map_app. apply in_or_app. left. apply Hlow. exact Hq. }
      exists (mkMap (g_name d) h 0 :: news). split; [rewrite E1, <- app_assoc; reflexivity|]. split.
      * constructor; simpl; auto. rewrite map_app in E2. exact E2.
      * split; [simpl; rewrite map_app in E3; simpl in E3; rewrite E3; reflexivity|].
        intros m [<-|Hm]; [reflexivity | exact (E4 m Hm)].
Qed.

Lemma lowest_nodup news : forall used, NoDup used -> lowest used news -> NoDup (used ++ map m_pos news).
Proof.
  induction news as [|m t IH]; intros used Hn H; simpl; [rewrite app_nil_r; exact Hn|].
  inversion H as [|? ? ? H1 H2 H3]; subst.
  replace (used ++ m_pos m :: map m_pos t) with ((used ++ [m_pos m]) ++ map m_pos t) by (rewrite <- app_assoc; reflexivity).
  apply IH; [|exact H3].
  apply (Permutation_NoDup (Permutation_cons_append used (m_pos m))). constructor; assumption.
Qed.

(* ---------------------------------------------------------------------------------------------------------- *)
(* state_map / remap                                                                                            *)
(* ---------------------------------------------------------------------------------------------------------- *)
Lemma uuid_step_key cfg m : key (snd (uuid_step cfg m)) = key m.
Proof.
  unfold uuid_step. destruct (find_by_name cfg (m_name m)) as [d|]; [|reflexivity].
  destruct (g_uuid d) as [u|]; [|reflexivity]. destruct (N.eqb u (m_uuid m)); reflexivity.
Qed.

(* what remap returns: the loaded mappings followed by the new ones, names and positions *)
Theorem remap_shape o content cfg ms' :
  remap o content cfg = Some ms' ->
  exists ld news, load_maps o cfg content = Some ld /\ map key ms' = map key (ld ++ news) /\
                  lowest (map m_pos ld) news /\ map m_name news = new_names cfg (map m_name ld).
Proof.
  unfold remap. destruct (load_maps o cfg content) as [ld|] eqn:El; [|discriminate].
  unfold state_map. cbv zeta.
  destruct (load_maps_spec o cfg content ld El) as (_ & _ & P3).
  assert (Ek : filter (fun m => match find_by_name cfg (m_name m) with Some _ => true | None => false end) ld = ld).
  { clear El. induction ld as [|m t IH]; [reflexivity|]. simpl.
    destruct (P3 m (or_introl eq_refl)) as [d [Hd En]]. destruct (find_by_name_in cfg d Hd) as [d' Ed]. rewrite En, Ed.
    f_equal. apply IH. intros m' Hm'. apply P3. right. exact Hm'. }
  rewrite Ek.
  destruct (assign_spec cfg 0 ld) as [news (E1 & E2 & E3 & _)]; [intros q Hq; lia|].
  destruct (negb (mo_force_uuid o) && _); [discriminate|]. destruct (RAID_DATA_MAX <? _); [discriminate|].
  intro H. injection H as <-. exists ld, news. split; [reflexivity|]. split; [|split; assumption].
  rewrite E1. destruct (mo_skip_access o); rewrite !map_map.
  - reflexivity.
  - apply map_ext. intro m. apply uuid_step_key.
Qed.

(* (1) every disk present in the content (by name, or by uuid after a rename) keeps its position *)
Theorem remap_keeps_positions o content cfg ms' :
  remap o content cfg = Some ms' ->
  forall m, In m content -> exists d, resolve o cfg m = Some d /\ In (g_name d, m_pos m) (map key ms').
Proof.
  intros H m Hm. destruct (remap_shape o content cfg ms' H) as (ld & news & El & Ek & _).
  destruct (load_maps_spec o cfg content ld El) as (_ & P2 & _). destruct (P2 m Hm) as [d [A B]].
  exists d. split; [exact A|]. rewrite Ek, map_app. apply in_or_app. left. exact B.
Qed.

(* (2) the new disks get the lowest free positions, in configuration order *)
Theorem remap_new_lowest_hole o content cfg ms' :
  remap o content cfg = Some ms' ->
  exists old news, map key ms' = map key (old ++ news) /\ map m_pos old = map m_pos content /\
                   lowest (map m_pos content) news /\ map m_name news = new_names cfg (map m_name old).
Proof.
  intro H. destruct (remap_shape o content cfg ms' H) as (ld & news & El & Ek & E2 & E3).
  destruct (load_maps_spec o cfg content ld El) as (P1 & _ & _).
  exists ld, news. rewrite <- P1. auto.
Qed.

(* (3) no two disks share a position *)
Theorem remap_injective o content cfg ms' :
  NoDup (map m_pos content) -> remap o content cfg = Some ms' -> NoDup (map m_pos ms').
Proof.
  intros Hn H. destruct (remap_shape o content cfg ms' H) as (ld & news & El & Ek & E2 & _).
  destruct (load_maps_spec o cfg content ld El) as (P1 & _ & _).
  assert (Ep : map m_pos ms' = map m_pos (ld ++ news)).
  { assert (E : forall l, map m_pos l = map snd (map key l)) by (intro l; rewrite map_map; reflexivity).
    rewrite (E ms'), (E (ld ++ news)), Ek. reflexivity. }
  rewrite Ep, map_app. apply lowest_nodup; [rewrite P1; exact Hn | exact E2].
Qed.

(* ---------------------------------------------------------------------------------------------------------- *)
(* (4) the C06 invariant through a remap followed by the load                                                   *)
(* ---------------------------------------------------------------------------------------------------------- *)
From Snap.Array Require Import SyncProofsStripe.

Definition empty_disk : cdisk := mkCD [] [] [] [].
(* the content file: every 'M' record with the files of its disk; SyncModel indexes the columns by position *)
Definition old_columns (disks : list (mapping * cdisk)) (w : nat) : list (option cdisk) :=
  map (fun p => match find (fun md => Nat.eqb (m_pos (fst md)) p) disks with Some md => Some (snd md) | None => None end) (seq 0 w).
(* the column of a configured disk after the remap: the position of the mapping that bears ITS name *)
Definition col_of (ms' : list mapping) (name : N) : option nat :=
  match find (fun m => N.eqb (m_name m) name) ms' with Some m => Some (m_pos m) | None => None end.
(* the load: the files of a record go to the disk the record was resolved to (state.c disk_mapping[]) *)
Definition lands (o : mopts) (cfg : list cfgdisk) (ms' : list mapping) (md : mapping * cdisk) (p : nat) : bool :=
  match resolve o cfg (fst md) with
  | Some d => match col_of ms' (g_name d) with Some q => Nat.eqb q p | None => false end
  | None => false
  end.
Definition new_columns (o : mopts) (cfg : list cfgdisk) (ms' : list mapping) (disks : list (mapping * cdisk)) (w : nat) : list (option cdisk) :=
  map (fun p => match find (fun md => lands o cfg ms' md p) disks with
                | Some md => Some (snd md)
                | None => if existsb (fun m => Nat.eqb (m_pos m) p) ms' then Some empty_disk else None    (* a new, empty disk / a hole *)
                end) (seq 0 w).
(* the same parity blocks read against more columns: the encoded vector zero-extended *)
Definition pad_penc (n : nat) (e : penc) : penc := match e with PEnc v => PEnc (v ++ repeat 0%N (n - length v)) | x => x end.
Definition pad_par (n : nat) (par : parity) : parity := map (map (pad_penc n)) par.

Lemma find_ext_in {A} (f g : A -> bool) l : (forall x, In x l -> f x = g x) -> find f l = find g l.
Proof.
  induction l as [|a t IH]; intro H; simpl; [reflexivity|]. rewrite (H a (or_introl eq_refl)).
  destruct (g a); [reflexivity|]. apply IH. intros x Hx. apply H. right. exact Hx.
Qed.
Lemma find_key_first (K1 K2 : list (N * nat)) n p :
  NoDup (map fst K1) -> In (n, p) K1 -> find (fun k => N.eqb (fst k) n) (K1 ++ K2) = Some (n, p).
Proof.
  induction K1 as [|[n0 p0] t IH]; intros Hn Hin; [destruct Hin|]. simpl in *.
  apply NoDup_cons_iff in Hn. destruct Hn as [Hnot Hn].
  destruct Hin as [E|Hin].
  - injection E as -> ->. rewrite N.eqb_refl. reflexivity.
  - destruct (N.eqb n0 n) eqn:E; [|apply IH; assumption].
    apply N.eqb_eq in E. subst n0. exfalso. apply Hnot. apply in_map_iff. exists (n, p). auto.
Qed.
Lemma col_of_keys ms' n : col_of ms' n = match find (fun k => N.eqb (fst k) n) (map key ms') with Some k => Some (snd k) | None => None end.
Proof.
  unfold col_of. induction ms' as [|m t IH]; simpl; [reflexivity|].
  destruct (N.eqb (m_name m) n); [reflexivity | exact IH].
Qed.

Section ParityValid.
  Variable hashf : bid -> N -> hval.
  Variable bs : N.

  Theorem remap_parity_valid o cfg (disks : list (mapping * cdisk)) ld ms' w w' inf bm inf' bm' par :
    remap o (map fst disks) cfg = Some ms' ->
    load_maps o cfg (map fst disks) = Some ld -> NoDup (map m_name ld) ->     (* no two records resolve to the same disk *)
    NoDup (map (fun md => m_pos (fst md)) disks) ->
    (forall md, In md disks -> m_pos (fst md) < w) -> w <= w' ->
    ParOK hashf bs (mkC (old_columns disks w) inf bm) par ->
    ParOK hashf bs (mkC (new_columns o cfg ms' disks w') inf' bm') (pad_par w' par).
  Proof.
    intros HR HL HN HP Hw Hww HPar.
    destruct (remap_shape o (map fst disks) cfg ms' HR) as (ld0 & news & El & Ek & _).
    rewrite HL in El. injection El as <-.
    destruct (load_maps_spec o cfg (map fst disks) ld HL) as (_ & P2 & _).
    (* every record lands in the column of its position *)
    assert (Hland : forall md p, In md disks -> lands o cfg ms' md p = Nat.eqb (m_pos (fst md)) p).
    { intros md p Hin. unfold lands.
      destruct (P2 (fst md) (in_map fst _ _ Hin)) as [d [Er Hk]]. rewrite Er, col_of_keys, Ek, map_app.
      rewrite (find_key_first (map key ld) (map key news) (g_name d) (m_pos (fst md))); [reflexivity | | exact Hk].
      rewrite map_map. exact HN. }
    set (c := mkC (old_columns disks w) inf bm). set (c' := mkC (new_columns o cfg ms' disks w') inf' bm').
    assert (Hslot : forall pos j, slot_of c' pos j = slot_of c pos j).
    { intros pos j. rewrite !slot_of_nth. unfold c, c'. cbn [c_disks]. unfold new_columns, old_columns.
      assert (Hnone : w <= j -> find (fun md : mapping * cdisk => Nat.eqb (m_pos (fst md)) j) disks = None).
      { intro Hj. destruct (find _ disks) as [md|] eqn:E; [|reflexivity]. apply find_some in E. destruct E as [E1 E2].
        apply Nat.eqb_eq in E2. specialize (Hw md E1). lia. }
      destruct (Nat.lt_ge_cases j w') as [Hj'|Hj'].
      - rewrite (nth_map_seq _ w' j None Hj').
        rewrite (find_ext_in _ (fun md => Nat.eqb (m_pos (fst md)) j) disks) by (intros md Hin; apply Hland; exact Hin).
        destruct (Nat.lt_ge_cases j w) as [Hj|Hj].
        + rewrite (nth_map_seq _ w j None Hj).
          destruct (find _ disks) as [md|]; [reflexivity|]. destruct (existsb _ ms'); reflexivity.
        + rewrite (nth_overflow (map _ (seq 0 w))) by (rewrite map_length, seq_length; exact Hj).
          rewrite (Hnone Hj). destruct (existsb _ ms'); reflexivity.
      - rewrite !nth_overflow by (rewrite map_length, seq_length; lia). reflexivity. }
    intros pos Hs lv' Hin. unfold pad_par in Hin. apply in_map_iff in Hin. destruct Hin as [lv [<- Hlv]].
    assert (Hs0 : stripe_synced c pos).
    { destruct Hs as [H1 [j H2]]. split; [intro k; rewrite <- Hslot; apply H1 | exists j; rewrite <- Hslot; exact H2]. }
    destruct (HPar pos Hs0 lv Hlv) as [v [E1 [L1 V1]]].
    assert (Lc : length (c_disks c) = w) by (unfold c, old_columns; cbn [c_disks]; rewrite map_length, seq_length; reflexivity).
    assert (Lc' : length (c_disks c') = w') by (unfold c', new_columns; cbn [c_disks]; rewrite map_length, seq_length; reflexivity).
    exists (v ++ repeat 0%N (w' - length v)). split.
    - change PNone with (pad_penc w' PNone). rewrite map_nth, E1. reflexivity.
    - assert (L1' : length v = w) by (rewrite L1; exact Lc).
      split; [rewrite app_length, repeat_length, Lc'; lia|].
      intros j Hj. rewrite Hslot. destruct (Nat.lt_ge_cases j w) as [Hjw|Hjw].
      + rewrite app_nth1 by lia. apply V1. cbn [c_disks]. unfold old_columns. rewrite map_length, seq_length. exact Hjw.
      + rewrite slot_of_out by (rewrite Lc; exact Hjw). simpl. rewrite app_nth2 by lia.
        destruct (Nat.lt_ge_cases (j - length v) (w' - length v)) as [H|H];
          [apply nth_repeat | apply nth_overflow; rewrite repeat_length; exact H].
  Qed.
End ParityValid.

(* ---------------------------------------------------------------------------------------------------------- *)
(* (5) the geometry of the seeded change C06e_1                                                                 *)
(* ---------------------------------------------------------------------------------------------------------- *)
(* names: dA = 1 (retired earlier: no 'M' record any more, position 0 is a hole), dB = 2 at position 1, dC = 3 at position 2;
   the configuration now calls dB's directory dX = 9 (listed first) and the sync runs with --test-match-first-uuid *)
Definition x_content : list mapping := [mkMap 2 1 0; mkMap 3 2 0].
Definition x_cfg : list cfgdisk := [mkCfg 9 None; mkCfg 3 None].
Definition x_opts : mopts := mkMO true true false 2 0.

Example rename_keeps_position :
  remap x_opts x_content x_cfg = Some [mkMap 9 1 0; mkMap 3 2 0].
Proof. vm_compute. reflexivity. Qed.
(* the seeded variant: the mapping stays under the old name, is dropped, and dX goes to the first hole *)
Example oldname_moves_disk :
  remap_oldname x_opts x_content x_cfg = Some [mkMap 3 2 0; mkMap 9 0 0].
Proof. vm_compute. reflexivity. Qed.

(* ... which breaks (1) *)
Example oldname_breaks_keeps_positions :
  exists o content cfg ms',
    remap_oldname o content cfg = Some ms' /\
    ~ (forall m, In m content -> exists d, resolve o cfg m = Some d /\ In (g_name d, m_pos m) (map key ms')).
Proof.
  exists x_opts, x_content, x_cfg, [mkMap 3 2 0; mkMap 9 0 0]. split; [vm_compute; reflexivity|].
  intro H. destruct (H (mkMap 2 1 0) (or_introl eq_refl)) as [d [E Hin]].
  vm_compute in E. injection E as <-. simpl in Hin. destruct Hin as [Hin|[Hin|[]]]; discriminate Hin.
Qed.

(* ... and (4): one block per disk, parity encoding [0; 5; 6] (dB's block 5 in column 1) *)
Definition x_hash (b : bid) (l : N) : hval := HReal b.
Definition x_disks : list (mapping * cdisk) :=
  [(mkMap 2 1 0, mkCD [mkCF 1 1024 0 0 1 false [mkFB SBlk 0 (HReal 5)]] [] [] []);
   (mkMap 3 2 0, mkCD [mkCF 1 1024 0 0 2 false [mkFB SBlk 0 (HReal 6)]] [] [] [])].
Definition x_par : parity := [[PEnc [0%N; 5%N; 6%N]]; [PEnc [0%N; 5%N; 6%N]]].
Definition x_old : content := mkC (old_columns x_disks 3) [] 1.
Definition x_new : content := mkC (new_columns x_opts x_cfg [mkMap 9 1 0; mkMap 3 2 0] x_disks 3) [] 1.
Definition x_new_mut : content := mkC (new_columns x_opts x_cfg [mkMap 3 2 0; mkMap 9 0 0] x_disks 3) [] 1.

Lemma x_old_ParOK : ParOK x_hash 1024 x_old x_par.
Proof.
  intros pos [Hs [j Hf]]. destruct pos as [|pos].
  - intros lv Hin. exists [0%N; 5%N; 6%N]. split; [destruct Hin as [<-|[<-|[]]]; reflexivity|].
    split; [reflexivity|]. intros k Hk. destruct k as [|[|[|k]]]; [vm_compute; reflexivity .. | simpl in Hk; lia].
  - exfalso. rewrite slot_of_nth in Hf. destruct j as [|[|[|j]]]; try discriminate Hf. destruct j; discriminate Hf.
Qed.
Lemma x_synced c : (forall j, slot_synced (slot_of c 0 j)) -> (exists j, slot_has_file (slot_of c 0 j) = true) -> stripe_synced c 0.
Proof. intros A B. split; assumption. Qed.

Example remap_parity_valid_example : ParOK x_hash 1024 x_new (pad_par 3 x_par).
Proof.
  unfold x_new.
  apply (remap_parity_valid x_hash 1024 x_opts x_cfg x_disks [mkMap 9 1 0; mkMap 3 2 0] [mkMap 9 1 0; mkMap 3 2 0] 3 3 [] 1 [] 1 x_par).
  - vm_compute. reflexivity.
  - vm_compute. reflexivity.
  - repeat constructor; simpl; intuition discriminate.
  - repeat constructor; simpl; intuition discriminate.
  - intros md [<-|[<-|[]]]; simpl; lia.
  - lia.
  - exact x_old_ParOK.
Qed.
Example oldname_breaks_parity : ~ ParOK x_hash 1024 x_new_mut (pad_par 3 x_par).
Proof.
  intro H.
  assert (Hs : stripe_synced x_new_mut 0).
  { split; [|exists 0; reflexivity]. intro j. destruct j as [|[|[|j]]]; [reflexivity | exact I | reflexivity|].
    rewrite slot_of_out by (simpl; lia). exact I. }
  destruct (H 0 Hs _ (or_introl eq_refl)) as [v [E [_ V]]]. vm_compute in E. injection E as <-.
  specialize (V 0). assert (H0 : 0 < length (c_disks x_new_mut)) by (vm_compute; lia). specialize (V H0).
  vm_compute in V. discriminate V.
Qed.
