(* C06 "after every command": the invariant through scan, load (clear_past_hash, -N), the sync loop, save, changes of
   info words (scrub, bad marks), changes of nanoseconds (touch), and the parity writes of fix.

   The invariant that is threaded is  MapOK c /\ forall pos, PastLen hashf bs c par pos,  where PastLen is PastOK with
   the length of a CHG block's past hash left open ("v_j hashes to the recorded hash over SOME length"): this is what
   the scan really preserves (scan.c:286 copies the past hash of the block that stood at the position, whatever the two
   block lengths: F-C05b).  ParOK follows from PastLen (PastLen_all_ParOK).  The sync loop preserves it when equal
   unique hashes force equal lengths (LenInj / LenInjOn: the collision-freedom hypothesis the scan builder left as a
   conjecture in Props/Properties_C11.v, proved here as sync_stripe_par_collfree); without it the statement is false
   (all_commands_needs_leninj). *)
From Coq Require Import NArith ZArith List Bool Arith Lia.
From Snap.Array Require Import ArrayDefs SyncModel SyncProofsDefs SyncProofsStripe SyncProofsLoop.
From Snap.Scan Require Import ScanModel ScanMap ScanPar ScanC06.
From Snap.Fix Require FixModel.
Import ListNotations.

(* ---------------------------------------------------------------------------------------------------------- *)
(* what the invariant reads in a slot: kind, file size, block index, block (coarser than sview_of)              *)
(* ---------------------------------------------------------------------------------------------------------- *)
Inductive score := CEmpty | CFile (size : N) (idx : nat) (b : fblock) | CDel (h : hval).
Definition score_of (s : slot) : score :=
  match s with SEmpty => CEmpty | SFile f i b => CFile (cf_size f) i b | SDeleted h => CDel h end.
Definition same_core (c c' : content) (pos : nat) : Prop :=
  length (c_disks c') = length (c_disks c) /\ forall j, score_of (slot_of c' pos j) = score_of (slot_of c pos j).

Lemma same_core_sym c c' pos : same_core c c' pos -> same_core c' c pos.
Proof. intros [H1 H2]. split; [symmetry; exact H1 | intro j; symmetry; apply H2]. Qed.
Lemma same_views_core c c' pos : same_views c c' pos -> same_core c c' pos.
Proof.
  intros [H1 H2]. split; [exact H1|]. intro j. specialize (H2 j).
  destruct (slot_of c pos j), (slot_of c' pos j); simpl in *; inversion H2; subst; congruence.
Qed.
Lemma same_slots_core c c' pos :
  length (c_disks c') = length (c_disks c) -> (forall j, slot_of c' pos j = slot_of c pos j) -> same_core c c' pos.
Proof. intros H1 H2. split; [exact H1 | intro j; rewrite H2; reflexivity]. Qed.

Lemma core_quiet s s' : score_of s' = score_of s -> slot_quiet s -> slot_quiet s'.
Proof. destruct s, s'; simpl; intro H; inversion H; subst; auto. Qed.
Lemma core_synced s s' : score_of s' = score_of s -> slot_synced s -> slot_synced s'.
Proof. destruct s, s'; simpl; intro H; inversion H; subst; auto. Qed.
Lemma core_has_file s s' : score_of s' = score_of s -> slot_has_file s' = slot_has_file s.
Proof. destruct s, s'; simpl; intro H; inversion H; subst; auto. Qed.
Lemma core_enc hashf bs s s' x : score_of s' = score_of s -> slot_enc hashf bs s x -> slot_enc hashf bs s' x.
Proof. destruct s, s'; simpl; intro H; inversion H; subst; auto; congruence. Qed.

Lemma same_core_quiet c c' pos : same_core c c' pos -> stripe_quiet c pos -> stripe_quiet c' pos.
Proof.
  intros [_ Hv] [H1 [j H2]]. split.
  - intro k. eapply core_quiet; [apply Hv | apply H1].
  - exists j. rewrite (core_has_file _ _ (Hv j)). exact H2.
Qed.
Lemma same_core_synced c c' pos : same_core c c' pos -> stripe_synced c pos -> stripe_synced c' pos.
Proof.
  intros [_ Hv] [H1 [j H2]]. split.
  - intro k. eapply core_synced; [apply Hv | apply H1].
  - exists j. rewrite (core_has_file _ _ (Hv j)). exact H2.
Qed.
Lemma same_core_enc hashf bs c c' pos v : same_core c c' pos -> enc_ok hashf bs c pos v -> enc_ok hashf bs c' pos v.
Proof.
  intros [Hl Hv] [H1 H2]. split; [congruence|].
  intros j Hj. eapply core_enc; [apply Hv | apply H2]. rewrite <- Hl. exact Hj.
Qed.

(* ---------------------------------------------------------------------------------------------------------- *)
(* PastLen                                                                                                      *)
(* ---------------------------------------------------------------------------------------------------------- *)
Section Weak.
  Variable hashf : bid -> N -> hval.
  Variable bs : N.
  (* the (block, length) pairs among which hash collisions across lengths are excluded *)
  Variable U : bid -> N -> Prop.

  Definition slot_wenc (s : slot) (x : bid) : Prop :=
    match s with
    | SFile f idx b =>
        match fb_state b with
        | SChg => exists l, U x l /\ hashf x l = fb_hash b
        | _ => hashf x (block_len bs (cf_size f) idx) = fb_hash b
        end
    | SEmpty => x = 0%N
    | SDeleted _ => True
    end.
  Definition wenc_ok (c : content) (pos : nat) (v : list bid) : Prop :=
    length v = length (c_disks c) /\
    forall j, j < length (c_disks c) -> slot_wenc (slot_of c pos j) (nth j v 0%N).
  Definition wpar_enc (c : content) (par : parity) (pos : nat) : Prop :=
    forall lv, In lv par -> exists v, nth pos lv PNone = PEnc v /\ wenc_ok c pos v.
  Definition PastLenU (c : content) (par : parity) (pos : nat) : Prop :=
    stripe_quiet c pos -> wpar_enc c par pos.
  Definition LenInjOn : Prop :=
    forall x l x' l', U x l -> U x' l' -> hashf x l = hashf x' l' -> h_unique (hashf x l) = true -> l = l'.

  Lemma core_wenc s s' x : score_of s' = score_of s -> slot_wenc s x -> slot_wenc s' x.
  Proof. destruct s, s'; simpl; intro H; inversion H; subst; auto. Qed.
  Lemma synced_wenc_enc s x : slot_synced s -> slot_wenc s x -> slot_enc hashf bs s x.
  Proof. destruct s as [|f i b|h]; simpl; auto. intro H. rewrite H. auto. Qed.
  Lemma same_core_wenc c c' pos v : same_core c c' pos -> wenc_ok c pos v -> wenc_ok c' pos v.
  Proof.
    intros [Hl Hv] [H1 H2]. split; [congruence|].
    intros j Hj. eapply core_wenc; [apply Hv | apply H2]. rewrite <- Hl. exact Hj.
  Qed.
  Lemma same_core_wpar_enc c c' par pos : same_core c c' pos -> wpar_enc c par pos -> wpar_enc c' par pos.
  Proof.
    intros Hv H lv Hin. destruct (H lv Hin) as [v [E1 E2]]. exists v. split; [exact E1|].
    eapply same_core_wenc; eauto.
  Qed.
  Lemma same_core_PastLenU c c' par pos : same_core c c' pos -> PastLenU c par pos -> PastLenU c' par pos.
  Proof.
    intros Hv H Hq. eapply same_core_wpar_enc; [exact Hv|]. apply H.
    eapply same_core_quiet; [apply same_core_sym; exact Hv | exact Hq].
  Qed.
  Lemma synced_wenc_ok_enc c pos v : stripe_synced c pos -> wenc_ok c pos v -> enc_ok hashf bs c pos v.
  Proof. intros [Hs _] [H1 H2]. split; [exact H1|]. intros j Hj. apply synced_wenc_enc; [apply Hs | apply H2; exact Hj]. Qed.

  (* ParOK is the synced part of PastLen *)
  Lemma PastLenU_all_ParOK c par : (forall pos, PastLenU c par pos) -> ParOK hashf bs c par.
  Proof.
    intros H pos Hs lv Hin. destruct (H pos (stripe_synced_quiet _ _ Hs) lv Hin) as [v [E1 E2]].
    exists v. split; [exact E1 | apply synced_wenc_ok_enc; assumption].
  Qed.
End Weak.

Definition Uall : bid -> N -> Prop := fun _ _ => True.
Definition PastLen hashf bs := PastLenU hashf bs Uall.
(* equal unique hashes are hashes over equal lengths *)
Definition LenInj (hashf : bid -> N -> hval) : Prop :=
  forall x l x' l', hashf x l = hashf x' l' -> h_unique (hashf x l) = true -> l = l'.
Lemma LenInj_On hashf : LenInj hashf -> LenInjOn hashf Uall.
Proof. intros H x l x' l' _ _. apply H. Qed.

Lemma enc_wenc hashf bs s x : slot_enc hashf bs s x -> slot_wenc hashf bs Uall s x.
Proof.
  destruct s as [|f i b|h]; simpl; auto. intro H. destruct (fb_state b); auto.
  exists (block_len bs (cf_size f) i). split; [exact I | exact H].
Qed.
Lemma enc_ok_wenc hashf bs c pos v : enc_ok hashf bs c pos v -> wenc_ok hashf bs Uall c pos v.
Proof. intros [H1 H2]. split; [exact H1|]. intros j Hj. apply enc_wenc. apply H2. exact Hj. Qed.
Lemma par_enc_wpar hashf bs c par pos : par_enc hashf bs c par pos -> wpar_enc hashf bs Uall c par pos.
Proof. intros H lv Hin. destruct (H lv Hin) as [v [E1 E2]]. exists v. split; [exact E1 | apply enc_ok_wenc; exact E2]. Qed.
Lemma PastOK_PastLen hashf bs c par pos : PastOK hashf bs c par pos -> PastLen hashf bs c par pos.
Proof. intros H Hq. apply par_enc_wpar. apply H. exact Hq. Qed.
Lemma PastLen_all_ParOK hashf bs c par : (forall pos, PastLen hashf bs c par pos) -> ParOK hashf bs c par.
Proof. apply PastLenU_all_ParOK. Qed.

(* ---------------------------------------------------------------------------------------------------------- *)
(* the sync iteration under collision-freedom across lengths                                                    *)
(* ---------------------------------------------------------------------------------------------------------- *)
Section StripeLen.
  Variable hashf : bid -> N -> hval.
  Variable bs : N.
  Variable nlev : nat.

  (* a stripe found synced after an iteration that wrote no parity: every block that was CHG was read, and its data
     hashes (over the block's length) to the hash it carried *)
  Lemma nowrite_hashes o now iob c par fs faults pos :
    faults_wf bs c pos faults ->
    so_write (sync_stripe hashf bs nlev o now iob c par fs faults pos) = None ->
    stripe_synced (so_content (sync_stripe hashf bs nlev o now iob c par fs faults pos)) pos ->
    forall j f i b, slot_of c pos j = SFile f i b -> fb_state b = SChg ->
      exists blk, ss_rd bs c fs faults pos j = RdOk blk (block_len bs (cf_size f) i)
                  /\ hashf blk (block_len bs (cf_size f) i) = fb_hash b.
  Proof.
    intro Hwf. rewrite sync_stripe_eq. cbv zeta.
    destruct (a_bail (ss_A hashf bs o iob c fs faults pos)) eqn:Hbail; simpl.
    { intros _ [H _] j f i b Hs Hc. specialize (H j). rewrite Hs in H. simpl in H. congruence. }
    destruct (ss_proceed (ss_A hashf bs o iob c fs faults pos)
                         (ss_fixed hashf bs nlev (ss_A hashf bs o iob c fs faults pos) c par fs faults pos)) eqn:Hpro.
    - destruct (a_need (ss_A hashf bs o iob c fs faults pos)) eqn:Hn; simpl; [discriminate|].
      intros _ _ j f i b Hs Hc.
      assert (Hj : j < length (c_disks c)).
      { destruct (Nat.lt_ge_cases j (length (c_disks c))) as [H|H]; [exact H|].
        rewrite slot_of_out in Hs by exact H. discriminate. }
      destruct (file_read hashf bs nlev o iob c par fs faults pos Hbail Hwf Hpro j f i b Hj Hs) as [blk Hr].
      exists blk. split; [exact Hr|].
      destruct (noneed_quiet hashf bs nlev o iob c par fs faults pos Hbail Hwf Hpro Hn j Hj) as [_ HQ].
      rewrite Hs in HQ. rewrite (ss_nh_char hashf bs o iob c fs faults pos Hbail j Hj) in HQ.
      rewrite Hs, Hr in HQ. unfold newh, x_nh in HQ. rewrite Hc in HQ. exact HQ.
    - simpl. intros _ [H _] j f i b Hs Hc. specialize (H j).
      rewrite ss_disks_slot in H. rewrite slot_of_nth in Hs.
      destruct (nth j (c_disks c) None) as [d|]; [|discriminate].
      rewrite skipped_disk_slot in H. rewrite Hs in H. simpl in H. congruence.
  Qed.

  Definition reads_in (U : bid -> N -> Prop) c fs faults pos : Prop :=
    forall j blk len, ss_rd bs c fs faults pos j = RdOk blk len -> U blk len.

  Lemma nowrite_enc U o now iob c par fs faults pos v :
    faults_wf bs c pos faults -> reads_in U c fs faults pos -> LenInjOn hashf U ->
    so_write (sync_stripe hashf bs nlev o now iob c par fs faults pos) = None ->
    stripe_synced (so_content (sync_stripe hashf bs nlev o now iob c par fs faults pos)) pos ->
    wenc_ok hashf bs U c pos v ->
    enc_ok hashf bs (so_content (sync_stripe hashf bs nlev o now iob c par fs faults pos)) pos v.
  Proof.
    intros Hwf HR HI Hw Hs [W1 W2].
    pose proof (stripe_local hashf bs nlev o now iob c par fs faults pos Hwf) as HL. cbv zeta in HL.
    specialize (HL Hs). rewrite Hw in HL. destruct HL as [[HQ _] HT]. apply HT.
    split; [exact W1|]. intros j Hj. specialize (W2 j Hj). specialize (HQ j).
    destruct (slot_of c pos j) as [|f i b|h] eqn:Es; simpl in *; auto.
    destruct (fb_state b) eqn:Est; auto.
    destruct W2 as [l [Ul El]].
    destruct (nowrite_hashes o now iob c par fs faults pos Hwf Hw Hs j f i b Es Est) as [blk [Hr Hh]].
    destruct HQ as [HQ|[_ Hu]]; [discriminate|].
    assert (l = block_len bs (cf_size f) i).
    { apply (HI (nth j v 0%N) l blk (block_len bs (cf_size f) i)); [exact Ul | eapply HR; exact Hr | congruence | rewrite El; exact Hu]. }
    subst l. exact El.
  Qed.

  (* the conjecture of Props/Properties_C11.v: PastOK may fail through cross-length past hashes (PastLenU is all that
     is left of it); with no collision across lengths among the pairs met (those behind the past hashes and those read)
     the iteration still preserves ParOK *)
  Theorem sync_stripe_par_collfree U o now iob c par fs faults pos :
    faults_wf bs c pos faults -> ParOK hashf bs c par -> PastLenU hashf bs U c par pos ->
    reads_in U c fs faults pos -> LenInjOn hashf U ->
    let r := sync_stripe hashf bs nlev o now iob c (map (fun lv => nth pos lv PNone) par) fs faults pos in
    let par' := match so_write r with Some v => set_parity par pos v | None => par end in
    ParOK hashf bs (so_content r) par'.
  Proof.
    intros Hwf HP HPast HR HI r par' p Hsyn lv' Hin.
    destruct (Nat.eq_dec p pos) as [->|Hp].
    - pose proof (stripe_local hashf bs nlev o now iob c (map (fun lv => nth pos lv PNone) par) fs faults pos Hwf) as HL.
      cbv zeta in HL. fold r in HL. specialize (HL Hsyn). unfold par' in Hin.
      destruct (so_write r) as [vec|] eqn:Ew.
      + apply in_set_parity in Hin. destruct Hin as [lv [_ ->]]. exists vec. split; [apply nth_set_ext_same | exact HL].
      + destruct HL as [HQ _]. destruct (HPast HQ lv' Hin) as [v [E1 E2]]. exists v. split; [exact E1|].
        exact (nowrite_enc U o now iob c _ fs faults pos v Hwf HR HI Ew Hsyn E2).
    - destruct (sync_stripe_other_stripes hashf bs nlev o now iob c (map (fun lv => nth pos lv PNone) par) fs faults pos) as [_ HF].
      fold r in HF. destruct (HF p Hp) as (HV & _ & HS & _ & HE).
      apply HS in Hsyn. specialize (HP p Hsyn). unfold par' in Hin.
      destruct (so_write r) as [vec|].
      + apply in_set_parity in Hin. destruct Hin as [lv [Hlv ->]].
        destruct (HP lv Hlv) as [v [E1 E2]]. exists v. split; [|apply HE; exact E2].
        rewrite nth_set_ext_other by exact Hp. exact E1.
      + destruct (HP lv' Hin) as [v [E1 E2]]. exists v. split; [exact E1 | apply HE; exact E2].
  Qed.

  Lemma wpar_enc_set_other U c par pos v p :
    p <> pos -> wpar_enc hashf bs U c par p -> wpar_enc hashf bs U c (set_parity par pos v) p.
  Proof.
    intros Hp H lv' Hin. apply in_set_parity in Hin. destruct Hin as [lv [Hlv ->]].
    destruct (H lv Hlv) as [w [E1 E2]]. exists w. split; [|exact E2].
    rewrite nth_set_ext_other by exact Hp. exact E1.
  Qed.

  (* PastLen at every position is an invariant of the iteration *)
  Theorem sync_stripe_pastlen o now iob c par fs faults pos :
    LenInj hashf -> faults_wf bs c pos faults -> (forall p, PastLen hashf bs c par p) ->
    let r := sync_stripe hashf bs nlev o now iob c (map (fun lv => nth pos lv PNone) par) fs faults pos in
    let par' := match so_write r with Some v => set_parity par pos v | None => par end in
    forall p, PastLen hashf bs (so_content r) par' p.
  Proof.
    intros HI Hwf HPL r par' p.
    assert (HPar : ParOK hashf bs (so_content r) par').
    { apply (sync_stripe_par_collfree Uall); auto.
      - apply PastLen_all_ParOK. exact HPL.
      - apply HPL.
      - intros j blk len _. exact I.
      - apply LenInj_On. exact HI. }
    destruct (Nat.eq_dec p pos) as [->|Hp].
    - intro Hq.
      destruct (sync_stripe_quiet_after hashf bs nlev o now iob c (map (fun lv => nth pos lv PNone) par) fs faults pos Hq) as [Hs|[HV Hw]].
      + apply par_enc_wpar. exact (HPar pos Hs).
      + fold r in Hw, HV. unfold par'. rewrite Hw.
        eapply same_core_wpar_enc; [apply same_views_core; exact HV|]. apply HPL.
        eapply same_views_quiet; [apply same_views_sym; exact HV | exact Hq].
    - destruct (sync_stripe_other_stripes hashf bs nlev o now iob c (map (fun lv => nth pos lv PNone) par) fs faults pos) as [_ HF].
      fold r in HF. destruct (HF p Hp) as (HV & _ & _ & HQ & _).
      intro Hq. apply HQ in Hq.
      eapply same_core_wpar_enc; [apply same_views_core; exact HV|].
      pose proof (HPL p Hq) as HE. unfold par'.
      destruct (so_write r); [apply wpar_enc_set_other; assumption | exact HE].
  Qed.

  (* the loop: any list of stripes (repetitions allowed), any stop, bailing runs included *)
  Theorem sync_loop_pastlen : LenInj hashf -> forall stripes o now fs faults stop c par ne ns ni,
    (forall p, In p stripes -> faults_wf bs c p (faults p)) ->
    MapOK c -> (forall p, PastLen hashf bs c par p) ->
    let r := sync_loop hashf bs nlev o now fs faults stripes stop c par ne ns ni in
    MapOK (ro_content r) /\ forall p, PastLen hashf bs (ro_content r) (ro_parity r) p.
  Proof.
    intro HI. induction stripes as [|pos rest IH]; intros o now fs faults stop c par ne ns ni Hwf HM HPL.
    - simpl. auto.
    - cbn [sync_loop].
      destruct (negb (stripe_enabled o (map (fun od => match od with Some d => slot_at d pos | None => SEmpty end) (c_disks c)))).
      + apply IH; auto. intros p Hp. apply Hwf. right. exact Hp.
      + assert (Hw0 : faults_wf bs c pos (faults pos)) by (apply Hwf; left; reflexivity).
        pose proof (sync_stripe_pastlen o now ni c par fs (faults pos) pos HI Hw0 HPL) as HS. cbv zeta in HS.
        pose proof (sync_stripe_map hashf bs nlev o now ni c (map (fun lv => nth pos lv PNone) par) fs (faults pos) pos HM) as HM'.
        assert (HW' : forall p, In p rest ->
                  faults_wf bs (so_content (sync_stripe hashf bs nlev o now ni c (map (fun lv => nth pos lv PNone) par) fs (faults pos) pos)) p (faults p)).
        { intros p Hp. apply sync_stripe_faults_wf. apply Hwf. right. exact Hp. }
        assert (Hbail : so_bail (sync_stripe hashf bs nlev o now ni c (map (fun lv => nth pos lv PNone) par) fs (faults pos) pos) = true ->
                        forall p, PastLen hashf bs (so_content (sync_stripe hashf bs nlev o now ni c (map (fun lv => nth pos lv PNone) par) fs (faults pos) pos)) par p).
        { intro Hb. apply sync_stripe_bail_nowrite in Hb. rewrite Hb in HS. exact HS. }
        destruct stop as [[|k]|].
        * simpl. auto.
        * cbv zeta.
          destruct (so_bail (sync_stripe hashf bs nlev o now ni c (map (fun lv => nth pos lv PNone) par) fs (faults pos) pos)) eqn:Eb.
          -- simpl. split; [exact HM' | apply Hbail; reflexivity].
          -- apply IH; auto.
        * cbv zeta.
          destruct (so_bail (sync_stripe hashf bs nlev o now ni c (map (fun lv => nth pos lv PNone) par) fs (faults pos) pos)) eqn:Eb.
          -- simpl. split; [exact HM' | apply Hbail; reflexivity].
          -- apply IH; auto.
  Qed.
End StripeLen.

(* ---------------------------------------------------------------------------------------------------------- *)
(* the other commands                                                                                           *)
(* ---------------------------------------------------------------------------------------------------------- *)
Section Others.
  Variable hashf : bid -> N -> hval.
  Variable bs : N.

  (* --- any change that keeps the cores of all slots (and the block map) --- *)
  Lemma same_core_all_PastLen c c' par :
    (forall pos, same_core c c' pos) -> (forall pos, PastLen hashf bs c par pos) -> forall pos, PastLen hashf bs c' par pos.
  Proof. intros HC H pos. eapply same_core_PastLenU; [apply HC | apply H]. Qed.

  (* --- (b) the info array (and the recorded parity size): nothing of the invariant reads them --- *)
  Lemma slot_of_disks c c' pos j : c_disks c' = c_disks c -> slot_of c' pos j = slot_of c pos j.
  Proof. intro H. rewrite !slot_of_nth. rewrite H. reflexivity. Qed.
  Lemma info_change_inv c c' par :
    c_disks c' = c_disks c -> MapOK c -> (forall pos, PastLen hashf bs c par pos) ->
    MapOK c' /\ forall pos, PastLen hashf bs c' par pos.
  Proof.
    intros H HM HP. split.
    - intros d Hd. apply HM. rewrite <- H. exact Hd.
    - apply (same_core_all_PastLen c); [|exact HP]. intro pos. apply same_slots_core; [rewrite H; reflexivity|].
      intro j. apply slot_of_disks. exact H.
  Qed.
  Lemma info_change_MapOK_ParOK c c' par :
    c_disks c' = c_disks c -> MapOK c -> ParOK hashf bs c par -> MapOK c' /\ ParOK hashf bs c' par.
  Proof.
    intros H HM HP. split.
    - intros d Hd. apply HM. rewrite <- H. exact Hd.
    - intros pos Hs. assert (HC : same_core c' c pos).
      { apply same_slots_core; [rewrite H; reflexivity|]. intro j. symmetry. apply slot_of_disks. exact H. }
      intros lv Hin. destruct (HP pos (same_core_synced _ _ _ HC Hs) lv Hin) as [v [E1 E2]].
      exists v. split; [exact E1 | eapply same_core_enc; [apply same_core_sym; exact HC | exact E2]].
  Qed.

  (* --- (c) the nanoseconds of recorded files (touch) --- *)
  Definition file_nsec_sim (f f' : cfile) : Prop :=
    cf_name f' = cf_name f /\ cf_size f' = cf_size f /\ cf_mtime f' = cf_mtime f /\ cf_inode f' = cf_inode f
    /\ cf_copy f' = cf_copy f /\ cf_blocks f' = cf_blocks f.
  Definition disk_nsec_sim (od od' : option cdisk) : Prop :=
    match od, od' with
    | Some d, Some d' => Forall2 file_nsec_sim (cd_files d) (cd_files d') /\ cd_deleted d' = cd_deleted d
                         /\ cd_links d' = cd_links d /\ cd_dirs d' = cd_dirs d
    | None, None => True
    | _, _ => False
    end.
  Definition nsec_only (c c' : content) : Prop := Forall2 disk_nsec_sim (c_disks c) (c_disks c').

  Lemma nsec_find_in_files pos fl fl' :
    Forall2 file_nsec_sim fl fl' ->
    match find_in_files pos fl, find_in_files pos fl' with
    | Some (f, i, b), Some (f', i', b') => cf_size f' = cf_size f /\ i' = i /\ b' = b
    | None, None => True
    | _, _ => False
    end.
  Proof.
    induction 1 as [|f f' t t' Hf Ht IH]; simpl; [exact I|].
    destruct Hf as (_ & Hsz & _ & _ & _ & Hb). rewrite Hb.
    destruct (find_in_file pos 0 (cf_blocks f)) as [[i b]|]; [auto | exact IH].
  Qed.
  Lemma nsec_file_poss fl fl' : Forall2 file_nsec_sim fl fl' -> map file_poss fl' = map file_poss fl.
  Proof.
    induction 1 as [|f f' t t' Hf Ht IH]; simpl; [reflexivity|].
    destruct Hf as (_ & _ & _ & _ & _ & Hb). unfold file_poss at 1 3. rewrite Hb, IH. reflexivity.
  Qed.
  Lemma Forall2_len {A B} (R : A -> B -> Prop) l l' : Forall2 R l l' -> length l = length l'.
  Proof. induction 1; simpl; congruence. Qed.
  Lemma Forall2_nth_opt {A} (R : option A -> option A -> Prop) l l' j :
    R None None -> Forall2 R l l' -> R (nth j l None) (nth j l' None).
  Proof. intros H0 H. revert j. induction H; intro j; destruct j; simpl; auto. Qed.

  Lemma nsec_only_core c c' pos : nsec_only c c' -> same_core c c' pos.
  Proof.
    intro H. split; [symmetry; exact (Forall2_len _ _ _ H)|].
    intro j. rewrite !slot_of_nth.
    pose proof (Forall2_nth_opt disk_nsec_sim _ _ j I H) as Hj.
    destruct (nth j (c_disks c) None) as [d|], (nth j (c_disks c') None) as [d'|]; simpl in Hj; try contradiction; [|reflexivity].
    destruct Hj as (Hf & Hd & _). unfold slot_at. rewrite Hd.
    pose proof (nsec_find_in_files pos _ _ Hf) as HF.
    destruct (find_in_files pos (cd_files d)) as [[[f i] b]|], (find_in_files pos (cd_files d')) as [[[f' i'] b']|]; try contradiction.
    - destruct HF as (A & B & C). subst. simpl. rewrite A. reflexivity.
    - reflexivity.
  Qed.
  Lemma nsec_only_inv c c' par :
    nsec_only c c' -> MapOK c -> (forall pos, PastLen hashf bs c par pos) ->
    MapOK c' /\ forall pos, PastLen hashf bs c' par pos.
  Proof.
    intros H HM HP. split.
    - intros d' Hd'. destruct (In_nth _ _ None Hd') as [j [Hj E]].
      pose proof (Forall2_nth_opt disk_nsec_sim _ _ j I H) as Hs. rewrite E in Hs.
      destruct (nth j (c_disks c) None) as [d|] eqn:Ed; simpl in Hs; [|contradiction].
      destruct Hs as (Hf & Hdel & _). unfold MapOK_disk. rewrite Hdel, (nsec_file_poss _ _ Hf).
      apply HM. rewrite <- Ed. apply nth_In. rewrite (Forall2_len _ _ _ H). exact Hj.
    - apply (same_core_all_PastLen c); [|exact HP]. intro pos. apply nsec_only_core. exact H.
  Qed.

  (* --- saving --- *)
  Lemma save_hasfile_slots c pos :
    (exists j, slot_has_file (slot_of (save_normalise c) pos j) = true) ->
    forall j, slot_of (save_normalise c) pos j = slot_of c pos j.
  Proof.
    intros [j0 Hf] j. rewrite save_slot in *.
    assert (Hin : In pos (file_positions c)).
    { destruct (slot_of c pos j0) as [|f i b|h] eqn:E.
      - discriminate.
      - eapply slot_file_pos; eauto.
      - destruct ((pos <? allocated_size c)%nat && position_required c pos); discriminate. }
    assert (H1 : (pos <? allocated_size c)%nat = true).
    { apply Nat.ltb_lt. unfold allocated_size. apply fold_max_In. exact Hin. }
    assert (H2 : position_required c pos = true).
    { unfold position_required. apply existsb_exists. exists pos. split; [exact Hin | apply Nat.eqb_refl]. }
    rewrite H1, H2. simpl. destruct (slot_of c pos j); reflexivity.
  Qed.
  Lemma save_PastLen c par :
    (forall pos, PastLen hashf bs c par pos) -> forall pos, PastLen hashf bs (save_normalise c) par pos.
  Proof.
    intros HP pos Hq. pose proof (save_hasfile_slots c pos (proj2 Hq)) as HS.
    assert (HC : same_core c (save_normalise c) pos) by (apply same_slots_core; [apply save_length | exact HS]).
    exact (same_core_PastLenU hashf bs Uall _ _ par pos HC (HP pos) Hq).
  Qed.

  (* --- loading: clear_past_hash, and -N (force_nocopy) --- *)
  Lemma clear_PastLen c par :
    MapOK c -> (forall pos, PastLen hashf bs c par pos) -> forall pos, PastLen hashf bs (clear_past c) par pos.
  Proof.
    intros HM HP pos. apply PastOK_PastLen.
    destruct (clear_past_inv hashf bs c par HM (PastLen_all_ParOK hashf bs c par HP)) as (_ & _ & H). apply H.
  Qed.

  Definition gN (b : fblock) : fblock := match fb_state b with SRep => mkFB SChg (fb_pos b) HInvalid | _ => b end.
  Lemma gN_pos b : fb_pos (gN b) = fb_pos b.
  Proof. unfold gN. destruct (fb_state b); reflexivity. Qed.
  Lemma nocopy_slot c pos j :
    slot_of (nocopy_load c) pos j =
    match slot_of c pos j with SFile f i b => SFile (mapf gN f) i (gN b) | s => s end.
  Proof.
    rewrite !slot_of_nth. unfold nocopy_load. cbn [c_disks].
    rewrite nth_map_opt by reflexivity.
    destruct (nth j (c_disks c) None) as [d|]; [|reflexivity].
    change (slot_at (mkCD (map (mapf gN) (cd_files d)) (cd_deleted d) (cd_links d) (cd_dirs d)) pos =
            match slot_at d pos with SFile f i b => SFile (mapf gN f) i (gN b) | s => s end).
    rewrite slot_at_mapped by apply gN_pos. unfold slot_at.
    destruct (find_in_files pos (cd_files d)) as [[[f i] b]|]; [reflexivity|].
    destruct (find_deleted pos (cd_deleted d)); reflexivity.
  Qed.
  Lemma nocopy_inv c par :
    MapOK c -> (forall pos, PastLen hashf bs c par pos) ->
    MapOK (nocopy_load c) /\ forall pos, PastLen hashf bs (nocopy_load c) par pos.
  Proof.
    intros HM HP. split.
    - intros d' Hin. unfold nocopy_load in Hin. cbn [c_disks] in Hin.
      apply in_map_iff in Hin. destruct Hin as [[d|] [E Hin]]; [|discriminate]. injection E as <-.
      specialize (HM d Hin). unfold MapOK_disk in *. cbn [cd_files cd_deleted].
      change (map_ok (map file_poss (map (mapf gN) (cd_files d))) (map fst (cd_deleted d))).
      rewrite map_file_poss_mapf by apply gN_pos. exact HM.
    - intros pos Hq.
      assert (HC : same_core c (nocopy_load c) pos).
      { split; [unfold nocopy_load; cbn [c_disks]; apply map_length|].
        intro j. destruct Hq as [Hq _]. specialize (Hq j). rewrite nocopy_slot in *.
        destruct (slot_of c pos j) as [|f i b|h]; try reflexivity. simpl in *.
        unfold gN in *. destruct (fb_state b) eqn:E; simpl in *; try reflexivity.
        destruct Hq as [Hq|[_ Hq]]; discriminate. }
      exact (same_core_PastLenU hashf bs Uall _ _ par pos HC (HP pos) Hq).
  Qed.

  (* --- (a) the scan: the proof of scan_preserves_PastOK_partial with the length left open --- *)
  Theorem scan_preserves_PastLen basef clearpast nocopy inf usable c par listing o :
    MapOK c -> (forall pos, PastLen hashf bs c par pos) ->
    (clearpast = true -> past_cleared c) ->
    scan basef bs clearpast nocopy inf usable c listing = Some o ->
    forall pos, PastLen hashf bs (sc_content o) par pos.
  Proof.
    intros M Q PC H pos. destruct (slot_rel_content basef bs clearpast nocopy inf usable c listing o M H) as [L R].
    intros [Hall [j0 Hfile]].
    assert (Hrel : forall j, slot_quiet (slot_of c pos j) /\
                             (slot_has_file (slot_of (sc_content o) pos j) = true -> slot_has_file (slot_of c pos j) = true) /\
                             forall x, slot_wenc hashf bs Uall (slot_of c pos j) x -> slot_wenc hashf bs Uall (slot_of (sc_content o) pos j) x).
    { intro j. specialize (Hall j). pose proof (R pos j) as Rj. unfold slot_rel in Rj.
      destruct (slot_of (sc_content o) pos j) as [|f' i b'|h] eqn:Es'; simpl in Hall.
      - rewrite Rj. simpl. auto.
      - destruct Rj as [[f0 [E S]] | [NB Hnew]].
        + rewrite E. simpl. split; [exact Hall|]. split; [auto|]. intros x Hx. rewrite <- S. exact Hx.
        + destruct Hall as [Hb | [Hc Hu]]; [contradiction|].
          destruct (Hnew Hc Hu) as [Ecp [Ed | [f0 [i0 [b0 [E Eh]]]]]].
          * exfalso. destruct (slot_of_deleted_in c pos j _ Ed) as [d [Hd Hin]].
            destruct (PC Ecp d Hd) as [_ PD]. specialize (PD _ Hin). simpl in PD. congruence.
          * destruct (slot_of_file_in c pos j f0 i0 b0 E) as [d [Hd [Hf0 Hb0]]]. destruct (PC Ecp d Hd) as [PF _].
            unfold past_of in Eh. destruct (fb_state b0) eqn:S0.
            -- rewrite E. simpl. split; [left; exact S0|]. split; [auto|]. rewrite S0, Hc. intros x Hx.
               exists (block_len bs (cf_size f0) i0). split; [exact I | congruence].
            -- exfalso. specialize (PF f0 b0 Hf0 Hb0 S0). rewrite Eh in Hu. congruence.
            -- exfalso. rewrite Eh in Hu. simpl in Hu. discriminate.
      - contradiction. }
    assert (Hq : stripe_quiet c pos).
    { split; [intro j; apply Hrel|]. exists j0. apply (proj1 (proj2 (Hrel j0))). exact Hfile. }
    intros lv Hlv. destruct (Q pos Hq lv Hlv) as [v [A [B1 B2]]]. exists v. split; [exact A|].
    split; [congruence|]. intros j Hj. apply Hrel. apply B2. congruence.
  Qed.

  (* --- (d) a parity write of fix at stripe pos: some levels get PEnc v at pos, nothing else changes --- *)
  Definition par_write (par par' : parity) (pos : nat) (v : list bid) : Prop :=
    forall lv', In lv' par' -> exists lv, In lv par /\ (lv' = lv \/ lv' = set_ext PNone pos (PEnc v) lv).

  (* FixModel's parity_write_phase step (check.c: the level l found wrong or missing is rewritten from the buffer) *)
  Lemma fix_write_is_par_write par pos l buf :
    par_write par (FixModel.mapi (fun k lv => if Nat.eqb k l then set_ext PNone pos (PEnc buf) lv else lv) par) pos buf.
  Proof.
    intros lv' Hin. unfold FixModel.mapi in Hin. apply in_map_iff in Hin. destruct Hin as [[k lv] [E Hin]].
    simpl in E. exists lv. split; [eapply in_combine_r; exact Hin|].
    destruct (Nat.eqb k l); [right | left]; auto.
  Qed.
  Lemma par_write_trans par par' par'' pos v :
    par_write par par' pos v -> par_write par' par'' pos v ->
    forall lv'', In lv'' par'' -> exists lv, In lv par /\
      (lv'' = lv \/ lv'' = set_ext PNone pos (PEnc v) lv \/ lv'' = set_ext PNone pos (PEnc v) (set_ext PNone pos (PEnc v) lv)).
  Proof.
    intros H1 H2 lv'' Hin. destruct (H2 lv'' Hin) as [lv' [Hin' E']]. destruct (H1 lv' Hin') as [lv [Hin0 E]].
    exists lv. split; [exact Hin0|]. destruct E' as [->| ->]; destruct E as [->| ->]; auto.
  Qed.

  (* the exact side condition for ParOK: at a synced stripe the written vector must fit the recorded hashes *)
  Lemma par_write_ParOK c par par' pos v :
    (stripe_synced c pos -> enc_ok hashf bs c pos v) -> par_write par par' pos v ->
    ParOK hashf bs c par -> ParOK hashf bs c par'.
  Proof.
    intros Hv HW HP p Hs lv' Hin. destruct (HW lv' Hin) as [lv [Hlv [->| ->]]]; [exact (HP p Hs lv Hlv)|].
    destruct (Nat.eq_dec p pos) as [->|Hp].
    - exists v. split; [apply nth_set_ext_same | apply Hv; exact Hs].
    - destruct (HP p Hs lv Hlv) as [w [E1 E2]]. exists w. split; [|exact E2].
      rewrite nth_set_ext_other by exact Hp. exact E1.
  Qed.
  (* ... and it is necessary as soon as one level is really written *)
  Lemma par_write_ParOK_needs c par' pos v lv :
    stripe_synced c pos -> In (set_ext PNone pos (PEnc v) lv) par' -> ParOK hashf bs c par' -> enc_ok hashf bs c pos v.
  Proof.
    intros Hs Hin HP. destruct (HP pos Hs _ Hin) as [w [E1 E2]]. rewrite nth_set_ext_same in E1.
    injection E1 as ->. exact E2.
  Qed.
  (* for the threaded invariant: at a quiet stripe the written vector must fit in the PastLen sense (at a synced
     stripe this is enc_ok again) *)
  Lemma par_write_PastLen c par par' pos v :
    (stripe_quiet c pos -> wenc_ok hashf bs Uall c pos v) -> par_write par par' pos v ->
    (forall p, PastLen hashf bs c par p) -> forall p, PastLen hashf bs c par' p.
  Proof.
    intros Hv HW HP p Hq lv' Hin. destruct (HW lv' Hin) as [lv [Hlv [->| ->]]]; [exact (HP p Hq lv Hlv)|].
    destruct (Nat.eq_dec p pos) as [->|Hp].
    - exists v. split; [apply nth_set_ext_same | apply Hv; exact Hq].
    - destruct (HP p Hq lv Hlv) as [w [E1 E2]]. exists w. split; [|exact E2].
      rewrite nth_set_ext_other by exact Hp. exact E1.
  Qed.
End Others.

(* ---------------------------------------------------------------------------------------------------------- *)
(* all commands                                                                                                 *)
(* ---------------------------------------------------------------------------------------------------------- *)
Section ReachAll.
  Variable hashf : bid -> N -> hval.
  Variable bs : N.
  Variable nlev : nat.

  Inductive reach_all : content -> parity -> Prop :=
  | A_init c par : MapOK c -> (forall pos, PastOK hashf bs c par pos) -> reach_all c par
  (* loading for sync: clear_past_hash; with -N also the provisional hashes of REP blocks *)
  | A_load c par : reach_all c par -> reach_all (clear_past c) par
  | A_nocopy c par : reach_all c par -> reach_all (nocopy_load c) par
  (* (a) the scan, on any listing, with any options; when it trusts past hashes (clearpast: the scan of sync) the
         content must have been loaded with clear_past_hash *)
  | A_scan c par basef clearpast nocopy inf usable listing o :
      reach_all c par -> (clearpast = true -> past_cleared c) ->
      scan basef bs clearpast nocopy inf usable c listing = Some o ->
      reach_all (sc_content o) par
  (* the sync loop: any stripes (repetitions allowed), options, data disks, well-formed injected reads, stop point *)
  | A_sync c par o now fs faults stripes stop ne ns ni :
      reach_all c par -> (forall p, In p stripes -> faults_wf bs c p (faults p)) ->
      reach_all (ro_content (sync_loop hashf bs nlev o now fs faults stripes stop c par ne ns ni))
                (ro_parity (sync_loop hashf bs nlev o now fs faults stripes stop c par ne ns ni))
  | A_save c par : reach_all c par -> reach_all (save_normalise c) par
  (* (b) scrub, bad marks: the info array (and the recorded size) *)
  | A_info c c' par : reach_all c par -> c_disks c' = c_disks c -> reach_all c' par
  (* (c) touch: nanoseconds of recorded files *)
  | A_nsec c c' par : reach_all c par -> nsec_only c c' -> reach_all c' par
  (* (d) fix: parity blocks of stripe pos rewritten from the buffer v; side condition: v fits the recorded hashes
         whenever the stripe is quiet (= enc_ok when it is synced).  FixModel's stripe_step writes parity only there
         (parity_write_phase, an instance by fix_write_is_par_write); that its buffer satisfies the side condition is
         proved in Fix/StripeProofs.v only under the hypotheses of C01_fix_step_restores, so it is a premise here *)
  | A_fixpar c par par' pos v :
      reach_all c par -> (stripe_quiet c pos -> wenc_ok hashf bs Uall c pos v) -> par_write par par' pos v ->
      reach_all c par'.

  Hypothesis HI : LenInj hashf.

  Lemma reach_all_inv c par : reach_all c par -> MapOK c /\ forall pos, PastLen hashf bs c par pos.
  Proof.
    induction 1 as [c par HM HP | c par H IH | c par H IH | c par basef clearpast nocopy inf usable listing o H IH HPC HS
                    | c par o now fs faults stripes stop ne ns ni H IH Hwf | c par H IH | c c' par H IH HD | c c' par H IH HN
                    | c par par' pos v H IH Hv HW].
    - split; [exact HM|]. intro pos. apply PastOK_PastLen. apply HP.
    - destruct IH as [HM HP]. split.
      + destruct (clear_past_inv hashf bs c par HM (PastLen_all_ParOK hashf bs c par HP)) as (A & _). exact A.
      + apply clear_PastLen; assumption.
    - destruct IH as [HM HP]. apply nocopy_inv; assumption.
    - destruct IH as [HM HP]. split.
      + eapply scan_preserves_MapOK; eauto.
      + eapply scan_preserves_PastLen; eauto.
    - destruct IH as [HM HP]. apply sync_loop_pastlen; assumption.
    - destruct IH as [HM HP]. split.
      + destruct (save_normalise_inv hashf bs c par HM (PastLen_all_ParOK hashf bs c par HP)) as [A _]. exact A.
      + apply save_PastLen. exact HP.
    - destruct IH as [HM HP]. apply (info_change_inv hashf bs c c' par HD HM HP).
    - destruct IH as [HM HP]. apply (nsec_only_inv hashf bs c c' par HN HM HP).
    - destruct IH as [HM HP]. split; [exact HM|]. eapply par_write_PastLen; eauto.
  Qed.

  Theorem all_commands_inv c par : reach_all c par -> MapOK c /\ ParOK hashf bs c par.
  Proof.
    intro H. destruct (reach_all_inv c par H) as [HM HP]. split; [exact HM|]. apply PastLen_all_ParOK. exact HP.
  Qed.

  Theorem synced_parity_valid_all c par :
    reach_all c par ->
    forall pos, stripe_synced c pos ->
    forall lv, In lv par -> exists v, nth pos lv PNone = PEnc v /\ enc_ok hashf bs c pos v.
  Proof. intros H pos Hs. destruct (all_commands_inv c par H) as [_ HP]. exact (HP pos Hs). Qed.
End ReachAll.

(* ---------------------------------------------------------------------------------------------------------- *)
(* examples                                                                                                     *)
(* ---------------------------------------------------------------------------------------------------------- *)
Definition scan_c basef bs cp nc inf us c L : content :=
  match scan basef bs cp nc inf us c L with Some o => sc_content o | None => c end.
Lemma A_scan' hashf bs nlev c par basef cp nc inf us L :
  reach_all hashf bs nlev c par -> (cp = true -> past_cleared c) -> scan basef bs cp nc inf us c L <> None ->
  reach_all hashf bs nlev (scan_c basef bs cp nc inf us c L) par.
Proof.
  intros H HP HS. unfold scan_c. destruct (scan basef bs cp nc inf us c L) as [o|] eqn:E; [|congruence].
  eapply A_scan; eauto.
Qed.
Lemma faults_wf_nil' bs c p : faults_wf bs c p [].
Proof. intro j. unfold fault_wf. destruct (slot_of c p j); destruct j; simpl; exact I. Qed.

(* a hash without collisions across lengths (lengths are below 4096 here) *)
Definition g_hf (x : bid) (l : N) : hval := if (l <? 4096)%N then HReal (x * 4096 + l)%N else HInvalid.
Lemma g_hf_LenInj : LenInj g_hf.
Proof.
  intros x l x' l' H Hu. unfold g_hf in *.
  destruct (l <? 4096)%N eqn:E1; [|discriminate Hu]. destruct (l' <? 4096)%N eqn:E2; [|discriminate H].
  apply N.ltb_lt in E1. apply N.ltb_lt in E2. injection H as H. lia.
Qed.

(* one disk, one level, nothing recorded, empty parity *)
Definition h0 : content := mkC [Some (mkCD [] [] [] [])] [] 0.
Definition hp0 : parity := [[]].
(* round 1: the disk holds file 1 (100 bytes, block 7) *)
Definition hL1 : list (list lentry) := [[mkLE LFile 1%N 100%N 1%Z 5%Z 10%N 1%N 0%N 0%N]].
Definition hfs1 : list (option fsdisk) := [Some [mkFF 1%N 100%N 1%Z 5%Z 10%N [7%N]]].
Definition h2 : content := scan_c (fun x => x) 1024%N true false (c_info h0) [true] (clear_past h0) hL1.
Definition hr1 := sync_loop g_hf 1024%N 1 w_opts 7%N hfs1 (fun _ => []) [0] None h2 hp0 0 0 0.
Definition h3 : content := save_normalise (ro_content hr1).
(* round 2: file 1 was replaced by file 2 (1024 bytes, block 9) which the scan allocates at the same position: the CHG
   block inherits the hash taken over 100 bytes *)
Definition hL2 : list (list lentry) := [[mkLE LFile 2%N 1024%N 2%Z 6%Z 11%N 1%N 0%N 0%N]].
Definition hfs2 : list (option fsdisk) := [Some [mkFF 2%N 1024%N 2%Z 6%Z 11%N [9%N]]].
Definition h5 : content := scan_c (fun x => x) 1024%N true false (c_info h3) [true] (clear_past h3) hL2.
Definition hr2 := sync_loop g_hf 1024%N 1 w_opts 8%N hfs2 (fun _ => []) [0] None h5 (ro_parity hr1) 0 0 0.
(* then a scrub marks the stripe (info word), and the content is saved *)
Definition h6 : content := mkC (c_disks (ro_content hr2)) [Some (mkInfo 9%N false false false)] 1.
Definition h7 : content := save_normalise h6.

Lemma h0_init : MapOK h0 /\ forall pos, PastOK g_hf 1024%N h0 hp0 pos.
Proof.
  split.
  - intros d [E|[]]. injection E as <-. unfold MapOK_disk, map_ok. simpl.
    repeat split; try constructor; try (intros ? []).
  - intros pos [_ [j Hj]]. exfalso. rewrite slot_of_nth in Hj. destruct j as [|[|j]]; discriminate Hj.
Qed.

Lemma reach_h5 : reach_all g_hf 1024%N 1 h5 (ro_parity hr1).
Proof.
  unfold h5. apply A_scan'; [| intros _; apply past_cleared_clear_past | vm_compute; discriminate].
  apply A_load. unfold h3. apply A_save. unfold hr1. apply A_sync; [|intros p _; apply faults_wf_nil'].
  unfold h2. apply A_scan'; [| intros _; apply past_cleared_clear_past | vm_compute; discriminate].
  apply A_load. destruct h0_init. apply A_init; assumption.
Qed.
Lemma reach_h7 : reach_all g_hf 1024%N 1 h7 (ro_parity hr2).
Proof.
  unfold h7. apply A_save. apply (A_info _ _ _ (ro_content hr2)); [|reflexivity].
  unfold hr2. apply A_sync; [exact reach_h5 | intros p _; apply faults_wf_nil'].
Qed.

Lemma history_example :
  reach_all g_hf 1024%N 1 h7 (ro_parity hr2)
  /\ ro_parity hr1 = [[PEnc [7%N]]] /\ ro_parity hr2 = [[PEnc [9%N]]]
  /\ stripe_synced h7 0
  (* in between, after the second scan: the stripe is quiet, its CHG block carries the hash of block 7 over 100 bytes
     while the block is 1024 bytes long: PastOK is false there, PastLen is what holds *)
  /\ stripe_quiet h5 0 /\ ~ PastOK g_hf 1024%N h5 (ro_parity hr1) 0 /\ PastLen g_hf 1024%N h5 (ro_parity hr1) 0.
Proof.
  split; [exact reach_h7|]. split; [vm_compute; reflexivity|]. split; [vm_compute; reflexivity|].
  assert (Hq : stripe_quiet h5 0).
  { remember h5 as c eqn:E. vm_compute in E. subst c. split; [|exists 0; reflexivity].
    intro j. destruct j as [|j]; [right; split; reflexivity|]. rewrite slot_of_out by (simpl; lia). exact I. }
  split; [|split; [exact Hq|split]].
  - remember h7 as c eqn:E. vm_compute in E. subst c. split; [|exists 0; reflexivity].
    intro j. destruct j as [|j]; [reflexivity|]. rewrite slot_of_out by (simpl; lia). exact I.
  - intro HP. assert (Hin : In [PEnc [7%N]] (ro_parity hr1)) by (vm_compute; left; reflexivity).
    destruct (HP Hq _ Hin) as [v [E1 [_ E2]]]. simpl in E1. injection E1 as <-.
    assert (Hl : 0 < length (c_disks h5)) by (vm_compute; lia).
    specialize (E2 0 Hl). vm_compute in E2. discriminate E2.
  - destruct (reach_all_inv g_hf 1024%N 1 g_hf_LenInj _ _ reach_h5) as [_ H]. apply H.
Qed.

(* --- without LenInj the statement is false: the same history with a hash that collides across lengths (block 9 over
       1024 bytes hashes like block 7 over 100 bytes): the second sync sees "parity_needs_to_be_updated = 0", records
       the block BLK, and the parity still encodes block 7.  This is F-C05b seen from C06. --- *)
Definition col_hf (x : bid) (l : N) : hval :=
  if (l =? 100)%N then HReal (x * 4096 + 100)%N else if (x =? 9)%N then HReal 28772%N else HReal (x * 4096 + l)%N.
Definition k2 : content := scan_c (fun x => x) 1024%N true false (c_info h0) [true] (clear_past h0) hL1.
Definition kr1 := sync_loop col_hf 1024%N 1 w_opts 7%N hfs1 (fun _ => []) [0] None k2 hp0 0 0 0.
Definition k3 : content := save_normalise (ro_content kr1).
Definition k5 : content := scan_c (fun x => x) 1024%N true false (c_info k3) [true] (clear_past k3) hL2.
Definition kr2 := sync_loop col_hf 1024%N 1 w_opts 8%N hfs2 (fun _ => []) [0] None k5 (ro_parity kr1) 0 0 0.

Theorem all_commands_needs_leninj :
  exists (hashf : bid -> N -> hval) (bs : N) (nlev : nat) (c : content) (par : parity),
    reach_all hashf bs nlev c par /\ ~ ParOK hashf bs c par.
Proof.
  exists col_hf, 1024%N, 1, (ro_content kr2), (ro_parity kr2). split.
  - unfold kr2. apply A_sync; [|intros p _; apply faults_wf_nil'].
    unfold k5. apply A_scan'; [| intros _; apply past_cleared_clear_past | vm_compute; discriminate].
    apply A_load. unfold k3. apply A_save. unfold kr1. apply A_sync; [|intros p _; apply faults_wf_nil'].
    unfold k2. apply A_scan'; [| intros _; apply past_cleared_clear_past | vm_compute; discriminate].
    apply A_load. apply A_init.
    + apply h0_init.
    + intros pos [_ [j Hj]]. exfalso. rewrite slot_of_nth in Hj. destruct j as [|[|j]]; discriminate Hj.
  - remember (ro_content kr2) as c eqn:Ec. remember (ro_parity kr2) as p eqn:Ep.
    vm_compute in Ec. vm_compute in Ep. subst c p. intro H.
    match type of H with ParOK _ _ ?c _ => assert (Hs : stripe_synced c 0) end.
    { split; [|exists 0; reflexivity]. intro j. destruct j as [|j]; [reflexivity|].
      rewrite slot_of_out by (simpl; lia). exact I. }
    destruct (H 0 Hs _ (or_introl eq_refl)) as [v [E1 [_ E2]]]. simpl in E1. injection E1 as <-.
    specialize (E2 0 (Nat.lt_0_succ 0)). vm_compute in E2. discriminate E2.
Qed.

(* the hypotheses of sync_stripe_par_collfree on the cross-length state h5, with a two-element set of pairs *)
Definition hU : bid -> N -> Prop := fun x l => In (x, l) [(7%N, 100%N); (9%N, 1024%N)].
Lemma collfree_example :
  faults_wf 1024%N h5 0 [] /\ ParOK g_hf 1024%N h5 (ro_parity hr1) /\ PastLenU g_hf 1024%N hU h5 (ro_parity hr1) 0
  /\ reads_in 1024%N hU h5 hfs2 [] 0 /\ LenInjOn g_hf hU.
Proof.
  split; [apply faults_wf_nil'|]. split.
  - destruct (all_commands_inv g_hf 1024%N 1 g_hf_LenInj _ _ reach_h5) as [_ H]. exact H.
  - split; [|split].
    + intros _ lv Hin. assert (E : ro_parity hr1 = [[PEnc [7%N]]]) by (vm_compute; reflexivity).
      rewrite E in Hin. destruct Hin as [<-|[]]. exists [7%N]. split; [reflexivity|].
      split; [vm_compute; reflexivity|]. intros j Hj.
      assert (j = 0) by (vm_compute in Hj; lia). subst j.
      remember h5 as c eqn:Ec. vm_compute in Ec. subst c. simpl.
      exists 100%N. split; [left; reflexivity | vm_compute; reflexivity].
    + intros j blk len H. destruct j as [|j].
      * vm_compute in H. injection H as <- <-. right. left. reflexivity.
      * unfold ss_rd in H. rewrite slot_of_out in H by (vm_compute; lia). discriminate H.
    + intros x l x' l' _ _. apply g_hf_LenInj.
Qed.
