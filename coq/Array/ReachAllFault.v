(* C06 after every command AND with failing parity writes: Array/ReachAll.v (scan, load, -N, save, info words, touch,
   fix's parity writes) with the sync loop replaced by the faulty loop of Fault/FaultModel.v (sync_loop_w), as in
   Array/ReachFault.v.  Threaded invariant:  MapOK c /\ forall pos, PastLen_nb hashf bs c par pos,  where
     PastLen_nb c par pos := stripe_quiet c pos -> ~ bad_at c pos -> wpar_enc hashf bs Uall c par pos
   (PastLen of ReachAll.v at the stripes that are not bad).  ParOK_nb is its synced part.  Hypothesis LenInj as in
   C06_all_commands_inv.  Two ways to heal a bad stripe: an info change that clears the flag where the parity condition
   holds (scrub: A_info's premise, scrub_step_premise), and a forced sync (forced_stripe_heals). *)
From Coq Require Import NArith ZArith List Bool Arith Lia.
From Snap.Array Require Import ArrayDefs SyncModel SyncProofsDefs SyncProofsStripe SyncProofsLoop ReachAll ReachFault.
From Snap.Scan Require Import ScanModel ScanMap ScanPar ScanC06.
From Snap.Fault Require Import FaultModel FaultProofs ScrubBadMark.
Import ListNotations.

Section AllFault.
  Variable hashf : bid -> N -> hval.
  Variable bs : N.
  Variable nlev : nat.

  Definition PastLen_nb (c : content) (par : parity) (pos : nat) : Prop :=
    stripe_quiet c pos -> ~ bad_at c pos -> wpar_enc hashf bs Uall c par pos.

  Lemma PastLen_nb_all_ParOK_nb c par : (forall pos, PastLen_nb c par pos) -> ParOK_nb hashf bs c par.
  Proof.
    intros H pos Hs Hb lv Hin. destruct (H pos (stripe_synced_quiet _ _ Hs) Hb lv Hin) as [v [E1 E2]].
    exists v. split; [exact E1 | eapply synced_wenc_ok_enc; eassumption].
  Qed.
  Lemma PastOK_nb_PastLen_nb c par pos : PastOK_nb hashf bs c par pos -> PastLen_nb c par pos.
  Proof. intros H Hq Hb. apply par_enc_wpar. apply H; assumption. Qed.
  Lemma PastLen_PastLen_nb c par pos : PastLen hashf bs c par pos -> PastLen_nb c par pos.
  Proof. intros H Hq _. apply H. exact Hq. Qed.

  (* a change that keeps the core of the slots of a stripe (at least when the stripe is quiet afterwards) and does not
     clear its bad flag *)
  Lemma core_step c c' par pos :
    (stripe_quiet c' pos -> same_core c c' pos) -> (stripe_quiet c' pos -> bad_at c pos -> bad_at c' pos) ->
    PastLen_nb c par pos -> PastLen_nb c' par pos.
  Proof.
    intros HC HB H Hq Hb. specialize (HC Hq).
    eapply same_core_wpar_enc; [exact HC|]. apply H.
    - eapply same_core_quiet; [apply same_core_sym; exact HC | exact Hq].
    - intro B. apply Hb. apply HB; assumption.
  Qed.

  (* ---- the loop invariant: PastLen_nb except where a failed write's report is still queued ---- *)
  Definition PendLen (q : list wrep) (c : content) (par : parity) : Prop :=
    forall p, stripe_quiet c p -> ~ bad_at c p -> ~ In p (map wr_pos q) -> wpar_enc hashf bs Uall c par p.

  Lemma PastLen_nb_PendLen c par : (forall pos, PastLen_nb c par pos) -> PendLen [] c par.
  Proof. intros H p Hq Hb _. exact (H p Hq Hb). Qed.
  Lemma PendLen_mark q q' c par ps :
    (forall p, In p (map wr_pos q) -> In p (map wr_pos q') \/ In p ps) ->
    PendLen q c par -> PendLen q' (mark_bad_all c ps) par.
  Proof.
    intros Hq H p Hs Hb Hn.
    pose proof (disks_views c (mark_bad_all c ps) p (mark_disks c ps)) as HV.
    eapply same_core_wpar_enc; [apply same_views_core; exact HV|]. apply H.
    - eapply same_views_quiet; [apply same_views_sym; exact HV | exact Hs].
    - intro B. apply Hb. apply mark_bad_all_keeps. exact B.
    - intro Hin. destruct (Hq p Hin) as [H1|H1]; [exact (Hn H1)|]. apply Hb. apply mark_bad_all_marks. exact H1.
  Qed.
  Lemma PendLen_end q c par : PendLen q c par -> forall pos, PastLen_nb (mark_bad_all c (map wr_pos q)) par pos.
  Proof. intros H pos Hq Hb. apply (PendLen_mark q [] c par (map wr_pos q)); auto. Qed.

  Lemma wpar_enc_write_other c par pos v wl p :
    p <> pos -> wpar_enc hashf bs Uall c par p -> wpar_enc hashf bs Uall c (write_levels par pos v wl) p.
  Proof.
    intros Hp H lv' Hin. destruct (in_write_levels par pos v wl lv' Hin) as [l [lv [_ [Hlv ->]]]].
    destruct (H lv Hlv) as [w [E1 E2]]. exists w. split; [|exact E2].
    destruct (wl l); rewrite ?nth_set_ext_other by exact Hp; exact E1.
  Qed.

  Hypothesis HI : LenInj hashf.

  (* ---- one stripe with the writers' outcome ---- *)
  Theorem sync_stripe_w_len o now iob c par fs faults pos q m lag it wl :
    faults_wf bs c pos faults -> PendLen q c par ->
    let r := sync_stripe hashf bs nlev o now iob c (map (fun lv => nth pos lv PNone) par) fs faults pos in
    let par' := match so_write r with Some v => write_levels par pos v wl | None => par end in
    let reps := match so_write r with Some _ => level_reports m lag it pos wl (length par) | None => [] end in
    PendLen (q ++ reps) (so_content r) par'.
  Proof.
    intros Hwf HP r par' reps p Hq Hb Hn.
    rewrite map_app in Hn.
    assert (Hnq : ~ In p (map wr_pos q)) by (intro H; apply Hn; apply in_or_app; left; exact H).
    assert (Hnr : ~ In p (map wr_pos reps)) by (intro H; apply Hn; apply in_or_app; right; exact H).
    destruct (Nat.eq_dec p pos) as [->|Hp].
    - unfold par', reps in *. destruct (so_write r) as [vec|] eqn:Ew.
      + (* written: the stripe is synced, and with no report every level's write succeeded *)
        destruct (sync_stripe_quiet_after hashf bs nlev o now iob c (map (fun lv => nth pos lv PNone) par) fs faults pos Hq) as [Hs|[_ Hw]];
          [|fold r in Hw; congruence].
        pose proof (stripe_local hashf bs nlev o now iob c (map (fun lv => nth pos lv PNone) par) fs faults pos Hwf) as HL.
        cbv zeta in HL. fold r in HL. specialize (HL Hs). rewrite Ew in HL.
        apply par_enc_wpar. apply par_enc_write_all; [|exact HL].
        apply (level_reports_nil m lag it pos wl (length par)).
        destruct (level_reports m lag it pos wl (length par)) as [|w t] eqn:E; [reflexivity|]. exfalso. apply Hnr.
        assert (Hw : wr_pos w = pos) by (apply (level_reports_pos m lag it pos wl (length par)); rewrite E; left; reflexivity).
        simpl. left. exact Hw.
      + (* not written: the stripe was not bad before either *)
        assert (Hb0 : ~ bad_at c pos).
        { intro B. apply Hb. apply nowrite_keeps_bad; [exact Ew | exact B]. }
        destruct (sync_stripe_quiet_after hashf bs nlev o now iob c (map (fun lv => nth pos lv PNone) par) fs faults pos Hq) as [Hs|[HV _]].
        * (* completed without write: the old parity fits, by LenInj *)
          pose proof (stripe_local hashf bs nlev o now iob c (map (fun lv => nth pos lv PNone) par) fs faults pos Hwf) as HL.
          cbv zeta in HL. fold r in HL. specialize (HL Hs). rewrite Ew in HL. destruct HL as [HQ _].
          intros lv Hin. destruct (HP pos HQ Hb0 Hnq lv Hin) as [v [E1 E2]]. exists v. split; [exact E1|].
          apply enc_ok_wenc.
          apply (nowrite_enc hashf bs nlev Uall o now iob c _ fs faults pos v Hwf); auto.
          -- intros j blk len _. exact I.
          -- apply LenInj_On. exact HI.
        * (* nothing changed *)
          fold r in HV. eapply same_core_wpar_enc; [apply same_views_core; exact HV|]. apply HP; auto.
          eapply same_views_quiet; [apply same_views_sym; exact HV | exact Hq].
    - destruct (sync_stripe_other_stripes hashf bs nlev o now iob c (map (fun lv => nth pos lv PNone) par) fs faults pos) as [_ HF].
      fold r in HF. destruct (HF p Hp) as (HV & _ & _ & HQ & _).
      assert (HE : wpar_enc hashf bs Uall c par p).
      { apply HP; [apply HQ; exact Hq | | exact Hnq]. intro B. apply Hb. apply stripe_keeps_bad; assumption. }
      eapply same_core_wpar_enc; [apply same_views_core; exact HV|]. unfold par'.
      destruct (so_write r); [apply wpar_enc_write_other; assumption | exact HE].
  Qed.

  (* ---- the faulty loop: any stripes (repetitions allowed), write faults, io mode, schedule, stop ---- *)
  Theorem sync_loop_w_len o now fs faults wf m lag : forall stripes stop it q fp c par ne ns ni,
    (forall p, In p stripes -> faults_wf bs c p (faults p)) ->
    MapOK c -> PendLen q c par ->
    let r := sync_loop_w hashf bs nlev o now fs faults wf m lag stripes stop it q fp c par ne ns ni in
    MapOK (ro_content (w_run r)) /\ forall pos, PastLen_nb (ro_content (w_run r)) (ro_parity (w_run r)) pos.
  Proof.
    assert (End : forall q c par, MapOK c -> PendLen q c par ->
                    MapOK (mark_bad_all c (map wr_pos q)) /\ forall pos, PastLen_nb (mark_bad_all c (map wr_pos q)) par pos).
    { intros q c par HM HP. split; [eapply disks_MapOK; [apply mark_disks | exact HM] | apply PendLen_end; exact HP]. }
    induction stripes as [|pos rest IH]; intros stop it q fp c par ne ns ni Hwf HM HP; cbn [sync_loop_w]; cbv zeta.
    - cbn [w_run ro_content ro_parity]. apply End; assumption.
    - destruct (negb (stripe_enabled o _)).
      { apply IH; auto. intros p Hp. apply Hwf. right. exact Hp. }
      assert (Hw0 : faults_wf bs c pos (faults pos)) by (apply Hwf; left; reflexivity).
      pose proof (sync_stripe_w_len o now ni c par fs (faults pos) pos q m lag it (wf pos) Hw0 HP) as HS. cbv zeta in HS.
      pose proof (sync_stripe_map hashf bs nlev o now ni c (map (fun lv => nth pos lv PNone) par) fs (faults pos) pos HM) as HM1.
      set (r := sync_stripe hashf bs nlev o now ni c (map (fun lv => nth pos lv PNone) par) fs (faults pos) pos) in *.
      assert (Hbail : so_bail r = true ->
                MapOK (mark_bad_all (so_content r) (map wr_pos q)) /\ forall p, PastLen_nb (mark_bad_all (so_content r) (map wr_pos q)) par p).
      { intro Hb. apply sync_stripe_bail_nowrite in Hb. fold r in Hb. rewrite Hb in HS. rewrite app_nil_r in HS.
        apply End; assumption. }
      set (par' := match so_write r with Some v => write_levels par pos v (wf pos) | None => par end) in *.
      set (reps := match so_write r with Some _ => level_reports m lag it pos (wf pos) (length par) | None => [] end) in *.
      assert (Hcont : forall stop' ne' ns' ni',
                MapOK (ro_content (w_run (sync_loop_w hashf bs nlev o now fs faults wf m lag rest stop' (S it)
                                   (filter (fun w => negb (is_due it w)) (q ++ reps)) (fp ++ map wr_pos reps)
                                   (mark_bad_all (so_content r) (map wr_pos (filter (is_due it) (q ++ reps)))) par' ne' ns' ni')))
                /\ forall p, PastLen_nb
                     (ro_content (w_run (sync_loop_w hashf bs nlev o now fs faults wf m lag rest stop' (S it)
                                   (filter (fun w => negb (is_due it w)) (q ++ reps)) (fp ++ map wr_pos reps)
                                   (mark_bad_all (so_content r) (map wr_pos (filter (is_due it) (q ++ reps)))) par' ne' ns' ni')))
                     (ro_parity (w_run (sync_loop_w hashf bs nlev o now fs faults wf m lag rest stop' (S it)
                                   (filter (fun w => negb (is_due it w)) (q ++ reps)) (fp ++ map wr_pos reps)
                                   (mark_bad_all (so_content r) (map wr_pos (filter (is_due it) (q ++ reps)))) par' ne' ns' ni'))) p).
      { intros stop' ne' ns' ni'. apply IH.
        - intros p Hp. apply faults_wf_step_w. apply Hwf. right. exact Hp.
        - eapply disks_MapOK; [apply mark_disks | exact HM1].
        - apply (PendLen_mark (q ++ reps)); [|exact HS].
          intros p Hp. destruct (in_map_filter_split (is_due it) (q ++ reps) p Hp) as [H1|H1]; auto. }
      destruct stop as [[|k]|].
      + cbn [w_run ro_content ro_parity]. apply End; assumption.
      + destruct (so_bail r) eqn:Eb; [cbn [w_run ro_content ro_parity]; apply Hbail; reflexivity|].
        destruct ((0 <? _) && _); [cbn [w_run ro_content ro_parity]; apply End; assumption|].
        destruct (0 <? _); [cbn [w_run ro_content ro_parity]; apply End; assumption|].
        apply Hcont.
      + destruct (so_bail r) eqn:Eb; [cbn [w_run ro_content ro_parity]; apply Hbail; reflexivity|].
        destruct ((0 <? _) && _); [cbn [w_run ro_content ro_parity]; apply End; assumption|].
        destruct (0 <? _); [cbn [w_run ro_content ro_parity]; apply End; assumption|].
        apply Hcont.
  Qed.

  (* ---- the other commands, one stripe at a time ---- *)
  Lemma clear_len_nb c par pos : PastLen_nb c par pos -> PastLen_nb (clear_past c) par pos.
  Proof.
    apply core_step.
    - intro Hq. apply same_views_core. apply clear_synced_views. apply clear_synced_iff. apply clear_quiet_synced. exact Hq.
    - intros _ B. apply (clear_bad_iff hashf bs). exact B.
  Qed.
  Lemma nocopy_len_nb c par pos : PastLen_nb c par pos -> PastLen_nb (nocopy_load c) par pos.
  Proof.
    apply core_step; [|intros _ B; exact B].
    intros [Hq _]. split; [unfold nocopy_load; cbn [c_disks]; apply map_length|].
    intro j. specialize (Hq j). rewrite nocopy_slot in *.
    destruct (slot_of c pos j) as [|f i b|h]; try reflexivity. simpl in *.
    unfold gN in *. destruct (fb_state b) eqn:E; simpl in *; try reflexivity.
    destruct Hq as [Hq|[_ Hq]]; discriminate.
  Qed.
  Lemma save_len_nb c par pos : PastLen_nb c par pos -> PastLen_nb (save_normalise c) par pos.
  Proof.
    apply core_step.
    - intros [_ Hf]. apply same_slots_core; [apply save_length | apply save_hasfile_slots; exact Hf].
    - intros [_ [j Hf]] [i [Ei B]].
      rewrite (save_hasfile_slots c pos (ex_intro _ j Hf)) in Hf.
      destruct (slot_of c pos j) as [|f i0 b|h] eqn:Es; try discriminate Hf.
      exists i. rewrite (save_info_hasfile c pos j f i0 b Es). auto.
  Qed.
  Lemma scan_bad basef clearpast nocopy inf usable c listing o p :
    scan basef bs clearpast nocopy inf usable c listing = Some o -> (bad_at (sc_content o) p <-> bad_at c p).
  Proof.
    unfold scan. cbv zeta. destruct (phase1 _ _ _ _ _ _ _ _) as [w|]; [|discriminate].
    intro H. injection H as <-. unfold bad_at. cbn [sc_content c_info]. tauto.
  Qed.
  (* the scan: scan_preserves_PastLen, stripe by stripe *)
  Lemma scan_len_nb basef clearpast nocopy inf usable c par listing o pos :
    MapOK c -> (clearpast = true -> past_cleared c) ->
    scan basef bs clearpast nocopy inf usable c listing = Some o ->
    PastLen_nb c par pos -> PastLen_nb (sc_content o) par pos.
  Proof.
    intros M PC H Q. destruct (slot_rel_content basef bs clearpast nocopy inf usable c listing o M H) as [L R].
    intros [Hall [j0 Hfile]] Hb.
    assert (Hrel : forall j, slot_quiet (slot_of c pos j) /\
                             (slot_has_file (slot_of (sc_content o) pos j) = true -> slot_has_file (slot_of c pos j) = true) /\
                             forall x, slot_wenc hashf bs Uall (slot_of c pos j) x -> slot_wenc hashf bs Uall (slot_of (sc_content o) pos j) x).
    { intro j. specialize (Hall j). pose proof (R pos j) as Rj. unfold slot_rel in Rj.
      destruct (slot_of (sc_content o) pos j) as [|f' i b'|h] eqn:Es'; simpl in Hall.
      - rewrite Rj. simpl. auto.
      - destruct Rj as [[f0 [E S]] | [NB Hnew]].
        + rewrite E. simpl. split; [exact Hall|]. split; [auto|]. intros x Hx. rewrite <- S. exact Hx.
        + destruct Hall as [Hb' | [Hc Hu]]; [contradiction|].
          destruct (Hnew Hc Hu) as [Ecp [Ed | [f0 [i0 [b0 [E Eh]]]]]].
          * exfalso. destruct (slot_of_deleted_in c pos j _ Ed) as [d [Hd Hin]].
            destruct (PC Ecp d Hd) as [_ PD]. specialize (PD _ Hin). simpl in PD. congruence.
          * destruct (slot_of_file_in c pos j f0 i0 b0 E) as [d [Hd [Hf0 Hb0]]]. destruct (PC Ecp d Hd) as [PF _].
            unfold past_of in Eh. destruct (fb_state b0) eqn:S0.
            -- rewrite E. simpl. split; [left; exact S0|]. split; [auto|]. rewrite S0, Hc. intros x Hx.
               exists (block_len bs (cf_size f0) i0). split; [exact I | congruence].
            -- exfalso. specialize (PF f0 b0 Hf0 Hb0 S0). rewrite Eh in Hu. congruence.
            -- exfalso. rewrite Eh in Hu. simpl in Hu. discriminate.
      - contradiction. }
    assert (Hq : stripe_quiet c pos).
    { split; [intro j; apply Hrel|]. exists j0. apply (proj1 (proj2 (Hrel j0))). exact Hfile. }
    assert (Hb0 : ~ bad_at c pos) by (intro B; apply Hb; apply (scan_bad _ _ _ _ _ _ _ _ pos H); exact B).
    intros lv Hlv. destruct (Q Hq Hb0 lv Hlv) as [v [A [B1 B2]]]. exists v. split; [exact A|].
    split; [congruence|]. intros j Hj. apply Hrel. apply B2. congruence.
  Qed.
  (* the info array: a bad flag may be cleared only where the parity condition holds *)
  Definition clears_only_verified (c c' : content) (par : parity) : Prop :=
    forall p, bad_at c p -> ~ bad_at c' p -> stripe_quiet c p -> wpar_enc hashf bs Uall c par p.
  Lemma info_len_nb c c' par pos :
    c_disks c' = c_disks c -> clears_only_verified c c' par -> PastLen_nb c par pos -> PastLen_nb c' par pos.
  Proof.
    intros HD HC H Hq Hb.
    assert (HS : same_core c c' pos) by (apply same_slots_core; [rewrite HD; reflexivity | intro j; apply slot_of_disks; exact HD]).
    pose proof (same_core_quiet _ _ _ (same_core_sym _ _ _ HS) Hq) as Hq0.
    eapply same_core_wpar_enc; [exact HS|].
    destruct (not_bad_iff c pos) as [_ Hd]. destruct (info_bad_b c pos) eqn:E.
    - assert (B : bad_at c pos).
      { unfold info_bad_b in E. unfold bad_at. destruct (nth pos (c_info c) None) as [i|]; [exists i; auto | discriminate]. }
      apply HC; assumption.
    - apply H; [exact Hq0 | apply Hd; reflexivity].
  Qed.
  Lemma nsec_len_nb c c' par pos :
    nsec_only c c' -> c_info c' = c_info c -> PastLen_nb c par pos -> PastLen_nb c' par pos.
  Proof.
    intros HN HI'. apply core_step; [intros _; apply nsec_only_core; exact HN|].
    intros _ [i [E B]]. exists i. rewrite HI'. auto.
  Qed.
  Lemma fixpar_len_nb c par par' pos v :
    (stripe_quiet c pos -> ~ bad_at c pos -> wenc_ok hashf bs Uall c pos v) -> par_write par par' pos v ->
    (forall p, PastLen_nb c par p) -> forall p, PastLen_nb c par' p.
  Proof.
    intros Hv HW HP p Hq Hb lv' Hin. destruct (HW lv' Hin) as [lv [Hlv [->| ->]]]; [exact (HP p Hq Hb lv Hlv)|].
    destruct (Nat.eq_dec p pos) as [->|Hp].
    - exists v. split; [apply nth_set_ext_same | apply Hv; assumption].
    - destruct (HP p Hq Hb lv Hlv) as [w [E1 E2]]. exists w. split; [|exact E2].
      rewrite nth_set_ext_other by exact Hp. exact E1.
  Qed.

  (* ---- all commands, with failing parity writes ---- *)
  Inductive reach_all_w : content -> parity -> Prop :=
  | AW_init c par : MapOK c -> (forall pos, PastOK_nb hashf bs c par pos) -> reach_all_w c par
  | AW_load c par : reach_all_w c par -> reach_all_w (clear_past c) par
  | AW_nocopy c par : reach_all_w c par -> reach_all_w (nocopy_load c) par
  | AW_scan c par basef clearpast nocopy inf usable listing o :
      reach_all_w c par -> (clearpast = true -> past_cleared c) ->
      scan basef bs clearpast nocopy inf usable c listing = Some o ->
      reach_all_w (sc_content o) par
  (* the faulty sync loop: any stripes (repetitions allowed), write faults wf, io mode, writer schedule, stop, options
     (a forced sync -F is o_force_full), data disks, well-formed injected reads *)
  | AW_sync_w c par o now fs faults wf m lag stripes stop :
      reach_all_w c par -> (forall p, In p stripes -> faults_wf bs c p (faults p)) ->
      reach_all_w (ro_content (w_run (sync_loop_w hashf bs nlev o now fs faults wf m lag stripes stop 0 [] [] c par 0 0 0)))
                  (ro_parity (w_run (sync_loop_w hashf bs nlev o now fs faults wf m lag stripes stop 0 [] [] c par 0 0 0)))
  | AW_save c par : reach_all_w c par -> reach_all_w (save_normalise c) par
  (* any change of the info array (and recorded size) that clears a bad flag only where the parity condition holds:
     times, new bad marks, and the clean verification of scrub (scrub_step_premise) *)
  | AW_info c c' par : reach_all_w c par -> c_disks c' = c_disks c -> clears_only_verified c c' par -> reach_all_w c' par
  | AW_nsec c c' par : reach_all_w c par -> nsec_only c c' -> c_info c' = c_info c -> reach_all_w c' par
  | AW_fixpar c par par' pos v :
      reach_all_w c par -> (stripe_quiet c pos -> ~ bad_at c pos -> wenc_ok hashf bs Uall c pos v) ->
      par_write par par' pos v -> reach_all_w c par'.

  Lemma trivial_PastLen c pos : PastLen hashf bs c [] pos.
  Proof. intros _ lv []. Qed.

  Theorem reach_all_w_inv c par : reach_all_w c par -> MapOK c /\ forall pos, PastLen_nb c par pos.
  Proof.
    induction 1 as [c par HM HP | c par H IH | c par H IH | c par basef clearpast nocopy inf usable listing o H IH HPC HS
                    | c par o now fs faults wf m lag stripes stop H IH Hwf | c par H IH | c c' par H IH HD HC
                    | c c' par H IH HN HE | c par par' pos v H IH Hv HW].
    - split; [exact HM|]. intro pos. apply PastOK_nb_PastLen_nb. apply HP.
    - destruct IH as [HM HP]. split; [|intro pos; apply clear_len_nb; apply HP].
      destruct (clear_past_nb hashf bs c par HM (PastLen_nb_all_ParOK_nb c par HP)) as (A & _). exact A.
    - destruct IH as [HM HP]. split; [|intro pos; apply nocopy_len_nb; apply HP].
      destruct (nocopy_inv hashf bs c [] HM (trivial_PastLen c)) as [A _]. exact A.
    - destruct IH as [HM HP]. split; [eapply scan_preserves_MapOK; eauto|].
      intro pos. eapply scan_len_nb; eauto.
    - destruct IH as [HM HP]. apply sync_loop_w_len; auto. apply PastLen_nb_PendLen. exact HP.
    - destruct IH as [HM HP]. split; [|intro pos; apply save_len_nb; apply HP].
      destruct (save_normalise_nb hashf bs c par HM (PastLen_nb_all_ParOK_nb c par HP)) as [A _]. exact A.
    - destruct IH as [HM HP]. split; [eapply disks_MapOK; eauto|]. intro pos. eapply info_len_nb; eauto.
    - destruct IH as [HM HP]. split; [|intro pos; eapply nsec_len_nb; eauto].
      destruct (nsec_only_inv hashf bs c c' [] HN HM (trivial_PastLen c)) as [A _]. exact A.
    - destruct IH as [HM HP]. split; [exact HM|]. eapply fixpar_len_nb; eauto.
  Qed.

  Theorem all_commands_w_inv c par : reach_all_w c par -> MapOK c /\ ParOK_nb hashf bs c par.
  Proof.
    intro H. destruct (reach_all_w_inv c par H) as [HM HP]. split; [exact HM | apply PastLen_nb_all_ParOK_nb; exact HP].
  Qed.
  Theorem synced_notbad_valid_all c par :
    reach_all_w c par ->
    forall pos, stripe_synced c pos -> ~ bad_at c pos ->
    forall lv, In lv par -> exists v, nth pos lv PNone = PEnc v /\ enc_ok hashf bs c pos v.
  Proof. intros H pos Hs Hb. destruct (all_commands_w_inv c par H) as [_ HP]. exact (HP pos Hs Hb). Qed.

  (* ---- healing (i): a scrub of stripe pos (FaultModel.scrub_stripe) as an AW_info step.  The flag model of scrub does not
     say what "the recomputed parity equals the one read" means for the array; that meaning is the premise Hcmp.  With it,
     C08's scrub_clears_bad_only_verified gives the premise of AW_info. ---- *)
  Definition scrub_content (c : content) (pos : nat) (inf' : info) : content :=
    mkC (c_disks c) (set_ext None pos (Some inf') (c_info c)) (c_blockmax c).
  Theorem scrub_step_premise c par pos inf limit iob now disks pars :
    nth pos (c_info c) None = Some inf ->
    sc_bail (scrub_stripe limit iob now inf disks pars) = false ->
    (* every parity read succeeding and comparing equal means: every level encodes a vector fitting the stripe *)
    ((forall p, In p pars -> p = SpOk true) -> stripe_quiet c pos -> wpar_enc hashf bs Uall c par pos) ->
    clears_only_verified c (scrub_content c pos (sc_info (scrub_stripe limit iob now inf disks pars))) par.
  Proof.
    intros Ei Hbail Hcmp p [i [Ep B]] Hnb Hq.
    destruct (Nat.eq_dec p pos) as [->|Hp].
    - rewrite Ei in Ep. injection Ep as <-.
      destruct (i_bad (sc_info (scrub_stripe limit iob now inf disks pars))) eqn:Eb.
      + exfalso. apply Hnb. eexists. unfold scrub_content. cbn [c_info]. rewrite nth_set_ext_same. split; [reflexivity | exact Eb].
      + destruct (scrub_clears_bad_only_verified limit iob now inf disks pars B Hbail Eb) as [Hall _].
        apply Hcmp; assumption.
    - exfalso. apply Hnb. exists i. unfold scrub_content. cbn [c_info]. rewrite nth_set_ext_other by exact Hp. auto.
  Qed.
End AllFault.

(* ---- healing (ii): a forced sync (-F) that re-processes the stripe without any error rewrites every level and
   leaves a fresh info word, not bad ---- *)
Section Forced.
  Variable hashf : bid -> N -> hval.
  Variable bs : N.
  Variable nlev : nat.

  Definition flags_counted (a : acc) : Prop :=
    (a_err a = true -> 0 < a_nerr a) /\ (a_silent a = true -> 0 < a_nsilent a) /\ (a_io a = true -> 0 < a_nio a).
  Lemma disk_step_flags o iob a x : flags_counted a -> flags_counted (disk_step hashf bs o iob a x).
  Proof.
    destruct x as [[j s] r]. unfold disk_step, flags_counted. destruct (a_bail a); [auto|].
    destruct s as [|f i b|h]; simpl; [tauto | | tauto].
    destruct b as [st p h]. destruct st; simpl; destruct r as [|blk len| | |]; simpl;
      try destruct (hval_eqb (hashf blk len) h); try destruct (o_io_error_limit o <=? iob + S (a_nio a));
      simpl; intuition (try discriminate; try lia).
  Qed.
  Lemma fold_flags o iob l : forall a, flags_counted a -> flags_counted (fold_left (disk_step hashf bs o iob) l a).
  Proof. induction l as [|x t IH]; intros a H; simpl; [exact H|]. apply IH. apply disk_step_flags. exact H. Qed.

  Theorem forced_stripe_heals o now iob c par fs faults pos :
    o_force_full o = true ->
    let r := sync_stripe hashf bs nlev o now iob c par fs faults pos in
    so_bail r = false -> so_nerr r = 0 -> so_nsilent r = 0 -> so_nio r = 0 ->
    (exists v, so_write r = Some v) /\ nth pos (c_info (so_content r)) None = Some (mkInfo now false false true)
    /\ ~ bad_at (so_content r) pos.
  Proof.
    intros Hf. cbv zeta. rewrite sync_stripe_eq. cbv zeta.
    set (A := ss_A hashf bs o iob c fs faults pos).
    assert (FC : flags_counted A).
    { unfold A, ss_A. apply fold_flags. unfold flags_counted, ss_a0. simpl. repeat split; discriminate. }
    destruct (a_bail A) eqn:Hbail; simpl; [discriminate|]. intros _ He Hs Hi.
    destruct FC as (F1 & F2 & F3).
    assert (E1 : a_err A = false) by (destruct (a_err A); [specialize (F1 eq_refl); lia | reflexivity]).
    assert (E2 : a_silent A = false) by (destruct (a_silent A); [specialize (F2 eq_refl); lia | reflexivity]).
    assert (E3 : a_io A = false) by (destruct (a_io A); [specialize (F3 eq_refl); lia | reflexivity]).
    assert (E4 : a_need A = true).
    { destruct (fold_spec hashf bs o iob (ss_L bs c fs faults pos) (ss_a0 o c pos) Hbail) as (_ & _ & _ & _ & _ & N1 & _).
      fold (ss_A hashf bs o iob c fs faults pos) in N1. fold A in N1. rewrite N1. unfold ss_a0. simpl. rewrite Hf. reflexivity. }
    assert (Ep : ss_proceed A (ss_fixed hashf bs nlev A c par fs faults pos) = true).
    { unfold ss_proceed. rewrite E1, E2, E3. reflexivity. }
    rewrite Ep, E4. simpl.
    assert (Einfo : nth pos (ss_info A true now c pos) None = Some (mkInfo now false false true)).
    { unfold ss_info. cbv zeta. rewrite E2, E3, E4. simpl. apply nth_set_ext_same. }
    split; [eexists; reflexivity|]. split; [exact Einfo|].
    intros [i [Ei B]]. cbn [c_info] in Ei. rewrite Einfo in Ei. injection Ei as <-. discriminate B.
  Qed.
End Forced.

(* ---------------------------------------------------------------------------------------------------------- *)
(* example: one disk, one level, two files.  load; scan; sync with the parity write of stripe 0 failing (EIO);   *)
(* save; load; scan (file 2 was rewritten); plain sync; then, to heal, save; load; forced sync                    *)
(* ---------------------------------------------------------------------------------------------------------- *)
Lemma AW_scan' hashf bs nlev c par basef cp nc inf us L :
  reach_all_w hashf bs nlev c par -> (cp = true -> past_cleared c) -> scan basef bs cp nc inf us c L <> None ->
  reach_all_w hashf bs nlev (scan_c basef bs cp nc inf us c L) par.
Proof.
  intros H HP HS. unfold scan_c. destruct (scan basef bs cp nc inf us c L) as [o|] eqn:E; [|congruence].
  eapply AW_scan; eauto.
Qed.

Definition yL1 : list (list lentry) :=
  [[mkLE LFile 1%N 100%N 1%Z 5%Z 10%N 1%N 0%N 0%N; mkLE LFile 2%N 1024%N 2%Z 6%Z 11%N 1%N 0%N 1%N]].
Definition yfs1 : list (option fsdisk) := [Some [mkFF 1%N 100%N 1%Z 5%Z 10%N [7%N]; mkFF 2%N 1024%N 2%Z 6%Z 11%N [9%N]]].
Definition y2 : content := scan_c (fun x => x) 1024%N true false (c_info h0) [true] (clear_past h0) yL1.
Definition y_wf : nat -> nat -> wres := fun pos l => if Nat.eqb pos 0 && Nat.eqb l 0 then WEio else WOk.
Definition yr1 := sync_loop_w g_hf 1024%N 1 w_opts 7%N yfs1 (fun _ => []) y_wf Mono (fun _ _ => 0) [0; 1] None 0 [] [] y2 hp0 0 0 0.
Definition y3 : content := save_normalise (ro_content (w_run yr1)).
(* file 2 rewritten (new mtime, block 12); file 1 untouched *)
Definition yL2 : list (list lentry) :=
  [[mkLE LFile 1%N 100%N 1%Z 5%Z 10%N 1%N 0%N 0%N; mkLE LFile 2%N 1024%N 3%Z 6%Z 11%N 1%N 0%N 1%N]].
Definition yfs2 : list (option fsdisk) := [Some [mkFF 1%N 100%N 1%Z 5%Z 10%N [7%N]; mkFF 2%N 1024%N 3%Z 6%Z 11%N [12%N]]].
Definition y5 : content := scan_c (fun x => x) 1024%N true false (c_info y3) [true] (clear_past y3) yL2.
Definition yr2 := sync_loop_w g_hf 1024%N 1 w_opts 8%N yfs2 (fun _ => []) (fun _ _ => WOk) Mono (fun _ _ => 0) [0; 1] None 0 [] []
                              y5 (ro_parity (w_run yr1)) 0 0 0.
Definition y6 : content := save_normalise (ro_content (w_run yr2)).
Definition yr3 := sync_loop_w g_hf 1024%N 1 f_full 9%N yfs2 (fun _ => []) (fun _ _ => WOk) Mono (fun _ _ => 0) [0; 1] None 0 [] []
                              (clear_past y6) (ro_parity (w_run yr2)) 0 0 0.

Lemma reach_yr2 : reach_all_w g_hf 1024%N 1 (ro_content (w_run yr2)) (ro_parity (w_run yr2)).
Proof.
  unfold yr2. apply AW_sync_w; [|intros p _; apply faults_wf_nil'].
  unfold y5. apply AW_scan'; [| intros _; apply past_cleared_clear_past | vm_compute; discriminate].
  apply AW_load. unfold y3. apply AW_save. unfold yr1. apply AW_sync_w; [|intros p _; apply faults_wf_nil'].
  unfold y2. apply AW_scan'; [| intros _; apply past_cleared_clear_past | vm_compute; discriminate].
  apply AW_load. destruct h0_init as [A B]. apply AW_init; [exact A|].
  intro pos. apply PastOK_PastOK_nb. apply B.
Qed.

Lemma history_w_example :
  reach_all_w g_hf 1024%N 1 (ro_content (w_run yr2)) (ro_parity (w_run yr2))
  /\ w_fpos yr1 = [0] /\ run_failing (w_run yr1) = true
  /\ ro_parity (w_run yr2) = [[PNone; PEnc [12%N]]]
  /\ stripe_synced (ro_content (w_run yr2)) 0 /\ bad_at (ro_content (w_run yr2)) 0
  /\ stripe_synced (ro_content (w_run yr2)) 1 /\ ~ bad_at (ro_content (w_run yr2)) 1
  /\ ParOK_nb g_hf 1024%N (ro_content (w_run yr2)) (ro_parity (w_run yr2))
  /\ ~ ParOK g_hf 1024%N (ro_content (w_run yr2)) (ro_parity (w_run yr2)).
Proof.
  split; [exact reach_yr2|]. split; [vm_compute; reflexivity|]. split; [vm_compute; reflexivity|].
  split; [vm_compute; reflexivity|].
  destruct (all_commands_w_inv g_hf 1024%N 1 g_hf_LenInj _ _ reach_yr2) as [_ HNB].
  remember (ro_content (w_run yr2)) as c eqn:Ec. remember (ro_parity (w_run yr2)) as p eqn:Ep.
  vm_compute in Ec. vm_compute in Ep. subst c p.
  match goal with |- stripe_synced ?c 0 /\ _ => assert (Hs0 : stripe_synced c 0) end.
  { split; [|exists 0; reflexivity]. intro j. destruct j as [|j]; [reflexivity|]. rewrite slot_of_out by (simpl; lia). exact I. }
  split; [exact Hs0|]. split; [eexists; split; reflexivity|].
  split.
  { split; [|exists 0; reflexivity]. intro j. destruct j as [|j]; [reflexivity|]. rewrite slot_of_out by (simpl; lia). exact I. }
  split; [intros [i [E B]]; vm_compute in E; injection E as <-; discriminate B|].
  split; [exact HNB|].
  intro H. destruct (H 0 Hs0 _ (or_introl eq_refl)) as [v [E _]]. discriminate E.
Qed.

(* healing by a forced sync: stripe 0 is rewritten, its fresh info word is not bad, and ParOK holds again *)
Lemma heal_forced_example :
  reach_all_w g_hf 1024%N 1 (ro_content (w_run yr3)) (ro_parity (w_run yr3))
  /\ ro_parity (w_run yr3) = [[PEnc [7%N]; PEnc [12%N]]]
  /\ ~ bad_at (ro_content (w_run yr3)) 0 /\ ~ bad_at (ro_content (w_run yr3)) 1
  /\ ParOK g_hf 1024%N (ro_content (w_run yr3)) (ro_parity (w_run yr3)).
Proof.
  assert (R : reach_all_w g_hf 1024%N 1 (ro_content (w_run yr3)) (ro_parity (w_run yr3))).
  { unfold yr3. apply AW_sync_w; [|intros p _; apply faults_wf_nil'].
    apply AW_load. unfold y6. apply AW_save. exact reach_yr2. }
  split; [exact R|]. split; [vm_compute; reflexivity|].
  destruct (all_commands_w_inv g_hf 1024%N 1 g_hf_LenInj _ _ R) as [_ HNB].
  assert (B0 : ~ bad_at (ro_content (w_run yr3)) 0) by (intros [i [E B]]; vm_compute in E; injection E as <-; discriminate B).
  assert (B1 : ~ bad_at (ro_content (w_run yr3)) 1) by (intros [i [E B]]; vm_compute in E; injection E as <-; discriminate B).
  split; [exact B0|]. split; [exact B1|].
  intros pos Hs. apply HNB; [exact Hs|].
  destruct pos as [|[|pos]]; [exact B0 | exact B1 |].
  intros [i [E B]]. vm_compute in E. destruct pos; discriminate E.
Qed.

(* healing by scrub: on the bad state of history_w_example a clean scrub of stripe 0 can only happen if the parity
   condition holds; here it does not (the level holds nothing), so the premise of scrub_step_premise can only be met by a
   run that is not "all parity reads equal": e.g. the parity read fails, and the mark stays *)
Lemma scrub_keeps_mark_example :
  let r := scrub_stripe 100 0 77%N (mkInfo 7%N true false true) [mkST true false true false true (SdOk true)] [SpErrCont] in
  sc_bail r = false /\ i_bad (sc_info r) = true
  /\ reach_all_w g_hf 1024%N 1 (scrub_content (ro_content (w_run yr2)) 0 (sc_info r)) (ro_parity (w_run yr2)).
Proof.
  cbv zeta. split; [vm_compute; reflexivity|]. split; [vm_compute; reflexivity|].
  apply (AW_info g_hf 1024%N 1 (ro_content (w_run yr2))); [exact reach_yr2 | reflexivity|].
  apply (scrub_step_premise g_hf 1024%N (ro_content (w_run yr2)) (ro_parity (w_run yr2)) 0 (mkInfo 7%N true false true)).
  - vm_compute. reflexivity.
  - vm_compute. reflexivity.
  - intros Hall. exfalso. specialize (Hall SpErrCont (or_introl eq_refl)). discriminate Hall.
Qed.
