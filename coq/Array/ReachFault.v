(* C06 with failing parity writes: the invariant of Array/SyncProofs*.v through the faulty sync loop of
   Fault/FaultModel.v (sync_loop_w).  ParOK itself is false after a dropped write (inv_write_fault_refuted); what holds
   is ParOK_nb: every stripe recorded synced AND NOT BAD has valid parity.  "Bad" is FaultProofs.bad_at (the info word of
   the stripe is present with i_bad set): no new notion.

   Route: the stripe-level induction of SyncProofsLoop redone with the extra case.  Loop invariant
     PendOK q c par := ParOK except at the stripes that are bad or have a failed write whose report is still queued in q
   (every queued report is turned into a bad mark before the loop returns: at the io_write_next that sees it, or by the
   mark_bad_all after io_stop on every exit). *)
From Coq Require Import NArith ZArith List Bool Arith Lia.
From Snap.Array Require Import ArrayDefs SyncModel SyncProofsDefs SyncProofsStripe SyncProofsLoop.
From Snap.Fault Require Import FaultModel FaultProofs.
Import ListNotations.

(* ---------------------------------------------------------------------------------------------------------- *)
(* ParOK_nb                                                                                                     *)
(* ---------------------------------------------------------------------------------------------------------- *)
Definition ParOK_nb (hashf : bid -> N -> hval) (bs : N) (c : content) (par : parity) : Prop :=
  forall pos, stripe_synced c pos -> ~ bad_at c pos -> par_enc hashf bs c par pos.

Lemma ParOK_ParOK_nb hashf bs c par : ParOK hashf bs c par -> ParOK_nb hashf bs c par.
Proof. intros H pos Hs _. exact (H pos Hs). Qed.

(* bad_at against the boolean reading of the flag (FixModel.info_bad, the last conjunct of recorded_healthy) *)
Definition info_bad_b (c : content) (pos : nat) : bool :=
  match nth pos (c_info c) None with Some i => i_bad i | None => false end.
Lemma not_bad_iff c pos : ~ bad_at c pos <-> info_bad_b c pos = false.
Proof.
  unfold bad_at, info_bad_b. split.
  - intro H. destruct (nth pos (c_info c) None) as [i|]; [|reflexivity].
    destruct (i_bad i) eqn:E; [|reflexivity]. exfalso. apply H. exists i. auto.
  - intros H [i [E B]]. rewrite E in H. congruence.
Qed.

(* recorded_healthy (FaultModel) = synced, info word present, not bad *)
Lemma healthy_synced c pos : recorded_healthy c pos = true -> stripe_synced c pos /\ ~ bad_at c pos.
Proof.
  unfold recorded_healthy. intro H. apply andb_true_iff in H. destruct H as [H H3].
  apply andb_true_iff in H. destruct H as [H1 H2]. apply negb_true_iff in H2.
  change (slots_of c pos) with (slots c pos) in *.
  split; [split|].
  - intro j. unfold slot_of. destruct (Nat.lt_ge_cases j (length (slots c pos))) as [Hj|Hj].
    + pose proof (existsb_false_In _ _ _ H2 (nth_In _ SEmpty Hj)) as E.
      destruct (nth j (slots c pos) SEmpty) as [|f i b|h]; simpl in *; [exact I | | discriminate E].
      apply negb_false_iff in E. destruct (fb_state b); simpl in E; congruence.
    + rewrite nth_overflow by exact Hj. exact I.
  - apply existsb_exists in H1. destruct H1 as [s [Hin Hs]].
    destruct (In_nth _ _ SEmpty Hin) as [j [_ E]]. exists j. unfold slot_of. rewrite E. exact Hs.
  - intros [i [E B]]. rewrite E, B in H3. discriminate H3.
Qed.

(* ---------------------------------------------------------------------------------------------------------- *)
(* contents that differ in the info array only                                                                  *)
(* ---------------------------------------------------------------------------------------------------------- *)
Lemma disks_slot c c' pos j : c_disks c' = c_disks c -> slot_of c' pos j = slot_of c pos j.
Proof. intro H. rewrite !slot_of_nth. rewrite H. reflexivity. Qed.
Lemma disks_views c c' pos : c_disks c' = c_disks c -> same_views c c' pos.
Proof. intro H. split; [rewrite H; reflexivity|]. intro j. rewrite (disks_slot c c' pos j H). reflexivity. Qed.
Lemma disks_MapOK c c' : c_disks c' = c_disks c -> MapOK c -> MapOK c'.
Proof. intros H HM d Hd. apply HM. rewrite <- H. exact Hd. Qed.
Lemma mark_disks c ps : c_disks (mark_bad_all c ps) = c_disks c.
Proof. apply mark_bad_all_frame. Qed.

(* ---------------------------------------------------------------------------------------------------------- *)
(* the writers                                                                                                  *)
(* ---------------------------------------------------------------------------------------------------------- *)
Lemma in_write_levels par pos v wl lv' :
  In lv' (write_levels par pos v wl) ->
  exists l lv, l < length par /\ In lv par /\
    lv' = match wl l with
          | WOk => set_ext PNone pos (PEnc v) lv
          | WShort => set_ext PNone pos (PJunk 0) lv
          | _ => lv
          end.
Proof.
  unfold write_levels. intro H. apply in_map_iff in H. destruct H as [[l lv] [E Hin]]. simpl in E.
  exists l, lv. split; [|split; [eapply in_combine_r; exact Hin | symmetry; exact E]].
  apply in_combine_l in Hin. apply in_seq in Hin. lia.
Qed.
Lemma level_reports_nil m lag it pos wl nl :
  level_reports m lag it pos wl nl = [] -> forall l, l < nl -> wl l = WOk.
Proof.
  unfold level_reports. intros H l Hl. destruct (wl l) eqn:E; [reflexivity | exfalso | exfalso | exfalso];
    (assert (Hin : exists w, In w (flat_map (fun l0 => match wl l0 with
                     | WOk => []
                     | WEio => [mkWR (report_due m (lag pos l0) it) 1 0 pos]
                     | WErr | WShort => [mkWR (report_due m (lag pos l0) it) 0 1 pos]
                     end) (seq 0 nl)))
       by (eexists; apply in_flat_map; exists l; split; [apply in_seq; lia | rewrite E; left; reflexivity]);
     destruct Hin as [w Hin]; rewrite H in Hin; destruct Hin).
Qed.

Section FaultInv.
  Variable hashf : bid -> N -> hval.
  Variable bs : N.
  Variable nlev : nat.

  Lemma par_enc_write_other c par pos v wl p :
    p <> pos -> par_enc hashf bs c par p -> par_enc hashf bs c (write_levels par pos v wl) p.
  Proof.
    intros Hp H lv' Hin. destruct (in_write_levels par pos v wl lv' Hin) as [l [lv [_ [Hlv ->]]]].
    destruct (H lv Hlv) as [w [E1 E2]]. exists w. split; [|exact E2].
    destruct (wl l); rewrite ?nth_set_ext_other by exact Hp; exact E1.
  Qed.
  (* when every level's write succeeded the stripe holds the vector in every level *)
  Lemma par_enc_write_all c par pos v wl :
    (forall l, l < length par -> wl l = WOk) -> enc_ok hashf bs c pos v ->
    par_enc hashf bs c (write_levels par pos v wl) pos.
  Proof.
    intros Hok He lv' Hin. destruct (in_write_levels par pos v wl lv' Hin) as [l [lv [Hl [_ ->]]]].
    rewrite (Hok l Hl). exists v. split; [apply nth_set_ext_same | exact He].
  Qed.

  (* ParOK up to the bad stripes and the stripes with a failed write whose report is still queued *)
  Definition PendOK (q : list wrep) (c : content) (par : parity) : Prop :=
    forall p, stripe_synced c p -> ~ bad_at c p -> ~ In p (map wr_pos q) -> par_enc hashf bs c par p.

  Lemma ParOK_PendOK c par : ParOK hashf bs c par -> PendOK [] c par.
  Proof. intros H p Hs _ _. exact (H p Hs). Qed.

  (* marking stripes bad: the reports of q that are dropped must be among the marked ones *)
  Lemma PendOK_mark q q' c par ps :
    (forall p, In p (map wr_pos q) -> In p (map wr_pos q') \/ In p ps) ->
    PendOK q c par -> PendOK q' (mark_bad_all c ps) par.
  Proof.
    intros Hq H p Hs Hb Hn.
    pose proof (disks_views c (mark_bad_all c ps) p (mark_disks c ps)) as HV.
    eapply same_views_par_enc; [exact HV|]. apply H.
    - eapply same_views_synced; [apply same_views_sym; exact HV | exact Hs].
    - intro B. apply Hb. apply mark_bad_all_keeps. exact B.
    - intro Hin. destruct (Hq p Hin) as [H1|H1]; [exact (Hn H1)|]. apply Hb. apply mark_bad_all_marks. exact H1.
  Qed.
  Lemma PendOK_end q c par : PendOK q c par -> ParOK_nb hashf bs (mark_bad_all c (map wr_pos q)) par.
  Proof.
    intros H p Hs Hb. apply (PendOK_mark q [] c par (map wr_pos q)); auto.
  Qed.

  (* PastOK is only needed where the stripe is not bad: a bad stripe forces parity_needs_to_be_updated (sync.c: the
     `bad` term of a0's a_need), so the "completed without write" case never occurs there *)
  Definition PastOK_nb (c : content) (par : parity) (pos : nat) : Prop :=
    stripe_quiet c pos -> ~ bad_at c pos -> par_enc hashf bs c par pos.
  Lemma PastOK_PastOK_nb c par pos : PastOK hashf bs c par pos -> PastOK_nb c par pos.
  Proof. intros H Hq _. exact (H Hq). Qed.

  (* an iteration that writes no parity never clears the bad flag of its stripe *)
  Lemma nowrite_keeps_bad o now iob c par fs faults pos :
    so_write (sync_stripe hashf bs nlev o now iob c par fs faults pos) = None ->
    bad_at c pos -> bad_at (so_content (sync_stripe hashf bs nlev o now iob c par fs faults pos)) pos.
  Proof.
    rewrite sync_stripe_eq. cbv zeta.
    destruct (a_bail (ss_A hashf bs o iob c fs faults pos)); simpl; [auto|].
    destruct (ss_proceed _ _ && a_need _) eqn:E; simpl; [discriminate|].
    intros _ [i [Ei B]]. unfold bad_at. cbn [c_info]. unfold ss_info. cbv zeta. rewrite E. simpl.
    destruct (a_silent _ || a_io _).
    - rewrite nth_set_ext_same. rewrite Ei. eexists. split; reflexivity.
    - exists i. auto.
  Qed.

  (* ---- one stripe with the writer outcome (the body of sync_loop_w between the read phase and io_write_next) ---- *)
  Theorem sync_stripe_w_inv o now iob c par fs faults pos q m lag it wl :
    faults_wf bs c pos faults -> PendOK q c par -> PastOK_nb c par pos ->
    let r := sync_stripe hashf bs nlev o now iob c (map (fun lv => nth pos lv PNone) par) fs faults pos in
    let par' := match so_write r with Some v => write_levels par pos v wl | None => par end in
    let reps := match so_write r with Some _ => level_reports m lag it pos wl (length par) | None => [] end in
    PendOK (q ++ reps) (so_content r) par'.
  Proof.
    intros Hwf HP HPast r par' reps p Hs Hb Hn.
    rewrite map_app in Hn.
    assert (Hnq : ~ In p (map wr_pos q)) by (intro H; apply Hn; apply in_or_app; left; exact H).
    assert (Hnr : ~ In p (map wr_pos reps)) by (intro H; apply Hn; apply in_or_app; right; exact H).
    destruct (Nat.eq_dec p pos) as [->|Hp].
    - (* the visited stripe *)
      pose proof (stripe_local hashf bs nlev o now iob c (map (fun lv => nth pos lv PNone) par) fs faults pos Hwf) as HL.
      cbv zeta in HL. fold r in HL. specialize (HL Hs). unfold par', reps in *.
      destruct (so_write r) as [vec|] eqn:Ew.
      + (* written: no report for this stripe, so every level's write succeeded *)
        apply par_enc_write_all; [|exact HL].
        apply (level_reports_nil m lag it pos wl (length par)).
        destruct (level_reports m lag it pos wl (length par)) as [|w t] eqn:E; [reflexivity|]. exfalso. apply Hnr.
        assert (Hw : wr_pos w = pos) by (apply (level_reports_pos m lag it pos wl (length par)); rewrite E; left; reflexivity).
        simpl. left. exact Hw.
      + (* not written: the stripe was not bad before either, and the parity already encodes it (PastOK_nb) *)
        destruct HL as [HQ HT].
        assert (Hb0 : ~ bad_at c pos).
        { intro B. apply Hb. apply nowrite_keeps_bad; [exact Ew | exact B]. }
        intros lv Hin. destruct (HPast HQ Hb0 lv Hin) as [v [E1 E2]].
        exists v. split; [exact E1 | apply HT; exact E2].
    - (* another stripe: frame *)
      destruct (sync_stripe_other_stripes hashf bs nlev o now iob c (map (fun lv => nth pos lv PNone) par) fs faults pos) as [_ HF].
      fold r in HF. destruct (HF p Hp) as (HV & _ & HS & _ & _).
      assert (HE : par_enc hashf bs c par p).
      { apply HP; [apply HS; exact Hs | | exact Hnq].
        intro B. apply Hb. apply stripe_keeps_bad; assumption. }
      eapply same_views_par_enc; [exact HV|]. unfold par'.
      destruct (so_write r); [apply par_enc_write_other; assumption | exact HE].
  Qed.

  (* PastOK_nb of a stripe not visited yet survives the iteration, the writers' outcome and the marks *)
  Lemma PastOK_step_w o now iob c par fs faults pos wl ps p :
    p <> pos -> PastOK_nb c par p ->
    let r := sync_stripe hashf bs nlev o now iob c (map (fun lv => nth pos lv PNone) par) fs faults pos in
    let par' := match so_write r with Some v => write_levels par pos v wl | None => par end in
    PastOK_nb (mark_bad_all (so_content r) ps) par' p.
  Proof.
    intros Hp HPast r par'.
    destruct (sync_stripe_other_stripes hashf bs nlev o now iob c (map (fun lv => nth pos lv PNone) par) fs faults pos) as [_ HF].
    fold r in HF. destruct (HF p Hp) as (HV & _ & _ & HQ & _).
    pose proof (disks_views (so_content r) (mark_bad_all (so_content r) ps) p (mark_disks _ ps)) as HV2.
    intros Hq Hb. eapply same_views_par_enc; [exact HV2|].
    apply (same_views_quiet _ _ _ (same_views_sym _ _ _ HV2)) in Hq. apply HQ in Hq.
    eapply same_views_par_enc; [exact HV|].
    assert (Hb0 : ~ bad_at c p).
    { intro B. apply Hb. apply mark_bad_all_keeps. apply stripe_keeps_bad; assumption. }
    pose proof (HPast Hq Hb0) as HE. unfold par'. destruct (so_write r); [apply par_enc_write_other; assumption | exact HE].
  Qed.
  Lemma faults_wf_step_w o now iob c par fs faults pos ps p fl :
    faults_wf bs c p fl ->
    faults_wf bs (mark_bad_all (so_content (sync_stripe hashf bs nlev o now iob c par fs faults pos)) ps) p fl.
  Proof.
    intro H. eapply same_views_faults_wf; [apply disks_views; apply mark_disks|]. apply sync_stripe_faults_wf. exact H.
  Qed.

  (* ---- the loop, from any point of it ---- *)
  Theorem sync_loop_w_pend o now fs faults wf m lag : forall stripes stop it q fp c par ne ns ni,
    NoDup stripes ->
    (forall p, In p stripes -> faults_wf bs c p (faults p)) ->
    MapOK c -> PendOK q c par -> (forall p, In p stripes -> PastOK_nb c par p) ->
    let r := sync_loop_w hashf bs nlev o now fs faults wf m lag stripes stop it q fp c par ne ns ni in
    MapOK (ro_content (w_run r)) /\ ParOK_nb hashf bs (ro_content (w_run r)) (ro_parity (w_run r)).
  Proof.
    assert (End : forall q c par, MapOK c -> PendOK q c par ->
                    MapOK (mark_bad_all c (map wr_pos q)) /\ ParOK_nb hashf bs (mark_bad_all c (map wr_pos q)) par).
    { intros q c par HM HP. split; [eapply disks_MapOK; [apply mark_disks | exact HM] | apply PendOK_end; exact HP]. }
    induction stripes as [|pos rest IH]; intros stop it q fp c par ne ns ni ND Hwf HM HP HPast; cbn [sync_loop_w]; cbv zeta.
    - cbn [w_run ro_content ro_parity]. apply End; assumption.
    - apply NoDup_cons_iff in ND. destruct ND as [Hnin ND].
      destruct (negb (stripe_enabled o _)).
      { apply IH; auto. intros p Hp. apply Hwf. right. exact Hp. intros p Hp. apply HPast. right. exact Hp. }
      assert (Hw0 : faults_wf bs c pos (faults pos)) by (apply Hwf; left; reflexivity).
      assert (Hp0 : PastOK_nb c par pos) by (apply HPast; left; reflexivity).
      pose proof (sync_stripe_w_inv o now ni c par fs (faults pos) pos q m lag it (wf pos) Hw0 HP Hp0) as HS. cbv zeta in HS.
      pose proof (sync_stripe_map hashf bs nlev o now ni c (map (fun lv => nth pos lv PNone) par) fs (faults pos) pos HM) as HM1.
      set (r := sync_stripe hashf bs nlev o now ni c (map (fun lv => nth pos lv PNone) par) fs (faults pos) pos) in *.
      assert (Hbail : so_bail r = true ->
                MapOK (mark_bad_all (so_content r) (map wr_pos q)) /\ ParOK_nb hashf bs (mark_bad_all (so_content r) (map wr_pos q)) par).
      { intro Hb. apply sync_stripe_bail_nowrite in Hb. fold r in Hb. rewrite Hb in HS. rewrite app_nil_r in HS.
        apply End; assumption. }
      set (par' := match so_write r with Some v => write_levels par pos v (wf pos) | None => par end) in *.
      set (reps := match so_write r with Some _ => level_reports m lag it pos (wf pos) (length par) | None => [] end) in *.
      assert (Hcont : forall stop',
                let c2 := mark_bad_all (so_content r) (map wr_pos (filter (is_due it) (q ++ reps))) in
                forall ne' ns' ni',
                MapOK (ro_content (w_run (sync_loop_w hashf bs nlev o now fs faults wf m lag rest stop' (S it)
                                   (filter (fun w => negb (is_due it w)) (q ++ reps)) (fp ++ map wr_pos reps) c2 par' ne' ns' ni')))
                /\ ParOK_nb hashf bs
                     (ro_content (w_run (sync_loop_w hashf bs nlev o now fs faults wf m lag rest stop' (S it)
                                   (filter (fun w => negb (is_due it w)) (q ++ reps)) (fp ++ map wr_pos reps) c2 par' ne' ns' ni')))
                     (ro_parity (w_run (sync_loop_w hashf bs nlev o now fs faults wf m lag rest stop' (S it)
                                   (filter (fun w => negb (is_due it w)) (q ++ reps)) (fp ++ map wr_pos reps) c2 par' ne' ns' ni')))).
      { intros stop' c2 ne' ns' ni'. apply IH.
        - exact ND.
        - intros p Hp. apply faults_wf_step_w. apply Hwf. right. exact Hp.
        - eapply disks_MapOK; [apply mark_disks | exact HM1].
        - apply (PendOK_mark (q ++ reps)); [|exact HS].
          intros p Hp. destruct (in_map_filter_split (is_due it) (q ++ reps) p Hp) as [H1|H1]; auto.
        - intros p Hp. apply PastOK_step_w; [intro; subst; contradiction | apply HPast; right; exact Hp]. }
      destruct stop as [[|k]|].
      + cbn [w_run ro_content ro_parity]. apply End; assumption.
      + destruct (so_bail r) eqn:Eb; [cbn [w_run ro_content ro_parity]; apply Hbail; reflexivity|].
        destruct ((0 <? _) && _); [cbn [w_run ro_content ro_parity]; apply End; assumption|].
        destruct (0 <? _); [cbn [w_run ro_content ro_parity]; apply End; assumption|].
        apply Hcont.
      + destruct (so_bail r) eqn:Eb; [cbn [w_run ro_content ro_parity]; apply Hbail; reflexivity|].
        destruct ((0 <? _) && _); [cbn [w_run ro_content ro_parity]; apply End; assumption|].
        destruct (0 <? _); [cbn [w_run ro_content ro_parity]; apply End; assumption|].
        apply Hcont.
  Qed.

  (* ---- the whole loop, closed form: ParOK_nb in, ParOK_nb out ---- *)
  Lemma ParOK_nb_PendOK c par : ParOK_nb hashf bs c par -> PendOK [] c par.
  Proof. intros H p Hs Hb _. exact (H p Hs Hb). Qed.
  Theorem sync_loop_w_nb o now fs faults wf m lag stripes stop c par :
    NoDup stripes ->
    (forall p, In p stripes -> faults_wf bs c p (faults p)) ->
    MapOK c -> ParOK_nb hashf bs c par -> (forall p, In p stripes -> PastOK_nb c par p) ->
    let r := sync_loop_w hashf bs nlev o now fs faults wf m lag stripes stop 0 [] [] c par 0 0 0 in
    MapOK (ro_content (w_run r)) /\ ParOK_nb hashf bs (ro_content (w_run r)) (ro_parity (w_run r)).
  Proof.
    intros ND Hwf HM HP HPast. apply sync_loop_w_pend; auto. apply ParOK_nb_PendOK. exact HP.
  Qed.

  (* ---- the whole loop from the invariant of the fault-free theorem (sync_loop_inv) ---- *)
  Theorem sync_loop_w_inv o now fs faults wf m lag stripes stop c par :
    NoDup stripes ->
    (forall p, In p stripes -> faults_wf bs c p (faults p)) ->
    MapOK c -> ParOK hashf bs c par -> (forall p, In p stripes -> PastOK hashf bs c par p) ->
    let r := sync_loop_w hashf bs nlev o now fs faults wf m lag stripes stop 0 [] [] c par 0 0 0 in
    MapOK (ro_content (w_run r)) /\ ParOK_nb hashf bs (ro_content (w_run r)) (ro_parity (w_run r)).
  Proof.
    intros ND Hwf HM HP HPast. apply sync_loop_w_nb; auto.
    - apply ParOK_ParOK_nb. exact HP.
    - intros p Hp. apply PastOK_PastOK_nb. apply HPast. exact Hp.
  Qed.

  (* in the words of FaultModel: a stripe recorded healthy in the final state has valid parity in every level *)
  Corollary sync_loop_w_healthy_valid o now fs faults wf m lag stripes stop c par :
    NoDup stripes ->
    (forall p, In p stripes -> faults_wf bs c p (faults p)) ->
    MapOK c -> ParOK hashf bs c par -> (forall p, In p stripes -> PastOK hashf bs c par p) ->
    let r := sync_loop_w hashf bs nlev o now fs faults wf m lag stripes stop 0 [] [] c par 0 0 0 in
    forall pos, recorded_healthy (ro_content (w_run r)) pos = true ->
    forall lv, In lv (ro_parity (w_run r)) ->
      exists v, nth pos lv PNone = PEnc v /\ enc_ok hashf bs (ro_content (w_run r)) pos v.
  Proof.
    intros ND Hwf HM HP HPast r pos Hh.
    destruct (sync_loop_w_inv o now fs faults wf m lag stripes stop c par ND Hwf HM HP HPast) as [_ H].
    destruct (healthy_synced _ _ Hh) as [Hs Hb]. exact (H pos Hs Hb).
  Qed.

  (* ---- loading and saving ---- *)
  Lemma clear_bad_iff c p : bad_at (clear_past c) p <-> bad_at c p.
  Proof. unfold bad_at, clear_past. cbn [c_info]. tauto. Qed.
  Theorem clear_past_nb c par :
    MapOK c -> ParOK_nb hashf bs c par ->
    MapOK (clear_past c) /\ ParOK_nb hashf bs (clear_past c) par /\ (forall pos, PastOK_nb (clear_past c) par pos).
  Proof.
    intros HM HP.
    assert (HP' : ParOK_nb hashf bs (clear_past c) par).
    { intros pos Hsyn Hb. apply (proj1 (clear_synced_iff c pos)) in Hsyn.
      eapply same_views_par_enc; [apply clear_synced_views; exact Hsyn|]. apply HP; [exact Hsyn|].
      intro B. apply Hb. apply clear_bad_iff. exact B. }
    split; [|split; [exact HP'|]].
    - (* the block map: as in clear_past_inv, which needs no parity hypothesis for it *)
      intros d' Hin. unfold clear_past in Hin. cbn [c_disks] in Hin.
      apply in_map_iff in Hin. destruct Hin as [[d|] [E Hin]]; [|discriminate]. injection E as <-.
      specialize (HM d Hin). unfold MapOK_disk in *. cbn [cd_files cd_deleted].
      change (map_ok (map file_poss (map (mapf gP) (cd_files d))) (map fst (map (fun ph : nat * hval => (fst ph, HInvalid)) (cd_deleted d)))).
      rewrite map_file_poss_mapf by apply gP_pos. rewrite map_map. simpl. exact HM.
    - intros pos Hq Hb. apply HP'; [apply clear_quiet_synced; exact Hq | exact Hb].
  Qed.

  (* the info word of a stripe that holds a file block survives normalisation *)
  Lemma save_info_hasfile c pos j f i b :
    slot_of c pos j = SFile f i b -> nth pos (c_info (save_normalise c)) None = nth pos (c_info c) None.
  Proof.
    intro Hs. apply slot_file_pos in Hs.
    assert (H1 : pos < allocated_size c) by (unfold allocated_size; apply fold_max_In; exact Hs).
    assert (H2 : position_required c pos = true).
    { unfold position_required. apply existsb_exists. exists pos. split; [exact Hs | apply Nat.eqb_refl]. }
    unfold save_normalise. cbv zeta. cbn [c_info]. rewrite nth_map_seq by exact H1. rewrite H2. reflexivity.
  Qed.
  Theorem save_normalise_nb c par :
    MapOK c -> ParOK_nb hashf bs c par -> MapOK (save_normalise c) /\ ParOK_nb hashf bs (save_normalise c) par.
  Proof.
    intros HM HP. split.
    - intros d' Hin. unfold save_normalise in Hin. cbn [c_disks] in Hin.
      apply in_map_iff in Hin. destruct Hin as [[d|] [E Hin]]; [|discriminate]. injection E as <-.
      specialize (HM d Hin). unfold MapOK_disk in *. cbn [cd_files cd_deleted].
      apply (map_ok_filter _ (fun ph => (fst ph <? allocated_size c)%nat && position_required c (fst ph))). exact HM.
    - intros pos Hsyn Hb. pose proof (save_synced_slots c pos Hsyn) as HS.
      assert (HV : same_views c (save_normalise c) pos).
      { split; [apply save_length | intro j; rewrite HS; reflexivity]. }
      eapply same_views_par_enc; [exact HV|].
      assert (Hsyn0 : stripe_synced c pos) by (eapply same_views_synced; [apply same_views_sym; exact HV | exact Hsyn]).
      apply HP; [exact Hsyn0|].
      destruct Hsyn0 as [_ [j Hf]]. destruct (slot_of c pos j) as [|f i b|h] eqn:Es; try discriminate Hf.
      intros [i0 [Ei B]]. apply Hb. exists i0. rewrite (save_info_hasfile c pos j f i b Es). auto.
  Qed.

  (* ---- rounds of load / faulty sync loop / save ---- *)
  Inductive reach_w : phase -> content -> parity -> Prop :=
  | W_init c par : MapOK c -> ParOK_nb hashf bs c par -> reach_w Saved c par
  | W_load c par : reach_w Saved c par -> reach_w Loaded (clear_past c) par
  | W_sync c par o now fs faults wf m lag stripes stop :
      reach_w Loaded c par -> NoDup stripes -> (forall p, In p stripes -> faults_wf bs c p (faults p)) ->
      reach_w Synced (ro_content (w_run (sync_loop_w hashf bs nlev o now fs faults wf m lag stripes stop 0 [] [] c par 0 0 0)))
                     (ro_parity (w_run (sync_loop_w hashf bs nlev o now fs faults wf m lag stripes stop 0 [] [] c par 0 0 0)))
  | W_save c par : reach_w Synced c par -> reach_w Saved (save_normalise c) par.

  Theorem reach_w_inv ph c par :
    reach_w ph c par ->
    MapOK c /\ ParOK_nb hashf bs c par /\ (ph = Loaded -> forall pos, PastOK_nb c par pos).
  Proof.
    induction 1 as [c par HM HP | c par H IH | c par o now fs faults wf m lag stripes stop H IH Hnd Hwf | c par H IH].
    - split; [exact HM|]. split; [exact HP | discriminate].
    - destruct IH as (HM & HP & _). destruct (clear_past_nb c par HM HP) as (A & B & C). auto.
    - destruct IH as (HM & HP & HQ).
      destruct (sync_loop_w_nb o now fs faults wf m lag stripes stop c par Hnd Hwf HM HP) as [A B].
      + intros p _. apply HQ. reflexivity.
      + split; [exact A|]. split; [exact B | discriminate].
    - destruct IH as (HM & HP & _). destruct (save_normalise_nb c par HM HP) as [A B].
      split; [exact A|]. split; [exact B | discriminate].
  Qed.

  (* "every stripe recorded synced and not bad has valid parity", after any number of rounds with failing writes *)
  Theorem synced_notbad_parity_valid ph c par :
    reach_w ph c par ->
    forall pos, stripe_synced c pos -> ~ bad_at c pos ->
    forall lv, In lv par -> exists v, nth pos lv PNone = PEnc v /\ enc_ok hashf bs c pos v.
  Proof. intros H pos Hs Hb. destruct (reach_w_inv ph c par H) as (_ & HP & _). exact (HP pos Hs Hb). Qed.
End FaultInv.

(* ---------------------------------------------------------------------------------------------------------- *)
(* non-vacuity: the scenario of inv_write_fault_refuted through sync_loop_w                                      *)
(* ---------------------------------------------------------------------------------------------------------- *)
(* w_c (2 disks, 1 level, one CHG block at stripe 0, empty parity); the pwrite of level 0 for stripe 0 fails with EIO,
   single-thread io: the block is recorded BLK, the parity holds nothing, and the stripe is marked bad *)
Definition f_wf : nat -> nat -> wres := fun pos l => if Nat.eqb pos 0 && Nat.eqb l 0 then WEio else WOk.
Definition f_run := sync_loop_w w_hashf w_bs 1 w_opts 7%N w_fs (fun _ => []) f_wf Mono (fun _ _ => 0) [0] None 0 [] [] w_c w_par 0 0 0.

Lemma fault_example :
  MapOK (ro_content (w_run f_run))
  /\ ParOK_nb w_hashf w_bs (ro_content (w_run f_run)) (ro_parity (w_run f_run))
  /\ ~ ParOK w_hashf w_bs (ro_content (w_run f_run)) (ro_parity (w_run f_run))
  /\ stripe_synced (ro_content (w_run f_run)) 0 /\ bad_at (ro_content (w_run f_run)) 0
  /\ w_fpos f_run = [0] /\ ro_parity (w_run f_run) = [[]] /\ run_failing (w_run f_run) = true.
Proof.
  assert (Hinv : MapOK (ro_content (w_run f_run)) /\ ParOK_nb w_hashf w_bs (ro_content (w_run f_run)) (ro_parity (w_run f_run))).
  { unfold f_run. apply sync_loop_w_inv.
    - repeat constructor. simpl. tauto.
    - intros p _. apply w_faults_wf.
    - exact w_MapOK.
    - exact w_ParOK.
    - intros p _. apply w_PastOK. }
  destruct Hinv as [A B]. split; [exact A|]. split; [exact B|].
  remember (ro_content (w_run f_run)) as c eqn:Ec. remember (ro_parity (w_run f_run)) as p eqn:Ep.
  assert (Ef : w_fpos f_run = [0]) by (vm_compute; reflexivity).
  assert (Er : run_failing (w_run f_run) = true) by (vm_compute; reflexivity).
  vm_compute in Ec. vm_compute in Ep. subst c p.
  match goal with |- ~ ParOK _ _ ?c _ /\ _ => assert (Hs : stripe_synced c 0) end.
  { split; [|exists 0; reflexivity]. intro j. destruct j as [|[|j]]; [reflexivity | exact I |].
    rewrite slot_of_out by (simpl; lia). exact I. }
  split; [|split; [exact Hs|split; [|auto]]].
  - intro H. destruct (H 0 Hs [] (or_introl eq_refl)) as [v [E _]]. discriminate E.
  - eexists. split; reflexivity.
Qed.

(* a second round: the state is saved and loaded; a plain sync does not select the stripe (all its blocks are BLK: the
   bad mark is for fix -e / scrub -p bad), a forced sync (-F) rewrites it and the fresh info word is not bad any more *)
Definition f_c1 : content := save_normalise (ro_content (w_run f_run)).
Definition f_run2 (o : sopts) :=
  sync_loop_w w_hashf w_bs 1 o 8%N w_fs (fun _ => []) (fun _ _ => WOk) Mono (fun _ _ => 0) [0] None 0 [] []
              (clear_past f_c1) (ro_parity (w_run f_run)) 0 0 0.
Definition f_full := mkSO true false 100.

Lemma faults_wf_nil_f bs c p : faults_wf bs c p [].
Proof. intro j. unfold fault_wf. destruct (slot_of c p j); destruct j; simpl; exact I. Qed.

Lemma fault_rounds_example :
  reach_w w_hashf w_bs 1 Saved f_c1 (ro_parity (w_run f_run))
  /\ bad_at f_c1 0 /\ stripe_synced f_c1 0
  (* plain sync: nothing happens, the stripe stays bad and synced, ParOK_nb holds and ParOK does not *)
  /\ reach_w w_hashf w_bs 1 Synced (ro_content (w_run (f_run2 w_opts))) (ro_parity (w_run (f_run2 w_opts)))
  /\ bad_at (ro_content (w_run (f_run2 w_opts))) 0 /\ ro_parity (w_run (f_run2 w_opts)) = [[]]
  (* forced sync: rewritten, not bad *)
  /\ reach_w w_hashf w_bs 1 Synced (ro_content (w_run (f_run2 f_full))) (ro_parity (w_run (f_run2 f_full)))
  /\ ~ bad_at (ro_content (w_run (f_run2 f_full))) 0 /\ ro_parity (w_run (f_run2 f_full)) = [[PEnc [42%N; 0%N]]].
Proof.
  assert (R1 : reach_w w_hashf w_bs 1 Saved f_c1 (ro_parity (w_run f_run))).
  { unfold f_c1. apply W_save. unfold f_run.
    replace w_c with (clear_past w_c) at 1 2 by reflexivity.
    apply W_sync; [| repeat constructor; simpl; tauto | intros p _; apply faults_wf_nil_f].
    apply W_load. apply W_init; [exact w_MapOK | apply ParOK_ParOK_nb; exact w_ParOK]. }
  assert (R2 : forall o, reach_w w_hashf w_bs 1 Synced (ro_content (w_run (f_run2 o))) (ro_parity (w_run (f_run2 o)))).
  { intro o. unfold f_run2. apply W_sync; [| repeat constructor; simpl; tauto | intros p _; apply faults_wf_nil_f].
    apply W_load. exact R1. }
  split; [exact R1|]. split; [vm_compute; eexists; split; reflexivity|]. split.
  { remember f_c1 as c eqn:E. vm_compute in E. subst c. split; [|exists 0; reflexivity].
    intro j. destruct j as [|[|j]]; [reflexivity | exact I |]. rewrite slot_of_out by (simpl; lia). exact I. }
  split; [apply R2|]. split; [vm_compute; eexists; split; reflexivity|]. split; [vm_compute; reflexivity|].
  split; [apply R2|]. split; [|vm_compute; reflexivity].
  intros [i [E B]]. vm_compute in E. injection E as <-. discriminate B.
Qed.
