(* Model of the sync loop: cmdline/sync.c state_sync_process (one iteration = one enabled stripe) and of the
   content normalisation performed when the state is saved (state.c state_write_content, the parts that change
   the state).  Definitions only.  Not modelled: rehash (hash migration in progress), pre-hash (-h), bandwidth
   limits, progress/usage accounting. *)
From Coq Require Import NArith ZArith List Bool Arith.
From Snap.Array Require Import ArrayDefs.
Import ListNotations.

Section Sync.
  (* hash of the first `len` bytes of a block *)
  Variable hashf : bid -> N -> hval.
  Variable bs : N.            (* block size in bytes *)
  Variable nlev : nat.        (* number of parity levels *)

  (* --- what reading one disk at one stripe yields (sync_data_reader) ------------------------------------ *)
  Inductive rd :=
  | RdNone                              (* no disk at this position, or block EMPTY/DELETED: zero buffer *)
  | RdOk (b : bid) (len : N)            (* data read: padded block id, read_size *)
  | RdErrCont                           (* file missing / no access / attributes changed: ERROR_CONTINUE *)
  | RdIoCont                            (* EIO while reading: IOERROR_CONTINUE *)
  | RdFatal.                            (* any other error: ERROR / IOERROR -> bail *)

  (* reading through the model's view of the file system; `fault` lets the harness inject outcomes *)
  Definition read_slot (fsd : option fsdisk) (s : slot) (fault : option rd) : rd :=
    match s with
    | SFile f idx b =>
        match fault with
        | Some r => r
        | None =>
            match fsd with
            | None => RdErrCont
            | Some d =>
                match find_fs (cf_name f) d with
                | None => RdErrCont                                   (* ENOENT *)
                | Some ff =>
                    if negb (N.eqb (ff_size ff) (cf_size f)) || negb (Z.eqb (ff_mtime ff) (cf_mtime f))
                       || negb (Z.eqb (ff_nsec ff) (cf_nsec f)) || negb (N.eqb (ff_inode ff) (cf_inode f))
                    then RdErrCont                                    (* unexpected attribute change *)
                    else RdOk (nth idx (ff_blocks ff) 0%N) (block_len bs (cf_size f) idx)
                end
            end
        end
    | _ => RdNone
    end.

  (* --- per stripe ---------------------------------------------------------------------------------------- *)
  Record sopts := mkSO { o_force_full : bool; o_force_parity_update : bool; o_io_error_limit : nat }.

  (* block_is_enabled *)
  Definition stripe_enabled (o : sopts) (slots : list slot) : bool :=
    existsb slot_has_file slots && (o_force_full o || existsb slot_invalid_parity slots).

  Record acc := mkAcc {
    a_err : bool;            (* error_on_this_block *)
    a_silent : bool;         (* silent_error_on_this_block *)
    a_io : bool;             (* io_error_on_this_block *)
    a_need : bool;           (* parity_needs_to_be_updated *)
    a_bail : bool;           (* goto bail *)
    a_failed : list (nat * N);   (* failed set: disk position, size *)
    a_newhash : list (nat * hval);  (* CHG blocks: the hash copied into the block *)
    a_nerr : nat; a_nsilent : nat; a_nio : nat
  }.

  (* the loop over the disks of one stripe (order of arrival is irrelevant for everything below except the
     position in the failed list, which is sorted before use) *)
  Definition disk_step (o : sopts) (io_before : nat) (a : acc) (x : nat * slot * rd) : acc :=
    let '(j, s, r) := x in
    if a_bail a then a else
    let inval := slot_invalid_parity s in
    let a1 := if inval
              then mkAcc (a_err a) (a_silent a) (a_io a)
                         (a_need a || match s with SFile _ _ b => negb (bstate_eqb (fb_state b) SChg) | _ => true end)
                         false ((j, bs) :: a_failed a) (a_newhash a) (a_nerr a) (a_nsilent a) (a_nio a)
              else a in
    match s with
    | SFile f idx b =>
        match r with
        | RdFatal => mkAcc (a_err a1) (a_silent a1) (a_io a1) (a_need a1) true (a_failed a1) (a_newhash a1) (S (a_nerr a1)) (a_nsilent a1) (a_nio a1)
        | RdErrCont => mkAcc true (a_silent a1) (a_io a1) (a_need a1) false (a_failed a1) (a_newhash a1) (S (a_nerr a1)) (a_nsilent a1) (a_nio a1)
        | RdIoCont =>
            let nio := S (a_nio a1) in
            if (o_io_error_limit o <=? io_before + nio)%nat
            then mkAcc (a_err a1) (a_silent a1) (a_io a1) (a_need a1) true (a_failed a1) (a_newhash a1) (a_nerr a1) (a_nsilent a1) nio
            else mkAcc (a_err a1) (a_silent a1) true (a_need a1) false (a_failed a1) (a_newhash a1) (a_nerr a1) (a_nsilent a1) nio
        | RdNone => a1   (* cannot happen for a file block *)
        | RdOk blk len =>
            let h := hashf blk len in
            match fb_state b with
            | SBlk | SRep =>                      (* block_has_updated_hash *)
                if hval_eqb h (fb_hash b) then a1
                else if inval
                     then (* REP changed during the sync *)
                          mkAcc true (a_silent a1) (a_io a1) (a_need a1) false (a_failed a1) (a_newhash a1) (S (a_nerr a1)) (a_nsilent a1) (a_nio a1)
                     else (* BLK with a silent error *)
                          mkAcc (a_err a1) true (a_io a1) (a_need a1) false ((j, len) :: a_failed a1) (a_newhash a1) (a_nerr a1) (S (a_nsilent a1)) (a_nio a1)
            | SChg =>
                let need := a_need a1 ||
                            (if h_unique (fb_hash b) then negb (hval_eqb h (fb_hash b)) else true) in
                mkAcc (a_err a1) (a_silent a1) (a_io a1) need false (a_failed a1) ((j, h) :: a_newhash a1) (a_nerr a1) (a_nsilent a1) (a_nio a1)
            end
        end
    | _ => a1
    end.

  (* data vector handed to raid_gen: what was read, zero elsewhere *)
  Definition vec_of (rds : list rd) : list bid :=
    map (fun r => match r with RdOk b _ => b | _ => 0%N end) rds.

  (* on-the-fly repair of silent errors (sync.c 1000-1160): returns the repaired vector or None *)
  Definition agree_outside (F : list nat) (v d : list bid) : bool :=
    forallb (fun i => existsb (Nat.eqb i) F || N.eqb (nth i v 0%N) (nth i d 0%N)) (seq 0 (length d)).

  (* since the fix of F-C05a the hash computed for a CHG block is kept aside (`newhash j`) and stored only when the stripe
     completes: the "was filled with zeros" shortcut of the on-the-fly repair (hash_is_zero, sync.c) tests the PAST hash *)
  Definition onthefly (slots : list slot) (rds : list rd) (failed : list (nat * N)) (newhash : nat -> option hval)
             (par : list penc) : option (list bid) :=
    let failed := (* sorted by disk index *)
      filter (fun jl => existsb (fun f => Nat.eqb (fst f) (fst jl)) failed)
             (map (fun j => (j, match find (fun f => Nat.eqb (fst f) j) failed with Some f => snd f | None => 0%N end))
                  (seq 0 (length slots))) in
    let d := vec_of rds in
    let is_blk j := match nth j slots SEmpty with SFile _ _ b => bstate_eqb (fb_state b) SBlk | _ => false end in
    let zero_chg j := match nth j slots SEmpty with
                      | SFile _ _ b => bstate_eqb (fb_state b) SChg && hval_eqb (fb_hash b) HZero
                      | _ => false end in
    let something := existsb (fun jl => is_blk (fst jl)) failed in
    let torec := map fst (filter (fun jl => negb (zero_chg (fst jl))) failed) in
    if negb something || (nlev <? length torec)%nat then None else
    let d0 := map (fun j => if zero_chg j then 0%N else nth j d 0%N) (seq 0 (length d)) in
    (* raid_rec(nr, ...) decodes with the first nr parity levels (none of them is listed as failed) *)
    let used := firstn (length torec) par in
    match used with
    | PEnc v :: _ =>
        if forallb (fun p => match p with
                             | PEnc v' => Nat.eqb (length v) (length v') && forallb (fun ab => N.eqb (fst ab) (snd ab)) (combine v v')
                             | _ => false end) used
           && agree_outside torec v d0
        then
          (* every failed BLK must now hash to its recorded hash *)
          if forallb (fun jl => if is_blk (fst jl)
                                then match nth (fst jl) slots SEmpty with
                                     | SFile _ _ b => hval_eqb (hashf (nth (fst jl) v 0%N) (snd jl)) (fb_hash b)
                                     | _ => true end
                                else true) failed
          then Some (map (fun j => if is_blk j && existsb (fun jl => Nat.eqb (fst jl) j) failed then nth j v 0%N else nth j d 0%N)
                         (seq 0 (length d)))
          else None
        else None
    | _ => None
    end.

  (* state change of one disk at this stripe when the stripe completes: DELETED -> deallocated, file blocks -> BLK
     (CHG blocks keep the hash computed in this run) *)
  Definition complete_disk (pos : nat) (newhash : option hval) (d : cdisk) : cdisk :=
    mkCD (map (fun f => mkCF (cf_name f) (cf_size f) (cf_mtime f) (cf_nsec f) (cf_inode f) (cf_copy f)
                             (map (fun b => if Nat.eqb (fb_pos b) pos
                                            then mkFB SBlk pos (match fb_state b, newhash with SChg, Some h => h | _, _ => fb_hash b end)
                                            else b) (cf_blocks f))) (cd_files d))
         (filter (fun ph => negb (Nat.eqb (fst ph) pos)) (cd_deleted d))
         (cd_links d) (cd_dirs d).
  (* a skipped stripe changes no block: the hashes computed for its CHG blocks are dropped *)
  Definition skipped_disk (pos : nat) (newhash : option hval) (d : cdisk) : cdisk := d.

  Record stripe_out := mkOut {
    so_content : content;
    so_write : option (list bid);     (* parity written for this stripe (all levels), None = not written *)
    so_bail : bool;
    so_nerr : nat; so_nsilent : nat; so_nio : nat
  }.

  Definition sync_stripe (o : sopts) (now : N) (io_before : nat) (c : content) (par : list penc)
             (fs : list (option fsdisk)) (faults : list (option rd)) (pos : nat) : stripe_out :=
    let slots := map (fun od => match od with Some d => slot_at d pos | None => SEmpty end) (c_disks c) in
    let rds := map (fun j => read_slot (nth j fs None) (nth j slots SEmpty) (nth j faults None)) (seq 0 (length slots)) in
    let inf := nth pos (c_info c) None in
    let bad := match inf with Some i => i_bad i | None => false end in
    let a0 := mkAcc false false false (o_force_full o || o_force_parity_update o || bad) false [] [] 0 0 0 in
    let a := fold_left (disk_step o io_before) (combine (combine (seq 0 (length slots)) slots) rds) a0 in
    if a_bail a then mkOut c None true (a_nerr a) (a_nsilent a) (a_nio a) else
    let newhash j := match find (fun jh => Nat.eqb (fst jh) j) (a_newhash a) with Some jh => Some (snd jh) | None => None end in
    let fixed := if negb (a_err a) && negb (a_io a) && a_silent a then onthefly slots rds (a_failed a) newhash par else None in
    let proceed := negb (a_err a) && negb (a_io a) && (negb (a_silent a) || match fixed with Some _ => true | None => false end) in
    let vec := match fixed with Some v => v | None => vec_of rds end in
    let disks' := if proceed
                  then map (fun jd => match snd jd with Some d => Some (complete_disk pos (newhash (fst jd)) d) | None => None end)
                           (combine (seq 0 (length (c_disks c))) (c_disks c))
                  else map (fun jd => match snd jd with Some d => Some (skipped_disk pos (newhash (fst jd)) d) | None => None end)
                           (combine (seq 0 (length (c_disks c))) (c_disks c)) in
    let info1 := if proceed && a_need a && negb (a_silent a)
                 then set_ext None pos (Some (mkInfo now false false true)) (c_info c) else c_info c in
    let info2 := if a_silent a || a_io a
                 then (* info_set_bad(info) of the value read at the beginning of the iteration *)
                      set_ext None pos (Some (match inf with Some i => mkInfo (i_time i) true (i_rehash i) (i_justsynced i)
                                                           | None => mkInfo 0 true false false end)) info1
                 else info1 in
    mkOut (mkC disks' info2 (c_blockmax c))
          (if proceed && a_need a then Some vec else None)
          false (a_nerr a) (a_nsilent a) (a_nio a).

  (* --- the loop ------------------------------------------------------------------------------------------- *)
  Definition set_parity (par : parity) (pos : nat) (v : list bid) : parity :=
    map (fun lv => set_ext PNone pos (PEnc v) lv) par.

  Record run_out := mkRun { ro_content : content; ro_parity : parity; ro_nerr : nat; ro_nsilent : nat; ro_nio : nat; ro_bailed : bool }.

  (* stripes = the positions to visit (start <= pos < max, in order); `stop` = number of stripes after which a
     graceful stop request is honoured (state_progress returns non-zero), None = never *)
  Fixpoint sync_loop (o : sopts) (now : N) (fs : list (option fsdisk)) (faults : nat -> list (option rd))
           (stripes : list nat) (stop : option nat) (c : content) (par : parity) (ne ns ni : nat) : run_out :=
    match stripes with
    | [] => mkRun c par ne ns ni false
    | pos :: rest =>
        let slots := map (fun od => match od with Some d => slot_at d pos | None => SEmpty end) (c_disks c) in
        if negb (stripe_enabled o slots) then sync_loop o now fs faults rest stop c par ne ns ni else
        match stop with
        | Some O => mkRun c par ne ns ni false
        | _ =>
            let r := sync_stripe o now ni c (map (fun lv => nth pos lv PNone) par) fs (faults pos) pos in
            let ne' := (ne + so_nerr r)%nat in let ns' := (ns + so_nsilent r)%nat in let ni' := (ni + so_nio r)%nat in
            if so_bail r then mkRun (so_content r) par ne' ns' ni' true else
            let par' := match so_write r with Some v => set_parity par pos v | None => par end in
            sync_loop o now fs faults rest (match stop with Some (S k) => Some k | _ => None end) (so_content r) par' ne' ns' ni'
        end
    end.

  (* Note: the set of enabled stripes is computed by the C before the loop starts (block_enabled bit vector);
     processing a stripe only changes that stripe, so evaluating stripe_enabled lazily is equivalent. *)

End Sync.

(* --- saving the state (state_write_content: the parts that change it) ------------------------------------- *)
(* blockmax = parity_allocated_size: one past the highest position holding a FILE block (DELETED do not count) *)
Definition file_positions (c : content) : list nat :=
  flat_map (fun od => match od with
                      | Some d => flat_map (fun f => map fb_pos (cf_blocks f)) (cd_files d)
                      | None => [] end) (c_disks c).
Definition allocated_size (c : content) : nat := fold_left (fun m p => Nat.max m (S p)) (file_positions c) 0%nat.
(* fs_position_is_required *)
Definition position_required (c : content) (pos : nat) : bool := existsb (Nat.eqb pos) (file_positions c).

Definition save_normalise (c : content) : content :=
  let bm := allocated_size c in
  let req := position_required c in
  mkC (map (fun od => match od with
                      | Some d => Some (mkCD (cd_files d)
                                             (filter (fun ph => (fst ph <? bm)%nat && req (fst ph)) (cd_deleted d))
                                             (cd_links d) (cd_dirs d))
                      | None => None end) (c_disks c))
      (map (fun p => if req p then nth p (c_info c) None else None) (seq 0 bm))
      bm.

(* loading with clear_past_hash (sync): the past hashes of CHG and DELETED blocks are set to INVALID *)
Definition clear_past (c : content) : content :=
  mkC (map (fun od => match od with
                      | Some d => Some (mkCD (map (fun f => mkCF (cf_name f) (cf_size f) (cf_mtime f) (cf_nsec f) (cf_inode f) (cf_copy f)
                                                       (map (fun b => match fb_state b with SChg => mkFB SChg (fb_pos b) HInvalid | _ => b end) (cf_blocks f)))
                                                  (cd_files d))
                                             (map (fun ph => (fst ph, HInvalid)) (cd_deleted d))
                                             (cd_links d) (cd_dirs d))
                      | None => None end) (c_disks c))
      (c_info c) (c_blockmax c).

