(* C06: definitions of the invariant (MapOK, stripe_synced, enc_ok, ParOK, PastOK) and the basic lemmas about
   slots, block maps over a disk, and views.  Proofs only; the model is ArrayDefs.v + SyncModel.v. *)
From Coq Require Import NArith ZArith List Bool Arith Lia.
From Snap.Array Require Import ArrayDefs SyncModel.
Import ListNotations.

(* ---------------------------------------------------------------------------------------------------------- *)
(* slots                                                                                                        *)
(* ---------------------------------------------------------------------------------------------------------- *)
(* for every disk position the slot at stripe `pos` (a position without disk is SEmpty); this is literally the
   `slots` of sync_stripe / sync_loop *)
Definition slots (c : content) (pos : nat) : list slot :=
  map (fun od => match od with Some d => slot_at d pos | None => SEmpty end) (c_disks c).
Definition slot_of (c : content) (pos j : nat) : slot := nth j (slots c pos) SEmpty.

Lemma slots_length c pos : length (slots c pos) = length (c_disks c).
Proof. unfold slots. apply map_length. Qed.

Lemma slot_of_nth c pos j :
  slot_of c pos j = match nth j (c_disks c) None with Some d => slot_at d pos | None => SEmpty end.
Proof.
  unfold slot_of, slots.
  exact (map_nth (fun od : option cdisk => match od with Some d => slot_at d pos | None => SEmpty end) (c_disks c) None j).
Qed.

Lemma slot_of_out c pos j : length (c_disks c) <= j -> slot_of c pos j = SEmpty.
Proof. intro H. unfold slot_of. apply nth_overflow. rewrite slots_length. exact H. Qed.

(* what the invariant looks at in a slot: everything except the other blocks of the file *)
Inductive sview :=
| VEmpty
| VFile (name size : N) (mtime nsec : Z) (inode : N) (copy : bool) (idx : nat) (b : fblock)
| VDel (h : hval).
Definition sview_of (s : slot) : sview :=
  match s with
  | SEmpty => VEmpty
  | SFile f i b => VFile (cf_name f) (cf_size f) (cf_mtime f) (cf_nsec f) (cf_inode f) (cf_copy f) i b
  | SDeleted h => VDel h
  end.

(* ---------------------------------------------------------------------------------------------------------- *)
(* the invariant                                                                                                *)
(* ---------------------------------------------------------------------------------------------------------- *)
Definition file_poss (f : cfile) : list nat := map fb_pos (cf_blocks f).
Definition increasing (l : list nat) : Prop := forall i j, i < j < length l -> nth i l 0 < nth j l 0.
(* fp = the position lists of the files of a disk, dp = the positions of its DELETED entries *)
Definition map_ok (fp : list (list nat)) (dp : list nat) : Prop :=
  NoDup (concat fp)                        (* no two file blocks of the disk share a position *)
  /\ (forall l, In l fp -> increasing l)   (* positions strictly increase with the block index *)
  /\ NoDup dp                              (* no duplicate DELETED position *)
  /\ (forall p, In p dp -> ~ In p (concat fp)).   (* a DELETED entry never sits under a file block *)
Definition MapOK_disk (d : cdisk) : Prop := map_ok (map file_poss (cd_files d)) (map fst (cd_deleted d)).
Definition MapOK (c : content) : Prop := forall d, In (Some d) (c_disks c) -> MapOK_disk d.

Definition slot_synced (s : slot) : Prop :=
  match s with SEmpty => True | SFile _ _ b => fb_state b = SBlk | SDeleted _ => False end.
(* "quiet": nothing at this slot forces sync to rewrite the parity: EMPTY, BLK, or CHG with a unique (trusted) past hash *)
Definition slot_quiet (s : slot) : Prop :=
  match s with
  | SEmpty => True
  | SFile _ _ b => fb_state b = SBlk \/ (fb_state b = SChg /\ h_unique (fb_hash b) = true)
  | SDeleted _ => False
  end.
Definition stripe_synced (c : content) (pos : nat) : Prop :=
  (forall j, slot_synced (slot_of c pos j)) /\ exists j, slot_has_file (slot_of c pos j) = true.
Definition stripe_quiet (c : content) (pos : nat) : Prop :=
  (forall j, slot_quiet (slot_of c pos j)) /\ exists j, slot_has_file (slot_of c pos j) = true.

Section Inv.
  Variable hashf : bid -> N -> hval.
  Variable bs : N.

  (* the block id x is a possible content of slot s: it hashes to the recorded hash / is zero at an empty slot *)
  Definition slot_enc (s : slot) (x : bid) : Prop :=
    match s with
    | SFile f idx b => hashf x (block_len bs (cf_size f) idx) = fb_hash b
    | SEmpty => x = 0%N
    | SDeleted _ => True
    end.
  Definition enc_ok (c : content) (pos : nat) (v : list bid) : Prop :=
    length v = length (c_disks c) /\
    forall j, j < length (c_disks c) -> slot_enc (slot_of c pos j) (nth j v 0%N).
  (* every level holds, at pos, a block encoding a vector that fits the recorded hashes *)
  Definition par_enc (c : content) (par : parity) (pos : nat) : Prop :=
    forall lv, In lv par -> exists v, nth pos lv PNone = PEnc v /\ enc_ok c pos v.
  Definition ParOK (c : content) (par : parity) : Prop :=
    forall pos, stripe_synced c pos -> par_enc c par pos.
  (* The hypothesis under which "parity_needs_to_be_updated = 0" is sound.  sync.c:1001-1010 decides not to
     rewrite the parity of a stripe when nothing in it is DELETED/REP, no option forces it, and every CHG block
     has a *unique* recorded hash equal to the hash just computed.  That recorded hash of a CHG block is its
     "past hash": scan.c creates a CHG block over a DELETED/BLK position with the hash the parity was computed
     with; state.c (clear_past_hash, set by snapraid.c:1372 for sync and asserted at sync.c:699) replaces it by
     INVALID at load, so inside `sync` the only unique CHG hashes are the ones scan has just copied from blocks
     that were BLK/DELETED-with-valid-hash in the loaded state.  PastOK says exactly what the C relies on: in a
     stripe made only of EMPTY, BLK and unique-hash CHG blocks (with at least one file block) every level already
     encodes a vector fitting all those hashes and zero at the empty slots. *)
  Definition PastOK (c : content) (par : parity) (pos : nat) : Prop :=
    stripe_quiet c pos -> par_enc c par pos.
End Inv.

Lemma slot_synced_quiet s : slot_synced s -> slot_quiet s.
Proof. destruct s; simpl; auto. Qed.
Lemma stripe_synced_quiet c pos : stripe_synced c pos -> stripe_quiet c pos.
Proof. intros [H1 H2]. split; [intro j; apply slot_synced_quiet, H1 | exact H2]. Qed.

(* PastOK at a synced stripe is ParOK's clause *)
Lemma PastOK_all_ParOK hashf bs c par : (forall pos, PastOK hashf bs c par pos) -> ParOK hashf bs c par.
Proof. intros H pos Hs. apply H. apply stripe_synced_quiet. exact Hs. Qed.

(* ---------------------------------------------------------------------------------------------------------- *)
(* views: the predicates only depend on the views of the slots                                                  *)
(* ---------------------------------------------------------------------------------------------------------- *)
Lemma view_synced s s' : sview_of s' = sview_of s -> slot_synced s -> slot_synced s'.
Proof. destruct s, s'; simpl; intro H; inversion H; subst; auto. Qed.
Lemma view_quiet s s' : sview_of s' = sview_of s -> slot_quiet s -> slot_quiet s'.
Proof. destruct s, s'; simpl; intro H; inversion H; subst; auto. Qed.
Lemma view_has_file s s' : sview_of s' = sview_of s -> slot_has_file s' = slot_has_file s.
Proof. destruct s, s'; simpl; intro H; inversion H; subst; auto. Qed.
Lemma view_enc hashf bs s s' x : sview_of s' = sview_of s -> slot_enc hashf bs s x -> slot_enc hashf bs s' x.
Proof. destruct s, s'; simpl; intro H; inversion H; subst; auto; congruence. Qed.

Definition same_views (c c' : content) (pos : nat) : Prop :=
  length (c_disks c') = length (c_disks c) /\
  forall j, sview_of (slot_of c' pos j) = sview_of (slot_of c pos j).

Lemma same_views_refl c pos : same_views c c pos.
Proof. split; auto. Qed.
Lemma same_views_sym c c' pos : same_views c c' pos -> same_views c' c pos.
Proof. intros [H1 H2]. split; [symmetry; exact H1 | intro j; symmetry; apply H2]. Qed.
Lemma same_views_trans c c' c'' pos : same_views c c' pos -> same_views c' c'' pos -> same_views c c'' pos.
Proof. intros [H1 H2] [H3 H4]. split; [congruence | intro j; rewrite H4; apply H2]. Qed.

Lemma same_views_synced c c' pos : same_views c c' pos -> stripe_synced c pos -> stripe_synced c' pos.
Proof.
  intros [_ Hv] [H1 [j H2]]. split.
  - intro k. eapply view_synced; [apply Hv | apply H1].
  - exists j. rewrite (view_has_file _ _ (Hv j)). exact H2.
Qed.
Lemma same_views_quiet c c' pos : same_views c c' pos -> stripe_quiet c pos -> stripe_quiet c' pos.
Proof.
  intros [_ Hv] [H1 [j H2]]. split.
  - intro k. eapply view_quiet; [apply Hv | apply H1].
  - exists j. rewrite (view_has_file _ _ (Hv j)). exact H2.
Qed.
Lemma same_views_enc hashf bs c c' pos v : same_views c c' pos -> enc_ok hashf bs c pos v -> enc_ok hashf bs c' pos v.
Proof.
  intros [Hl Hv] [H1 H2]. split; [congruence|].
  intros j Hj. eapply view_enc; [apply Hv | apply H2]. rewrite <- Hl. exact Hj.
Qed.
Lemma same_views_par_enc hashf bs c c' par pos :
  same_views c c' pos -> par_enc hashf bs c par pos -> par_enc hashf bs c' par pos.
Proof.
  intros Hv H lv Hin. destruct (H lv Hin) as [v [E1 E2]]. exists v. split; [exact E1|].
  eapply same_views_enc; eauto.
Qed.
Lemma same_views_PastOK hashf bs c c' par pos :
  same_views c c' pos -> PastOK hashf bs c par pos -> PastOK hashf bs c' par pos.
Proof.
  intros Hv H Hq. eapply same_views_par_enc; [exact Hv|]. apply H.
  eapply same_views_quiet; [apply same_views_sym; exact Hv | exact Hq].
Qed.

(* ---------------------------------------------------------------------------------------------------------- *)
(* small list facts                                                                                             *)
(* ---------------------------------------------------------------------------------------------------------- *)
Lemma existsb_false_In {A} (f : A -> bool) l x : existsb f l = false -> In x l -> f x = false.
Proof.
  intros H Hin. destruct (f x) eqn:E; [|reflexivity].
  assert (existsb f l = true) by (apply existsb_exists; exists x; auto). congruence.
Qed.

Lemma nth_set_ext_other {A} (pad : A) pos x l p : p <> pos -> nth p (set_ext pad pos x l) pad = nth p l pad.
Proof.
  revert l p. induction pos as [|n IH]; intros l p Hp.
  - destruct l as [|y t]; destruct p as [|p]; simpl; try congruence; auto. destruct p; reflexivity.
  - destruct l as [|y t]; destruct p as [|p]; simpl; auto.
    rewrite IH by congruence. destruct p; reflexivity.
Qed.
Lemma nth_set_ext_same {A} (pad : A) pos x l : nth pos (set_ext pad pos x l) pad = x.
Proof.
  revert l. induction pos as [|n IH]; intro l; destruct l as [|y t]; simpl; auto.
Qed.

(* nth through the `map … (combine (seq 0 n) disks)` of sync_stripe *)
Lemma nth_map_combine_seq {A} (F : nat -> A -> A) (l : list (option A)) s j :
  nth j (map (fun jd : nat * option A => match snd jd with Some d => Some (F (fst jd) d) | None => None end)
             (combine (seq s (length l)) l)) None
  = match nth j l None with Some d => Some (F (s + j) d) | None => None end.
Proof.
  revert s j. induction l as [|a t IH]; intros s j.
  - simpl. destruct j; reflexivity.
  - simpl. destruct j as [|j].
    + rewrite Nat.add_0_r. reflexivity.
    + rewrite IH. replace (S s + j) with (s + S j) by lia. reflexivity.
Qed.
Lemma length_map_combine_seq {A B} (G : nat * A -> B) (l : list A) s :
  length (map G (combine (seq s (length l)) l)) = length l.
Proof. rewrite map_length, combine_length, seq_length. apply Nat.min_id. Qed.
Lemma in_map_combine_seq {A} (F : nat -> A -> A) (l : list (option A)) s d' :
  In (Some d') (map (fun jd : nat * option A => match snd jd with Some d => Some (F (fst jd) d) | None => None end)
                    (combine (seq s (length l)) l)) ->
  exists j d, In (Some d) l /\ d' = F j d.
Proof.
  intro H. apply in_map_iff in H. destruct H as [[j od] [E Hin]]. simpl in E.
  destruct od as [d|]; [|discriminate]. injection E as E. exists j, d. split; [|auto].
  eapply in_combine_r. exact Hin.
Qed.

(* the list over which sync_stripe folds *)
Lemma combine3_seq {A B} (d : A) (sl : list A) (f : nat -> B) s :
  combine (combine (seq s (length sl)) sl) (map f (seq s (length sl)))
  = map (fun j => (j, nth (j - s) sl d, f j)) (seq s (length sl)).
Proof.
  revert s. induction sl as [|a t IH]; intro s; [reflexivity|].
  simpl. rewrite Nat.sub_diag. f_equal. rewrite IH. apply map_ext_in.
  intros j Hj. apply in_seq in Hj. replace (j - s) with (S (j - S s)) by lia. reflexivity.
Qed.

(* ---------------------------------------------------------------------------------------------------------- *)
(* block maps over a disk                                                                                       *)
(* ---------------------------------------------------------------------------------------------------------- *)
Definition mapf (g : fblock -> fblock) (f : cfile) : cfile :=
  mkCF (cf_name f) (cf_size f) (cf_mtime f) (cf_nsec f) (cf_inode f) (cf_copy f) (map g (cf_blocks f)).

Lemma find_in_file_map g (Hg : forall b, fb_pos (g b) = fb_pos b) pos idx bl :
  find_in_file pos idx (map g bl) =
  match find_in_file pos idx bl with Some (i, b) => Some (i, g b) | None => None end.
Proof.
  revert idx. induction bl as [|b t IH]; intro idx; simpl; [reflexivity|].
  rewrite Hg. destruct (Nat.eqb (fb_pos b) pos); [reflexivity | apply IH].
Qed.
Lemma find_in_files_map g (Hg : forall b, fb_pos (g b) = fb_pos b) pos fl :
  find_in_files pos (map (mapf g) fl) =
  match find_in_files pos fl with Some (f, i, b) => Some (mapf g f, i, g b) | None => None end.
Proof.
  induction fl as [|f t IH]; simpl; [reflexivity|].
  rewrite find_in_file_map by exact Hg.
  destruct (find_in_file pos 0 (cf_blocks f)) as [[i b]|]; [reflexivity | exact IH].
Qed.

Lemma find_in_file_pos pos idx bl i b : find_in_file pos idx bl = Some (i, b) -> fb_pos b = pos /\ In b bl.
Proof.
  revert idx. induction bl as [|x t IH]; intro idx; simpl; [discriminate|].
  destruct (Nat.eqb (fb_pos x) pos) eqn:E.
  - intro H. injection H as _ H. subst. apply Nat.eqb_eq in E. auto.
  - intro H. destruct (IH _ H). auto.
Qed.
Lemma find_in_files_pos pos fl f i b :
  find_in_files pos fl = Some (f, i, b) -> fb_pos b = pos /\ In f fl /\ In b (cf_blocks f).
Proof.
  induction fl as [|x t IH]; simpl; [discriminate|].
  destruct (find_in_file pos 0 (cf_blocks x)) as [[i' b']|] eqn:E.
  - intro H. injection H as H1 H2 H3. subst. destruct (find_in_file_pos _ _ _ _ _ E). auto.
  - intro H. destruct (IH H) as [H1 [H2 H3]]. auto.
Qed.

Lemma find_deleted_filter (P : nat -> bool) pos dl :
  find_deleted pos (filter (fun ph : nat * hval => P (fst ph)) dl) = if P pos then find_deleted pos dl else None.
Proof.
  induction dl as [|[p h] t IH]; simpl; [destruct (P pos); reflexivity|].
  destruct (P p) eqn:EP; simpl.
  - destruct (Nat.eqb p pos) eqn:E.
    + apply Nat.eqb_eq in E. subst. rewrite EP. reflexivity.
    + exact IH.
  - destruct (Nat.eqb p pos) eqn:E.
    + apply Nat.eqb_eq in E. subst. rewrite EP in *. exact IH.
    + exact IH.
Qed.
Lemma find_deleted_map_hash (k : hval -> hval) pos dl :
  find_deleted pos (map (fun ph : nat * hval => (fst ph, k (snd ph))) dl) =
  match find_deleted pos dl with Some h => Some (k h) | None => None end.
Proof.
  induction dl as [|[p h] t IH]; simpl; [reflexivity|].
  destruct (Nat.eqb p pos); [reflexivity | exact IH].
Qed.

(* the slot of a disk whose blocks went through g (position preserving) and whose DELETED list became dl' *)
Lemma slot_at_mapped g (Hg : forall b, fb_pos (g b) = fb_pos b) d dl' lk dr pos :
  slot_at (mkCD (map (mapf g) (cd_files d)) dl' lk dr) pos =
  match find_in_files pos (cd_files d) with
  | Some (f, i, b) => SFile (mapf g f) i (g b)
  | None => match find_deleted pos dl' with Some h => SDeleted h | None => SEmpty end
  end.
Proof.
  unfold slot_at. simpl. rewrite find_in_files_map by exact Hg.
  destruct (find_in_files pos (cd_files d)) as [[[f i] b]|]; reflexivity.
Qed.

Lemma file_poss_mapf g (Hg : forall b, fb_pos (g b) = fb_pos b) f : file_poss (mapf g f) = file_poss f.
Proof.
  unfold file_poss, mapf. simpl. rewrite map_map. apply map_ext. exact Hg.
Qed.
Lemma map_file_poss_mapf g (Hg : forall b, fb_pos (g b) = fb_pos b) fl :
  map file_poss (map (mapf g) fl) = map file_poss fl.
Proof. rewrite map_map. apply map_ext. intro f. apply file_poss_mapf. exact Hg. Qed.

Lemma NoDup_map_fst_filter {A B} (P : A * B -> bool) (l : list (A * B)) :
  NoDup (map fst l) -> NoDup (map fst (filter P l)).
Proof.
  induction l as [|a t IH]; simpl; intro H; [constructor|].
  apply NoDup_cons_iff in H. destruct H as [H1 H2].
  destruct (P a); simpl; [|auto].
  constructor; [|auto]. intro Hin. apply H1.
  apply in_map_iff in Hin. destruct Hin as [x [E Hx]]. apply filter_In in Hx.
  apply in_map_iff. exists x. tauto.
Qed.
Lemma map_ok_filter fp (P : nat * hval -> bool) dl :
  map_ok fp (map fst dl) -> map_ok fp (map fst (filter P dl)).
Proof.
  intros [H1 [H2 [H3 H4]]]. repeat split; auto.
  - apply NoDup_map_fst_filter. exact H3.
  - intros p Hp. apply H4. apply in_map_iff in Hp. destruct Hp as [x [E Hx]]. apply filter_In in Hx.
    apply in_map_iff. exists x. tauto.
Qed.
