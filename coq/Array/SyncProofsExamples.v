(* C06: non-vacuity.  A 3-disk, 2-level state with BLK, CHG (invalid and unique past hash), REP and DELETED blocks
   that satisfies every hypothesis of the loop theorem, and a run of sync_loop on it. *)
From Coq Require Import NArith ZArith List Bool Arith Lia.
From Snap.Array Require Import ArrayDefs SyncModel SyncProofsDefs SyncProofsStripe SyncProofsLoop.
Import ListNotations.
Local Open Scope N_scope.

(* stripe 0: BLK BLK -    (synced)
   stripe 1: BLK REP -
   stripe 2: CHG(invalid) DELETED -
   stripe 3: -   BLK CHG(unique past hash, and the data on disk still has it: the no-write path) *)
Definition e_c : content :=
  mkC [Some (mkCD [mkCF 1 2048 0 0 10 false [mkFB SBlk 0%nat (w_hashf 11 1024); mkFB SBlk 1%nat (w_hashf 12 1024)];
                   mkCF 2 1000 0 0 11 false [mkFB SChg 2%nat HInvalid]] [] [] []);
       Some (mkCD [mkCF 1 1024 0 0 20 false [mkFB SBlk 0%nat (w_hashf 21 1024)];
                   mkCF 2 1024 0 0 21 false [mkFB SRep 1%nat (w_hashf 22 1024)];
                   mkCF 3 1024 0 0 22 false [mkFB SBlk 3%nat (w_hashf 23 1024)]] [(2%nat, HReal 5)] [] []);
       Some (mkCD [mkCF 1 500 0 0 30 false [mkFB SChg 3%nat (w_hashf 33 500)]] [] [] [])] [] 4%nat.
Definition e_par : parity :=
  [[PEnc [11;21;0]; PJunk 1; PJunk 2; PEnc [0;23;33]]; [PEnc [11;21;0]; PJunk 3; PJunk 4; PEnc [0;23;33]]].
Definition e_fs : list (option fsdisk) :=
  [Some [mkFF 1 2048 0 0 10 [11;12]; mkFF 2 1000 0 0 11 [13]];
   Some [mkFF 1 1024 0 0 20 [21]; mkFF 2 1024 0 0 21 [22]; mkFF 3 1024 0 0 22 [23]];
   Some [mkFF 1 500 0 0 30 [33]]].
Definition e_faults : nat -> list (option rd) := fun _ => [].

Ltac e_par_enc :=
  let lv := fresh "lv" in let Hin := fresh "Hin" in let j := fresh "j" in let Hj := fresh "Hj" in
  intros lv Hin; simpl in Hin; destruct Hin as [<-|[<-|[]]];
  (eexists; split; [reflexivity|]; split; [reflexivity|]; intros j Hj;
   destruct j as [|[|[|j]]];
   [vm_compute; reflexivity | vm_compute; reflexivity | vm_compute; reflexivity | simpl in Hj; lia]).

Lemma e_nofile p j : slot_has_file (slot_of e_c (4 + p) j) = false.
Proof.
  destruct (slot_of e_c (4 + p) j) as [|f i b|h] eqn:E; try reflexivity.
  apply slot_file_pos in E. vm_compute in E.
  repeat (destruct E as [E|E]; [discriminate E|]). destruct E.
Qed.

Lemma e_par_enc0 : par_enc w_hashf w_bs e_c e_par 0.
Proof. e_par_enc. Qed.
Lemma e_par_enc3 : par_enc w_hashf w_bs e_c e_par 3.
Proof. e_par_enc. Qed.

Lemma e_PastOK pos : PastOK w_hashf w_bs e_c e_par pos.
Proof.
  intros [H1 [j H2]]. destruct pos as [|[|[|[|p]]]].
  - exact e_par_enc0.
  - specialize (H1 1%nat). vm_compute in H1. destruct H1 as [H1|[H1 _]]; discriminate H1.
  - specialize (H1 1%nat). vm_compute in H1. destruct H1.
  - exact e_par_enc3.
  - change (S (S (S (S p)))) with (4 + p)%nat in H2. rewrite e_nofile in H2. discriminate H2.
Qed.
Lemma e_ParOK : ParOK w_hashf w_bs e_c e_par.
Proof. apply PastOK_all_ParOK. exact e_PastOK. Qed.
(* the quiet, not yet synced stripe 3: PastOK is not vacuous there *)
Lemma e_quiet3 : stripe_quiet e_c 3 /\ ~ stripe_synced e_c 3.
Proof.
  split.
  - split; [|exists 1%nat; reflexivity].
    intro j. destruct j as [|[|[|j]]]; [exact I | left; reflexivity | right; split; reflexivity |].
    rewrite slot_of_out by (simpl; lia). exact I.
  - intros [H _]. specialize (H 2%nat). vm_compute in H. discriminate H.
Qed.
Lemma e_synced0 : stripe_synced e_c 0.
Proof.
  split; [|exists 0%nat; reflexivity].
  intro j. destruct j as [|[|[|j]]]; [reflexivity | reflexivity | exact I |].
  rewrite slot_of_out by (simpl; lia). exact I.
Qed.

Lemma e_MapOK : MapOK e_c.
Proof.
  intros d [E|[E|[E|[]]]]; injection E as <-; unfold MapOK_disk, map_ok; cbn.
  - split; [repeat constructor; simpl; intuition discriminate|].
    split; [|split; [constructor | intros p []]].
    intros l [<-|[<-|[]]] i j Hij; simpl in Hij.
    + destruct i as [|[|i]]; destruct j as [|[|j]]; simpl; lia.
    + lia.
  - split; [repeat constructor; simpl; intuition discriminate|].
    split; [|split; [repeat constructor; simpl; tauto | intros p [<-|[]]; simpl; intuition discriminate]].
    intros l [<-|[<-|[<-|[]]]] i j Hij; simpl in Hij; lia.
  - split; [repeat constructor; simpl; tauto|].
    split; [|split; [constructor | intros p []]].
    intros l [<-|[]] i j Hij; simpl in Hij; lia.
Qed.

Lemma e_faults_wf p : faults_wf w_bs e_c p (e_faults p).
Proof. intro j. unfold fault_wf, e_faults. destruct (slot_of e_c p j); destruct j; simpl; exact I. Qed.

Lemma e_hyps :
  NoDup [0;1;2;3]%nat /\ (forall p, In p [0;1;2;3]%nat -> faults_wf w_bs e_c p (e_faults p))
  /\ MapOK e_c /\ ParOK w_hashf w_bs e_c e_par /\ (forall p, In p [0;1;2;3]%nat -> PastOK w_hashf w_bs e_c e_par p).
Proof.
  split; [repeat constructor; simpl; intuition discriminate|].
  split; [intros p _; apply e_faults_wf|]. split; [exact e_MapOK|]. split; [exact e_ParOK|].
  intros p _. apply e_PastOK.
Qed.

(* the run: stripe 0 is not enabled; stripes 1 and 2 are rewritten; stripe 3 completes WITHOUT a parity write *)
Definition e_run := sync_loop w_hashf w_bs 2 w_opts 7 e_fs e_faults [0;1;2;3]%nat None e_c e_par 0 0 0.
Lemma e_run_result :
  ro_bailed e_run = false
  /\ ro_parity e_run = [[PEnc [11;21;0]; PEnc [12;22;0]; PEnc [13;0;0]; PEnc [0;23;33]];
                        [PEnc [11;21;0]; PEnc [12;22;0]; PEnc [13;0;0]; PEnc [0;23;33]]]
  /\ c_disks (ro_content e_run) =
     [Some (mkCD [mkCF 1 2048 0 0 10 false [mkFB SBlk 0%nat (w_hashf 11 1024); mkFB SBlk 1%nat (w_hashf 12 1024)];
                  mkCF 2 1000 0 0 11 false [mkFB SBlk 2%nat (w_hashf 13 1000)]] [] [] []);
      Some (mkCD [mkCF 1 1024 0 0 20 false [mkFB SBlk 0%nat (w_hashf 21 1024)];
                  mkCF 2 1024 0 0 21 false [mkFB SBlk 1%nat (w_hashf 22 1024)];
                  mkCF 3 1024 0 0 22 false [mkFB SBlk 3%nat (w_hashf 23 1024)]] [] [] []);
      Some (mkCD [mkCF 1 500 0 0 30 false [mkFB SBlk 3%nat (w_hashf 33 500)]] [] [] [])]
  /\ nth 3 (c_info (ro_content e_run)) None = None.
Proof. vm_compute. repeat split; reflexivity. Qed.

(* the single-stripe theorem applied at the no-write stripe *)
Lemma e_stripe3_nowrite :
  so_write (sync_stripe w_hashf w_bs 2 w_opts 7 0 e_c (map (fun lv => nth 3 lv PNone) e_par) e_fs [] 3) = None
  /\ stripe_synced (so_content (sync_stripe w_hashf w_bs 2 w_opts 7 0 e_c (map (fun lv => nth 3 lv PNone) e_par) e_fs [] 3)) 3.
Proof.
  split; [vm_compute; reflexivity|].
  remember (sync_stripe w_hashf w_bs 2 w_opts 7 0 e_c (map (fun lv => nth 3 lv PNone) e_par) e_fs [] 3) as r eqn:E.
  vm_compute in E. subst r. cbn [so_content].
  split; [|exists 1%nat; reflexivity].
  intro j. destruct j as [|[|[|j]]]; [exact I | reflexivity | reflexivity |].
  rewrite slot_of_out by (simpl; lia). exact I.
Qed.

(* Why PastOK is the side condition of theorem 3 (a statement about the hypothesis, not a reachable state of the
   tool): a CHG block whose recorded hash is unique and equals the hash of the data, over a parity that does not
   encode it, is completed without a parity write.  sync never loads such a state (clear_past_hash resets these
   hashes), and since the repair of F-C05a sync no longer produces it either: a skipped stripe keeps its CHG hashes
   (skipped_disk is the identity; before the repair sync.c copied the computed hash into the block at once). *)
Definition p_c : content :=
  mkC [Some (mkCD [mkCF 1 1024 0 0 5 false [mkFB SChg 0%nat (w_hashf 42 1024)]] [] [] []); Some (mkCD [] [] [] [])] [] 0%nat.
Lemma pastok_needed :
  ParOK w_hashf w_bs p_c [[PJunk 9]] /\
  let r := sync_stripe w_hashf w_bs 1 w_opts 7 0 p_c (map (fun lv => nth 0 lv PNone) [[PJunk 9]]) w_fs [] 0 in
  so_write r = None /\ ~ ParOK w_hashf w_bs (so_content r) [[PJunk 9]].
Proof.
  split.
  - intros pos [H1 [j H2]]. exfalso. destruct pos as [|pos].
    + specialize (H1 0%nat). vm_compute in H1. discriminate H1.
    + destruct j as [|[|j]]; [discriminate H2 | discriminate H2 |].
      rewrite slot_of_out in H2 by (simpl; lia). discriminate H2.
  - cbv zeta. split; [vm_compute; reflexivity|].
    remember (sync_stripe w_hashf w_bs 1 w_opts 7 0 p_c (map (fun lv => nth 0 lv PNone) [[PJunk 9]]) w_fs [] 0) as r eqn:E.
    vm_compute in E. subst r. cbn [so_content]. intro H.
    match type of H with ParOK _ _ ?c _ => assert (Hs : stripe_synced c 0) end.
    { split; [|exists 0%nat; reflexivity]. intro j. destruct j as [|[|j]]; [reflexivity | exact I |].
      rewrite slot_of_out by (simpl; lia). exact I. }
    destruct (H 0%nat Hs _ (or_introl eq_refl)) as [v [E _]]. discriminate E.
Qed.

(* a reachable state with a synced stripe: one full round (load, sync, save) from w_c *)
Lemma faults_wf_nil bs c p : faults_wf bs c p [].
Proof. intro j. unfold fault_wf. destruct (slot_of c p j); destruct j; simpl; exact I. Qed.
Definition r_run := sync_loop w_hashf w_bs 1 w_opts 7 w_fs (fun _ => []) [0%nat] None (clear_past w_c) w_par 0 0 0.
Lemma reach_example :
  reach w_hashf w_bs 1 Saved (save_normalise (ro_content r_run)) (ro_parity r_run)
  /\ stripe_synced (save_normalise (ro_content r_run)) 0
  /\ ro_parity r_run = [[PEnc [42; 0]]].
Proof.
  split; [|split].
  - apply R_save. unfold r_run. apply R_sync.
    + apply R_load. apply R_init; [exact w_MapOK | exact w_ParOK].
    + repeat constructor. simpl. tauto.
    + intros p _. apply faults_wf_nil.
  - remember (save_normalise (ro_content r_run)) as c eqn:E. vm_compute in E. subst c.
    split; [|exists 0%nat; reflexivity]. intro j. destruct j as [|[|j]]; [reflexivity | exact I |].
    rewrite slot_of_out by (simpl; lia). exact I.
  - vm_compute. reflexivity.
Qed.
