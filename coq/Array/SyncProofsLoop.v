(* C06: the invariant through the sync loop, through saving and loading, reachability, and the refutation
   under a failing parity write (finding F-C08). *)
From Coq Require Import NArith ZArith List Bool Arith Lia.
From Snap.Array Require Import ArrayDefs SyncModel SyncProofsDefs SyncProofsStripe.
Import ListNotations.

Lemma nth_map_opt {A B} (G : option A -> option B) l j : G None = None -> nth j (map G l) None = G (nth j l None).
Proof. intro H. revert j. induction l as [|a t IH]; intro j; destruct j; simpl; auto. Qed.

(* ---------------------------------------------------------------------------------------------------------- *)
(* 4. the loop                                                                                                  *)
(* ---------------------------------------------------------------------------------------------------------- *)
Section Loop.
  Variable hashf : bid -> N -> hval.
  Variable bs : N.
  Variable nlev : nat.

  Lemma par_enc_set_other c par pos v p :
    p <> pos -> par_enc hashf bs c par p -> par_enc hashf bs c (set_parity par pos v) p.
  Proof.
    intros Hp H lv' Hin. apply in_set_parity in Hin. destruct Hin as [lv [Hlv ->]].
    destruct (H lv Hlv) as [w [E1 E2]]. exists w. split; [|exact E2].
    rewrite nth_set_ext_other by exact Hp. exact E1.
  Qed.

  Lemma sync_stripe_bail_nowrite o now iob c par fs faults pos :
    so_bail (sync_stripe hashf bs nlev o now iob c par fs faults pos) = true ->
    so_write (sync_stripe hashf bs nlev o now iob c par fs faults pos) = None.
  Proof.
    rewrite sync_stripe_eq. cbv zeta. destruct (a_bail (ss_A hashf bs o iob c fs faults pos)); simpl; [reflexivity | discriminate].
  Qed.

  (* one visited stripe: the invariants, and the hypotheses about the stripes still to visit, carry over *)
  Lemma loop_step_inv o now iob fs (faults : nat -> list (option rd)) pos rest c par :
    ~ In pos rest ->
    (forall p, In p (pos :: rest) -> faults_wf bs c p (faults p)) ->
    MapOK c -> ParOK hashf bs c par -> (forall p, In p (pos :: rest) -> PastOK hashf bs c par p) ->
    let r := sync_stripe hashf bs nlev o now iob c (map (fun lv => nth pos lv PNone) par) fs (faults pos) pos in
    let par' := match so_write r with Some v => set_parity par pos v | None => par end in
    MapOK (so_content r) /\ ParOK hashf bs (so_content r) par'
    /\ (forall p, In p rest -> faults_wf bs (so_content r) p (faults p))
    /\ (forall p, In p rest -> PastOK hashf bs (so_content r) par' p).
  Proof.
    intros Hnin Hwf HM HP HPast r par'.
    split; [apply sync_stripe_map; exact HM|].
    split; [apply sync_stripe_par; [apply Hwf; left; reflexivity | exact HP | apply HPast; left; reflexivity]|].
    destruct (sync_stripe_other_stripes hashf bs nlev o now iob c (map (fun lv => nth pos lv PNone) par) fs (faults pos) pos) as [_ HF].
    fold r in HF.
    split.
    - intros p Hp. assert (p <> pos) by (intro; subst; contradiction).
      destruct (HF p H) as (HV & _). eapply same_views_faults_wf; [exact HV|]. apply Hwf. right. exact Hp.
    - intros p Hp. assert (Hne : p <> pos) by (intro; subst; contradiction).
      destruct (HF p Hne) as (HV & _ & _ & HQ & _).
      intro Hq. apply HQ in Hq.
      eapply same_views_par_enc; [exact HV|].
      assert (HE : par_enc hashf bs c par p) by (apply HPast; [right; exact Hp | exact Hq]).
      unfold par'. destruct (so_write r); [apply par_enc_set_other; assumption | exact HE].
  Qed.

  Theorem sync_loop_inv : forall stripes o now fs faults stop c par ne ns ni,
    NoDup stripes ->
    (forall p, In p stripes -> faults_wf bs c p (faults p)) ->
    MapOK c -> ParOK hashf bs c par -> (forall p, In p stripes -> PastOK hashf bs c par p) ->
    let r := sync_loop hashf bs nlev o now fs faults stripes stop c par ne ns ni in
    MapOK (ro_content r) /\ ParOK hashf bs (ro_content r) (ro_parity r).
  Proof.
    induction stripes as [|pos rest IH]; intros o now fs faults stop c par ne ns ni Hnd Hwf HM HP HPast.
    - simpl. auto.
    - apply NoDup_cons_iff in Hnd. destruct Hnd as [Hnin Hnd].
      cbn [sync_loop].
      destruct (negb (stripe_enabled o (map (fun od => match od with Some d => slot_at d pos | None => SEmpty end) (c_disks c)))).
      + apply IH; auto. intros p Hp. apply Hwf. right. exact Hp. intros p Hp. apply HPast. right. exact Hp.
      + pose proof (loop_step_inv o now ni fs faults pos rest c par Hnin Hwf HM HP HPast) as HS. cbv zeta in HS.
        destruct HS as (M' & P' & W' & Q').
        assert (Hbail : so_bail (sync_stripe hashf bs nlev o now ni c (map (fun lv => nth pos lv PNone) par) fs (faults pos) pos) = true ->
                        MapOK (so_content (sync_stripe hashf bs nlev o now ni c (map (fun lv => nth pos lv PNone) par) fs (faults pos) pos))
                        /\ ParOK hashf bs (so_content (sync_stripe hashf bs nlev o now ni c (map (fun lv => nth pos lv PNone) par) fs (faults pos) pos)) par).
        { intro Hb. apply sync_stripe_bail_nowrite in Hb. rewrite Hb in P'. auto. }
        destruct stop as [[|k]|].
        * simpl. auto.
        * cbv zeta.
          destruct (so_bail (sync_stripe hashf bs nlev o now ni c (map (fun lv => nth pos lv PNone) par) fs (faults pos) pos)) eqn:Eb.
          -- simpl. apply Hbail. reflexivity.
          -- apply IH; auto.
        * cbv zeta.
          destruct (so_bail (sync_stripe hashf bs nlev o now ni c (map (fun lv => nth pos lv PNone) par) fs (faults pos) pos)) eqn:Eb.
          -- simpl. apply Hbail. reflexivity.
          -- apply IH; auto.
  Qed.

  (* Since the repair of F-C05a (a skipped stripe no longer stores the hashes it computed) the stripes need not be
     distinct: PastOK also survives at the visited position (sync_stripe_past). *)
  Lemma loop_step_any o now iob fs (faults : nat -> list (option rd)) pos rest c par :
    (forall p, In p (pos :: rest) -> faults_wf bs c p (faults p)) ->
    MapOK c -> ParOK hashf bs c par -> (forall p, In p (pos :: rest) -> PastOK hashf bs c par p) ->
    let r := sync_stripe hashf bs nlev o now iob c (map (fun lv => nth pos lv PNone) par) fs (faults pos) pos in
    let par' := match so_write r with Some v => set_parity par pos v | None => par end in
    MapOK (so_content r) /\ ParOK hashf bs (so_content r) par'
    /\ (forall p, In p rest -> faults_wf bs (so_content r) p (faults p))
    /\ (forall p, In p rest -> PastOK hashf bs (so_content r) par' p).
  Proof.
    intros Hwf HM HP HPast r par'.
    assert (Hw0 : faults_wf bs c pos (faults pos)) by (apply Hwf; left; reflexivity).
    assert (Hp0 : PastOK hashf bs c par pos) by (apply HPast; left; reflexivity).
    split; [apply sync_stripe_map; exact HM|].
    split; [apply sync_stripe_par; assumption|].
    destruct (sync_stripe_other_stripes hashf bs nlev o now iob c (map (fun lv => nth pos lv PNone) par) fs (faults pos) pos) as [_ HF].
    fold r in HF.
    split.
    - intros p Hp. apply sync_stripe_faults_wf. apply Hwf. right. exact Hp.
    - intros p Hp. destruct (Nat.eq_dec p pos) as [->|Hne].
      + apply sync_stripe_past; assumption.
      + destruct (HF p Hne) as (HV & _ & _ & HQ & _).
        intro Hq. apply HQ in Hq.
        eapply same_views_par_enc; [exact HV|].
        assert (HE : par_enc hashf bs c par p) by (apply HPast; [right; exact Hp | exact Hq]).
        unfold par'. destruct (so_write r); [apply par_enc_set_other; assumption | exact HE].
  Qed.

  Theorem sync_loop_inv_any : forall stripes o now fs faults stop c par ne ns ni,
    (forall p, In p stripes -> faults_wf bs c p (faults p)) ->
    MapOK c -> ParOK hashf bs c par -> (forall p, In p stripes -> PastOK hashf bs c par p) ->
    let r := sync_loop hashf bs nlev o now fs faults stripes stop c par ne ns ni in
    MapOK (ro_content r) /\ ParOK hashf bs (ro_content r) (ro_parity r).
  Proof.
    induction stripes as [|pos rest IH]; intros o now fs faults stop c par ne ns ni Hwf HM HP HPast.
    - simpl. auto.
    - cbn [sync_loop].
      destruct (negb (stripe_enabled o (map (fun od => match od with Some d => slot_at d pos | None => SEmpty end) (c_disks c)))).
      + apply IH; auto. intros p Hp. apply Hwf. right. exact Hp. intros p Hp. apply HPast. right. exact Hp.
      + pose proof (loop_step_any o now ni fs faults pos rest c par Hwf HM HP HPast) as HS. cbv zeta in HS.
        destruct HS as (M' & P' & W' & Q').
        assert (Hbail : so_bail (sync_stripe hashf bs nlev o now ni c (map (fun lv => nth pos lv PNone) par) fs (faults pos) pos) = true ->
                        MapOK (so_content (sync_stripe hashf bs nlev o now ni c (map (fun lv => nth pos lv PNone) par) fs (faults pos) pos))
                        /\ ParOK hashf bs (so_content (sync_stripe hashf bs nlev o now ni c (map (fun lv => nth pos lv PNone) par) fs (faults pos) pos)) par).
        { intro Hb. apply sync_stripe_bail_nowrite in Hb. rewrite Hb in P'. auto. }
        destruct stop as [[|k]|].
        * simpl. auto.
        * cbv zeta.
          destruct (so_bail (sync_stripe hashf bs nlev o now ni c (map (fun lv => nth pos lv PNone) par) fs (faults pos) pos)) eqn:Eb.
          -- simpl. apply Hbail. reflexivity.
          -- apply IH; auto.
        * cbv zeta.
          destruct (so_bail (sync_stripe hashf bs nlev o now ni c (map (fun lv => nth pos lv PNone) par) fs (faults pos) pos)) eqn:Eb.
          -- simpl. apply Hbail. reflexivity.
          -- apply IH; auto.
  Qed.
End Loop.

(* ---------------------------------------------------------------------------------------------------------- *)
(* 5. saving and loading                                                                                        *)
(* ---------------------------------------------------------------------------------------------------------- *)
Lemma slot_file_pos c pos j f i b : slot_of c pos j = SFile f i b -> In pos (file_positions c).
Proof.
  rewrite slot_of_nth. intro H.
  destruct (nth j (c_disks c) None) as [d|] eqn:Ed; [|discriminate].
  assert (Hin : In (Some d) (c_disks c)).
  { rewrite <- Ed. apply nth_In. destruct (Nat.lt_ge_cases j (length (c_disks c))) as [Hj|Hj]; [exact Hj|].
    rewrite nth_overflow in Ed by exact Hj. discriminate. }
  unfold slot_at in H. destruct (find_in_files pos (cd_files d)) as [[[f' i'] b']|] eqn:E.
  - apply find_in_files_pos in E. destruct E as [E1 [E2 E3]].
    unfold file_positions. apply in_flat_map. exists (Some d). split; [exact Hin|].
    apply in_flat_map. exists f'. split; [exact E2|]. apply in_map_iff. exists b'. auto.
  - destruct (find_deleted pos (cd_deleted d)); discriminate.
Qed.

Lemma fold_max_ge l : forall m, m <= fold_left (fun m p => Nat.max m (S p)) l m.
Proof. induction l as [|a t IH]; intro m; simpl; [lia|]. specialize (IH (Nat.max m (S a))). lia. Qed.
Lemma fold_max_In l p : forall m, In p l -> p < fold_left (fun m p => Nat.max m (S p)) l m.
Proof.
  induction l as [|a t IH]; intros m H; simpl; [destruct H|]. destruct H as [->|H].
  - pose proof (fold_max_ge t (Nat.max m (S p))). lia.
  - apply IH. exact H.
Qed.

Lemma save_slot c pos j :
  slot_of (save_normalise c) pos j =
  match slot_of c pos j with
  | SDeleted h => if (pos <? allocated_size c)%nat && position_required c pos then SDeleted h else SEmpty
  | s => s
  end.
Proof.
  rewrite !slot_of_nth. unfold save_normalise. cbv zeta. cbn [c_disks].
  rewrite nth_map_opt by reflexivity.
  destruct (nth j (c_disks c) None) as [d|]; [|reflexivity].
  unfold slot_at. cbn [cd_files cd_deleted].
  destruct (find_in_files pos (cd_files d)) as [[[f i] b]|]; [reflexivity|].
  rewrite (find_deleted_filter (fun p => (p <? allocated_size c)%nat && position_required c p)).
  destruct (find_deleted pos (cd_deleted d));
    destruct ((pos <? allocated_size c)%nat && position_required c pos); reflexivity.
Qed.

Lemma save_length c : length (c_disks (save_normalise c)) = length (c_disks c).
Proof. unfold save_normalise. cbn [c_disks]. apply map_length. Qed.

(* the crux: a stripe that is synced after normalisation has a file block, hence its position is required and
   below the allocated size, hence none of its DELETED entries was dropped: its slots are unchanged *)
Lemma save_synced_slots c pos :
  stripe_synced (save_normalise c) pos -> forall j, slot_of (save_normalise c) pos j = slot_of c pos j.
Proof.
  intros [_ [j0 Hf]] j. rewrite save_slot in *.
  assert (Hin : In pos (file_positions c)).
  { destruct (slot_of c pos j0) as [|f i b|h] eqn:E.
    - discriminate.
    - eapply slot_file_pos; eauto.
    - destruct ((pos <? allocated_size c)%nat && position_required c pos); discriminate. }
  assert (H1 : (pos <? allocated_size c)%nat = true).
  { apply Nat.ltb_lt. unfold allocated_size. apply fold_max_In. exact Hin. }
  assert (H2 : position_required c pos = true).
  { unfold position_required. apply existsb_exists. exists pos. split; [exact Hin | apply Nat.eqb_refl]. }
  rewrite H1, H2. simpl. destruct (slot_of c pos j); reflexivity.
Qed.

Theorem save_normalise_inv hashf bs c par :
  MapOK c -> ParOK hashf bs c par ->
  MapOK (save_normalise c) /\ ParOK hashf bs (save_normalise c) par.
Proof.
  intros HM HP. split.
  - intros d' Hin. unfold save_normalise in Hin. cbn [c_disks] in Hin.
    apply in_map_iff in Hin. destruct Hin as [[d|] [E Hin]]; [|discriminate]. injection E as <-.
    specialize (HM d Hin). unfold MapOK_disk in *. cbn [cd_files cd_deleted].
    apply (map_ok_filter _ (fun ph => (fst ph <? allocated_size c)%nat && position_required c (fst ph))). exact HM.
  - intros pos Hsyn. pose proof (save_synced_slots c pos Hsyn) as HS.
    assert (HV : same_views c (save_normalise c) pos).
    { split; [apply save_length | intro j; rewrite HS; reflexivity]. }
    eapply same_views_par_enc; [exact HV|]. apply HP.
    eapply same_views_synced; [apply same_views_sym; exact HV | exact Hsyn].
Qed.

(* loading with clear_past_hash *)
Definition gP (b : fblock) : fblock := match fb_state b with SChg => mkFB SChg (fb_pos b) HInvalid | _ => b end.
Lemma gP_pos b : fb_pos (gP b) = fb_pos b.
Proof. unfold gP. destruct (fb_state b); reflexivity. Qed.
Lemma gP_state b : fb_state (gP b) = fb_state b.
Proof. unfold gP. destruct (fb_state b) eqn:E; simpl; congruence. Qed.

Lemma clear_slot c pos j :
  slot_of (clear_past c) pos j =
  match slot_of c pos j with
  | SFile f i b => SFile (mapf gP f) i (gP b)
  | SDeleted _ => SDeleted HInvalid
  | SEmpty => SEmpty
  end.
Proof.
  rewrite !slot_of_nth. unfold clear_past. cbn [c_disks].
  rewrite nth_map_opt by reflexivity.
  destruct (nth j (c_disks c) None) as [d|]; [|reflexivity].
  change (slot_at (mkCD (map (mapf gP) (cd_files d)) (map (fun ph : nat * hval => (fst ph, (fun _ => HInvalid) (snd ph))) (cd_deleted d))
                        (cd_links d) (cd_dirs d)) pos =
          match slot_at d pos with SFile f i b => SFile (mapf gP f) i (gP b) | SDeleted _ => SDeleted HInvalid | SEmpty => SEmpty end).
  rewrite slot_at_mapped by apply gP_pos. unfold slot_at.
  destruct (find_in_files pos (cd_files d)) as [[[f i] b]|]; [reflexivity|].
  rewrite (find_deleted_map_hash (fun _ => HInvalid)).
  destruct (find_deleted pos (cd_deleted d)); reflexivity.
Qed.
Lemma clear_length c : length (c_disks (clear_past c)) = length (c_disks c).
Proof. unfold clear_past. cbn [c_disks]. apply map_length. Qed.

Lemma clear_synced_iff c pos : stripe_synced (clear_past c) pos <-> stripe_synced c pos.
Proof.
  split; intros [H1 [j0 H2]]; split.
  - intro j. specialize (H1 j). rewrite clear_slot in H1. destruct (slot_of c pos j); simpl in *; auto.
    rewrite gP_state in H1. exact H1.
  - exists j0. rewrite clear_slot in H2. destruct (slot_of c pos j0); simpl in *; auto.
  - intro j. specialize (H1 j). rewrite clear_slot. destruct (slot_of c pos j); simpl in *; auto.
    rewrite gP_state. exact H1.
  - exists j0. rewrite clear_slot. destruct (slot_of c pos j0); simpl in *; auto.
Qed.
Lemma clear_synced_views c pos : stripe_synced c pos -> same_views c (clear_past c) pos.
Proof.
  intros [H1 _]. split; [apply clear_length|]. intro j. specialize (H1 j). rewrite clear_slot.
  destruct (slot_of c pos j) as [|f i b|h]; simpl in *; [reflexivity | | destruct H1].
  unfold gP. rewrite H1. reflexivity.
Qed.
(* after clear_past no CHG block has a unique hash: a quiet stripe is a synced stripe *)
Lemma clear_quiet_synced c pos : stripe_quiet (clear_past c) pos -> stripe_synced (clear_past c) pos.
Proof.
  intros [H1 H2]. split; [|exact H2]. intro j. specialize (H1 j). rewrite clear_slot in *.
  destruct (slot_of c pos j) as [|f i b|h]; simpl in *; auto.
  destruct H1 as [H1|[H1 H3]]; [exact H1|]. unfold gP in *. destruct (fb_state b) eqn:E; simpl in *; congruence.
Qed.

Theorem clear_past_inv hashf bs c par :
  MapOK c -> ParOK hashf bs c par ->
  MapOK (clear_past c) /\ ParOK hashf bs (clear_past c) par /\ (forall pos, PastOK hashf bs (clear_past c) par pos).
Proof.
  intros HM HP.
  assert (HP' : ParOK hashf bs (clear_past c) par).
  { intros pos Hsyn. apply (proj1 (clear_synced_iff c pos)) in Hsyn.
    eapply same_views_par_enc; [apply clear_synced_views; exact Hsyn | apply HP; exact Hsyn]. }
  split; [|split; [exact HP'|]].
  - intros d' Hin. unfold clear_past in Hin. cbn [c_disks] in Hin.
    apply in_map_iff in Hin. destruct Hin as [[d|] [E Hin]]; [|discriminate]. injection E as <-.
    specialize (HM d Hin). unfold MapOK_disk in *. cbn [cd_files cd_deleted].
    change (map_ok (map file_poss (map (mapf gP) (cd_files d))) (map fst (map (fun ph : nat * hval => (fst ph, HInvalid)) (cd_deleted d)))).
    rewrite map_file_poss_mapf by apply gP_pos. rewrite map_map. simpl. exact HM.
  - intros pos Hq. apply HP'. apply clear_quiet_synced. exact Hq.
Qed.

(* ---------------------------------------------------------------------------------------------------------- *)
(* 6. reachable states                                                                                          *)
(* ---------------------------------------------------------------------------------------------------------- *)
Inductive phase := Saved | Loaded | Synced.

Section Reach.
  Variable hashf : bid -> N -> hval.
  Variable bs : N.
  Variable nlev : nat.

  (* rounds of: load with clear_past_hash; a sync loop over any list of distinct stripes with any options, any
     data disks, any (well-formed) injected read outcomes, stopped anywhere or bailing; save.  The state after
     each of the three phases is reachable: the loop may stop after any number of stripes (`stop`), so every
     intermediate state of a loop is the final state of a shorter one. *)
  Inductive reach : phase -> content -> parity -> Prop :=
  | R_init c par : MapOK c -> ParOK hashf bs c par -> reach Saved c par
  | R_load c par : reach Saved c par -> reach Loaded (clear_past c) par
  | R_sync c par o now fs faults stripes stop ne ns ni :
      reach Loaded c par -> NoDup stripes -> (forall p, In p stripes -> faults_wf bs c p (faults p)) ->
      reach Synced (ro_content (sync_loop hashf bs nlev o now fs faults stripes stop c par ne ns ni))
                   (ro_parity (sync_loop hashf bs nlev o now fs faults stripes stop c par ne ns ni))
  | R_save c par : reach Synced c par -> reach Saved (save_normalise c) par.

  Lemma reach_inv ph c par :
    reach ph c par ->
    MapOK c /\ ParOK hashf bs c par /\ (ph = Loaded -> forall pos, PastOK hashf bs c par pos).
  Proof.
    induction 1 as [c par HM HP | c par H IH | c par o now fs faults stripes stop ne ns ni H IH Hnd Hwf | c par H IH].
    - split; [exact HM|]. split; [exact HP | discriminate].
    - destruct IH as (HM & HP & _). destruct (clear_past_inv hashf bs c par HM HP) as (A & B & C). auto.
    - destruct IH as (HM & HP & HQ).
      destruct (sync_loop_inv hashf bs nlev stripes o now fs faults stop c par ne ns ni Hnd Hwf HM HP) as [A B].
      + intros p _. apply HQ. reflexivity.
      + split; [exact A|]. split; [exact B | discriminate].
    - destruct IH as (HM & HP & _). destruct (save_normalise_inv hashf bs c par HM HP) as [A B].
      split; [exact A|]. split; [exact B | discriminate].
  Qed.

  (* the first sentence of the property *)
  Theorem synced_parity_valid ph c par :
    reach ph c par ->
    forall pos, stripe_synced c pos ->
    forall lv, In lv par -> exists v, nth pos lv PNone = PEnc v /\ enc_ok hashf bs c pos v.
  Proof. intros H pos Hs. destruct (reach_inv ph c par H) as (_ & HP & _). exact (HP pos Hs). Qed.

  Theorem reachable_map_ok ph c par : reach ph c par -> MapOK c.
  Proof. intro H. destruct (reach_inv ph c par H) as (HM & _). exact HM. Qed.
End Reach.

(* ---------------------------------------------------------------------------------------------------------- *)
(* 7. a failing parity write                                                                                    *)
(* ---------------------------------------------------------------------------------------------------------- *)
(* the parity writer of level l fails at stripe pos iff `drop pos l`; nothing else differs from sync_loop: the
   stripe is completed all the same (sync.c:1163-1225 does not look at the outcome of the writers) *)
Definition set_parity' (drop : nat -> bool) (par : parity) (pos : nat) (v : list bid) : parity :=
  map (fun llv : nat * list penc => if drop (fst llv) then snd llv else set_ext PNone pos (PEnc v) (snd llv))
      (combine (seq 0 (length par)) par).

Section LoopF.
  Variable hashf : bid -> N -> hval.
  Variable bs : N.
  Variable nlev : nat.
  Variable drop : nat -> nat -> bool.
  Fixpoint sync_loop' (o : sopts) (now : N) (fs : list (option fsdisk)) (faults : nat -> list (option rd))
           (stripes : list nat) (stop : option nat) (c : content) (par : parity) (ne ns ni : nat) : run_out :=
    match stripes with
    | [] => mkRun c par ne ns ni false
    | pos :: rest =>
        let slots := map (fun od => match od with Some d => slot_at d pos | None => SEmpty end) (c_disks c) in
        if negb (stripe_enabled o slots) then sync_loop' o now fs faults rest stop c par ne ns ni else
        match stop with
        | Some O => mkRun c par ne ns ni false
        | _ =>
            let r := sync_stripe hashf bs nlev o now ni c (map (fun lv => nth pos lv PNone) par) fs (faults pos) pos in
            let ne' := (ne + so_nerr r)%nat in let ns' := (ns + so_nsilent r)%nat in let ni' := (ni + so_nio r)%nat in
            if so_bail r then mkRun (so_content r) par ne' ns' ni' true else
            let par' := match so_write r with Some v => set_parity' (drop pos) par pos v | None => par end in
            sync_loop' o now fs faults rest (match stop with Some (S k) => Some k | _ => None end) (so_content r) par' ne' ns' ni'
        end
    end.
End LoopF.

Lemma set_parity'_nodrop d par pos v : (forall l, d l = false) -> set_parity' d par pos v = set_parity par pos v.
Proof.
  intro Hd. unfold set_parity', set_parity. generalize 0. induction par as [|lv t IH]; intro s; simpl; [reflexivity|].
  rewrite Hd. f_equal. apply IH.
Qed.
(* sanity: without a failing writer sync_loop' is sync_loop *)
Lemma sync_loop'_nodrop hashf bs nlev drop o now fs faults stripes :
  (forall pos l, drop pos l = false) ->
  forall stop c par ne ns ni,
    sync_loop' hashf bs nlev drop o now fs faults stripes stop c par ne ns ni =
    sync_loop hashf bs nlev o now fs faults stripes stop c par ne ns ni.
Proof.
  intro Hd. induction stripes as [|pos rest IH]; intros stop c par ne ns ni; [reflexivity|].
  cbn [sync_loop sync_loop']. cbv zeta.
  destruct (negb (stripe_enabled o _)); [apply IH|].
  destruct stop as [[|k]|]; [reflexivity | |];
    (destruct (so_bail _); [reflexivity|]; destruct (so_write _); [rewrite set_parity'_nodrop by (apply Hd)|]; apply IH).
Qed.

(* the full-strength statement about sync_loop' (any `drop`) is refuted below; it holds when no parity write fails *)
Theorem sync_loop'_inv_partial hashf bs nlev drop stripes o now fs faults stop c par ne ns ni :
  (forall pos l, drop pos l = false) ->
  NoDup stripes ->
  (forall p, In p stripes -> faults_wf bs c p (faults p)) ->
  MapOK c -> ParOK hashf bs c par -> (forall p, In p stripes -> PastOK hashf bs c par p) ->
  let r := sync_loop' hashf bs nlev drop o now fs faults stripes stop c par ne ns ni in
  MapOK (ro_content r) /\ ParOK hashf bs (ro_content r) (ro_parity r).
Proof.
  intros Hd Hnd Hwf HM HP HQ. cbv zeta. rewrite sync_loop'_nodrop by exact Hd.
  apply sync_loop_inv; assumption.
Qed.

(* ---- concrete witnesses ---- *)
Definition w_hashf (b : bid) (len : N) : hval := HReal (b * 4096 + len)%N.
Definition w_bs : N := 1024%N.
Definition w_opts := mkSO false false 100.
(* 2 disks, 1 level; disk 0 holds one file of one block, CHG with an invalid (cleared) past hash, at position 0;
   the parity file is still empty *)
Definition w_c : content :=
  mkC [Some (mkCD [mkCF 1 1024 0 0 5 false [mkFB SChg 0 HInvalid]] [] [] []); Some (mkCD [] [] [] [])] [] 0.
Definition w_par : parity := [[]].
Definition w_fs : list (option fsdisk) := [Some [mkFF 1 1024 0 0 5 [42%N]]; Some []].

Lemma w_slot_nofile pos j : slot_of w_c (S pos) j = SEmpty.
Proof.
  destruct j as [|[|j]]; [reflexivity | reflexivity | apply slot_of_out; simpl; lia].
Qed.
Lemma w_not_quiet pos : ~ stripe_quiet w_c pos.
Proof.
  intros [H1 [j H2]]. destruct pos as [|pos].
  - specialize (H1 0). vm_compute in H1. destruct H1 as [H1|[_ H1]]; discriminate.
  - rewrite w_slot_nofile in H2. discriminate.
Qed.
Lemma w_MapOK : MapOK w_c.
Proof.
  intros d [E|[E|[]]]; injection E as <-; unfold MapOK_disk, map_ok; simpl.
  - repeat split; try constructor; auto; try constructor.
    intros l [<-|[]] i j Hij. simpl in Hij. lia.
  - repeat split; try constructor; try (intros ? []).
Qed.
Lemma w_ParOK : ParOK w_hashf w_bs w_c w_par.
Proof. intros pos H. exfalso. apply (w_not_quiet pos). apply stripe_synced_quiet. exact H. Qed.
Lemma w_PastOK pos : PastOK w_hashf w_bs w_c w_par pos.
Proof. intro H. exfalso. exact (w_not_quiet pos H). Qed.
Lemma w_faults_wf p : faults_wf w_bs w_c p [].
Proof. intro j. unfold fault_wf. destruct (slot_of w_c p j); destruct j; simpl; exact I. Qed.

(* F-C08: the parity writer of the only level fails at stripe 0; the block is recorded BLK, the parity holds nothing *)
Theorem inv_write_fault_refuted :
  exists hashf bs nlev drop o now fs faults stripes stop c par,
    MapOK c /\ ParOK hashf bs c par /\ (forall pos, PastOK hashf bs c par pos)
    /\ NoDup stripes /\ (forall p, In p stripes -> faults_wf bs c p (faults p))
    /\ let r := sync_loop' hashf bs nlev drop o now fs faults stripes stop c par 0 0 0 in
       ro_bailed r = false /\ ro_nerr r = 0 /\ ro_nsilent r = 0 /\ ro_nio r = 0
       /\ ~ ParOK hashf bs (ro_content r) (ro_parity r).
Proof.
  exists w_hashf, w_bs, 1, (fun pos l => Nat.eqb pos 0 && Nat.eqb l 0), w_opts, 7%N, w_fs, (fun _ => []), [0], None, w_c, w_par.
  split; [exact w_MapOK|]. split; [exact w_ParOK|]. split; [exact w_PastOK|].
  split; [repeat constructor; simpl; tauto|]. split; [intros p _; apply w_faults_wf|].
  cbv zeta.
  remember (sync_loop' w_hashf w_bs 1 (fun pos l => Nat.eqb pos 0 && Nat.eqb l 0) w_opts 7%N w_fs (fun _ => []) [0] None w_c w_par 0 0 0) as r eqn:E.
  vm_compute in E. subst r. cbn [ro_bailed ro_nerr ro_nsilent ro_nio ro_content ro_parity].
  repeat (split; [reflexivity|]).
  intro H.
  assert (Hs : stripe_synced (mkC [Some (mkCD [mkCF 1 1024 0 0 5 false [mkFB SBlk 0 (HReal 173056)]] [] [] []); Some (mkCD [] [] [] [])]
                                  [Some (mkInfo 7 false false true)] 0) 0).
  { split; [|exists 0; reflexivity]. intro j. destruct j as [|[|j]]; [reflexivity | exact I |].
    rewrite slot_of_out by (simpl; lia). exact I. }
  destruct (H 0 Hs [] (or_introl eq_refl)) as [v [E _]]. discriminate E.
Qed.

(* the two injected read outcomes excluded by faults_wf really break the invariant (they are not outcomes of
   sync_data_reader on a file block; the harness injects E/I/F only) *)
Example fault_rdnone_breaks :
  let r := sync_stripe w_hashf w_bs 1 w_opts 7%N 0 w_c (map (fun lv => nth 0 lv PNone) w_par) w_fs [Some RdNone] 0 in
  ~ ParOK w_hashf w_bs (so_content r) (match so_write r with Some v => set_parity w_par 0 v | None => w_par end).
Proof.
  cbv zeta.
  remember (sync_stripe w_hashf w_bs 1 w_opts 7%N 0 w_c (map (fun lv => nth 0 lv PNone) w_par) w_fs [Some RdNone] 0) as r eqn:E.
  vm_compute in E. subst r. cbn [so_content so_write].
  intro H.
  match type of H with ParOK _ _ ?c _ => assert (Hs : stripe_synced c 0) end.
  { split; [|exists 0; reflexivity]. intro j. destruct j as [|[|j]]; [reflexivity | exact I |].
    rewrite slot_of_out by (simpl; lia). exact I. }
  (* no read, no hash, parity_needs_to_be_updated stays 0: the block becomes BLK with its INVALID hash and
     nothing is written *)
  destruct (H 0 Hs _ (or_introl eq_refl)) as [v [E _]]. vm_compute in E. discriminate E.
Qed.
Example fault_len_breaks :
  let r := sync_stripe w_hashf w_bs 1 w_opts 7%N 0 w_c (map (fun lv => nth 0 lv PNone) w_par) w_fs [Some (RdOk 42%N 7%N)] 0 in
  ~ ParOK w_hashf w_bs (so_content r) (match so_write r with Some v => set_parity w_par 0 v | None => w_par end).
Proof.
  cbv zeta.
  remember (sync_stripe w_hashf w_bs 1 w_opts 7%N 0 w_c (map (fun lv => nth 0 lv PNone) w_par) w_fs [Some (RdOk 42%N 7%N)] 0) as r eqn:E.
  vm_compute in E. subst r. cbn [so_content so_write].
  intro H.
  match type of H with ParOK _ _ ?c _ => assert (Hs : stripe_synced c 0) end.
  { split; [|exists 0; reflexivity]. intro j. destruct j as [|[|j]]; [reflexivity | exact I |].
    rewrite slot_of_out by (simpl; lia). exact I. }
  destruct (H 0 Hs _ (or_introl eq_refl)) as [v [E [_ E2]]]. vm_compute in E. injection E as <-.
  specialize (E2 0). vm_compute in E2. assert (0 < 2) by lia. specialize (E2 H0). discriminate E2.
Qed.
