(* C06: one iteration of the sync loop (sync_stripe): block map, frame and parity lemmas. *)
From Coq Require Import NArith ZArith List Bool Arith Lia.
From Snap.Array Require Import ArrayDefs SyncModel SyncProofsDefs.
Import ListNotations.

Lemma hval_eqb_eq a b : hval_eqb a b = true -> a = b.
Proof. destruct a, b; simpl; try discriminate; auto. intro H. apply N.eqb_eq in H. congruence. Qed.

Lemma nth_map_seq {B} (G : nat -> B) m j dflt : j < m -> nth j (map G (seq 0 m)) dflt = G j.
Proof.
  intro H. rewrite (nth_indep _ dflt (G 0)) by (rewrite map_length, seq_length; exact H).
  rewrite map_nth. rewrite seq_nth by exact H. reflexivity.
Qed.

Lemma combine3_seq0 {A B} (d : A) (sl : list A) (f : nat -> B) :
  combine (combine (seq 0 (length sl)) sl) (map f (seq 0 (length sl)))
  = map (fun j => (j, nth j sl d, f j)) (seq 0 (length sl)).
Proof. rewrite (combine3_seq d). apply map_ext. intro j. rewrite Nat.sub_0_r. reflexivity. Qed.

Lemma filter_true {A} (l : list A) : filter (fun _ => true) l = l.
Proof. induction l; simpl; congruence. Qed.

(* ---------------------------------------------------------------------------------------------------------- *)
(* updates of a disk that are local to one stripe position                                                      *)
(* ---------------------------------------------------------------------------------------------------------- *)
Definition local_upd (pos : nat) (d d' : cdisk) : Prop :=
  d' = d \/
  exists g P, (forall b, fb_pos (g b) = fb_pos b) /\ (forall b, fb_pos b <> pos -> g b = b) /\
              (forall p, p <> pos -> P p = true) /\
              d' = mkCD (map (mapf g) (cd_files d)) (filter (fun ph : nat * hval => P (fst ph)) (cd_deleted d))
                        (cd_links d) (cd_dirs d).

(* name, size, mtime, nsec, inode, copy flag of a file *)
Definition fattr (f : cfile) := (cf_name f, cf_size f, cf_mtime f, cf_nsec f, cf_inode f, cf_copy f).

Lemma local_upd_view pos d d' p :
  local_upd pos d d' -> p <> pos -> sview_of (slot_at d' p) = sview_of (slot_at d p).
Proof.
  intros [E | [g [P [Hg [Hid [HP E]]]]]] Hp; subst d'; [reflexivity|].
  rewrite slot_at_mapped by exact Hg. unfold slot_at.
  destruct (find_in_files p (cd_files d)) as [[[f i] b]|] eqn:E.
  - apply find_in_files_pos in E. destruct E as [E _]. rewrite Hid by congruence. reflexivity.
  - rewrite find_deleted_filter. rewrite HP by exact Hp. reflexivity.
Qed.
Lemma local_upd_mapok pos d d' : local_upd pos d d' -> MapOK_disk d -> MapOK_disk d'.
Proof.
  intros [E | [g [P [Hg [Hid [HP E]]]]]] H; subst d'; [exact H|].
  unfold MapOK_disk in *. simpl. rewrite map_file_poss_mapf by exact Hg.
  apply (map_ok_filter _ (fun ph => P (fst ph))). exact H.
Qed.
Lemma local_upd_attrs pos d d' : local_upd pos d d' -> map fattr (cd_files d') = map fattr (cd_files d).
Proof.
  intros [E | [g [P [Hg [Hid [HP E]]]]]]; subst d'; [reflexivity|].
  simpl. rewrite map_map. apply map_ext. reflexivity.
Qed.

Definition newh (b : fblock) (nh : option hval) : hval :=
  match fb_state b, nh with SChg, Some h => h | _, _ => fb_hash b end.
Definition gC (pos : nat) (nh : option hval) (b : fblock) : fblock :=
  if Nat.eqb (fb_pos b) pos then mkFB SBlk pos (newh b nh) else b.
Lemma gC_pos pos nh b : fb_pos (gC pos nh b) = fb_pos b.
Proof. unfold gC. destruct (Nat.eqb (fb_pos b) pos) eqn:E; [apply Nat.eqb_eq in E; simpl; auto | reflexivity]. Qed.
Lemma complete_disk_eq pos nh d :
  complete_disk pos nh d =
  mkCD (map (mapf (gC pos nh)) (cd_files d))
       (filter (fun ph : nat * hval => (fun p => negb (Nat.eqb p pos)) (fst ph)) (cd_deleted d)) (cd_links d) (cd_dirs d).
Proof. reflexivity. Qed.
(* since the repair of F-C05a a skipped stripe changes no block: the hash computed for a CHG block is stored only
   when the stripe completes *)
Lemma skipped_disk_eq pos nh d : skipped_disk pos nh d = d.
Proof. reflexivity. Qed.

Lemma complete_disk_local pos nh d : local_upd pos d (complete_disk pos nh d).
Proof.
  right. exists (gC pos nh), (fun p => negb (Nat.eqb p pos)). repeat split.
  - apply gC_pos.
  - intros b H. unfold gC. destruct (Nat.eqb (fb_pos b) pos) eqn:E; [apply Nat.eqb_eq in E; contradiction | reflexivity].
  - intros p H. apply negb_true_iff, Nat.eqb_neq. exact H.
Qed.
Lemma skipped_disk_local pos nh d : local_upd pos d (skipped_disk pos nh d).
Proof. left. reflexivity. Qed.

(* the slot at pos itself after completion / after a skip *)
Lemma complete_disk_slot pos nh d :
  slot_at (complete_disk pos nh d) pos =
  match slot_at d pos with
  | SFile f i b => SFile (mapf (gC pos nh) f) i (mkFB SBlk pos (newh b nh))
  | _ => SEmpty
  end.
Proof.
  rewrite complete_disk_eq. rewrite slot_at_mapped by apply gC_pos. unfold slot_at.
  destruct (find_in_files pos (cd_files d)) as [[[f i] b]|] eqn:E.
  - apply find_in_files_pos in E. destruct E as [E _]. unfold gC. rewrite E, Nat.eqb_refl. reflexivity.
  - rewrite (find_deleted_filter (fun p => negb (Nat.eqb p pos))). rewrite Nat.eqb_refl. simpl.
    destruct (find_deleted pos (cd_deleted d)); reflexivity.
Qed.
Lemma skipped_disk_slot pos nh d : slot_at (skipped_disk pos nh d) pos = slot_at d pos.
Proof. reflexivity. Qed.

(* content level *)
Definition local_upd_c (pos : nat) (c c' : content) : Prop :=
  length (c_disks c') = length (c_disks c) /\
  forall j, match nth j (c_disks c) None with
            | Some d => exists d', nth j (c_disks c') None = Some d' /\ local_upd pos d d'
            | None => nth j (c_disks c') None = None
            end.

Lemma local_upd_c_refl pos c : local_upd_c pos c c.
Proof. split; [reflexivity|]. intro j. destruct (nth j (c_disks c) None) as [d|] eqn:E; [|reflexivity]. exists d. split; [reflexivity | left; reflexivity]. Qed.

Lemma local_upd_c_views pos c c' p : local_upd_c pos c c' -> p <> pos -> same_views c c' p.
Proof.
  intros [Hl H] Hp. split; [exact Hl|]. intro j. rewrite !slot_of_nth. specialize (H j).
  destruct (nth j (c_disks c) None) as [d|].
  - destruct H as [d' [E Hu]]. rewrite E. eapply local_upd_view; eauto.
  - rewrite H. reflexivity.
Qed.
Lemma local_upd_c_mapok pos c c' : local_upd_c pos c c' -> MapOK c -> MapOK c'.
Proof.
  intros [Hl H] HM d' Hin. destruct (In_nth _ _ None Hin) as [j [Hj E]]. specialize (H j).
  destruct (nth j (c_disks c) None) as [d|] eqn:Ed.
  - destruct H as [d'' [E' Hu]]. rewrite E in E'. injection E' as <-.
    eapply local_upd_mapok; [exact Hu|]. apply HM. rewrite <- Ed. apply nth_In. rewrite <- Hl. exact Hj.
  - congruence.
Qed.
Definition disk_attrs (od : option cdisk) := match od with Some d => Some (map fattr (cd_files d)) | None => None end.
Lemma local_upd_c_attrs pos c c' : local_upd_c pos c c' -> map disk_attrs (c_disks c') = map disk_attrs (c_disks c).
Proof.
  intros [Hl H]. apply (nth_ext _ _ None None); [rewrite !map_length; exact Hl|].
  intros j _. change None with (disk_attrs None). rewrite !map_nth. specialize (H j).
  destruct (nth j (c_disks c) None) as [d|].
  - destruct H as [d' [E Hu]]. rewrite E. simpl. f_equal. eapply local_upd_attrs; eauto.
  - rewrite H. reflexivity.
Qed.

Definition ss_disks (F : nat -> cdisk -> cdisk) (c : content) : list (option cdisk) :=
  map (fun jd : nat * option cdisk => match snd jd with Some d => Some (F (fst jd) d) | None => None end)
      (combine (seq 0 (length (c_disks c))) (c_disks c)).

Lemma ss_disks_local pos F c inf bm :
  (forall j d, local_upd pos d (F j d)) -> local_upd_c pos c (mkC (ss_disks F c) inf bm).
Proof.
  intro HF. split; simpl.
  - unfold ss_disks. apply length_map_combine_seq.
  - intro j. unfold ss_disks. rewrite nth_map_combine_seq. simpl.
    destruct (nth j (c_disks c) None) as [d|]; [|reflexivity]. eexists. split; [reflexivity | apply HF].
Qed.
Lemma ss_disks_slot F c inf bm p j :
  slot_of (mkC (ss_disks F c) inf bm) p j =
  match nth j (c_disks c) None with Some d => slot_at (F j d) p | None => SEmpty end.
Proof.
  rewrite slot_of_nth. simpl. unfold ss_disks. rewrite nth_map_combine_seq. simpl.
  destruct (nth j (c_disks c) None); reflexivity.
Qed.

(* ---------------------------------------------------------------------------------------------------------- *)
(* the loop over the disks of one stripe                                                                        *)
(* ---------------------------------------------------------------------------------------------------------- *)
Section Stripe.
  Variable hashf : bid -> N -> hval.
  Variable bs : N.
  Variable nlev : nat.

  (* contribution of one disk (slot s, read outcome r) to the flags of the iteration, when it does not bail *)
  Definition x_fatal (s : slot) (r : rd) : bool :=
    match s with SFile _ _ _ => match r with RdFatal => true | _ => false end | _ => false end.
  Definition x_err (s : slot) (r : rd) : bool :=
    match s with
    | SFile _ _ b =>
        match r with
        | RdErrCont => true
        | RdOk blk len => match fb_state b with SRep => negb (hval_eqb (hashf blk len) (fb_hash b)) | _ => false end
        | _ => false
        end
    | _ => false
    end.
  Definition x_silent (s : slot) (r : rd) : bool :=
    match s with
    | SFile _ _ b =>
        match r with
        | RdOk blk len => match fb_state b with SBlk => negb (hval_eqb (hashf blk len) (fb_hash b)) | _ => false end
        | _ => false
        end
    | _ => false
    end.
  Definition x_io (s : slot) (r : rd) : bool :=
    match s with SFile _ _ _ => match r with RdIoCont => true | _ => false end | _ => false end.
  Definition x_need (s : slot) (r : rd) : bool :=
    match s with
    | SEmpty => false
    | SDeleted _ => true
    | SFile _ _ b =>
        match fb_state b with
        | SBlk => false
        | SRep => true
        | SChg => match r with
                  | RdOk blk len => if h_unique (fb_hash b) then negb (hval_eqb (hashf blk len) (fb_hash b)) else true
                  | _ => false
                  end
        end
    end.
  Definition x_failed (j : nat) (s : slot) (r : rd) : list (nat * N) :=
    match s with
    | SEmpty => []
    | SDeleted _ => [(j, bs)]
    | SFile _ _ b =>
        match fb_state b with
        | SBlk => match r with
                  | RdOk blk len => if hval_eqb (hashf blk len) (fb_hash b) then [] else [(j, len)]
                  | _ => []
                  end
        | _ => [(j, bs)]
        end
    end.
  Definition x_nh (s : slot) (r : rd) : option hval :=
    match s with
    | SFile _ _ b => match fb_state b, r with SChg, RdOk blk len => Some (hashf blk len) | _, _ => None end
    | _ => None
    end.
  Definition x_newhash (j : nat) (s : slot) (r : rd) : list (nat * hval) :=
    match x_nh s r with Some h => [(j, h)] | None => [] end.

  Lemma disk_step_bail o iob a x : a_bail a = true -> disk_step hashf bs o iob a x = a.
  Proof. intro H. destruct x as [[j s] r]. unfold disk_step. rewrite H. reflexivity. Qed.
  Lemma fold_bail o iob l a : a_bail a = true -> fold_left (disk_step hashf bs o iob) l a = a.
  Proof. revert a. induction l as [|x t IH]; simpl; intros a H; [reflexivity|]. rewrite disk_step_bail by exact H. apply IH. exact H. Qed.

  Lemma disk_step_spec o iob a j s r :
    a_bail a = false -> a_bail (disk_step hashf bs o iob a (j, s, r)) = false ->
    x_fatal s r = false
    /\ a_err (disk_step hashf bs o iob a (j, s, r)) = a_err a || x_err s r
    /\ a_silent (disk_step hashf bs o iob a (j, s, r)) = a_silent a || x_silent s r
    /\ a_io (disk_step hashf bs o iob a (j, s, r)) = a_io a || x_io s r
    /\ a_need (disk_step hashf bs o iob a (j, s, r)) = a_need a || x_need s r
    /\ a_failed (disk_step hashf bs o iob a (j, s, r)) = x_failed j s r ++ a_failed a
    /\ a_newhash (disk_step hashf bs o iob a (j, s, r)) = x_newhash j s r ++ a_newhash a.
  Proof.
    intros Hb. unfold disk_step. rewrite Hb.
    destruct s as [|f idx b|h]; simpl.
    - intros _. rewrite !orb_false_r. repeat split.
    - destruct b as [st p h]. unfold x_newhash.
      destruct st; simpl; destruct r as [|blk len| | |]; simpl;
        try destruct (hval_eqb (hashf blk len) h); try destruct (o_io_error_limit o <=? iob + S (a_nio a));
        simpl; intro Hb2; try discriminate Hb2;
        rewrite ?orb_false_r, ?orb_true_r; repeat split.
    - intros _. rewrite !orb_false_r, ?orb_true_r. repeat split.
  Qed.

  Definition t_j (x : nat * slot * rd) := fst (fst x).
  Definition t_s (x : nat * slot * rd) := snd (fst x).
  Definition t_r (x : nat * slot * rd) := snd x.

  Lemma fold_spec o iob l : forall a,
    a_bail (fold_left (disk_step hashf bs o iob) l a) = false ->
    a_bail a = false
    /\ existsb (fun x => x_fatal (t_s x) (t_r x)) l = false
    /\ a_err (fold_left (disk_step hashf bs o iob) l a) = a_err a || existsb (fun x => x_err (t_s x) (t_r x)) l
    /\ a_silent (fold_left (disk_step hashf bs o iob) l a) = a_silent a || existsb (fun x => x_silent (t_s x) (t_r x)) l
    /\ a_io (fold_left (disk_step hashf bs o iob) l a) = a_io a || existsb (fun x => x_io (t_s x) (t_r x)) l
    /\ a_need (fold_left (disk_step hashf bs o iob) l a) = a_need a || existsb (fun x => x_need (t_s x) (t_r x)) l
    /\ (forall e, In e (a_failed (fold_left (disk_step hashf bs o iob) l a)) <->
                  In e (a_failed a) \/ exists x, In x l /\ In e (x_failed (t_j x) (t_s x) (t_r x)))
    /\ (forall e, In e (a_newhash (fold_left (disk_step hashf bs o iob) l a)) <->
                  In e (a_newhash a) \/ exists x, In x l /\ In e (x_newhash (t_j x) (t_s x) (t_r x))).
  Proof.
    induction l as [|x t IH]; intros a Hb; simpl in *.
    - rewrite !orb_false_r. repeat split; auto.
      + intros [H|[x [[] _]]]; exact H.
      + intros [H|[x [[] _]]]; exact H.
    - destruct (a_bail a) eqn:Ea.
      + rewrite disk_step_bail in Hb by exact Ea. rewrite fold_bail in Hb by exact Ea. congruence.
      + destruct (IH _ Hb) as (B1 & F1 & E1 & S1 & I1 & N1 & FL & NH).
        destruct x as [[j s] r].
        destruct (disk_step_spec o iob a j s r Ea B1) as (xf & e2 & s2 & i2 & n2 & f2 & h2).
        unfold t_s, t_r, t_j in *. cbn [fst snd] in *.
        rewrite E1, S1, I1, N1, e2, s2, i2, n2, xf, F1, <- !orb_assoc. repeat split; auto.
        * rewrite FL, f2, in_app_iff.
          intros [[H|H]|[x [Hx He]]]; [right; exists (j, s, r); simpl; auto | left; auto | right; exists x; auto].
        * rewrite FL, f2, in_app_iff.
          intros [H|[x [[Hx|Hx] He]]]; [left; right; auto | subst x; left; left; exact He | right; exists x; auto].
        * rewrite NH, h2, in_app_iff.
          intros [[H|H]|[x [Hx He]]]; [right; exists (j, s, r); simpl; auto | left; auto | right; exists x; auto].
        * rewrite NH, h2, in_app_iff.
          intros [H|[x [[Hx|Hx] He]]]; [left; right; auto | subst x; left; left; exact He | right; exists x; auto].
  Qed.

  (* ---- sync_stripe, named pieces ---- *)
  Definition ss_rd (c : content) (fs : list (option fsdisk)) (faults : list (option rd)) (pos j : nat) : rd :=
    read_slot bs (nth j fs None) (slot_of c pos j) (nth j faults None).
  Definition ss_L (c : content) fs faults (pos : nat) : list (nat * slot * rd) :=
    map (fun j => (j, slot_of c pos j, ss_rd c fs faults pos j)) (seq 0 (length (slots c pos))).
  Definition ss_a0 (o : sopts) (c : content) (pos : nat) : acc :=
    mkAcc false false false
          (o_force_full o || o_force_parity_update o || match nth pos (c_info c) None with Some i => i_bad i | None => false end)
          false [] [] 0 0 0.
  Definition ss_A o iob c fs faults pos : acc :=
    fold_left (disk_step hashf bs o iob) (ss_L c fs faults pos) (ss_a0 o c pos).
  Definition ss_nh (A : acc) (j : nat) : option hval :=
    match find (fun jh : nat * hval => Nat.eqb (fst jh) j) (a_newhash A) with Some jh => Some (snd jh) | None => None end.
  Definition ss_rds c fs faults pos : list rd := map (ss_rd c fs faults pos) (seq 0 (length (slots c pos))).
  Definition ss_fixed (A : acc) c (par : list penc) fs faults pos : option (list bid) :=
    if negb (a_err A) && negb (a_io A) && a_silent A
    then onthefly hashf nlev (slots c pos) (ss_rds c fs faults pos) (a_failed A) (ss_nh A) par else None.
  Definition ss_proceed (A : acc) (fixed : option (list bid)) : bool :=
    negb (a_err A) && negb (a_io A) && (negb (a_silent A) || match fixed with Some _ => true | None => false end).
  Definition ss_vec (fixed : option (list bid)) (rds : list rd) : list bid :=
    match fixed with Some v => v | None => vec_of rds end.
  Definition ss_info (A : acc) (proceed : bool) (now : N) (c : content) (pos : nat) : list (option info) :=
    let inf := nth pos (c_info c) None in
    let info1 := if proceed && a_need A && negb (a_silent A)
                 then set_ext None pos (Some (mkInfo now false false true)) (c_info c) else c_info c in
    if a_silent A || a_io A
    then set_ext None pos (Some (match inf with Some i => mkInfo (i_time i) true (i_rehash i) (i_justsynced i)
                                           | None => mkInfo 0 true false false end)) info1
    else info1.

  Lemma sync_stripe_eq o now iob c par fs faults pos :
    sync_stripe hashf bs nlev o now iob c par fs faults pos =
    let A := ss_A o iob c fs faults pos in
    if a_bail A then mkOut c None true (a_nerr A) (a_nsilent A) (a_nio A) else
    let fixed := ss_fixed A c par fs faults pos in
    let proceed := ss_proceed A fixed in
    mkOut (mkC (if proceed then ss_disks (fun j => complete_disk pos (ss_nh A j)) c
                else ss_disks (fun j => skipped_disk pos (ss_nh A j)) c)
               (ss_info A proceed now c pos) (c_blockmax c))
          (if proceed && a_need A then Some (ss_vec fixed (ss_rds c fs faults pos)) else None)
          false (a_nerr A) (a_nsilent A) (a_nio A).
  Proof.
    unfold sync_stripe. cbv zeta.
    rewrite (combine3_seq0 SEmpty).
    reflexivity.
  Qed.

  Lemma ss_info_other A proceed now c pos p : p <> pos -> nth p (ss_info A proceed now c pos) None = nth p (c_info c) None.
  Proof.
    intro Hp. unfold ss_info. cbv zeta.
    destruct (a_silent A || a_io A); destruct (proceed && a_need A && negb (a_silent A));
      rewrite ?nth_set_ext_other by exact Hp; reflexivity.
  Qed.

  (* ---- facts about the accumulator of a non-bailing iteration ---- *)
  Section Acc.
    Variables (o : sopts) (iob : nat) (c : content) (fs : list (option fsdisk)) (faults : list (option rd)) (pos : nat).
    Let A := ss_A o iob c fs faults pos.
    Let n := length (c_disks c).
    Let S j := slot_of c pos j.
    Let R j := ss_rd c fs faults pos j.
    Hypothesis Hbail : a_bail A = false.

    Lemma in_ss_L x : In x (ss_L c fs faults pos) <-> exists j, j < n /\ x = (j, S j, R j).
    Proof.
      unfold ss_L. rewrite in_map_iff. rewrite slots_length. fold n. split.
      - intros [j [E H]]. apply in_seq in H. exists j. split; [lia | auto].
      - intros [j [H E]]. exists j. split; [auto | apply in_seq; lia].
    Qed.

    Lemma ss_spec :
      (forall j, j < n -> x_fatal (S j) (R j) = false)
      /\ (a_err A = false -> forall j, j < n -> x_err (S j) (R j) = false)
      /\ (a_silent A = false -> forall j, j < n -> x_silent (S j) (R j) = false)
      /\ (a_io A = false -> forall j, j < n -> x_io (S j) (R j) = false)
      /\ (a_need A = false -> forall j, j < n -> x_need (S j) (R j) = false)
      /\ (forall e, In e (a_failed A) <-> exists j, j < n /\ In e (x_failed j (S j) (R j)))
      /\ (forall e, In e (a_newhash A) <-> exists j, j < n /\ In e (x_newhash j (S j) (R j))).
    Proof.
      destruct (fold_spec o iob (ss_L c fs faults pos) (ss_a0 o c pos) Hbail) as (_ & F1 & E1 & S1 & I1 & N1 & FL & NH).
      fold (ss_A o iob c fs faults pos) in E1, S1, I1, N1, FL, NH. fold A in E1, S1, I1, N1, FL, NH.
      assert (HX : forall (fx : slot -> rd -> bool),
                 existsb (fun x => fx (t_s x) (t_r x)) (ss_L c fs faults pos) = false ->
                 forall j, j < n -> fx (S j) (R j) = false).
      { intros fx H j Hj.
        apply (existsb_false_In _ _ (j, S j, R j)) in H; [exact H|]. apply in_ss_L. exists j. auto. }
      simpl in E1, S1, I1, N1.
      repeat split.
      - apply HX. exact F1.
      - intro H. apply HX. rewrite H in E1. symmetry. exact E1.
      - intro H. apply HX. rewrite H in S1. symmetry. exact S1.
      - intro H. apply HX. rewrite H in I1. symmetry. exact I1.
      - intro H. apply HX. rewrite H in N1. symmetry in N1. apply orb_false_iff in N1. tauto.
      - rewrite FL. simpl. intros [[]|[x [Hx He]]]. apply in_ss_L in Hx. destruct Hx as [j [Hj ->]]. exists j. auto.
      - intros [j [Hj He]]. apply FL. right. exists (j, S j, R j). split; [apply in_ss_L; exists j; auto | exact He].
      - rewrite NH. simpl. intros [[]|[x [Hx He]]]. apply in_ss_L in Hx. destruct Hx as [j [Hj ->]]. exists j. auto.
      - intros [j [Hj He]]. apply NH. right. exists (j, S j, R j). split; [apply in_ss_L; exists j; auto | exact He].
    Qed.

    (* the hash copied into a CHG block during this iteration *)
    Lemma ss_nh_char j : j < n -> ss_nh A j = x_nh (S j) (R j).
    Proof.
      intro Hj. destruct ss_spec as (_ & _ & _ & _ & _ & _ & NH).
      unfold ss_nh. destruct (find (fun jh : nat * hval => Nat.eqb (fst jh) j) (a_newhash A)) as [jh|] eqn:E.
      - apply find_some in E. destruct E as [Hin Hk]. apply Nat.eqb_eq in Hk.
        apply NH in Hin. destruct Hin as [j' [Hj' He]]. unfold x_newhash in He.
        destruct (x_nh (S j') (R j')) as [h|] eqn:Eh; [|destruct He].
        destruct He as [He|[]]. subst jh. simpl in *. subst j'. rewrite Eh. reflexivity.
      - destruct (x_nh (S j) (R j)) as [h|] eqn:Eh; [|reflexivity].
        assert (Hin : In (j, h) (a_newhash A)).
        { apply NH. exists j. split; [exact Hj|]. unfold x_newhash. rewrite Eh. left. reflexivity. }
        apply (find_none _ _ E) in Hin. simpl in Hin. rewrite Nat.eqb_refl in Hin. discriminate.
    Qed.
  End Acc.

  (* ---- the fault channel ----
     `faults` lets the harness inject a read outcome per disk.  Two injected outcomes are not outcomes of
     sync_data_reader on a file block and are excluded: RdNone (the zero buffer of an EMPTY/DELETED slot) and
     RdOk with a length different from file_block_size (handle_read returns exactly that length or fails).
     Every other injection (any RdOk content, RdErrCont, RdIoCont, RdFatal) is allowed.  The two excluded cases
     really break the statement: see fault_rdnone_breaks / fault_len_breaks in SyncProofsLoop.v. *)
  Definition fault_wf (s : slot) (fo : option rd) : Prop :=
    match s, fo with
    | SFile f idx b, Some RdNone => False
    | SFile f idx b, Some (RdOk _ len) => len = block_len bs (cf_size f) idx
    | _, _ => True
    end.
  Definition faults_wf (c : content) (pos : nat) (faults : list (option rd)) : Prop :=
    forall j, fault_wf (slot_of c pos j) (nth j faults None).

  Lemma view_fault_wf s s' fo : sview_of s' = sview_of s -> fault_wf s fo -> fault_wf s' fo.
  Proof. destruct s, s'; simpl; intro H; inversion H; subst; auto. Qed.
  Lemma same_views_faults_wf c c' pos faults : same_views c c' pos -> faults_wf c pos faults -> faults_wf c' pos faults.
  Proof. intros [_ Hv] H j. eapply view_fault_wf; [apply Hv | apply H]. Qed.

  Lemma rd_file c fs faults pos j f i b :
    fault_wf (slot_of c pos j) (nth j faults None) -> slot_of c pos j = SFile f i b ->
    x_fatal (SFile f i b) (ss_rd c fs faults pos j) = false ->
    x_err (SFile f i b) (ss_rd c fs faults pos j) = false ->
    x_io (SFile f i b) (ss_rd c fs faults pos j) = false ->
    exists blk, ss_rd c fs faults pos j = RdOk blk (block_len bs (cf_size f) i).
  Proof.
    intros Hwf Hs. unfold ss_rd. rewrite Hs in *. unfold read_slot.
    destruct (nth j faults None) as [r|].
    - simpl in Hwf. destruct r; simpl; intros; try congruence; try contradiction. subst. eexists; reflexivity.
    - destruct (nth j fs None) as [d|]; simpl; [|intros; congruence].
      destruct (find_fs (cf_name f) d) as [ff|]; simpl; [|intros; congruence].
      match goal with |- context [if ?c then _ else _] => destruct c end; simpl; intros; try congruence.
      eexists; reflexivity.
  Qed.
  Lemma rd_nonfile c fs faults pos j :
    slot_has_file (slot_of c pos j) = false -> ss_rd c fs faults pos j = RdNone.
  Proof. unfold ss_rd. destruct (slot_of c pos j); simpl; intro H; try discriminate; reflexivity. Qed.

  Lemma nth_vec_of rds j : nth j (vec_of rds) 0%N = match nth j rds RdNone with RdOk b _ => b | _ => 0%N end.
  Proof. unfold vec_of. exact (map_nth (fun r => match r with RdOk b _ => b | _ => 0%N end) rds RdNone j). Qed.
  Lemma nth_ss_rds c fs faults pos j :
    j < length (c_disks c) -> nth j (ss_rds c fs faults pos) RdNone = ss_rd c fs faults pos j.
  Proof. intro H. unfold ss_rds. apply nth_map_seq. rewrite slots_length. exact H. Qed.
  Lemma length_ss_rds c fs faults pos : length (ss_rds c fs faults pos) = length (c_disks c).
  Proof. unfold ss_rds. rewrite map_length, seq_length. apply slots_length. Qed.

  (* ---- on-the-fly repair: what a successful repair returns ---- *)
  Definition of_isblk (sl : list slot) (j : nat) : bool :=
    match nth j sl SEmpty with SFile _ _ b => bstate_eqb (fb_state b) SBlk | _ => false end.
  Definition of_sorted (sl : list slot) (failed : list (nat * N)) : list (nat * N) :=
    filter (fun jl => existsb (fun f => Nat.eqb (fst f) (fst jl)) failed)
           (map (fun j => (j, match find (fun f => Nat.eqb (fst f) j) failed with Some f => snd f | None => 0%N end))
                (seq 0 (length sl))).

  Lemma onthefly_spec sl rds failed newhash par vec :
    onthefly hashf nlev sl rds failed newhash par = Some vec ->
    exists v,
      vec = map (fun j => if of_isblk sl j && existsb (fun jl => Nat.eqb (fst jl) j) (of_sorted sl failed)
                          then nth j v 0%N else nth j (vec_of rds) 0%N) (seq 0 (length (vec_of rds)))
      /\ forall jl, In jl (of_sorted sl failed) -> of_isblk sl (fst jl) = true ->
           match nth (fst jl) sl SEmpty with
           | SFile _ _ b => hashf (nth (fst jl) v 0%N) (snd jl) = fb_hash b
           | _ => True
           end.
  Proof.
    unfold of_sorted, of_isblk, onthefly. cbv zeta. intro H.
    match type of H with (if ?c then _ else _) = Some _ => destruct c eqn:E0; [discriminate H|] end.
    match type of H with match ?u with _ => _ end = Some _ => destruct u as [|[v| |] rest]; try discriminate H end.
    match type of H with (if ?c then _ else _) = Some _ => destruct c eqn:E1; [|discriminate H] end.
    match type of H with (if ?c then _ else _) = Some _ => destruct c eqn:E2; [|discriminate H] end.
    injection H as H. exists v. split; [symmetry; exact H|].
    rewrite forallb_forall in E2. intros jl Hin Hb. specialize (E2 jl Hin).
    destruct (nth (fst jl) sl SEmpty) as [|f i b|h]; auto.
    rewrite Hb in E2. apply hval_eqb_eq. exact E2.
  Qed.

  (* ---- the vector of a completed stripe ---- *)
  Section Vec.
    Variables (o : sopts) (iob : nat) (c : content) (par : list penc) (fs : list (option fsdisk))
              (faults : list (option rd)) (pos : nat).
    Let A := ss_A o iob c fs faults pos.
    Let n := length (c_disks c).
    Let S j := slot_of c pos j.
    Let R j := ss_rd c fs faults pos j.
    Let rds := ss_rds c fs faults pos.
    Let fixed := ss_fixed A c par fs faults pos.
    Hypothesis Hbail : a_bail A = false.
    Hypothesis Hwf : faults_wf c pos faults.
    Hypothesis Hpro : ss_proceed A fixed = true.

    Lemma pro_flags : a_err A = false /\ a_io A = false /\ (a_silent A = false \/ exists v, fixed = Some v).
    Proof.
      unfold ss_proceed in Hpro. apply andb_true_iff in Hpro. destruct Hpro as [H1 H3].
      apply andb_true_iff in H1. destruct H1 as [H1 H2].
      apply negb_true_iff in H1. apply negb_true_iff in H2. split; [exact H1|]. split; [exact H2|].
      apply orb_true_iff in H3. destruct H3 as [H3|H3].
      - left. apply negb_true_iff. exact H3.
      - right. destruct fixed as [v|]; [exists v; reflexivity | discriminate].
    Qed.

    Lemma file_read j f i b : j < n -> S j = SFile f i b -> exists blk, R j = RdOk blk (block_len bs (cf_size f) i).
    Proof.
      intros Hj Hs. destruct pro_flags as (He & Hi & _).
      destruct (ss_spec o iob c fs faults pos Hbail) as (Xf & Xe & _ & Xi & _).
      apply (rd_file c fs faults pos j f i b (Hwf j) Hs).
      - rewrite <- Hs. apply Xf. exact Hj.
      - rewrite <- Hs. apply Xe; assumption.
      - rewrite <- Hs. apply Xi; assumption.
    Qed.

    Lemma raw_val j : j < n -> nth j (vec_of rds) 0%N = match R j with RdOk blk _ => blk | _ => 0%N end.
    Proof. intro Hj. rewrite nth_vec_of. unfold rds. rewrite nth_ss_rds by exact Hj. reflexivity. Qed.

    Lemma file_hash j f i b blk len :
      j < n -> S j = SFile f i b -> R j = RdOk blk len ->
      (fb_state b = SBlk -> hval_eqb (hashf blk len) (fb_hash b) = true) ->
      hashf blk len = newh b (ss_nh A j).
    Proof.
      intros Hj Hs Hr Hblk. destruct pro_flags as (He & _ & _).
      destruct (ss_spec o iob c fs faults pos Hbail) as (_ & Xe & _).
      unfold A. rewrite (ss_nh_char o iob c fs faults pos Hbail j Hj). fold (S j) (R j). rewrite Hs, Hr.
      specialize (Xe He j Hj). fold (S j) (R j) in Xe. rewrite Hs, Hr in Xe. simpl in Xe.
      unfold x_nh, newh. destruct (fb_state b) eqn:E.
      - apply hval_eqb_eq. apply Hblk. reflexivity.
      - reflexivity.
      - apply negb_false_iff in Xe. apply hval_eqb_eq. exact Xe.
    Qed.

    Lemma vec_ok :
      let vec := ss_vec fixed rds in
      length vec = n /\
      forall j, j < n ->
        match S j with
        | SFile f i b => hashf (nth j vec 0%N) (block_len bs (cf_size f) i) = newh b (ss_nh A j)
        | _ => nth j vec 0%N = 0%N
        end.
    Proof.
      destruct pro_flags as (He & Hi & Hs).
      destruct (ss_spec o iob c fs faults pos Hbail) as (Xf & Xe & Xs & Xi & Xn & FL & NH).
      fold A in Xe, Xs, Xi, Xn, FL, NH.
      assert (Hlen : length (vec_of rds) = n).
      { unfold vec_of. rewrite map_length. apply length_ss_rds. }
      assert (Hnf : forall j, j < n -> slot_has_file (S j) = false -> nth j (vec_of rds) 0%N = 0%N).
      { intros j Hj H. rewrite raw_val by exact Hj. unfold R. rewrite rd_nonfile by exact H. reflexivity. }
      pose proof file_read as FR. pose proof file_hash as FH. pose proof raw_val as RV.
      unfold ss_vec. destruct fixed as [w|] eqn:Efix.
      - (* repaired on the fly *)
        unfold fixed, ss_fixed in Efix.
        destruct (negb (a_err A) && negb (a_io A) && a_silent A); [|discriminate Efix].
        apply onthefly_spec in Efix. destruct Efix as [v [Ew Hchk]]. fold rds in Ew.
        split; [rewrite Ew, map_length, seq_length; exact Hlen|].
        intros j Hj. rewrite Ew. rewrite nth_map_seq by (rewrite Hlen; exact Hj).
        assert (Hnth : nth j (slots c pos) SEmpty = S j) by reflexivity.
        destruct (S j) as [|f i b|h] eqn:Esj.
        + unfold of_isblk. rewrite Hnth. simpl. apply Hnf; [exact Hj | rewrite Esj; reflexivity].
        + destruct (FR j f i b Hj Esj) as [blk Hr].
          destruct (fb_state b) eqn:Est.
          * (* BLK *)
            assert (Hib : of_isblk (slots c pos) j = true) by (unfold of_isblk; rewrite Hnth, Est; reflexivity).
            rewrite Hib. simpl.
            destruct (existsb (fun jl : nat * N => Nat.eqb (fst jl) j) (of_sorted (slots c pos) (a_failed A))) eqn:Ex.
            -- apply existsb_exists in Ex. destruct Ex as [jl [Hin Hk]]. apply Nat.eqb_eq in Hk.
               specialize (Hchk jl Hin). rewrite Hk in Hchk. specialize (Hchk Hib). rewrite Hnth in Hchk.
               unfold newh. rewrite Est.
               replace (block_len bs (cf_size f) i) with (snd jl); [exact Hchk|].
               unfold of_sorted in Hin. apply filter_In in Hin. destruct Hin as [Hin Hex].
               apply in_map_iff in Hin. destruct Hin as [j' [Ejl _]]. subst jl. simpl in *. subst j'.
               destruct (find (fun f0 : nat * N => Nat.eqb (fst f0) j) (a_failed A)) as [f0|] eqn:Ef.
               ++ apply find_some in Ef. destruct Ef as [Hf0 Hk0]. apply Nat.eqb_eq in Hk0.
                  apply FL in Hf0. destruct Hf0 as [j' [Hj' Hf0]].
                  assert (j' = j).
                  { unfold x_failed in Hf0. destruct (slot_of c pos j') as [|f' i' b'|h']; simpl in Hf0.
                    - destruct Hf0.
                    - destruct (fb_state b'); [destruct (ss_rd c fs faults pos j'); simpl in Hf0; try (destruct Hf0); [];
                                                destruct (hval_eqb _ _); simpl in Hf0; [destruct Hf0|] | |];
                        (destruct Hf0 as [Hf0|[]]; subst f0; simpl in Hk0; exact Hk0).
                    - destruct Hf0 as [Hf0|[]]; subst f0; simpl in Hk0; exact Hk0. }
                  subst j'. fold (S j) (R j) in Hf0. rewrite Esj, Hr in Hf0. simpl in Hf0. rewrite Est in Hf0.
                  destruct (hval_eqb (hashf blk (block_len bs (cf_size f) i)) (fb_hash b)); [destruct Hf0|].
                  destruct Hf0 as [Hf0|[]]. subst f0. reflexivity.
               ++ apply existsb_exists in Hex. destruct Hex as [f0 [Hf0 Hk0]].
                  apply (find_none _ _ Ef) in Hf0. congruence.
            -- rewrite RV by exact Hj. rewrite Hr.
               apply (FH j f i b blk _ Hj Esj Hr). intros _.
               destruct (hval_eqb (hashf blk (block_len bs (cf_size f) i)) (fb_hash b)) eqn:Em; [reflexivity|].
               exfalso.
               assert (Hin : In (j, block_len bs (cf_size f) i) (a_failed A)).
               { apply FL. exists j. split; [exact Hj|]. fold (S j) (R j). rewrite Esj, Hr. simpl. rewrite Est, Em. left. reflexivity. }
               assert (Hex : existsb (fun f0 : nat * N => Nat.eqb (fst f0) j) (a_failed A) = true).
               { apply existsb_exists. eexists. split; [exact Hin|]. simpl. apply Nat.eqb_refl. }
               assert (Hex2 : existsb (fun jl : nat * N => Nat.eqb (fst jl) j) (of_sorted (slots c pos) (a_failed A)) = true).
               { apply existsb_exists.
                 exists (j, match find (fun f0 : nat * N => Nat.eqb (fst f0) j) (a_failed A) with Some f0 => snd f0 | None => 0%N end).
                 split; [|simpl; apply Nat.eqb_refl].
                 unfold of_sorted. apply filter_In. split; [|simpl; exact Hex].
                 apply in_map_iff. exists j. split; [reflexivity|]. apply in_seq. rewrite slots_length. fold n. lia. }
               congruence.
          * (* CHG *)
            assert (Hib : of_isblk (slots c pos) j = false) by (unfold of_isblk; rewrite Hnth, Est; reflexivity).
            rewrite Hib. simpl. rewrite RV by exact Hj. rewrite Hr.
            apply (FH j f i b blk _ Hj Esj Hr). intro H. congruence.
          * (* REP *)
            assert (Hib : of_isblk (slots c pos) j = false) by (unfold of_isblk; rewrite Hnth, Est; reflexivity).
            rewrite Hib. simpl. rewrite RV by exact Hj. rewrite Hr.
            apply (FH j f i b blk _ Hj Esj Hr). intro H. congruence.
        + unfold of_isblk. rewrite Hnth. simpl. apply Hnf; [exact Hj | rewrite Esj; reflexivity].
      - (* nothing to repair: no silent error *)
        destruct Hs as [Hs|[v Hv]]; [|discriminate Hv].
        split; [exact Hlen|]. intros j Hj.
        destruct (S j) as [|f i b|h] eqn:Esj.
        + apply Hnf; [exact Hj | rewrite Esj; reflexivity].
        + destruct (FR j f i b Hj Esj) as [blk Hr].
          rewrite RV by exact Hj. rewrite Hr.
          apply (FH j f i b blk _ Hj Esj Hr). intro Est.
          specialize (Xs Hs j Hj). fold (S j) (R j) in Xs. rewrite Esj, Hr in Xs. simpl in Xs. rewrite Est in Xs.
          apply negb_false_iff in Xs. exact Xs.
        + apply Hnf; [exact Hj | rewrite Esj; reflexivity].
    Qed.

    (* completed without rewriting the parity: the stripe was quiet and no recorded hash changes *)
    Lemma noneed_quiet :
      a_need A = false ->
      forall j, j < n -> slot_quiet (S j) /\
                         match S j with SFile f i b => newh b (ss_nh A j) = fb_hash b | _ => True end.
    Proof.
      intros Hn j Hj.
      destruct (ss_spec o iob c fs faults pos Hbail) as (_ & _ & _ & _ & Xn & _).
      specialize (Xn Hn j Hj). fold (S j) (R j) in Xn.
      destruct (S j) as [|f i b|h] eqn:Esj; simpl; auto.
      - destruct (file_read j f i b Hj Esj) as [blk Hr]. rewrite Hr in Xn. simpl in Xn.
        unfold A. rewrite (ss_nh_char o iob c fs faults pos Hbail j Hj). fold (S j) (R j). rewrite Esj, Hr.
        unfold newh, x_nh. destruct (fb_state b) eqn:Est; try discriminate Xn.
        + auto.
        + destruct (h_unique (fb_hash b)) eqn:Eu; [|discriminate Xn].
          apply negb_false_iff in Xn. apply hval_eqb_eq in Xn. auto.
      - simpl in Xn. discriminate Xn.
    Qed.
  End Vec.

  (* ---- the stripe at pos after sync_stripe ---- *)
  Lemma stripe_local o now iob c par fs faults pos :
    faults_wf c pos faults ->
    let r := sync_stripe hashf bs nlev o now iob c par fs faults pos in
    stripe_synced (so_content r) pos ->
    match so_write r with
    | Some vec => enc_ok hashf bs (so_content r) pos vec
    | None => stripe_quiet c pos /\ forall v, enc_ok hashf bs c pos v -> enc_ok hashf bs (so_content r) pos v
    end.
  Proof.
    intros Hwf. rewrite sync_stripe_eq. cbv zeta.
    destruct (a_bail (ss_A o iob c fs faults pos)) eqn:Hbail; simpl.
    { intro H. split; [apply stripe_synced_quiet; exact H | auto]. }
    set (A := ss_A o iob c fs faults pos) in *.
    set (fixed := ss_fixed A c par fs faults pos).
    destruct (ss_proceed A fixed) eqn:Hpro.
    - (* completed *)
      set (c' := mkC _ _ _).
      assert (Hslot : forall j, slot_of c' pos j =
                                match slot_of c pos j with
                                | SFile f i b => SFile (mapf (gC pos (ss_nh A j)) f) i (mkFB SBlk pos (newh b (ss_nh A j)))
                                | _ => SEmpty
                                end).
      { intro j. unfold c'. rewrite ss_disks_slot. rewrite slot_of_nth.
        destruct (nth j (c_disks c) None) as [d|]; [|reflexivity]. apply complete_disk_slot. }
      assert (Hl : length (c_disks c') = length (c_disks c)).
      { unfold c'. simpl. unfold ss_disks. apply length_map_combine_seq. }
      destruct (vec_ok o iob c par fs faults pos Hbail Hwf Hpro) as [Vl Vj].
      fold A in Vj. fold fixed in Vl, Vj.
      intro Hsyn. simpl. destruct (a_need A) eqn:Hn.
      + (* parity written *)
        split; [rewrite Hl; exact Vl|]. intros j Hj. rewrite Hl in Hj. specialize (Vj j Hj). rewrite Hslot.
        destruct (slot_of c pos j) as [|f i b|h]; simpl; exact Vj.
      + (* parity kept *)
        pose proof (noneed_quiet o iob c par fs faults pos Hbail Hwf Hpro Hn) as HQ. fold A in HQ.
        split.
        * split.
          -- intro j. destruct (Nat.lt_ge_cases j (length (c_disks c))) as [Hj|Hj].
             ++ apply HQ. exact Hj.
             ++ rewrite slot_of_out by exact Hj. exact I.
          -- destruct Hsyn as [_ [j Hf]]. exists j. rewrite Hslot in Hf.
             destruct (slot_of c pos j); simpl in *; congruence.
        * intros v [E1 E2]. split; [congruence|]. intros j Hj. rewrite Hl in Hj.
          specialize (E2 j Hj). destruct (HQ j Hj) as [HQ1 HQ2]. rewrite Hslot.
          destruct (slot_of c pos j) as [|f i b|h]; simpl in *; [exact E2 | congruence | destruct HQ1].
    - (* skipped: neither states nor hashes change *)
      set (c' := mkC _ _ _).
      assert (Hslot : forall j, slot_of c' pos j = slot_of c pos j).
      { intro j. unfold c'. rewrite ss_disks_slot. rewrite slot_of_nth.
        destruct (nth j (c_disks c) None) as [d|]; [|reflexivity]. apply skipped_disk_slot. }
      assert (Hl : length (c_disks c') = length (c_disks c)).
      { unfold c'. simpl. unfold ss_disks. apply length_map_combine_seq. }
      intro Hsyn. simpl.
      assert (HV : same_views c c' pos) by (split; [exact Hl | intro j; rewrite Hslot; reflexivity]).
      split.
      + apply stripe_synced_quiet. eapply same_views_synced; [apply same_views_sym; exact HV | exact Hsyn].
      + intros v Hv'. eapply same_views_enc; [exact HV | exact Hv'].
  Qed.

  Lemma sync_stripe_local_upd o now iob c par fs faults pos :
    local_upd_c pos c (so_content (sync_stripe hashf bs nlev o now iob c par fs faults pos)).
  Proof.
    rewrite sync_stripe_eq. cbv zeta.
    destruct (a_bail (ss_A o iob c fs faults pos)); simpl; [apply local_upd_c_refl|].
    destruct (ss_proceed _ _); apply ss_disks_local; intros j d; [apply complete_disk_local | apply skipped_disk_local].
  Qed.

  (* a file slot stays a file slot of the same size and block index, a non-file slot stays a non-file slot:
     well-formedness of the injected read outcomes survives any local update, at every position *)
  Lemma local_upd_fault_wf pos d d' p fo : local_upd pos d d' -> fault_wf (slot_at d p) fo -> fault_wf (slot_at d' p) fo.
  Proof.
    intros [E | [g [P [Hg [Hid [HP E]]]]]]; subst d'; [auto|].
    rewrite slot_at_mapped by exact Hg. unfold slot_at.
    destruct (find_in_files p (cd_files d)) as [[[f i] b]|]; [simpl; auto|].
    intros _. destruct (find_deleted p _); simpl; destruct fo as [[]|]; exact I.
  Qed.
  Lemma local_upd_c_faults_wf pos c c' p faults : local_upd_c pos c c' -> faults_wf c p faults -> faults_wf c' p faults.
  Proof.
    intros [Hl H] Hwf j. specialize (Hwf j). specialize (H j). rewrite slot_of_nth in *.
    destruct (nth j (c_disks c) None) as [d|].
    - destruct H as [d' [E Hu]]. rewrite E. eapply local_upd_fault_wf; eauto.
    - rewrite H. destruct (nth j faults None) as [[]|]; exact I.
  Qed.
  Lemma sync_stripe_faults_wf o now iob c par fs faults pos p fl :
    faults_wf c p fl -> faults_wf (so_content (sync_stripe hashf bs nlev o now iob c par fs faults pos)) p fl.
  Proof. apply local_upd_c_faults_wf with (pos := pos). apply sync_stripe_local_upd. Qed.

  (* the visited stripe afterwards: if it is quiet it is synced (completed), or nothing changed and nothing was written *)
  Lemma sync_stripe_quiet_after o now iob c par fs faults pos :
    let r := sync_stripe hashf bs nlev o now iob c par fs faults pos in
    stripe_quiet (so_content r) pos ->
    stripe_synced (so_content r) pos \/ (same_views c (so_content r) pos /\ so_write r = None).
  Proof.
    rewrite sync_stripe_eq. cbv zeta.
    destruct (a_bail (ss_A o iob c fs faults pos)) eqn:Hbail; simpl.
    { intros _. right. split; [apply same_views_refl | reflexivity]. }
    set (A := ss_A o iob c fs faults pos) in *.
    destruct (ss_proceed A (ss_fixed A c par fs faults pos)) eqn:Hpro.
    - intros [H1 H2]. left. split; [|exact H2]. intro j. specialize (H1 j).
      rewrite ss_disks_slot in *.
      destruct (nth j (c_disks c) None) as [d|]; [|exact I].
      rewrite complete_disk_slot in *. destruct (slot_at d pos); simpl; auto.
    - intros _. right. split; [|reflexivity]. split.
      + simpl. unfold ss_disks. apply length_map_combine_seq.
      + intro j. rewrite ss_disks_slot. rewrite slot_of_nth.
        destruct (nth j (c_disks c) None) as [d|]; reflexivity.
  Qed.

  (* 1. the block map *)
  Theorem sync_stripe_map o now iob c par fs faults pos :
    MapOK c -> MapOK (so_content (sync_stripe hashf bs nlev o now iob c par fs faults pos)).
  Proof. apply local_upd_c_mapok with (pos := pos). apply sync_stripe_local_upd. Qed.

  (* 2. frame: nothing changes at another position; file identities never change *)
  Theorem sync_stripe_other_stripes o now iob c par fs faults pos :
    let c' := so_content (sync_stripe hashf bs nlev o now iob c par fs faults pos) in
    map disk_attrs (c_disks c') = map disk_attrs (c_disks c) /\
    forall p, p <> pos ->
      same_views c c' p
      /\ nth p (c_info c') None = nth p (c_info c) None
      /\ (stripe_synced c' p <-> stripe_synced c p)
      /\ (stripe_quiet c' p <-> stripe_quiet c p)
      /\ (forall v, enc_ok hashf bs c' p v <-> enc_ok hashf bs c p v).
  Proof.
    intro c'. pose proof (sync_stripe_local_upd o now iob c par fs faults pos) as HU. fold c' in HU.
    split; [eapply local_upd_c_attrs; exact HU|].
    intros p Hp. pose proof (local_upd_c_views pos c c' p HU Hp) as HV.
    pose proof (same_views_sym _ _ _ HV) as HV'.
    split; [exact HV|]. split.
    - unfold c'. rewrite sync_stripe_eq. cbv zeta.
      destruct (a_bail (ss_A o iob c fs faults pos)); simpl; [reflexivity|]. apply ss_info_other. exact Hp.
    - split; [split; apply same_views_synced; assumption|].
      split; [split; apply same_views_quiet; assumption|].
      intro v. split; apply same_views_enc; assumption.
  Qed.

  Lemma in_set_parity par pos v lv' :
    In lv' (set_parity par pos v) -> exists lv, In lv par /\ lv' = set_ext PNone pos (PEnc v) lv.
  Proof. unfold set_parity. intro H. apply in_map_iff in H. destruct H as [lv [E H]]. exists lv. auto. Qed.

  (* 3. the parity invariant through one iteration *)
  Theorem sync_stripe_par o now iob c par fs faults pos :
    faults_wf c pos faults -> ParOK hashf bs c par -> PastOK hashf bs c par pos ->
    let r := sync_stripe hashf bs nlev o now iob c (map (fun lv => nth pos lv PNone) par) fs faults pos in
    let par' := match so_write r with Some v => set_parity par pos v | None => par end in
    ParOK hashf bs (so_content r) par'.
  Proof.
    intros Hwf HP HPast r par' p Hsyn lv' Hin.
    destruct (Nat.eq_dec p pos) as [->|Hp].
    - pose proof (stripe_local o now iob c (map (fun lv => nth pos lv PNone) par) fs faults pos Hwf) as HL.
      cbv zeta in HL. fold r in HL. specialize (HL Hsyn). unfold par' in Hin.
      destruct (so_write r) as [vec|].
      + apply in_set_parity in Hin. destruct Hin as [lv [_ ->]]. exists vec. split; [apply nth_set_ext_same | exact HL].
      + destruct HL as [HQ HT]. destruct (HPast HQ lv' Hin) as [v [E1 E2]]. exists v. split; [exact E1 | apply HT; exact E2].
    - destruct (sync_stripe_other_stripes o now iob c (map (fun lv => nth pos lv PNone) par) fs faults pos) as [_ HF].
      fold r in HF. destruct (HF p Hp) as (HV & _ & HS & _ & HE).
      apply HS in Hsyn. specialize (HP p Hsyn). unfold par' in Hin.
      destruct (so_write r) as [vec|].
      + apply in_set_parity in Hin. destruct Hin as [lv [Hlv ->]].
        destruct (HP lv Hlv) as [v [E1 E2]]. exists v. split; [|apply HE; exact E2].
        rewrite nth_set_ext_other by exact Hp. exact E1.
      + destruct (HP lv' Hin) as [v [E1 E2]]. exists v. split; [exact E1 | apply HE; exact E2].
  Qed.
  (* PastOK at the visited position survives the iteration (since the repair of F-C05a a skipped stripe keeps its
     CHG hashes, so a position may be visited again) *)
  Theorem sync_stripe_past o now iob c par fs faults pos :
    faults_wf c pos faults -> ParOK hashf bs c par -> PastOK hashf bs c par pos ->
    let r := sync_stripe hashf bs nlev o now iob c (map (fun lv => nth pos lv PNone) par) fs faults pos in
    let par' := match so_write r with Some v => set_parity par pos v | None => par end in
    PastOK hashf bs (so_content r) par' pos.
  Proof.
    intros Hwf HP HPast r par' Hq.
    destruct (sync_stripe_quiet_after o now iob c (map (fun lv => nth pos lv PNone) par) fs faults pos Hq) as [Hs|[HV Hw]].
    - exact (sync_stripe_par o now iob c par fs faults pos Hwf HP HPast pos Hs).
    - fold r in Hw, HV. unfold par'. rewrite Hw.
      eapply same_views_par_enc; [exact HV|]. apply HPast.
      eapply same_views_quiet; [apply same_views_sym; exact HV | exact Hq].
  Qed.
End Stripe.
