(* C12 / C14 -- effect-type model of the command dispatcher (cmdline/snapraid.c main, lines 1049-1578 of the pinned
   tree) and of the ordering of the safety tests inside `sync`.  Executable definitions only (this file is extracted).

   What a command DOES to the file system is abstracted to a list of `effect`s, in emission order.  What the command
   FINDS (content file, configuration, data disks, parity files, lock) is abstracted to a record `pre` of booleans and
   numbers -- the "precondition summary" -- that the harness computes from the real array with independent code
   (harness/py/c12_lib.py presummary) so that `run` can be executed on every real scenario and compared with what the
   LD_PRELOAD shim and the before/after snapshots observed.

   Transcription notes (branch by branch):
   - snapraid.c:1049-1201  option compatibility: exit(EXIT_FAILURE) before the log is opened         -> opts_compatible
   - snapraid.c:1284       log_open                                                                   -> WLog (with -l)
   - snapraid.c:1311       state_config (a broken configuration exits)                                -> p_conf_ok
   - snapraid.c:1316-1331  lock_lock: open(O_CREAT|O_TRUNC) of <first content>.lock then flock(LOCK_EX|LOCK_NB);
                           skipped for devices/smart and with --test-skip-lock                        -> WLock, p_lock_free
   - state.c state_read    first content copy that opens is decoded; 'z' (block size), 'y' (hash size) and 'M' (disk
                           not in the configuration, no unique UUID match) records exit; state_map exits when more
                           than `level` UUIDs changed (unless -U)                                      -> read_gate
   - scan.c:1007-1023      zero-size test (during the directory scan)                                 -> zero_trigger
   - scan.c:1828-1873      all-missing / all-rewritten test (after all disks are scanned)             -> empty_trigger
   - sync.c:1457-1514      start beyond the end; parity_create of every level; parity size test        -> short_parity
   - sync.c:1518-1597      pre-hash; parity_chsize (RszParity); state_write (WContent); state_sync_process (WParity)
   - snapraid.c:1409-1416  final state_write under need_write / --test-force-content-write, unless --test-kill-after-sync
   - snapraid.c:1447-1466  scrub: state_write under need_write
   - snapraid.c:1480-1490  touch: state_touch then state_write unconditionally
   - snapraid.c:1513-1516  pool
   - snapraid.c:1517-1554, check.c state_check / state_check_process / file_post: check and fix

   Observational caveat (DESIGN.md C14): parity_create opens with O_CREAT, so an ABSENT parity file becomes an EMPTY one
   as soon as sync or fix reach state_sync / state_check; the model (and the harness canonicaliser) identify an absent
   parity file with an empty one, so this creation is not an effect. *)
From Coq Require Import NArith List Bool.
Import ListNotations.
Open Scope N_scope.

Inductive dkind := KCreate | KWrite | KTruncate | KUtime | KRename | KUnlink | KMkdir | KLink | KSymlink.

Inductive effect :=
| WData (d : N) (p : N) (k : dkind)      (* disk index, path id inside the disk *)
| WParity (l : N) (s : N)                (* level, stripe position *)
| RszParity (l : N)
| WContent (i : N)                       (* content copy index *)
| WLock
| WLog
| WPool (p : N).

Inductive exitclass :=
| ExOk          (* ran to the end, exit 0 *)
| ExErrors      (* ran (possibly changing things) and ended with a failing status *)
| ExNeedSync    (* diff: differences found, exit 2 *)
| ExRefused.    (* stopped with a failing status before doing anything *)

Inductive command := Status | Diff | ListC | Dup | Check | Devices | Scrub | Sync | Fix | Pool | Touch.

Record opts := mkOpts {
  o_log : bool;                  (* -l *)
  o_force_zero : bool;           (* -Z --force-zero *)
  o_force_empty : bool;          (* -E --force-empty *)
  o_force_full : bool;           (* -F *)
  o_force_realloc : bool;        (* -R *)
  o_force_uuid : bool;           (* -U *)
  o_audit : bool;                (* -a *)
  o_prehash : bool;              (* -h *)
  o_kill_after_sync : bool;      (* --test-kill-after-sync *)
  o_force_content_write : bool;  (* --test-force-content-write *)
  o_skip_content_write : bool;   (* --test-skip-content-write *)
  o_skip_lock : bool;            (* --test-skip-lock *)
  o_blockstart : N;              (* -S *)
  o_blockcount : N;              (* -B *)
  o_fdisk : bool;                (* some -d filter given *)
  o_fdisk_parity : list bool;    (* per level: the -d filters select this parity by name *)
  o_ffile : bool;                (* some -f filter given *)
  o_missing : bool;              (* -m *)
  o_error : bool;                (* -e / -b *)
  o_plan_conflict : bool         (* scrub: -o given together with -p bad|new|full (scrub.c:754-760) *)
}.

(* per data disk, what the scan will count (scan.c counters) *)
Record diskscan := mkDS {
  ds_equal : N; ds_move : N; ds_restore : N; ds_remove : N; ds_change : N;
  ds_equal_links : N;           (* how many of ds_equal are symbolic links / hardlinks (scan_link counts an unchanged link as equal) *)
  ds_insert : N; ds_copy : N;   (* new files; new or rewritten files recognised as copies of a file of some disk: NOT inputs of the rule *)
  ds_zero : bool      (* a recorded file of non-zero size is found, under the same name, as a regular file of size 0 *)
}.

Inductive okind := OFile | OEmptyFile | OSymlink | OHardlink | ODir.
Inductive fixstate := FGood | FRecoverable | FUnrecoverable.

(* one object recorded in the content file, as `fix` will find it *)
Record fixitem := mkFI {
  fi_disk : N; fi_path : N; fi_kind : okind;
  fi_selected : bool;        (* not FILE_IS_EXCLUDED after state_skip/state_filter *)
  fi_missing : bool;         (* nothing at that path *)
  fi_unrec_copy : bool;      (* a <path>.unrecoverable exists (handle_create renames it back) *)
  fi_larger : bool;          (* on disk larger than recorded *)
  fi_state : fixstate;
  fi_partial : bool;         (* FUnrecoverable but some stripes of it were recovered and written *)
  fi_unsynced : bool;        (* exists, but size or time-stamp differ from the record (FILE_IS_UNSYNCED, check.c:1119-1127);
                                a missing file is unsynced too: fix creates it empty before looking *)
  fi_finished : bool;        (* its last block is processed: inside the -S/-B range and reached before any bail
                                (FILE_IS_FINISHED, check.c:644-647) *)
  fi_anc : list N            (* ancestor directories that do not exist (mkancestor) *)
}.

Inductive report :=
| RFixed (d p : N) | RRecovered (d p : N) | RUnrecoverable (d p : N) | RParityFixed (l s : N).

Record pre := mkPre {
  p_conf_ok : bool;
  p_lock_free : bool;
  p_ncontent : N;
  p_level : N;
  p_content_found : bool;        (* some configured content copy can be opened *)
  p_content_ok : bool;           (* the copy that is loaded decodes (C09's domain) *)
  p_read_need_write : bool;      (* state_read sets need_write: a copy missing, sizes differ, UUID changed, disk renamed *)
  p_bs_mismatch : bool;          (* 'z' record <> configured block size *)
  p_hs_mismatch : bool;          (* hash size of the content file <> configured hash size *)
  p_unknown_disk : bool;         (* an 'M' record names a disk absent from the configuration, no unique UUID match *)
  p_uuid_changes : N;            (* UUID mismatches counted by state_map *)
  p_disks : list diskscan;
  p_scan_need_write : bool;      (* scan found something to record *)
  p_blockmax : N;                (* parity_allocated_size after the scan *)
  p_used : N;                    (* parity_used_size after the scan *)
  p_parity_access : list bool;   (* per level: parity_create succeeds (sync, fix): creates the file when absent *)
  p_parity_open : list bool;     (* per level: parity_open succeeds (scrub; check and excluded levels of fix go on without) *)
  p_parity_blocks : list N;      (* per level: parity_valid_size() / block size (parity.c, after fix 03a455c): the parity really
                                    present in the files -- see `valid_size` below; absent file = 0 *)
  p_parity_absent : list bool;   (* per level: a file of the level does not exist: parity_create (O_CREAT) makes it, empty *)
  p_parity_resize : list bool;   (* per level: size on disk <> blockmax * block size: parity_chsize changes the file *)
  p_parity_modified : list bool; (* per level: parity_chsize reports is_modified (resulting size <> size recorded in the
                                    content file; a 'P' record -- single-file parity -- records no size: always modified) *)
  p_prehash_fail : bool;
  p_sync_stripes : list N;       (* positions the sync loop writes *)
  p_sync_errors : bool;
  p_array_empty : bool;          (* no info word set (scrub: "The array appears to be empty") *)
  p_scrub_stripes : N;
  p_scrub_errors : bool;
  p_check_errors : bool;         (* check: errors found; fix: unrecoverable errors on stripes of objects that are not selected *)
  p_diff : bool;
  p_fix_items : list fixitem;
  p_fix_parity : list (N * N);   (* (level, position) of parity blocks found wrong on fully valid stripes *)
  p_fix_resize : list bool;      (* per level: parity_chsize/parity_truncate change the file size *)
  p_touch : list (N * N);        (* (disk, path) of recorded files with recorded nanoseconds = 0 that can be opened and whose
                                    on-disk nanoseconds are 0 or invalid (touch.c:100-105, after fix c4adc84) *)
  p_pool_conf : bool;
  p_pool_changes : list N        (* pool entries created or removed *)
}.

(* ---------------------------------------------------------------------------------------------------- options *)

Definition is_check_or_fix (c : command) : bool := match c with Check | Fix => true | _ => false end.
Definition is_sync (c : command) : bool := match c with Sync => true | _ => false end.

(* snapraid.c:1049-1201 *)
Definition opts_compatible (c : command) (o : opts) : bool :=
  (negb (o_audit o) || match c with Check => true | _ => false end)
  && (negb (o_prehash o || o_force_full o || o_force_realloc o) || is_sync c)
  && negb (o_force_realloc o && o_force_full o)
  && (negb (o_fdisk o) || is_check_or_fix c)
  && (negb (o_ffile o || o_missing o || o_error o) || is_check_or_fix c)
  && negb (o_error o && o_fdisk o).

Definition skips_lock (c : command) (o : opts) : bool :=
  match c with Devices => true | _ => o_skip_lock o end.

Fixpoint nth_bool (l : list bool) (n : nat) (d : bool) : bool :=
  match l, n with
  | [], _ => d
  | b :: _, O => b
  | _ :: t, S k => nth_bool t k d
  end.

(* state.c state_filter tail: which parity levels fix may not write *)
Definition par_excluded (o : opts) (l : nat) : bool :=
  if o_fdisk o then negb (nth_bool (o_fdisk_parity o) l false)
  else (o_missing o || o_ffile o).

(* ---------------------------------------------------------------------------------------------------- triggers *)

Definition is0 (n : N) : bool := N.eqb n 0.

(* scan.c:1837-1841 *)
Definition empty_trigger_disk (d : diskscan) : bool :=
  is0 (ds_equal d) && is0 (ds_move d) && is0 (ds_restore d) && negb (is0 (ds_remove d) && is0 (ds_change d)).
Definition empty_trigger (p : pre) : bool := existsb empty_trigger_disk (p_disks p).
(* the rule as the property words it ("all FILES previously known on a data disk are missing or rewritten"): unchanged links are
   no evidence that the files are there *)
Definition empty_trigger_files_disk (d : diskscan) : bool :=
  is0 (ds_equal d - ds_equal_links d) && is0 (ds_move d) && is0 (ds_restore d) && negb (is0 (ds_remove d) && is0 (ds_change d)).
Definition empty_trigger_files (p : pre) : bool := existsb empty_trigger_files_disk (p_disks p).
Definition zero_trigger (p : pre) : bool := existsb ds_zero (p_disks p).

Fixpoint minl (l : list N) : N :=
  match l with [] => 0 | [x] => x | x :: t => N.min x (minl t) end.
(* sync.c:1487-1499: file_paritymax < used_paritymax *)
Definition short_parity (p : pre) : bool := N.ltb (minl (p_parity_blocks p)) (p_used p).

(* parity.c parity_valid_size: the splits of one level in order, each with the size recorded in the content file (None when the
   content file records none: 'P' record, then parity_create takes the size of the file) and the size of the file on disk:
   sum of the split sizes up to the first split whose file is shorter than its size, then that file's real size *)
Fixpoint valid_size (sp : list (option N * N)) : N :=
  match sp with
  | [] => 0
  | (rec, disk) :: t =>
      let size := match rec with Some r => r | None => disk end in
      if N.ltb disk size then disk else size + valid_size t
  end.
Definition valid_blocks (bs : N) (sp : list (option N * N)) : N := valid_size sp / bs.
(* what parity_size() reports (the rule before 03a455c): the recorded sizes, whatever is on disk *)
Fixpoint recorded_size (sp : list (option N * N)) : N :=
  match sp with [] => 0 | (rec, disk) :: t => match rec with Some r => r | None => disk end + recorded_size t end.

Definition mismatch_trigger (p : pre) : bool := p_bs_mismatch p || p_hs_mismatch p.
Definition uuid_trigger (o : opts) (p : pre) : bool := negb (o_force_uuid o) && N.ltb (p_level p) (p_uuid_changes p).

(* ---------------------------------------------------------------------------------------------------- helpers *)

Fixpoint nseq (n : nat) : list nat := match n with O => [] | S k => nseq k ++ [k] end.
Definition levels (p : pre) : list nat := nseq (N.to_nat (p_level p)).
Definition all_content (p : pre) : list effect :=
  map (fun i => WContent (N.of_nat i)) (nseq (N.to_nat (p_ncontent p))).

Definition log_eff (o : opts) : list effect := if o_log o then [WLog] else [].

(* state_read: Some tt = loaded (or "assuming empty"), None = exit *)
(* snapraid.c:1203-1214: status, list, dup do not access the data disks: no UUID is read, so no UUID-change count and no
   rename of a disk by UUID *)
Definition skips_disk_access (c : command) : bool := match c with Status | ListC | Dup => true | _ => false end.

Definition read_ok (c : command) (o : opts) (p : pre) : bool :=
  if negb (p_content_found p) then true
  else p_content_ok p && negb (p_bs_mismatch p) && negb (p_hs_mismatch p) && negb (p_unknown_disk p)
       && negb (negb (skips_disk_access c) && uuid_trigger o p).

Definition resize_effects (flags : list bool) (lv : list nat) (excl : nat -> bool) : list effect :=
  flat_map (fun l => if negb (excl l) && nth_bool flags l false then [RszParity (N.of_nat l)] else []) lv.

(* ---------------------------------------------------------------------------------------------------- sync *)

(* parity_create of every level a command may write: a missing parity file appears (empty).  Recorded as RszParity. *)
Definition create_effects (p : pre) (excl : nat -> bool) : list effect := resize_effects (p_parity_absent p) (levels p) excl.

Definition sync_body (o : opts) (p : pre) : list effect * exitclass :=
  if zero_trigger p && negb (o_force_zero o) then ([], ExRefused)                     (* scan.c:1011 *)
  else if empty_trigger p && negb (o_force_empty o) then ([], ExRefused)             (* scan.c:1834 *)
  else if N.ltb (p_blockmax p) (o_blockstart o) then ([], ExRefused)               (* sync.c:1457 *)
  else if negb (forallb (fun l => nth_bool (p_parity_access p) l false) (levels p)) then ([], ExRefused)  (* 1474 *)
  (* sync.c:1469-1494 has created the missing parity files by now: the size test comes AFTER parity_create *)
  else if negb (o_force_realloc o || o_force_full o) && short_parity p then (create_effects p (fun _ => false), ExRefused)  (* 1497 *)
  else if o_prehash o && p_prehash_fail p then (create_effects p (fun _ => false), ExErrors)             (* skip_sync *)
  else
    let rsz := create_effects p (fun _ => false) ++ resize_effects (p_parity_resize p) (levels p) (fun _ => false) in
    let nw1 := p_read_need_write p || p_scan_need_write p
               || existsb (fun l => nth_bool (p_parity_modified p) l false) (levels p) in                 (* sync.c:1551 *)
    let w1 := if negb (o_skip_content_write o) && nw1 then all_content p else [] in
    let bmax := if negb (is0 (o_blockcount o)) && N.ltb (o_blockstart o + o_blockcount o) (p_blockmax p)
                then o_blockstart o + o_blockcount o else p_blockmax p in
    let stripes := if N.ltb (o_blockstart o) bmax then p_sync_stripes p else [] in
    let par := flat_map (fun s => map (fun l => WParity (N.of_nat l) s) (levels p)) stripes in
    let nw2 := (nw1 && o_skip_content_write o) || negb (match stripes with [] => true | _ => false end) in
    let w2 := if o_kill_after_sync o then [] else if nw2 || o_force_content_write o then all_content p else [] in
    (rsz ++ w1 ++ par ++ w2, if p_sync_errors p then ExErrors else ExOk).

(* ---------------------------------------------------------------------------------------------------- scrub *)

Definition scrub_body (o : opts) (p : pre) : list effect * exitclass :=
  if o_plan_conflict o then ([], ExRefused)                                            (* scrub.c:754-760 *)
  else if p_array_empty p then ([], ExRefused)                                             (* scrub.c:816-821 *)
  else if negb (forallb (fun l => nth_bool (p_parity_open p) l false) (levels p)) then ([], ExRefused)    (* 874 *)
  else
    let nw := p_read_need_write p || negb (is0 (p_scrub_stripes p)) in
    ((if nw || o_force_content_write o then all_content p else []),
     if p_scrub_errors p then ExErrors else ExOk).

(* ---------------------------------------------------------------------------------------------------- fix *)

(* a non-empty recorded file.  `so` = opt.syncedonly (-e / -b): fixes are applied only to files not modified since the last sync.
   check.c:1063-1084 handle_create (creates a missing file, or renames back a .unrecoverable copy); 1130-1153 size;
   1339-1382 handle_write guarded by EXCLUDED || (syncedonly && UNSYNCED); file_post 599-794 (same guard, then FINISHED,
   rename of DAMAGED files, time of FIXED files); 1837-1885: a file created from scratch in this run that did not reach
   FILE_IS_FINISHED is removed again *)
Definition file_effects (so : bool) (it : fixitem) : list effect * list report :=
  let d := fi_disk it in let pth := fi_path it in
  let anc := map (fun a => WData d a KMkdir) (fi_anc it) in
  let opening := if fi_missing it
                 then anc ++ [WData d pth (if fi_unrec_copy it then KRename else KCreate)]
                 else [] in
  let cleanup := if fi_missing it && negb (fi_unrec_copy it) then [WData d pth KUnlink] else [] in
  if so && (fi_missing it || fi_unsynced it) then (opening ++ cleanup, [])
  else
    let trunc := if fi_larger it then ([WData d pth KTruncate], [RFixed d pth]) else ([], []) in
    if negb (fi_finished it) then
      let written := match fi_state it with FGood => false | FRecoverable => true | FUnrecoverable => fi_partial it end in
      (opening ++ fst trunc ++ (if written then [WData d pth KWrite] else []) ++ cleanup,
       snd trunc ++ (if written then [RFixed d pth] else []))
    else
      match fi_state it with
      | FGood => (opening ++ fst trunc, snd trunc)
      | FRecoverable => (opening ++ fst trunc ++ [WData d pth KWrite; WData d pth KUtime],
                         snd trunc ++ [RFixed d pth; RRecovered d pth])
      | FUnrecoverable => (opening ++ fst trunc ++ (if fi_partial it then [WData d pth KWrite] else []) ++ [WData d pth KRename],
                           snd trunc ++ (if fi_partial it then [RFixed d pth] else []) ++ [RUnrecoverable d pth])
      end.

Definition item_effects (so : bool) (it : fixitem) : list effect * list report :=
  let d := fi_disk it in let pth := fi_path it in
  if negb (fi_selected it) then ([], []) else
  let anc := map (fun a => WData d a KMkdir) (fi_anc it) in
  match fi_kind it with
  | OFile => file_effects so it
  | OEmptyFile =>
      match fi_state it with
      | FGood => ([], [])
      | _ => (anc ++ [WData d pth KCreate; WData d pth KTruncate; WData d pth KUtime], [RFixed d pth; RRecovered d pth])
      end
  | OSymlink =>
      match fi_state it with
      | FGood => ([], [])
      | FRecoverable => (anc ++ (if fi_missing it then [] else [WData d pth KUnlink]) ++ [WData d pth KSymlink],
                         [RFixed d pth; RRecovered d pth])
      | FUnrecoverable => ([], [])
      end
  | OHardlink =>
      match fi_state it with
      | FGood => ([], [])
      | FRecoverable => (anc ++ (if fi_missing it then [] else [WData d pth KUnlink]) ++ [WData d pth KLink],
                         [RFixed d pth; RRecovered d pth])
      | FUnrecoverable => ([], [])      (* check.c:1678: `unrecoverable` links are left alone *)
      end
  | ODir =>
      match fi_state it with
      | FGood => ([], [])
      | _ => (anc ++ [WData d pth KMkdir], [RFixed d pth; RRecovered d pth])
      end
  end.

Definition items_effects (so : bool) (l : list fixitem) : list effect * list report :=
  fold_right (fun it acc => let r := item_effects so it in (fst r ++ fst acc, snd r ++ snd acc)) ([], []) l.

Definition fix_parity (o : opts) (p : pre) : list effect * list report :=
  fold_right (fun ls acc =>
                let l := fst ls in let s := snd ls in
                if negb (par_excluded o (N.to_nat l)) && nth_bool (p_parity_access p) (N.to_nat l) false
                then (WParity l s :: fst acc, RParityFixed l s :: snd acc) else acc)
             ([], []) (p_fix_parity p).

Definition any_unrecoverable (l : list fixitem) : bool :=
  existsb (fun it => fi_selected it && match fi_state it with FUnrecoverable => true | _ => false end) l.

Definition check_body (fixing : bool) (o : opts) (p : pre) : list effect * list report * exitclass :=
  if N.ltb (p_blockmax p) (o_blockstart o) then ([], [], ExRefused)                   (* check.c:1986 *)
  else if negb fixing then ([], [], if p_check_errors p then ExErrors else ExOk)
  else if negb (forallb (fun l => par_excluded o l || nth_bool (p_parity_access p) l false) (levels p))
       then ([], [], ExRefused)                                                       (* check.c:2020-2026 *)
  else
    let rsz := create_effects p (par_excluded o) ++ resize_effects (p_fix_resize p) (levels p) (par_excluded o) in
    (* check.c:2058: nothing at all is examined when the selected range is empty *)
    let active := N.ltb (o_blockstart o) (p_blockmax p) in
    let it := if active then items_effects (o_error o) (p_fix_items p) else ([], []) in
    let pf := if active then fix_parity o p else ([], []) in
    (rsz ++ fst it ++ fst pf, snd it ++ snd pf,
     (* unrecoverable_error <> 0: a selected object could not be rebuilt, or some other stripe could not be verified *)
     if active && (any_unrecoverable (p_fix_items p) || p_check_errors p) then ExErrors else ExOk).

(* ---------------------------------------------------------------------------------------------------- dispatch *)

Definition command_body (c : command) (o : opts) (p : pre) : list effect * list report * exitclass :=
  match c with
  | Devices => ([], [], ExOk)                                                           (* no state_read *)
  | _ =>
    if negb (read_ok c o p) then ([], [], ExRefused) else
    match c with
    | Status | ListC | Dup => ([], [], ExOk)
    | Diff => ([], [], if p_diff p then ExNeedSync else ExOk)
    | Check => check_body false o p
    | Fix => check_body true o p
    | Sync => let r := sync_body o p in (fst r, [], snd r)
    | Scrub => let r := scrub_body o p in (fst r, [], snd r)
    | Touch => (map (fun dp => WData (fst dp) (snd dp) KUtime) (p_touch p) ++ all_content p, [], ExOk)
    | Pool => if negb (p_pool_conf p) then ([], [], ExRefused)
              else (map WPool (p_pool_changes p), [], ExOk)
    | Devices => ([], [], ExOk)
    end
  end.

Definition run_full (c : command) (o : opts) (p : pre) : list effect * list report * exitclass :=
  if negb (opts_compatible c o) then ([], [], ExRefused)
  else if negb (p_conf_ok p) then (log_eff o, [], ExRefused)
  else if skips_lock c o then
    let r := command_body c o p in (log_eff o ++ fst (fst r), snd (fst r), snd r)
  else if negb (p_lock_free p) then (log_eff o ++ [WLock], [], ExRefused)               (* snapraid.c:1319-1329 *)
  else
    let r := command_body c o p in (log_eff o ++ [WLock] ++ fst (fst r), snd (fst r), snd r).

Definition run (c : command) (o : opts) (p : pre) : list effect * exitclass :=
  let r := run_full c o p in (fst (fst r), snd r).
Definition reports (c : command) (o : opts) (p : pre) : list report := snd (fst (run_full c o p)).

(* ---------------------------------------------------------------------------------------------------- the lock *)

(* util.c:634-670: exclusive, non-blocking, released when the holder ends.  `held` = some live command holds it. *)
Definition lock_try (held : bool) : bool * bool := if held then (true, false) else (true, true).   (* new state, acquired *)
