(* C12 / C14 -- lemmas about the command effect model of Cmd/CmdModel.v. *)
From Coq Require Import NArith Arith List Bool Lia.
From Snap.Cmd Require Import CmdModel.
Import ListNotations.
Local Open Scope N_scope.

(* ------------------------------------------------------------------------------------------- small tools *)

Lemma in_nseq : forall n k, In k (nseq n) <-> (k < n)%nat.
Proof.
  induction n; simpl; intros k.
  - split; [tauto | lia].
  - rewrite in_app_iff, IHn. simpl. split; [intros [H | [H | []]]; lia | intros H].
    destruct (Nat.eq_dec k n); [right; left; congruence | left; lia].
Qed.

Lemma in_levels : forall p l, In l (levels p) -> N.of_nat l < p_level p.
Proof. unfold levels. intros p l H. apply in_nseq in H. lia. Qed.

Lemma in_all_content : forall p e, In e (all_content p) -> exists i, e = WContent i /\ i < p_ncontent p.
Proof.
  unfold all_content. intros p e H. apply in_map_iff in H. destruct H as [k [E H]].
  apply in_nseq in H. exists (N.of_nat k). split; [congruence | lia].
Qed.

Lemma in_log_eff : forall o e, In e (log_eff o) -> e = WLog.
Proof. unfold log_eff. intros o e. destruct (o_log o); simpl; intuition congruence. Qed.

Lemma in_resize : forall flags lv excl e,
  In e (resize_effects flags lv excl) -> exists l, e = RszParity (N.of_nat l) /\ In l lv /\ excl l = false.
Proof.
  unfold resize_effects. intros flags lv excl e H. apply in_flat_map in H. destruct H as [l [Hl H]].
  destruct (excl l) eqn:E; simpl in H; [tauto |].
  destruct (nth_bool flags l false); simpl in H; [| tauto].
  destruct H as [H | []]. exists l. auto.
Qed.

Lemma in_resize_flag : forall flags lv excl e,
  In e (resize_effects flags lv excl) -> exists l, e = RszParity (N.of_nat l) /\ In l lv /\ excl l = false /\ nth_bool flags l false = true.
Proof.
  unfold resize_effects. intros flags lv excl e H. apply in_flat_map in H. destruct H as [l [Hl H]].
  destruct (excl l) eqn:E; simpl in H; [tauto |].
  destruct (nth_bool flags l false) eqn:F; simpl in H; [| tauto].
  destruct H as [H | []]. exists l. auto.
Qed.

(* the appearance of a parity file that did not exist (parity_create, O_CREAT) *)
Definition is_creation (p : pre) (e : effect) : Prop :=
  exists l, e = RszParity (N.of_nat l) /\ In l (levels p) /\ nth_bool (p_parity_absent p) l false = true.
Definition no_parity_absent (p : pre) : Prop := forall l, nth_bool (p_parity_absent p) l false = false.

Lemma in_create : forall p excl e, In e (create_effects p excl) -> is_creation p e /\ exists l, e = RszParity (N.of_nat l) /\ In l (levels p) /\ excl l = false.
Proof.
  unfold create_effects. intros p excl e H. destruct (in_resize_flag _ _ _ _ H) as [l [E [Hl [X F]]]].
  split; [exists l; auto | exists l; auto].
Qed.

(* ------------------------------------------------------------------------------------------- the bodies *)

Definition is_content (p : pre) (e : effect) : Prop := exists i, e = WContent i /\ i < p_ncontent p.
Definition is_parity_write (p : pre) (e : effect) : Prop := exists l s, e = WParity l s /\ l < p_level p.
Definition is_parity_resize (p : pre) (e : effect) : Prop := exists l, e = RszParity l /\ l < p_level p.

Lemma create_is_resize : forall p excl e, In e (create_effects p excl) -> exists l, e = RszParity l /\ l < p_level p.
Proof.
  intros p excl e H. destruct (in_create _ _ _ H) as [_ [l [E [Hl _]]]]. exists (N.of_nat l). split; [exact E | exact (in_levels _ _ Hl)].
Qed.

Lemma sync_body_effects : forall o p e, In e (fst (sync_body o p)) ->
  is_content p e \/ is_parity_write p e \/ is_parity_resize p e.
Proof.
  intros o p e. unfold sync_body.
  repeat match goal with
         | |- context [if ?c then ([], _) else _] => destruct c; [simpl; tauto |]
         | |- context [if ?c then (create_effects _ _, _) else _] =>
             destruct c; [simpl fst; intros H; right; right; exact (create_is_resize _ _ _ H) |]
         end.
  cbv zeta. simpl fst. rewrite !in_app_iff. intros [[H | H] | [H | [H | H]]].
  - right. right. exact (create_is_resize _ _ _ H).
  - apply in_resize in H. destruct H as [l [E [Hl _]]]. right. right. exists (N.of_nat l). split; [exact E | exact (in_levels _ _ Hl)].
  - destruct (_ && _) in H; [left; exact (in_all_content _ _ H) | destruct H].
  - apply in_flat_map in H. destruct H as [s [_ H]]. apply in_map_iff in H. destruct H as [l [E Hl]].
    right. left. exists (N.of_nat l), s. split; [congruence | exact (in_levels _ _ Hl)].
  - destruct (o_kill_after_sync o); [destruct H |].
    destruct (_ || _) in H; [left; exact (in_all_content _ _ H) | destruct H].
Qed.

(* a refused sync has at most created the parity files that did not exist *)
Lemma sync_body_refused : forall o p e, snd (sync_body o p) = ExRefused -> In e (fst (sync_body o p)) -> is_creation p e.
Proof.
  intros o p e. unfold sync_body.
  repeat match goal with
         | |- context [if ?c then ([], _) else _] => destruct c; [simpl; tauto |]
         | |- context [if ?c then (create_effects _ _, ExRefused) else _] =>
             destruct c; [simpl; intros _ H; exact (proj1 (in_create _ _ _ H)) |]
         | |- context [if ?c then (create_effects _ _, ExErrors) else _] => destruct c; [simpl; discriminate |]
         end.
  cbv zeta. simpl snd. destruct (p_sync_errors p); discriminate.
Qed.

Lemma scrub_body_effects : forall o p e, In e (fst (scrub_body o p)) -> is_content p e.
Proof.
  intros o p e. unfold scrub_body.
  repeat match goal with |- context [if ?c then ([], _) else _] => destruct c; [simpl; tauto |] end.
  cbv zeta. simpl fst. destruct (_ || _); [apply in_all_content | simpl; tauto].
Qed.

Lemma scrub_body_refused : forall o p, snd (scrub_body o p) = ExRefused -> fst (scrub_body o p) = [].
Proof.
  intros o p. unfold scrub_body.
  repeat match goal with |- context [if ?c then ([], _) else _] => destruct c; [reflexivity |] end.
  cbv zeta. simpl snd. destruct (p_scrub_errors p); discriminate.
Qed.

(* ------------------------------------------------------------------------------------------- fix *)

Definition reported (rs : list report) (d q : N) : Prop :=
  In (RFixed d q) rs \/ In (RRecovered d q) rs \/ In (RUnrecoverable d q) rs.

(* a missing non-empty file cannot verify as good: its blocks cannot be read *)
Definition item_wf (it : fixitem) : Prop :=
  fi_kind it = OFile -> fi_missing it = true -> fi_state it <> FGood.

Definition data_justified (it : fixitem) (rs : list report) (e : effect) : Prop :=
  match e with
  | WData d q k => fi_selected it = true /\ d = fi_disk it /\
                   ((q = fi_path it /\ reported rs d q)
                    \/ (In q (fi_anc it) /\ k = KMkdir)
                    (* the path did not exist before the run: its creation, the removal of what this run created and did
                       not finish, the rename-back of a .unrecoverable copy *)
                    \/ (q = fi_path it /\ fi_missing it = true /\ (k = KCreate \/ k = KUnlink \/ k = KRename)))
  | _ => False
  end.

Ltac in_split :=
  repeat match goal with
         | H : In _ (_ ++ _) |- _ => apply in_app_or in H; destruct H as [H | H]
         | H : In _ (_ :: _) |- _ => destruct H as [H | H]
         | H : In _ [] |- _ => destruct H
         | H : In _ (if ?c then _ else _) |- _ => destruct c
         | H : In _ (fst (if ?c then _ else _)) |- _ => destruct c; simpl fst in H
         | H : In _ (map _ _) |- _ => apply in_map_iff in H; destruct H as [? [? H]]
         end.

Ltac close_dj SEL :=
  unfold data_justified, reported; cbn [fst snd];
  repeat match goal with |- context [if ?c then _ else _] => destruct c; cbn [fst snd] end;
  (split; [exact SEL | split; [reflexivity |]]);
  first [ solve [right; left; split; [assumption | reflexivity]]
        | solve [right; right; split; [reflexivity | split; [first [assumption | reflexivity] | tauto]]]
        | solve [left; split; [reflexivity |]; simpl; rewrite ?in_app_iff; simpl;
                 repeat match goal with |- context [if ?c then _ else _] => destruct c; simpl end; tauto] ].

Lemma file_effects_justified : forall so it e, item_wf it -> fi_kind it = OFile -> fi_selected it = true ->
  In e (fst (file_effects so it)) -> data_justified it (snd (file_effects so it)) e.
Proof.
  intros so it e WF K SEL. unfold item_wf in WF. specialize (WF K). unfold file_effects.
  destruct so; destruct (fi_missing it) eqn:M; destruct (fi_unsynced it); destruct (fi_finished it);
    destruct (fi_state it) eqn:S; try (exfalso; apply (WF eq_refl); reflexivity);
    cbv beta iota zeta; cbn [fst snd negb andb orb]; cbv beta iota zeta; intros H; in_split; subst; close_dj SEL.
Qed.

Lemma item_effects_justified : forall so it e, item_wf it -> In e (fst (item_effects so it)) ->
  data_justified it (snd (item_effects so it)) e.
Proof.
  intros so it e WF. unfold item_effects.
  destruct (fi_selected it) eqn:SEL; simpl negb; cbv iota; [| simpl; tauto].
  destruct (fi_kind it) eqn:K; [exact (file_effects_justified so it e WF K SEL) | | | |];
    destruct (fi_state it) eqn:S; destruct (fi_missing it) eqn:M;
    cbv zeta; simpl fst; simpl snd; intros H; in_split; subst; close_dj SEL.
Qed.

Lemma file_effects_data_only : forall so it e, In e (fst (file_effects so it)) -> exists d q k, e = WData d q k.
Proof.
  intros so it e. unfold file_effects.
  destruct so; destruct (fi_missing it); destruct (fi_unsynced it); destruct (fi_finished it); destruct (fi_state it);
    cbv beta iota zeta; cbn [fst snd negb andb orb]; cbv beta iota zeta; intros H; in_split; subst; eauto.
Qed.

Lemma item_effects_data_only : forall so it e, In e (fst (item_effects so it)) -> exists d q k, e = WData d q k.
Proof.
  intros so it e. unfold item_effects.
  destruct (fi_selected it); simpl negb; cbv iota; [| simpl; tauto].
  destruct (fi_kind it); [apply file_effects_data_only | | | |]; destruct (fi_state it); destruct (fi_missing it);
    cbv zeta; simpl fst; intros H; in_split; subst; eauto.
Qed.

(* fix removes only files it created in this run and did not finish (or, under -e / -b, found unsynced) *)
Lemma file_unlink_only_created : forall so it d q, In (WData d q KUnlink) (fst (file_effects so it)) ->
  q = fi_path it /\ fi_missing it = true /\ fi_unrec_copy it = false
  /\ In (WData d q KCreate) (fst (file_effects so it))
  /\ (fi_finished it = false \/ so = true).
Proof.
  intros so it d q. unfold file_effects.
  destruct so; destruct (fi_missing it); destruct (fi_unsynced it); destruct (fi_finished it); destruct (fi_state it);
    destruct (fi_unrec_copy it); destruct (fi_larger it); destruct (fi_partial it);
    cbv beta iota zeta; cbn [fst snd negb andb orb]; cbv beta iota zeta; intros H; in_split; try discriminate;
    match goal with E : WData _ _ _ = WData _ _ _ |- _ => inversion E; subst end;
    (split; [reflexivity | split; [reflexivity | split; [reflexivity | split; [| tauto]]]]);
    rewrite ?in_app_iff; simpl; tauto.
Qed.

(* with syncedonly (-e / -b) a file found unsynced is left alone: no rename, no write, no truncation, no time change, no report;
   if it exists nothing at all happens, if it is missing the empty file fix creates is removed again *)
Lemma syncedonly_unsynced_existing_untouched : forall it, fi_missing it = false -> fi_unsynced it = true ->
  file_effects true it = ([], []).
Proof. intros it M U. unfold file_effects. rewrite M, U. reflexivity. Qed.

Lemma syncedonly_missing_transient : forall it, fi_missing it = true -> fi_unrec_copy it = false ->
  file_effects true it =
  (map (fun a => WData (fi_disk it) a KMkdir) (fi_anc it) ++ [WData (fi_disk it) (fi_path it) KCreate] ++ [WData (fi_disk it) (fi_path it) KUnlink], []).
Proof. intros it M U. unfold file_effects. rewrite M, U. simpl. rewrite <- app_assoc. reflexivity. Qed.

Lemma reported_app_l : forall a b d q, reported a d q -> reported (a ++ b) d q.
Proof. unfold reported. intros. rewrite !in_app_iff. tauto. Qed.
Lemma reported_app_r : forall a b d q, reported b d q -> reported (a ++ b) d q.
Proof. unfold reported. intros. rewrite !in_app_iff. tauto. Qed.

Lemma data_justified_app_l : forall it a b e, data_justified it a e -> data_justified it (a ++ b) e.
Proof.
  intros it a b [] H; simpl in *; try tauto. destruct H as [? [? [[? ?] | [? | ?]]]]; (split; [assumption | split; [assumption |]]);
    [left; split; [assumption | apply reported_app_l; assumption] | right; left; assumption | right; right; assumption].
Qed.
Lemma data_justified_app_r : forall it a b e, data_justified it b e -> data_justified it (a ++ b) e.
Proof.
  intros it a b [] H; simpl in *; try tauto. destruct H as [? [? [[? ?] | [? | ?]]]]; (split; [assumption | split; [assumption |]]);
    [left; split; [assumption | apply reported_app_r; assumption] | right; left; assumption | right; right; assumption].
Qed.

Lemma items_effects_justified : forall so l e, Forall item_wf l -> In e (fst (items_effects so l)) ->
  exists it, In it l /\ data_justified it (snd (items_effects so l)) e.
Proof.
  intros so. induction l as [| it l IH]; simpl; intros e WF H; [tauto |].
  inversion WF; subst. apply in_app_or in H. destruct H as [H | H].
  - exists it. split; [auto |]. apply data_justified_app_l. apply item_effects_justified; assumption.
  - destruct (IH e H3 H) as [it' [I J]]. exists it'. split; [auto |]. apply data_justified_app_r. exact J.
Qed.

Lemma items_effects_data_only : forall so l e, In e (fst (items_effects so l)) -> exists d q k, e = WData d q k.
Proof.
  intros so. induction l as [| it l IH]; simpl; intros e H; [tauto |].
  apply in_app_or in H. destruct H as [H | H]; [exact (item_effects_data_only _ _ _ H) | exact (IH _ H)].
Qed.

Lemma fix_parity_effects : forall o p e, In e (fst (fix_parity o p)) ->
  exists l s, e = WParity l s /\ In (RParityFixed l s) (snd (fix_parity o p)) /\ par_excluded o (N.to_nat l) = false
              /\ In (l, s) (p_fix_parity p).
Proof.
  intros o p e. unfold fix_parity. induction (p_fix_parity p) as [| [l s] t IH]; simpl; [tauto |].
  destruct (par_excluded o (N.to_nat l)) eqn:X; simpl.
  - intros H. destruct (IH H) as [l' [s' [A [B [C D]]]]]. exists l', s'. auto.
  - destruct (nth_bool (p_parity_access p) (N.to_nat l) false); simpl.
    + intros [H | H].
      * exists l, s. auto.
      * destruct (IH H) as [l' [s' [A [B [C D]]]]]. exists l', s'. auto.
    + intros H. destruct (IH H) as [l' [s' [A [B [C D]]]]]. exists l', s'. auto.
Qed.

Definition fix_allowed (o : opts) (p : pre) (rs : list report) (e : effect) : Prop :=
  (exists l, e = RszParity l /\ l < p_level p /\ par_excluded o (N.to_nat l) = false)
  \/ (exists it, In it (p_fix_items p) /\ data_justified it rs e)
  \/ (exists l s, e = WParity l s /\ In (RParityFixed l s) rs /\ par_excluded o (N.to_nat l) = false).

Lemma check_body_fix_effects : forall o p e, Forall item_wf (p_fix_items p) ->
  In e (fst (fst (check_body true o p))) -> fix_allowed o p (snd (fst (check_body true o p))) e.
Proof.
  intros o p e WF. unfold check_body.
  destruct (N.ltb (p_blockmax p) (o_blockstart o)); [simpl; tauto |].
  simpl negb. cbv iota.
  destruct (negb (forallb _ _)); [simpl; tauto |].
  cbv zeta. simpl fst. simpl snd. rewrite !in_app_iff. intros [H | [H | H]].
  - destruct H as [H | H].
    + destruct (in_create _ _ _ H) as [_ [l [E [Hl X]]]]. left. exists (N.of_nat l).
      rewrite Nnat.Nat2N.id. split; [exact E | split; [exact (in_levels _ _ Hl) | exact X]].
    + apply in_resize in H. destruct H as [l [E [Hl X]]]. left. exists (N.of_nat l).
      rewrite Nnat.Nat2N.id. split; [exact E | split; [exact (in_levels _ _ Hl) | exact X]].
  - destruct (N.ltb (o_blockstart o) (p_blockmax p)); simpl in H; [| tauto].
    destruct (items_effects_justified _ _ _ WF H) as [it [I J]].
    right. left. exists it. split; [exact I |]. apply data_justified_app_l. exact J.
  - destruct (N.ltb (o_blockstart o) (p_blockmax p)); simpl in H; [| tauto].
    destruct (fix_parity_effects _ _ _ H) as [l [s [A [B [C _]]]]].
    right. right. exists l, s. split; [exact A | split; [| exact C]]. simpl. apply in_or_app. right. exact B.
Qed.

Lemma check_body_nofix_effects : forall o p, fst (fst (check_body false o p)) = [].
Proof.
  intros o p. unfold check_body. destruct (N.ltb (p_blockmax p) (o_blockstart o)); reflexivity.
Qed.

Lemma check_body_refused : forall f o p, snd (check_body f o p) = ExRefused -> fst (fst (check_body f o p)) = [].
Proof.
  intros f o p. unfold check_body.
  destruct (N.ltb (p_blockmax p) (o_blockstart o)); [reflexivity |].
  destruct f; simpl negb; cbv iota; [| reflexivity].
  destruct (negb (forallb _ _)); [reflexivity |].
  cbv zeta. simpl snd. destruct (_ && _); discriminate.
Qed.

(* ------------------------------------------------------------------------------------------- dispatch *)

Definition effects (c : command) (o : opts) (p : pre) : list effect := fst (run c o p).
Definition exitc (c : command) (o : opts) (p : pre) : exitclass := snd (run c o p).
Definition body_effects (c : command) (o : opts) (p : pre) : list effect := fst (fst (command_body c o p)).

Lemma run_effects_split : forall c o p e, In e (effects c o p) ->
  e = WLog \/ e = WLock \/ In e (body_effects c o p).
Proof.
  intros c o p e. unfold effects, run, run_full, body_effects.
  destruct (negb (opts_compatible c o)); [simpl; tauto |].
  destruct (negb (p_conf_ok p)); [simpl; intros H; left; exact (in_log_eff _ _ H) |].
  destruct (skips_lock c o).
  - simpl. rewrite in_app_iff. intros [H | H]; [left; exact (in_log_eff _ _ H) | auto].
  - destruct (negb (p_lock_free p)); simpl; rewrite !in_app_iff; simpl.
    + intros [H | [H | []]]; [left; exact (in_log_eff _ _ H) | auto].
    + intros [H | [H | H]]; [left; exact (in_log_eff _ _ H) | auto | auto].
Qed.

Lemma body_refused_creation : forall c o p e, snd (command_body c o p) = ExRefused -> In e (body_effects c o p) ->
  c = Sync /\ is_creation p e.
Proof.
  intros c o p e. unfold body_effects, command_body.
  destruct c; try (simpl; tauto);
    (destruct (negb (read_ok _ o p)); [simpl; tauto |]); cbv zeta; simpl fst; simpl snd; try (simpl; tauto).
  - intros R H. rewrite (check_body_refused _ _ _ R) in H. destruct H.
  - intros R H. rewrite (scrub_body_refused _ _ R) in H. destruct H.
  - intros R H. split; [reflexivity | exact (sync_body_refused _ _ _ R H)].
  - intros R H. rewrite (check_body_refused _ _ _ R) in H. destruct H.
  - destruct (negb (p_pool_conf p)); [simpl; tauto | discriminate].
  - discriminate.
Qed.

(* what a command that refuses may have done: the lock file, the log, and -- sync only -- the creation of parity files that did
   not exist (parity_create runs before the size test) *)
Lemma refused_effects : forall c o p e, exitc c o p = ExRefused -> In e (effects c o p) ->
  e = WLock \/ e = WLog \/ (c = Sync /\ is_creation p e).
Proof.
  intros c o p e. unfold exitc, effects, run, run_full.
  destruct (negb (opts_compatible c o)); [simpl; tauto |].
  destruct (negb (p_conf_ok p)); [simpl; intros _ H; right; left; exact (in_log_eff _ _ H) |].
  destruct (skips_lock c o).
  - simpl. intros R. rewrite in_app_iff. intros [H | H]; [right; left; exact (in_log_eff _ _ H) |].
    right. right. exact (body_refused_creation _ _ _ _ R H).
  - destruct (negb (p_lock_free p)); simpl; intros R; rewrite !in_app_iff; simpl.
    + intros [H | [H | []]]; [right; left; exact (in_log_eff _ _ H) | left; congruence].
    + intros [H | [H | H]]; [right; left; exact (in_log_eff _ _ H) | left; congruence |].
      right. right. exact (body_refused_creation _ _ _ _ R H).
Qed.

Lemma refused_only_lock_log : forall c o p e, no_parity_absent p -> exitc c o p = ExRefused -> In e (effects c o p) -> e = WLock \/ e = WLog.
Proof.
  intros c o p e NA R H. destruct (refused_effects _ _ _ _ R H) as [E | [E | [_ [l [_ [_ F]]]]]]; [auto | auto |].
  rewrite (NA l) in F. discriminate.
Qed.

Lemma run_effects_split_reports : forall c o p e, In e (effects c o p) ->
  e = WLog \/ e = WLock \/ (In e (body_effects c o p) /\ reports c o p = snd (fst (command_body c o p))).
Proof.
  intros c o p e. unfold effects, reports, run, run_full, body_effects.
  destruct (negb (opts_compatible c o)); [simpl; tauto |].
  destruct (negb (p_conf_ok p)); [simpl; intros H; left; exact (in_log_eff _ _ H) |].
  destruct (skips_lock c o).
  - simpl. rewrite in_app_iff. intros [H | H]; [left; exact (in_log_eff _ _ H) | auto].
  - destruct (negb (p_lock_free p)); simpl; rewrite !in_app_iff; simpl.
    + intros [H | [H | []]]; [left; exact (in_log_eff _ _ H) | auto].
    + intros [H | [H | H]]; [left; exact (in_log_eff _ _ H) | auto | auto].
Qed.

(* ------------------------------------------------------------------------------------------- C12: allowed sets *)

Definition lock_or_log (e : effect) : Prop := e = WLock \/ e = WLog.

Definition is_readonly (c : command) : bool :=
  match c with Status | Diff | ListC | Dup | Check | Devices => true | _ => false end.

Lemma readonly_body_empty : forall c o p, is_readonly c = true -> body_effects c o p = [].
Proof.
  intros c o p. unfold body_effects, command_body.
  destruct c; simpl; try discriminate; intros _; try reflexivity;
    destruct (negb (read_ok _ o p)); try reflexivity.
  apply check_body_nofix_effects.
Qed.

Definition allowed (c : command) (o : opts) (p : pre) (e : effect) : Prop :=
  lock_or_log e \/
  match c with
  | Status | Diff | ListC | Dup | Check | Devices => False
  | Scrub => is_content p e
  | Sync => is_content p e \/ is_parity_write p e \/ is_parity_resize p e
  | Fix => fix_allowed o p (reports Fix o p) e
  | Pool => exists q, e = WPool q /\ In q (p_pool_changes p)
  | Touch => is_content p e \/ exists d q, e = WData d q KUtime /\ In (d, q) (p_touch p)
  end.

Lemma effects_allowed : forall c o p e, Forall item_wf (p_fix_items p) -> In e (effects c o p) -> allowed c o p e.
Proof.
  intros c o p e WF H. unfold allowed, lock_or_log.
  destruct (run_effects_split_reports _ _ _ _ H) as [E | [E | [B R]]]; [auto | auto |].
  right. destruct c; try (rewrite readonly_body_empty in B by reflexivity; destruct B).
  - (* scrub *) revert B; unfold body_effects, command_body; destruct (negb (read_ok Scrub o p)); [simpl; tauto |]; intros B.
    simpl in B. exact (scrub_body_effects _ _ _ B).
  - (* sync *) revert B; unfold body_effects, command_body; destruct (negb (read_ok Sync o p)); [simpl; tauto |]; intros B.
    simpl in B. exact (sync_body_effects _ _ _ B).
  - (* fix *) rewrite R. revert B; unfold body_effects, command_body; destruct (negb (read_ok Fix o p)); [simpl; tauto |]; intros B.
    exact (check_body_fix_effects _ _ _ WF B).
  - (* pool *) revert B; unfold body_effects, command_body; destruct (negb (read_ok Pool o p)); [simpl; tauto |]; intros B.
    revert B; destruct (negb (p_pool_conf p)); [simpl; tauto |]; intros B. simpl in B. apply in_map_iff in B. destruct B as [q [E I]]. eauto.
  - (* touch *) revert B; unfold body_effects, command_body; destruct (negb (read_ok Touch o p)); [simpl; tauto |]; intros B.
    simpl in B. apply in_app_or in B. destruct B as [B | B].
    + apply in_map_iff in B. destruct B as [[d q] [E I]]. right. exists d, q. simpl in E. split; [congruence | exact I].
    + left. exact (in_all_content _ _ B).
Qed.

Lemma readonly_effects : forall c o p e, is_readonly c = true -> In e (effects c o p) -> lock_or_log e.
Proof.
  intros c o p e RO H. destruct (run_effects_split _ _ _ _ H) as [E | [E | B]]; [right; exact E | left; exact E |].
  rewrite (readonly_body_empty _ o p RO) in B. destruct B.
Qed.

Lemma sync_effects_general : forall o p e, In e (effects Sync o p) ->
  lock_or_log e \/ is_content p e \/ is_parity_write p e \/ is_parity_resize p e.
Proof.
  intros o p e H. unfold lock_or_log. destruct (run_effects_split _ _ _ _ H) as [E | [E | B]]; [auto | auto |].
  right. revert B; unfold body_effects, command_body; destruct (negb (read_ok Sync o p)); [simpl; tauto |]; intros B.
  simpl in B. exact (sync_body_effects _ _ _ B).
Qed.

Lemma sync_no_data : forall o p d q k, ~ In (WData d q k) (effects Sync o p).
Proof.
  intros o p d q k H. destruct (sync_effects_general o p _ H) as [[E | E] | [[i [E _]] | [[l [s [E _]]] | [l [E _]]]]]; discriminate.
Qed.

Lemma fix_no_content : forall o p i, ~ In (WContent i) (effects Fix o p).
Proof.
  intros o p i H. destruct (run_effects_split _ _ _ _ H) as [E | [E | B]]; try discriminate.
  revert B; unfold body_effects, command_body; destruct (negb (read_ok Fix o p)); [simpl; tauto |]; intros B.
  revert B. unfold check_body. destruct (N.ltb (p_blockmax p) (o_blockstart o)); [simpl; tauto |].
  simpl negb. cbv iota. destruct (negb (forallb _ _)); [simpl; tauto |].
  cbv zeta. simpl fst. rewrite !in_app_iff. intros [B | [B | B]].
  - destruct B as [B | B]; [destruct (create_is_resize _ _ _ B) as [l [E _]]; discriminate |].
    apply in_resize in B. destruct B as [l [E _]]. discriminate.
  - revert B. destruct (N.ltb (o_blockstart o) (p_blockmax p)); simpl; [| tauto]. intros B.
    destruct (items_effects_data_only _ _ _ B) as [d [q [k E]]]. discriminate.
  - revert B. destruct (N.ltb (o_blockstart o) (p_blockmax p)); simpl; [| tauto]. intros B.
    destruct (fix_parity_effects _ _ _ B) as [l [s [E _]]]. discriminate.
Qed.

(* every data-disk change made by a command other than fix and touch is impossible *)
Lemma only_fix_and_touch_write_data : forall c o p d q k, In (WData d q k) (effects c o p) -> c = Fix \/ c = Touch.
Proof.
  intros c o p d q k H. destruct (run_effects_split _ _ _ _ H) as [E | [E | B]]; try discriminate.
  destruct c; auto; exfalso; try (rewrite readonly_body_empty in B by reflexivity; destruct B).
  - revert B; unfold body_effects, command_body; destruct (negb (read_ok Scrub o p)); [simpl; tauto |]; intros B.
    simpl in B. destruct (scrub_body_effects _ _ _ B) as [i [E _]]. discriminate.
  - exact (sync_no_data _ _ _ _ _ H).
  - revert B; unfold body_effects, command_body; destruct (negb (read_ok Pool o p)); [simpl; tauto |]; intros B.
    revert B; destruct (negb (p_pool_conf p)); [simpl; tauto |]; intros B. simpl in B. apply in_map_iff in B. destruct B as [x [E _]]. discriminate.
Qed.

(* ------------------------------------------------------------------------------------------- C14: interlocks *)

Inductive trigger := TEmpty | TZero | TShortParity | TSizes | TUnknownDisk | TLock.

(* each trigger as the code evaluates it; since 03a455c the short-parity test uses the parity really present in the files
   (p_parity_blocks = parity_valid_size / block size), in every content format *)
Definition fires (t : trigger) (p : pre) : bool :=
  match t with
  | TEmpty => empty_trigger p
  | TZero => zero_trigger p
  | TShortParity => short_parity p
  | TSizes => p_content_found p && mismatch_trigger p
  | TUnknownDisk => p_content_found p && p_unknown_disk p
  | TLock => negb (p_lock_free p)
  end.

Definition overridden (t : trigger) (o : opts) : bool :=
  match t with
  | TEmpty => o_force_empty o
  | TZero => o_force_zero o
  | TShortParity => o_force_full o || o_force_realloc o
  | TSizes | TUnknownDisk => false
  | TLock => o_skip_lock o
  end.

Definition parity_all_access (p : pre) : bool := forallb (fun l => nth_bool (p_parity_access p) l false) (levels p).

(* the complete list of reasons for which sync stops before doing anything *)
Definition sync_refuse_cond (o : opts) (p : pre) : bool :=
  negb (opts_compatible Sync o) || negb (p_conf_ok p)
  || (negb (o_skip_lock o) && negb (p_lock_free p))
  || negb (read_ok Sync o p)
  || (zero_trigger p && negb (o_force_zero o))
  || (empty_trigger p && negb (o_force_empty o))
  || N.ltb (p_blockmax p) (o_blockstart o)
  || negb (parity_all_access p)
  || (negb (o_force_realloc o || o_force_full o) && short_parity p).

Lemma exitc_unfold : forall c o p,
  exitc c o p = if negb (opts_compatible c o) then ExRefused
                else if negb (p_conf_ok p) then ExRefused
                else if skips_lock c o then snd (command_body c o p)
                else if negb (p_lock_free p) then ExRefused else snd (command_body c o p).
Proof.
  intros c o p. unfold exitc, run, run_full.
  destruct (negb (opts_compatible c o)); [reflexivity |].
  destruct (negb (p_conf_ok p)); [reflexivity |].
  destruct (skips_lock c o); [reflexivity |].
  destruct (negb (p_lock_free p)); reflexivity.
Qed.

Lemma sync_body_exit : forall o p,
  snd (sync_body o p) =
    if zero_trigger p && negb (o_force_zero o) then ExRefused
    else if empty_trigger p && negb (o_force_empty o) then ExRefused
    else if N.ltb (p_blockmax p) (o_blockstart o) then ExRefused
    else if negb (parity_all_access p) then ExRefused
    else if negb (o_force_realloc o || o_force_full o) && short_parity p then ExRefused
    else if o_prehash o && p_prehash_fail p then ExErrors
    else if p_sync_errors p then ExErrors else ExOk.
Proof.
  intros o p. unfold sync_body, parity_all_access.
  repeat match goal with |- snd (if ?c then _ else _) = _ => destruct c; [reflexivity |] end.
  reflexivity.
Qed.

Lemma sync_refused_iff : forall o p, exitc Sync o p = ExRefused <-> sync_refuse_cond o p = true.
Proof.
  intros o p. rewrite exitc_unfold.
  assert (B : snd (command_body Sync o p) = if negb (read_ok Sync o p) then ExRefused else snd (sync_body o p)).
  { unfold command_body. destruct (negb (read_ok Sync o p)); reflexivity. }
  rewrite B, sync_body_exit. unfold sync_refuse_cond, skips_lock.
  generalize (opts_compatible Sync o) (p_conf_ok p) (o_skip_lock o) (p_lock_free p) (read_ok Sync o p)
             (zero_trigger p && negb (o_force_zero o)) (empty_trigger p && negb (o_force_empty o))
             (N.ltb (p_blockmax p) (o_blockstart o)) (parity_all_access p)
             (negb (o_force_realloc o || o_force_full o) && short_parity p)
             (o_prehash o && p_prehash_fail p) (p_sync_errors p).
  intros a b c d e f g h i j k l.
  destruct a; simpl; [| tauto].
  destruct b; simpl; [| tauto].
  destruct c; simpl; [| destruct d; simpl; [| tauto]];
    (destruct e; simpl; [| tauto]);
    (destruct f; simpl; [tauto |]);
    (destruct g; simpl; [tauto |]);
    (destruct h; simpl; [tauto |]);
    (destruct i; simpl; [| tauto]);
    (destruct j; simpl; [tauto |]);
    destruct k, l; split; discriminate.
Qed.

Lemma interlock_refuses : forall t o p, fires t p = true -> overridden t o = false ->
  exitc Sync o p = ExRefused /\ forall e, In e (effects Sync o p) -> lock_or_log e \/ is_creation p e.
Proof.
  intros t o p F V.
  assert (R : exitc Sync o p = ExRefused).
  { apply sync_refused_iff. unfold sync_refuse_cond.
    destruct t; simpl in F, V.
    - rewrite F, V. simpl. rewrite !orb_true_r. reflexivity.
    - rewrite F, V. simpl. rewrite !orb_true_r. reflexivity.
    - apply orb_false_iff in V. destruct V as [V1 V2]. rewrite F, V1, V2. simpl. rewrite !orb_true_r. reflexivity.
    - apply andb_true_iff in F. destruct F as [F1 F2]. unfold mismatch_trigger in F2.
      assert (X : read_ok Sync o p = false).
      { unfold read_ok. rewrite F1. simpl. apply orb_true_iff in F2. destruct F2 as [F2 | F2]; rewrite F2; simpl;
          rewrite ?andb_false_r; reflexivity. }
      rewrite X. simpl. rewrite !orb_true_r. reflexivity.
    - apply andb_true_iff in F. destruct F as [F1 F2].
      assert (X : read_ok Sync o p = false).
      { unfold read_ok. rewrite F1, F2. simpl. rewrite ?andb_false_r. reflexivity. }
      rewrite X. simpl. rewrite !orb_true_r. reflexivity.
    - rewrite F, V. simpl. rewrite !orb_true_r. reflexivity. }
  split; [exact R |]. intros e H. unfold lock_or_log. destruct (refused_effects _ _ _ _ R H) as [E | [E | [_ C]]]; auto.
Qed.

Definition sync_can_start (o : opts) (p : pre) : Prop :=
  opts_compatible Sync o = true /\ p_conf_ok p = true
  /\ (p_content_found p = true -> p_content_ok p = true /\ uuid_trigger o p = false)
  /\ N.leb (o_blockstart o) (p_blockmax p) = true
  /\ parity_all_access p = true.

Lemma interlock_overridden : forall o p, sync_can_start o p ->
  (forall t, fires t p = true -> overridden t o = true) -> exitc Sync o p <> ExRefused.
Proof.
  intros o p [C [CF [RD [BS PA]]]] OV R. apply sync_refused_iff in R. revert R. unfold sync_refuse_cond.
  rewrite C, CF, PA. simpl.
  assert (L : negb (o_skip_lock o) && negb (p_lock_free p) = false).
  { destruct (p_lock_free p) eqn:E; [apply andb_false_r |].
    assert (X : overridden TLock o = true) by (apply OV; simpl; rewrite E; reflexivity). simpl in X. rewrite X. reflexivity. }
  rewrite L. simpl.
  assert (RO : read_ok Sync o p = true).
  { unfold read_ok. destruct (p_content_found p) eqn:E; [| reflexivity]. simpl. destruct (RD eq_refl) as [K U]. rewrite K, U. simpl.
    destruct (p_bs_mismatch p) eqn:B1; [specialize (OV TSizes); simpl in OV; unfold mismatch_trigger in OV; rewrite E, B1 in OV; discriminate (OV eq_refl) |].
    destruct (p_hs_mismatch p) eqn:B2; [specialize (OV TSizes); simpl in OV; unfold mismatch_trigger in OV; rewrite E, B1, B2 in OV; discriminate (OV eq_refl) |].
    destruct (p_unknown_disk p) eqn:B3; [specialize (OV TUnknownDisk); simpl in OV; rewrite E, B3 in OV; discriminate (OV eq_refl) |].
    reflexivity. }
  rewrite RO. simpl.
  assert (Z : zero_trigger p && negb (o_force_zero o) = false).
  { destruct (zero_trigger p) eqn:E; [| reflexivity]. pose proof (OV TZero E) as X. simpl in X. rewrite X. reflexivity. }
  assert (M : empty_trigger p && negb (o_force_empty o) = false).
  { destruct (empty_trigger p) eqn:E; [| reflexivity]. pose proof (OV TEmpty E) as X. simpl in X. rewrite X. reflexivity. }
  assert (S : negb (o_force_realloc o || o_force_full o) && short_parity p = false).
  { destruct (short_parity p) eqn:E; [| apply andb_false_r]. specialize (OV TShortParity E). simpl in OV.
    rewrite orb_comm, OV. reflexivity. }
  assert (B : N.ltb (p_blockmax p) (o_blockstart o) = false).
  { apply N.ltb_ge. apply N.leb_le. exact BS. }
  rewrite Z, M, S, B. simpl. discriminate.
Qed.


(* the lock held by another command refuses every command that takes it, before anything else is done *)
Lemma lock_held_refuses : forall c o p, opts_compatible c o = true -> p_conf_ok p = true ->
  skips_lock c o = false -> p_lock_free p = false -> run c o p = (log_eff o ++ [WLock], ExRefused).
Proof.
  intros c o p C CF SK LF. unfold run, run_full. rewrite C, CF, SK, LF. reflexivity.
Qed.

(* lock discipline over a schedule: commands try to take the lock when they start and release it when they end *)
Inductive ev := Try (id : N) | Finish (id : N).

Definition lock_step (h : option N) (e : ev) : option N * bool :=     (* new holder, "this Try acquired the lock" *)
  match e with
  | Try id => match h with None => (Some id, snd (lock_try false)) | Some _ => (h, snd (lock_try true)) end
  | Finish id => match h with
                 | Some j => if N.eqb id j then (None, false) else (h, false)
                 | None => (None, false)
                 end
  end.

Fixpoint lock_run (h : option N) (tr : list ev) : option N :=
  match tr with [] => h | e :: t => lock_run (fst (lock_step h e)) t end.

Lemma holder_kept : forall mid a, ~ In (Finish a) mid -> lock_run (Some a) mid = Some a.
Proof.
  induction mid as [| e t IH]; simpl; intros a NF; [reflexivity |].
  destruct e as [id | id]; simpl.
  - apply IH. tauto.
  - destruct (N.eqb id a) eqn:E.
    + apply N.eqb_eq in E. subst. exfalso. apply NF. left. reflexivity.
    + simpl. apply IH. tauto.
Qed.

Lemma lock_excludes : forall pre0 mid a b h,
  snd (lock_step (lock_run h pre0) (Try a)) = true ->
  ~ In (Finish a) mid ->
  snd (lock_step (lock_run (fst (lock_step (lock_run h pre0) (Try a))) mid) (Try b)) = false.
Proof.
  intros pre0 mid a b h A NF.
  destruct (lock_run h pre0) as [j |] eqn:E; simpl in A; [discriminate |].
  simpl. rewrite (holder_kept _ _ NF). reflexivity.
Qed.

(* ------------------------------------------------------------------------------------------- non-vacuity *)

Definition o0 : opts := mkOpts true false false false false false false false false false false false 0 0 false [] false false false false.
Definition ds_ok : diskscan := mkDS 3 0 0 0 0 0 0 0 false.
Definition ds_gone : diskscan := mkDS 0 0 0 4 0 0 2 3 false.
Definition ds_zero1 : diskscan := mkDS 3 0 0 0 1 0 0 0 true.
Definition p0 (disks : list diskscan) (pblocks : list N) : pre :=
  mkPre true true 2 2 true true false false false false 0 disks true 9 7 [true; true] [true; true] pblocks [false; false] [false; true] [false; true] false [0; 1] false false 0 false false true
        [] [] [false; false] [] true [].

Example ex_sync_proceeds :
  run Sync o0 (p0 [ds_ok; ds_ok] [9; 8]) =
  ([WLog; WLock; RszParity 1; WContent 0; WContent 1; WParity 0 0; WParity 1 0; WParity 0 1; WParity 1 1; WContent 0; WContent 1], ExOk).
Proof. vm_compute. reflexivity. Qed.

Example ex_empty_refused : run Sync o0 (p0 [ds_ok; ds_gone] [9; 8]) = ([WLog; WLock], ExRefused).
Proof. vm_compute. reflexivity. Qed.
Example ex_empty_fires : fires TEmpty (p0 [ds_ok; ds_gone] [9; 8]) = true /\ overridden TEmpty o0 = false.
Proof. vm_compute. auto. Qed.
Example ex_zero_refused : run Sync o0 (p0 [ds_zero1; ds_ok] [9; 8]) = ([WLog; WLock], ExRefused).
Proof. vm_compute. reflexivity. Qed.
Example ex_short_refused : run Sync o0 (p0 [ds_ok; ds_ok] [9; 6]) = ([WLog; WLock], ExRefused).
Proof. vm_compute. reflexivity. Qed.

Definition o_force : opts := mkOpts true true true true false false false false false false false false 0 0 false [] false false false false.
Example ex_overridden_proceeds :
  exitc Sync o_force (p0 [ds_zero1; ds_gone] [9; 6]) = ExOk /\
  sync_can_start o_force (p0 [ds_zero1; ds_gone] [9; 6]) /\
  (forall t, fires t (p0 [ds_zero1; ds_gone] [9; 6]) = true -> overridden t o_force = true) /\
  fires TEmpty (p0 [ds_zero1; ds_gone] [9; 6]) = true /\ fires TZero (p0 [ds_zero1; ds_gone] [9; 6]) = true /\
  fires TShortParity (p0 [ds_zero1; ds_gone] [9; 6]) = true.
Proof.
  split; [vm_compute; reflexivity |]. split; [unfold sync_can_start; vm_compute; intuition discriminate |].
  split; [intros [] H; vm_compute in *; congruence |]. vm_compute. auto.
Qed.

Definition it_missing : fixitem := mkFI 1 7 OFile true true false false FRecoverable false false true [5].
Definition it_unsel : fixitem := mkFI 0 3 OFile false true false false FRecoverable false false true [].
Definition it_bad : fixitem := mkFI 0 4 OFile true false false true FUnrecoverable true false true [].
Definition o_fix : opts := mkOpts true false false false false false false false false false false false 0 0 true [true; false] false false false false.
Definition p_fix : pre :=
  mkPre true true 2 2 true true false false false false 0 [ds_ok; ds_ok] false 9 9 [true; true] [true; true] [9; 9] [false; false] [false; false] [false; false] false [] false false 0 false false false
        [it_missing; it_unsel; it_bad] [(0, 2); (1, 2)] [false; true] [] true [].
Example ex_fix :
  run_full Fix o_fix p_fix =
  ([WLog; WLock; WData 1 5 KMkdir; WData 1 7 KCreate; WData 1 7 KWrite; WData 1 7 KUtime;
    WData 0 4 KTruncate; WData 0 4 KWrite; WData 0 4 KRename; WParity 0 2],
   [RFixed 1 7; RRecovered 1 7; RFixed 0 4; RFixed 0 4; RUnrecoverable 0 4; RParityFixed 0 2], ExErrors)
  /\ Forall item_wf (p_fix_items p_fix).
Proof.
  split; [vm_compute; reflexivity |].
  repeat constructor; unfold item_wf; simpl; intros; discriminate.
Qed.

Example ex_check_readonly : run Check o0 (p0 [ds_ok; ds_gone] [9; 2]) = ([WLog; WLock], ExOk).
Proof. vm_compute. reflexivity. Qed.
Example ex_touch : run Touch o0 (mkPre true true 1 1 true true false false false false 0 [ds_ok] false 3 3 [true] [true] [3] [false] [false] [false] false [] false false 0 false false false
                                        [] [] [false] [(0, 5)] true []) = ([WLog; WLock; WData 0 5 KUtime; WContent 0], ExOk).
Proof. vm_compute. reflexivity. Qed.
Example ex_lock_trace :
  snd (lock_step (lock_run None [Try 1]) (Try 2)) = false /\ snd (lock_step (lock_run None [Try 1; Finish 1]) (Try 2)) = true.
Proof. vm_compute. auto. Qed.

(* the parity really present: a split shorter than recorded ends the count; the rule before 03a455c (recorded sizes) did not
   see a truncated file *)
Lemma valid_size_le_recorded : forall sp, valid_size sp <= recorded_size sp.
Proof.
  induction sp as [| [r d] t IH]; simpl; [lia |].
  destruct r as [r |]; simpl.
  - destruct (N.ltb d r) eqn:E; [apply N.ltb_lt in E; lia | lia].
  - rewrite N.ltb_irrefl. lia.
Qed.

Lemma valid_size_all_present : forall sp,
  (forall r d, In (Some r, d) sp -> r <= d) -> valid_size sp = recorded_size sp.
Proof.
  induction sp as [| [r d] t IH]; simpl; intros H; [reflexivity |].
  destruct r as [r |]; simpl.
  - assert (L : r <= d) by (apply H; left; reflexivity).
    destruct (N.ltb d r) eqn:E; [apply N.ltb_lt in E; lia |]. rewrite IH; [reflexivity | intros; apply H; right; assumption].
  - rewrite N.ltb_irrefl. rewrite IH; [reflexivity | intros; apply H; right; assumption].
Qed.

(* valid_blocks is the FLOOR of the valid size over the block size: a level counts as short as soon as its valid size is below
   used * block size by any number of bytes *)
Lemma valid_blocks_floor : forall bs sp, 0 < bs ->
  valid_blocks bs sp * bs <= valid_size sp /\ valid_size sp < (valid_blocks bs sp + 1) * bs.
Proof.
  intros bs sp H. unfold valid_blocks. split.
  - rewrite N.mul_comm. apply N.mul_div_le. lia.
  - rewrite N.mul_comm. rewrite N.add_1_r. apply N.mul_succ_div_gt. lia.
Qed.

Lemma valid_blocks_lt_iff : forall bs sp used, 0 < bs -> (valid_blocks bs sp < used <-> valid_size sp < used * bs).
Proof.
  intros bs sp used H. destruct (valid_blocks_floor bs sp H) as [A B]. split; intros L.
  - apply N.lt_le_trans with ((valid_blocks bs sp + 1) * bs); [exact B |]. apply N.mul_le_mono_r. lia.
  - destruct (N.lt_ge_cases (valid_blocks bs sp) used) as [X | X]; [exact X | exfalso].
    assert (used * bs <= valid_blocks bs sp * bs) by (apply N.mul_le_mono_r; exact X). lia.
Qed.

(* a single parity file recorded with exactly the used size and found shorter by ANY number of bytes > 0 is short *)
Lemma truncated_file_is_short : forall bs used d, 0 < bs -> d < used * bs -> valid_blocks bs [(Some (used * bs), d)] < used.
Proof.
  intros bs used d H L. apply valid_blocks_lt_iff; [exact H |]. simpl.
  destruct (N.ltb d (used * bs)) eqn:E; [exact L | apply N.ltb_ge in E; lia].
Qed.

Example ex_valid_size :
  valid_blocks 1024 [(Some 9216, 2048)] = 2 /\ recorded_size [(Some 9216, 2048)] / 1024 = 9
  /\ valid_blocks 1024 [(Some 4096, 4096); (Some 5120, 1024); (Some 2048, 2048)] = 5
  /\ valid_blocks 1024 [(Some 4096, 0); (Some 5120, 5120)] = 0
  /\ valid_blocks 1024 [(None, 7168)] = 7.
Proof. vm_compute. auto. Qed.

(* ------------------------------------------------------------------------------------------- the lock FILE
   The lock is a flock on the INODE behind <first content>.lock.  `lock_excludes` above speaks about one lock object;
   that is justified only while the path keeps naming the same inode.  Model with the path made explicit: *)
Record lstate := mkLS { ls_path : option N;            (* inode the path names, None = no such file *)
                        ls_next : N;                   (* next fresh inode *)
                        ls_holders : list (N * N) }.   (* (command, inode it holds the flock on) *)
Inductive fev := FTry (id : N) | FFinish (id : N) | FUnlink.

Definition fstep (s : lstate) (e : fev) : lstate :=
  match e with
  | FTry id =>
      let ino := match ls_path s with Some i => i | None => ls_next s end in
      let nxt := match ls_path s with Some _ => ls_next s | None => ls_next s + 1 end in
      if existsb (fun h => N.eqb (snd h) ino) (ls_holders s)
      then mkLS (Some ino) nxt (ls_holders s)                                   (* EWOULDBLOCK: refused *)
      else mkLS (Some ino) nxt ((id, ino) :: ls_holders s)
  | FFinish id => mkLS (ls_path s) (ls_next s) (filter (fun h => negb (N.eqb (fst h) id)) (ls_holders s))
  | FUnlink => mkLS None (ls_next s) (ls_holders s)
  end.
Fixpoint frun (s : lstate) (tr : list fev) : lstate := match tr with [] => s | e :: t => frun (fstep s e) t end.
Definition ls0 : lstate := mkLS None 0 [].
Definition no_unlink (tr : list fev) : Prop := ~ In FUnlink tr.

Definition linv (s : lstate) : Prop :=
  (length (ls_holders s) <= 1)%nat /\ forall h, In h (ls_holders s) -> ls_path s = Some (snd h).

Lemma filter_length_le : forall (A : Type) (f : A -> bool) l, (length (filter f l) <= length l)%nat.
Proof. induction l; simpl; [lia | destruct (f a); simpl; lia]. Qed.

Lemma linv_step : forall s e, e <> FUnlink -> linv s -> linv (fstep s e).
Proof.
  intros s e NE [L P]. destruct e as [id | id |]; [| | congruence]; unfold fstep.
  - destruct (ls_holders s) as [| h t] eqn:H.
    + simpl. split; [simpl; lia |]. simpl. intros h [E | []]. subst. reflexivity.
    + assert (T : t = []) by (destruct t; [reflexivity | simpl in L; lia]). subst t.
      pose proof (P h (or_introl eq_refl)) as Ph. rewrite Ph. simpl. rewrite N.eqb_refl. simpl.
      split; [simpl; lia |]. simpl. intros h' [E | []]. subst. reflexivity.
  - split; simpl.
    + pose proof (filter_length_le _ (fun h => negb (N.eqb (fst h) id)) (ls_holders s)). lia.
    + intros h Hin. apply filter_In in Hin. apply P. tauto.
Qed.

Lemma lock_file_excludes : forall tr s, no_unlink tr -> linv s -> (length (ls_holders (frun s tr)) <= 1)%nat.
Proof.
  induction tr as [| e t IH]; simpl; intros s NU I; [exact (proj1 I) |].
  apply IH; [intros H; apply NU; right; exact H |].
  apply linv_step; [intros E; apply NU; left; exact E | exact I].
Qed.

Lemma linv_ls0 : linv ls0.
Proof. split; simpl; [lia | tauto]. Qed.

(* ... and it is necessary: a command that removes the path after releasing lets two commands run together *)
Lemma lock_file_unlink_refuted :
  length (ls_holders (frun ls0 [FTry 1; FFinish 1; FTry 2; FUnlink; FTry 3])) = 2%nat.
Proof. vm_compute. reflexivity. Qed.

(* scan.c:1837-1841: the all-missing / all-rewritten rule looks at equal, move, restore, remove, change only: whatever new files
   or copies appeared on the disk (insert and copy counters) does not matter *)
Lemma empty_trigger_ignores_new_files : forall e m r rm ch el i1 c1 i2 c2 z1 z2,
  empty_trigger_disk (mkDS e m r rm ch el i1 c1 z1) = empty_trigger_disk (mkDS e m r rm ch el i2 c2 z2).
Proof. reflexivity. Qed.

Lemma empty_trigger_disk_iff : forall d, empty_trigger_disk d = true <->
  ds_equal d = 0 /\ ds_move d = 0 /\ ds_restore d = 0 /\ (ds_remove d <> 0 \/ ds_change d <> 0).
Proof.
  intros d. unfold empty_trigger_disk, is0. rewrite !andb_true_iff, negb_true_iff, andb_false_iff, !N.eqb_eq, !N.eqb_neq. tauto.
Qed.

(* Links and the empty-disk rule.  The property speaks of FILES; scan.c counts an unchanged symbolic link or hardlink in `equal`.
   Full-strength statement: forall o p, empty_trigger_files p = true -> o_force_empty o = false -> exitc Sync o p = ExRefused.
   Refuted by the faithful model (finding F-C14-links-disarm-empty-disk-interlock): one disk, its only file removed, its one
   unchanged link still there. *)
Definition ds_link_only : diskscan := mkDS 1 0 0 1 0 1 0 0 false.
Lemma empty_rule_links_refuted : exists o p,
  empty_trigger_files p = true /\ o_force_empty o = false /\ exitc Sync o p = ExOk.
Proof. exists o0, (p0 [ds_ok; ds_link_only] [9; 8]). vm_compute. auto. Qed.

(* ... and true when no unchanged link is counted on any disk *)
Lemma empty_rule_files_partial : forall p, (forall d, In d (p_disks p) -> ds_equal_links d = 0) ->
  empty_trigger_files p = empty_trigger p.
Proof.
  intros p H. unfold empty_trigger_files, empty_trigger. induction (p_disks p) as [| d t IH]; [reflexivity |].
  simpl. rewrite IH by (intros; apply H; right; assumption).
  unfold empty_trigger_files_disk, empty_trigger_disk. rewrite (H d (or_introl eq_refl)), N.sub_0_r. reflexivity.
Qed.

Lemma empty_rule_files_refuses : forall o p, (forall d, In d (p_disks p) -> ds_equal_links d = 0) ->
  empty_trigger_files p = true -> o_force_empty o = false ->
  exitc Sync o p = ExRefused /\ forall e, In e (effects Sync o p) -> lock_or_log e \/ is_creation p e.
Proof.
  intros o p H F V. apply (interlock_refuses TEmpty); [| exact V]. simpl. rewrite <- (empty_rule_files_partial p H). exact F.
Qed.

(* "A refused sync changes nothing" is false to the letter: with a parity file missing, the refusal for short parity comes after
   parity_create has made the file (finding F-C14-refused-sync-creates-empty-parity-file) *)
Definition p_absent : pre :=
  mkPre true true 2 2 true true false false false false 0 [ds_ok; ds_ok] true 9 7 [true; true] [true; true] [0; 9] [true; false] [true; false] [true; false]
        false [0; 1] false false 0 false false true [] [] [false; false] [] true [].
Lemma refusal_changes_nothing_refuted : exists o p e,
  exitc Sync o p = ExRefused /\ In e (effects Sync o p) /\ e <> WLock /\ e <> WLog.
Proof. exists o0, p_absent, (RszParity 0). vm_compute. repeat split; auto; discriminate. Qed.

Lemma interlock_refuses_strict : forall t o p, no_parity_absent p -> fires t p = true -> overridden t o = false ->
  exitc Sync o p = ExRefused /\ forall e, In e (effects Sync o p) -> lock_or_log e.
Proof.
  intros t o p NA F V. destruct (interlock_refuses t o p F V) as [R H]. split; [exact R |].
  intros e I. destruct (H e I) as [L | [l [_ [_ X]]]]; [exact L | rewrite (NA l) in X; discriminate].
Qed.
