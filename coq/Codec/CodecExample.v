(* A concrete well-formed state exercising every feature of the content file: the hypotheses of the theorems are
   satisfiable, and the theorems can be replayed by computation on it. *)
From Coq Require Import NArith ZArith List Bool Lia.
From Snap.Codec Require Import Varint CodecModel CodecProofs CodecRoundTrip CodecRewrite.
Import ListNotations.
Local Open Scope N_scope.

Definition T0 : N := 1700000000.     (* multiple of 8 *)

(* disk d1: "a\n:" two blocks (BLK at 0, CHG at 1), "\128\255x" one REP block at 3; a hard link, a symlink to "";
   an empty directory; a DELETED block at position 2, kept because d2 has a file block there.
   disk d2: one file with a BLK block at 2.  disk d3: nothing, mapped: its map is dropped by the save. *)
Definition ex_state : cstate :=
  {| c_block_size := 1024; c_hash_size := 2;
     c_hash := H_SPOOKY2; c_hashseed := [1;2;3;4;5;6;7;8;9;10;11;12;13;14;15;16];
     c_prevhash := H_MURMUR3; c_prevhashseed := [16;15;14;13;12;11;10;9;8;7;6;5;4;3;2;1];
     c_maps := [ {| cm_name := [100;50]; cm_pos := 1; cm_total := 4294967295; cm_free := 128; cm_uuid := [117;58] |};
                 {| cm_name := [100;51]; cm_pos := 5; cm_total := 0; cm_free := 0; cm_uuid := [] |};
                 {| cm_name := [100;49]; cm_pos := 0; cm_total := 16384; cm_free := 127; cm_uuid := [] |} ];
     c_parity := [ {| cp_total := 1000; cp_free := 999;
                      cp_splits := [ {| cs_path := [47;112;48]; cs_uuid := [120]; cs_size := 4096 |};
                                     {| cs_path := [47;112;49]; cs_uuid := []; cs_size := SIZE_INVALID |} ] |};
                   {| cp_total := 2097152; cp_free := 0;
                      cp_splits := [ {| cs_path := [47;113]; cs_uuid := []; cs_size := 9223372036854775808 |} ] |} ];
     c_disks := [ {| cd_name := [100;49];
                     cd_files := [ {| cf_size := 1025; cf_msec := 18446744073709551615; cf_mnsec := NSEC_INVALID; cf_inode := 9223372036854775808;
                                      cf_sub := [97;10;58];
                                      cf_blocks := [ {| cb_state := BLK; cb_pos := 0; cb_hash := [170;187] |};
                                                     {| cb_state := CHG; cb_pos := 1; cb_hash := [0;0] |} ] |};
                                   {| cf_size := 0; cf_msec := 0; cf_mnsec := 0; cf_inode := 0; cf_sub := [101]; cf_blocks := [] |};
                                   {| cf_size := 1; cf_msec := 1700000000; cf_mnsec := 999999999; cf_inode := 128;
                                      cf_sub := [128;255;120];
                                      cf_blocks := [ {| cb_state := REP; cb_pos := 3; cb_hash := [255;255] |} ] |} ];
                     cd_links := [ {| cl_hard := true; cl_sub := [104]; cl_to := [97;10;58] |};
                                   {| cl_hard := false; cl_sub := [115;32]; cl_to := [] |} ];
                     cd_dirs := [ [100;47;1] ];
                     cd_deleted := [ (2, [222;173]) ] |};
                  {| cd_name := [100;50];
                     cd_files := [ {| cf_size := 1024; cf_msec := 1; cf_mnsec := 4294967294; cf_inode := 18446744073709551615;
                                      cf_sub := [92;13];
                                      cf_blocks := [ {| cb_state := BLK; cb_pos := 2; cb_hash := [1;2] |} ] |} ];
                     cd_links := []; cd_dirs := []; cd_deleted := [] |};
                  {| cd_name := [100;51]; cd_files := []; cd_links := []; cd_dirs := []; cd_deleted := [] |} ];
     c_info := [ T0 + 4;            (* just synced *)
                 T0 + 8 + 1;        (* bad *)
                 T0 - 80 + 2;       (* to be rehashed *)
                 0 ] |}.

Ltac str := split; [repeat constructor; discriminate|vm_compute; reflexivity].
Ltac solve_wf := repeat match goal with
  | |- state_ok _ => first [left; reflexivity | right; left; reflexivity | right; right; reflexivity]
  | |- disk_ok _ _ _ _ => unfold disk_ok
  | |- file_ok _ _ _ _ => unfold file_ok
  | |- block_ok _ _ => unfold block_ok
  | |- link_ok _ => unfold link_ok
  | |- dir_ok _ => unfold dir_ok
  | |- map_fields_ok _ => unfold map_fields_ok
  | |- parity_ok _ => unfold parity_ok
  | |- split_ok _ => unfold split_ok
  | |- info_ok _ _ => unfold info_ok
  | |- sorted_from _ _ => progress cbn [sorted_from fst cd_deleted]
  | |- _ /\ _ => split
  | |- True => exact I
  | |- Forall _ [] => constructor
  | |- Forall _ (_ :: _) => constructor
  | |- str_ok _ _ => str
  | |- _ -> _ => intros; discriminate
  | |- _ <> _ => discriminate
  | |- Forall _ _ => progress cbn [cd_files cd_links cd_dirs cd_deleted cf_blocks c_disks c_maps c_parity c_info cp_splits ex_state]
  | |- _ => first [ vm_compute; reflexivity | vm_compute; discriminate ]
  end.

Ltac hashok := first [left; reflexivity | right; left; reflexivity | right; right; reflexivity].
Ltac nodup := repeat constructor; cbn; intuition discriminate.
Ltac prove_wf :=
  constructor;
  [ discriminate
  | vm_compute; reflexivity
  | split; vm_compute; discriminate
  | hashok
  | reflexivity
  | first [left; reflexivity | right; hashok]
  | reflexivity
  | vm_compute; reflexivity
  | solve_wf
  | nodup
  | solve_wf
  | nodup
  | nodup
  | let m := fresh "m" in let H := fresh "H" in
    intros m H; cbn in H; repeat (destruct H as [<-|H]; [cbn; auto 10|]); contradiction
  | vm_compute; reflexivity
  | let d := fresh "d" in let H := fresh "H" in
    intros d H; cbn in H; repeat (destruct H as [<-|H]; [cbn; intros; auto 10; discriminate|]); contradiction
  | vm_compute; discriminate
  | solve_wf
  | solve_wf
  | let b := fresh "b" in let H := fresh "H" in
    intros b H; vm_compute in H; repeat (destruct H as [<-|H]; [cbn; intros; try discriminate|]); contradiction ].

Lemma ex_wf : wf ex_state.
Proof. prove_wf. Qed.

(* the theorem replayed by computation on this state, at a clock before the newest info (clamping) *)
Example ex_roundtrip_computed : decode (conf_of ex_state) (encode (T0 + 3) ex_state) = Ok (normalise (T0 + 3) ex_state).
Proof. vm_compute. reflexivity. Qed.

(* what the save + load changed: the second info time is clamped to the clock (rounded down to a multiple of 8) and the
   map of the empty disk d3 is gone; everything else is kept *)
Example ex_normalise_effect :
  c_info (normalise (T0 + 3) ex_state) = [T0 + 4; T0 + 1; T0 - 80 + 2; 0]
  /\ map cm_name (c_maps (normalise (T0 + 3) ex_state)) = [[100;50]; [100;49]]
  /\ c_disks (normalise (T0 + 3) ex_state) = c_disks ex_state
  /\ c_parity (normalise (T0 + 3) ex_state) = c_parity ex_state
  /\ c_prevhash (normalise (T0 + 3) ex_state) = H_MURMUR3.
Proof. vm_compute. repeat split; reflexivity. Qed.

Example ex_idempotent : normalise (T0 + 3) (normalise (T0 + 3) ex_state) = normalise (T0 + 3) ex_state.
Proof. vm_compute. reflexivity. Qed.

Example ex_rewrite_fixpoint :
  let b := encode (T0 + 3) (normalise (T0 + 3) ex_state) in
  match decode (conf_of ex_state) b with Ok s' => encode (T0 + 3) s' = b | _ => False end.
Proof. vm_compute. reflexivity. Qed.

(* ------------------------------------------------------------------------------------------------ *)
(** * Rewriting *)

(* the configuration is not changed by a save + load *)
Lemma norm_disks_names bm : forall (L : list cdisk) (I : list (option N)), length I = length L ->
  map cd_name (norm_disks bm L I) = map cd_name L.
Proof.
  induction L as [|x L IH]; intros [|oi I] H; try discriminate; [reflexivity|]. cbn [norm_disks map].
  rewrite IH by (cbn in H; lia). destruct oi; reflexivity.
Qed.

Lemma conf_of_normalise now s : conf_of (normalise now s) = conf_of s.
Proof.
  unfold conf_of, normalise. cbn [c_block_size c_hash_size c_disks c_parity].
  change (c_block_size (p_st (prepare s))) with (c_block_size s). change (c_hash_size (p_st (prepare s))) with (c_hash_size s).
  f_equal.
  - rewrite <- !(map_map cd_name (fun n => (n, @nil N))). f_equal.
    change (c_disks (p_st (prepare s))) with (pdisks s). rewrite norm_disks_names.
    + unfold pdisks. rewrite map_map. reflexivity.
    + rewrite p_idx_eq, assign_length. apply map_length.
  - change (c_parity (p_st (prepare s))) with (c_parity s). rewrite map_map. apply map_ext. intros p.
    unfold norm_parity. destruct (version (p_st (prepare s)) =? 3); [reflexivity|]. cbn [cp_splits]. rewrite map_map. reflexivity.
Qed.

(* Rewriting (load + save at the same clock) a content file that was itself produced by a load + save is the identity
   on the bytes -- GIVEN that normalise is idempotent on the state and keeps it well-formed.  These two facts are
   checked by computation on ex_state below and by the harness on every generated state; they are not proved in
   general (the missing part: prepare (normalise now s) against prepare s, i.e. the oldest-time fold and the
   mapping indexes after the clean-up). *)
Theorem rewrite_fixpoint_partial now s :
  wf s -> 8 <= now ->
  wf (normalise now s) -> normalise now (normalise now s) = normalise now s ->
  decode (conf_of s) (encode now (normalise now s)) = Ok (normalise now s)
  /\ forall s', decode (conf_of s) (encode now (normalise now s)) = Ok s' -> encode now s' = encode now (normalise now s).
Proof.
  intros W Hnow W1 Hid.
  pose proof (decode_encode_rt now (normalise now s) W1 Hnow) as H. rewrite conf_of_normalise, Hid in H.
  split; [exact H|]. intros s' H'. rewrite H in H'. injection H' as <-. reflexivity.
Qed.

Definition ex_norm : cstate :=
  {| c_block_size := 1024; c_hash_size := 2; c_hash := H_SPOOKY2; c_hashseed := c_hashseed ex_state;
     c_prevhash := H_MURMUR3; c_prevhashseed := c_prevhashseed ex_state;
     c_maps := [ {| cm_name := [100;50]; cm_pos := 1; cm_total := 4294967295; cm_free := 128; cm_uuid := [117;58] |};
                 {| cm_name := [100;49]; cm_pos := 0; cm_total := 16384; cm_free := 127; cm_uuid := [] |} ];
     c_parity := c_parity ex_state; c_disks := c_disks ex_state;
     c_info := [T0 + 4; T0 + 1; T0 - 80 + 2; 0] |}.
Example ex_norm_eq : normalise (T0 + 3) ex_state = ex_norm.
Proof. vm_compute. reflexivity. Qed.
Example ex_wf_normalised : wf (normalise (T0 + 3) ex_state).
Proof. rewrite ex_norm_eq. unfold ex_norm. cbn [c_hashseed c_prevhashseed c_parity c_disks ex_state]. prove_wf. Qed.

(* ------------------------------------------------------------------------------------------------ *)
(** * FINDING: a rewrite does not always reproduce the file byte for byte *)

(* Saved at a clock that is behind an info time of the state (the clock stepped backwards since the last sync or
   scrub), the file stores that time clamped to the clock.  Loaded again, the time is the clamped one rounded down
   to a multiple of 8 seconds, so a rewrite at the very same clock writes different bytes (and two runs of different
   future times become one run).  The decoded states of the two files are equal; the bytes are not. *)
Theorem rewrite_reproduces_refuted :
  exists now s, wf s /\ 8 <= now /\
    exists s', decode (conf_of s) (encode now s) = Ok s' /\ encode now s' <> encode now s.
Proof.
  exists (T0 + 3), ex_state. split; [exact ex_wf|]. split; [vm_compute; discriminate|].
  exists (normalise (T0 + 3) ex_state). split; [apply decode_encode_rt; [exact ex_wf|vm_compute; discriminate]|].
  intros H. apply bytes_eqb_eq in H. vm_compute in H. discriminate.
Qed.

(* when no info time is ahead of the clock the rewrite reproduces the bytes (instance; tested by the harness on every
   real content file and on every generated state whose info times are <= now) *)
Example ex_rewrite_reproduces : encode (T0 + 100) (normalise (T0 + 100) ex_state) = encode (T0 + 100) ex_state.
Proof. vm_compute. reflexivity. Qed.

Example ex_unclamped :
  Forall (fun i => i <> 0 -> fold_left oldest_step (pinfo ex_state) 0 <= info_time i /\ info_time i <= T0 + 100) (pinfo ex_state).
Proof.
  assert (E : pinfo ex_state = [T0 + 4; T0 + 8 + 1; T0 - 80 + 2; 0]) by (vm_compute; reflexivity).
  rewrite E.
  constructor; [intros _; vm_compute; split; discriminate|].
  constructor; [intros _; vm_compute; split; discriminate|].
  constructor; [intros _; vm_compute; split; discriminate|].
  constructor; [intros H; exfalso; apply H; reflexivity|constructor].
Qed.

Example ex_clock_ok : 8 <= T0 + 3 /\ 8 <= T0 + 100.
Proof. split; vm_compute; discriminate. Qed.
