(* A concrete well-formed state exercising every feature of the content file: the hypotheses of the theorems are
   satisfiable, and the theorems can be replayed by computation on it. *)
From Coq Require Import NArith ZArith List Bool Lia.
From Snap.Codec Require Import Varint CodecModel CodecProofs CodecRoundTrip.
Import ListNotations.
Local Open Scope N_scope.

Definition T0 : N := 1700000000.     (* multiple of 8 *)

(* disk d1: "a\n:" two blocks (BLK at 0, CHG at 1), "\128\255x" one REP block at 3; a hard link, a symlink to "";
   an empty directory; a DELETED block at position 2, kept because d2 has a file block there.
   disk d2: one file with a BLK block at 2.  disk d3: nothing, mapped: its map is dropped by the save. *)
Definition ex_state : cstate :=
  {| c_block_size := 1024; c_hash_size := 2;
     c_hash := H_SPOOKY2; c_hashseed := [1;2;3;4;5;6;7;8;9;10;11;12;13;14;15;16];
     c_prevhash := H_MURMUR3; c_prevhashseed := [16;15;14;13;12;11;10;9;8;7;6;5;4;3;2;1];
     c_maps := [ {| cm_name := [100;50]; cm_pos := 1; cm_total := 4294967295; cm_free := 128; cm_uuid := [117;58] |};
                 {| cm_name := [100;51]; cm_pos := 5; cm_total := 0; cm_free := 0; cm_uuid := [] |};
                 {| cm_name := [100;49]; cm_pos := 0; cm_total := 16384; cm_free := 127; cm_uuid := [] |} ];
     c_parity := [ {| cp_total := 1000; cp_free := 999;
                      cp_splits := [ {| cs_path := [47;112;48]; cs_uuid := [120]; cs_size := 4096 |};
                                     {| cs_path := [47;112;49]; cs_uuid := []; cs_size := SIZE_INVALID |} ] |};
                   {| cp_total := 2097152; cp_free := 0;
                      cp_splits := [ {| cs_path := [47;113]; cs_uuid := []; cs_size := 9223372036854775808 |} ] |} ];
     c_disks := [ {| cd_name := [100;49];
                     cd_files := [ {| cf_size := 1025; cf_msec := 18446744073709551615; cf_mnsec := NSEC_INVALID; cf_inode := 9223372036854775808;
                                      cf_sub := [97;10;58];
                                      cf_blocks := [ {| cb_state := BLK; cb_pos := 0; cb_hash := [170;187] |};
                                                     {| cb_state := CHG; cb_pos := 1; cb_hash := [0;0] |} ] |};
                                   {| cf_size := 0; cf_msec := 0; cf_mnsec := 0; cf_inode := 0; cf_sub := [101]; cf_blocks := [] |};
                                   {| cf_size := 1; cf_msec := 1700000000; cf_mnsec := 999999999; cf_inode := 128;
                                      cf_sub := [128;255;120];
                                      cf_blocks := [ {| cb_state := REP; cb_pos := 3; cb_hash := [255;255] |} ] |} ];
                     cd_links := [ {| cl_hard := true; cl_sub := [104]; cl_to := [97;10;58] |};
                                   {| cl_hard := false; cl_sub := [115;32]; cl_to := [] |} ];
                     cd_dirs := [ [100;47;1] ];
                     cd_deleted := [ (2, [222;173]) ] |};
                  {| cd_name := [100;50];
                     cd_files := [ {| cf_size := 1024; cf_msec := 1; cf_mnsec := 4294967294; cf_inode := 18446744073709551615;
                                      cf_sub := [92;13];
                                      cf_blocks := [ {| cb_state := BLK; cb_pos := 2; cb_hash := [1;2] |} ] |} ];
                     cd_links := []; cd_dirs := []; cd_deleted := [] |};
                  {| cd_name := [100;51]; cd_files := []; cd_links := []; cd_dirs := []; cd_deleted := [] |} ];
     c_info := [ T0 + 4;            (* just synced *)
                 T0 + 8 + 1;        (* bad *)
                 T0 - 80 + 2;       (* to be rehashed *)
                 0 ] |}.

Ltac str := split; [repeat constructor; discriminate|vm_compute; reflexivity].
Ltac solve_wf := repeat match goal with
  | |- state_ok _ => first [left; reflexivity | right; left; reflexivity | right; right; reflexivity]
  | |- disk_ok _ _ _ _ => unfold disk_ok
  | |- file_ok _ _ _ _ => unfold file_ok
  | |- block_ok _ _ => unfold block_ok
  | |- link_ok _ => unfold link_ok
  | |- dir_ok _ => unfold dir_ok
  | |- map_fields_ok _ => unfold map_fields_ok
  | |- parity_ok _ => unfold parity_ok
  | |- split_ok _ => unfold split_ok
  | |- info_ok _ _ => unfold info_ok
  | |- sorted_from _ _ => cbn [sorted_from fst]
  | |- _ /\ _ => split
  | |- True => exact I
  | |- Forall _ [] => constructor
  | |- Forall _ (_ :: _) => constructor
  | |- str_ok _ _ => str
  | |- _ -> _ => intros; discriminate
  | |- _ <> _ => discriminate
  | |- _ => first [ vm_compute; reflexivity | vm_compute; discriminate | cbn; lia ]
  end.

Lemma ex_wf : wf ex_state.
Proof.
  constructor.
  - discriminate.
  - reflexivity.
  - cbn; lia.
  - right; left; reflexivity.
  - reflexivity.
  - right; left; reflexivity.
  - reflexivity.
  - reflexivity.
  - solve_wf.
  - repeat constructor; cbn; intuition discriminate.
  - solve_wf.
  - repeat constructor; cbn; intuition discriminate.
  - repeat constructor; cbn; intuition discriminate.
  - intros m [<-|[<-|[<-|[]]]]; cbn; auto.
  - reflexivity.
  - intros d [<-|[<-|[<-|[]]]]; cbn; intros; auto; discriminate.
  - vm_compute; discriminate.
  - solve_wf.
  - solve_wf.
  - intros b [<-|[<-|[<-|[<-|[]]]]]; cbn; intros; try discriminate.
Qed.

(* the theorem replayed by computation on this state, at a clock before the newest info (clamping) *)
Example ex_roundtrip_computed : decode (conf_of ex_state) (encode (T0 + 3) ex_state) = Ok (normalise (T0 + 3) ex_state).
Proof. vm_compute. reflexivity. Qed.

(* what the save + load changed: the second info time is clamped to the clock (rounded down to a multiple of 8) and the
   map of the empty disk d3 is gone; everything else is kept *)
Example ex_normalise_effect :
  c_info (normalise (T0 + 3) ex_state) = [T0 + 4; T0 + 1; T0 - 80 + 2; 0]
  /\ map cm_name (c_maps (normalise (T0 + 3) ex_state)) = [[100;50]; [100;49]]
  /\ c_disks (normalise (T0 + 3) ex_state) = c_disks ex_state
  /\ c_parity (normalise (T0 + 3) ex_state) = c_parity ex_state
  /\ c_prevhash (normalise (T0 + 3) ex_state) = H_MURMUR3.
Proof. vm_compute. repeat split; reflexivity. Qed.

Example ex_idempotent : normalise (T0 + 3) (normalise (T0 + 3) ex_state) = normalise (T0 + 3) ex_state.
Proof. vm_compute. reflexivity. Qed.

Example ex_rewrite_fixpoint :
  let b := encode (T0 + 3) (normalise (T0 + 3) ex_state) in
  match decode (conf_of ex_state) b with Ok s' => encode (T0 + 3) s' = b | _ => False end.
Proof. vm_compute. reflexivity. Qed.
