(* The content file of SnapRAID: the persistent array state and its binary codec.

     decode : conf -> list N -> result cstate      state_read_content (cmdline/state.c), record by record, plus the
                                                    two checks state_read makes on the loaded state
     encode : N -> cstate -> list N                state_write_content + state_write_thread; the first argument is
                                                    the value returned by time(0) when the state is saved
     normalise : N -> cstate -> cstate             what a save followed by a load does to a state

   Executable definitions only (this file is extracted).  Bytes are N < 256, a stream is a list N, the readers
   are those of Codec/Varint.v (Ok (value, rest) | Eof | Bad).

   Conventions
   - C integers are unbounded N with the wrap-around written out where the C relies on it (`mod 2^32`).
   - A C string is the list of its bytes (no NUL).  A string read from the file is cut at its first NUL (cstr):
     sgetbs copies the bytes, the program then uses strlen/strdup.
   - Reject kinds: `Eof` = a read hit the end of the stream (the C prints "Unexpected end of content file", or
     "Reached the end ... without finding the expected CRC"); `Bad` = every other exit()/os_abort() of the
     loader.  Both mean "the content file is not loaded".
   - (WRAP) What the C does not reject cleanly is modelled as Bad: the 32 bit sums v_idx + v_count and
     v_pos + v_count wrap before they are compared with the limit, and the loops that follow then run over up to
     2^32 positions (gigabytes of allocation for 'i', os_abort in fs_file2block_get for 'f', positions beyond
     blockmax for 'o' when the stream holds more than 2^32 - blockmax hashes).
   - fs_allocate detects a parity position used twice either at once (an extent starts there) or only in the
     fs_check at the end of the load; the model makes the test once, at the end (pos_unique).  Both abort.
   - BLOCK_HASH_SIZE >= 1 (the configuration and the 'y' record accept 2..16 only). *)
From Coq Require Import NArith ZArith List Bool.
From Snap.Codec Require Import Varint.
From Snap.Crc Require Import CrcModel.
Import ListNotations.
Local Open Scope N_scope.

(* ------------------------------------------------------------------------------------------------ *)
(** * Constants (checked against the headers of the tree by harness/py/check_C10.py) *)
Definition PATH_MAX : N := 4096.      (* <limits.h> *)
Definition UUID_MAX : N := 128.       (* elem.h *)
Definition HASH_MAX : N := 16.        (* util.h *)
Definition LEV_MAX : N := 6.          (* state.h *)
Definition SPLIT_MAX : N := 8.        (* elem.h *)
Definition SIZE_INVALID : N := 18446744073709551615.   (* PARITY_SIZE_INVALID = -1 in a data_off_t, written with sputb64 *)
Definition NSEC_INVALID : N := 4294967295.             (* STAT_NSEC_INVALID = -1 in an int, as its 32 bit pattern *)

(* block states (elem.h) *)
Definition BLK : N := 1.
Definition CHG : N := 2.
Definition REP : N := 3.
Definition DELETED : N := 4.
(* hash kinds: 0 = HASH_UNDEFINED, then the three the file format knows ('u', 'k', 'm') *)
Definition H_UNDEF : N := 0.
Definition H_MURMUR3 : N := 1.
Definition H_SPOOKY2 : N := 2.
Definition H_METRO : N := 3.

(* ------------------------------------------------------------------------------------------------ *)
(** * The state *)

Record cblock := { cb_state : N;          (* BLK / CHG / REP *)
                   cb_pos : N;            (* parity position (fs_file2par_get) *)
                   cb_hash : list N }.    (* BLOCK_HASH_SIZE bytes *)

Record cfile := { cf_size : N;            (* file->size, as the uint64_t that is written *)
                  cf_msec : N;            (* mtime_sec, as uint64_t *)
                  cf_mnsec : N;           (* mtime_nsec as a 32 bit pattern, NSEC_INVALID = 2^32-1 *)
                  cf_inode : N;
                  cf_sub : list N;
                  cf_blocks : list cblock }.   (* one per block of the file, in file order *)

Record clink := { cl_hard : bool;         (* FILE_IS_HARDLINK, else FILE_IS_SYMLINK *)
                  cl_sub : list N;
                  cl_to : list N }.

Record cdisk := { cd_name : list N;
                  cd_files : list cfile;            (* filelist *)
                  cd_links : list clink;            (* linklist *)
                  cd_dirs : list (list N);          (* dirlist *)
                  cd_deleted : list (N * list N) }. (* DELETED blocks: parity position, hash; by position *)

Record cmap := { cm_name : list N; cm_pos : N; cm_total : N; cm_free : N; cm_uuid : list N }.

Record csplit := { cs_path : list N; cs_uuid : list N; cs_size : N }.
(* state->parity[l]: the first split_mac entries of split_map (the others always hold the state_init values) *)
Record cparity := { cp_total : N; cp_free : N; cp_splits : list csplit }.

Record cstate := {
  c_block_size : N;
  c_hash_size : N;                 (* BLOCK_HASH_SIZE *)
  c_hash : N; c_hashseed : list N;
  c_prevhash : N; c_prevhashseed : list N;
  c_maps : list cmap;              (* maplist *)
  c_parity : list cparity;         (* parity[0 .. level-1] *)
  c_disks : list cdisk;            (* disklist *)
  c_info : list N }.               (* infoarr: position -> snapraid_info, 0 beyond the end *)

(* what the loader consults besides the stream *)
Record conf := {
  k_no_conf : bool;                (* state->no_conf (snapraid -C) *)
  k_block_size : N;                (* state->block_size before the load *)
  k_hash_size : N;                 (* BLOCK_HASH_SIZE before the load *)
  k_disks : list (list N * list N);   (* configured data disks: name, uuid *)
  k_parity : list cparity;         (* configured levels: split paths of the configuration, uuid "", size INVALID *)
  k_clear_past_hash : bool;        (* state->clear_past_hash (set by sync) *)
  k_force_nocopy : bool;           (* opt.force_nocopy *)
  k_force_realloc : bool;          (* opt.force_realloc *)
  k_skip_content_check : bool;     (* opt.skip_content_check *)
  k_match_first_uuid : bool }.     (* opt.match_first_uuid (test option) *)

(* ------------------------------------------------------------------------------------------------ *)
(** * Small helpers *)

Definition u32 (x : N) : N := x mod 4294967296.

Fixpoint bytes_eqb (a b : list N) : bool :=
  match a, b with
  | [], [] => true
  | x :: a', y :: b' => (x =? y) && bytes_eqb a' b'
  | _, _ => false
  end.

(* the C string held by a buffer: up to the first NUL *)
Fixpoint cstr (l : list N) : list N :=
  match l with [] => [] | c :: t => if c =? 0 then [] else c :: cstr t end.

Definition is_nil {A} (l : list A) : bool := match l with [] => true | _ => false end.

Fixpoint upd {A} (n : nat) (f : A -> A) (l : list A) : list A :=
  match l, n with
  | [], _ => []
  | x :: t, O => f x :: t
  | x :: t, S k => x :: upd k f t
  end.

Fixpoint find_idx {A} (p : A -> bool) (l : list A) : option nat :=
  match l with
  | [] => None
  | x :: t => if p x then Some O else match find_idx p t with Some k => Some (S k) | None => None end
  end.

Definition nrepeat {A} (x : A) (n : N) : list A := repeat x (N.to_nat n).
Definition nlen {A} (l : list A) : N := N.of_nat (length l).

(* positions start, start+1, ... (n of them) *)
Fixpoint positions (start : N) (n : nat) : list N :=
  match n with O => [] | S k => start :: positions (start + 1) k end.

(* sgetbs of the current tree:  if (len >= (uint32_t)size) return -1;  str[len] = 0;  sread(f, str, len) *)
Definition getstr (size : N) : reader (list N) :=
  rbind sgetb32 (fun len => if u32 size <=? len then rfail else take len).
(* ... and the C string the program sees in the buffer *)
Definition getcstr (size : N) : reader (list N) := rbind (getstr size) (fun s => rret (cstr s)).

(* n hashes of hs bytes.  Every step consumes hs >= 1 bytes: fuel = S (length stream) is never exhausted. *)
Fixpoint read_hashes (fuel : nat) (hs n : N) (l : list N) : result (list (list N) * list N) :=
  if n =? 0 then Ok ([], l)
  else match fuel with
       | O => Eof
       | S f => match take hs l with
                | Ok (h, r) => match read_hashes f hs (n - 1) r with
                               | Ok (hl, r') => Ok (h :: hl, r')
                               | Eof => Eof
                               | Bad => Bad
                               end
                | Eof => Eof
                | Bad => Bad
                end
       end.
Definition get_hashes (hs n : N) : reader (list (list N)) := fun l => read_hashes (S (length l)) hs n l.

(* ---- snapraid_info (elem.h): uint32_t, time in the bits above INFO_MASK = 7 ---- *)
Definition b2n (b : bool) : N := if b then 1 else 0.
(* info_make(last_access, error, rehash, justsynced): (last_access & ~7) truncated to 32 bits, then the flags *)
Definition info_make (t : N) (bad rehash justsynced : bool) : N :=
  (u32 t / 8) * 8 + b2n bad + 2 * b2n rehash + 4 * b2n justsynced.
Definition info_time (i : N) : N := (i / 8) * 8.
Definition info_bad (i : N) : bool := N.testbit i 0.
Definition info_rehash (i : N) : bool := N.testbit i 1.
Definition info_justsynced (i : N) : bool := N.testbit i 2.

(* file_alloc: file->blockmax = (size + block_size - 1) / block_size with size a signed 64 bit value and the
   result stored in a uint32_t *)
Definition s64 (x : N) : Z :=
  let z := Z.of_N (x mod 18446744073709551616) in
  if (z <? 9223372036854775808)%Z then z else (z - 18446744073709551616)%Z.
Definition file_blockmax (bs size : N) : N :=
  Z.to_N ((Z.quot (s64 (size + bs - 1)) (Z.of_N bs)) mod 4294967296)%Z.

(* ---- looking into the state ---- *)
Definition disk_blocks (d : cdisk) : list cblock := concat (map cf_blocks (cd_files d)).
Definition all_blocks (s : cstate) : list cblock := concat (map disk_blocks (c_disks s)).

(* block_state_get(fs_par2block_find(disk, pos)) *)
Definition state_at (d : cdisk) (pos : N) : N :=
  match find (fun b => cb_pos b =? pos) (disk_blocks d) with
  | Some b => cb_state b
  | None => if existsb (fun ph => fst ph =? pos) (cd_deleted d) then DELETED else 0
  end.
Definition has_file (st : N) : bool := (st =? BLK) || (st =? CHG) || (st =? REP).
(* fs_position_is_required / fs_info_is_required *)
Definition position_required (s : cstate) (pos : N) : bool :=
  existsb (fun d => has_file (state_at d pos)) (c_disks s).
(* the loop over a run of the 'i' record finds a position whose info is required *)
Definition info_required_in (s : cstate) (pos count : N) : bool :=
  existsb (fun b => (cb_state b =? BLK) && (pos <=? cb_pos b) && (cb_pos b <? pos + count)) (all_blocks s).

(* parity_allocated_size: one past the highest position holding a block of a file *)
Definition alloc_size (s : cstate) : N :=
  fold_left (fun m b => N.max m (cb_pos b + 1)) (all_blocks s) 0.

Definition deleted_at (d : cdisk) (pos : N) : option (list N) :=
  match find (fun ph => fst ph =? pos) (cd_deleted d) with Some ph => Some (snd ph) | None => None end.

(* fs_check after the load: no parity position of a disk used twice *)
Fixpoint nodupb (l : list N) : bool :=
  match l with [] => true | x :: t => negb (existsb (N.eqb x) t) && nodupb t end.
Definition pos_unique (d : cdisk) : bool :=
  nodupb (map cb_pos (disk_blocks d) ++ map fst (cd_deleted d)).

(* fs_is_empty(disk, blockmax) *)
Definition disk_empty (d : cdisk) (bm : N) : bool :=
  is_nil (cd_files d) && is_nil (cd_links d) && is_nil (cd_dirs d)
  && negb (existsb (fun ph => fst ph <? bm) (cd_deleted d)).

(* ---- record update ---- *)
Definition set_disks (s : cstate) (v : list cdisk) : cstate :=
  {| c_block_size := c_block_size s; c_hash_size := c_hash_size s; c_hash := c_hash s; c_hashseed := c_hashseed s;
     c_prevhash := c_prevhash s; c_prevhashseed := c_prevhashseed s; c_maps := c_maps s; c_parity := c_parity s;
     c_disks := v; c_info := c_info s |}.
Definition set_maps (s : cstate) (v : list cmap) : cstate :=
  {| c_block_size := c_block_size s; c_hash_size := c_hash_size s; c_hash := c_hash s; c_hashseed := c_hashseed s;
     c_prevhash := c_prevhash s; c_prevhashseed := c_prevhashseed s; c_maps := v; c_parity := c_parity s;
     c_disks := c_disks s; c_info := c_info s |}.
Definition set_parity (s : cstate) (v : list cparity) : cstate :=
  {| c_block_size := c_block_size s; c_hash_size := c_hash_size s; c_hash := c_hash s; c_hashseed := c_hashseed s;
     c_prevhash := c_prevhash s; c_prevhashseed := c_prevhashseed s; c_maps := c_maps s; c_parity := v;
     c_disks := c_disks s; c_info := c_info s |}.
Definition set_info (s : cstate) (v : list N) : cstate :=
  {| c_block_size := c_block_size s; c_hash_size := c_hash_size s; c_hash := c_hash s; c_hashseed := c_hashseed s;
     c_prevhash := c_prevhash s; c_prevhashseed := c_prevhashseed s; c_maps := c_maps s; c_parity := c_parity s;
     c_disks := c_disks s; c_info := v |}.
Definition set_hash (s : cstate) (h : N) (seed : list N) : cstate :=
  {| c_block_size := c_block_size s; c_hash_size := c_hash_size s; c_hash := h; c_hashseed := seed;
     c_prevhash := c_prevhash s; c_prevhashseed := c_prevhashseed s; c_maps := c_maps s; c_parity := c_parity s;
     c_disks := c_disks s; c_info := c_info s |}.
Definition set_prevhash (s : cstate) (h : N) (seed : list N) : cstate :=
  {| c_block_size := c_block_size s; c_hash_size := c_hash_size s; c_hash := c_hash s; c_hashseed := c_hashseed s;
     c_prevhash := h; c_prevhashseed := seed; c_maps := c_maps s; c_parity := c_parity s;
     c_disks := c_disks s; c_info := c_info s |}.
Definition set_block_size (s : cstate) (v : N) : cstate :=
  {| c_block_size := v; c_hash_size := c_hash_size s; c_hash := c_hash s; c_hashseed := c_hashseed s;
     c_prevhash := c_prevhash s; c_prevhashseed := c_prevhashseed s; c_maps := c_maps s; c_parity := c_parity s;
     c_disks := c_disks s; c_info := c_info s |}.
Definition set_hash_size (s : cstate) (v : N) : cstate :=
  {| c_block_size := c_block_size s; c_hash_size := v; c_hash := c_hash s; c_hashseed := c_hashseed s;
     c_prevhash := c_prevhash s; c_prevhashseed := c_prevhashseed s; c_maps := c_maps s; c_parity := c_parity s;
     c_disks := c_disks s; c_info := c_info s |}.

Definition add_file (f : cfile) (d : cdisk) : cdisk :=
  {| cd_name := cd_name d; cd_files := cd_files d ++ [f]; cd_links := cd_links d; cd_dirs := cd_dirs d;
     cd_deleted := cd_deleted d |}.
Definition add_link (x : clink) (d : cdisk) : cdisk :=
  {| cd_name := cd_name d; cd_files := cd_files d; cd_links := cd_links d ++ [x]; cd_dirs := cd_dirs d;
     cd_deleted := cd_deleted d |}.
Definition add_dir (x : list N) (d : cdisk) : cdisk :=
  {| cd_name := cd_name d; cd_files := cd_files d; cd_links := cd_links d; cd_dirs := cd_dirs d ++ [x];
     cd_deleted := cd_deleted d |}.
Definition add_deleted (x : list (N * list N)) (d : cdisk) : cdisk :=
  {| cd_name := cd_name d; cd_files := cd_files d; cd_links := cd_links d; cd_dirs := cd_dirs d;
     cd_deleted := cd_deleted d ++ x |}.
Definition set_deleted (x : list (N * list N)) (d : cdisk) : cdisk :=
  {| cd_name := cd_name d; cd_files := cd_files d; cd_links := cd_links d; cd_dirs := cd_dirs d;
     cd_deleted := x |}.
Definition empty_disk (name : list N) : cdisk :=
  {| cd_name := name; cd_files := []; cd_links := []; cd_dirs := []; cd_deleted := [] |}.

(* state_init values of an unused split / level *)
Definition dflt_split : csplit := {| cs_path := []; cs_uuid := []; cs_size := SIZE_INVALID |}.
Definition dflt_parity : cparity := {| cp_total := 0; cp_free := 0; cp_splits := [] |}.
Definition zeros16 : list N := repeat 0 16.

(* ================================================================================================ *)
(** * The loader: state_read_content *)

(* locals of state_read_content next to the state under construction *)
Record dstate := { d_st : cstate;
                   d_blockmax : N;          (* blockmax ('x' record) *)
                   d_mapping : list nat;    (* disk_mapping: index in c_disks of the disk of each 'M'/'m' record *)
                   d_crc : bool }.          (* crc_checked *)
Definition with_st (d : dstate) (s : cstate) : dstate :=
  {| d_st := s; d_blockmax := d_blockmax d; d_mapping := d_mapping d; d_crc := d_crc d |}.

(* sgetb32(&mapping); if (ret < 0 || mapping >= mapping_max) error; disk = disk_mapping[mapping] *)
Definition get_mapping (d : dstate) : reader nat :=
  rbind sgetb32 (fun m => if nlen (d_mapping d) <=? m then rfail else rret (nth (N.to_nat m) (d_mapping d) O)).

(* the three rewrites applied to a block that was just read ('f' record) *)
Definition fix_block (k : conf) (hs st : N) (h : list N) : N * list N :=
  let invalid := nrepeat 0 hs in
  let h1 := if k_clear_past_hash k && ((st =? CHG) || (st =? DELETED)) then invalid else h in
  let sh2 := if k_clear_past_hash k && k_force_nocopy k && (st =? REP) then (CHG, invalid) else (st, h1) in
  let st3 := if k_force_realloc k && (fst sh2 =? BLK) then REP else fst sh2 in
  (st3, snd sh2).

Definition block_state_of (c : N) : option N :=
  if c =? 98 then Some BLK            (* 'b' *)
  else if c =? 110 then Some CHG      (* 'n' deprecated NEW blocks are converted to CHG ones *)
  else if c =? 103 then Some CHG      (* 'g' *)
  else if c =? 112 then Some REP      (* 'p' *)
  else None.

Fixpoint mk_blocks (k : conf) (hs st pos : N) (hl : list (list N)) : list cblock :=
  match hl with
  | [] => []
  | h :: t => let sh := fix_block k hs st h in
              {| cb_state := fst sh; cb_pos := pos; cb_hash := snd sh |} :: mk_blocks k hs st (pos + 1) t
  end.

(* while (v_idx < file->blockmax) { c = sgetc; v_pos; v_count; two range tests; while (v_count) {...} }
   Every iteration consumes at least three bytes: fuel = S (length stream) is never exhausted. *)
Fixpoint read_runs (fuel : nat) (k : conf) (hs bm fbm v_idx : N) (acc : list cblock) : reader (list cblock) :=
  if fbm <=? v_idx then rret acc
  else match fuel with
       | O => fun _ => Eof
       | S f =>
         rbind getc (fun c => rbind sgetb32 (fun v_pos => rbind sgetb32 (fun v_count =>
           if fbm <? u32 (v_idx + v_count) then rfail
           else if bm <? u32 (v_pos + v_count) then rfail
           else if v_count =? 0 then read_runs f k hs bm fbm v_idx acc
           else match block_state_of c with
                | None => rfail                                   (* "Invalid block type!" *)
                | Some st =>
                  if (4294967296 <=? v_idx + v_count) || (4294967296 <=? v_pos + v_count) then rfail   (* WRAP *)
                  else rbind (if c =? 110 then rret (nrepeat (nrepeat 255 hs) v_count)   (* hash_zero_set *)
                              else get_hashes hs v_count)
                         (fun hl => read_runs f k hs bm fbm (v_idx + v_count) (acc ++ mk_blocks k hs st v_pos hl))
                end)))
       end.

Definition on_disk (s : cstate) (di : nat) (f : cdisk -> cdisk) : cstate := set_disks s (upd di f (c_disks s)).

(* 'f' *)
Definition rec_file (k : conf) (d : dstate) : reader dstate :=
  let s := d_st d in
  rbind (get_mapping d) (fun di =>
  rbind sgetb64 (fun v_size =>
  if c_block_size s =? 0 then rfail
  else if d_blockmax d <? v_size / c_block_size s then rfail          (* "File size too big!" *)
  else
  rbind sgetb64 (fun msec => rbind sgetb32 (fun nsec0 => rbind sgetb64 (fun inode =>
  rbind (getcstr PATH_MAX) (fun sub =>
  if is_nil sub then rfail                                            (* "Null file!" *)
  else
  let nsec := if nsec0 =? 0 then NSEC_INVALID else nsec0 - 1 in
  let fbm := file_blockmax (c_block_size s) v_size in
  rbind (fun l => read_runs (S (length l)) k (c_hash_size s) (d_blockmax d) fbm 0 [] l) (fun blocks =>
  rret (with_st d (on_disk s di (add_file
    {| cf_size := v_size; cf_msec := msec; cf_mnsec := nsec; cf_inode := inode; cf_sub := sub;
       cf_blocks := blocks |})))))))))).

(* 'i': while (v_pos < blockmax) { v_count; range test; flag; [t]; while (v_count) info_set + "Missing info" } *)
Fixpoint read_info (fuel : nat) (s : cstate) (bm oldest v_pos : N) (acc : list N) : reader (list N) :=
  if bm <=? v_pos then rret acc
  else match fuel with
       | O => fun _ => Eof
       | S f =>
         rbind sgetb32 (fun v_count =>
         if bm <? u32 (v_pos + v_count) then rfail
         else
         rbind sgetb32 (fun flag =>
         rbind (if N.testbit flag 0
                then rbind sgetb32 (fun t =>
                       if N.testbit flag 2 && (c_prevhash s =? H_UNDEF) then rfail   (* "Missing previous checksum!" *)
                       else rret (info_make (t + oldest) (N.testbit flag 1) (N.testbit flag 2) (N.testbit flag 3)))
                else rret 0)
         (fun info =>
         if 4294967296 <=? v_pos + v_count then rfail                                 (* WRAP *)
         else if (info =? 0) && info_required_in s v_pos v_count then rfail           (* "Missing info!" *)
         else read_info f s bm oldest (v_pos + v_count) (acc ++ nrepeat info v_count))))
       end.

Definition rec_info (d : dstate) : reader dstate :=
  let s := d_st d in
  rbind sgetb32 (fun oldest =>
  rbind (fun l => read_info (S (length l)) s (d_blockmax d) oldest 0 [] l) (fun inf =>
  (* info_set grows the array; positions beyond blockmax keep what they had *)
  rret (with_st d (set_info s (inf ++ skipn (length inf) (c_info s)))))).

Fixpoint mk_deleted (k : conf) (hs pos : N) (hl : list (list N)) : list (N * list N) :=
  match hl with
  | [] => []
  | h :: t => (pos, if k_clear_past_hash k then nrepeat 0 hs else h) :: mk_deleted k hs (pos + 1) t
  end.

(* 'h': while (v_pos < blockmax) { v_count; range test; c = sgetc; 'o': v_count hashes / 'O': v_pos += v_count } *)
Fixpoint read_holes (fuel : nat) (k : conf) (hs bs bm v_pos : N) (acc : list (N * list N)) : reader (list (N * list N)) :=
  if bm <=? v_pos then rret acc
  else match fuel with
       | O => fun _ => Eof
       | S f =>
         rbind sgetb32 (fun v_count =>
         if bm <? u32 (v_pos + v_count) then rfail
         else
         rbind getc (fun c =>
         if c =? 111 then                                              (* 'o' *)
           if bs =? 0 then rfail                                       (* file_alloc divides by block_size *)
           else if 4294967296 <=? v_pos + v_count then rfail           (* WRAP *)
           else rbind (get_hashes hs v_count)
                  (fun hl => read_holes f k hs bs bm (v_pos + v_count) (acc ++ mk_deleted k hs v_pos hl))
         else if c =? 79 then                                          (* 'O' *)
           read_holes f k hs bs bm (u32 (v_pos + v_count)) acc
         else rfail))                                                  (* "Invalid hole type!" *)
       end.

Definition rec_hole (k : conf) (d : dstate) : reader dstate :=
  let s := d_st d in
  rbind (get_mapping d) (fun di =>
  rbind (fun l => read_holes (S (length l)) k (c_hash_size s) (c_block_size s) (d_blockmax d) 0 [] l) (fun del =>
  rret (with_st d (on_disk s di (add_deleted del))))).

(* 's' / 'a' *)
Definition rec_link (hard : bool) (d : dstate) : reader dstate :=
  let s := d_st d in
  rbind (get_mapping d) (fun di =>
  rbind (getcstr PATH_MAX) (fun sub =>
  if is_nil sub then rfail
  else
  rbind (getcstr PATH_MAX) (fun linkto =>
  if hard && is_nil linkto then rfail                                   (* "Empty hardlink" *)
  else rret (with_st d (on_disk s di (add_link {| cl_hard := hard; cl_sub := sub; cl_to := linkto |})))))).

(* 'r' *)
Definition rec_dir (d : dstate) : reader dstate :=
  let s := d_st d in
  rbind (get_mapping d) (fun di =>
  rbind (getcstr PATH_MAX) (fun sub =>
  if is_nil sub then rfail
  else rret (with_st d (on_disk s di (add_dir sub))))).

Definition hash_of (c : N) : option N :=
  if c =? 117 then Some H_MURMUR3 else if c =? 107 then Some H_SPOOKY2 else if c =? 109 then Some H_METRO else None.

(* 'c' / 'C' *)
Definition rec_hash (prev : bool) (d : dstate) : reader dstate :=
  let s := d_st d in
  rbind getc (fun c =>
  match hash_of c with
  | None => rfail
  | Some h => rbind (take HASH_MAX) (fun seed =>
              rret (with_st d (if prev then set_prevhash s h seed else set_hash s h seed)))
  end).

(* 'z' *)
Definition rec_blocksize (k : conf) (d : dstate) : reader dstate :=
  let s := d_st d in
  rbind sgetb32 (fun bs =>
  if bs =? 0 then rfail
  else let s' := if k_no_conf k then set_block_size s bs else s in
       if bs =? c_block_size s' then rret (with_st d s') else rfail).

(* 'y' *)
Definition rec_hashsize (k : conf) (d : dstate) : reader dstate :=
  let s := d_st d in
  rbind sgetb32 (fun hs =>
  if (hs <? 2) || (HASH_MAX <? hs) then rfail
  else let s' := if k_no_conf k then set_hash_size s hs else s in
       if hs =? c_hash_size s' then rret (with_st d s') else rfail).

(* 'x' *)
Definition rec_blockmax (d : dstate) : reader dstate :=
  rbind sgetb32 (fun bm =>
  rret {| d_st := d_st d; d_blockmax := bm; d_mapping := d_mapping d; d_crc := d_crc d |}).

(* find_disk_by_name, then find_disk_by_uuid.  Returns the (possibly extended) disk list and the index. *)
Definition find_disk (k : conf) (s : cstate) (name uuid : list N) : option (list cdisk * nat) :=
  match find_idx (fun d => bytes_eqb (cd_name d) name) (c_disks s) with
  | Some i => Some (c_disks s, i)
  | None =>
    if k_no_conf k then Some (c_disks s ++ [empty_disk name], length (c_disks s))
    else if k_match_first_uuid k then
      match c_disks s with [] => None (* state->disklist->data of an empty list *) | _ => Some (c_disks s, O) end
    else if is_nil uuid then None
    else match find_idx (fun nu => bytes_eqb (snd nu) uuid) (k_disks k) with
         | None => None
         | Some i =>
           (* never match a duplicate UUID *)
           if existsb (fun nu => bytes_eqb (snd nu) uuid) (skipn (S i) (k_disks k)) then None
           else Some (c_disks s, i)
         end
  end.

(* 'm' / 'M' *)
Definition rec_map (k : conf) (c : N) (d : dstate) : reader dstate :=
  let s := d_st d in
  rbind (getcstr PATH_MAX) (fun name =>
  rbind sgetb32 (fun v_pos =>
  rbind (if c =? 77 then rbind sgetb32 (fun t => rbind sgetb32 (fun f => rret (t, f))) else rret (0, 0)) (fun tf =>
  rbind (getcstr UUID_MAX) (fun uuid =>
  match find_disk k s name uuid with
  | None => rfail                                    (* "Disk ... not present in the configuration file!" *)
  | Some (disks, di) =>
    let m := {| cm_name := cd_name (nth di disks (empty_disk [])); cm_pos := v_pos; cm_total := fst tf;
                cm_free := snd tf; cm_uuid := uuid |} in
    rret {| d_st := set_maps (set_disks s disks) (c_maps s ++ [m]); d_blockmax := d_blockmax d;
            d_mapping := d_mapping d ++ [di]; d_crc := d_crc d |}
  end)))).

(* level = v_level + 1 when there is no configuration and the level is new *)
Definition grow_levels (k : conf) (lev : N) (pl : list cparity) : list cparity :=
  if k_no_conf k && (nlen pl <=? lev) then pl ++ repeat dflt_parity (N.to_nat lev + 1 - length pl) else pl.
Definition grow_splits (n : nat) (sl : list csplit) : list csplit := sl ++ repeat dflt_split (n - length sl).

Definition set_split_uuid (u : list N) (x : csplit) : csplit :=
  {| cs_path := cs_path x; cs_uuid := u; cs_size := cs_size x |}.

(* 'P' *)
Definition rec_parity_P (k : conf) (d : dstate) : reader dstate :=
  let s := d_st d in
  rbind sgetb32 (fun lev => rbind sgetb32 (fun total => rbind sgetb32 (fun free =>
  rbind (getcstr UUID_MAX) (fun uuid =>
  if LEV_MAX <=? lev then rfail
  else
  let pl := grow_levels k lev (c_parity s) in
  let pl' := if lev <? nlen pl
             then upd (N.to_nat lev) (fun p => {| cp_total := total; cp_free := free;
                        cp_splits := upd 0 (set_split_uuid uuid) (grow_splits 1 (cp_splits p)) |}) pl
             else pl in
  rret (with_st d (set_parity s pl')))))).

(* for (s = 0; s < v_split_mac; ++s) { path; uuid; size; ... }  -- at least three bytes per iteration *)
Fixpoint read_splits (fuel : nat) (k : conf) (used : bool) (mac i : N) (acc : list csplit) : reader (list csplit) :=
  if mac <=? i then rret acc
  else match fuel with
       | O => fun _ => Eof
       | S f =>
         rbind (getcstr PATH_MAX) (fun path => rbind (getcstr UUID_MAX) (fun uuid => rbind sgetb64 (fun size =>
         if used then
           if nlen acc <=? i then
             if negb (size =? 0) then rfail                        (* "Parity ... misses used file" *)
             else read_splits f k used mac (i + 1) acc             (* dropped *)
           else read_splits f k used mac (i + 1)
                  (upd (N.to_nat i) (fun x => {| cs_path := if k_no_conf k then path else cs_path x;
                                                 cs_uuid := uuid; cs_size := size |}) acc)
         else read_splits f k used mac (i + 1) acc)))
       end.

(* 'Q' *)
Definition rec_parity_Q (k : conf) (d : dstate) : reader dstate :=
  let s := d_st d in
  rbind sgetb32 (fun lev => rbind sgetb32 (fun total => rbind sgetb32 (fun free => rbind sgetb32 (fun mac =>
  if LEV_MAX <=? lev then rfail
  else if k_no_conf k && (SPLIT_MAX <? mac) then rfail
  else
  let pl := grow_levels k lev (c_parity s) in
  let used := lev <? nlen pl in
  let p := nth (N.to_nat lev) pl dflt_parity in
  let splits0 := if k_no_conf k then grow_splits (N.to_nat mac) (cp_splits p) else cp_splits p in
  rbind (fun l => read_splits (S (length l)) k used mac 0 splits0 l) (fun splits =>
  let pl' := if used then upd (N.to_nat lev) (fun _ => {| cp_total := total; cp_free := free; cp_splits := splits |}) pl
             else pl in
  rret (with_st d (set_parity s pl'))))))).

(* scrc(f) when `rest` is what remains of `all`: the CRC of everything consumed so far *)
Definition crc_consumed (all rest : list N) : N := crc32c_spec 0 (firstn (length all - length rest) all).

(* 'N': the bytes consumed so far include the 'N' itself *)
Definition rec_crc (all : list N) (d : dstate) : reader dstate := fun l =>
  match sgetble32 l with
  | Ok (stored, rest) =>
    if stored =? u32 (crc_consumed all l)
    then Ok ({| d_st := d_st d; d_blockmax := d_blockmax d; d_mapping := d_mapping d; d_crc := true |}, rest)
    else Bad                                          (* "CRC mismatch" *)
  | Eof => Eof
  | Bad => Bad
  end.

(* one record, the command byte c already consumed *)
Definition record (k : conf) (all : list N) (d : dstate) (c : N) : reader dstate :=
  if c =? 102 then rec_file k d
  else if c =? 105 then rec_info d
  else if c =? 104 then rec_hole k d
  else if c =? 115 then rec_link false d
  else if c =? 97 then rec_link true d
  else if c =? 114 then rec_dir d
  else if c =? 99 then rec_hash false d
  else if c =? 67 then rec_hash true d
  else if c =? 122 then rec_blocksize k d
  else if c =? 121 then rec_hashsize k d
  else if c =? 120 then rec_blockmax d
  else if (c =? 109) || (c =? 77) then rec_map k c d
  else if c =? 80 then rec_parity_P k d
  else if c =? 81 then rec_parity_Q k d
  else if c =? 78 then rec_crc all d
  else rfail.                                          (* "Invalid command" *)

(* while (1) { c = sgetc(f); if (c == EOF) break; if (crc_checked) exit; ... }
   Every record consumes its command byte: fuel = length stream is never exhausted. *)
Fixpoint records (fuel : nat) (k : conf) (all : list N) (d : dstate) (l : list N) : result dstate :=
  match l with
  | [] => Ok d
  | c :: t =>
    if d_crc d then Bad                               (* "Unexpected data after the CRC" *)
    else match fuel with
         | O => Bad
         | S f => match record k all d c t with
                  | Ok (d', rest) => records f k all d' rest
                  | Eof => Eof
                  | Bad => Bad
                  end
         end
  end.

Definition header (v : N) : list N := [83; 78; 65; 80; 67; 78; 84; 48 + v; 10; 3; 0; 0].   (* "SNAPCNT<v>\n\3\0\0" *)

(* the state before the load: configuration values, state_read's defaults for the hashes *)
Definition init_state (k : conf) : cstate :=
  {| c_block_size := k_block_size k; c_hash_size := k_hash_size k;
     c_hash := H_UNDEF; c_hashseed := zeros16;
     c_prevhash := H_UNDEF; c_prevhashseed := zeros16;      (* prevhashseed is left uninitialised by the C *)
     c_maps := []; c_parity := k_parity k;
     c_disks := map (fun nu => empty_disk (fst nu)) (k_disks k); c_info := [] |}.

(* state_content_check: any two maps differ in name and in position *)
Fixpoint maps_distinct (l : list cmap) : bool :=
  match l with
  | [] => true
  | m :: t => negb (existsb (fun o => bytes_eqb (cm_name m) (cm_name o) || (cm_pos m =? cm_pos o)) t) && maps_distinct t
  end.

Definition decode (k : conf) (all : list N) : result cstate :=
  match take 12 all with
  | Ok (h, l) =>
    if bytes_eqb h (header 1) || bytes_eqb h (header 2) || bytes_eqb h (header 3) then
      match records (length l) k all {| d_st := init_state k; d_blockmax := 0; d_mapping := []; d_crc := false |} l with
      | Ok d =>
        let s := d_st d in
        if negb (d_crc d) then Eof                     (* "Reached the end ... without finding the expected CRC" *)
        else if negb (forallb pos_unique (c_disks s)) then Bad                       (* state_fscheck *)
        else if negb (d_blockmax d =? alloc_size s) && negb (k_skip_content_check k) then Bad   (* "Parity size" *)
        else if c_hash s =? H_UNDEF then Bad           (* state_read: "The checksum to use is not specified." *)
        else if negb (maps_distinct (c_maps s)) then Bad   (* state_content_check *)
        else Ok s
      | Eof => Eof
      | Bad => Bad
      end
    else Bad                                           (* "Invalid header!" / newer version *)
  | Eof => Eof
  | Bad => Bad
  end.

(* ================================================================================================ *)
(** * The writer: state_write_content + state_write_thread *)

(* Maximal runs as the three loops of the writer find them:
     end = begin + 1; while (end < max && <element at end continues the run started at begin>) ++end;
   `rel first off x` = the element x, off places after the first one of the run, continues it. *)
Fixpoint group_aux {A} (rel : A -> N -> A -> bool) (first : A) (off : N) (l : list A) : list A * list (list A) :=
  match l with
  | [] => ([], [])
  | x :: t => if rel first off x
              then let cg := group_aux rel first (off + 1) t in (x :: fst cg, snd cg)    (* x continues the current run *)
              else let cg := group_aux rel x 1 t in ([], (x :: fst cg) :: snd cg)        (* x starts the next run *)
  end.
Definition groups {A} (rel : A -> N -> A -> bool) (l : list A) : list (list A) :=
  match l with [] => [] | x :: t => let cg := group_aux rel x 1 t in (x :: fst cg) :: snd cg end.

(* ---- normalisation before the save (state_write_content) ---- *)

(* for (idx < blockmax) if (!fs_position_is_required) { info_set(idx, 0); fs_position_clear_deleted(idx); } *)
Fixpoint prep_info (s : cstate) (pos : N) (n : nat) (info : list N) : list N :=
  match n with
  | O => []
  | S m => let i := hd 0 info in
           (if i =? 0 then 0 else if position_required s pos then i else 0) :: prep_info s (pos + 1) m (tl info)
  end.
Definition prep_disk (s : cstate) (bm : N) (d : cdisk) : cdisk :=
  set_deleted (filter (fun ph => negb (fst ph <? bm) || position_required s (fst ph)) (cd_deleted d)) d.

(* if (!info_oldest || info_time < info_oldest) info_oldest = info_time *)
Definition oldest_step (o i : N) : N :=
  if i =? 0 then o else let t := info_time i in if (o =? 0) || (t <? o) then t else o.

(* disk->mapping_idx after the "map disks" loop, for the disks in disklist order *)
Fixpoint assign_idx (disks : list cdisk) (bm : N) (maps : list cmap) (cnt : N) (idx : list (option N)) : list (option N) :=
  match maps with
  | [] => idx
  | m :: t =>
    match find_idx (fun d => bytes_eqb (cd_name d) (cm_name m)) disks with
    | None => assign_idx disks bm t cnt idx                       (* the C aborts: "Unmapped disk" *)
    | Some di =>
      if disk_empty (nth di disks (empty_disk [])) bm
      then assign_idx disks bm t cnt (upd di (fun _ => None) idx)
      else assign_idx disks bm t (cnt + 1) (upd di (fun _ => Some cnt) idx)
    end
  end.

(* everything state_write_thread receives *)
Record prepared := { p_st : cstate;           (* the state after the clean-up *)
                     p_blockmax : N;
                     p_oldest : N;
                     p_rehash : bool;
                     p_idx : list (option N) }.

Definition prepare (s : cstate) : prepared :=
  let bm := alloc_size s in
  let info := prep_info s 0 (N.to_nat bm) (c_info s) in
  let disks := map (prep_disk s bm) (c_disks s) in
  {| p_st := set_info (set_disks s disks) (info ++ skipn (length info) (c_info s));
     p_blockmax := bm;
     p_oldest := fold_left oldest_step info 0;
     p_rehash := existsb info_rehash info;
     p_idx := assign_idx disks bm (c_maps s) 0 (map (fun _ => None) disks) |}.

(* ---- state_write_thread ---- *)
Definition version (s : cstate) : N :=
  if existsb (fun p => 1 <? nlen (cp_splits p)) (c_parity s) || negb (c_hash_size s =? 16) then 3 else 2.

Definition hash_char (h : N) : list N :=
  if h =? H_MURMUR3 then [117] else if h =? H_SPOOKY2 then [107] else if h =? H_METRO then [109]
  else [].                                             (* the C gives up: "Unexpected hash" *)

Definition enc_map (disks : list cdisk) (idx : list (option N)) (m : cmap) : list N :=
  match find_idx (fun d => bytes_eqb (cd_name d) (cm_name m)) disks with
  | None => []
  | Some di => match nth di idx None with
               | None => []
               | Some _ => [77] ++ sputbs (cm_name m) ++ sputb32 (cm_pos m) ++ sputb32 (cm_total m)
                           ++ sputb32 (cm_free m) ++ sputbs (cm_uuid m)
               end
  end.

Definition enc_split (x : csplit) : list N := sputbs (cs_path x) ++ sputbs (cs_uuid x) ++ sputb64 (cs_size x).
Definition enc_parity (v : N) (l : N) (p : cparity) : list N :=
  if v =? 3
  then [81] ++ sputb32 l ++ sputb32 (cp_total p) ++ sputb32 (cp_free p) ++ sputb32 (nlen (cp_splits p))
       ++ concat (map enc_split (cp_splits p))
  else [80] ++ sputb32 l ++ sputb32 (cp_total p) ++ sputb32 (cp_free p)
       ++ sputbs (cs_uuid (hd dflt_split (cp_splits p))).
Fixpoint enc_parities (v : N) (l : N) (pl : list cparity) : list N :=
  match pl with [] => [] | p :: t => enc_parity v l p ++ enc_parities v (l + 1) t end.

(* a run of blocks of a file: same state, consecutive parity positions *)
Definition block_rel (first : cblock) (off : N) (x : cblock) : bool :=
  (cb_state first =? cb_state x) && (u32 (cb_pos first + off) =? cb_pos x).
Definition state_char (st : N) : list N :=
  if st =? BLK then [98] else if st =? CHG then [103] else if st =? REP then [112]
  else [].                                             (* the C gives up: "Internal inconsistency: State for block" *)
Definition enc_run (g : list cblock) : list N :=
  match g with
  | [] => []
  | b :: _ => state_char (cb_state b) ++ sputb32 (cb_pos b) ++ sputb32 (nlen g) ++ concat (map cb_hash g)
  end.

Definition enc_file (idx : N) (f : cfile) : list N :=
  [102] ++ sputb32 idx ++ sputb64 (cf_size f) ++ sputb64 (cf_msec f)
  ++ sputb32 (if cf_mnsec f =? NSEC_INVALID then 0 else cf_mnsec f + 1)
  ++ sputb64 (cf_inode f) ++ sputbs (cf_sub f)
  ++ concat (map enc_run (groups block_rel (cf_blocks f))).

Definition enc_link (idx : N) (x : clink) : list N :=
  [if cl_hard x then 97 else 115] ++ sputb32 idx ++ sputbs (cl_sub x) ++ sputbs (cl_to x).
Definition enc_dir (idx : N) (x : list N) : list N := [114] ++ sputb32 idx ++ sputbs x.

(* runs of deleted / not deleted positions *)
Definition hole_rel (first : option (list N)) (off : N) (x : option (list N)) : bool :=
  match first, x with Some _, Some _ => true | None, None => true | _, _ => false end.
Definition enc_hole_run (g : list (option (list N))) : list N :=
  match g with
  | [] => []
  | Some _ :: _ => sputb32 (nlen g) ++ [111] ++ concat (map (fun o => match o with Some h => h | None => [] end) g)
  | None :: _ => sputb32 (nlen g) ++ [79]
  end.
Definition enc_holes (bm : N) (d : cdisk) : list N :=
  concat (map enc_hole_run (groups hole_rel (map (deleted_at d) (positions 0 (N.to_nat bm))))).

Definition enc_disk (bm : N) (d : cdisk) (oi : option N) : list N :=
  match oi with
  | None => []                                         (* if (disk->mapping_idx < 0) continue; *)
  | Some idx =>
    concat (map (enc_file idx) (cd_files d)) ++ concat (map (enc_link idx) (cd_links d))
    ++ concat (map (enc_dir idx) (cd_dirs d)) ++ [104] ++ sputb32 idx ++ enc_holes bm d
  end.
Fixpoint enc_disks (bm : N) (dl : list cdisk) (il : list (option N)) : list N :=
  match dl, il with
  | d :: dt, oi :: it => enc_disk bm d oi ++ enc_disks bm dt it
  | _, _ => []
  end.

(* the time stored for an info: clamped to now, relative to the oldest *)
Definition info_wtime (now oldest i : N) : N :=
  let t := info_time i in
  let t := if now <? t then now else t in
  if t <? oldest then 0 else t - oldest.
Definition info_rel (first : N) (off : N) (x : N) : bool := first =? x.
Definition enc_info_run (now oldest : N) (g : list N) : list N :=
  match g with
  | [] => []
  | i :: _ =>
    sputb32 (nlen g)
    ++ (if i =? 0 then sputb32 0
        else sputb32 (1 + 2 * b2n (info_bad i) + 4 * b2n (info_rehash i) + 8 * b2n (info_justsynced i))
             ++ sputb32 (info_wtime now oldest i))
  end.

Definition write_body (now : N) (p : prepared) : list N :=
  let s := p_st p in
  let v := version s in
  header v
  ++ [122] ++ sputb32 (c_block_size s) ++ [120] ++ sputb32 (p_blockmax p)
  ++ (if v =? 3 then [121] ++ sputb32 (c_hash_size s) else [])
  ++ [99] ++ hash_char (c_hash s) ++ c_hashseed s
  ++ (if negb (c_prevhash s =? H_UNDEF) && p_rehash p then [67] ++ hash_char (c_prevhash s) ++ c_prevhashseed s else [])
  ++ concat (map (enc_map (c_disks s) (p_idx p)) (c_maps s))
  ++ enc_parities v 0 (c_parity s)
  ++ enc_disks (p_blockmax p) (c_disks s) (p_idx p)
  ++ [105] ++ sputb32 (p_oldest p)
  ++ concat (map (enc_info_run now (p_oldest p)) (groups info_rel (firstn (N.to_nat (p_blockmax p)) (c_info s))))
  ++ [78].

(* sputble32(crc): crc is the uint32_t CRC of everything written before *)
Definition add_crc (body : list N) : list N := body ++ sputble32 (crc32c_spec 0 body).

Definition encode (now : N) (s : cstate) : list N := add_crc (write_body now (prepare s)).

(* ================================================================================================ *)
(** * What a save + load does to a state *)

(* the configuration under which a state is loaded again: its own geometry, no option *)
Definition conf_of (s : cstate) : conf :=
  {| k_no_conf := false; k_block_size := c_block_size s; k_hash_size := c_hash_size s;
     k_disks := map (fun d => (cd_name d, [])) (c_disks s);
     k_parity := map (fun p => {| cp_total := 0; cp_free := 0;
                                  cp_splits := map (fun x => {| cs_path := cs_path x; cs_uuid := []; cs_size := SIZE_INVALID |})
                                                   (cp_splits p) |}) (c_parity s);
     k_clear_past_hash := false; k_force_nocopy := false; k_force_realloc := false;
     k_skip_content_check := false; k_match_first_uuid := false |}.

Definition norm_info (now oldest i : N) : N :=
  if i =? 0 then 0
  else info_make (u32 (info_wtime now oldest i) + oldest) (info_bad i) (info_rehash i) (info_justsynced i).

(* a disk without mapping index is not written at all; DELETED blocks beyond blockmax are not written *)
Definition norm_disk (bm : N) (d : cdisk) (oi : option N) : cdisk :=
  match oi with
  | None => empty_disk (cd_name d)
  | Some _ => set_deleted (filter (fun ph => fst ph <? bm) (cd_deleted d)) d
  end.
Fixpoint norm_disks (bm : N) (dl : list cdisk) (il : list (option N)) : list cdisk :=
  match dl, il with
  | d :: dt, oi :: it => norm_disk bm d oi :: norm_disks bm dt it
  | _, _ => []
  end.

Definition map_kept (disks : list cdisk) (idx : list (option N)) (m : cmap) : bool :=
  match find_idx (fun d => bytes_eqb (cd_name d) (cm_name m)) disks with
  | None => false
  | Some di => match nth di idx None with None => false | Some _ => true end
  end.

Definition norm_parity (v : N) (p : cparity) : cparity :=
  if v =? 3 then p
  else {| cp_total := cp_total p; cp_free := cp_free p;
          cp_splits := map (fun x => {| cs_path := cs_path x; cs_uuid := cs_uuid x; cs_size := SIZE_INVALID |}) (cp_splits p) |}.

Definition normalise (now : N) (s : cstate) : cstate :=
  let p := prepare s in
  let s1 := p_st p in
  let keep_prev := negb (c_prevhash s1 =? H_UNDEF) && p_rehash p in
  {| c_block_size := c_block_size s1; c_hash_size := c_hash_size s1;
     c_hash := c_hash s1; c_hashseed := c_hashseed s1;
     c_prevhash := if keep_prev then c_prevhash s1 else H_UNDEF;
     c_prevhashseed := if keep_prev then c_prevhashseed s1 else zeros16;
     c_maps := filter (map_kept (c_disks s1) (p_idx p)) (c_maps s1);
     c_parity := map (norm_parity (version s1)) (c_parity s1);
     c_disks := norm_disks (p_blockmax p) (c_disks s1) (p_idx p);
     c_info := map (norm_info now (p_oldest p)) (firstn (N.to_nat (p_blockmax p)) (c_info s1)) |}.
