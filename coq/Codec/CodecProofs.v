(* Theorems about the content-file codec of Codec/CodecModel.v. *)
From Coq Require Import NArith ZArith List Bool Lia.
From Snap.Codec Require Import Varint CodecModel.
From Snap.Crc Require Import CrcModel.
Import ListNotations.
Local Open Scope N_scope.

(* The writer is a function of the state and of the clock only: state_write_thread receives neither the path of
   the content file it writes nor its index, so every configured copy gets the same bytes.  In the model this
   is the type of `encode`; the statement below is what the harness checks on the real copies. *)
Definition write_copies (now : N) (s : cstate) (paths : list (list N)) : list (list N * list N) :=
  map (fun p => (p, encode now s)) paths.

Lemma copies_identical now s paths p1 p2 b1 b2 :
  In (p1, b1) (write_copies now s paths) -> In (p2, b2) (write_copies now s paths) -> b1 = b2.
Proof.
  unfold write_copies. intros H1 H2.
  apply in_map_iff in H1. apply in_map_iff in H2.
  destruct H1 as [x1 [E1 _]]. destruct H2 as [x2 [E2 _]]. congruence.
Qed.

(* ================================================================================================ *)
(** * Layer 1: primitives *)

Ltac Zify.zify_post_hook ::= Z.to_euclidean_division_equations.

Definition cstring (l : list N) : Prop := Forall (fun b => b <> 0) l.

Lemma cstr_id l : cstring l -> cstr l = l.
Proof.
  induction 1 as [|c t Hc _ IH]; [reflexivity|]. cbn [cstr].
  destruct (N.eqb_spec c 0); [contradiction|]. rewrite IH. reflexivity.
Qed.

Lemma nlen_app {A} (a b : list A) : nlen (a ++ b) = nlen a + nlen b.
Proof. unfold nlen. rewrite app_length. lia. Qed.
Lemma nlen_cons {A} (x : A) l : nlen (x :: l) = 1 + nlen l.
Proof. unfold nlen. cbn [length]. lia. Qed.

Lemma u32_small x : x < 2^32 -> u32 x = x.
Proof. intros H. unfold u32. change 4294967296 with (2^32). apply N.mod_small. exact H. Qed.

(* binding a reader that reads exactly a known prefix *)
Lemma rb_reads {A B} (r : reader A) (f : A -> reader B) l a R : reads r l a -> rbind r f (l ++ R) = f a R.
Proof. intros H. unfold rbind. rewrite H. reflexivity. Qed.

Lemma rb_b32 {B} v (f : N -> reader B) R : v < 2^32 -> rbind sgetb32 f (sputb32 v ++ R) = f v R.
Proof. intros H. apply rb_reads. apply reads_sgetb32. exact H. Qed.
Lemma rb_b64 {B} v (f : N -> reader B) R : v < 2^64 -> rbind sgetb64 f (sputb64 v ++ R) = f v R.
Proof. intros H. apply rb_reads. apply reads_sgetb64. exact H. Qed.
Lemma rb_getc {B} c (f : N -> reader B) R : rbind getc f (c :: R) = f c R.
Proof. reflexivity. Qed.
Lemma rb_ret {A B} (a : A) (f : A -> reader B) R : rbind (rret a) f R = f a R.
Proof. reflexivity. Qed.
Lemma rb_assoc {A B C} (r : reader A) (f : A -> reader B) (g : B -> reader C) l :
  rbind (rbind r f) g l = rbind r (fun a => rbind (f a) g) l.
Proof. unfold rbind. destruct (r l) as [[a rest]| |]; reflexivity. Qed.
Lemma rb_take {B} n l (f : list N -> reader B) R : nlen l = n -> rbind (take n) f (l ++ R) = f l R.
Proof. intros <-. unfold rbind, nlen. rewrite take_app. reflexivity. Qed.

Lemma getstr_reads size s : nlen s < size -> size < 2^32 -> reads (getstr size) (sputbs s) s.
Proof.
  intros H1 H2 R. unfold getstr, nlen in *. rewrite sputbs_small by lia.
  rewrite <- app_assoc, rb_b32 by lia. rewrite (u32_small size H2).
  destruct (N.leb_spec size (N.of_nat (length s))) as [H|_]; [lia|]. apply take_app.
Qed.

Lemma rb_str {B} size s (f : list N -> reader B) R :
  nlen s < size -> size < 2^32 -> cstring s -> rbind (getcstr size) f (sputbs s ++ R) = f s R.
Proof.
  intros H1 H2 H3. unfold getcstr. unfold rbind at 1. unfold rbind at 1.
  rewrite (getstr_reads size s H1 H2). unfold rret. rewrite (cstr_id s H3). reflexivity.
Qed.

(* n hashes *)
Lemma read_hashes_ok hs hl : Forall (fun h => nlen h = hs) hl ->
  forall fuel R, (length hl <= fuel)%nat -> read_hashes fuel hs (nlen hl) (concat hl ++ R) = Ok (hl, R).
Proof.
  induction 1 as [|h t Hh _ IH]; intros fuel R Hf.
  - destruct fuel; reflexivity.
  - destruct fuel as [|fuel]; [cbn in Hf; lia|]. cbn [read_hashes].
    destruct (N.eqb_spec (nlen (h :: t)) 0) as [E|_]; [rewrite nlen_cons in E; lia|].
    cbn [concat]. rewrite <- app_assoc.
    assert (T : take hs (h ++ concat t ++ R) = Ok (h, concat t ++ R)) by (rewrite <- Hh; apply take_app).
    rewrite T.
    replace (nlen (h :: t) - 1) with (nlen t) by (rewrite nlen_cons; lia).
    rewrite IH by (cbn in Hf; lia). reflexivity.
Qed.

Lemma concat_length_ge (hl : list (list N)) : Forall (fun h => h <> []) hl -> (length hl <= length (concat hl))%nat.
Proof.
  induction 1 as [|h t Hh _ IH]; [cbn; lia|]. cbn [concat length]. rewrite app_length.
  destruct h; [contradiction|]. cbn [length]. lia.
Qed.

Lemma rb_hashes {B} hs hl (f : list (list N) -> reader B) R :
  0 < hs -> Forall (fun h => nlen h = hs) hl -> rbind (get_hashes hs (nlen hl)) f (concat hl ++ R) = f hl R.
Proof.
  intros H0 H. unfold rbind, get_hashes. rewrite (read_hashes_ok hs hl H); [reflexivity|].
  rewrite app_length. assert (length hl <= length (concat hl))%nat; [|lia].
  apply concat_length_ge. eapply Forall_impl; [|exact H]. intros h E ->. cbn in E. lia.
Qed.

(* ---- maximal runs ---- *)
Lemma group_aux_concat {A} (rel : A -> N -> A -> bool) l : forall first off,
  fst (group_aux rel first off l) ++ concat (snd (group_aux rel first off l)) = l.
Proof.
  induction l as [|x t IH]; intros first off; [reflexivity|]. cbn [group_aux].
  destruct (rel first off x); cbn [fst snd concat app]; rewrite ?IH; reflexivity.
Qed.
Lemma groups_concat {A} (rel : A -> N -> A -> bool) l : concat (groups rel l) = l.
Proof. destruct l as [|x t]; [reflexivity|]. cbn [groups concat app]. rewrite group_aux_concat. reflexivity. Qed.

(* the elements of a run all continue its first element *)
Fixpoint run_ok {A} (rel : A -> N -> A -> bool) (first : A) (off : N) (t : list A) : Prop :=
  match t with [] => True | y :: t' => rel first off y = true /\ run_ok rel first (off + 1) t' end.
Definition group_ok {A} (rel : A -> N -> A -> bool) (g : list A) : Prop :=
  match g with [] => False | x :: t => run_ok rel x 1 t end.

Lemma group_aux_ok {A} (rel : A -> N -> A -> bool) l : forall first off,
  run_ok rel first off (fst (group_aux rel first off l)) /\ Forall (group_ok rel) (snd (group_aux rel first off l)).
Proof.
  induction l as [|x t IH]; intros first off; [cbn; auto|]. cbn [group_aux].
  destruct (rel first off x) eqn:E; cbn [fst snd].
  - destruct (IH first (off + 1)) as [H1 H2]. split; [cbn [run_ok]; auto|exact H2].
  - destruct (IH x 1) as [H1 H2]. split; [exact I|]. constructor; [exact H1|exact H2].
Qed.
Lemma groups_ok {A} (rel : A -> N -> A -> bool) l : Forall (group_ok rel) (groups rel l).
Proof.
  destruct l as [|x t]; [constructor|]. cbn [groups].
  destruct (group_aux_ok rel t x 1) as [H1 H2]. constructor; [exact H1|exact H2].
Qed.

(* ================================================================================================ *)
(** * Layer 2: the run-length decoders invert the encoders *)

(* a loader without the rewriting options (what conf_of gives) *)
Definition plain (k : conf) : Prop := k_clear_past_hash k = false /\ k_force_realloc k = false.

Lemma fix_block_plain k hs st h : plain k -> fix_block k hs st h = (st, h).
Proof. intros [H1 H2]. unfold fix_block. rewrite H1, H2. reflexivity. Qed.

Definition state_ok (st : N) : Prop := st = BLK \/ st = CHG \/ st = REP.
Definition block_ok (hs : N) (b : cblock) : Prop := state_ok (cb_state b) /\ nlen (cb_hash b) = hs.

Lemma block_eta b : {| cb_state := cb_state b; cb_pos := cb_pos b; cb_hash := cb_hash b |} = b.
Proof. destruct b; reflexivity. Qed.

(* the blocks of a run are rebuilt from the position of the first one *)
Lemma run_rebuild k hs bm b : plain k -> bm < 2^32 -> forall t off,
  cb_pos b + off <= bm -> Forall (fun x => cb_pos x < bm) t -> run_ok block_rel b off t ->
  mk_blocks k hs (cb_state b) (cb_pos b + off) (map cb_hash t) = t /\ cb_pos b + off + nlen t <= bm.
Proof.
  intros Hk Hbm. induction t as [|x t IH]; intros off Hoff Hlt Hrun.
  - split; [reflexivity|]. unfold nlen; cbn; lia.
  - cbn [run_ok] in Hrun. destruct Hrun as [Hrel Hrun]. pose proof (Forall_inv Hlt) as Hx. pose proof (Forall_inv_tail Hlt) as Hlt'. cbv beta in Hx.
    unfold block_rel in Hrel. apply andb_true_iff in Hrel. destruct Hrel as [Hs Hp].
    apply N.eqb_eq in Hs. apply N.eqb_eq in Hp. rewrite u32_small in Hp by lia.
    destruct (IH (off + 1)) as [E1 E2]; [lia|exact Hlt'|exact Hrun|].
    cbn [map mk_blocks]. rewrite (fix_block_plain k hs _ _ Hk). cbn [fst snd].
    replace (cb_pos b + off + 1) with (cb_pos b + (off + 1)) by lia. rewrite E1.
    rewrite Hs, Hp, block_eta. split; [reflexivity|]. rewrite nlen_cons. lia.
Qed.

Lemma block_state_of_char st : state_ok st ->
  exists c, state_char st = [c] /\ block_state_of c = Some st /\ (c =? 110) = false.
Proof.
  intros [-> | [-> | ->]]; [exists 98 | exists 103 | exists 112]; repeat split; reflexivity.
Qed.

Lemma read_runs_step k hs bm fbm f v_idx acc g R :
  plain k -> 0 < hs -> bm < 2^32 -> fbm < 2^32 ->
  group_ok block_rel g -> Forall (block_ok hs) g -> Forall (fun x => cb_pos x < bm) g ->
  v_idx + nlen g <= fbm ->
  read_runs (S f) k hs bm fbm v_idx acc (enc_run g ++ R) = read_runs f k hs bm fbm (v_idx + nlen g) (acc ++ g) R.
Proof.
  intros Hk Hhs Hbm Hfbm Hg Hok Hlt Hidx.
  destruct g as [|b t]; [contradiction|]. cbn [group_ok] in Hg.
  pose proof (Forall_inv Hok) as [Hst Hh]. pose proof (Forall_inv Hlt) as Hb. pose proof (Forall_inv_tail Hlt) as Hlt'. cbv beta in Hb.
  destruct (run_rebuild k hs bm b Hk Hbm t 1 ltac:(lia) Hlt' Hg) as [E1 E2].
  assert (Hn : nlen (b :: t) = 1 + nlen t) by apply nlen_cons.
  destruct (block_state_of_char _ Hst) as [c [Ec [Es En]]].
  cbn [read_runs].
  destruct (N.leb_spec fbm v_idx) as [H|_]; [lia|].
  unfold enc_run. rewrite Ec. cbn [app]. rewrite rb_getc.
  rewrite <- !app_assoc. rewrite rb_b32 by lia. rewrite rb_b32 by lia.
  rewrite (u32_small (v_idx + nlen (b :: t))) by lia.
  destruct (N.ltb_spec fbm (v_idx + nlen (b :: t))) as [H|_]; [lia|].
  rewrite (u32_small (cb_pos b + nlen (b :: t))) by lia.
  destruct (N.ltb_spec bm (cb_pos b + nlen (b :: t))) as [H|_]; [lia|].
  destruct (N.eqb_spec (nlen (b :: t)) 0) as [H|_]; [lia|].
  rewrite Es.
  destruct (N.leb_spec 4294967296 (v_idx + nlen (b :: t))) as [H|_]; [change 4294967296 with (2^32) in H; lia|].
  destruct (N.leb_spec 4294967296 (cb_pos b + nlen (b :: t))) as [H|_]; [change 4294967296 with (2^32) in H; lia|].
  cbn [orb]. rewrite En.
  replace (get_hashes hs (nlen (b :: t))) with (get_hashes hs (nlen (map cb_hash (b :: t)))) by (unfold nlen; rewrite map_length; reflexivity).
  rewrite rb_hashes; [|exact Hhs|].
  2:{ apply Forall_map. eapply Forall_impl; [|exact Hok]. intros x [_ Hx]. exact Hx. }
  f_equal. f_equal. cbn [map mk_blocks]. rewrite (fix_block_plain k hs _ _ Hk). cbn [fst snd].
  replace (cb_pos b + 1) with (cb_pos b + 1) by reflexivity. rewrite E1. rewrite block_eta. reflexivity.
Qed.

Lemma enc_run_nonempty hs g : group_ok block_rel g -> Forall (block_ok hs) g -> enc_run g <> [].
Proof.
  destruct g as [|b t]; [contradiction|]. intros _ H. pose proof (Forall_inv H) as [Hst _].
  destruct (block_state_of_char _ Hst) as [c [Ec _]]. unfold enc_run. rewrite Ec. discriminate.
Qed.

Lemma read_runs_all k hs bm fbm : plain k -> 0 < hs -> bm < 2^32 -> fbm < 2^32 -> forall gs,
  Forall (group_ok block_rel) gs -> Forall (Forall (block_ok hs)) gs -> Forall (Forall (fun x => cb_pos x < bm)) gs ->
  forall f v_idx acc R, (length gs <= f)%nat -> v_idx + nlen (concat gs) = fbm ->
  read_runs f k hs bm fbm v_idx acc (concat (map enc_run gs) ++ R) = Ok (acc ++ concat gs, R).
Proof.
  intros Hk Hhs Hbm Hfbm. induction gs as [|g gs IH]; intros Hg Hok Hlt f v_idx acc R Hf Hsum.
  - cbn [concat map app] in *. unfold nlen in Hsum. cbn in Hsum.
    destruct f; cbn [read_runs]; (destruct (N.leb_spec fbm v_idx) as [_|H]; [|lia]); rewrite app_nil_r; reflexivity.
  - pose proof (Forall_inv Hg). pose proof (Forall_inv_tail Hg). pose proof (Forall_inv Hok). pose proof (Forall_inv_tail Hok).
    pose proof (Forall_inv Hlt). pose proof (Forall_inv_tail Hlt).
    destruct f as [|f]; [cbn in Hf; lia|].
    cbn [concat map]. rewrite <- app_assoc. cbn [concat] in Hsum. rewrite nlen_app in Hsum.
    rewrite read_runs_step by (assumption || lia).
    rewrite IH; try assumption; [rewrite <- app_assoc; reflexivity|cbn in Hf; lia|lia].
Qed.

Lemma Forall_concat_inv {A} (P : A -> Prop) (gs : list (list A)) : Forall P (concat gs) -> Forall (Forall P) gs.
Proof.
  induction gs as [|g gs IH]; intros H; [constructor|]. cbn [concat] in H. apply Forall_app in H.
  destruct H as [H1 H2]. constructor; [exact H1|apply IH; exact H2].
Qed.

Lemma file_blockmax_lt bs size : file_blockmax bs size < 2^32.
Proof.
  unfold file_blockmax. change (2^32) with (Z.to_N 4294967296).
  apply Z2N.inj_lt; [apply Z.mod_pos_bound; lia|lia|apply Z.mod_pos_bound; lia].
Qed.

(* ================================================================================================ *)
(** * Layer 3: every record reader consumes exactly what its writer produced *)

Definition str_ok (size : N) (s : list N) : Prop := cstring s /\ nlen s < size.

Definition file_ok (bs hs bm : N) (f : cfile) : Prop :=
  cf_size f < 2^64 /\ cf_size f / bs <= bm /\ cf_msec f < 2^64 /\ cf_mnsec f < 2^32 /\ cf_inode f < 2^64 /\
  str_ok PATH_MAX (cf_sub f) /\ cf_sub f <> [] /\
  nlen (cf_blocks f) = file_blockmax bs (cf_size f) /\
  Forall (block_ok hs) (cf_blocks f) /\ Forall (fun x => cb_pos x < bm) (cf_blocks f).

Lemma is_nil_false {A} (l : list A) : l <> [] -> is_nil l = false.
Proof. destruct l; [contradiction|reflexivity]. Qed.

Lemma file_eta f : {| cf_size := cf_size f; cf_msec := cf_msec f; cf_mnsec := cf_mnsec f; cf_inode := cf_inode f;
                      cf_sub := cf_sub f; cf_blocks := cf_blocks f |} = f.
Proof. destruct f; reflexivity. Qed.

Lemma path_max_lt : PATH_MAX < 2^32. Proof. reflexivity. Qed.
Lemma uuid_max_lt : UUID_MAX < 2^32. Proof. reflexivity. Qed.

(* the mapping index written for a disk leads back to the disk *)
Definition mapping_ok (d : dstate) (idx : N) (di : nat) : Prop :=
  idx < nlen (d_mapping d) /\ idx < 2^32 /\ nth (N.to_nat idx) (d_mapping d) O = di.

Lemma rb_mapping {B} d idx di (f : nat -> reader B) R : mapping_ok d idx di ->
  rbind (get_mapping d) f (sputb32 idx ++ R) = f di R.
Proof.
  intros [H1 [H2 H3]]. unfold get_mapping. unfold rbind at 1. unfold rbind at 1.
  rewrite (reads_sgetb32 idx H2). destruct (N.leb_spec (nlen (d_mapping d)) idx) as [H|_]; [lia|].
  unfold rret. rewrite H3. reflexivity.
Qed.

Definition enc_file_body (idx : N) (f : cfile) : list N :=
  sputb32 idx ++ sputb64 (cf_size f) ++ sputb64 (cf_msec f)
  ++ sputb32 (if cf_mnsec f =? NSEC_INVALID then 0 else cf_mnsec f + 1)
  ++ sputb64 (cf_inode f) ++ sputbs (cf_sub f)
  ++ concat (map enc_run (groups block_rel (cf_blocks f))).
Lemma enc_file_eq idx f : enc_file idx f = 102 :: enc_file_body idx f.
Proof. reflexivity. Qed.

Lemma rec_file_reads k d idx di f R :
  plain k -> c_block_size (d_st d) <> 0 -> 0 < c_hash_size (d_st d) -> d_blockmax d < 2^32 ->
  file_ok (c_block_size (d_st d)) (c_hash_size (d_st d)) (d_blockmax d) f -> mapping_ok d idx di ->
  rec_file k d (enc_file_body idx f ++ R) = Ok (with_st d (on_disk (d_st d) di (add_file f)), R).
Proof.
  intros Hk Hbs Hhs Hbm [Hsz [Hfit [Hms [Hns [Hin [[Hcs Hlen] [Hne [Hnb [Hok Hlt]]]]]]]]] Hmap.
  unfold rec_file, enc_file_body. rewrite <- !app_assoc.
  rewrite (rb_mapping d idx di _ _ Hmap).
  rewrite rb_b64 by exact Hsz.
  destruct (N.eqb_spec (c_block_size (d_st d)) 0) as [E|_]; [contradiction|].
  destruct (N.ltb_spec (d_blockmax d) (cf_size f / c_block_size (d_st d))) as [H|_]; [lia|].
  rewrite rb_b64 by exact Hms.
  rewrite rb_b32 by (unfold NSEC_INVALID; destruct (cf_mnsec f =? 4294967295) eqn:E; [lia|apply N.eqb_neq in E; change (2^32) with 4294967296 in *; lia]).
  rewrite rb_b64 by exact Hin.
  rewrite rb_str by (exact Hlen || exact path_max_lt || exact Hcs).
  rewrite (is_nil_false _ Hne).
  set (gs := groups block_rel (cf_blocks f)).
  assert (Hc : concat gs = cf_blocks f) by apply groups_concat.
  assert (Hg : Forall (group_ok block_rel) gs) by apply groups_ok.
  assert (Hoks : Forall (Forall (block_ok (c_hash_size (d_st d)))) gs) by (apply Forall_concat_inv; rewrite Hc; exact Hok).
  assert (Hlts : Forall (Forall (fun x => cb_pos x < d_blockmax d)) gs) by (apply Forall_concat_inv; rewrite Hc; exact Hlt).
  unfold rbind at 1.
  rewrite (read_runs_all k _ _ _ Hk Hhs Hbm (file_blockmax_lt _ _) gs Hg Hoks Hlts).
  - unfold rret. rewrite Hc. cbn [app].
    replace (if cf_mnsec f =? NSEC_INVALID then 0 else cf_mnsec f + 1) with (if cf_mnsec f =? NSEC_INVALID then 0 else cf_mnsec f + 1) by reflexivity.
    assert (En : (if (if cf_mnsec f =? NSEC_INVALID then 0 else cf_mnsec f + 1) =? 0 then NSEC_INVALID
                  else (if cf_mnsec f =? NSEC_INVALID then 0 else cf_mnsec f + 1) - 1) = cf_mnsec f).
    { destruct (N.eqb_spec (cf_mnsec f) NSEC_INVALID) as [E|E]; [rewrite E; reflexivity|].
      destruct (N.eqb_spec (cf_mnsec f + 1) 0); lia. }
    rewrite En, file_eta. reflexivity.
  - assert (length gs <= length (concat (map enc_run gs)))%nat; [|rewrite app_length; lia].
    rewrite <- (map_length enc_run gs) at 1. apply concat_length_ge.
    apply Forall_map. rewrite Forall_forall in *. intros g Hin'.
    apply (enc_run_nonempty (c_hash_size (d_st d))); [apply Hg|apply Hoks]; exact Hin'.
  - rewrite Hc, Hnb. lia.
Qed.

(* ---- links and directories ---- *)
Definition link_ok (x : clink) : Prop :=
  str_ok PATH_MAX (cl_sub x) /\ cl_sub x <> [] /\ str_ok PATH_MAX (cl_to x) /\ (cl_hard x = true -> cl_to x <> []).
Definition enc_link_body (idx : N) (x : clink) : list N := sputb32 idx ++ sputbs (cl_sub x) ++ sputbs (cl_to x).
Lemma enc_link_eq idx x : enc_link idx x = (if cl_hard x then 97 else 115) :: enc_link_body idx x.
Proof. reflexivity. Qed.
Lemma link_eta x : {| cl_hard := cl_hard x; cl_sub := cl_sub x; cl_to := cl_to x |} = x.
Proof. destruct x; reflexivity. Qed.

Lemma rec_link_reads d idx di x R : link_ok x -> mapping_ok d idx di ->
  rec_link (cl_hard x) d (enc_link_body idx x ++ R) = Ok (with_st d (on_disk (d_st d) di (add_link x)), R).
Proof.
  intros [[Hc1 Hl1] [Hne [[Hc2 Hl2] Hh]]] Hmap. unfold rec_link, enc_link_body. rewrite <- !app_assoc.
  rewrite (rb_mapping d idx di _ _ Hmap).
  rewrite rb_str by (exact Hl1 || exact path_max_lt || exact Hc1). rewrite (is_nil_false _ Hne).
  rewrite rb_str by (exact Hl2 || exact path_max_lt || exact Hc2).
  destruct (cl_hard x) eqn:E.
  - rewrite (is_nil_false _ (Hh eq_refl)). cbn [andb]. unfold rret. rewrite <- E, link_eta. reflexivity.
  - cbn [andb]. unfold rret. rewrite <- E, link_eta. reflexivity.
Qed.

Definition dir_ok (x : list N) : Prop := str_ok PATH_MAX x /\ x <> [].
Definition enc_dir_body (idx : N) (x : list N) : list N := sputb32 idx ++ sputbs x.
Lemma enc_dir_eq idx x : enc_dir idx x = 114 :: enc_dir_body idx x.
Proof. reflexivity. Qed.
Lemma rec_dir_reads d idx di x R : dir_ok x -> mapping_ok d idx di ->
  rec_dir d (enc_dir_body idx x ++ R) = Ok (with_st d (on_disk (d_st d) di (add_dir x)), R).
Proof.
  intros [[Hc Hl] Hne] Hmap. unfold rec_dir, enc_dir_body. rewrite <- !app_assoc.
  rewrite (rb_mapping d idx di _ _ Hmap).
  rewrite rb_str by (exact Hl || exact path_max_lt || exact Hc). rewrite (is_nil_false _ Hne). reflexivity.
Qed.

(* ---- holes ---- *)
(* the DELETED blocks of a dense position list starting at pos *)
Fixpoint sparse (pos : N) (dl : list (option (list N))) : list (N * list N) :=
  match dl with
  | [] => []
  | Some h :: t => (pos, h) :: sparse (pos + 1) t
  | None :: t => sparse (pos + 1) t
  end.

Lemma sparse_app pos a b : sparse pos (a ++ b) = sparse pos a ++ sparse (pos + nlen a) b.
Proof.
  revert pos. induction a as [|x a IH]; intros pos.
  - cbn. unfold nlen. cbn. rewrite N.add_0_r. reflexivity.
  - rewrite nlen_cons. replace (pos + (1 + nlen a)) with (pos + 1 + nlen a) by lia.
    destruct x; cbn [app sparse]; rewrite IH; reflexivity.
Qed.

Definition hole_hash_ok (hs : N) (o : option (list N)) : Prop := match o with Some h => nlen h = hs | None => True end.

Lemma hole_run_some k hs first : plain k -> forall t off pos, run_ok hole_rel (Some first) off t ->
  mk_deleted k hs pos (map (fun o => match o with Some h => h | None => [] end) t) = sparse pos t.
Proof.
  intros [Hk _]. induction t as [|x t IH]; intros off pos H; [reflexivity|].
  cbn [run_ok] in H. destruct H as [Hr H]. destruct x as [h|]; [|discriminate].
  cbn [map mk_deleted sparse]. rewrite Hk. rewrite (IH (off + 1)); [reflexivity|exact H].
Qed.
Lemma hole_run_none : forall t off pos, run_ok hole_rel None off t -> sparse pos t = [].
Proof.
  induction t as [|x t IH]; intros off pos H; [reflexivity|].
  cbn [run_ok] in H. destruct H as [Hr H]. destruct x as [h|]; [discriminate|].
  cbn [sparse]. apply (IH (off + 1)). exact H.
Qed.

Lemma read_holes_step k hs bs bm f v_pos acc g R :
  plain k -> 0 < hs -> bs <> 0 -> bm < 2^32 -> group_ok hole_rel g -> Forall (hole_hash_ok hs) g ->
  v_pos + nlen g <= bm ->
  read_holes (S f) k hs bs bm v_pos acc (enc_hole_run g ++ R)
  = read_holes f k hs bs bm (v_pos + nlen g) (acc ++ sparse v_pos g) R.
Proof.
  intros Hk Hhs Hbs Hbm Hg Hok Hpos.
  destruct g as [|o t]; [contradiction|]. cbn [group_ok] in Hg.
  assert (Hn : nlen (o :: t) = 1 + nlen t) by apply nlen_cons.
  cbn [read_holes]. destruct (N.leb_spec bm v_pos) as [H|_]; [lia|].
  destruct o as [h|]; unfold enc_hole_run; rewrite <- !app_assoc.
  - rewrite rb_b32 by lia. rewrite (u32_small (v_pos + nlen (Some h :: t))) by lia.
    destruct (N.ltb_spec bm (v_pos + nlen (Some h :: t))) as [H|_]; [lia|].
    cbn [app]. rewrite rb_getc. change (111 =? 111) with true. cbv iota.
    destruct (N.eqb_spec bs 0) as [E|_]; [contradiction|].
    destruct (N.leb_spec 4294967296 (v_pos + nlen (Some h :: t))) as [H|_]; [change 4294967296 with (2^32) in H; lia|].
    set (hl := map (fun o => match o with Some h0 => h0 | None => [] end) (Some h :: t)).
    replace (get_hashes hs (nlen (Some h :: t))) with (get_hashes hs (nlen hl)) by (unfold hl, nlen; rewrite map_length; reflexivity).
    rewrite rb_hashes; [|exact Hhs|].
    + f_equal. f_equal. unfold hl. cbn [map mk_deleted sparse]. destruct Hk as [Hk1 Hk2]. rewrite Hk1.
      rewrite (hole_run_some k hs h (conj Hk1 Hk2) t 1 (v_pos + 1) Hg). reflexivity.
    + unfold hl. clear hl. assert (Hall : forall t' off, run_ok hole_rel (Some h) off t' -> Forall (hole_hash_ok hs) t' ->
        Forall (fun x => nlen x = hs) (map (fun o => match o with Some h0 => h0 | None => [] end) t')).
      { induction t' as [|x t' IH]; intros off Hr Hf; [constructor|]. cbn [run_ok] in Hr. destruct Hr as [Hx Hr].
        destruct x as [hx|]; [|discriminate]. cbn [map]. constructor; [exact (Forall_inv Hf)|].
        apply (IH (off + 1)); [exact Hr|exact (Forall_inv_tail Hf)]. }
      cbn [map]. constructor; [exact (Forall_inv Hok)|]. apply (Hall t 1 Hg (Forall_inv_tail Hok)).
  - rewrite rb_b32 by lia. rewrite (u32_small (v_pos + nlen (None :: t))) by lia.
    destruct (N.ltb_spec bm (v_pos + nlen (None :: t))) as [H|_]; [lia|].
    cbn [app]. rewrite rb_getc. change (79 =? 111) with false. change (79 =? 79) with true. cbv iota.
    cbn [sparse]. rewrite (hole_run_none t 1 (v_pos + 1) Hg). rewrite app_nil_r. reflexivity.
Qed.

Lemma enc_hole_run_nonempty g : g <> [] -> enc_hole_run g <> [].
Proof.
  destruct g as [|[h|] t]; [contradiction| |]; intros _; unfold enc_hole_run, sputb32;
    (destruct (putb 5 (nlen _ mod 2^32)) eqn:E; [exfalso; revert E; apply putb_nonempty|discriminate]).
Qed.

Lemma read_holes_all k hs bs bm : plain k -> 0 < hs -> bs <> 0 -> bm < 2^32 -> forall gs,
  Forall (group_ok hole_rel) gs -> Forall (Forall (hole_hash_ok hs)) gs ->
  forall f v_pos acc R, (length gs <= f)%nat -> v_pos + nlen (concat gs) = bm ->
  read_holes f k hs bs bm v_pos acc (concat (map enc_hole_run gs) ++ R) = Ok (acc ++ sparse v_pos (concat gs), R).
Proof.
  intros Hk Hhs Hbs Hbm. induction gs as [|g gs IH]; intros Hg Hok f v_pos acc R Hf Hsum.
  - cbn [concat map app sparse] in *. unfold nlen in Hsum. cbn in Hsum.
    destruct f; cbn [read_holes]; (destruct (N.leb_spec bm v_pos) as [_|H]; [|lia]); rewrite app_nil_r; reflexivity.
  - pose proof (Forall_inv Hg). pose proof (Forall_inv_tail Hg). pose proof (Forall_inv Hok). pose proof (Forall_inv_tail Hok).
    destruct f as [|f]; [cbn in Hf; lia|].
    cbn [concat map]. rewrite <- app_assoc. cbn [concat] in Hsum. rewrite nlen_app in Hsum.
    rewrite read_holes_step by (assumption || lia).
    rewrite IH; try assumption; [|cbn in Hf; lia|lia].
    rewrite sparse_app, <- app_assoc. reflexivity.
Qed.

(* ---- the dense view of a sorted DELETED list and back ---- *)
Definition lookup (D : list (N * list N)) (pos : N) : option (list N) :=
  match find (fun ph => fst ph =? pos) D with Some ph => Some (snd ph) | None => None end.
Lemma deleted_at_lookup d : deleted_at d = lookup (cd_deleted d).
Proof. reflexivity. Qed.

Fixpoint sorted_from (lo : N) (D : list (N * list N)) : Prop :=
  match D with [] => True | ph :: t => lo <= fst ph /\ sorted_from (fst ph + 1) t end.

Lemma sorted_from_weaken D : forall lo lo', lo' <= lo -> sorted_from lo D -> sorted_from lo' D.
Proof. destruct D as [|ph t]; intros lo lo' H Srt; [exact I|]. cbn in *. split; [lia|tauto]. Qed.

Lemma lookup_below D : forall lo pos, sorted_from lo D -> pos < lo -> lookup D pos = None.
Proof.
  induction D as [|ph t IH]; intros lo pos Srt H; [reflexivity|]. cbn in Srt. destruct Srt as [S1 S2].
  unfold lookup. cbn [find]. destruct (N.eqb_spec (fst ph) pos) as [E|_]; [lia|].
  apply (IH (fst ph + 1) pos S2). lia.
Qed.

Lemma positions_ge n : forall s x, In x (positions s n) -> s <= x.
Proof.
  induction n as [|n IH]; intros s x H; [contradiction|]. cbn [positions] in H. destruct H as [<-|H]; [lia|].
  apply IH in H. lia.
Qed.

Lemma filter_sorted_none D : forall lo, sorted_from lo D -> filter (fun ph => fst ph <? lo) D = [].
Proof.
  induction D as [|ph t IH]; intros lo Srt; [reflexivity|]. cbn in Srt. destruct Srt as [S1 S2]. cbn [filter].
  destruct (N.ltb_spec (fst ph) lo) as [H|_]; [lia|]. apply IH. apply (sorted_from_weaken t (fst ph + 1)); [lia|exact S2].
Qed.

Lemma sparse_dense : forall n start D, sorted_from start D ->
  sparse start (map (lookup D) (positions start n)) = filter (fun ph => fst ph <? start + N.of_nat n) D.
Proof.
  induction n as [|n IH]; intros start D Srt.
  - cbn [positions map sparse]. rewrite N.add_0_r. symmetry. apply filter_sorted_none. exact Srt.
  - cbn [positions map]. replace (start + N.of_nat (S n)) with (start + 1 + N.of_nat n) by lia.
    destruct D as [|ph D'].
    + cbn [sparse lookup find filter]. rewrite (IH (start + 1) []); [reflexivity|exact I].
    + cbn in Srt. destruct Srt as [S1 S2]. destruct (N.eq_dec (fst ph) start) as [E|E].
      * assert (L : lookup (ph :: D') start = Some (snd ph)).
        { unfold lookup. cbn [find]. rewrite E, N.eqb_refl. reflexivity. }
        rewrite L. cbn [sparse filter].
        destruct (N.ltb_spec (fst ph) (start + 1 + N.of_nat n)) as [_|H]; [|lia].
        assert (M : map (lookup (ph :: D')) (positions (start + 1) n) = map (lookup D') (positions (start + 1) n)).
        { apply map_ext_in. intros x Hx. apply positions_ge in Hx. unfold lookup. cbn [find].
          destruct (N.eqb_spec (fst ph) x) as [E'|_]; [lia|reflexivity]. }
        rewrite M, IH; [|rewrite <- E; exact S2]. f_equal. destruct ph; cbn in *; congruence.
      * assert (L : lookup (ph :: D') start = None).
        { apply (lookup_below _ (fst ph)); [cbn; split; [lia|exact S2]|lia]. }
        rewrite L. cbn [sparse]. apply IH. cbn. split; [lia|exact S2].
Qed.

(* ---- info ---- *)
Lemma flag_bits a b c : let fl := 1 + 2 * b2n a + 4 * b2n b + 8 * b2n c in
  N.testbit fl 0 = true /\ N.testbit fl 1 = a /\ N.testbit fl 2 = b /\ N.testbit fl 3 = c /\ fl < 2^32.
Proof. destruct a, b, c; vm_compute; repeat split; reflexivity. Qed.

Lemma info_time_le i : info_time i <= i.
Proof. unfold info_time. lia. Qed.

Lemma info_wtime_lt now oldest i : i < 2^32 -> info_wtime now oldest i < 2^32.
Proof.
  intros H. unfold info_wtime. pose proof (info_time_le i).
  destruct (now <? info_time i) eqn:E1.
  - apply N.ltb_lt in E1. destruct (now <? oldest); lia.
  - destruct (info_time i <? oldest); lia.
Qed.

Lemma info_run_const i : forall t off, run_ok info_rel i off t -> Forall (fun x => x = i) t.
Proof.
  induction t as [|x t IH]; intros off H; [constructor|]. cbn [run_ok] in H. destruct H as [Hx H].
  unfold info_rel in Hx. apply N.eqb_eq in Hx. constructor; [auto|]. apply (IH (off + 1)). exact H.
Qed.

Lemma map_const {A B} (f : A -> B) (i : A) (t : list A) : Forall (fun x => x = i) t -> map f t = repeat (f i) (length t).
Proof. induction 1 as [|x t -> _ IH]; [reflexivity|]. cbn. rewrite IH. reflexivity. Qed.

Definition info_ok (s : cstate) (i : N) : Prop := i < 2^32 /\ (info_rehash i = true -> c_prevhash s <> H_UNDEF).

Lemma read_info_step s bm now oldest f v_pos acc g R :
  bm < 2^32 -> oldest < 2^32 -> group_ok info_rel g -> Forall (info_ok s) g ->
  (norm_info now oldest (hd 0 g) = 0 -> info_required_in s v_pos (nlen g) = false) ->
  v_pos + nlen g <= bm ->
  read_info (S f) s bm oldest v_pos acc (enc_info_run now oldest g ++ R)
  = read_info f s bm oldest (v_pos + nlen g) (acc ++ map (norm_info now oldest) g) R.
Proof.
  intros Hbm Hold Hg Hok Hreq Hpos.
  destruct g as [|i t]; [contradiction|]. cbn [group_ok] in Hg. cbn [hd] in Hreq.
  assert (Hn : nlen (i :: t) = 1 + nlen t) by apply nlen_cons.
  pose proof (Forall_inv Hok) as [Hi Hre].
  assert (Hm : map (norm_info now oldest) (i :: t) = nrepeat (norm_info now oldest i) (nlen (i :: t))).
  { unfold nrepeat, nlen. rewrite Nat2N.id. apply map_const. constructor; [reflexivity|]. apply (info_run_const i t 1 Hg). }
  cbn [read_info]. destruct (N.leb_spec bm v_pos) as [H|_]; [lia|].
  unfold enc_info_run. rewrite <- !app_assoc. rewrite rb_b32 by lia.
  rewrite (u32_small (v_pos + nlen (i :: t))) by lia.
  destruct (N.ltb_spec bm (v_pos + nlen (i :: t))) as [H|_]; [lia|].
  destruct (N.eqb_spec i 0) as [E|E].
  - subst i. rewrite rb_b32 by lia. change (N.testbit 0 0) with false. cbv iota. rewrite rb_ret.
    destruct (N.leb_spec 4294967296 (v_pos + nlen (0 :: t))) as [H|_]; [change 4294967296 with (2^32) in H; lia|].
    change (0 =? 0) with true. rewrite Hreq by reflexivity. cbn [andb].
    rewrite Hm. reflexivity.
  - destruct (flag_bits (info_bad i) (info_rehash i) (info_justsynced i)) as [F0 [F1 [F2 [F3 F4]]]].
    rewrite <- !app_assoc. rewrite rb_b32 by exact F4. rewrite F0. cbv iota.
    rewrite rb_assoc. rewrite rb_b32 by (apply info_wtime_lt; exact Hi).
    rewrite F1, F2, F3.
    assert (Hp : (info_rehash i && (c_prevhash s =? H_UNDEF)) = false).
    { destruct (info_rehash i) eqn:Er; [|reflexivity]. cbn [andb]. apply N.eqb_neq. apply Hre. reflexivity. }
    rewrite Hp. rewrite rb_ret.
    destruct (N.leb_spec 4294967296 (v_pos + nlen (i :: t))) as [H|_]; [change 4294967296 with (2^32) in H; lia|].
    assert (Hni : norm_info now oldest i = info_make (info_wtime now oldest i + oldest) (info_bad i) (info_rehash i) (info_justsynced i)).
    { unfold norm_info. destruct (N.eqb_spec i 0); [contradiction|]. rewrite u32_small by (apply info_wtime_lt; exact Hi). reflexivity. }
    rewrite <- Hni.
    destruct (N.eqb_spec (norm_info now oldest i) 0) as [Ez|_].
    + rewrite (Hreq Ez). cbn [andb]. rewrite Hm. reflexivity.
    + cbn [andb]. rewrite Hm. reflexivity.
Qed.

Lemma enc_info_run_nonempty now oldest g : g <> [] -> enc_info_run now oldest g <> [].
Proof.
  destruct g as [|i t]; [contradiction|]. intros _. unfold enc_info_run, sputb32.
  destruct (putb 5 (nlen (i :: t) mod 2^32)) eqn:E; [exfalso; revert E; apply putb_nonempty|discriminate].
Qed.

Lemma nth_const i : forall (t : list N) n, Forall (fun x => x = i) t -> (n < length t)%nat -> nth n t 0 = i.
Proof.
  induction t as [|x t IH]; intros n H Hn; [cbn in Hn; lia|]. destruct n; [exact (Forall_inv H)|].
  cbn. apply IH; [exact (Forall_inv_tail H)|cbn in Hn; lia].
Qed.

Lemma existsb_false_intro {A} (p : A -> bool) l : (forall x, In x l -> p x = false) -> existsb p l = false.
Proof.
  induction l as [|x l IH]; intros H; [reflexivity|]. cbn. rewrite (H x (or_introl eq_refl)). apply IH.
  intros y Hy. apply H. right. exact Hy.
Qed.

(* all the runs of the 'i' record; blocks with state BLK sit where the normalised info is not zero *)
Lemma read_info_all s bm now oldest : bm < 2^32 -> oldest < 2^32 -> forall gs,
  Forall (group_ok info_rel) gs -> Forall (Forall (info_ok s)) gs ->
  forall f v_pos acc R, (length gs <= f)%nat -> v_pos + nlen (concat gs) = bm ->
  (forall b, In b (all_blocks s) -> cb_state b = BLK -> v_pos <= cb_pos b -> cb_pos b < bm ->
             norm_info now oldest (nth (N.to_nat (cb_pos b - v_pos)) (concat gs) 0) <> 0) ->
  read_info f s bm oldest v_pos acc (concat (map (enc_info_run now oldest) gs) ++ R)
  = Ok (acc ++ map (norm_info now oldest) (concat gs), R).
Proof.
  intros Hbm Hold. induction gs as [|g gs IH]; intros Hg Hok f v_pos acc R Hf Hsum Hblk.
  - cbn [concat map app] in *. unfold nlen in Hsum. cbn in Hsum.
    destruct f; cbn [read_info]; (destruct (N.leb_spec bm v_pos) as [_|H]; [|lia]); rewrite app_nil_r; reflexivity.
  - pose proof (Forall_inv Hg) as Hg1. pose proof (Forall_inv_tail Hg). pose proof (Forall_inv Hok). pose proof (Forall_inv_tail Hok).
    destruct f as [|f]; [cbn in Hf; lia|].
    cbn [concat map]. rewrite <- app_assoc. cbn [concat] in Hsum. rewrite nlen_app in Hsum.
    rewrite read_info_step; try assumption; try lia.
    + rewrite IH; try assumption; [|cbn in Hf; lia|lia|].
      * rewrite map_app, <- app_assoc. reflexivity.
      * intros b Hb Hs Hlo Hhi. specialize (Hblk b Hb Hs ltac:(lia) Hhi).
        cbn [concat] in Hblk. rewrite app_nth2 in Hblk by (unfold nlen in *; lia).
        replace (N.to_nat (cb_pos b - v_pos) - length g)%nat with (N.to_nat (cb_pos b - (v_pos + nlen g))) in Hblk by (unfold nlen in *; lia).
        exact Hblk.
    + intros Hz. unfold info_required_in. apply existsb_false_intro. intros b Hb.
      destruct (N.eqb_spec (cb_state b) BLK) as [Es|_]; [|reflexivity]. cbn [andb].
      destruct (N.leb_spec v_pos (cb_pos b)) as [Hlo|_]; [|reflexivity]. cbn [andb].
      destruct (N.ltb_spec (cb_pos b) (v_pos + nlen g)) as [Hhi|_]; [|reflexivity].
      exfalso. apply (Hblk b Hb Es Hlo ltac:(lia)).
      cbn [concat]. rewrite app_nth1 by (unfold nlen in *; lia).
      destruct g as [|i t]; [contradiction|]. cbn [group_ok] in Hg1. cbn [hd] in Hz.
      rewrite (nth_const i (i :: t)); [exact Hz| |unfold nlen in *; lia].
      constructor; [reflexivity|apply (info_run_const i t 1 Hg1)].
Qed.

(* ---- small list facts ---- *)
Lemma bytes_eqb_eq a : forall b, bytes_eqb a b = true <-> a = b.
Proof.
  induction a as [|x a IH]; intros [|y b]; cbn; try (split; [discriminate|discriminate]); [tauto|].
  rewrite andb_true_iff, N.eqb_eq, IH. split; [intros [-> ->]; reflexivity|intros E; injection E; auto].
Qed.
Lemma bytes_eqb_refl a : bytes_eqb a a = true.
Proof. apply bytes_eqb_eq. reflexivity. Qed.

Lemma upd_app_len {A} (f : A -> A) (pre : list A) x post : upd (length pre) f (pre ++ x :: post) = pre ++ f x :: post.
Proof. induction pre as [|y pre IH]; [reflexivity|]. cbn. rewrite IH. reflexivity. Qed.

Lemma nth_app_len {A} (pre : list A) x post dflt : nth (length pre) (pre ++ x :: post) dflt = x.
Proof. induction pre as [|y pre IH]; [reflexivity|]. cbn. exact IH. Qed.

Lemma set_disks_id s : set_disks s (c_disks s) = s.
Proof. destruct s; reflexivity. Qed.
Lemma with_st_id d : with_st d (d_st d) = d.
Proof. destruct d; reflexivity. Qed.

(* ---- 'z' 'x' 'y' 'c' 'C' ---- *)
Lemma rec_blocksize_reads k d R : k_no_conf k = false -> c_block_size (d_st d) <> 0 -> c_block_size (d_st d) < 2^32 ->
  rec_blocksize k d (sputb32 (c_block_size (d_st d)) ++ R) = Ok (d, R).
Proof.
  intros Hk H0 H1. unfold rec_blocksize. rewrite rb_b32 by exact H1.
  destruct (N.eqb_spec (c_block_size (d_st d)) 0) as [E|_]; [contradiction|]. rewrite Hk, N.eqb_refl.
  unfold rret. rewrite with_st_id. reflexivity.
Qed.

Lemma rec_hashsize_reads k d R : k_no_conf k = false -> 2 <= c_hash_size (d_st d) <= 16 ->
  rec_hashsize k d (sputb32 (c_hash_size (d_st d)) ++ R) = Ok (d, R).
Proof.
  intros Hk [H0 H1]. unfold rec_hashsize. rewrite rb_b32 by (change (2^32) with 4294967296; lia).
  destruct (N.ltb_spec (c_hash_size (d_st d)) 2) as [E|_]; [lia|]. unfold HASH_MAX.
  destruct (N.ltb_spec 16 (c_hash_size (d_st d))) as [E|_]; [lia|]. cbn [orb]. rewrite Hk, N.eqb_refl.
  unfold rret. rewrite with_st_id. reflexivity.
Qed.

Lemma rec_blockmax_reads d bm R : bm < 2^32 ->
  rec_blockmax d (sputb32 bm ++ R) = Ok ({| d_st := d_st d; d_blockmax := bm; d_mapping := d_mapping d; d_crc := d_crc d |}, R).
Proof. intros H. unfold rec_blockmax. rewrite rb_b32 by exact H. reflexivity. Qed.

Definition hash_ok (h : N) : Prop := h = H_MURMUR3 \/ h = H_SPOOKY2 \/ h = H_METRO.
Lemma hash_char_of h : hash_ok h -> exists c, hash_char h = [c] /\ hash_of c = Some h.
Proof. intros [-> | [-> | ->]]; [exists 117 | exists 107 | exists 109]; split; reflexivity. Qed.

Lemma rec_hash_reads prev d h seed R : hash_ok h -> nlen seed = 16 ->
  rec_hash prev d (hash_char h ++ seed ++ R)
  = Ok (with_st d (if prev then set_prevhash (d_st d) h seed else set_hash (d_st d) h seed), R).
Proof.
  intros Hh Hs. destruct (hash_char_of h Hh) as [c [Ec Eo]]. rewrite Ec. cbn [app]. unfold rec_hash.
  rewrite rb_getc, Eo. rewrite rb_take by exact Hs. reflexivity.
Qed.

(* ---- 'M' ---- *)
Definition map_fields_ok (m : cmap) : Prop :=
  str_ok PATH_MAX (cm_name m) /\ cm_pos m < 2^32 /\ cm_total m < 2^32 /\ cm_free m < 2^32 /\ str_ok UUID_MAX (cm_uuid m).
Definition enc_map_body (m : cmap) : list N :=
  sputbs (cm_name m) ++ sputb32 (cm_pos m) ++ sputb32 (cm_total m) ++ sputb32 (cm_free m) ++ sputbs (cm_uuid m).
Lemma map_eta m : {| cm_name := cm_name m; cm_pos := cm_pos m; cm_total := cm_total m; cm_free := cm_free m; cm_uuid := cm_uuid m |} = m.
Proof. destruct m; reflexivity. Qed.

Lemma find_idx_nth {A} (p : A -> bool) (l : list A) i dflt : find_idx p l = Some i -> p (nth i l dflt) = true /\ (i < length l)%nat.
Proof.
  revert i. induction l as [|x l IH]; intros i H; [discriminate|]. cbn in H.
  destruct (p x) eqn:E.
  - injection H as <-. cbn. split; [exact E|lia].
  - destruct (find_idx p l) as [k|]; [|discriminate]. injection H as <-. destruct (IH k eq_refl) as [H1 H2].
    cbn. split; [exact H1|lia].
Qed.

Lemma rec_map_reads k d m di R : map_fields_ok m ->
  find_idx (fun x => bytes_eqb (cd_name x) (cm_name m)) (c_disks (d_st d)) = Some di ->
  rec_map k 77 d (enc_map_body m ++ R)
  = Ok ({| d_st := set_maps (d_st d) (c_maps (d_st d) ++ [m]); d_blockmax := d_blockmax d;
           d_mapping := d_mapping d ++ [di]; d_crc := d_crc d |}, R).
Proof.
  intros [[Hc1 Hl1] [Hp [Ht [Hf [Hc2 Hl2]]]]] Hfind. unfold rec_map, enc_map_body. rewrite <- !app_assoc.
  rewrite rb_str by (exact Hl1 || exact path_max_lt || exact Hc1).
  rewrite rb_b32 by exact Hp. change (77 =? 77) with true. cbv iota.
  rewrite !rb_assoc. rewrite rb_b32 by exact Ht. rewrite rb_assoc. rewrite rb_b32 by exact Hf. rewrite rb_ret.
  rewrite rb_str by (exact Hl2 || exact uuid_max_lt || exact Hc2).
  unfold find_disk. rewrite Hfind. cbn [fst snd]. unfold rret.
  destruct (find_idx_nth _ _ _ (empty_disk []) Hfind) as [Hn _]. apply bytes_eqb_eq in Hn. rewrite Hn.
  rewrite set_disks_id, map_eta. reflexivity.
Qed.

(* ---- 'P' and 'Q' ---- *)
Definition split_ok (x : csplit) : Prop := str_ok PATH_MAX (cs_path x) /\ str_ok UUID_MAX (cs_uuid x) /\ cs_size x < 2^64.
Lemma split_eta x : {| cs_path := cs_path x; cs_uuid := cs_uuid x; cs_size := cs_size x |} = x.
Proof. destruct x; reflexivity. Qed.
Lemma parity_eta p : {| cp_total := cp_total p; cp_free := cp_free p; cp_splits := cp_splits p |} = p.
Proof. destruct p; reflexivity. Qed.

Lemma enc_split_nonempty x : enc_split x <> [].
Proof.
  unfold enc_split, sputbs, sputb32. destruct (putb 5 _) eqn:E; [exfalso; revert E; apply putb_nonempty|discriminate].
Qed.

Lemma read_splits_all k mac : k_no_conf k = false -> forall xs done todo f R,
  map cs_path todo = map cs_path xs -> Forall split_ok xs -> nlen done + nlen xs = mac -> (length xs <= f)%nat ->
  read_splits f k true mac (nlen done) (done ++ todo) (concat (map enc_split xs) ++ R) = Ok (done ++ xs, R).
Proof.
  intros Hk. induction xs as [|x xs IH]; intros done todo f R Hp Hok Hm Hf.
  - destruct todo; [|discriminate]. unfold nlen in Hm. cbn in Hm. rewrite N.add_0_r in Hm.
    destruct f; cbn [read_splits]; (destruct (N.leb_spec mac (nlen done)) as [_|H]; [|unfold nlen in *; lia]); reflexivity.
  - destruct todo as [|c0 todo]; [discriminate|]. cbn [map] in Hp. injection Hp as Hp0 Hp.
    pose proof (Forall_inv Hok) as [[Hc1 Hl1] [[Hc2 Hl2] Hsz]]. pose proof (Forall_inv_tail Hok) as Hok'.
    destruct f as [|f]; [cbn in Hf; lia|]. rewrite nlen_cons in Hm.
    cbn [read_splits]. destruct (N.leb_spec mac (nlen done)) as [H|_]; [lia|].
    cbn [concat map]. unfold enc_split at 1. rewrite <- !app_assoc.
    rewrite rb_str by (exact Hl1 || exact path_max_lt || exact Hc1).
    rewrite rb_str by (exact Hl2 || exact uuid_max_lt || exact Hc2).
    rewrite rb_b64 by exact Hsz.
    destruct (N.leb_spec (nlen (done ++ c0 :: todo)) (nlen done)) as [H|_]; [rewrite nlen_app, nlen_cons in H; lia|].
    unfold nlen at 2. rewrite Nat2N.id, upd_app_len. rewrite Hk, Hp0, split_eta.
    replace (nlen done + 1) with (nlen (done ++ [x])) by (rewrite nlen_app; reflexivity).
    replace (done ++ x :: todo) with ((done ++ [x]) ++ todo) by (rewrite <- app_assoc; reflexivity).
    rewrite IH; [rewrite <- app_assoc; reflexivity|exact Hp|exact Hok'|rewrite nlen_app; unfold nlen at 2; cbn [length]; lia|cbn in Hf; lia].
Qed.

Definition parity_ok (p : cparity) : Prop :=
  cp_total p < 2^32 /\ cp_free p < 2^32 /\ 1 <= nlen (cp_splits p) /\ nlen (cp_splits p) < 2^32 /\ Forall split_ok (cp_splits p).

Definition enc_Q_body (l : N) (p : cparity) : list N :=
  sputb32 l ++ sputb32 (cp_total p) ++ sputb32 (cp_free p) ++ sputb32 (nlen (cp_splits p)) ++ concat (map enc_split (cp_splits p)).
Definition enc_P_body (l : N) (p : cparity) : list N :=
  sputb32 l ++ sputb32 (cp_total p) ++ sputb32 (cp_free p) ++ sputbs (cs_uuid (hd dflt_split (cp_splits p))).
Lemma enc_parity_eq v l p : enc_parity v l p = if v =? 3 then 81 :: enc_Q_body l p else 80 :: enc_P_body l p.
Proof. unfold enc_parity. destruct (v =? 3); reflexivity. Qed.

Lemma rec_Q_reads k d p c pre post R :
  k_no_conf k = false -> c_parity (d_st d) = pre ++ c :: post -> nlen pre < LEV_MAX -> parity_ok p ->
  map cs_path (cp_splits c) = map cs_path (cp_splits p) ->
  rec_parity_Q k d (enc_Q_body (nlen pre) p ++ R) = Ok (with_st d (set_parity (d_st d) (pre ++ p :: post)), R).
Proof.
  intros Hk Hpl Hlev [Ht [Hf [Hs1 [Hs2 Hsp]]]] Hpath. unfold rec_parity_Q, enc_Q_body. rewrite <- !app_assoc.
  assert (Hl32 : nlen pre < 2^32) by (unfold LEV_MAX in Hlev; change (2^32) with 4294967296; lia).
  rewrite rb_b32 by exact Hl32. rewrite rb_b32 by exact Ht. rewrite rb_b32 by exact Hf. rewrite rb_b32 by exact Hs2.
  destruct (N.leb_spec LEV_MAX (nlen pre)) as [H|_]; [lia|]. rewrite Hk. cbn [andb].
  unfold grow_levels. rewrite Hk. cbn [andb]. rewrite Hpl.
  destruct (N.ltb_spec (nlen pre) (nlen (pre ++ c :: post))) as [_|H]; [|rewrite nlen_app, nlen_cons in H; lia].
  unfold nlen at 1 2. rewrite !Nat2N.id, nth_app_len.
  unfold rbind at 1.
  rewrite (read_splits_all k (nlen (cp_splits p)) Hk (cp_splits p) [] (cp_splits c) _ R Hpath Hsp).
  - unfold rret. cbn [app]. unfold nlen. rewrite Nat2N.id, upd_app_len, parity_eta. reflexivity.
  - unfold nlen. cbn. lia.
  - assert (length (cp_splits p) <= length (concat (map enc_split (cp_splits p))))%nat; [|rewrite app_length; lia].
    rewrite <- (map_length enc_split) at 1. apply concat_length_ge. apply Forall_map. apply Forall_forall. intros x _. apply enc_split_nonempty.
Qed.

(* version 2: one split per level, its size is not stored *)
Lemma rec_P_reads k d p c pre post R :
  k_no_conf k = false -> c_parity (d_st d) = pre ++ c :: post -> nlen pre < LEV_MAX -> parity_ok p ->
  nlen (cp_splits p) = 1 -> map cs_path (cp_splits c) = map cs_path (cp_splits p) ->
  Forall (fun x => cs_size x = SIZE_INVALID) (cp_splits c) ->
  rec_parity_P k d (enc_P_body (nlen pre) p ++ R) = Ok (with_st d (set_parity (d_st d) (pre ++ norm_parity 2 p :: post)), R).
Proof.
  intros Hk Hpl Hlev [Ht [Hf [Hs1 [Hs2 Hsp]]]] H1 Hpath Hinv. unfold rec_parity_P, enc_P_body. rewrite <- !app_assoc.
  assert (Hl32 : nlen pre < 2^32) by (unfold LEV_MAX in Hlev; change (2^32) with 4294967296; lia).
  destruct (cp_splits p) as [|x [|? ?]] eqn:Ep; try (unfold nlen in H1; cbn in H1; lia).
  destruct (cp_splits c) as [|c0 [|? ?]] eqn:Ec; try discriminate. cbn [map] in Hpath. injection Hpath as Hpath.
  pose proof (Forall_inv Hsp) as [_ [[Hc2 Hl2] _]]. pose proof (Forall_inv Hinv) as Hsz. cbn [hd].
  rewrite rb_b32 by exact Hl32. rewrite rb_b32 by exact Ht. rewrite rb_b32 by exact Hf.
  rewrite rb_str by (exact Hl2 || exact uuid_max_lt || exact Hc2).
  destruct (N.leb_spec LEV_MAX (nlen pre)) as [H|_]; [lia|].
  unfold grow_levels. rewrite Hk. cbn [andb]. rewrite Hpl.
  destruct (N.ltb_spec (nlen pre) (nlen (pre ++ c :: post))) as [_|H]; [|rewrite nlen_app, nlen_cons in H; lia].
  unfold nlen at 1. rewrite Nat2N.id, upd_app_len. unfold rret. rewrite Ec.
  unfold grow_splits. cbn [length Nat.sub repeat app upd]. unfold set_split_uuid, norm_parity. change (2 =? 3) with false. cbv iota.
  rewrite Ep. cbn [map]. rewrite Hpath, Hsz. reflexivity.
Qed.
