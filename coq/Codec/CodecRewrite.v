(* Rewriting a content file: encode now (normalise now s) = encode now s when no info time of s is clamped. *)
From Coq Require Import NArith ZArith List Bool Lia.
From Snap.Codec Require Import Varint CodecModel CodecProofs CodecRoundTrip.
From Snap.Crc Require Import CrcModel.
Import ListNotations.
Local Open Scope N_scope.

Ltac Zify.zify_post_hook ::= Z.to_euclidean_division_equations.

(* ---- the stream as a function of the writer's view ---- *)
Lemma write_body_eq now s :
  write_body now (prepare s) =
  header (version s)
  ++ [122] ++ sputb32 (c_block_size s) ++ [120] ++ sputb32 (alloc_size s)
  ++ (if version s =? 3 then [121] ++ sputb32 (c_hash_size s) else [])
  ++ [99] ++ hash_char (c_hash s) ++ c_hashseed s
  ++ (if negb (c_prevhash s =? H_UNDEF) && existsb info_rehash (pinfo s) then [67] ++ hash_char (c_prevhash s) ++ c_prevhashseed s else [])
  ++ concat (map (enc_map (pdisks s) (p_idx (prepare s))) (c_maps s))
  ++ enc_parities (version s) 0 (c_parity s)
  ++ enc_disks (alloc_size s) (pdisks s) (p_idx (prepare s))
  ++ [105] ++ sputb32 (fold_left oldest_step (pinfo s) 0)
  ++ concat (map (enc_info_run now (fold_left oldest_step (pinfo s) 0)) (groups info_rel (pinfo s)))
  ++ [78].
Proof.
  unfold write_body. change (p_blockmax (prepare s)) with (alloc_size s). rewrite p_st_info. reflexivity.
Qed.

(* ---- looking up blocks depends on the file blocks only ---- *)
Lemma has_file_state_at d d' pos : disk_blocks d' = disk_blocks d -> has_file (state_at d' pos) = has_file (state_at d pos).
Proof.
  intros E. unfold state_at. rewrite E. destruct (find _ (disk_blocks d)); [reflexivity|].
  destruct (existsb _ (cd_deleted d')), (existsb _ (cd_deleted d)); reflexivity.
Qed.

Lemma existsb_forall2 {A B} (p : A -> bool) (q : B -> bool) l l' : Forall2 (fun x y => p x = q y) l l' -> existsb p l = existsb q l'.
Proof. induction 1 as [|x y l l' H _ IH]; [reflexivity|]. cbn. rewrite H, IH. reflexivity. Qed.

Lemma forall2_map_eq {A B C} (f : A -> C) (g : B -> C) : forall l l', map f l = map g l' -> Forall2 (fun x y => f x = g y) l l'.
Proof. induction l as [|x l IH]; intros [|y l'] H; try discriminate; [constructor|]. cbn in H. injection H as H1 H2. constructor; [exact H1|apply IH; exact H2]. Qed.

Lemma position_required_same s s' pos : map disk_blocks (c_disks s') = map disk_blocks (c_disks s) ->
  position_required s' pos = position_required s pos.
Proof.
  intros E. unfold position_required. apply existsb_forall2. apply forall2_map_eq in E.
  induction E as [|x y l l' H _ IH]; constructor; [apply has_file_state_at; exact H|exact IH].
Qed.

Lemma alloc_size_same s s' : map disk_blocks (c_disks s') = map disk_blocks (c_disks s) -> alloc_size s' = alloc_size s.
Proof. intros E. unfold alloc_size, all_blocks. rewrite E. reflexivity. Qed.

(* ---- lists ---- *)
Lemma upd_same {A} (v : A) dflt : forall (l : list A) j, nth j l dflt = v -> (j < length l)%nat -> upd j (fun _ => v) l = l.
Proof.
  induction l as [|x l IH]; intros j H Hj; [cbn in Hj; lia|]. destruct j; cbn in *; [rewrite H; reflexivity|].
  rewrite IH; [reflexivity|exact H|lia].
Qed.

Lemma nth_norm_disks bm : forall (L : list cdisk) (I : list (option N)) j, length I = length L -> (j < length L)%nat ->
  nth j (norm_disks bm L I) (empty_disk []) = norm_disk bm (nth j L (empty_disk [])) (nth j I None).
Proof.
  induction L as [|x L IH]; intros [|oi I] j Hl Hj; try discriminate; [cbn in Hj; lia|].
  destruct j; [reflexivity|]. cbn [norm_disks nth]. apply IH; cbn in *; lia.
Qed.

Lemma norm_disks_names2 bm : forall (L : list cdisk) (I : list (option N)), length I = length L ->
  map cd_name (norm_disks bm L I) = map cd_name L.
Proof.
  induction L as [|x L IH]; intros [|oi I] H; try discriminate; [reflexivity|]. cbn [norm_disks map].
  rewrite IH by (cbn in H; lia). destruct oi; reflexivity.
Qed.

Lemma norm_disks_length bm : forall (L : list cdisk) (I : list (option N)), length I = length L -> length (norm_disks bm L I) = length L.
Proof. induction L as [|x L IH]; intros [|oi I] H; try discriminate; [reflexivity|]. cbn. rewrite IH; [reflexivity|cbn in H; lia]. Qed.

Lemma find_filter {A} (p q : A -> bool) : forall l, (forall x, In x l -> p x = true -> q x = true) -> find p (filter q l) = find p l.
Proof.
  induction l as [|x l IH]; intros H; [reflexivity|]. cbn [filter find].
  destruct (p x) eqn:Ep.
  - rewrite (H x (or_introl eq_refl) Ep). cbn [find]. rewrite Ep. reflexivity.
  - destruct (q x); [cbn [find]; rewrite Ep|]; apply IH; intros y Hy; apply H; right; exact Hy.
Qed.

Lemma positions_lt n : forall s x, In x (positions s n) -> x < s + N.of_nat n.
Proof.
  induction n as [|n IH]; intros s x H; [contradiction|]. cbn [positions] in H. destruct H as [<-|H]; [lia|].
  apply IH in H. lia.
Qed.

Lemma existsb_filter_same {A} (p q : A -> bool) : forall l, (forall x, In x l -> p x = true -> q x = true) -> existsb p (filter q l) = existsb p l.
Proof.
  induction l as [|x l IH]; intros H; [reflexivity|]. cbn [filter existsb].
  destruct (p x) eqn:Ep.
  - rewrite (H x (or_introl eq_refl) Ep). cbn [existsb]. rewrite Ep. reflexivity.
  - destruct (q x); [cbn [existsb]; rewrite Ep|]; cbn [orb]; apply IH; intros y Hy; apply H; right; exact Hy.
Qed.

(* ---- the mapping indexes after the maps of empty disks are gone ---- *)
Lemma assign_filter D D' bm : map cd_name D' = map cd_name D -> forall maps cnt idx,
  (forall m, In m maps -> In (cm_name m) (map cd_name D)) -> NoDup (map cm_name maps) -> length idx = length D ->
  (forall m, In m maps -> nth (dix D (cm_name m)) idx None = None) ->
  (forall m, In m maps -> nonempty_map D bm m = true -> disk_empty (nth (dix D (cm_name m)) D' (empty_disk [])) bm = false) ->
  assign_idx D' bm (filter (nonempty_map D bm) maps) cnt idx = assign_idx D bm maps cnt idx.
Proof.
  intros Hn. induction maps as [|m t IH]; intros cnt idx Hres Hnd Hlen Hnone Hne; [reflexivity|].
  cbn [map] in Hnd. apply NoDup_cons_iff in Hnd. destruct Hnd as [Hnotin Hnd'].
  destruct (dix_spec D (cm_name m) (Hres m (or_introl eq_refl))) as [Hf [Hlt _]].
  assert (Hres' : forall m', In m' t -> In (cm_name m') (map cd_name D)) by (intros; apply Hres; right; assumption).
  assert (Hother : forall m', In m' t -> dix D (cm_name m') <> dix D (cm_name m)).
  { intros m' Hm' E. apply Hnotin. apply (dix_inj D) in E; [|apply Hres'; exact Hm'|apply Hres; left; reflexivity].
    rewrite <- E. apply in_map. exact Hm'. }
  cbn [filter assign_idx]. rewrite Hf.
  destruct (nonempty_map D bm m) eqn:En.
  - cbn [assign_idx]. rewrite (find_idx_names _ D' D Hn), Hf. rewrite (Hne m (or_introl eq_refl) En).
    unfold nonempty_map in En. apply negb_true_iff in En. rewrite En.
    apply IH; try assumption.
    + rewrite upd_length. exact Hlen.
    + intros m' Hm'. rewrite nth_upd_other by (apply Hother; exact Hm'). apply Hnone. right. exact Hm'.
    + intros m' Hm'. apply Hne. right. exact Hm'.
  - unfold nonempty_map in En. apply negb_false_iff in En. rewrite En.
    rewrite (upd_same None None idx (dix D (cm_name m)) (Hnone m (or_introl eq_refl))) by lia.
    apply IH; try assumption.
    + intros m' Hm'. apply Hnone. right. exact Hm'.
    + intros m' Hm'. apply Hne. right. exact Hm'.
Qed.

Lemma prep_info_fix s' n : forall pos info, length info = n ->
  (forall j, (j < n)%nat -> nth j info 0 <> 0 -> position_required s' (pos + N.of_nat j) = true) ->
  prep_info s' pos n info = info.
Proof.
  induction n as [|n IH]; intros pos info Hl H; [destruct info; [reflexivity|discriminate]|].
  destruct info as [|i info]; [discriminate|]. cbn [prep_info hd tl]. f_equal.
  - destruct (N.eqb_spec i 0) as [E|E]; [auto|]. specialize (H O ltac:(lia) E). rewrite N.add_0_r in H. rewrite H. reflexivity.
  - apply IH; [cbn in Hl; lia|]. intros j Hj Hn. specialize (H (S j) ltac:(lia) Hn).
    replace (pos + 1 + N.of_nat j) with (pos + N.of_nat (S j)) by lia. exact H.
Qed.

(* ---- parity records do not depend on what a save drops ---- *)
Lemma enc_parities_norm v : forall pl l, enc_parities v l (map (norm_parity v) pl) = enc_parities v l pl.
Proof.
  induction pl as [|p pl IH]; intros l; [reflexivity|]. cbn [map enc_parities]. rewrite IH. f_equal.
  unfold enc_parity, norm_parity. destruct (v =? 3); [reflexivity|]. cbn [cp_total cp_free cp_splits].
  destruct (cp_splits p); reflexivity.
Qed.

Lemma version_norm s pl' : map (fun p => nlen (cp_splits p)) pl' = map (fun p => nlen (cp_splits p)) (c_parity s) ->
  forall hs, (existsb (fun p => 1 <? nlen (cp_splits p)) pl' || negb (hs =? 16)) = (existsb (fun p => 1 <? nlen (cp_splits p)) (c_parity s) || negb (hs =? 16)).
Proof.
  intros E hs. f_equal. apply existsb_forall2. apply forall2_map_eq in E. induction E as [|x y l l' H _ IH]; constructor; [rewrite H; reflexivity|exact IH].
Qed.

Section Rewrite.
Variables (now : N) (s : cstate).
Hypothesis W : wf s.
Hypothesis Hnow : 8 <= now.
(* no info time is ahead of the clock, none is below the time base of the file *)
Hypothesis Hclamp : Forall (fun i => i <> 0 -> fold_left oldest_step (pinfo s) 0 <= info_time i /\ info_time i <= now) (pinfo s).

Let bm := alloc_size s.
Let D := pdisks s.
Let idxs := p_idx (prepare s).
Let kept := filter (nonempty_map D bm) (c_maps s).
Let il := pinfo s.
Let oldest := fold_left oldest_step il 0.
Let n1 := normalise now s.

Lemma n1_disks : c_disks n1 = norm_disks bm D idxs. Proof. reflexivity. Qed.
Lemma n1_maps : c_maps n1 = kept. Proof. unfold n1, normalise. cbn [c_maps]. apply (kept_eq s W). Qed.
Lemma n1_info : c_info n1 = map (norm_info now oldest) il.
Proof. unfold n1, normalise. cbn [c_info]. change (p_blockmax (prepare s)) with (alloc_size s). rewrite p_st_info. reflexivity. Qed.
Lemma n1_parity : c_parity n1 = map (norm_parity (version s)) (c_parity s). Proof. reflexivity. Qed.

Lemma n1_blocks : map disk_blocks (c_disks n1) = map disk_blocks (c_disks s).
Proof. rewrite n1_disks. apply (blocks_same now s W Hnow). Qed.
Lemma n1_alloc : alloc_size n1 = bm. Proof. apply alloc_size_same. exact n1_blocks. Qed.
Lemma n1_required pos : position_required n1 pos = position_required s pos.
Proof. apply position_required_same. exact n1_blocks. Qed.

Lemma norm_id i : In i il -> norm_info now oldest i = i.
Proof.
  intros Hi. unfold norm_info. destruct (N.eqb_spec i 0) as [E|E]; [auto|].
  rewrite Forall_forall in Hclamp. destruct (Hclamp i Hi E) as [H1 H2]. fold il oldest in H1.
  pose proof (il_lt s W) as L. rewrite Forall_forall in L. specialize (L i Hi).
  assert (Hw : info_wtime now oldest i = info_time i - oldest).
  { unfold info_wtime. destruct (N.ltb_spec now (info_time i)); [lia|]. destruct (N.ltb_spec (info_time i) oldest); [lia|reflexivity]. }
  rewrite Hw. pose proof (info_time_le i). rewrite u32_small by lia.
  replace (info_time i - oldest + oldest) with (info_time i) by lia.
  unfold info_make. rewrite u32_small by lia.
  replace (info_time i / 8 * 8) with (info_time i) by (unfold info_time; lia).
  symmetry. apply low3.
Qed.

Lemma n1_info_id : c_info n1 = il.
Proof. rewrite n1_info. rewrite (map_ext_in _ (fun i => i)); [apply map_id|]. intros i Hi. apply norm_id. exact Hi. Qed.

Lemma il_len : length il = N.to_nat bm. Proof. unfold il, pinfo. apply prep_info_length. Qed.

Lemma n1_pinfo : pinfo n1 = il.
Proof.
  unfold pinfo. rewrite n1_alloc, n1_info_id. apply prep_info_fix; [exact il_len|].
  intros j Hj Hn. rewrite n1_required, N.add_0_l.
  unfold il, pinfo in Hn. fold bm in Hn. rewrite prep_info_nth in Hn by exact Hj. cbv zeta in Hn. rewrite N.add_0_l in Hn.
  destruct (nth j (c_info s) 0 =? 0); [contradiction|]. destruct (position_required s (N.of_nat j)); [reflexivity|contradiction].
Qed.

(* the disks as the writer sees them the second time *)
Lemma n1_pdisks : pdisks n1 = map (prep_disk n1 bm) (norm_disks bm D idxs).
Proof. unfold pdisks. rewrite n1_alloc, n1_disks. reflexivity. Qed.

Lemma n1_names : map cd_name (pdisks n1) = map cd_name D.
Proof. rewrite n1_pdisks, map_map. change (fun x => cd_name (prep_disk n1 bm x)) with cd_name. apply norm_disks_names2. apply idxs_length. Qed.

(* a DELETED block of a prepared disk below blockmax sits at a required position *)
Lemma prepared_deleted_required y ph : In ph (cd_deleted (prep_disk s bm y)) -> fst ph < bm -> position_required s (fst ph) = true.
Proof.
  cbn [prep_disk set_deleted cd_deleted]. intros H Hlt. apply filter_In in H. destruct H as [_ H].
  apply orb_true_iff in H. destruct H as [H|H]; [|exact H]. apply negb_true_iff, N.ltb_ge in H. lia.
Qed.

Lemma second_deleted y i pos : pos < bm ->
  deleted_at (prep_disk n1 bm (norm_disk bm (prep_disk s bm y) (Some i))) pos = deleted_at (prep_disk s bm y) pos.
Proof.
  intros Hpos. unfold deleted_at. cbn [prep_disk norm_disk set_deleted cd_deleted].
  rewrite find_filter.
  - rewrite find_filter; [reflexivity|]. intros ph _ Hk. apply N.eqb_eq in Hk. apply N.ltb_lt. lia.
  - intros ph Hin Hk. apply N.eqb_eq in Hk. apply filter_In in Hin. destruct Hin as [Hin _].
    apply orb_true_iff. right. rewrite n1_required. apply (prepared_deleted_required y ph Hin). lia.
Qed.

Lemma second_empty y i : disk_empty (prep_disk n1 bm (norm_disk bm (prep_disk s bm y) (Some i))) bm = disk_empty (prep_disk s bm y) bm.
Proof.
  unfold disk_empty. cbn [prep_disk norm_disk set_deleted cd_files cd_links cd_dirs cd_deleted]. f_equal. f_equal.
  rewrite existsb_filter_same.
  - rewrite existsb_filter_same; [reflexivity|]. intros ph _ H. exact H.
  - intros ph Hin Hlt. apply filter_In in Hin. destruct Hin as [Hin _]. apply orb_true_iff. right. rewrite n1_required.
    apply (prepared_deleted_required y ph Hin). apply N.ltb_lt. exact Hlt.
Qed.

Lemma D_nth_prep j : (j < length (c_disks s))%nat -> nth j D (empty_disk []) = prep_disk s bm (nth j (c_disks s) (empty_disk [])).
Proof.
  intros Hj. unfold D, pdisks. rewrite (nth_indep _ _ (prep_disk s bm (empty_disk []))) by (rewrite map_length; exact Hj).
  apply map_nth.
Qed.

Lemma n1_idx : p_idx (prepare n1) = idxs.
Proof.
  rewrite p_idx_eq, n1_alloc, n1_maps. unfold idxs. rewrite p_idx_eq. fold D bm.
  assert (Hlen : length (pdisks n1) = length D) by (rewrite <- (map_length cd_name (pdisks n1)), n1_names, map_length; reflexivity).
  assert (Hn : map (fun _ : cdisk => @None N) (pdisks n1) = map (fun _ => None) D).
  { clear - Hlen. revert Hlen. generalize (pdisks n1) D. induction l as [|x l IH]; intros [|y l'] H; try discriminate; [reflexivity|].
    cbn. f_equal. apply IH. cbn in H. lia. }
  rewrite Hn. unfold kept.
  apply (assign_filter D (pdisks n1) bm n1_names (c_maps s) 0 (map (fun _ => None) D) (maps_resolvable s W) (wf_map_names s W)).
  - apply map_length.
  - intros m _. clear. generalize (dix D (cm_name m)). induction D as [|x l IH]; intros [|j]; try reflexivity. cbn. apply IH.
  - intros m Hm Hne.
    destruct (dix_spec D (cm_name m) (maps_resolvable s W m Hm)) as [_ [Hlt _]].
    assert (Hj : (dix D (cm_name m) < length (c_disks s))%nat) by (rewrite <- (D_length s); exact Hlt).
    pose proof (proj2 (idxs_spec s W) m Hm) as Hk. fold D bm idxs in Hk. rewrite Hne in Hk. unfold map_kept in Hk.
    destruct (dix_spec D (cm_name m) (maps_resolvable s W m Hm)) as [Hf _]. rewrite Hf in Hk.
    destruct (nth (dix D (cm_name m)) idxs None) as [i|] eqn:Ei; [|discriminate].
    rewrite n1_pdisks. rewrite (nth_indep _ _ (prep_disk n1 bm (empty_disk []))) by (rewrite map_length, norm_disks_length; [exact Hlt|apply idxs_length]).
    rewrite map_nth, nth_norm_disks by (exact Hlt || apply idxs_length). rewrite Ei, (D_nth_prep _ Hj), second_empty.
    unfold nonempty_map in Hne. apply negb_true_iff in Hne. rewrite (D_nth_prep _ Hj) in Hne. exact Hne.
Qed.

Lemma n1_enc_disks : enc_disks bm (pdisks n1) idxs = enc_disks bm D idxs.
Proof.
  rewrite n1_pdisks. unfold D, pdisks. fold bm.
  pose proof (idxs_length s) as Hl. fold idxs in Hl. unfold pdisks in Hl. rewrite map_length in Hl. revert Hl.
  generalize idxs. induction (c_disks s) as [|y L IH]; intros [|oi I] Hl; try discriminate; [reflexivity|].
  cbn [map norm_disks enc_disks]. rewrite IH by (cbn in Hl; lia). f_equal.
  destruct oi as [i|]; [|reflexivity]. unfold enc_disk.
  change (cd_files (prep_disk n1 bm (norm_disk bm (prep_disk s bm y) (Some i)))) with (cd_files (prep_disk s bm y)).
  change (cd_links (prep_disk n1 bm (norm_disk bm (prep_disk s bm y) (Some i)))) with (cd_links (prep_disk s bm y)).
  change (cd_dirs (prep_disk n1 bm (norm_disk bm (prep_disk s bm y) (Some i)))) with (cd_dirs (prep_disk s bm y)).
  do 5 f_equal. unfold enc_holes. do 3 f_equal. apply map_ext_in. intros pos Hp.
  apply positions_lt in Hp. apply second_deleted. lia.
Qed.

Lemma n1_enc_maps : concat (map (enc_map (pdisks n1) idxs) kept) = concat (map (enc_map D idxs) (c_maps s)).
Proof.
  assert (E : concat (map (enc_map D idxs) (c_maps s)) = concat (map (fun m => 77 :: enc_map_body m) kept)).
  { pose proof (kept_eq s W) as KE. fold D bm idxs in KE. unfold kept. rewrite <- KE. rewrite <- concat_map_filter. f_equal. apply map_ext. intros m. apply enc_map_kept. }
  rewrite E. f_equal. apply map_ext_in. intros m Hm. rewrite enc_map_kept.
  unfold kept in Hm. apply filter_In in Hm. destruct Hm as [Hm Hne].
  pose proof (proj2 (idxs_spec s W) m Hm) as Hk. fold D bm idxs in Hk. rewrite Hne in Hk.
  unfold map_kept in *. rewrite (find_idx_names _ (pdisks n1) D n1_names). rewrite Hk. reflexivity.
Qed.

Lemma n1_version : version n1 = version s.
Proof.
  unfold version. rewrite n1_parity. change (c_hash_size n1) with (c_hash_size s).
  rewrite (version_norm s); [reflexivity|]. rewrite map_map. apply map_ext. intros p. unfold norm_parity.
  destruct (version s =? 3); [reflexivity|]. cbn [cp_splits]. unfold nlen. rewrite map_length. reflexivity.
Qed.

Lemma n1_prev_part :
  (if negb (c_prevhash n1 =? H_UNDEF) && existsb info_rehash il then [67] ++ hash_char (c_prevhash n1) ++ c_prevhashseed n1 else [])
  = (if negb (c_prevhash s =? H_UNDEF) && existsb info_rehash il then [67] ++ hash_char (c_prevhash s) ++ c_prevhashseed s else []).
Proof.
  assert (E1 : c_prevhash n1 = if negb (c_prevhash s =? H_UNDEF) && existsb info_rehash il then c_prevhash s else H_UNDEF) by reflexivity.
  assert (E2 : c_prevhashseed n1 = if negb (c_prevhash s =? H_UNDEF) && existsb info_rehash il then c_prevhashseed s else zeros16) by reflexivity.
  rewrite E1, E2. destruct (negb (c_prevhash s =? H_UNDEF)) eqn:Ea; destruct (existsb info_rehash il) eqn:Eb; cbn [andb negb]; try reflexivity.
  rewrite Ea. reflexivity.
Qed.

Theorem rewrite_reproduces_unclamped : encode now (normalise now s) = encode now s.
Proof.
  fold n1. unfold encode. f_equal. rewrite !write_body_eq.
  rewrite n1_version, n1_alloc, n1_pinfo, n1_idx, n1_maps, n1_parity, enc_parities_norm.
  fold il idxs D bm kept. rewrite n1_enc_disks, n1_enc_maps, n1_prev_part. reflexivity.
Qed.
End Rewrite.

(* loading a file written by the tool and saving it again at the same clock gives the same bytes *)
Theorem rewrite_byte_identical now s : wf s -> 8 <= now ->
  Forall (fun i => i <> 0 -> fold_left oldest_step (pinfo s) 0 <= info_time i /\ info_time i <= now) (pinfo s) ->
  exists s', decode (conf_of s) (encode now s) = Ok s' /\ encode now s' = encode now s.
Proof.
  intros W Hnow Hu. exists (normalise now s).
  split; [apply decode_encode_rt; assumption|apply rewrite_reproduces_unclamped; assumption].
Qed.

(* ------------------------------------------------------------------------------------------------ *)
(** * Dropping DELETED blocks before the save (fs_position_clear_deleted) *)
(* In the C the DELETED blocks of a disk live in extents of fake "deleted" files and dropping one position out of the
   middle of an extent splits it (fs_deallocate).  The model keeps the map  parity position -> hash  itself, so the
   clean-up is a filter on that map; what the split must preserve is stated here: every position that is kept has
   the hash it had, every position that is dropped (unused by every disk, below blockmax) has none. *)
Lemma find_filter_none {A} (p q : A -> bool) : forall l, (forall x, In x l -> p x = true -> q x = false) -> find p (filter q l) = None.
Proof.
  induction l as [|x l IH]; intros H; [reflexivity|]. cbn [filter].
  destruct (q x) eqn:Eq.
  - cbn [find]. destruct (p x) eqn:Ep; [rewrite (H x (or_introl eq_refl) Ep) in Eq; discriminate|].
    apply IH. intros y Hy. apply H. right. exact Hy.
  - apply IH. intros y Hy. apply H. right. exact Hy.
Qed.

Theorem clear_deleted_keeps_hashes s d pos :
  deleted_at (prep_disk s (alloc_size s) d) pos =
  if negb (pos <? alloc_size s) || position_required s pos then deleted_at d pos else None.
Proof.
  unfold deleted_at. cbn [prep_disk set_deleted cd_deleted].
  destruct (negb (pos <? alloc_size s) || position_required s pos) eqn:E.
  - rewrite find_filter; [reflexivity|]. intros ph _ Hk. apply N.eqb_eq in Hk. rewrite Hk. exact E.
  - rewrite find_filter_none; [reflexivity|]. intros ph _ Hk. apply N.eqb_eq in Hk. rewrite Hk. exact E.
Qed.

(* the same through the whole save + load: a DELETED block that survives has the hash it had *)
Corollary saved_deleted_hash now s : forall d', In d' (c_disks (normalise now s)) -> forall pos h,
  deleted_at d' pos = Some h -> exists d, In d (c_disks s) /\ cd_name d = cd_name d' /\ deleted_at d pos = Some h.
Proof.
  intros d' Hd pos h Hh. change (c_disks (normalise now s)) with (norm_disks (alloc_size s) (pdisks s) (p_idx (prepare s))) in Hd.
  destruct (norm_disks_in (alloc_size s) (pdisks s) (p_idx (prepare s)) d' Hd) as [x [oi [Hx ->]]].
  unfold pdisks in Hx. apply in_map_iff in Hx. destruct Hx as [y [<- Hy]]. exists y. split; [exact Hy|].
  destruct oi as [i|]; [|discriminate]. split; [reflexivity|].
  unfold deleted_at in Hh. cbn [norm_disk set_deleted cd_deleted] in Hh.
  destruct (find (fun ph => fst ph =? pos) (filter (fun ph => fst ph <? alloc_size s) (cd_deleted (prep_disk s (alloc_size s) y)))) as [ph|] eqn:E; [|discriminate].
  injection Hh as <-. pose proof (find_some _ _ E) as [Hin Hk]. apply filter_In in Hin. destruct Hin as [_ Hlt]. apply N.eqb_eq in Hk.
  rewrite find_filter in E by (intros z _ Hz; apply N.eqb_eq in Hz; rewrite Hz, <- Hk; exact Hlt).
  pose proof (clear_deleted_keeps_hashes s y pos) as C. unfold deleted_at in C. rewrite E in C.
  destruct (negb (pos <? alloc_size s) || position_required s pos); [|discriminate].
  unfold deleted_at. destruct (find (fun ph0 => fst ph0 =? pos) (cd_deleted y)) as [ph'|]; [|discriminate]. injection C as <-. reflexivity.
Qed.

(* ------------------------------------------------------------------------------------------------ *)
(** * The mapped disks are decided AFTER the clean-up (state_write_content: clear unused positions, then "map disks") *)
(* `pdisks s` are the disks after fs_position_clear_deleted; a disk gets a mapping index (an 'M' record, its 'h' record) exactly when
   the disk named by one of the maps is not fs_is_empty in that cleaned state. *)
Theorem mapping_after_cleanup s :
  p_idx (prepare s) = assign_idx (pdisks s) (alloc_size s) (c_maps s) 0 (map (fun _ => None) (pdisks s)).
Proof. apply p_idx_eq. Qed.

Theorem map_kept_after_cleanup s : wf s -> forall m, In m (c_maps s) ->
  map_kept (pdisks s) (p_idx (prepare s)) m
  = negb (disk_empty (nth (dix (pdisks s) (cm_name m)) (pdisks s) (empty_disk [])) (alloc_size s)).
Proof. intros W m Hm. apply (proj2 (idxs_spec s W) m Hm). Qed.
