(* Rewriting a content file: encode now (normalise now s) = encode now s when no info time of s is clamped. *)
From Coq Require Import NArith ZArith List Bool Lia.
From Snap.Codec Require Import Varint CodecModel CodecProofs CodecRoundTrip.
From Snap.Crc Require Import CrcModel.
Import ListNotations.
Local Open Scope N_scope.

Ltac Zify.zify_post_hook ::= Z.to_euclidean_division_equations.

(* ---- the stream as a function of the writer's view ---- *)
Lemma write_body_eq now s :
  write_body now (prepare s) =
  header (version s)
  ++ [122] ++ sputb32 (c_block_size s) ++ [120] ++ sputb32 (alloc_size s)
  ++ (if version s =? 3 then [121] ++ sputb32 (c_hash_size s) else [])
  ++ [99] ++ hash_char (c_hash s) ++ c_hashseed s
  ++ (if negb (c_prevhash s =? H_UNDEF) && existsb info_rehash (pinfo s) then [67] ++ hash_char (c_prevhash s) ++ c_prevhashseed s else [])
  ++ concat (map (enc_map (pdisks s) (p_idx (prepare s))) (c_maps s))
  ++ enc_parities (version s) 0 (c_parity s)
  ++ enc_disks (alloc_size s) (pdisks s) (p_idx (prepare s))
  ++ [105] ++ sputb32 (fold_left oldest_step (pinfo s) 0)
  ++ concat (map (enc_info_run now (fold_left oldest_step (pinfo s) 0)) (groups info_rel (pinfo s)))
  ++ [78].
Proof.
  unfold write_body. change (p_blockmax (prepare s)) with (alloc_size s). rewrite p_st_info. reflexivity.
Qed.

(* ---- looking up blocks depends on the file blocks only ---- *)
Lemma has_file_state_at d d' pos : disk_blocks d' = disk_blocks d -> has_file (state_at d' pos) = has_file (state_at d pos).
Proof.
  intros E. unfold state_at. rewrite E. destruct (find _ (disk_blocks d)); [reflexivity|].
  destruct (existsb _ (cd_deleted d')), (existsb _ (cd_deleted d)); reflexivity.
Qed.

Lemma existsb_forall2 {A B} (p : A -> bool) (q : B -> bool) l l' : Forall2 (fun x y => p x = q y) l l' -> existsb p l = existsb q l'.
Proof. induction 1 as [|x y l l' H _ IH]; [reflexivity|]. cbn. rewrite H, IH. reflexivity. Qed.

Lemma forall2_map_eq {A B C} (f : A -> C) (g : B -> C) : forall l l', map f l = map g l' -> Forall2 (fun x y => f x = g y) l l'.
Proof. induction l as [|x l IH]; intros [|y l'] H; try discriminate; [constructor|]. cbn in H. injection H as H1 H2. constructor; [exact H1|apply IH; exact H2]. Qed.

Lemma position_required_same s s' pos : map disk_blocks (c_disks s') = map disk_blocks (c_disks s) ->
  position_required s' pos = position_required s pos.
Proof.
  intros E. unfold position_required. apply existsb_forall2. apply forall2_map_eq in E.
  induction E as [|x y l l' H _ IH]; constructor; [apply has_file_state_at; exact H|exact IH].
Qed.

Lemma alloc_size_same s s' : map disk_blocks (c_disks s') = map disk_blocks (c_disks s) -> alloc_size s' = alloc_size s.
Proof. intros E. unfold alloc_size, all_blocks. rewrite E. reflexivity. Qed.

(* ---- lists ---- *)
Lemma upd_same {A} (v : A) dflt : forall (l : list A) j, nth j l dflt = v -> (j < length l)%nat -> upd j (fun _ => v) l = l.
Proof.
  induction l as [|x l IH]; intros j H Hj; [cbn in Hj; lia|]. destruct j; cbn in *; [rewrite H; reflexivity|].
  rewrite IH; [reflexivity|exact H|lia].
Qed.

Lemma nth_norm_disks bm : forall (L : list cdisk) (I : list (option N)) j, length I = length L -> (j < length L)%nat ->
  nth j (norm_disks bm L I) (empty_disk []) = norm_disk bm (nth j L (empty_disk [])) (nth j I None).
Proof.
  induction L as [|x L IH]; intros [|oi I] j Hl Hj; try discriminate; [cbn in Hj; lia|].
  destruct j; [reflexivity|]. cbn [norm_disks nth]. apply IH; cbn in *; lia.
Qed.

Lemma norm_disks_length bm : forall (L : list cdisk) (I : list (option N)), length I = length L -> length (norm_disks bm L I) = length L.
Proof. induction L as [|x L IH]; intros [|oi I] H; try discriminate; [reflexivity|]. cbn. rewrite IH; [reflexivity|cbn in H; lia]. Qed.

Lemma find_filter {A} (p q : A -> bool) : forall l, (forall x, In x l -> p x = true -> q x = true) -> find p (filter q l) = find p l.
Proof.
  induction l as [|x l IH]; intros H; [reflexivity|]. cbn [filter find].
  destruct (p x) eqn:Ep.
  - rewrite (H x (or_introl eq_refl) Ep). cbn [find]. rewrite Ep. reflexivity.
  - destruct (q x); [cbn [find]; rewrite Ep|]; apply IH; intros y Hy; apply H; right; exact Hy.
Qed.

Lemma positions_lt n : forall s x, In x (positions s n) -> x < s + N.of_nat n.
Proof.
  induction n as [|n IH]; intros s x H; [contradiction|]. cbn [positions] in H. destruct H as [<-|H]; [lia|].
  apply IH in H. lia.
Qed.
