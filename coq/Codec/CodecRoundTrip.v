(* decode (conf_of s) (encode now s) = Ok (normalise now s): assembly of the per-record lemmas of CodecProofs.v *)
From Coq Require Import NArith ZArith List Bool Lia.
From Snap.Codec Require Import Varint CodecModel CodecProofs.
From Snap.Crc Require Import CrcModel.
Import ListNotations.
Local Open Scope N_scope.

Ltac Zify.zify_post_hook ::= Z.to_euclidean_division_equations.

(* ------------------------------------------------------------------------------------------------ *)
(** * Sequences of records *)

(* the stream l holds n complete records that take the loader from d to d' *)
Definition seg (k : conf) (all : list N) (d : dstate) (l : list N) (d' : dstate) : Prop :=
  exists n, (n <= length l)%nat /\ forall fuel R, records (n + fuel) k all d (l ++ R) = records fuel k all d' R.

Lemma seg_nil k all d : seg k all d [] d.
Proof. exists O. split; [cbn; lia|]. intros fuel R. reflexivity. Qed.

Lemma seg_app k all d l1 d1 l2 d2 : seg k all d l1 d1 -> seg k all d1 l2 d2 -> seg k all d (l1 ++ l2) d2.
Proof.
  intros [n1 [L1 H1]] [n2 [L2 H2]]. exists (n1 + n2)%nat. split; [rewrite app_length; lia|].
  intros fuel R. rewrite <- app_assoc, <- Nat.add_assoc, H1, H2. reflexivity.
Qed.

Lemma seg_record k all d c body d' : d_crc d = false ->
  (forall R, record k all d c (body ++ R) = Ok (d', R)) -> seg k all d (c :: body) d'.
Proof.
  intros Hc H. exists 1%nat. split; [cbn; lia|]. intros fuel R. cbn [Nat.add app records]. rewrite Hc, H. reflexivity.
Qed.

(* a list of items, each a segment *)
Lemma seg_list {X} k all (enc : X -> list N) (step : dstate -> X -> dstate) (Inv : dstate -> Prop) :
  forall xs d, Inv d ->
  (forall x d, In x xs -> Inv d -> seg k all d (enc x) (step d x) /\ Inv (step d x)) ->
  seg k all d (concat (map enc xs)) (fold_left step xs d) /\ Inv (fold_left step xs d).
Proof.
  induction xs as [|x xs IH]; intros d Hd H.
  - split; [apply seg_nil|exact Hd].
  - destruct (H x d (or_introl eq_refl) Hd) as [S1 I1].
    destruct (IH (step d x) I1) as [S2 I2]; [intros y d' Hy; apply H; right; exact Hy|].
    cbn [map concat fold_left]. split; [eapply seg_app; eassumption|exact I2].
Qed.

(* ------------------------------------------------------------------------------------------------ *)
(** * The CRC record *)
Lemma byte_of_mod v k : k + 8 <= 32 -> N.land (N.shiftr (v mod 2^32) k) 255 = N.land (N.shiftr v k) 255.
Proof.
  intros Hk. apply N.bits_inj. intros n. rewrite !N.land_spec, !N.shiftr_spec'.
  destruct (N.ltb_spec n 8) as [H|H].
  - rewrite N.mod_pow2_bits_low by lia. reflexivity.
  - change 255 with (N.ones 8). rewrite N.ones_spec_high by lia. rewrite !andb_false_r. reflexivity.
Qed.
Lemma sputble32_mod v : sputble32 v = sputble32 (v mod 2^32).
Proof.
  unfold sputble32.
  assert (B0 : N.land (v mod 2^32) 255 = N.land v 255).
  { pose proof (byte_of_mod v 0) as H. rewrite !N.shiftr_0_r in H. apply H. lia. }
  rewrite B0, !byte_of_mod by lia. reflexivity.
Qed.

Lemma sgetble32_sputble32 v R : sgetble32 (sputble32 v ++ R) = Ok (v mod 2^32, R).
Proof. rewrite sputble32_mod. apply getble32_putble32. apply N.mod_lt. discriminate. Qed.

Lemma firstn_app_exact {A} (a b : list A) : firstn (length (a ++ b) - length b) (a ++ b) = a.
Proof. rewrite app_length. replace (length a + length b - length b)%nat with (length a + 0)%nat by lia. rewrite firstn_app_2, firstn_O, app_nil_r. reflexivity. Qed.

Lemma records_crc k body d fuel : d_crc d = false ->
  records (S fuel) k (add_crc (body ++ [78])) d (78 :: sputble32 (crc32c_spec 0 (body ++ [78])))
  = Ok {| d_st := d_st d; d_blockmax := d_blockmax d; d_mapping := d_mapping d; d_crc := true |}.
Proof.
  intros Hc. cbn [records]. rewrite Hc.
  change (record k (add_crc (body ++ [78])) d 78) with (rec_crc (add_crc (body ++ [78])) d).
  unfold rec_crc. rewrite <- (app_nil_r (sputble32 _)) at 1. rewrite sgetble32_sputble32.
  unfold crc_consumed, add_crc. rewrite firstn_app_exact. unfold u32. change 4294967296 with (2^32). rewrite N.eqb_refl.
  destruct fuel; reflexivity.
Qed.

(* ------------------------------------------------------------------------------------------------ *)
(** * Well-formed states *)

Definition disk_ok (bs hs bm : N) (d : cdisk) : Prop :=
  str_ok PATH_MAX (cd_name d) /\ Forall (file_ok bs hs bm) (cd_files d) /\ Forall link_ok (cd_links d) /\
  Forall dir_ok (cd_dirs d) /\ sorted_from 0 (cd_deleted d) /\ Forall (fun ph => nlen (snd ph) = hs) (cd_deleted d) /\
  pos_unique d = true.

Record wf (s : cstate) : Prop := {
  wf_bs0 : c_block_size s <> 0;
  wf_bs : c_block_size s < 2^32;
  wf_hs : 2 <= c_hash_size s <= 16;
  wf_hash : hash_ok (c_hash s);
  wf_seed : nlen (c_hashseed s) = 16;
  wf_prev : c_prevhash s = H_UNDEF \/ hash_ok (c_prevhash s);
  wf_pseed : nlen (c_prevhashseed s) = 16;
  wf_bm : alloc_size s < 2^32;
  wf_disks : Forall (disk_ok (c_block_size s) (c_hash_size s) (alloc_size s)) (c_disks s);
  wf_names : NoDup (map cd_name (c_disks s));
  wf_maps : Forall map_fields_ok (c_maps s);
  wf_map_names : NoDup (map cm_name (c_maps s));
  wf_map_pos : NoDup (map cm_pos (c_maps s));
  wf_map_disk : forall m, In m (c_maps s) -> In (cm_name m) (map cd_name (c_disks s));
  wf_nmaps : nlen (c_maps s) < 2^32;
  (* state_map gives a map to every configured disk; a disk without map is not saved at all *)
  wf_mapped : forall d, In d (c_disks s) -> disk_empty d (alloc_size s) = false -> In (cd_name d) (map cm_name (c_maps s));
  wf_levels : nlen (c_parity s) <= LEV_MAX;
  wf_parity : Forall parity_ok (c_parity s);
  wf_info : Forall (info_ok s) (c_info s);
  (* fs_info_is_required: a synced block has an info *)
  wf_info_blk : forall b, In b (all_blocks s) -> cb_state b = BLK -> nth (N.to_nat (cb_pos b)) (c_info s) 0 <> 0 }.

(* ------------------------------------------------------------------------------------------------ *)
(** * The clean-up before the save *)

Lemma positions_length n : forall s, length (positions s n) = n.
Proof. induction n as [|n IH]; intros s; [reflexivity|]. cbn. rewrite IH. reflexivity. Qed.

Lemma prep_info_length s n : forall pos info, length (prep_info s pos n info) = n.
Proof. induction n as [|n IH]; intros pos info; [reflexivity|]. cbn. rewrite IH. reflexivity. Qed.

Lemma prep_info_nth s n : forall pos info j, (j < n)%nat ->
  nth j (prep_info s pos n info) 0 =
  let i := nth j info 0 in if i =? 0 then 0 else if position_required s (pos + N.of_nat j) then i else 0.
Proof.
  induction n as [|n IH]; intros pos info j Hj; [lia|]. cbn [prep_info]. destruct j as [|j].
  - cbn [nth]. rewrite N.add_0_r. destruct info; reflexivity.
  - cbn [nth]. rewrite IH by lia. replace (pos + 1 + N.of_nat j) with (pos + N.of_nat (S j)) by lia.
    destruct info; cbn [tl nth]; [destruct j; reflexivity|reflexivity].
Qed.

Lemma prep_info_in s n : forall pos info x, In x (prep_info s pos n info) -> x = 0 \/ In x info.
Proof.
  induction n as [|n IH]; intros pos info x H; [contradiction|]. cbn [prep_info] in H. destruct H as [H|H].
  - destruct info as [|i info]; cbn [hd] in H; [left; symmetry; exact H|].
    destruct (i =? 0); [left; symmetry; exact H|]. destruct (position_required s pos); [right; left; exact H|left; symmetry; exact H].
  - apply IH in H. destruct H as [H|H]; [left; exact H|right]. destruct info; [exact H|right; exact H].
Qed.

Lemma prep_disk_name s bm d : cd_name (prep_disk s bm d) = cd_name d. Proof. reflexivity. Qed.
Lemma prep_disk_files s bm d : cd_files (prep_disk s bm d) = cd_files d. Proof. reflexivity. Qed.
Lemma prep_disk_blocks s bm d : disk_blocks (prep_disk s bm d) = disk_blocks d. Proof. reflexivity. Qed.

Lemma sorted_from_filter p : forall D lo, sorted_from lo D -> sorted_from lo (filter p D).
Proof.
  induction D as [|ph t IH]; intros lo Hs; [exact I|]. cbn in Hs. destruct Hs as [H1 H2]. cbn [filter].
  destruct (p ph).
  - cbn. split; [exact H1|apply IH; exact H2].
  - apply (sorted_from_weaken _ (fst ph + 1)); [lia|apply IH; exact H2].
Qed.

Lemma Forall_filter {A} (P : A -> Prop) p (l : list A) : Forall P l -> Forall P (filter p l).
Proof. intros H. apply Forall_forall. intros x Hx. apply filter_In in Hx. rewrite Forall_forall in H. apply H. tauto. Qed.

(* the writer's view of the state *)
Definition pinfo (s : cstate) : list N := prep_info s 0 (N.to_nat (alloc_size s)) (c_info s).
Definition pdisks (s : cstate) : list cdisk := map (prep_disk s (alloc_size s)) (c_disks s).

Lemma p_st_info s : firstn (N.to_nat (alloc_size s)) (c_info (p_st (prepare s))) = pinfo s.
Proof.
  unfold prepare. cbn [p_st set_info c_info]. fold (pinfo s).
  rewrite firstn_app. replace (N.to_nat (alloc_size s) - length (pinfo s))%nat with O by (unfold pinfo; rewrite prep_info_length; lia).
  rewrite firstn_O, app_nil_r. apply firstn_all2. unfold pinfo. rewrite prep_info_length. lia.
Qed.
Lemma p_st_disks s : c_disks (p_st (prepare s)) = pdisks s. Proof. reflexivity. Qed.
Lemma p_blockmax_eq s : p_blockmax (prepare s) = alloc_size s. Proof. reflexivity. Qed.
Lemma p_oldest_eq s : p_oldest (prepare s) = fold_left oldest_step (pinfo s) 0. Proof. reflexivity. Qed.
Lemma p_rehash_eq s : p_rehash (prepare s) = existsb info_rehash (pinfo s). Proof. reflexivity. Qed.
Lemma p_idx_eq s : p_idx (prepare s) = assign_idx (pdisks s) (alloc_size s) (c_maps s) 0 (map (fun _ => None) (pdisks s)). Proof. reflexivity. Qed.

(* ------------------------------------------------------------------------------------------------ *)
(** * Mapping indexes *)

Lemma nth_upd_same {A} (f : A -> A) dflt : forall (l : list A) j, (j < length l)%nat -> nth j (upd j f l) dflt = f (nth j l dflt).
Proof. induction l as [|x l IH]; intros j H; [cbn in H; lia|]. destruct j; [reflexivity|]. cbn. apply IH. cbn in H. lia. Qed.
Lemma nth_upd_other {A} (f : A -> A) dflt : forall (l : list A) j j', j <> j' -> nth j (upd j' f l) dflt = nth j l dflt.
Proof.
  induction l as [|x l IH]; intros j j' H; [destruct j'; reflexivity|]. destruct j, j'; try reflexivity; [lia|].
  cbn. apply IH. lia.
Qed.
Lemma upd_length {A} (f : A -> A) : forall (l : list A) j, length (upd j f l) = length l.
Proof. induction l as [|x l IH]; intros j; [destruct j; reflexivity|]. destruct j; cbn; [reflexivity|]. rewrite IH. reflexivity. Qed.

Definition dix (D : list cdisk) (name : list N) : nat :=
  match find_idx (fun x => bytes_eqb (cd_name x) name) D with Some i => i | None => O end.

Lemma find_idx_in D name : In name (map cd_name D) -> exists i, find_idx (fun x => bytes_eqb (cd_name x) name) D = Some i.
Proof.
  induction D as [|x D IH]; intros H; [contradiction|]. cbn [find_idx].
  destruct (bytes_eqb (cd_name x) name) eqn:E; [exists O; reflexivity|].
  destruct H as [H|H]; [rewrite H, bytes_eqb_refl in E; discriminate|].
  destruct (IH H) as [i Hi]. rewrite Hi. exists (S i). reflexivity.
Qed.

Lemma dix_spec D name : In name (map cd_name D) ->
  find_idx (fun x => bytes_eqb (cd_name x) name) D = Some (dix D name) /\ (dix D name < length D)%nat /\
  cd_name (nth (dix D name) D (empty_disk [])) = name.
Proof.
  intros H. destruct (find_idx_in D name H) as [i Hi]. unfold dix. rewrite Hi. split; [reflexivity|].
  destruct (find_idx_nth _ _ _ (empty_disk []) Hi) as [H1 H2]. apply bytes_eqb_eq in H1. split; assumption.
Qed.

Lemma dix_inj D n1 n2 : In n1 (map cd_name D) -> In n2 (map cd_name D) -> dix D n1 = dix D n2 -> n1 = n2.
Proof.
  intros H1 H2 E. destruct (dix_spec D n1 H1) as [_ [_ E1]]. destruct (dix_spec D n2 H2) as [_ [_ E2]].
  rewrite <- E1, <- E2, E. reflexivity.
Qed.

(* in a list without duplicate names, the index of the j-th name is j *)
Lemma dix_nth D : NoDup (map cd_name D) -> forall j, (j < length D)%nat -> dix D (cd_name (nth j D (empty_disk []))) = j.
Proof.
  intros Hnd j Hj. set (nm := cd_name (nth j D (empty_disk []))).
  assert (Hin : In nm (map cd_name D)) by (apply in_map; apply nth_In; exact Hj).
  destruct (dix_spec D nm Hin) as [_ [Hl He]].
  rewrite NoDup_nth with (d := []) in Hnd. apply Hnd; rewrite ?map_length; try assumption.
  rewrite !(map_nth cd_name D (empty_disk [])) by assumption. exact He.
Qed.

Definition nonempty_map (D : list cdisk) (bm : N) (m : cmap) : bool :=
  negb (disk_empty (nth (dix D (cm_name m)) D (empty_disk [])) bm).

Section Assign.
Variable D : list cdisk.
Variable bm : N.

Lemma assign_other : forall maps cnt idx j,
  (forall m, In m maps -> In (cm_name m) (map cd_name D)) ->
  (forall m, In m maps -> dix D (cm_name m) <> j) ->
  nth j (assign_idx D bm maps cnt idx) None = nth j idx None.
Proof.
  induction maps as [|m t IH]; intros cnt idx j Hres Hne; [reflexivity|]. cbn [assign_idx].
  destruct (dix_spec D (cm_name m) (Hres m (or_introl eq_refl))) as [Hf _]. rewrite Hf.
  assert (Hj : j <> dix D (cm_name m)) by (intros E; apply (Hne m (or_introl eq_refl)); auto).
  destruct (disk_empty _ bm); rewrite IH by (intros; (apply Hres || apply Hne); right; assumption);
    apply nth_upd_other; exact Hj.
Qed.

Lemma assign_length : forall maps cnt idx, length (assign_idx D bm maps cnt idx) = length idx.
Proof.
  induction maps as [|m t IH]; intros cnt idx; [reflexivity|]. cbn [assign_idx].
  destruct (find_idx _ D); [|apply IH]. destruct (disk_empty _ bm); rewrite IH, upd_length; reflexivity.
Qed.

Lemma assign_spec : forall maps cnt idx mp,
  (forall m, In m maps -> In (cm_name m) (map cd_name D)) -> NoDup (map cm_name maps) -> length idx = length D ->
  N.of_nat (length mp) = cnt ->
  (forall m, In m maps -> nth (dix D (cm_name m)) idx None = None) ->
  (forall j i, nth j idx None = Some i -> (N.to_nat i < length mp)%nat /\ nth (N.to_nat i) mp O = j) ->
  let idxf := assign_idx D bm maps cnt idx in
  let mpf := mp ++ map (fun m => dix D (cm_name m)) (filter (nonempty_map D bm) maps) in
  (forall j i, nth j idxf None = Some i -> (N.to_nat i < length mpf)%nat /\ nth (N.to_nat i) mpf O = j)
  /\ (forall m, In m maps -> map_kept D idxf m = nonempty_map D bm m).
Proof.
  induction maps as [|m t IH]; intros cnt idx mp Hres Hnd Hlen Hcnt Hnone Hinv.
  - cbn. rewrite app_nil_r. split; [exact Hinv|intros m []].
  - cbn zeta. cbn [assign_idx filter].
    destruct (dix_spec D (cm_name m) (Hres m (or_introl eq_refl))) as [Hf [Hlt Hnm]]. rewrite Hf.
    cbn [map] in Hnd. apply NoDup_cons_iff in Hnd. destruct Hnd as [Hnotin Hnd'].
    assert (Hres' : forall m', In m' t -> In (cm_name m') (map cd_name D)) by (intros; apply Hres; right; assumption).
    assert (Hother : forall m', In m' t -> dix D (cm_name m') <> dix D (cm_name m)).
    { intros m' Hm' E. apply Hnotin. apply (dix_inj D) in E; [|apply Hres'; exact Hm'|apply Hres; left; reflexivity].
      rewrite <- E. apply in_map. exact Hm'. }
    destruct (disk_empty (nth (dix D (cm_name m)) D (empty_disk [])) bm) eqn:Eemp.
    + (* empty disk: no index *)
      assert (Hne : nonempty_map D bm m = false) by (unfold nonempty_map; rewrite Eemp; reflexivity). rewrite Hne.
      destruct (IH cnt (upd (dix D (cm_name m)) (fun _ => None) idx) mp Hres' Hnd') as [I1 I2].
      * rewrite upd_length. exact Hlen.
      * exact Hcnt.
      * intros m' Hm'. rewrite nth_upd_other by (apply Hother; exact Hm'). apply Hnone. right. exact Hm'.
      * intros j i Hji. destruct (Nat.eq_dec j (dix D (cm_name m))) as [E|E].
        -- subst j. rewrite nth_upd_same in Hji by lia. discriminate.
        -- rewrite nth_upd_other in Hji by exact E. apply Hinv. exact Hji.
      * split; [exact I1|]. intros m' [<-|Hm'].
        -- unfold map_kept. rewrite Hf. rewrite assign_other by (assumption || (intros; apply Hother; assumption)).
           rewrite nth_upd_same by lia. rewrite Hne. reflexivity.
        -- apply I2. exact Hm'.
    + (* mapped disk: next index *)
      assert (Hne : nonempty_map D bm m = true) by (unfold nonempty_map; rewrite Eemp; reflexivity). rewrite Hne.
      destruct (IH (cnt + 1) (upd (dix D (cm_name m)) (fun _ => Some cnt) idx) (mp ++ [dix D (cm_name m)]) Hres' Hnd') as [I1 I2].
      * rewrite upd_length. exact Hlen.
      * rewrite app_length. cbn [length]. lia.
      * intros m' Hm'. rewrite nth_upd_other by (apply Hother; exact Hm'). apply Hnone. right. exact Hm'.
      * intros j i Hji. destruct (Nat.eq_dec j (dix D (cm_name m))) as [E|E].
        -- subst j. rewrite nth_upd_same in Hji by lia. injection Hji as <-.
           rewrite <- Hcnt, Nat2N.id, app_length. cbn [length]. split; [lia|]. apply nth_app_len.
        -- rewrite nth_upd_other in Hji by exact E. destruct (Hinv j i Hji) as [H1 H2].
           rewrite app_length. split; [lia|]. rewrite app_nth1 by exact H1. exact H2.
      * cbn [map]. rewrite <- app_assoc in I1. cbn [app] in I1. split; [exact I1|]. intros m' [<-|Hm'].
        -- unfold map_kept. rewrite Hf. rewrite assign_other by (assumption || (intros; apply Hother; assumption)).
           rewrite nth_upd_same by lia. rewrite Hne. reflexivity.
        -- apply I2. exact Hm'.
Qed.

(* a disk keeps no index unless a map names it *)
Lemma assign_none : forall maps cnt idx j,
  (forall m, In m maps -> In (cm_name m) (map cd_name D)) ->
  (forall m, In m maps -> dix D (cm_name m) <> j) -> nth j idx None = None ->
  nth j (assign_idx D bm maps cnt idx) None = None.
Proof. intros. rewrite assign_other by assumption. assumption. Qed.
End Assign.

(* ------------------------------------------------------------------------------------------------ *)
(** * Phase: maps *)

Lemma find_idx_names name : forall L L' : list cdisk, map cd_name L = map cd_name L' ->
  find_idx (fun x => bytes_eqb (cd_name x) name) L = find_idx (fun x => bytes_eqb (cd_name x) name) L'.
Proof.
  induction L as [|x L IH]; intros [|y L'] H; try discriminate; [reflexivity|].
  cbn [map] in H. injection H as H1 H2. cbn [find_idx]. rewrite H1, (IH L' H2). reflexivity.
Qed.

Lemma enc_map_kept D idx m : enc_map D idx m = if map_kept D idx m then 77 :: enc_map_body m else [].
Proof.
  unfold enc_map, map_kept. destruct (find_idx _ D) as [di|]; [|reflexivity]. destruct (nth di idx None); reflexivity.
Qed.

Lemma concat_map_filter {A} (p : A -> bool) (g : A -> list N) (l : list A) :
  concat (map (fun x => if p x then g x else []) l) = concat (map g (filter p l)).
Proof.
  induction l as [|x l IH]; [reflexivity|]. cbn [map concat filter]. destruct (p x); cbn [map concat app]; rewrite IH; reflexivity.
Qed.

Definition map_step (D : list cdisk) (d : dstate) (m : cmap) : dstate :=
  {| d_st := set_maps (d_st d) (c_maps (d_st d) ++ [m]); d_blockmax := d_blockmax d;
     d_mapping := d_mapping d ++ [dix D (cm_name m)]; d_crc := d_crc d |}.

Lemma map_steps D : forall ms d, fold_left (map_step D) ms d =
  {| d_st := set_maps (d_st d) (c_maps (d_st d) ++ ms); d_blockmax := d_blockmax d;
     d_mapping := d_mapping d ++ map (fun m => dix D (cm_name m)) ms; d_crc := d_crc d |}.
Proof.
  induction ms as [|m ms IH]; intros d.
  - cbn. rewrite !app_nil_r. destruct d as [s ? ? ?]. destruct s. reflexivity.
  - cbn [fold_left]. rewrite IH. unfold map_step. cbn. rewrite <- !app_assoc. reflexivity.
Qed.

Lemma seg_maps k all D ms : forall d,
  d_crc d = false -> map cd_name (c_disks (d_st d)) = map cd_name D ->
  Forall map_fields_ok ms -> (forall m, In m ms -> In (cm_name m) (map cd_name D)) ->
  seg k all d (concat (map (fun m => 77 :: enc_map_body m) ms)) (fold_left (map_step D) ms d).
Proof.
  intros d Hc Hn Hok Hres.
  apply (seg_list k all (fun m => 77 :: enc_map_body m) (map_step D)
           (fun d => d_crc d = false /\ map cd_name (c_disks (d_st d)) = map cd_name D) ms d (conj Hc Hn)).
  intros m d' Hm [Hc' Hn']. split; [|split; [exact Hc'|exact Hn']].
  apply seg_record; [exact Hc'|]. intros R.
  change (record k all d' 77) with (rec_map k 77 d').
  rewrite Forall_forall in Hok.
  rewrite (rec_map_reads k d' m (dix D (cm_name m)) R (Hok m Hm)); [reflexivity|].
  rewrite (find_idx_names _ _ D Hn'). apply dix_spec. apply Hres. exact Hm.
Qed.

(* ------------------------------------------------------------------------------------------------ *)
(** * Phase: parity levels *)

Definition conf_parity (p : cparity) : cparity :=
  {| cp_total := 0; cp_free := 0;
     cp_splits := map (fun x => {| cs_path := cs_path x; cs_uuid := []; cs_size := SIZE_INVALID |}) (cp_splits p) |}.

Lemma conf_parity_paths p : map cs_path (cp_splits (conf_parity p)) = map cs_path (cp_splits p).
Proof. unfold conf_parity. cbn [cp_splits]. rewrite map_map. reflexivity. Qed.
Lemma conf_parity_sizes p : Forall (fun x => cs_size x = SIZE_INVALID) (cp_splits (conf_parity p)).
Proof. unfold conf_parity. cbn [cp_splits]. apply Forall_map. apply Forall_forall. intros; reflexivity. Qed.

Lemma norm_parity_3 p : norm_parity 3 p = p. Proof. reflexivity. Qed.

Lemma seg_parities k all v : k_no_conf k = false -> forall post pre d,
  d_crc d = false -> c_parity (d_st d) = pre ++ map conf_parity post -> nlen pre + nlen post <= LEV_MAX ->
  Forall parity_ok post -> (v = 3 \/ (v = 2 /\ Forall (fun p => nlen (cp_splits p) = 1) post)) ->
  seg k all d (enc_parities v (nlen pre) post) (with_st d (set_parity (d_st d) (pre ++ map (norm_parity v) post))).
Proof.
  intros Hk. induction post as [|p post IH]; intros pre d Hc Hpl Hlev Hok Hv.
  - cbn [enc_parities map]. cbn [map] in Hpl. rewrite <- Hpl.
    replace (with_st d (set_parity (d_st d) (c_parity (d_st d)))) with d by (destruct d as [s ? ? ?]; destruct s; reflexivity).
    apply seg_nil.
  - cbn [enc_parities map]. cbn [map] in Hpl. rewrite nlen_cons in Hlev.
    pose proof (Forall_inv Hok) as Hp. pose proof (Forall_inv_tail Hok) as Hok'.
    assert (Hlt : nlen pre < LEV_MAX) by lia.
    set (p' := norm_parity v p).
    assert (S1 : seg k all d (enc_parity v (nlen pre) p) (with_st d (set_parity (d_st d) (pre ++ p' :: map conf_parity post)))).
    { rewrite enc_parity_eq. destruct Hv as [->|[-> H1]].
      - change (3 =? 3) with true. cbv iota. apply seg_record; [exact Hc|]. intros R.
        change (record k all d 81) with (rec_parity_Q k d).
        apply (rec_Q_reads k d p (conf_parity p) pre (map conf_parity post) R Hk Hpl Hlt Hp (conf_parity_paths p)).
      - change (2 =? 3) with false. cbv iota. apply seg_record; [exact Hc|]. intros R.
        change (record k all d 80) with (rec_parity_P k d).
        apply (rec_P_reads k d p (conf_parity p) pre (map conf_parity post) R Hk Hpl Hlt Hp (Forall_inv H1) (conf_parity_paths p) (conf_parity_sizes p)). }
    eapply seg_app; [exact S1|].
    replace (nlen pre + 1) with (nlen (pre ++ [p'])) by (rewrite nlen_app; reflexivity).
    replace (with_st d (set_parity (d_st d) (pre ++ p' :: map (norm_parity v) post)))
      with (with_st (with_st d (set_parity (d_st d) (pre ++ p' :: map conf_parity post)))
              (set_parity (d_st (with_st d (set_parity (d_st d) (pre ++ p' :: map conf_parity post)))) ((pre ++ [p']) ++ map (norm_parity v) post)))
      by (rewrite <- app_assoc; reflexivity).
    apply IH.
    + exact Hc.
    + cbn. rewrite <- app_assoc. reflexivity.
    + rewrite nlen_app. unfold nlen at 2. cbn [length]. lia.
    + exact Hok'.
    + destruct Hv as [->|[-> H1]]; [left; reflexivity|right; split; [reflexivity|exact (Forall_inv_tail H1)]].
Qed.

(* ------------------------------------------------------------------------------------------------ *)
(** * Phase: disks *)

Lemma upd_upd {A} (f g : A -> A) : forall (l : list A) j, upd j g (upd j f l) = upd j (fun x => g (f x)) l.
Proof. induction l as [|x l IH]; intros j; [destruct j; reflexivity|]. destruct j; cbn; [reflexivity|]. rewrite IH. reflexivity. Qed.
Lemma upd_id {A} : forall (l : list A) j, upd j (fun x => x) l = l.
Proof. induction l as [|x l IH]; intros j; [destruct j; reflexivity|]. destruct j; cbn; [reflexivity|]. rewrite IH. reflexivity. Qed.
Lemma upd_ext {A} (f g : A -> A) : (forall x, f x = g x) -> forall (l : list A) j, upd j f l = upd j g l.
Proof. intros E. induction l as [|x l IH]; intros j; [destruct j; reflexivity|]. destruct j; cbn; [rewrite E; reflexivity|]. rewrite IH. reflexivity. Qed.

(* the part of the loader state that the records of a disk leave alone *)
Definition dInv (M : list nat) (bm bs hs : N) (d : dstate) : Prop :=
  d_crc d = false /\ d_mapping d = M /\ d_blockmax d = bm /\ c_block_size (d_st d) = bs /\ c_hash_size (d_st d) = hs.
Definition dstep (j : nat) (g : cdisk -> cdisk) (d : dstate) : dstate := with_st d (on_disk (d_st d) j g).

Lemma dInv_step M bm bs hs j g d : dInv M bm bs hs d -> dInv M bm bs hs (dstep j g d).
Proof. intros H. exact H. Qed.

Lemma dstep_dstep j f g d : dstep j g (dstep j f d) = dstep j (fun x => g (f x)) d.
Proof. unfold dstep, with_st, on_disk, set_disks. cbn. rewrite upd_upd. reflexivity. Qed.
Lemma dstep_id j d : dstep j (fun x => x) d = d.
Proof. unfold dstep, on_disk. rewrite upd_id, set_disks_id, with_st_id. reflexivity. Qed.
Lemma dstep_ext j f g d : (forall x, f x = g x) -> dstep j f d = dstep j g d.
Proof. intros E. unfold dstep, on_disk. rewrite (upd_ext f g E). reflexivity. Qed.

Lemma fold_dstep {X} j (h : X -> cdisk -> cdisk) : forall xs d,
  fold_left (fun d x => dstep j (h x) d) xs d = dstep j (fun c => fold_left (fun c x => h x c) xs c) d.
Proof.
  induction xs as [|x xs IH]; intros d; [cbn; rewrite dstep_id; reflexivity|].
  cbn [fold_left]. rewrite IH, dstep_dstep. reflexivity.
Qed.

Lemma fold_files fs : forall c, fold_left (fun c f => add_file f c) fs c =
  {| cd_name := cd_name c; cd_files := cd_files c ++ fs; cd_links := cd_links c; cd_dirs := cd_dirs c; cd_deleted := cd_deleted c |}.
Proof. induction fs as [|f fs IH]; intros c; [cbn; rewrite app_nil_r; destruct c; reflexivity|]. cbn [fold_left]. rewrite IH. cbn. rewrite <- app_assoc. reflexivity. Qed.
Lemma fold_links ls : forall c, fold_left (fun c f => add_link f c) ls c =
  {| cd_name := cd_name c; cd_files := cd_files c; cd_links := cd_links c ++ ls; cd_dirs := cd_dirs c; cd_deleted := cd_deleted c |}.
Proof. induction ls as [|f fs IH]; intros c; [cbn; rewrite app_nil_r; destruct c; reflexivity|]. cbn [fold_left]. rewrite IH. cbn. rewrite <- app_assoc. reflexivity. Qed.
Lemma fold_dirs ls : forall c, fold_left (fun c f => add_dir f c) ls c =
  {| cd_name := cd_name c; cd_files := cd_files c; cd_links := cd_links c; cd_dirs := cd_dirs c ++ ls; cd_deleted := cd_deleted c |}.
Proof. induction ls as [|f fs IH]; intros c; [cbn; rewrite app_nil_r; destruct c; reflexivity|]. cbn [fold_left]. rewrite IH. cbn. rewrite <- app_assoc. reflexivity. Qed.

Section Disk.
Variables (k : conf) (all : list N) (M : list nat) (bm bs hs : N).
Hypothesis Hk : plain k.
Hypothesis Hbs : bs <> 0.
Hypothesis Hhs : 0 < hs.
Hypothesis Hbm : bm < 2^32.

Lemma mapping_of_inv d i j : dInv M bm bs hs d -> i < nlen M -> i < 2^32 -> nth (N.to_nat i) M O = j -> mapping_ok d i j.
Proof. intros [_ [Hm _]] H1 H2 H3. unfold mapping_ok. rewrite Hm. auto. Qed.

Lemma seg_items {X} (enc : N -> X -> list N) (h : X -> cdisk -> cdisk) (ok : X -> Prop) i j :
  i < nlen M -> i < 2^32 -> nth (N.to_nat i) M O = j ->
  (forall x d, ok x -> dInv M bm bs hs d -> seg k all d (enc i x) (dstep j (h x) d)) ->
  forall xs d, Forall ok xs -> dInv M bm bs hs d ->
  seg k all d (concat (map (enc i) xs)) (dstep j (fun c => fold_left (fun c x => h x c) xs c) d).
Proof.
  intros H1 H2 H3 Hone xs d Hok Hd. rewrite <- fold_dstep.
  apply (seg_list k all (enc i) (fun d x => dstep j (h x) d) (dInv M bm bs hs) xs d Hd).
  intros x d' Hx Hd'. split; [|exact Hd']. apply Hone; [|exact Hd']. rewrite Forall_forall in Hok. apply Hok. exact Hx.
Qed.

Lemma seg_file i j f d : i < nlen M -> i < 2^32 -> nth (N.to_nat i) M O = j ->
  file_ok bs hs bm f -> dInv M bm bs hs d -> seg k all d (enc_file i f) (dstep j (add_file f) d).
Proof.
  intros H1 H2 H3 Hf Hd. pose proof (mapping_of_inv d i j Hd H1 H2 H3) as Hmap.
  destruct Hd as [Hc [Hm [Hb [Hs Hh]]]]. rewrite enc_file_eq. apply seg_record; [exact Hc|]. intros R.
  change (record k all d 102) with (rec_file k d).
  apply rec_file_reads; rewrite ?Hs, ?Hh, ?Hb; assumption.
Qed.

Lemma seg_link i j x d : i < nlen M -> i < 2^32 -> nth (N.to_nat i) M O = j ->
  link_ok x -> dInv M bm bs hs d -> seg k all d (enc_link i x) (dstep j (add_link x) d).
Proof.
  intros H1 H2 H3 Hx Hd. pose proof (mapping_of_inv d i j Hd H1 H2 H3) as Hmap.
  destruct Hd as [Hc _]. rewrite enc_link_eq. apply seg_record; [exact Hc|]. intros R.
  destruct (cl_hard x) eqn:E.
  - change (record k all d 97) with (rec_link true d). rewrite <- E. apply rec_link_reads; assumption.
  - change (record k all d 115) with (rec_link false d). rewrite <- E. apply rec_link_reads; assumption.
Qed.

Lemma seg_dir i j x d : i < nlen M -> i < 2^32 -> nth (N.to_nat i) M O = j ->
  dir_ok x -> dInv M bm bs hs d -> seg k all d (enc_dir i x) (dstep j (add_dir x) d).
Proof.
  intros H1 H2 H3 Hx Hd. pose proof (mapping_of_inv d i j Hd H1 H2 H3) as Hmap.
  destruct Hd as [Hc _]. rewrite enc_dir_eq. apply seg_record; [exact Hc|]. intros R.
  change (record k all d 114) with (rec_dir d). apply rec_dir_reads; assumption.
Qed.

Lemma lookup_hash_ok Dl : Forall (fun ph => nlen (snd ph) = hs) Dl -> forall pos, hole_hash_ok hs (lookup Dl pos).
Proof.
  intros H pos. unfold lookup. destruct (find _ Dl) as [ph|] eqn:E; [|exact I].
  apply find_some in E. destruct E as [E _]. rewrite Forall_forall in H. exact (H ph E).
Qed.

Lemma seg_hole i j x d : i < nlen M -> i < 2^32 -> nth (N.to_nat i) M O = j ->
  sorted_from 0 (cd_deleted x) -> Forall (fun ph => nlen (snd ph) = hs) (cd_deleted x) -> dInv M bm bs hs d ->
  seg k all d ([104] ++ sputb32 i ++ enc_holes bm x)
      (dstep j (add_deleted (filter (fun ph => fst ph <? bm) (cd_deleted x))) d).
Proof.
  intros H1 H2 H3 Hsort Hhash Hd. pose proof (mapping_of_inv d i j Hd H1 H2 H3) as Hmap.
  destruct Hd as [Hc [Hm [Hb [Hs Hh]]]]. cbn [app]. apply seg_record; [exact Hc|]. intros R.
  change (record k all d 104) with (rec_hole k d). unfold rec_hole. rewrite <- app_assoc.
  rewrite (rb_mapping d i j _ _ Hmap). rewrite Hs, Hh, Hb.
  unfold enc_holes. set (dense := map (deleted_at x) (positions 0 (N.to_nat bm))).
  set (gs := groups hole_rel dense).
  assert (Hc' : concat gs = dense) by apply groups_concat.
  assert (Hg : Forall (group_ok hole_rel) gs) by apply groups_ok.
  assert (Hok : Forall (Forall (hole_hash_ok hs)) gs).
  { apply Forall_concat_inv. rewrite Hc'. unfold dense. apply Forall_map. apply Forall_forall. intros pos _.
    rewrite deleted_at_lookup. apply lookup_hash_ok. exact Hhash. }
  unfold rbind at 1.
  rewrite (read_holes_all k hs bs bm Hk Hhs Hbs Hbm gs Hg Hok).
  - unfold rret. cbn [app]. rewrite Hc'. unfold dense. rewrite deleted_at_lookup.
    rewrite (sparse_dense (N.to_nat bm) 0 (cd_deleted x) Hsort). rewrite N2Nat.id. reflexivity.
  - assert (length gs <= length (concat (map enc_hole_run gs)))%nat; [|rewrite app_length; lia].
    rewrite <- (map_length enc_hole_run gs) at 1. apply concat_length_ge. apply Forall_map.
    eapply Forall_impl; [|exact Hg]. intros g Hgg. apply enc_hole_run_nonempty. destruct g; [contradiction|discriminate].
  - rewrite Hc'. unfold dense, nlen. rewrite map_length, positions_length, N2Nat.id. reflexivity.
Qed.

Definition pdisk_ok (x : cdisk) : Prop :=
  Forall (file_ok bs hs bm) (cd_files x) /\ Forall link_ok (cd_links x) /\ Forall dir_ok (cd_dirs x) /\
  sorted_from 0 (cd_deleted x) /\ Forall (fun ph => nlen (snd ph) = hs) (cd_deleted x).

Lemma seg_disk i j x d : i < nlen M -> i < 2^32 -> nth (N.to_nat i) M O = j -> pdisk_ok x -> dInv M bm bs hs d ->
  seg k all d (enc_disk bm x (Some i))
    (dstep j (fun c => add_deleted (filter (fun ph => fst ph <? bm) (cd_deleted x))
                         (fold_left (fun c f => add_dir f c) (cd_dirs x)
                            (fold_left (fun c f => add_link f c) (cd_links x)
                               (fold_left (fun c f => add_file f c) (cd_files x) c)))) d).
Proof.
  intros H1 H2 H3 [Hf [Hl [Hd [Hsort Hhash]]]] Hinv. unfold enc_disk.
  pose proof (seg_items enc_file (fun f c => add_file f c) (file_ok bs hs bm) i j H1 H2 H3
                (fun f d' Hf' Hd' => seg_file i j f d' H1 H2 H3 Hf' Hd') (cd_files x) d Hf Hinv) as S1.
  set (d1 := dstep j (fun c => fold_left (fun c f => add_file f c) (cd_files x) c) d) in *.
  assert (I1 : dInv M bm bs hs d1) by exact Hinv.
  pose proof (seg_items enc_link (fun f c => add_link f c) link_ok i j H1 H2 H3
                (fun f d' Hf' Hd' => seg_link i j f d' H1 H2 H3 Hf' Hd') (cd_links x) d1 Hl I1) as S2.
  set (d2 := dstep j (fun c => fold_left (fun c f => add_link f c) (cd_links x) c) d1) in *.
  assert (I2 : dInv M bm bs hs d2) by exact Hinv.
  pose proof (seg_items enc_dir (fun f c => add_dir f c) dir_ok i j H1 H2 H3
                (fun f d' Hf' Hd' => seg_dir i j f d' H1 H2 H3 Hf' Hd') (cd_dirs x) d2 Hd I2) as S3.
  set (d3 := dstep j (fun c => fold_left (fun c f => add_dir f c) (cd_dirs x) c) d2) in *.
  assert (I3 : dInv M bm bs hs d3) by exact Hinv.
  pose proof (seg_hole i j x d3 H1 H2 H3 Hsort Hhash I3) as S4.
  replace (dstep j _ d) with (dstep j (add_deleted (filter (fun ph => fst ph <? bm) (cd_deleted x))) d3)
    by (unfold d3, d2, d1; rewrite !dstep_dstep; reflexivity).
  eapply seg_app; [exact S1|]. eapply seg_app; [exact S2|]. eapply seg_app; [exact S3|exact S4].
Qed.
End Disk.

Section Disks.
Variables (k : conf) (all : list N) (M : list nat) (bm bs hs : N).
Hypothesis Hk : plain k.
Hypothesis Hbs : bs <> 0.
Hypothesis Hhs : 0 < hs.
Hypothesis Hbm : bm < 2^32.

Lemma norm_disk_built x i :
  add_deleted (filter (fun ph => fst ph <? bm) (cd_deleted x))
    (fold_left (fun c f => add_dir f c) (cd_dirs x)
       (fold_left (fun c f => add_link f c) (cd_links x)
          (fold_left (fun c f => add_file f c) (cd_files x) (empty_disk (cd_name x)))))
  = norm_disk bm x (Some i).
Proof. rewrite fold_files, fold_links, fold_dirs. destruct x. reflexivity. Qed.

Lemma seg_disks : forall post idxs Lpre d,
  dInv M bm bs hs d -> c_disks (d_st d) = Lpre ++ map (fun x => empty_disk (cd_name x)) post ->
  length idxs = length post -> Forall (pdisk_ok bm bs hs) post ->
  (forall n i, nth n idxs None = Some i -> i < nlen M /\ i < 2^32 /\ nth (N.to_nat i) M O = (length Lpre + n)%nat) ->
  seg k all d (enc_disks bm post idxs) (with_st d (set_disks (d_st d) (Lpre ++ norm_disks bm post idxs))).
Proof.
  induction post as [|x post IH]; intros idxs Lpre d Hinv Hdisks Hlen Hok Hidx.
  - destruct idxs; [|discriminate]. cbn [enc_disks norm_disks map] in *. rewrite <- Hdisks, set_disks_id, with_st_id. apply seg_nil.
  - destruct idxs as [|oi idxs]; [discriminate|]. cbn [enc_disks norm_disks]. cbn [map] in Hdisks.
    pose proof (Forall_inv Hok) as Hx. pose proof (Forall_inv_tail Hok) as Hok'.
    assert (Hlen' : length idxs = length post) by (cbn in Hlen; lia).
    assert (Hidx' : forall L' : list cdisk, length L' = S (length Lpre) -> forall n i, nth n idxs None = Some i ->
                      i < nlen M /\ i < 2^32 /\ nth (N.to_nat i) M O = (length L' + n)%nat).
    { intros L' HL n i Hn. destruct (Hidx (S n) i Hn) as [A [B C]]. rewrite HL. repeat split; try assumption. rewrite C. lia. }
    destruct oi as [i|].
    + destruct (Hidx O i eq_refl) as [A [B C]]. rewrite Nat.add_0_r in C.
      pose proof (seg_disk k all M bm bs hs Hk Hbs Hhs Hbm i (length Lpre) x d A B C Hx Hinv) as S1.
      set (F := fun c => add_deleted _ _) in S1.
      set (d1 := dstep (length Lpre) F d) in *.
      assert (Hd1 : c_disks (d_st d1) = (Lpre ++ [norm_disk bm x (Some i)]) ++ map (fun x => empty_disk (cd_name x)) post).
      { unfold d1, dstep, on_disk. cbn [d_st with_st set_disks c_disks]. rewrite Hdisks, upd_app_len.
        unfold F. rewrite (norm_disk_built x i). rewrite <- app_assoc. reflexivity. }
      eapply seg_app; [exact S1|].
      replace (with_st d (set_disks (d_st d) (Lpre ++ norm_disk bm x (Some i) :: norm_disks bm post idxs)))
        with (with_st d1 (set_disks (d_st d1) ((Lpre ++ [norm_disk bm x (Some i)]) ++ norm_disks bm post idxs)))
        by (rewrite <- app_assoc; reflexivity).
      apply IH; [exact Hinv|exact Hd1|exact Hlen'|exact Hok'|].
      apply Hidx'. rewrite app_length. cbn. lia.
    + cbn [enc_disk app norm_disk].
      replace (Lpre ++ empty_disk (cd_name x) :: norm_disks bm post idxs) with ((Lpre ++ [empty_disk (cd_name x)]) ++ norm_disks bm post idxs)
        by (rewrite <- app_assoc; reflexivity).
      apply IH; [exact Hinv|rewrite Hdisks, <- app_assoc; reflexivity|exact Hlen'|exact Hok'|].
      apply Hidx'. rewrite app_length. cbn. lia.
Qed.
End Disks.

(* ------------------------------------------------------------------------------------------------ *)
(** * Phase: info *)

Lemma seg_info k all now oldest il d :
  d_crc d = false -> d_blockmax d = nlen il -> nlen il < 2^32 -> oldest < 2^32 -> c_info (d_st d) = [] ->
  Forall (info_ok (d_st d)) il ->
  (forall b, In b (all_blocks (d_st d)) -> cb_state b = BLK -> cb_pos b < nlen il ->
             norm_info now oldest (nth (N.to_nat (cb_pos b)) il 0) <> 0) ->
  seg k all d ([105] ++ sputb32 oldest ++ concat (map (enc_info_run now oldest) (groups info_rel il)))
      (with_st d (set_info (d_st d) (map (norm_info now oldest) il))).
Proof.
  intros Hc Hb Hlt Hold Hnil Hok Hblk. cbn [app]. apply seg_record; [exact Hc|]. intros R.
  change (record k all d 105) with (rec_info d). unfold rec_info. rewrite <- app_assoc. rewrite rb_b32 by exact Hold.
  set (gs := groups info_rel il).
  assert (Hc' : concat gs = il) by apply groups_concat.
  assert (Hg : Forall (group_ok info_rel) gs) by apply groups_ok.
  assert (Hoks : Forall (Forall (info_ok (d_st d))) gs) by (apply Forall_concat_inv; rewrite Hc'; exact Hok).
  unfold rbind at 1. rewrite Hb.
  rewrite (read_info_all (d_st d) (nlen il) now oldest Hlt Hold gs Hg Hoks).
  - unfold rret. cbn [app]. rewrite Hc', Hnil. rewrite skipn_nil, app_nil_r. reflexivity.
  - assert (length gs <= length (concat (map (enc_info_run now oldest) gs)))%nat; [|rewrite app_length; lia].
    rewrite <- (map_length (enc_info_run now oldest) gs) at 1. apply concat_length_ge. apply Forall_map.
    eapply Forall_impl; [|exact Hg]. intros g Hgg. apply enc_info_run_nonempty. destruct g; [contradiction|discriminate].
  - rewrite Hc'. lia.
  - intros b Hin Hs _ Hhi. rewrite Hc', N.sub_0_r. apply Hblk; assumption.
Qed.

(* ---- an info never becomes "no info" ---- *)
Lemma low3 i : i = info_time i + b2n (info_bad i) + 2 * b2n (info_rehash i) + 4 * b2n (info_justsynced i).
Proof.
  unfold info_time, info_bad, info_rehash, info_justsynced.
  change b2n with N.b2n. rewrite !N.testbit_spec'. change (2^0) with 1. change (2^1) with 2. change (2^2) with 4. lia.
Qed.

Lemma norm_info_nonzero now oldest i : i <> 0 -> i < 2^32 -> 8 <= now -> oldest < 2^32 -> norm_info now oldest i <> 0.
Proof.
  intros Hi Hlt Hnow Hold. unfold norm_info. destruct (N.eqb_spec i 0) as [E|_]; [contradiction|].
  pose proof (low3 i) as L. pose proof (info_wtime_lt now oldest i Hlt) as Hw. rewrite (u32_small _ Hw).
  unfold info_make.
  destruct (info_bad i); [cbn [b2n]; lia|]. destruct (info_rehash i); [cbn [b2n]; lia|]. destruct (info_justsynced i); [cbn [b2n]; lia|].
  cbn [b2n] in *. assert (T : 8 <= info_time i) by (unfold info_time in *; lia).
  assert (S8 : 8 <= info_wtime now oldest i + oldest /\ info_wtime now oldest i + oldest < 2^32).
  { unfold info_wtime. destruct (N.ltb_spec now (info_time i)); [destruct (N.ltb_spec now oldest)|destruct (N.ltb_spec (info_time i) oldest)]; lia. }
  rewrite u32_small by lia. lia.
Qed.

Lemma fold_oldest_lt il : Forall (fun i => i < 2^32) il -> forall o, o < 2^32 -> fold_left oldest_step il o < 2^32.
Proof.
  induction 1 as [|i il Hi _ IH]; intros o Ho; [exact Ho|]. cbn [fold_left]. apply IH. unfold oldest_step.
  destruct (i =? 0); [exact Ho|]. pose proof (info_time_le i). destruct ((o =? 0) || (info_time i <? o)); lia.
Qed.

(* ------------------------------------------------------------------------------------------------ *)
(** * Facts about a well-formed state *)

Lemma in_all_blocks s b : In b (all_blocks s) <-> exists d, In d (c_disks s) /\ In b (disk_blocks d).
Proof.
  unfold all_blocks. rewrite in_concat. split.
  - intros [l [Hl Hb]]. apply in_map_iff in Hl. destruct Hl as [d [<- Hd]]. exists d. auto.
  - intros [d [Hd Hb]]. exists (disk_blocks d). split; [apply in_map; exact Hd|exact Hb].
Qed.
Lemma in_disk_blocks d b : In b (disk_blocks d) <-> exists f, In f (cd_files d) /\ In b (cf_blocks f).
Proof.
  unfold disk_blocks. rewrite in_concat. split.
  - intros [l [Hl Hb]]. apply in_map_iff in Hl. destruct Hl as [f [<- Hf]]. exists f. auto.
  - intros [f [Hf Hb]]. exists (cf_blocks f). split; [apply in_map; exact Hf|exact Hb].
Qed.

Lemma fold_max_ge (l : list cblock) : forall m b, In b l -> cb_pos b + 1 <= fold_left (fun m b => N.max m (cb_pos b + 1)) l m.
Proof.
  induction l as [|x l IH]; intros m b H; [contradiction|]. cbn [fold_left]. destruct H as [->|H].
  - assert (G : forall l m, m <= fold_left (fun m b => N.max m (cb_pos b + 1)) l m).
    { clear. induction l as [|x l IH]; intros m; [cbn; lia|]. cbn [fold_left]. specialize (IH (N.max m (cb_pos x + 1))). lia. }
    specialize (G l (N.max m (cb_pos b + 1))). lia.
  - apply IH. exact H.
Qed.
Lemma alloc_size_gt s b : In b (all_blocks s) -> cb_pos b < alloc_size s.
Proof. intros H. pose proof (fold_max_ge (all_blocks s) 0 b H). unfold alloc_size. lia. Qed.

Section WF.
Variable s : cstate.
Hypothesis W : wf s.

Lemma wf_block_state b : In b (all_blocks s) -> state_ok (cb_state b).
Proof.
  intros H. apply in_all_blocks in H. destruct H as [d [Hd Hb]]. apply in_disk_blocks in Hb. destruct Hb as [f [Hf Hb]].
  pose proof (wf_disks s W) as WD. rewrite Forall_forall in WD. destruct (WD d Hd) as [_ [Hfs _]].
  rewrite Forall_forall in Hfs. destruct (Hfs f Hf) as [_ [_ [_ [_ [_ [_ [_ [_ [Hok _]]]]]]]]].
  rewrite Forall_forall in Hok. exact (proj1 (Hok b Hb)).
Qed.

Lemma has_file_ok st : state_ok st -> has_file st = true.
Proof. intros [-> | [-> | ->]]; reflexivity. Qed.

Lemma wf_required b : In b (all_blocks s) -> position_required s (cb_pos b) = true.
Proof.
  intros H. pose proof H as H0. apply in_all_blocks in H. destruct H as [d [Hd Hb]].
  unfold position_required. apply existsb_exists. exists d. split; [exact Hd|].
  unfold state_at. destruct (find (fun b0 => cb_pos b0 =? cb_pos b) (disk_blocks d)) as [b'|] eqn:E.
  - apply find_some in E. destruct E as [E1 _]. apply has_file_ok. apply wf_block_state.
    apply in_all_blocks. exists d. auto.
  - exfalso. pose proof (find_none _ _ E b Hb) as F. cbv beta in F. rewrite N.eqb_refl in F. discriminate.
Qed.
End WF.

(* ------------------------------------------------------------------------------------------------ *)
(** * The round trip *)

Lemma version_cases s : version s = 3 \/ (version s = 2 /\ Forall (fun p => nlen (cp_splits p) <= 1) (c_parity s) /\ c_hash_size s = 16).
Proof.
  unfold version. destruct (existsb (fun p => 1 <? nlen (cp_splits p)) (c_parity s)) eqn:E1; [left; reflexivity|].
  destruct (N.eqb_spec (c_hash_size s) 16) as [E2|E2]; cbn [negb orb]; [|left; reflexivity].
  right. split; [reflexivity|split; [|exact E2]]. apply Forall_forall. intros p Hp.
  destruct (N.ltb_spec 1 (nlen (cp_splits p))) as [H|H]; [|exact H].
  exfalso. assert (existsb (fun p => 1 <? nlen (cp_splits p)) (c_parity s) = true); [|congruence].
  apply existsb_exists. exists p. split; [exact Hp|apply N.ltb_lt; exact H].
Qed.

Lemma take_header v R : take 12 (header v ++ R) = Ok (header v, R).
Proof. apply (take_app (header v) R). Qed.

Section RoundTrip.
Variables (now : N) (s : cstate).
Hypothesis W : wf s.
Hypothesis Hnow : 8 <= now.

Let k := conf_of s.
Let bm := alloc_size s.
Let D := pdisks s.
Let idxs := p_idx (prepare s).
Let kept := filter (nonempty_map D bm) (c_maps s).
Let mp := map (fun m => dix D (cm_name m)) kept.
Let v := version s.
Let il := pinfo s.
Let oldest := fold_left oldest_step il 0.
Let keep := negb (c_prevhash s =? H_UNDEF) && existsb info_rehash il.

Lemma D_names : map cd_name D = map cd_name (c_disks s).
Proof. unfold D, pdisks. rewrite map_map. reflexivity. Qed.

Lemma D_length : length D = length (c_disks s).
Proof. unfold D, pdisks. apply map_length. Qed.

Lemma maps_resolvable : forall m, In m (c_maps s) -> In (cm_name m) (map cd_name D).
Proof. intros m Hm. rewrite D_names. apply (wf_map_disk s W). exact Hm. Qed.

Lemma idxs_spec :
  (forall j i, nth j idxs None = Some i -> (N.to_nat i < length mp)%nat /\ nth (N.to_nat i) mp O = j)
  /\ (forall m, In m (c_maps s) -> map_kept D idxs m = nonempty_map D bm m).
Proof.
  unfold idxs. rewrite p_idx_eq. fold D bm.
  apply (assign_spec D bm (c_maps s) 0 (map (fun _ => None) D) [] maps_resolvable (wf_map_names s W)).
  - apply map_length.
  - reflexivity.
  - intros m _. assert (G : forall (l : list cdisk) j, nth j (map (fun _ => @None N) l) None = None).
    { induction l as [|x l IH]; intros [|j]; try reflexivity. cbn. apply IH. } apply G.
  - intros j i H. exfalso. assert (G : forall (l : list cdisk) j, nth j (map (fun _ => @None N) l) None = None).
    { induction l as [|x l IH]; intros [|j']; try reflexivity. cbn. apply IH. } rewrite G in H. discriminate.
Qed.

Lemma idxs_length : length idxs = length D.
Proof. unfold idxs. rewrite p_idx_eq. fold D bm. rewrite assign_length. apply map_length. Qed.

Lemma kept_eq : filter (map_kept D idxs) (c_maps s) = kept.
Proof. unfold kept. apply filter_ext_in. intros m Hm. apply (proj2 idxs_spec). exact Hm. Qed.

Lemma mp_bound : nlen mp < 2^32.
Proof.
  pose proof (wf_nmaps s W). unfold mp, kept, nlen in *. rewrite map_length.
  assert (length (filter (nonempty_map D bm) (c_maps s)) <= length (c_maps s))%nat; [|lia].
  clear. induction (c_maps s) as [|m l IH]; [cbn; lia|]. cbn [filter]. destruct (nonempty_map D bm m); cbn [length]; lia.
Qed.

Lemma idxs_mapping : forall n i, nth n idxs None = Some i ->
  i < nlen mp /\ i < 2^32 /\ nth (N.to_nat i) mp O = (length (@nil cdisk) + n)%nat.
Proof.
  intros n i H. destruct (proj1 idxs_spec n i H) as [H1 H2]. pose proof mp_bound. unfold nlen in *.
  repeat split; [lia|lia|exact H2].
Qed.

(* the disks as the writer sees them are fine *)
Lemma D_ok : Forall (pdisk_ok bm (c_block_size s) (c_hash_size s)) D.
Proof.
  unfold D, pdisks. apply Forall_map. pose proof (wf_disks s W) as WD. eapply Forall_impl; [|exact WD].
  intros x [_ [Hf [Hl [Hd [Hs [Hh _]]]]]]. unfold pdisk_ok. cbn [prep_disk set_deleted cd_files cd_links cd_dirs cd_deleted].
  repeat split; try assumption; [apply sorted_from_filter; exact Hs|apply Forall_filter; exact Hh].
Qed.

Lemma il_length : nlen il = bm.
Proof. unfold il, pinfo, nlen. rewrite prep_info_length. apply N2Nat.id. Qed.

Lemma il_in i : In i il -> i = 0 \/ In i (c_info s).
Proof. unfold il, pinfo. apply prep_info_in. Qed.

Lemma il_lt : Forall (fun i => i < 2^32) il.
Proof.
  apply Forall_forall. intros i Hi. destruct (il_in i Hi) as [->|H]; [reflexivity|].
  pose proof (wf_info s W) as WI. rewrite Forall_forall in WI. exact (proj1 (WI i H)).
Qed.

Lemma oldest_lt : oldest < 2^32.
Proof. unfold oldest. apply fold_oldest_lt; [exact il_lt|reflexivity]. Qed.

Lemma il_rehash i : In i il -> info_rehash i = true -> keep = true /\ c_prevhash s <> H_UNDEF.
Proof.
  intros Hi Hr. destruct (il_in i Hi) as [->|H]; [discriminate|].
  pose proof (wf_info s W) as WI. rewrite Forall_forall in WI. pose proof (proj2 (WI i H) Hr) as Hp.
  split; [|exact Hp]. unfold keep. apply andb_true_iff. split.
  - apply negb_true_iff. apply N.eqb_neq. exact Hp.
  - apply existsb_exists. exists i. auto.
Qed.

(* ---- the loader states after each phase ---- *)
Let d0 : dstate := {| d_st := init_state k; d_blockmax := 0; d_mapping := []; d_crc := false |}.
Let d2 : dstate := {| d_st := init_state k; d_blockmax := bm; d_mapping := []; d_crc := false |}.
Let d4 : dstate := with_st d2 (set_hash (init_state k) (c_hash s) (c_hashseed s)).
Let d5 : dstate := if keep then with_st d4 (set_prevhash (d_st d4) (c_prevhash s) (c_prevhashseed s)) else d4.
Let d6 : dstate := {| d_st := set_maps (d_st d5) kept; d_blockmax := bm; d_mapping := mp; d_crc := false |}.
Let d7 : dstate := with_st d6 (set_parity (d_st d6) (map (norm_parity v) (c_parity s))).
Let d8 : dstate := with_st d7 (set_disks (d_st d7) (norm_disks bm D idxs)).
Let d9 : dstate := with_st d8 (set_info (d_st d8) (map (norm_info now oldest) il)).

Let all : list N := encode now s.

Lemma k_plain : plain k. Proof. split; reflexivity. Qed.

Lemma seg_z : seg k all d0 ([122] ++ sputb32 (c_block_size s)) d0.
Proof.
  cbn [app]. apply seg_record; [reflexivity|]. intros R. change (record k all d0 122) with (rec_blocksize k d0).
  apply (rec_blocksize_reads k d0 R eq_refl (wf_bs0 s W) (wf_bs s W)).
Qed.
Lemma seg_x : seg k all d0 ([120] ++ sputb32 bm) d2.
Proof.
  cbn [app]. apply seg_record; [reflexivity|]. intros R. change (record k all d0 120) with (rec_blockmax d0).
  apply (rec_blockmax_reads d0 bm R (wf_bm s W)).
Qed.
Lemma seg_y : seg k all d2 (if v =? 3 then [121] ++ sputb32 (c_hash_size s) else []) d2.
Proof.
  destruct (v =? 3); [|apply seg_nil]. cbn [app]. apply seg_record; [reflexivity|]. intros R.
  change (record k all d2 121) with (rec_hashsize k d2). apply (rec_hashsize_reads k d2 R eq_refl (wf_hs s W)).
Qed.
Lemma seg_c : seg k all d2 ([99] ++ hash_char (c_hash s) ++ c_hashseed s) d4.
Proof.
  cbn [app]. apply seg_record; [reflexivity|]. intros R. change (record k all d2 99) with (rec_hash false d2).
  rewrite <- app_assoc. apply (rec_hash_reads false d2 _ _ R (wf_hash s W) (wf_seed s W)).
Qed.
Lemma d5_crc : d_crc d5 = false. Proof. unfold d5. destruct keep; reflexivity. Qed.
Lemma seg_C : seg k all d4 (if negb (c_prevhash s =? H_UNDEF) && existsb info_rehash il
                           then [67] ++ hash_char (c_prevhash s) ++ c_prevhashseed s else []) d5.
Proof.
  unfold d5. fold keep. destruct keep eqn:E; [|apply seg_nil].
  cbn [app]. apply seg_record; [reflexivity|]. intros R. change (record k all d4 67) with (rec_hash true d4).
  rewrite <- app_assoc. apply (rec_hash_reads true d4 _ _ R); [|exact (wf_pseed s W)].
  unfold keep in E. apply andb_true_iff in E. destruct E as [E _]. apply negb_true_iff, N.eqb_neq in E.
  destruct (wf_prev s W) as [H|H]; [contradiction|exact H].
Qed.

Lemma d5_disks : c_disks (d_st d5) = map (fun x => empty_disk (cd_name x)) D.
Proof.
  unfold d5. assert (E : c_disks (init_state k) = map (fun x => empty_disk (cd_name x)) D).
  { unfold init_state, k, conf_of, D, pdisks. cbn [c_disks k_disks]. rewrite !map_map. reflexivity. }
  destruct keep; exact E.
Qed.

Lemma seg_M : seg k all d5 (concat (map (enc_map D idxs) (c_maps s))) d6.
Proof.
  assert (E : concat (map (enc_map D idxs) (c_maps s)) = concat (map (fun m => 77 :: enc_map_body m) kept)).
  { rewrite <- kept_eq. rewrite <- concat_map_filter. f_equal. apply map_ext. intros m. apply enc_map_kept. }
  rewrite E.
  assert (S : seg k all d5 (concat (map (fun m => 77 :: enc_map_body m) kept)) (fold_left (map_step D) kept d5)).
  { apply seg_maps.
    - exact d5_crc.
    - rewrite d5_disks, map_map. reflexivity.
    - apply Forall_filter. exact (wf_maps s W).
    - intros m Hm. apply maps_resolvable. apply filter_In in Hm. tauto. }
  rewrite map_steps in S.
  replace d6 with {| d_st := set_maps (d_st d5) (c_maps (d_st d5) ++ kept); d_blockmax := d_blockmax d5;
                     d_mapping := d_mapping d5 ++ map (fun m => dix D (cm_name m)) kept; d_crc := d_crc d5 |}; [exact S|].
  unfold d6, d5. destruct keep; reflexivity.
Qed.

Lemma v_cases : v = 3 \/ (v = 2 /\ Forall (fun p => nlen (cp_splits p) = 1) (c_parity s)).
Proof.
  destruct (version_cases s) as [H|[H [H1 _]]]; [left; exact H|right; split; [exact H|]].
  pose proof (wf_parity s W) as WP. rewrite Forall_forall in *. intros p Hp.
  specialize (H1 p Hp). destruct (WP p Hp) as [_ [_ [H2 _]]]. lia.
Qed.

Lemma seg_P : seg k all d6 (enc_parities v 0 (c_parity s)) d7.
Proof.
  pose proof (seg_parities k all v eq_refl (c_parity s) [] d6 eq_refl) as S. cbn [app] in S. apply S.
  - unfold d6, d5. destruct keep; reflexivity.
  - pose proof (wf_levels s W). unfold nlen at 1. cbn [length]. lia.
  - exact (wf_parity s W).
  - exact v_cases.
Qed.

Lemma d7_inv : dInv mp bm (c_block_size s) (c_hash_size s) d7.
Proof. unfold dInv, d7, d6, d5. destruct keep; repeat split; reflexivity. Qed.

Lemma seg_D : seg k all d7 (enc_disks bm D idxs) d8.
Proof.
  pose proof (seg_disks k all mp bm (c_block_size s) (c_hash_size s) k_plain (wf_bs0 s W)) as S.
  assert (Hhs : 0 < c_hash_size s) by (pose proof (wf_hs s W); lia).
  specialize (S Hhs (wf_bm s W) D idxs [] d7 d7_inv). cbn [app] in S. apply S.
  - unfold d7, d6. cbn [d_st with_st set_parity set_maps c_disks]. exact d5_disks.
  - exact idxs_length.
  - exact D_ok.
  - exact idxs_mapping.
Qed.

Lemma norm_disks_in bm' : forall (L : list cdisk) (I : list (option N)) d', In d' (norm_disks bm' L I) ->
  exists x oi, In x L /\ d' = norm_disk bm' x oi.
Proof.
  induction L as [|x L IH]; intros [|oi I] d' H; try contradiction. cbn [norm_disks] in H. destruct H as [<-|H].
  - exists x, oi. split; [left; reflexivity|reflexivity].
  - destruct (IH I d' H) as [y [oj [Hy E]]]. exists y, oj. split; [right; exact Hy|exact E].
Qed.

Lemma norm_disk_blocks_sub bm' x oi b : In b (disk_blocks (norm_disk bm' x oi)) -> In b (disk_blocks x).
Proof. destruct oi; [exact (fun H => H)|intros []]. Qed.

Lemma d8_blocks b : In b (all_blocks (d_st d8)) -> In b (all_blocks s).
Proof.
  intros H. apply in_all_blocks in H. destruct H as [d' [Hd Hb]].
  assert (E : c_disks (d_st d8) = norm_disks bm D idxs) by reflexivity. rewrite E in Hd.
  destruct (norm_disks_in bm D idxs d' Hd) as [x [oi [Hx ->]]]. apply norm_disk_blocks_sub in Hb.
  unfold D, pdisks in Hx. apply in_map_iff in Hx. destruct Hx as [y [<- Hy]]. rewrite prep_disk_blocks in Hb.
  apply in_all_blocks. exists y. auto.
Qed.

Lemma d8_prevhash : c_prevhash (d_st d8) = if keep then c_prevhash s else H_UNDEF.
Proof. unfold d8, d7, d6, d5. destruct keep; reflexivity. Qed.

Lemma seg_I : seg k all d8 ([105] ++ sputb32 oldest ++ concat (map (enc_info_run now oldest) (groups info_rel il))) d9.
Proof.
  apply seg_info.
  - reflexivity.
  - rewrite il_length. reflexivity.
  - rewrite il_length. exact (wf_bm s W).
  - exact oldest_lt.
  - unfold d8, d7, d6, d5. destruct keep; reflexivity.
  - apply Forall_forall. intros i Hi. split; [pose proof il_lt as L; rewrite Forall_forall in L; exact (L i Hi)|].
    intros Hr. destruct (il_rehash i Hi Hr) as [Hk Hp]. rewrite d8_prevhash, Hk. exact Hp.
  - intros b Hb Hs Hpos. apply d8_blocks in Hb.
    assert (Hn : (N.to_nat (cb_pos b) < N.to_nat bm)%nat) by (rewrite il_length in Hpos; lia).
    unfold il, pinfo. fold bm. rewrite prep_info_nth by exact Hn. cbv zeta.
    pose proof (wf_info_blk s W b Hb Hs) as Hi. rewrite N.add_0_l, N2Nat.id.
    destruct (N.eqb_spec (nth (N.to_nat (cb_pos b)) (c_info s) 0) 0) as [E|_]; [contradiction|].
    rewrite (wf_required s W b Hb).
    apply norm_info_nonzero; [exact Hi| |exact Hnow|exact oldest_lt].
    pose proof (wf_info s W) as WI. rewrite Forall_forall in WI.
    destruct (nth_in_or_default (N.to_nat (cb_pos b)) (c_info s) 0) as [Hin|Hd]; [exact (proj1 (WI _ Hin))|rewrite Hd in Hi; contradiction].
Qed.

(* ---- the whole stream ---- *)
Let X : list N :=
  ([122] ++ sputb32 (c_block_size s)) ++ ([120] ++ sputb32 bm)
  ++ (if v =? 3 then [121] ++ sputb32 (c_hash_size s) else [])
  ++ ([99] ++ hash_char (c_hash s) ++ c_hashseed s)
  ++ (if negb (c_prevhash s =? H_UNDEF) && existsb info_rehash il then [67] ++ hash_char (c_prevhash s) ++ c_prevhashseed s else [])
  ++ concat (map (enc_map D idxs) (c_maps s))
  ++ enc_parities v 0 (c_parity s)
  ++ enc_disks bm D idxs
  ++ ([105] ++ sputb32 oldest ++ concat (map (enc_info_run now oldest) (groups info_rel il))).

Lemma body_eq : write_body now (prepare s) = (header v ++ X) ++ [78].
Proof.
  unfold write_body. change (p_blockmax (prepare s)) with (alloc_size s). rewrite p_st_info. change (alloc_size s) with bm. unfold X.
  change (version (p_st (prepare s))) with v. change (c_block_size (p_st (prepare s))) with (c_block_size s).
  change (p_blockmax (prepare s)) with bm. change (c_hash_size (p_st (prepare s))) with (c_hash_size s).
  change (c_hash (p_st (prepare s))) with (c_hash s). change (c_hashseed (p_st (prepare s))) with (c_hashseed s).
  change (c_prevhash (p_st (prepare s))) with (c_prevhash s). change (c_prevhashseed (p_st (prepare s))) with (c_prevhashseed s).
  change (p_rehash (prepare s)) with (existsb info_rehash il). change (c_disks (p_st (prepare s))) with D.
  change (p_idx (prepare s)) with idxs. change (c_maps (p_st (prepare s))) with (c_maps s).
  change (c_parity (p_st (prepare s))) with (c_parity s). change (p_oldest (prepare s)) with oldest. fold il.
  rewrite <- !app_assoc. reflexivity.
Qed.

Lemma seg_X : seg k all d0 X d9.
Proof.
  unfold X.
  eapply seg_app; [exact seg_z|]. eapply seg_app; [exact seg_x|]. eapply seg_app; [exact seg_y|].
  eapply seg_app; [exact seg_c|]. eapply seg_app; [exact seg_C|]. eapply seg_app; [exact seg_M|].
  eapply seg_app; [exact seg_P|]. eapply seg_app; [exact seg_D|]. exact seg_I.
Qed.

(* ---- the checks at the end of the load ---- *)
Lemma forall2_nth {A B} (P : A -> B -> Prop) da db : forall (l1 : list A) (l2 : list B), length l1 = length l2 ->
  (forall j, (j < length l1)%nat -> P (nth j l1 da) (nth j l2 db)) -> Forall2 P l1 l2.
Proof.
  induction l1 as [|x l1 IH]; intros [|y l2] Hl H; try discriminate; [constructor|].
  constructor; [apply (H O); cbn; lia|]. apply IH; [cbn in Hl; lia|]. intros j Hj. apply (H (S j)). cbn. lia.
Qed.

Lemma unmapped_no_files : Forall2 (fun x oi => oi = None -> cd_files x = []) (c_disks s) idxs.
Proof.
  apply (forall2_nth _ (empty_disk []) None); [rewrite idxs_length, D_length; reflexivity|].
  intros j Hj Hnone. set (x := nth j (c_disks s) (empty_disk [])) in *.
  destruct (cd_files x) as [|f fs] eqn:Ef; [reflexivity|exfalso].
  assert (Hx : In x (c_disks s)) by (apply nth_In; exact Hj).
  assert (Hne : disk_empty x bm = false) by (unfold disk_empty; rewrite Ef; reflexivity).
  pose proof (wf_mapped s W x Hx Hne) as Hm. apply in_map_iff in Hm. destruct Hm as [m [Hname Hm]].
  pose proof (proj2 idxs_spec m Hm) as Hk. unfold map_kept in Hk.
  destruct (dix_spec D (cm_name m) (maps_resolvable m Hm)) as [Hf _]. rewrite Hf in Hk.
  assert (Hj' : (j < length D)%nat) by (rewrite D_length; exact Hj).
  assert (Hdj : dix D (cm_name m) = j).
  { rewrite Hname. replace (cd_name x) with (cd_name (nth j D (empty_disk []))).
    - apply dix_nth; [rewrite D_names; exact (wf_names s W)|exact Hj'].
    - unfold D, pdisks. rewrite (nth_indep _ _ (prep_disk s bm (empty_disk [])) ) by (rewrite map_length; exact Hj).
      rewrite map_nth. reflexivity. }
  rewrite Hdj, Hnone in Hk. unfold nonempty_map in Hk. rewrite Hdj in Hk.
  assert (Hd : disk_empty (nth j D (empty_disk [])) bm = false).
  { unfold D, pdisks. rewrite (nth_indep _ _ (prep_disk s bm (empty_disk []))) by (rewrite map_length; exact Hj).
    rewrite map_nth. fold x. unfold disk_empty. rewrite prep_disk_files, Ef. reflexivity. }
  rewrite Hd in Hk. discriminate.
Qed.

Lemma blocks_same : map disk_blocks (norm_disks bm D idxs) = map disk_blocks (c_disks s).
Proof.
  unfold D, pdisks. pose proof unmapped_no_files as F. induction F as [|x oi L I Hx _ IH]; [reflexivity|].
  cbn [map norm_disks]. rewrite IH. f_equal. destruct oi; [reflexivity|]. unfold disk_blocks. rewrite (Hx eq_refl). reflexivity.
Qed.

Lemma d9_alloc : alloc_size (d_st d9) = bm.
Proof.
  unfold alloc_size at 1, all_blocks. change (c_disks (d_st d9)) with (norm_disks bm D idxs). rewrite blocks_same. reflexivity.
Qed.

Lemma nodupb_spec l : nodupb l = true <-> NoDup l.
Proof.
  induction l as [|x l IH]; [split; [constructor|reflexivity]|]. cbn [nodupb]. rewrite andb_true_iff, negb_true_iff, IH.
  split.
  - intros [H1 H2]. constructor; [|exact H2]. intros Hin. assert (existsb (N.eqb x) l = true); [|congruence].
    apply existsb_exists. exists x. split; [exact Hin|apply N.eqb_refl].
  - intros H. inversion H as [|? ? H1 H2]; subst. split; [|exact H2].
    destruct (existsb (N.eqb x) l) eqn:E; [|reflexivity]. apply existsb_exists in E. destruct E as [y [Hy Ey]].
    apply N.eqb_eq in Ey. subst y. contradiction.
Qed.

Lemma NoDup_app_sub {A} (a b b' : list A) : (forall x, In x b' -> In x b) -> NoDup b' -> NoDup (a ++ b) -> NoDup (a ++ b').
Proof.
  intros Hsub Hb'. induction a as [|x a IH]; intros H; [exact Hb'|]. cbn [app] in *. inversion H as [|? ? H1 H2]; subst.
  constructor; [|apply IH; exact H2]. intros Hin. apply H1. apply in_app_or in Hin. apply in_or_app.
  destruct Hin as [Hin|Hin]; [left; exact Hin|right; apply Hsub; exact Hin].
Qed.

Lemma NoDup_app_tail {A} (a b : list A) : NoDup (a ++ b) -> NoDup b.
Proof. induction a as [|x a IH]; intros H; [exact H|]. cbn [app] in H. inversion H; subst. apply IH. assumption. Qed.

Lemma NoDup_map_filter {A B} (f : A -> B) p (l : list A) : NoDup (map f l) -> NoDup (map f (filter p l)).
Proof.
  induction l as [|x l IH]; intros H; [constructor|]. cbn [map] in H. inversion H as [|? ? H1 H2]; subst. cbn [filter].
  destruct (p x); [|apply IH; exact H2]. cbn [map]. constructor; [|apply IH; exact H2].
  intros Hin. apply H1. apply in_map_iff in Hin. destruct Hin as [y [Ey Hy]]. apply filter_In in Hy. rewrite <- Ey. apply in_map. tauto.
Qed.

Lemma d9_unique : forallb pos_unique (c_disks (d_st d9)) = true.
Proof.
  change (c_disks (d_st d9)) with (norm_disks bm D idxs). apply forallb_forall. intros d' Hd.
  destruct (norm_disks_in bm D idxs d' Hd) as [x [oi [Hx ->]]].
  unfold D, pdisks in Hx. apply in_map_iff in Hx. destruct Hx as [y [<- Hy]].
  destruct oi as [i|]; [|reflexivity].
  pose proof (wf_disks s W) as WD. rewrite Forall_forall in WD. destruct (WD y Hy) as [_ [_ [_ [_ [_ [_ Hu]]]]]].
  unfold pos_unique in *. apply nodupb_spec. apply nodupb_spec in Hu.
  cbn [norm_disk set_deleted prep_disk cd_deleted disk_blocks cd_files].
  change (concat (map cf_blocks (cd_files y))) with (disk_blocks y).
  apply (NoDup_app_sub _ (map fst (cd_deleted y))); [| |exact Hu].
  - intros p Hp. apply in_map_iff in Hp. destruct Hp as [ph [<- Hph]]. apply filter_In in Hph. destruct Hph as [Hph _].
    apply filter_In in Hph. apply in_map. tauto.
  - apply NoDup_map_filter. apply NoDup_map_filter. apply NoDup_app_tail in Hu. exact Hu.
Qed.

Lemma maps_distinct_spec l : NoDup (map cm_name l) -> NoDup (map cm_pos l) -> maps_distinct l = true.
Proof.
  induction l as [|m l IH]; intros H1 H2; [reflexivity|]. cbn [map] in *. inversion H1 as [|? ? A1 A2]; subst. inversion H2 as [|? ? B1 B2]; subst.
  cbn [maps_distinct]. rewrite (IH A2 B2), andb_true_r. apply negb_true_iff. apply existsb_false_intro. intros o Ho.
  apply orb_false_iff. split.
  - destruct (bytes_eqb (cm_name m) (cm_name o)) eqn:E; [|reflexivity]. apply bytes_eqb_eq in E. exfalso. apply A1. rewrite E. apply in_map. exact Ho.
  - apply N.eqb_neq. intros E. apply B1. rewrite E. apply in_map. exact Ho.
Qed.

Lemma d9_maps : maps_distinct (c_maps (d_st d9)) = true.
Proof.
  change (c_maps (d_st d9)) with kept. unfold kept.
  apply maps_distinct_spec; apply NoDup_map_filter; [exact (wf_map_names s W)|exact (wf_map_pos s W)].
Qed.

Lemma d9_hash : (c_hash (d_st d9) =? H_UNDEF) = false.
Proof.
  assert (E : c_hash (d_st d9) = c_hash s) by (unfold d9, d8, d7, d6, d5; destruct keep; reflexivity).
  rewrite E. destruct (wf_hash s W) as [-> | [-> | ->]]; reflexivity.
Qed.

Lemma d9_state : d_st d9 = normalise now s.
Proof.
  unfold normalise. change (p_blockmax (prepare s)) with (alloc_size s). rewrite p_st_info.
  change (c_disks (p_st (prepare s))) with D. change (p_idx (prepare s)) with idxs. change (c_maps (p_st (prepare s))) with (c_maps s).
  rewrite kept_eq.
  unfold d9, d8, d7, d6, d5. fold il. unfold keep.
  change (c_prevhash (p_st (prepare s))) with (c_prevhash s). change (p_rehash (prepare s)) with (existsb info_rehash il).
  destruct (negb (c_prevhash s =? H_UNDEF) && existsb info_rehash il); reflexivity.
Qed.

Theorem decode_encode_rt : decode (conf_of s) (encode now s) = Ok (normalise now s).
Proof.
  fold k. fold all. unfold decode.
  assert (Hall : all = header v ++ (X ++ 78 :: sputble32 (crc32c_spec 0 ((header v ++ X) ++ [78])))).
  { unfold all, encode, add_crc. rewrite body_eq. rewrite <- !app_assoc. reflexivity. }
  rewrite Hall at 1. rewrite take_header.
  assert (Hh : bytes_eqb (header v) (header 1) || bytes_eqb (header v) (header 2) || bytes_eqb (header v) (header 3) = true).
  { destruct v_cases as [->|[-> _]]; reflexivity. }
  rewrite Hh. fold d0.
  destruct seg_X as [n [Hn HX]].
  set (crc4 := sputble32 (crc32c_spec 0 ((header v ++ X) ++ [78]))).
  assert (Hlen : length (X ++ 78 :: crc4) = (n + S (length X - n + 4))%nat).
  { rewrite app_length. cbn [length]. unfold crc4, sputble32. cbn [length]. lia. }
  rewrite Hlen, HX.
  assert (Hall' : all = add_crc ((header v ++ X) ++ [78])).
  { unfold all, encode. rewrite body_eq. reflexivity. }
  rewrite Hall'. unfold crc4. rewrite records_crc by reflexivity.
  cbn [d_crc negb d_st d_blockmax].
  rewrite d9_unique. cbn [negb]. change (d_blockmax d9) with bm. rewrite d9_alloc, N.eqb_refl. cbn [negb andb].
  rewrite d9_hash, d9_maps. cbn [negb]. rewrite d9_state. reflexivity.
Qed.
End RoundTrip.

