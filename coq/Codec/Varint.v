(* Byte-string models of the binary primitives of cmdline/stream.c:
     sputb32/sgetb32, sputb64/sgetb64   packed integers: 7-bit groups, least significant group first,
                                        the LAST byte (and only it) has bit 7 set
     sputble32/sgetble32                4 bytes little endian
     sputbs/sgetbs                      length (sputb32) followed by the bytes
   A stream is a `list N` of bytes (each < 256); a reader returns Ok (value, rest) | Eof | Bad.
   The C functions return -1 both at end of file and on a format error; the model keeps the two apart
   (`Eof` = sgetc returned EOF, the stream is then in STREAM_STATE_EOF; `Bad` = the explicit `return -1`).

   First part: executable definitions only (no proof terms).  Second part: theorems. *)
From Coq Require Import NArith List Bool Lia ZArith.
Import ListNotations.
Local Open Scope N_scope.

(* ------------------------------------------------------------------------------------------------ *)
(** * Readers *)

Inductive result (A : Type) : Type := Ok (a : A) | Eof | Bad.
Arguments Ok {A}. Arguments Eof {A}. Arguments Bad {A}.

Definition reader (A : Type) := list N -> result (A * list N).

Definition rret {A} (a : A) : reader A := fun l => Ok (a, l).
Definition rbind {A B} (r : reader A) (f : A -> reader B) : reader B :=
  fun l => match r l with Ok (a, rest) => f a rest | Eof => Eof | Bad => Bad end.
Definition rfail {A} : reader A := fun _ => Bad.
(* sgetc *)
Definition getc : reader N := fun l => match l with [] => Eof | c :: t => Ok (c, t) end.

(* sread(f, buf, n): n bytes or Eof.  Structural on the stream, the counter is a binary N so that a
   huge n costs nothing. *)
Fixpoint take (n : N) (l : list N) {struct l} : result (list N * list N) :=
  if n =? 0 then Ok ([], l)
  else match l with
       | [] => Eof
       | c :: t => match take (n - 1) t with
                   | Ok (a, r) => Ok (c :: a, r)
                   | Eof => Eof
                   | Bad => Bad
                   end
       end.

(* ------------------------------------------------------------------------------------------------ *)
(** * Packed integers *)

(* sputb32 / sputb64:
     loop: b = value & 0x7f; value >>= 7; if (value) { buf[i++] = b; goto loop; } buf[i++] = b | 0x80;
   `fuel` bounds the goto loop; 5 (resp. 10) iterations always suffice for a 32 (resp. 64) bit value
   (putb_length below), the exhausted-fuel value [] is never produced by sputb32/sputb64. *)
Fixpoint putb (fuel : nat) (v : N) : list N :=
  match fuel with
  | O => []
  | S f => let b := N.land v 127 in
           let v' := N.shiftr v 7 in
           if v' =? 0 then [N.lor b 128] else b :: putb f v'
  end.

(* the argument is a uint32_t / uint64_t: the conversion at the call is the `mod` *)
Definition sputb32 (v : N) : list N := putb 5 (v mod 2^32).
Definition sputb64 (v : N) : list N := putb 10 (v mod 2^64).

(* sgetb32 / sgetb64, W = 32 / 64:
     v = 0; s = 0;
     loop: c = sgetc(f); if (c == EOF) return -1;
           b = (unsigned char)c;
           if ((b & 0x80) == 0) { v |= (uintW_t)b << s; s += 7; if (s >= W) return -1; goto loop; }
           v |= (uintW_t)(b & 0x7f) << s; *value = v; return 0;
   `(uintW_t)x << s` drops the bits shifted above W: written `mod 2^W`.  `s` is an unsigned char:
   `mod 256` (it never wraps: s <= 63 before the addition).  The goto loop runs at most
   ceil(W/7) times because of the `s >= W` exit; the fuel is exactly that bound, so `Bad` from
   exhausted fuel is unreachable (getb_fuel_irrelevant). *)
Fixpoint getb (W : N) (fuel : nat) (v s : N) (l : list N) : result (N * list N) :=
  match fuel with
  | O => Bad
  | S f =>
    match l with
    | [] => Eof
    | c :: t =>
      if N.testbit c 7
      then Ok (N.lor v (N.shiftl (N.land c 127) s mod 2^W), t)
      else let v' := N.lor v (N.shiftl c s mod 2^W) in
           let s' := (s + 7) mod 256 in
           if W <=? s' then Bad else getb W f v' s' t
    end
  end.

Definition sgetb32 : reader N := getb 32 5 0 0.
Definition sgetb64 : reader N := getb 64 10 0 0.

(* ------------------------------------------------------------------------------------------------ *)
(** * Little endian 32 bit *)

(* buf[0] = value & 0xFF; buf[1] = (value >> 8) & 0xFF; buf[2] = (value >> 16) & 0xFF; buf[3] = (value >> 24) & 0xFF *)
Definition sputble32 (v : N) : list N :=
  [N.land v 255; N.land (N.shiftr v 8) 255; N.land (N.shiftr v 16) 255; N.land (N.shiftr v 24) 255].

(* sread(f, buf, 4) then buf[0] | (uint32_t)buf[1] << 8 | (uint32_t)buf[2] << 16 | (uint32_t)buf[3] << 24 *)
Definition sgetble32 : reader N := fun l =>
  match take 4 l with
  | Ok ([b0; b1; b2; b3], rest) =>
      Ok (N.lor (N.lor (N.lor b0 (N.shiftl b1 8)) (N.shiftl b2 16)) (N.shiftl b3 24 mod 2^32), rest)
  | Ok _ => Bad      (* unreachable: take 4 returns 4 bytes *)
  | Eof => Eof
  | Bad => Bad
  end.

(* ------------------------------------------------------------------------------------------------ *)
(** * Strings *)

(* sputbs: size_t len = strlen(str); sputb32(len, f) [conversion to uint32_t]; swrite(str, len, f)
   [conversion to unsigned].  A C string has no NUL byte; the model does not need that. *)
Definition sputbs (s : list N) : list N :=
  let len := N.of_nat (length s) mod 2^32 in
  sputb32 len ++ firstn (N.to_nat len) s.

(* sgetbs(f, str, size):
     if (sgetb32(f, &len) < 0) return -1;
     if (len >= (uint32_t)size) return -1;
     str[len] = 0;
     return sread(f, str, (int)len);
   sgetbs_len_ok is the negation of the test.  `size` is the int buffer size converted to uint32_t.
   The reference snapshot (e695936) had `len + 1 > (uint32_t)size` here, in uint32_t arithmetic: len + 1 wraps
   to 0 for len = 2^32-1.  That test is kept as sgetbs_len_ok_ref: the two agree except on that one length
   (sgetbs_len_ok_ref_agree), where the old one accepts for every buffer size (sgetbs_len_wrap_accepts). *)
Definition sgetbs_len_ok (len size : N) : bool := negb (size mod 2^32 <=? len).
Definition sgetbs_len_ok_ref (len size : N) : bool := negb (size mod 2^32 <? (len + 1) mod 2^32).

Definition sgetbs (size : N) : reader (list N) := fun l =>
  match sgetb32 l with
  | Ok (len, t) => if sgetbs_len_ok len size then take len t else Bad
  | Eof => Eof
  | Bad => Bad
  end.

(* Memory safety of sgetbs: `str[len] = 0` and the copy of `len` bytes are inside the buffer of `size` bytes
   only when len < size.  This flag says "the test `ok` passed although len >= size" (then the C writes out of
   bounds).  With the current test it is never set (sgetbs_in_bounds); with the test of the reference snapshot
   it is set for the length 2^32-1 (sgetbs_in_bounds_ref_refuted). *)
Definition sgetbs_oob_with (ok : N -> N -> bool) (size : N) (l : list N) : bool :=
  match sgetb32 l with
  | Ok (len, _) => ok len size && (size <=? len)
  | _ => false
  end.
Definition sgetbs_oob : N -> list N -> bool := sgetbs_oob_with sgetbs_len_ok.

(* ================================================================================================ *)
(** * Theorems *)

Ltac Zify.zify_post_hook ::= Z.to_euclidean_division_equations.

(* "r reads exactly l and returns a", whatever follows *)
Definition reads {A} (r : reader A) (l : list N) (a : A) : Prop := forall rest, r (l ++ rest) = Ok (a, rest).
(* EOF-strict: on every strict prefix of what it reads, r answers Eof *)
Definition strict {A} (r : reader A) : Prop :=
  forall l a, reads r l a -> forall l1 l2, l = l1 ++ l2 -> l2 <> [] -> r l1 = Eof.

Lemma reads_bind {A B} (r : reader A) (f : A -> reader B) l1 l2 a b :
  reads r l1 a -> reads (f a) l2 b -> reads (rbind r f) (l1 ++ l2) b.
Proof. intros H1 H2 rest. unfold rbind. rewrite <- app_assoc, H1. apply H2. Qed.

(* a prefix of l1 ++ l2 is a prefix of l1, or l1 followed by a prefix of l2 *)
Lemma split_prefix {T} (l1 l2 p q : list T) : l1 ++ l2 = p ++ q ->
  (exists m, l1 = p ++ m /\ q = m ++ l2) \/ (exists m, p = l1 ++ m /\ l2 = m ++ q).
Proof.
  revert p. induction l1 as [|x l1 IH]; intros p H.
  - right. exists p. auto.
  - destruct p as [|y p].
    + left. exists (x :: l1). auto.
    + injection H as -> H. destruct (IH p H) as [[m [-> ->]]|[m [-> ->]]]; [left|right]; exists m; auto.
Qed.

Lemma strict_bind_run {A B} (r : reader A) (f : A -> reader B) l1 l2 a b :
  strict r -> (forall a, strict (f a)) -> reads r l1 a -> reads (f a) l2 b ->
  forall p q, l1 ++ l2 = p ++ q -> q <> [] -> rbind r f p = Eof.
Proof.
  intros Sr Sf H1 H2 p q E Hq. unfold rbind.
  destruct (split_prefix l1 l2 p q E) as [[m [-> ->]]|[m [-> ->]]].
  - destruct m as [|x m].
    + rewrite app_nil_r in *. specialize (H1 []). rewrite app_nil_r in H1. rewrite H1.
      apply (Sf a l2 b H2 [] l2); auto.
    + rewrite (Sr _ a H1 p (x :: m)); auto. discriminate.
  - rewrite H1. apply (Sf a _ b H2 m q); auto.
Qed.

Lemma strict_getc : strict getc.
Proof.
  intros l a H l1 l2 -> Hl2.
  destruct l1 as [|x l1]; [reflexivity|].
  specialize (H []). cbn in H. injection H as _ H. destruct l1; destruct l2; try discriminate; congruence.
Qed.

(* ---- take ---- *)
Lemma take_eq n l : take n l =
  if n =? 0 then Ok ([], l)
  else match l with
       | [] => Eof
       | c :: t => match take (n - 1) t with Ok (a, r) => Ok (c :: a, r) | Eof => Eof | Bad => Bad end
       end.
Proof. destruct l; reflexivity. Qed.

Lemma take_app s rest : take (N.of_nat (length s)) (s ++ rest) = Ok (s, rest).
Proof.
  induction s as [|c s IH]; [rewrite take_eq; reflexivity|].
  rewrite take_eq. cbn [length app].
  destruct (N.eqb_spec (N.of_nat (S (length s))) 0) as [E|_]; [lia|].
  replace (N.of_nat (S (length s)) - 1) with (N.of_nat (length s)) by lia.
  rewrite IH. reflexivity.
Qed.

Lemma take_short n m : N.of_nat (length m) < n -> take n m = Eof.
Proof.
  revert n. induction m as [|c m IH]; intros n H; rewrite take_eq.
  - destruct (N.eqb_spec n 0); [cbn in H; lia|reflexivity].
  - destruct (N.eqb_spec n 0) as [E|_]; [lia|].
    rewrite IH; [reflexivity|]. cbn [length] in H. lia.
Qed.

Lemma take_ok n l a r : take n l = Ok (a, r) -> l = a ++ r /\ N.of_nat (length a) = n.
Proof.
  revert n a r. induction l as [|c l IH]; intros n a r; rewrite take_eq.
  - destruct (N.eqb_spec n 0) as [->|_]; [|discriminate]. intros H; injection H as <- <-. auto.
  - destruct (N.eqb_spec n 0) as [->|Hn]; [intros H; injection H as <- <-; auto|].
    destruct (take (n - 1) l) as [[a' r']| |] eqn:E; try discriminate.
    intros H; injection H as <- <-. destruct (IH _ _ _ E) as [-> Hl]. cbn [length app]. split; [reflexivity|lia].
Qed.

(* ---- bit lemmas, all reduced to arithmetic ---- *)
Lemma land127 v : N.land v 127 = v mod 128.
Proof. change 127 with (N.ones 7). rewrite N.land_ones. reflexivity. Qed.
Lemma shr7 v : N.shiftr v 7 = v / 128.
Proof. rewrite N.shiftr_div_pow2. reflexivity. Qed.

Lemma bits_above a s p : a < 2^s -> s <= p -> N.testbit a p = false.
Proof. intros Ha Hp. rewrite <- (N.mod_small a (2^s) Ha). apply N.mod_pow2_bits_high. exact Hp. Qed.

Lemma lor_add a x s : a < 2^s -> N.lor a (x * 2^s) = a + x * 2^s.
Proof.
  intros Ha.
  assert (D : N.land a (x * 2^s) = 0).
  { apply N.bits_inj_0. intros p. rewrite N.land_spec.
    destruct (N.ltb_spec p s) as [Hp|Hp].
    - rewrite N.mul_pow2_bits_low by exact Hp. apply andb_false_r.
    - rewrite (bits_above a s p Ha Hp). reflexivity. }
  rewrite <- N.lxor_lor by exact D. symmetry. apply N.add_nocarry_lxor. exact D.
Qed.

Lemma lor128 b : b < 128 -> N.lor b 128 = b + 128.
Proof. intros H. change 128 with (1 * 2^7). apply lor_add. exact H. Qed.

Lemma bit7_low b : b < 128 -> N.testbit b 7 = false.
Proof. intros H. apply (bits_above b 7 7); [exact H|lia]. Qed.

Lemma bit7_high b : b < 128 -> N.testbit (b + 128) 7 = true.
Proof.
  intros H. apply N.testbit_true. change (2^7) with 128.
  replace ((b + 128) / 128) with 1 by lia. reflexivity.
Qed.

Lemma land_high b : b < 128 -> N.land (b + 128) 127 = b.
Proof. intros H. rewrite land127. lia. Qed.

Lemma pow_S7 k : 2 ^ (7 * N.of_nat (S k)) = 128 * 2 ^ (7 * N.of_nat k).
Proof. replace (7 * N.of_nat (S k)) with (7 + 7 * N.of_nat k) by lia. rewrite N.pow_add_r. reflexivity. Qed.

Lemma pow_s7 s : 2 ^ (s + 7) = 2 ^ s * 128.
Proof. rewrite N.pow_add_r. reflexivity. Qed.

Lemma putb_S f v : putb (S f) v =
  if v / 128 =? 0 then [N.lor (v mod 128) 128] else v mod 128 :: putb f (v / 128).
Proof. cbn [putb]. rewrite land127, shr7. reflexivity. Qed.

Lemma getb_S W f v s c t : getb W (S f) v s (c :: t) =
  if N.testbit c 7
  then Ok (N.lor v (N.shiftl (N.land c 127) s mod 2^W), t)
  else if W <=? (s + 7) mod 256 then Bad else getb W f (N.lor v (N.shiftl c s mod 2^W)) ((s + 7) mod 256) t.
Proof. reflexivity. Qed.

(* one step of the reader on a final byte b|0x80 and on a continuation byte b, in arithmetic form *)
Lemma getb_final W f acc s b t : b < 128 -> acc < 2^s -> b * 2^s < 2^W ->
  getb W (S f) acc s (b + 128 :: t) = Ok (acc + b * 2^s, t).
Proof.
  intros Hb Ha Hs. rewrite getb_S, (bit7_high b Hb), (land_high b Hb).
  rewrite N.shiftl_mul_pow2, (N.mod_small _ _ Hs), (lor_add acc b s Ha). reflexivity.
Qed.

Lemma getb_cont W f acc s b t : W <= 256 -> b < 128 -> acc < 2^s -> b * 2^s < 2^W -> s + 7 < W ->
  getb W (S f) acc s (b :: t) = getb W f (acc + b * 2^s) (s + 7) t.
Proof.
  intros HW Hb Ha Hs Hs7. rewrite getb_S, (bit7_low b Hb).
  rewrite (N.mod_small (s + 7) 256) by lia.
  destruct (N.leb_spec W (s + 7)) as [H|_]; [lia|].
  rewrite N.shiftl_mul_pow2, (N.mod_small _ _ Hs), (lor_add acc b s Ha). reflexivity.
Qed.

(* round trip and EOF-strictness in one induction *)
Lemma getb_putb_gen W : W <= 256 -> forall fp fg acc s v,
  (fp < fg)%nat -> v < 2 ^ (7 * N.of_nat (S fp)) -> acc < 2^s -> v * 2^s < 2^W ->
  (forall rest, getb W fg acc s (putb (S fp) v ++ rest) = Ok (acc + v * 2^s, rest)) /\
  (forall p q, putb (S fp) v = p ++ q -> q <> [] -> getb W fg acc s p = Eof).
Proof.
  intros HW. induction fp as [|fp IH]; intros fg acc s v Hf Hv Ha Hs;
    (destruct fg as [|fg]; [lia|]); rewrite putb_S.
  - (* a single byte *)
    rewrite pow_S7 in Hv. change (2 ^ (7 * N.of_nat 0)) with 1 in Hv.
    assert (Hd : v / 128 = 0) by lia. assert (Hm : v mod 128 = v) by lia.
    rewrite Hd, Hm. cbn [N.eqb]. rewrite (lor128 v) by lia. split.
    + intros rest. cbn [app]. apply getb_final; [lia|exact Ha|exact Hs].
    + intros p q E Hq. destruct p as [|x p]; [reflexivity|].
      injection E as _ E. destruct p; destruct q; try discriminate. congruence.
  - destruct (N.eqb_spec (v / 128) 0) as [Hd|Hd].
    + (* last byte *)
      assert (Hm : v mod 128 = v) by lia. rewrite Hm, (lor128 v) by lia. split.
      * intros rest. cbn [app]. apply getb_final; [lia|exact Ha|exact Hs].
      * intros p q E Hq. destruct p as [|x p]; [reflexivity|].
        injection E as _ E. destruct p; destruct q; try discriminate. congruence.
    + (* continuation byte *)
      set (b := v mod 128) in *. set (v' := v / 128) in *.
      assert (Hb : b < 128) by (subst b; lia).
      assert (Hdec : v = b + 128 * v') by (subst b v'; lia).
      assert (Hv1 : 1 <= v') by lia.
      assert (P := pow_s7 s).
      assert (Hs7 : s + 7 < W).
      { apply (N.pow_lt_mono_r_iff 2); [lia|]. rewrite P.
        apply N.le_lt_trans with (v * 2^s); [|exact Hs]. rewrite Hdec. nia. }
      assert (Hbs : b * 2^s < 2^W) by (apply N.le_lt_trans with (v * 2^s); [rewrite Hdec; nia|exact Hs]).
      assert (Hv' : v' < 2 ^ (7 * N.of_nat (S fp))) by (rewrite pow_S7 in Hv; lia).
      assert (Ha' : acc + b * 2^s < 2^(s + 7)) by (rewrite P; nia).
      assert (Hs' : v' * 2^(s + 7) < 2^W).
      { rewrite P. apply N.le_lt_trans with (v * 2^s); [rewrite Hdec; nia|exact Hs]. }
      destruct (IH fg (acc + b * 2^s) (s + 7) v' ltac:(lia) Hv' Ha' Hs') as [R S].
      split.
      * intros rest. cbn [app]. rewrite (getb_cont W fg acc s b _ HW Hb Ha Hbs Hs7), R.
        f_equal. f_equal. rewrite P, Hdec. ring.
      * intros p q E Hq. destruct p as [|x p]; [reflexivity|].
        injection E as <- E. rewrite (getb_cont W fg acc s b _ HW Hb Ha Hbs Hs7).
        exact (S p q E Hq).
Qed.

(* ---- packed integers: the theorems ---- *)
Theorem getb32_putb32 v rest : v < 2^32 -> sgetb32 (sputb32 v ++ rest) = Ok (v, rest).
Proof.
  intros Hv. unfold sgetb32, sputb32. rewrite (N.mod_small v _ Hv).
  assert (Hb : v < 2 ^ (7 * N.of_nat (S 4))).
  { apply N.lt_le_trans with (2^32); [exact Hv|]. apply N.pow_le_mono_r; cbn; lia. }
  destruct (getb_putb_gen 32 ltac:(lia) 4%nat 5%nat 0 0 v ltac:(lia) Hb ltac:(lia) ltac:(lia)) as [R _].
  rewrite R. f_equal. f_equal. lia.
Qed.

Theorem getb64_putb64 v rest : v < 2^64 -> sgetb64 (sputb64 v ++ rest) = Ok (v, rest).
Proof.
  intros Hv. unfold sgetb64, sputb64. rewrite (N.mod_small v _ Hv).
  assert (Hb : v < 2 ^ (7 * N.of_nat (S 9))).
  { apply N.lt_le_trans with (2^64); [exact Hv|]. apply N.pow_le_mono_r; cbn; lia. }
  destruct (getb_putb_gen 64 ltac:(lia) 9%nat 10%nat 0 0 v ltac:(lia) Hb ltac:(lia) ltac:(lia)) as [R _].
  rewrite R. f_equal. f_equal. lia.
Qed.

Theorem getb32_eof_strict v p q : v < 2^32 -> sputb32 v = p ++ q -> q <> [] -> sgetb32 p = Eof.
Proof.
  intros Hv E Hq. unfold sgetb32, sputb32 in *. rewrite (N.mod_small v _ Hv) in E.
  assert (Hb : v < 2 ^ (7 * N.of_nat (S 4))).
  { apply N.lt_le_trans with (2^32); [exact Hv|]. apply N.pow_le_mono_r; cbn; lia. }
  destruct (getb_putb_gen 32 ltac:(lia) 4%nat 5%nat 0 0 v ltac:(lia) Hb ltac:(lia) ltac:(lia)) as [_ S].
  exact (S p q E Hq).
Qed.

Theorem getb64_eof_strict v p q : v < 2^64 -> sputb64 v = p ++ q -> q <> [] -> sgetb64 p = Eof.
Proof.
  intros Hv E Hq. unfold sgetb64, sputb64 in *. rewrite (N.mod_small v _ Hv) in E.
  assert (Hb : v < 2 ^ (7 * N.of_nat (S 9))).
  { apply N.lt_le_trans with (2^64); [exact Hv|]. apply N.pow_le_mono_r; cbn; lia. }
  destruct (getb_putb_gen 64 ltac:(lia) 9%nat 10%nat 0 0 v ltac:(lia) Hb ltac:(lia) ltac:(lia)) as [_ S].
  exact (S p q E Hq).
Qed.

Lemma reads_sgetb32 v : v < 2^32 -> reads sgetb32 (sputb32 v) v.
Proof. intros H rest. apply getb32_putb32. exact H. Qed.
Lemma reads_sgetb64 v : v < 2^64 -> reads sgetb64 (sputb64 v) v.
Proof. intros H rest. apply getb64_putb64. exact H. Qed.

(* the writer never runs out of fuel and emits 1..5 (1..10) bytes, all < 256, exactly the last with bit 7 *)
Lemma putb_nonempty f v : putb (S f) v <> [].
Proof. rewrite putb_S. destruct (v / 128 =? 0); discriminate. Qed.

Lemma putb_length f v : (length (putb f v) <= f)%nat.
Proof.
  revert v. induction f as [|f IH]; intros v; [cbn; lia|].
  rewrite putb_S. destruct (v / 128 =? 0); cbn [length]; [lia|]. specialize (IH (v / 128)). lia.
Qed.

Lemma putb_bytes f v : Forall (fun b => b < 256) (putb f v).
Proof.
  revert v. induction f as [|f IH]; intros v; [constructor|].
  rewrite putb_S. destruct (v / 128 =? 0).
  - constructor; [|constructor]. rewrite lor128 by lia. lia.
  - constructor; [lia|apply IH].
Qed.

(* ---- what the reader does with other inputs (non-canonical, over-long, overflowing) ---- *)
(* padding with zero groups is accepted: the encoding read by sgetb32 is not unique *)
Example getb32_noncanonical_zero : sgetb32 [0; 128] = Ok (0, []) /\ sgetb32 [128] = Ok (0, []).
Proof. split; vm_compute; reflexivity. Qed.
Example getb32_noncanonical_five : sgetb32 [1; 0; 0; 0; 128] = Ok (1, []) /\ sputb32 1 = [129].
Proof. split; vm_compute; reflexivity. Qed.
(* bits 4..6 of a fifth byte are shifted out of the uint32_t and silently dropped *)
Example getb32_fifth_byte_overflow :
  sgetb32 [127; 127; 127; 127; 255] = Ok (4294967295, []) /\ sgetb32 [127; 127; 127; 127; 143] = Ok (4294967295, []) /\
  sgetb32 [0; 0; 0; 0; 240] = Ok (0, []).
Proof. repeat split; vm_compute; reflexivity. Qed.
(* same for a fifth continuation byte: rejected only after it has been consumed *)
(* five continuation bytes: Bad whatever follows (s reaches 35 >= 32) *)
Lemma getb32_overlong a b c d e t :
  N.testbit a 7 = false -> N.testbit b 7 = false -> N.testbit c 7 = false -> N.testbit d 7 = false ->
  N.testbit e 7 = false -> sgetb32 (a :: b :: c :: d :: e :: t) = Bad.
Proof.
  intros Ha Hb Hc Hd He. unfold sgetb32.
  rewrite getb_S, Ha. change ((0 + 7) mod 256) with 7. change (32 <=? 7) with false. cbv iota.
  rewrite getb_S, Hb. change ((7 + 7) mod 256) with 14. change (32 <=? 14) with false. cbv iota.
  rewrite getb_S, Hc. change ((14 + 7) mod 256) with 21. change (32 <=? 21) with false. cbv iota.
  rewrite getb_S, Hd. change ((21 + 7) mod 256) with 28. change (32 <=? 28) with false. cbv iota.
  rewrite getb_S, He. reflexivity.
Qed.
Example getb64_tenth_byte : sgetb64 [0;0;0;0;0;0;0;0;0;255] = Ok (2^63, []) /\ sgetb64 [0;0;0;0;0;0;0;0;0;0;128] = Bad.
Proof. split; vm_compute; reflexivity. Qed.

(* the fuel of the readers is never exhausted: more fuel changes nothing *)
Lemma getb_fuel_irrelevant W : W <= 249 -> forall f k v s l,
  s < W -> W <= s + 7 * N.of_nat f -> getb W (f + k) v s l = getb W f v s l.
Proof.
  intros HW. induction f as [|f IH]; intros k v s l Hs Hf; [lia|].
  destruct l as [|c t]; [reflexivity|]. cbn [Nat.add]. rewrite !getb_S.
  destruct (N.testbit c 7); [reflexivity|].
  rewrite (N.mod_small (s + 7) 256) by lia.
  destruct (N.leb_spec W (s + 7)) as [H|H]; [reflexivity|]. apply IH; lia.
Qed.
Lemma sgetb32_fuel k l : getb 32 (5 + k) 0 0 l = sgetb32 l.
Proof. apply getb_fuel_irrelevant; cbn; lia. Qed.
Lemma sgetb64_fuel k l : getb 64 (10 + k) 0 0 l = sgetb64 l.
Proof. apply getb_fuel_irrelevant; cbn; lia. Qed.

(* every value the readers return fits the C type *)
Lemma getb_range W f : forall v s l r t, v < 2^W -> getb W f v s l = Ok (r, t) -> r < 2^W.
Proof.
  assert (L : forall a b, a < 2^W -> N.lor a (b mod 2^W) < 2^W).
  { intros a b Ha.
    assert (Hb : b mod 2^W < 2^W) by (apply N.mod_lt, N.pow_nonzero; lia).
    destruct (N.eq_dec (N.lor a (b mod 2^W)) 0) as [->|Hn]; [lia|].
    apply N.log2_lt_pow2; [lia|]. rewrite N.log2_lor.
    destruct (N.eq_dec a 0) as [->|Ha0]; destruct (N.eq_dec (b mod 2^W) 0) as [Eb|Hb0].
    - rewrite Eb in Hn. cbn in Hn. congruence.
    - rewrite N.max_r by (cbn; lia). apply N.log2_lt_pow2; lia.
    - rewrite Eb. rewrite N.max_l by (cbn; lia). apply N.log2_lt_pow2; lia.
    - apply N.max_lub_lt; apply N.log2_lt_pow2; lia. }
  induction f as [|f IH]; intros v s l r t Hv; [discriminate|].
  destruct l as [|c l]; [discriminate|]. rewrite getb_S.
  destruct (N.testbit c 7).
  - intros H. injection H as <- _. apply L. exact Hv.
  - destruct (W <=? (s + 7) mod 256); [discriminate|]. apply IH. apply L. exact Hv.
Qed.

Lemma sgetb32_range l r t : sgetb32 l = Ok (r, t) -> r < 2^32.
Proof. apply getb_range. lia. Qed.
Lemma sgetb64_range l r t : sgetb64 l = Ok (r, t) -> r < 2^64.
Proof. apply getb_range. lia. Qed.

(* ---- little endian ---- *)
Lemma land255 v : N.land v 255 = v mod 256.
Proof. change 255 with (N.ones 8). rewrite N.land_ones. reflexivity. Qed.

Lemma take_0 l : take 0 l = Ok ([], l).
Proof. rewrite take_eq. reflexivity. Qed.
Lemma take4 a b c d rest : take 4 (a :: b :: c :: d :: rest) = Ok ([a; b; c; d], rest).
Proof.
  rewrite take_eq. change (4 =? 0) with false. change (4 - 1) with 3. cbv iota.
  rewrite (take_eq 3). change (3 =? 0) with false. change (3 - 1) with 2. cbv iota.
  rewrite (take_eq 2). change (2 =? 0) with false. change (2 - 1) with 1. cbv iota.
  rewrite (take_eq 1). change (1 =? 0) with false. change (1 - 1) with 0. cbv iota.
  rewrite take_0. reflexivity.
Qed.

Theorem getble32_putble32 v rest : v < 2^32 -> sgetble32 (sputble32 v ++ rest) = Ok (v, rest).
Proof.
  intros Hv. change (2^32) with 4294967296 in Hv. unfold sputble32, sgetble32.
  rewrite !land255, !N.shiftr_div_pow2.
  change (2^8) with 256. change (2^16) with 65536. change (2^24) with 16777216.
  set (b0 := v mod 256). set (b1 := (v / 256) mod 256). set (b2 := (v / 65536) mod 256). set (b3 := (v / 16777216) mod 256).
  cbn [app]. rewrite take4.
  f_equal. f_equal.
  rewrite !N.shiftl_mul_pow2.
  change (2^8) with 256. change (2^16) with 65536. change (2^24) with 16777216. change (2^32) with 4294967296.
  assert (H0 : b0 < 256) by (subst b0; lia). assert (H1 : b1 < 256) by (subst b1; lia).
  assert (H2 : b2 < 256) by (subst b2; lia). assert (H3 : b3 < 256) by (subst b3; lia).
  rewrite (N.mod_small (b3 * 16777216)) by lia.
  change 256 with (2^8) at 1. rewrite (lor_add b0 b1 8) by (change (2^8) with 256; lia).
  change 65536 with (2^16) at 1. rewrite (lor_add _ b2 16) by (change (2^16) with 65536; change (2^8) with 256; lia).
  change 16777216 with (2^24) at 1. rewrite (lor_add _ b3 24) by (change (2^24) with 16777216; change (2^16) with 65536; change (2^8) with 256; lia).
  change (2^8) with 256. change (2^16) with 65536. change (2^24) with 16777216.
  subst b0 b1 b2 b3. lia.
Qed.

Theorem getble32_eof_strict v p q : sputble32 v = p ++ q -> q <> [] -> sgetble32 p = Eof.
Proof.
  intros E Hq. unfold sgetble32. rewrite take_short; [reflexivity|].
  assert (L : length (p ++ q) = 4%nat) by (rewrite <- E; reflexivity).
  rewrite app_length in L. destruct q; [congruence|]. cbn [length] in L. lia.
Qed.

(* ---- strings ---- *)
Lemma sgetbs_len_ok_lt len size : len < size -> size < 2^32 -> sgetbs_len_ok len size = true.
Proof.
  intros H1 H2. unfold sgetbs_len_ok. rewrite (N.mod_small size) by exact H2.
  apply negb_true_iff, N.leb_gt. exact H1.
Qed.

Lemma sputbs_small s : N.of_nat (length s) < 2^32 -> sputbs s = sputb32 (N.of_nat (length s)) ++ s.
Proof.
  intros H. unfold sputbs. rewrite (N.mod_small _ _ H), Nat2N.id, firstn_all. reflexivity.
Qed.

Theorem getbs_putbs s size rest : N.of_nat (length s) < size -> size < 2^32 ->
  sgetbs size (sputbs s ++ rest) = Ok (s, rest).
Proof.
  intros H1 H2. rewrite sputbs_small by lia. unfold sgetbs.
  rewrite <- app_assoc, getb32_putb32 by lia.
  rewrite (sgetbs_len_ok_lt _ _ H1 H2). apply take_app.
Qed.

Theorem getbs_eof_strict s size p q : N.of_nat (length s) < size -> size < 2^32 ->
  sputbs s = p ++ q -> q <> [] -> sgetbs size p = Eof.
Proof.
  intros H1 H2 E Hq. rewrite sputbs_small in E by lia. unfold sgetbs.
  destruct (split_prefix _ _ _ _ E) as [[m [E1 ->]]|[m [-> E2]]].
  - destruct m as [|x m].
    + rewrite app_nil_r in E1. subst p.
      pose proof (getb32_putb32 (N.of_nat (length s)) [] ltac:(lia)) as R. rewrite app_nil_r in R. rewrite R.
      rewrite (sgetbs_len_ok_lt _ _ H1 H2). apply take_short.
      destruct s; [exfalso; apply Hq; reflexivity|]. cbn [length]. lia.
    + rewrite (getb32_eof_strict (N.of_nat (length s)) p (x :: m)); [reflexivity|lia|exact E1|discriminate].
  - rewrite getb32_putb32 by lia. rewrite (sgetbs_len_ok_lt _ _ H1 H2). apply take_short.
    rewrite E2, app_length. destruct q; [congruence|]. cbn [length]. lia.
Qed.

(* the size test is exactly "the string and its terminator fit" *)
Lemma sgetbs_len_ok_sound len size : size < 2^32 -> sgetbs_len_ok len size = true -> len < size.
Proof.
  intros H2. unfold sgetbs_len_ok. rewrite (N.mod_small size) by exact H2.
  intros H. apply negb_true_iff, N.leb_gt in H. exact H.
Qed.

(* hence an accepted length always fits the buffer: no out-of-bounds write, for EVERY input *)
Theorem sgetbs_in_bounds size l : size < 2^32 -> sgetbs_oob size l = false.
Proof.
  intros H2. unfold sgetbs_oob, sgetbs_oob_with. destruct (sgetb32 l) as [[len t]| |]; try reflexivity.
  destruct (sgetbs_len_ok len size) eqn:K; [|reflexivity].
  apply (sgetbs_len_ok_sound len size H2) in K. apply N.leb_gt. exact K.
Qed.

(* The size test of the REFERENCE snapshot (uint32_t `len + 1 > size`) lets len = 2^32-1 through for EVERY
   buffer size: len + 1 wraps to 0.  The C then executed str[0xFFFFFFFF] = 0 and sread(f, str, (int)len) with
   (unsigned)-1 bytes -- out of bounds (fixed in the tree by commit e7500bb). *)
Lemma sgetbs_len_wrap_accepts size : sgetbs_len_ok_ref (2^32 - 1) size = true.
Proof.
  unfold sgetbs_len_ok_ref. change ((2^32 - 1 + 1) mod 2^32) with 0.
  apply negb_true_iff, N.ltb_ge. lia.
Qed.

(* apart from that single value the two tests are the same function: the repair does not change which
   files written by the reference version are readable *)
Lemma sgetbs_len_ok_ref_agree len size : len < 2^32 -> len <> 2^32 - 1 ->
  sgetbs_len_ok_ref len size = sgetbs_len_ok len size.
Proof.
  intros H1 H3. unfold sgetbs_len_ok_ref, sgetbs_len_ok. f_equal.
  rewrite (N.mod_small (len + 1)) by lia.
  destruct (N.ltb_spec (size mod 2^32) (len + 1)), (N.leb_spec (size mod 2^32) len); try reflexivity; lia.
Qed.

(* with the reference test the statement "an accepted length fits the buffer" is refuted by a 5-byte input *)
Theorem sgetbs_in_bounds_ref_refuted : exists l, forall size, size < 2^32 -> sgetbs_oob_with sgetbs_len_ok_ref size l = true.
Proof.
  exists [127; 127; 127; 127; 143]. intros size H. unfold sgetbs_oob_with.
  assert (E : sgetb32 [127; 127; 127; 127; 143] = Ok (2^32 - 1, [])) by (vm_compute; reflexivity).
  rewrite E, sgetbs_len_wrap_accepts. apply N.leb_le. lia.
Qed.

(* non-vacuity *)
Example varint_examples :
  sputb32 0 = [128] /\ sputb32 127 = [255] /\ sputb32 128 = [0; 129] /\ sputb32 300 = [44; 130] /\
  sputb32 (2^32 - 1) = [127; 127; 127; 127; 143] /\
  sputb64 (2^64 - 1) = [127; 127; 127; 127; 127; 127; 127; 127; 127; 129] /\
  sputble32 305419896 = [120; 86; 52; 18] /\
  sputbs [97; 98; 99] = [131; 97; 98; 99] /\ sgetbs 4 [131; 97; 98; 99; 7] = Ok ([97; 98; 99], [7]) /\
  sgetbs 3 [131; 97; 98; 99; 7] = Bad /\ sgetbs 4 [131; 97; 98] = Eof.
Proof. repeat split; vm_compute; reflexivity. Qed.
