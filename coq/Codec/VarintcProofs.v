(* The binary coders TRANSLATED from cmdline/stream.c on every run (Gen.VarintProgs, emitted by harness/gen/varintc.py)
   equal the models of Codec.Varint -- the ones that carry the round-trip / EOF-strictness theorems and that the content
   codec of C10 and the loader model of C09 are built from -- for every value and every byte list, with the same
   acceptance conditions (Ok / Eof / Bad). *)
From Coq Require Import NArith List Bool Lia ZArith.
From Snap.Gen Require Import VarintProgs.
From Snap.Hash Require Import Words.
From Snap.Codec Require Import Varint.
Import ListNotations.
Local Open Scope N_scope.

Definition bytes (l : list N) : Prop := Forall (fun b => b < 256) l.

Lemma w8_mod x : w8 x = x mod 256.
Proof. unfold w8. change 255 with (N.ones 8). apply N.land_ones. Qed.
Lemma w8_small x : x < 256 -> w8 x = x.
Proof. intros H. rewrite w8_mod. apply N.mod_small, H. Qed.

Lemma w32_shl_byte b k : b < 256 -> k <= 24 -> w32 (N.shiftl b k) = N.shiftl b k.
Proof.
  intros Hb Hk. rewrite w32_mod. apply N.mod_small. rewrite N.shiftl_mul_pow2.
  apply N.lt_le_trans with (256 * 2^k); [apply N.mul_lt_mono_pos_r; [apply N.neq_0_lt_0, N.pow_nonzero; lia|exact Hb]|].
  change 256 with (2^8). rewrite <- N.pow_add_r. apply N.pow_le_mono_r; lia.
Qed.

Lemma land127_lt v : N.land v 127 < 128.
Proof. rewrite land127. apply N.mod_lt. discriminate. Qed.

(* (b & 0x80) == 0  is  "bit 7 clear" *)
Lemma land128_testbit c : (N.land c 128 =? 0) = negb (N.testbit c 7).
Proof.
  assert (E : N.land c (2^7) = if N.testbit c 7 then 2^7 else 0).
  { apply N.bits_inj. intros p. rewrite N.land_spec, N.pow2_bits_eqb.
    destruct (N.eqb_spec 7 p) as [<-|Hp].
    - rewrite andb_true_r. destruct (N.testbit c 7); [symmetry; apply N.pow2_bits_true|reflexivity].
    - rewrite andb_false_r. destruct (N.testbit c 7); [symmetry; apply N.pow2_bits_false; exact Hp|reflexivity]. }
  change 128 with (2^7). rewrite E. destruct (N.testbit c 7); reflexivity.
Qed.

(* ---- writers ---- *)
Lemma t_putb32_loop_eq f : forall v, t_putb32_loop f v = putb f v.
Proof.
  induction f as [|f IH]; intros v; [reflexivity|].
  cbn [t_putb32_loop putb]. cbv zeta.
  pose proof (land127_lt v) as Hb.
  rewrite (w8_small (N.land v 127)) by lia.
  rewrite (w8_small (N.lor (N.land v 127) 128)) by (rewrite lor128 by exact Hb; lia).
  rewrite IH. destruct (N.shiftr v 7 =? 0); reflexivity.
Qed.

Lemma t_putb64_loop_eq f : forall v, t_putb64_loop f v = putb f v.
Proof.
  induction f as [|f IH]; intros v; [reflexivity|].
  cbn [t_putb64_loop putb]. cbv zeta.
  pose proof (land127_lt v) as Hb.
  rewrite (w8_small (N.land v 127)) by lia.
  rewrite (w8_small (N.lor (N.land v 127) 128)) by (rewrite lor128 by exact Hb; lia).
  rewrite IH. destruct (N.shiftr v 7 =? 0); reflexivity.
Qed.

Theorem t_sputb32_eq v : t_sputb32 v = sputb32 v.
Proof. unfold t_sputb32, sputb32. rewrite t_putb32_loop_eq, w32_mod. reflexivity. Qed.

Theorem t_sputb64_eq v : t_sputb64 v = sputb64 v.
Proof. unfold t_sputb64, sputb64. rewrite t_putb64_loop_eq, w64_mod. reflexivity. Qed.

Lemma land_255_255 x : w8 (N.land x 255) = N.land x 255.
Proof. unfold w8. rewrite <- N.land_assoc. reflexivity. Qed.

Theorem t_sputble32_eq v : t_sputble32 v = sputble32 v.
Proof. unfold t_sputble32, sputble32. rewrite !land_255_255. reflexivity. Qed.

Theorem t_sputbs_eq s : t_sputbs s = sputbs s.
Proof.
  unfold t_sputbs, sputbs. cbv zeta. rewrite t_sputb32_eq, w32_mod. f_equal.
  unfold sputb32. rewrite N.mod_mod by (apply N.pow_nonzero; discriminate). reflexivity.
Qed.

(* ---- readers ---- *)
Lemma t_getb32_loop_eq f : forall v s l, bytes l -> t_getb32_loop f v s l = getb 32 f v s l.
Proof.
  induction f as [|f IH]; intros v s l Hl; [reflexivity|].
  destruct l as [|c rest]; [reflexivity|]. inversion Hl as [|? ? Hc Hr]; subst.
  cbn [t_getb32_loop]. rewrite getb_S. cbv zeta.
  rewrite (w8_small c Hc), land128_testbit, !w32_mod, w8_mod.
  destruct (N.testbit c 7); cbn [negb]; [reflexivity|].
  destruct (32 <=? (s + 7) mod 256); [reflexivity|]. apply IH, Hr.
Qed.

Lemma t_getb64_loop_eq f : forall v s l, bytes l -> t_getb64_loop f v s l = getb 64 f v s l.
Proof.
  induction f as [|f IH]; intros v s l Hl; [reflexivity|].
  destruct l as [|c rest]; [reflexivity|]. inversion Hl as [|? ? Hc Hr]; subst.
  cbn [t_getb64_loop]. rewrite getb_S. cbv zeta.
  rewrite (w8_small c Hc), land128_testbit, !w64_mod, w8_mod.
  destruct (N.testbit c 7); cbn [negb]; [reflexivity|].
  destruct (64 <=? (s + 7) mod 256); [reflexivity|]. apply IH, Hr.
Qed.

Theorem t_sgetb32_eq l : bytes l -> t_sgetb32 l = sgetb32 l.
Proof. intros H. apply t_getb32_loop_eq, H. Qed.

Theorem t_sgetb64_eq l : bytes l -> t_sgetb64 l = sgetb64 l.
Proof. intros H. apply t_getb64_loop_eq, H. Qed.

Theorem t_sgetble32_eq l : bytes l -> t_sgetble32 l = sgetble32 l.
Proof.
  intros Hl. unfold t_sgetble32, sgetble32.
  destruct (take 4 l) as [[a r]| |] eqn:E; try reflexivity.
  destruct a as [|b0 [|b1 [|b2 [|b3 [|? ?]]]]]; try reflexivity.
  destruct (take_ok _ _ _ _ E) as [-> _].
  apply Forall_app in Hl. destruct Hl as [Ha _].
  inversion Ha as [|? ? H0 Ha1]; subst. inversion Ha1 as [|? ? H1 Ha2]; subst.
  inversion Ha2 as [|? ? H2 Ha3]; subst. inversion Ha3 as [|? ? H3 _]; subst.
  rewrite <- w32_mod. rewrite !w32_shl_byte by (first [assumption | lia]). reflexivity.
Qed.

Theorem t_sgetbs_eq size l : bytes l -> t_sgetbs size l = sgetbs size l.
Proof.
  intros Hl. unfold t_sgetbs, sgetbs. rewrite (t_sgetb32_eq l Hl).
  destruct (sgetb32 l) as [[len t]| |]; try reflexivity.
  unfold sgetbs_len_ok. rewrite w32_mod. destruct (size mod 2^32 <=? len); reflexivity.
Qed.
