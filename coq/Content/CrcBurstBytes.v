(* C09, part D: burst detection of CRC-32C on byte strings, in the form the content-file seal needs.

   Crc.CrcProofs.crc_burst32 covers a window of exactly four bytes.  Here:
     crc_burst_le4        windows of 0..4 bytes (so also windows cut short by the end of the string)
     agree_outside        "b and b' have the same length and differ only inside [i, i+k)"   (nth formulation)
     crc_window32         two such strings with k <= 4 and b <> b' have different crc32c (any 32-bit start value)
     sealed               b = P ++ little-endian crc32c_spec 0 P                     (what the 'N' record checks)
     seal_residue         sealed  <->  the register over the WHOLE string (crc bytes included) is the constant
                          zn 32 CRC_IV: so the four crc bytes are protected by the code like any other byte
     sealed_window32      two sealed strings that agree outside a 4-byte window are equal -- wherever the window
                          lies, also across the boundary between the data and the stored crc
     single-bit / single-byte corollaries. *)
From Coq Require Import NArith List Bool Lia.
From Snap.Crc Require Import CrcModel CrcProofs.
From Snap.Codec Require Import Varint.
Import ListNotations.
Local Open Scope N_scope.

(* ------------------------------------------------------------------------------------------------ *)
(** * Windows of at most four bytes *)

Lemma bytes_app l1 l2 : bytes (l1 ++ l2) <-> bytes l1 /\ bytes l2.
Proof. unfold bytes. apply Forall_app. Qed.

Lemma bytes_repeat0 n : bytes (repeat 0 n).
Proof. induction n; constructor; [reflexivity|assumption]. Qed.

Theorem crc_burst_le4 s pre a a' post :
  s < 2^32 -> bytes pre -> bytes a -> bytes a' -> bytes post ->
  length a = length a' -> (length a <= 4)%nat -> a <> a' ->
  crc_bytes s (pre ++ a ++ post) <> crc_bytes s (pre ++ a' ++ post).
Proof.
  intros Hs Hpre Ha Ha' Hpost Hl H4 Hne E.
  rewrite !crc_bytes_app in E.
  assert (H1 : crc_bytes s pre < 2^32) by (apply crc_bytes_lt32; assumption).
  apply crc_bytes_inj in E; [|apply crc_bytes_lt32; assumption..|assumption].
  pose (z := repeat 0 (4 - length a)).
  apply (crc_burst32 (crc_bytes s pre) [] (a ++ z) (a' ++ z) []); try assumption.
  - constructor.
  - apply bytes_app; split; [assumption|apply bytes_repeat0].
  - apply bytes_app; split; [assumption|apply bytes_repeat0].
  - constructor.
  - rewrite app_length. unfold z. rewrite repeat_length. lia.
  - rewrite app_length. unfold z. rewrite repeat_length. lia.
  - intros K. apply app_inv_tail in K. exact (Hne K).
  - cbn [app]. rewrite !app_nil_r, !crc_bytes_app. rewrite E. reflexivity.
Qed.

(* ------------------------------------------------------------------------------------------------ *)
(** * "differ only inside a window" *)

Definition agree_outside (i k : nat) (b b' : list N) : Prop :=
  length b = length b' /\ forall j, (j < i \/ i + k <= j)%nat -> nth j b 0 = nth j b' 0.

Lemma agree_split0 k : forall b b', length b = length b' ->
  (forall j, (k <= j)%nat -> nth j b 0 = nth j b' 0) ->
  exists a a' post, b = a ++ post /\ b' = a' ++ post /\ length a = length a' /\ (length a <= k)%nat.
Proof.
  induction k as [|k IH]; intros b b' Hl H.
  - exists [], [], b. split; [reflexivity|]. split; [|split; [reflexivity|cbn; lia]].
    cbn [app]. symmetry. apply (nth_ext _ _ 0 0 Hl). intros n _. apply H. lia.
  - destruct b as [|x b]; destruct b' as [|y b']; try discriminate Hl.
    + exists [], [], []. split; [reflexivity|]. split; [reflexivity|]. split; [reflexivity|cbn; lia].
    + injection Hl as Hl.
      destruct (IH b b' Hl) as (a & a' & post & -> & -> & La & Lk).
      { intros j Hj. apply (H (S j)). lia. }
      exists (x :: a), (y :: a'), post. split; [reflexivity|]. split; [reflexivity|]. cbn [length]. split; lia.
Qed.

Lemma agree_split i : forall k b b', agree_outside i k b b' ->
  exists pre a a' post, b = pre ++ a ++ post /\ b' = pre ++ a' ++ post /\ length a = length a' /\ (length a <= k)%nat.
Proof.
  induction i as [|i IH]; intros k b b' [Hl H].
  - destruct (agree_split0 k b b' Hl) as (a & a' & post & E1 & E2 & La & Lk).
    { intros j Hj. apply H. right. lia. }
    exists [], a, a', post. auto.
  - destruct b as [|x b]; destruct b' as [|y b']; try discriminate Hl.
    + exists [], [], [], []. split; [reflexivity|]. split; [reflexivity|]. split; [reflexivity|cbn; lia].
    + injection Hl as Hl.
      assert (x = y) as -> by (apply (H 0%nat); left; lia).
      destruct (IH k b b') as (pre & a & a' & post & -> & -> & La & Lk).
      { split; [exact Hl|]. intros j Hj. apply (H (S j)). lia. }
      exists (y :: pre), a, a', post. auto.
Qed.

(* the converse, used for the non-vacuity examples and the single-byte corollaries *)
Lemma agree_of_split pre a a' post : length a = length a' ->
  agree_outside (length pre) (length a) (pre ++ a ++ post) (pre ++ a' ++ post).
Proof.
  intros La. split; [rewrite !app_length; lia|].
  intros j [Hj|Hj].
  - rewrite !app_nth1 by assumption. reflexivity.
  - rewrite !(app_nth2 pre) by lia. rewrite !app_nth2 by lia. rewrite La. reflexivity.
Qed.

Lemma agree_outside_weaken i k k' b b' : (k <= k')%nat -> agree_outside i k b b' -> agree_outside i k' b b'.
Proof. intros Hk [Hl H]. split; [exact Hl|]. intros j Hj. apply H. lia. Qed.

Theorem crc_window32 s i b b' :
  s < 2^32 -> bytes b -> bytes b' -> agree_outside i 4 b b' -> b <> b' -> crc_bytes s b <> crc_bytes s b'.
Proof.
  intros Hs Hb Hb' Hw Hne.
  destruct (agree_split i 4 b b' Hw) as (pre & a & a' & post & -> & -> & La & L4).
  apply bytes_app in Hb. destruct Hb as [Hpre Hb]. apply bytes_app in Hb. destruct Hb as [Ha Hpost].
  apply bytes_app in Hb'. destruct Hb' as [_ Hb']. apply bytes_app in Hb'. destruct Hb' as [Ha' _].
  apply crc_burst_le4; try assumption.
  intros ->. apply Hne. reflexivity.
Qed.

(* through the tool's entry point crc32c(crc, ptr, size) *)
Lemma lxor_iv_inj x y : N.lxor x CRC_IV = N.lxor y CRC_IV -> x = y.
Proof. intros K. rewrite (N.lxor_comm x), (N.lxor_comm y) in K. exact (lxor_cancel_l _ _ _ K). Qed.

Corollary crc32c_window32 crc i b b' :
  crc < 2^32 -> bytes b -> bytes b' -> agree_outside i 4 b b' -> b <> b' -> crc32c_spec crc b <> crc32c_spec crc b'.
Proof.
  intros Hc Hb Hb' Hw Hne E. unfold crc32c_spec in E. apply lxor_iv_inj in E. revert E.
  apply (crc_window32 _ i); try assumption. apply lxor_lt32; [exact Hc|exact iv_lt32].
Qed.

(* ------------------------------------------------------------------------------------------------ *)
(** * The seal of a content file *)

(* the last record: 'N' followed by sputble32 of crc32c over everything before it INCLUDING the 'N';
   P below is that covered part *)
Definition sealed (b : list N) : Prop := exists P, b = P ++ sputble32 (crc32c_spec 0 P).

Definition RESIDUE : N := zn 32 CRC_IV.

Lemma sputble32_bytes w : bytes (sputble32 w).
Proof. unfold sputble32. repeat constructor; apply land255_lt. Qed.

Lemma shiftr24_byte w : w < 2^32 -> N.shiftr w 24 < 256.
Proof. intros H. rewrite N.shiftr_div_pow2. change (2^24) with 16777216. change (2^32) with 4294967296 in H. lia. Qed.

Lemma le32_sputble32 w : w < 2^32 ->
  le32 (N.land w 255) (N.land (N.shiftr w 8) 255) (N.land (N.shiftr w 16) 255) (N.land (N.shiftr w 24) 255) = w.
Proof.
  intros Hw. rewrite le32_lxor by apply land255_lt.
  assert (E : N.land (N.shiftr w 24) 255 = N.shiftr w 24).
  { change 255 with (N.ones 8). rewrite N.land_ones. apply N.mod_small. apply shiftr24_byte, Hw. }
  rewrite E. symmetry. apply split32.
Qed.

Lemma crc_spec0 P : crc32c_spec 0 P = N.lxor (crc_bytes CRC_IV P) CRC_IV.
Proof. unfold crc32c_spec. rewrite N.lxor_0_l. reflexivity. Qed.

Lemma lxor_lxor_iv s : N.lxor s (N.lxor s CRC_IV) = CRC_IV.
Proof. rewrite <- N.lxor_assoc, N.lxor_nilpotent. apply N.lxor_0_l. Qed.

Theorem seal_residue P C : bytes P -> bytes C -> length C = 4%nat ->
  (C = sputble32 (crc32c_spec 0 P) <-> crc_bytes CRC_IV (P ++ C) = RESIDUE).
Proof.
  intros HP HC LC. rewrite crc_spec0, crc_bytes_app. unfold RESIDUE.
  set (s1 := crc_bytes CRC_IV P).
  assert (H1 : s1 < 2^32) by (apply crc_bytes_lt32; [exact iv_lt32|exact HP]).
  assert (Hw : N.lxor s1 CRC_IV < 2^32) by (apply lxor_lt32; [exact H1|exact iv_lt32]).
  split.
  - intros ->. unfold sputble32. rewrite crc_bytes4 by apply land255_lt.
    rewrite le32_sputble32 by exact Hw. rewrite lxor_lxor_iv. reflexivity.
  - intros E.
    destruct C as [|c0 [|c1 [|c2 [|c3 [|? ?]]]]]; try discriminate LC.
    inversion HC as [|? ? B0 HC1]; subst. inversion HC1 as [|? ? B1 HC2]; subst.
    inversion HC2 as [|? ? B2 HC3]; subst. inversion HC3 as [|? ? B3 _]; subst.
    rewrite crc_bytes4 in E by assumption.
    apply zn_inj in E; [|apply lxor_lt32; [exact H1|apply le32_lt; assumption]|exact iv_lt32].
    assert (E2 : le32 c0 c1 c2 c3 = N.lxor s1 CRC_IV).
    { apply (lxor_cancel_l s1). rewrite E, lxor_lxor_iv. reflexivity. }
    unfold sputble32. apply le32_inj; try assumption; try apply land255_lt.
    rewrite le32_sputble32 by exact Hw. exact E2.
Qed.

Lemma sealed_residue b : bytes b -> sealed b -> crc_bytes CRC_IV b = RESIDUE.
Proof.
  intros Hb [P ->]. apply bytes_app in Hb. destruct Hb as [HP HC].
  apply (seal_residue P _ HP HC); reflexivity.
Qed.

(* THE detection theorem: two sealed byte strings that differ only inside one window of 32 bits are equal.
   Nothing is assumed about where the window lies: it may cover data, the 'N', the stored crc or straddle them. *)
Theorem sealed_window32 i b b' :
  bytes b -> bytes b' -> sealed b -> sealed b' -> agree_outside i 4 b b' -> b = b'.
Proof.
  intros Hb Hb' Sb Sb' Hw.
  destruct (list_eq_dec N.eq_dec b b') as [E|Hne]; [exact E|exfalso].
  apply (crc_window32 CRC_IV i b b' iv_lt32 Hb Hb' Hw Hne).
  rewrite (sealed_residue b Hb Sb), (sealed_residue b' Hb' Sb'). reflexivity.
Qed.

Corollary alteration_unsealed i b b' :
  bytes b -> bytes b' -> sealed b -> agree_outside i 4 b b' -> b <> b' -> ~ sealed b'.
Proof. intros Hb Hb' Sb Hw Hne Sb'. exact (Hne (sealed_window32 i b b' Hb Hb' Sb Sb' Hw)). Qed.

(* ---- single byte, single bit ---- *)

Corollary single_byte_unsealed pre c c' post :
  bytes (pre ++ [c] ++ post) -> c' < 256 -> c <> c' -> sealed (pre ++ [c] ++ post) -> ~ sealed (pre ++ [c'] ++ post).
Proof.
  intros Hb Hc' Hne Sb.
  apply (alteration_unsealed (length pre) (pre ++ [c] ++ post)); try assumption.
  - apply bytes_app in Hb. destruct Hb as [Hpre Hb]. apply bytes_app in Hb. destruct Hb as [_ Hpost].
    apply bytes_app; split; [assumption|]. apply bytes_app; split; [|assumption]. repeat constructor. exact Hc'.
  - apply (agree_outside_weaken _ 1 4); [lia|]. apply (agree_of_split pre [c] [c'] post). reflexivity.
  - intros K. apply app_inv_head in K. injection K as K. exact (Hne K).
Qed.

Lemma lxor_lt256 a b : a < 256 -> b < 256 -> N.lxor a b < 256.
Proof.
  intros Ha Hb. change 256 with (2^8) in *.
  destruct (N.eq_dec (N.lxor a b) 0) as [->|Hn]; [reflexivity|].
  apply N.log2_lt_pow2; [lia|].
  apply N.le_lt_trans with (N.max (N.log2 a) (N.log2 b)); [apply N.log2_lxor|].
  destruct (N.eq_dec a 0) as [->|Ha0]; destruct (N.eq_dec b 0) as [->|Hb0]; cbn [N.log2]; try lia.
  - rewrite N.lxor_0_l in Hn. apply N.max_lub_lt; [lia|]. apply N.log2_lt_pow2; lia.
  - apply N.max_lub_lt; [apply N.log2_lt_pow2; lia|lia].
  - apply N.max_lub_lt; apply N.log2_lt_pow2; lia.
Qed.

Lemma pow2_lt256 j : j < 8 -> 2^j < 256.
Proof. intros H. change 256 with (2^8). apply N.pow_lt_mono_r; lia. Qed.

Lemma lxor_pow2_neq c j : N.lxor c (2^j) <> c.
Proof.
  intros E. assert (K : N.lxor c (N.lxor c (2^j)) = N.lxor c c) by (rewrite E; reflexivity).
  rewrite <- N.lxor_assoc, !N.lxor_nilpotent, N.lxor_0_l in K.
  assert (0 < 2^j) by (apply N.neq_0_lt_0, N.pow_nonzero; lia). lia.
Qed.

Corollary single_bit_unsealed pre c j post :
  bytes (pre ++ [c] ++ post) -> j < 8 -> sealed (pre ++ [c] ++ post) -> ~ sealed (pre ++ [N.lxor c (2^j)] ++ post).
Proof.
  intros Hb Hj Sb.
  assert (Hc : c < 256).
  { apply bytes_app in Hb. destruct Hb as [_ Hb]. apply bytes_app in Hb. destruct Hb as [Hb _]. inversion Hb; assumption. }
  apply (single_byte_unsealed pre c); try assumption.
  - apply lxor_lt256; [exact Hc|apply pow2_lt256, Hj].
  - intros E. symmetry in E. exact (lxor_pow2_neq c j E).
Qed.

(* ------------------------------------------------------------------------------------------------ *)
(** * Non-vacuity *)

(* a sealed string exists; flipping one bit of the stored crc itself, or of the byte before it, or changing the
   two bytes that straddle data and crc, all satisfy the window hypothesis *)
Definition demo_body : list N := [83; 78; 65; 80; 67; 78; 84; 50; 10; 3; 0; 0; 122; 0; 136; 78].
Definition demo : list N := demo_body ++ sputble32 (crc32c_spec 0 demo_body).

Example demo_sealed : sealed demo /\ bytes demo /\ length demo = 20%nat.
Proof.
  split; [exists demo_body; reflexivity|]. split; [|reflexivity].
  unfold demo. apply bytes_app. split; [|apply sputble32_bytes].
  unfold demo_body. repeat constructor.
Qed.

Example demo_straddle :
  let b' := firstn 15 demo ++ [0; 0] ++ skipn 17 demo in
  agree_outside 15 4 demo b' /\ demo <> b' /\ ~ sealed b'.
Proof.
  cbv zeta.
  assert (W : agree_outside 15 4 demo (firstn 15 demo ++ [0; 0] ++ skipn 17 demo)).
  { apply (agree_outside_weaken _ 2 4); [lia|].
    change demo with (firstn 15 demo ++ firstn 2 (skipn 15 demo) ++ skipn 17 demo) at 1.
    apply (agree_of_split (firstn 15 demo) (firstn 2 (skipn 15 demo)) [0; 0] (skipn 17 demo)). reflexivity. }
  assert (NE : demo <> firstn 15 demo ++ [0; 0] ++ skipn 17 demo) by (vm_compute; discriminate).
  split; [exact W|]. split; [exact NE|].
  apply (alteration_unsealed 15 demo); try assumption; try apply demo_sealed.
  vm_compute. repeat constructor.
Qed.
