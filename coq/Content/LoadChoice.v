(* C09: which content copy state_read loads, and when it asks for all copies to be rewritten (state->need_write).

   state_read (cmdline/state.c):
     first loop : walk the configured copies in order; the first one that opens is loaded; every copy found MISSING before it,
                  when another one follows, raises need_write ("attempting with another copy");
     second loop: from the loaded copy on, stat every copy: missing -> need_write; size different from the loaded one ->
                  need_write ("Likely one of the two is broken").
   A command that saves does so when need_write is set (sync, scrub, rehash, ...); state_write then makes all copies equal
   (SaveProofs.save_complete).  Copies are compared by SIZE only: need_write_false_sizes is all that can be said, and
   same_size_stale_copy_not_noticed is the counterexample to "need_write = false -> all copies identical". *)
From Coq Require Import NArith List Bool Arith Lia.
Import ListNotations.

Definition bstr := list N.

(* a configured copy: None = the file does not exist *)
Fixpoint loaded (l : list (option bstr)) : option bstr :=
  match l with
  | [] => None
  | Some d :: _ => Some d
  | None :: t => loaded t
  end.

Definition differs_from (d : bstr) (o : option bstr) : bool :=
  match o with None => true | Some d' => negb (length d' =? length d) end.

Fixpoint need_write (l : list (option bstr)) : bool :=
  match l with
  | [] => false
  | None :: t => negb (match t with [] => true | _ => false end) || need_write t
  | Some d :: t => existsb (differs_from d) t
  end.

(* no rewrite requested: every configured copy exists and has the size of the loaded one *)
Theorem need_write_false_sizes : forall l d, need_write l = false -> loaded l = Some d ->
  forall o, In o l -> exists d', o = Some d' /\ length d' = length d.
Proof.
  induction l as [|[x|] t IH]; intros d NW LD o Hin; cbn [need_write loaded] in *.
  - discriminate.
  - injection LD as <-. destruct Hin as [<-|Hin]; [exists x; auto|].
    destruct o as [d'|].
    + exists d'. split; [reflexivity|].
      destruct (Nat.eqb (length d') (length x)) eqn:E; [apply Nat.eqb_eq, E|].
      assert (K : existsb (differs_from x) t = true) by (apply existsb_exists; exists (Some d'); split; [exact Hin|cbn; rewrite E; reflexivity]).
      congruence.
    + assert (K : existsb (differs_from x) t = true) by (apply existsb_exists; exists None; split; [exact Hin|reflexivity]). congruence.
  - apply orb_false_iff in NW. destruct NW as [N1 N2]. destruct t as [|y t]; [discriminate LD|discriminate N1].
Qed.

(* conversely every missing or differently sized copy is noticed, wherever it is in the list: the mutated loop that stats the
   loaded copy again instead of the other one would return false here *)
Theorem later_copy_noticed : forall (pre : list unit) d post o, differs_from d o = true -> In o post ->
  need_write (map (fun _ => @None bstr) pre ++ Some d :: post) = true.
Proof.
  intros pre d post o Hd Hin. induction pre as [|p pre IH]; cbn [map app need_write].
  - apply existsb_exists. exists o. auto.
  - rewrite IH. apply orb_true_r.
Qed.

Theorem earlier_missing_noticed : forall l d, loaded (None :: l) = Some d -> need_write (None :: l) = true.
Proof. intros l d H. cbn [need_write]. destruct l as [|y t]; [discriminate H|reflexivity]. Qed.

(* sizes only: a stale copy of the same size is not noticed (behaviour of the unchanged tree).
   This is the Coq witness of the open known finding F-C09-same-size-stale-copy-unnoticed (known_findings.json). *)
Example same_size_stale_copy_not_noticed :
  need_write [Some [1%N; 2%N; 3%N]; Some [1%N; 9%N; 3%N]] = false /\ need_write [Some [1%N; 2%N; 3%N]; Some [1%N; 2%N]] = true /\
  need_write [Some [1%N]; Some [1%N]; None] = true /\ need_write [None; Some [1%N]] = true /\ need_write [Some [1%N]; Some [1%N]] = false.
Proof. repeat split. Qed.
