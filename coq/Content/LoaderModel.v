(* C09, part E: the control skeleton of state_read_content (cmdline/state.c:1753-2876), with the record parsers abstract.

   What is transcribed here, branch by branch, is exactly the part of the loader the rejection theorems depend on:

     sread(header, 12) + the magic test                        -> [header]  (abstract reader, yields the initial state)
     while (1) {
        c = sgetc(f);  if (c == EOF) break;
        if (crc_checked) { "Unexpected data after the CRC"; exit(EXIT_FAILURE); }          [fix 49ea0db]
        if (c == 'f' ... 'Q' ...)   one record body                                        -> [record c st] (abstract)
        else if (c == 'N') {
            crc_computed = scrc(f);               crc32c of every byte consumed so far, the 'N' included
            if (sgetble32(f, &crc_stored) < 0)    exit
            if (crc_stored != crc_computed)       exit
            crc_checked = 1;
        } else { "Invalid command"; os_abort(); }                                           -> inside [record]: Bad
     }
     if (!crc_checked) { "Reached the end ... without finding the expected CRC"; exit }

   A record parser that meets an explicit `return -1` / range check answers Bad, at end of file Eof.  The result of the
   loader is Ok st (the file is loaded), or Eof / Bad (the command exits with an error: "rejected").

   Coq/Codec/CodecModel.v (the full grammar, another builder) is to be shown an instance of this skeleton; until then the
   theorems of RejectProofs.v are about every loader of this shape whose record parsers are EOF-strict and regular. *)
From Coq Require Import NArith List Bool.
From Snap.Crc Require Import CrcModel.
From Snap.Codec Require Import Varint.
Import ListNotations.
Local Open Scope N_scope.

Definition TAG_N : N := 78.   (* 'N' *)

(* the bytes a reader consumed: input minus what it left *)
Definition consumed_of (inp rest : list N) : list N := firstn (length inp - length rest) inp.

Section Loader.
  Variable St : Type.
  Variable header : reader St.
  Variable record : N -> St -> reader St.

  (* fuel: one unit per record; S (length input) always suffices because every iteration consumes the tag byte *)
  Fixpoint loader_loop (fuel : nat) (consumed : list N) (st : St) (checked : bool) (inp : list N) : result St :=
    match fuel with
    | O => Bad
    | S fuel' =>
      match inp with
      | [] => if checked then Ok st else Bad
      | c :: t =>
        if checked then Bad
        else if c =? TAG_N then
          match sgetble32 t with
          | Ok (stored, rest) =>
              if stored =? crc32c_spec 0 (consumed ++ [c])
              then loader_loop fuel' (consumed ++ c :: consumed_of t rest) st true rest
              else Bad
          | Eof => Eof
          | Bad => Bad
          end
        else
          match record c st t with
          | Ok (st', rest) => loader_loop fuel' (consumed ++ c :: consumed_of t rest) st' false rest
          | Eof => Eof
          | Bad => Bad
          end
      end
    end.

  Definition loader (b : list N) : result St :=
    match header b with
    | Ok (st, rest) => loader_loop (S (length rest)) (consumed_of b rest) st false rest
    | Eof => Eof
    | Bad => Bad
    end.
End Loader.

(* a small concrete instance (non-vacuity of the interface): header = the 12 magic bytes of SNAPCNT2,
   every record = tag + one payload byte, state = the list of (tag, payload) read so far *)
Definition MAGIC2 : list N := [83; 78; 65; 80; 67; 78; 84; 50; 10; 3; 0; 0].
Fixpoint list_eqb (a b : list N) : bool :=
  match a, b with
  | [], [] => true
  | x :: a', y :: b' => (x =? y) && list_eqb a' b'
  | _, _ => false
  end.
Definition toy_header : reader (list (N * N)) := fun l =>
  match take 12 l with
  | Ok (h, rest) => if list_eqb h MAGIC2 then Ok ([], rest) else Bad
  | Eof => Eof
  | Bad => Bad
  end.
Definition toy_record (c : N) (st : list (N * N)) : reader (list (N * N)) :=
  rbind getc (fun x => rret (st ++ [(c, x)])).
Definition toy_loader : list N -> result (list (N * N)) := loader _ toy_header toy_record.
Definition toy_body : list N := MAGIC2 ++ [122; 7; 120; 9; TAG_N].
Definition toy_file : list N := toy_body ++ sputble32 (crc32c_spec 0 toy_body).
