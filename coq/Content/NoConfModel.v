(* C09: Codec.CodecModel.decode as `snapraid -C <content>` runs it (generate_configuration: no configuration file, every
   disk / parity level / split declared by the file is accepted).  Executable definitions only; extracted for the
   accept / reject correspondence with the real binary on damaged files. *)
From Coq Require Import NArith List.
From Snap.Codec Require Import Varint CodecModel.
Import ListNotations.
Local Open Scope N_scope.

Definition noconf : conf :=
  {| k_no_conf := true; k_block_size := 0; k_hash_size := 16; k_disks := []; k_parity := [];
     k_clear_past_hash := false; k_force_nocopy := false; k_force_realloc := false;
     k_skip_content_check := false; k_match_first_uuid := false |}.

(* 0 = loaded, 1 = rejected at end of file ("Unexpected end of content file" / no CRC record), 2 = rejected otherwise *)
Definition decode_class (b : list N) : N :=
  match decode noconf b with Ok _ => 0 | Eof => 1 | Bad => 2 end.
