(* C09, part E on the full grammar: Codec.CodecModel.decode (the transcription of state_read_content with all record
   kinds, written for C10) only loads sealed byte strings; hence it loads no 32-bit-window alteration of a loaded file.

   Method: every reader of CodecModel returns a SUFFIX of its input ([post] with a trivial postcondition), every record
   other than 'N' keeps crc_checked ([post] with the postcondition d_crc d' = d_crc d); the record loop then needs the
   'N' record -- whose stored value is compared with the crc of exactly the consumed bytes -- to be the last thing in
   the stream. *)
From Coq Require Import NArith ZArith List Bool Arith Lia.
From Snap.Crc Require Import CrcModel CrcProofs.
From Snap.Codec Require Import Varint CodecModel.
From Snap.Content Require Import CrcBurstBytes NoConfModel.
Import ListNotations.
Local Open Scope N_scope.

(* ------------------------------------------------------------------------------------------------ *)
(** * Readers return a suffix of their input, and a value satisfying Q *)

Definition post {A} (Q : A -> Prop) (r : reader A) : Prop :=
  forall inp a rest, r inp = Ok (a, rest) -> (exists l, inp = l ++ rest) /\ Q a.

Notation sfx r := (post (fun _ => True) r).

Lemma post_ret {A} (Q : A -> Prop) a : Q a -> post Q (rret a).
Proof. intros H inp x rest E. injection E as <- <-. split; [exists []; reflexivity|exact H]. Qed.

Lemma post_fail {A} (Q : A -> Prop) : post Q (@rfail A).
Proof. intros inp a rest E. discriminate E. Qed.

Lemma post_eof {A} (Q : A -> Prop) : post Q (fun _ : list N => @Eof (A * list N)).
Proof. intros inp a rest E. discriminate E. Qed.

Lemma post_bind {A B} (Q1 : A -> Prop) (Q : B -> Prop) (r : reader A) (f : A -> reader B) :
  post Q1 r -> (forall a, Q1 a -> post Q (f a)) -> post Q (rbind r f).
Proof.
  intros Hr Hf inp b rest E. unfold rbind in E.
  destruct (r inp) as [[a mid]| |] eqn:E1; try discriminate.
  destruct (Hr _ _ _ E1) as [[l1 ->] Qa]. destruct (Hf a Qa _ _ _ E) as [[l2 ->] Qb].
  split; [exists (l1 ++ l2); rewrite app_assoc; reflexivity|exact Qb].
Qed.

Lemma post_weaken {A} (Q Q' : A -> Prop) r : (forall a, Q a -> Q' a) -> post Q r -> post Q' r.
Proof. intros H Hr inp a rest E. destruct (Hr _ _ _ E) as [S Qa]. split; [exact S|apply H, Qa]. Qed.

Lemma sfx_any {A} (Q : A -> Prop) r : post Q r -> sfx r.
Proof. apply post_weaken. trivial. Qed.

Lemma sfx_getc : sfx getc.
Proof. intros inp a rest E. destruct inp; [discriminate|]. injection E as <- <-. split; [exists [n]; reflexivity|exact I]. Qed.

Lemma sfx_take n : sfx (take n).
Proof. intros inp a rest E. destruct (take_ok _ _ _ _ E) as [-> _]. split; [exists a; reflexivity|exact I]. Qed.

Lemma sfx_getb W : forall fuel v s, sfx (getb W fuel v s).
Proof.
  induction fuel as [|fuel IH]; intros v s inp a rest E; cbn [getb] in E; [discriminate|].
  destruct inp as [|c t]; [discriminate|].
  destruct (N.testbit c 7).
  - injection E as <- <-. split; [exists [c]; reflexivity|exact I].
  - destruct (W <=? (s + 7) mod 256); [discriminate|].
    destruct (IH _ _ _ _ _ E) as [[l ->] _]. split; [exists (c :: l); reflexivity|exact I].
Qed.

Lemma sfx_sgetb32 : sfx sgetb32.
Proof. apply sfx_getb. Qed.
Lemma sfx_sgetb64 : sfx sgetb64.
Proof. apply sfx_getb. Qed.

Lemma sfx_sgetble32 : sfx sgetble32.
Proof.
  intros inp a rest E. unfold sgetble32 in E.
  destruct (take 4 inp) as [[h r]| |] eqn:ET; try discriminate.
  destruct (take_ok _ _ _ _ ET) as [-> _].
  destruct h as [|b0 [|b1 [|b2 [|b3 [|? ?]]]]]; try discriminate.
  injection E as _ <-. split; [eexists; reflexivity|exact I].
Qed.

Lemma sfx_read_hashes : forall fuel hs n, sfx (read_hashes fuel hs n).
Proof.
  induction fuel as [|fuel IH]; intros hs n inp a rest E; cbn [read_hashes] in E.
  - destruct (n =? 0); [|discriminate]. injection E as _ <-. split; [exists []; reflexivity|exact I].
  - destruct (n =? 0); [injection E as _ <-; split; [exists []; reflexivity|exact I]|].
    destruct (take hs inp) as [[h r]| |] eqn:ET; try discriminate.
    destruct (take_ok _ _ _ _ ET) as [-> _].
    destruct (read_hashes fuel hs (n - 1) r) as [[hl r']| |] eqn:ER; try discriminate.
    injection E as _ <-. destruct (IH _ _ _ _ _ ER) as [[l ->] _].
    split; [exists (h ++ l); rewrite app_assoc; reflexivity|exact I].
Qed.

Lemma sfx_get_hashes hs n : sfx (get_hashes hs n).
Proof. intros inp a rest E. exact (sfx_read_hashes _ _ _ _ _ _ E). Qed.

(* a reader whose fuel is computed from its input *)
Lemma post_fuelled {A} (Q : A -> Prop) (g : nat -> reader A) : (forall f, post Q (g f)) -> post Q (fun l => g (S (length l)) l).
Proof. intros H inp a rest E. exact (H _ _ _ _ E). Qed.

Create HintDb postdb.
#[export] Hint Resolve sfx_getc sfx_take sfx_sgetb32 sfx_sgetb64 sfx_sgetble32 sfx_get_hashes : postdb.

Ltac post_tac :=
  lazymatch goal with
  | |- post _ (rbind _ _) => apply (post_bind (fun _ => True)); [post_tac | intros ? _; post_tac]
  | |- post _ (rret _) => apply post_ret; first [exact I | reflexivity | idtac]
  | |- post _ rfail => apply post_fail
  | |- post _ (fun _ => Eof) => apply post_eof
  | |- post _ (if ?c then _ else _) => destruct c; post_tac
  | |- post _ (match ?x with _ => _ end) => destruct x; post_tac
  | |- post _ (fun l => ?g (S (length l)) l) => idtac
  | |- _ => first [ solve [auto with postdb] | match goal with H : _ |- _ => solve [apply H] end | idtac ]
  end.

Lemma sfx_getstr size : sfx (getstr size).
Proof. unfold getstr. post_tac. Qed.
Lemma sfx_getcstr size : sfx (getcstr size).
Proof. unfold getcstr. post_tac. apply sfx_getstr. Qed.
Lemma sfx_get_mapping d : sfx (get_mapping d).
Proof. unfold get_mapping. post_tac. Qed.
#[export] Hint Resolve sfx_getstr sfx_getcstr sfx_get_mapping : postdb.

(* ---- the fuelled loops ---- *)

Lemma sfx_read_runs : forall fuel k hs bm fbm v_idx acc, sfx (read_runs fuel k hs bm fbm v_idx acc).
Proof.
  induction fuel as [|fuel IH]; intros; cbn [read_runs]; post_tac.
Qed.

Lemma sfx_read_info : forall fuel s bm oldest v_pos acc, sfx (read_info fuel s bm oldest v_pos acc).
Proof.
  induction fuel as [|fuel IH]; intros; cbn [read_info]; post_tac.
Qed.

Lemma sfx_read_holes : forall fuel k hs bs bm v_pos acc, sfx (read_holes fuel k hs bs bm v_pos acc).
Proof.
  induction fuel as [|fuel IH]; intros; cbn [read_holes]; post_tac.
Qed.

Lemma sfx_read_splits : forall fuel k used mac i acc, sfx (read_splits fuel k used mac i acc).
Proof.
  induction fuel as [|fuel IH]; intros; cbn [read_splits]; post_tac.
Qed.

(* ---- the records: suffix + crc_checked untouched ---- *)

Notation keeps d := (post (fun d' : dstate => d_crc d' = d_crc d)).

Lemma keeps_rec_file k d : keeps d (rec_file k d).
Proof.
  unfold rec_file. cbv zeta. post_tac.
  apply (post_fuelled _ (fun f => read_runs f k (c_hash_size (d_st d)) (d_blockmax d) _ 0 [])). intros f. apply sfx_read_runs.
Qed.

Lemma keeps_rec_info d : keeps d (rec_info d).
Proof.
  unfold rec_info. cbv zeta. post_tac.
  apply (post_fuelled _ (fun f => read_info f (d_st d) (d_blockmax d) _ 0 [])). intros f. apply sfx_read_info.
Qed.

Lemma keeps_rec_hole k d : keeps d (rec_hole k d).
Proof.
  unfold rec_hole. cbv zeta. post_tac.
  apply (post_fuelled _ (fun f => read_holes f k (c_hash_size (d_st d)) (c_block_size (d_st d)) (d_blockmax d) 0 [])). intros f. apply sfx_read_holes.
Qed.

Lemma keeps_rec_link h d : keeps d (rec_link h d).
Proof. unfold rec_link. cbv zeta. post_tac. Qed.
Lemma keeps_rec_dir d : keeps d (rec_dir d).
Proof. unfold rec_dir. cbv zeta. post_tac. Qed.
Lemma keeps_rec_hash p d : keeps d (rec_hash p d).
Proof. unfold rec_hash. cbv zeta. post_tac. Qed.
Lemma keeps_rec_blocksize k d : keeps d (rec_blocksize k d).
Proof. unfold rec_blocksize. cbv zeta. post_tac. Qed.
Lemma keeps_rec_hashsize k d : keeps d (rec_hashsize k d).
Proof. unfold rec_hashsize. cbv zeta. post_tac. Qed.
Lemma keeps_rec_blockmax d : keeps d (rec_blockmax d).
Proof. unfold rec_blockmax. post_tac. Qed.
Lemma keeps_rec_map k c d : keeps d (rec_map k c d).
Proof. unfold rec_map. cbv zeta. post_tac. Qed.
Lemma keeps_rec_parity_P k d : keeps d (rec_parity_P k d).
Proof. unfold rec_parity_P. cbv zeta. post_tac. Qed.
Lemma keeps_rec_parity_Q k d : keeps d (rec_parity_Q k d).
Proof.
  unfold rec_parity_Q. cbv zeta. post_tac.
  match goal with |- post _ (fun l => read_splits (S (length l)) ?k ?u ?m ?i ?acc l) =>
    apply (post_fuelled _ (fun f => read_splits f k u m i acc)) end. intros f. apply sfx_read_splits.
Qed.

Lemma keeps_record k all d c : (c =? 78) = false -> keeps d (record k all d c).
Proof.
  intros HN. unfold record. rewrite HN.
  repeat match goal with |- post _ (if ?c then _ else _) => destruct c end;
    first [apply keeps_rec_file | apply keeps_rec_info | apply keeps_rec_hole | apply keeps_rec_link | apply keeps_rec_dir
          | apply keeps_rec_hash | apply keeps_rec_blocksize | apply keeps_rec_hashsize | apply keeps_rec_blockmax
          | apply keeps_rec_map | apply keeps_rec_parity_P | apply keeps_rec_parity_Q | apply post_fail | idtac].
Qed.

(* ------------------------------------------------------------------------------------------------ *)
(** * The record loop and decode *)

Lemma firstn_consumed (pre t : list N) : firstn (length (pre ++ t) - length t) (pre ++ t) = pre.
Proof.
  rewrite app_length. replace (length pre + length t - length t)%nat with (length pre) by lia.
  rewrite firstn_app, Nat.sub_diag, firstn_all. cbn [firstn]. apply app_nil_r.
Qed.

Lemma crc_spec_lt32 P : bytes P -> crc32c_spec 0 P < 2^32.
Proof.
  intros HP. rewrite crc_spec0. apply lxor_lt32; [|exact iv_lt32]. apply crc_bytes_lt32; [exact iv_lt32|exact HP].
Qed.

Lemma records_done_checked fuel k all d l r : d_crc d = true -> records fuel k all d l = Ok r -> l = [] /\ r = d.
Proof.
  intros Hc H. destruct fuel; cbn [records] in H; destruct l; try (rewrite Hc in H; discriminate); injection H as <-; auto.
Qed.

Lemma records_sealed : forall fuel k pre d l r, bytes (pre ++ l) -> d_crc d = false ->
  records fuel k (pre ++ l) d l = Ok r -> d_crc r = true -> sealed (pre ++ l).
Proof.
  induction fuel as [|fuel IH]; intros k pre d l r Hb Hd H Hr.
  - destruct l as [|c t]; cbn [records] in H; [injection H as <-; congruence|]. rewrite Hd in H. discriminate.
  - destruct l as [|c t]; cbn [records] in H; [injection H as <-; congruence|]. rewrite Hd in H.
    destruct (record k (pre ++ c :: t) d c t) as [[d' rest]| |] eqn:ER; try discriminate.
    destruct (c =? 78) eqn:EN.
    + (* the 'N' record *)
      unfold record in ER.
      assert (Ec : c = 78) by (apply N.eqb_eq, EN). subst c. cbn in ER. unfold rec_crc in ER.
      destruct (sgetble32 t) as [[stored rest']| |] eqn:EG; try discriminate.
      destruct (stored =? u32 (crc_consumed (pre ++ 78 :: t) t)) eqn:EC; [|discriminate].
      injection ER as <- <-. apply N.eqb_eq in EC.
      apply records_done_checked in H; [|reflexivity]. destruct H as [-> _].
      unfold sgetble32 in EG. destruct (take 4 t) as [[h r']| |] eqn:ET; try discriminate.
      destruct (take_ok _ _ _ _ ET) as [Et _].
      destruct h as [|b0 [|b1 [|b2 [|b3 [|? ?]]]]]; try discriminate.
      injection EG as EG ->. rewrite app_nil_r in Et. subst t.
      apply bytes_app in Hb. destruct Hb as [Hpre Hb]. inversion Hb as [|? ? Hc Ht]; subst.
      inversion Ht as [|? ? B0 Ht1]; subst. inversion Ht1 as [|? ? B1 Ht2]; subst.
      inversion Ht2 as [|? ? B2 Ht3]; subst. inversion Ht3 as [|? ? B3 _]; subst.
      unfold crc_consumed in EC.
      replace (pre ++ 78 :: [b0; b1; b2; b3]) with ((pre ++ [78]) ++ [b0; b1; b2; b3]) in * by (rewrite <- app_assoc; reflexivity).
      rewrite firstn_consumed in EC.
      assert (HP : bytes (pre ++ [78])) by (apply bytes_app; split; [exact Hpre|repeat constructor; exact Hc]).
      assert (Hw := crc_spec_lt32 _ HP).
      unfold u32 in EC. change 4294967296 with (2^32) in EC. rewrite (N.mod_small _ _ Hw) in EC.
      exists (pre ++ [78]). f_equal.
      assert (E32 : le32 b0 b1 b2 b3 = crc32c_spec 0 (pre ++ [78])).
      { rewrite <- EC. unfold le32. rewrite (N.mod_small (N.shiftl b3 24)); [reflexivity|].
        rewrite N.shiftl_mul_pow2. change (2^24) with 16777216. change (2^32) with 4294967296. lia. }
      unfold sputble32. apply le32_inj; try assumption; try apply land255_lt.
      rewrite le32_sputble32 by exact Hw. exact E32.
    + (* any other record: a suffix remains, crc_checked is still false *)
      destruct (keeps_record k (pre ++ c :: t) d c EN _ _ _ ER) as [[l' ->] Hk].
      rewrite Hd in Hk.
      replace (pre ++ c :: l' ++ rest) with ((pre ++ c :: l') ++ rest) in * by (rewrite <- app_assoc; reflexivity).
      exact (IH k _ d' rest r Hb Hk H Hr).
Qed.

Theorem decode_sealed k all s : bytes all -> decode k all = Ok s -> sealed all.
Proof.
  intros Hb H. unfold decode in H.
  destruct (take 12 all) as [[h l]| |] eqn:ET; try discriminate.
  destruct (take_ok _ _ _ _ ET) as [-> _].
  destruct (bytes_eqb h (header 1) || bytes_eqb h (header 2) || bytes_eqb h (header 3)); [|discriminate].
  match type of H with match ?R with _ => _ end = _ => destruct R as [d| |] eqn:ER; try discriminate end.
  destruct (d_crc d) eqn:Ed; [|discriminate].
  apply (records_sealed _ _ _ _ _ _ Hb) in ER; [exact ER|reflexivity|exact Ed].
Qed.

(* no alteration of a loaded content file confined to a window of 32 bits is loaded -- whatever the configuration
   (k') the altered copy is read with *)
Theorem decode_alteration_rejected k k' b b' i s : bytes b -> bytes b' -> decode k b = Ok s ->
  agree_outside i 4 b b' -> b <> b' -> forall s', decode k' b' <> Ok s'.
Proof.
  intros Hb Hb' H Hw Hne s' K. apply Hne.
  exact (sealed_window32 i b b' Hb Hb' (decode_sealed k b s Hb H) (decode_sealed k' b' s' Hb' K) Hw).
Qed.

Corollary decode_single_bit_rejected k k' pre c j post s : bytes (pre ++ [c] ++ post) -> j < 8 ->
  decode k (pre ++ [c] ++ post) = Ok s -> forall s', decode k' (pre ++ [N.lxor c (2^j)] ++ post) <> Ok s'.
Proof.
  intros Hb Hj H s' K.
  assert (Hc : c < 256).
  { apply bytes_app in Hb. destruct Hb as [_ Hb2]. apply bytes_app in Hb2. destruct Hb2 as [Hb2 _]. inversion Hb2; assumption. }
  assert (Hb' : bytes (pre ++ [N.lxor c (2^j)] ++ post)).
  { apply bytes_app in Hb. destruct Hb as [Hpre Hb2]. apply bytes_app in Hb2. destruct Hb2 as [_ Hpost].
    apply bytes_app; split; [assumption|]. apply bytes_app; split; [|assumption]. repeat constructor.
    apply lxor_lt256; [exact Hc|apply pow2_lt256, Hj]. }
  apply (single_bit_unsealed pre c j post Hb Hj (decode_sealed _ _ s Hb H)).
  exact (decode_sealed _ _ s' Hb' K).
Qed.

(* ------------------------------------------------------------------------------------------------ *)
(** * Non-vacuity: a content file written by the real binary (corpus/C09/02_data_after_crc.json, valid twin: one disk, one
      1500-byte file, 128 bytes) is loaded by CodecModel.decode without configuration, and is a byte string *)
Definition real_file : list N := [83; 78; 65; 80; 67; 78; 84; 50; 10; 3; 0; 0; 122; 0; 136; 120; 130; 99; 107; 22; 211; 214; 224; 227; 114; 89; 27; 67; 230; 67; 21; 209; 82; 143; 138; 77; 130; 100; 49; 128; 44; 97; 61; 159; 56; 9; 44; 159; 128; 80; 128; 44; 97; 61; 159; 56; 9; 44; 159; 128; 102; 128; 92; 139; 0; 32; 120; 122; 133; 129; 14; 30; 175; 129; 97; 98; 128; 130; 167; 204; 10; 80; 141; 198; 98; 145; 1; 143; 55; 202; 140; 33; 5; 107; 145; 51; 86; 55; 188; 99; 103; 161; 139; 124; 78; 34; 27; 147; 21; 57; 104; 128; 130; 79; 105; 16; 74; 123; 85; 134; 130; 137; 128; 78; 19; 97; 165; 246].

Example real_file_loaded : (exists s, decode noconf real_file = Ok s) /\ bytes real_file /\ length real_file = 128%nat.
Proof.
  split; [|split; [|reflexivity]].
  - destruct (decode noconf real_file) as [s| |] eqn:E; [exists s; reflexivity|vm_compute in E; discriminate..].
  - unfold real_file. repeat constructor.
Qed.
