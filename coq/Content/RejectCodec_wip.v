(* C09, part E on the full grammar: Codec.CodecModel.decode (the transcription of state_read_content with all record
   kinds, written for C10) only loads sealed byte strings; hence it loads no 32-bit-window alteration of a loaded file.

   Method: every reader of CodecModel returns a SUFFIX of its input ([post] with a trivial postcondition), every record
   other than 'N' keeps crc_checked ([post] with the postcondition d_crc d' = d_crc d); the record loop then needs the
   'N' record -- whose stored value is compared with the crc of exactly the consumed bytes -- to be the last thing in
   the stream. *)
From Coq Require Import NArith ZArith List Bool Arith Lia.
From Snap.Crc Require Import CrcModel CrcProofs.
From Snap.Codec Require Import Varint CodecModel.
From Snap.Content Require Import CrcBurstBytes.
Import ListNotations.
Local Open Scope N_scope.

(* ------------------------------------------------------------------------------------------------ *)
(** * Readers return a suffix of their input, and a value satisfying Q *)

Definition post {A} (Q : A -> Prop) (r : reader A) : Prop :=
  forall inp a rest, r inp = Ok (a, rest) -> (exists l, inp = l ++ rest) /\ Q a.

Notation sfx r := (post (fun _ => True) r).

Lemma post_ret {A} (Q : A -> Prop) a : Q a -> post Q (rret a).
Proof. intros H inp x rest E. injection E as <- <-. split; [exists []; reflexivity|exact H]. Qed.

Lemma post_fail {A} (Q : A -> Prop) : post Q (@rfail A).
Proof. intros inp a rest E. discriminate E. Qed.

Lemma post_eof {A} (Q : A -> Prop) : post Q (fun _ : list N => @Eof (A * list N)).
Proof. intros inp a rest E. discriminate E. Qed.

Lemma post_bind {A B} (Q1 : A -> Prop) (Q : B -> Prop) (r : reader A) (f : A -> reader B) :
  post Q1 r -> (forall a, Q1 a -> post Q (f a)) -> post Q (rbind r f).
Proof.
  intros Hr Hf inp b rest E. unfold rbind in E.
  destruct (r inp) as [[a mid]| |] eqn:E1; try discriminate.
  destruct (Hr _ _ _ E1) as [[l1 ->] Qa]. destruct (Hf a Qa _ _ _ E) as [[l2 ->] Qb].
  split; [exists (l1 ++ l2); rewrite app_assoc; reflexivity|exact Qb].
Qed.

Lemma post_weaken {A} (Q Q' : A -> Prop) r : (forall a, Q a -> Q' a) -> post Q r -> post Q' r.
Proof. intros H Hr inp a rest E. destruct (Hr _ _ _ E) as [S Qa]. split; [exact S|apply H, Qa]. Qed.

Lemma sfx_any {A} (Q : A -> Prop) r : post Q r -> sfx r.
Proof. apply post_weaken. trivial. Qed.

Lemma sfx_getc : sfx getc.
Proof. intros inp a rest E. destruct inp; [discriminate|]. injection E as <- <-. split; [exists [n]; reflexivity|exact I]. Qed.

Lemma sfx_take n : sfx (take n).
Proof. intros inp a rest E. destruct (take_ok _ _ _ _ E) as [-> _]. split; [exists a; reflexivity|exact I]. Qed.

Lemma sfx_getb W : forall fuel v s, sfx (getb W fuel v s).
Proof.
  induction fuel as [|fuel IH]; intros v s inp a rest E; cbn [getb] in E; [discriminate|].
  destruct inp as [|c t]; [discriminate|].
  destruct (N.testbit c 7).
  - injection E as <- <-. split; [exists [c]; reflexivity|exact I].
  - destruct (W <=? (s + 7) mod 256); [discriminate|].
    destruct (IH _ _ _ _ _ E) as [[l ->] _]. split; [exists (c :: l); reflexivity|exact I].
Qed.

Lemma sfx_sgetb32 : sfx sgetb32.
Proof. apply sfx_getb. Qed.
Lemma sfx_sgetb64 : sfx sgetb64.
Proof. apply sfx_getb. Qed.

Lemma sfx_sgetble32 : sfx sgetble32.
Proof.
  intros inp a rest E. unfold sgetble32 in E.
  destruct (take 4 inp) as [[h r]| |] eqn:ET; try discriminate.
  destruct (take_ok _ _ _ _ ET) as [-> _].
  destruct h as [|b0 [|b1 [|b2 [|b3 [|? ?]]]]]; try discriminate.
  injection E as _ <-. split; [eexists; reflexivity|exact I].
Qed.

Lemma sfx_read_hashes : forall fuel hs n, sfx (read_hashes fuel hs n).
Proof.
  induction fuel as [|fuel IH]; intros hs n inp a rest E; cbn [read_hashes] in E.
  - destruct (n =? 0); [|discriminate]. injection E as _ <-. split; [exists []; reflexivity|exact I].
  - destruct (n =? 0); [injection E as _ <-; split; [exists []; reflexivity|exact I]|].
    destruct (take hs inp) as [[h r]| |] eqn:ET; try discriminate.
    destruct (take_ok _ _ _ _ ET) as [-> _].
    destruct (read_hashes fuel hs (n - 1) r) as [[hl r']| |] eqn:ER; try discriminate.
    injection E as _ <-. destruct (IH _ _ _ _ _ ER) as [[l ->] _].
    split; [exists (h ++ l); rewrite app_assoc; reflexivity|exact I].
Qed.

Lemma sfx_get_hashes hs n : sfx (get_hashes hs n).
Proof. intros inp a rest E. exact (sfx_read_hashes _ _ _ _ _ _ E). Qed.

(* a reader whose fuel is computed from its input *)
Lemma post_fuelled {A} (Q : A -> Prop) (g : nat -> reader A) : (forall f, post Q (g f)) -> post Q (fun l => g (S (length l)) l).
Proof. intros H inp a rest E. exact (H _ _ _ _ E). Qed.

Create HintDb postdb.
#[export] Hint Resolve sfx_getc sfx_take sfx_sgetb32 sfx_sgetb64 sfx_sgetble32 sfx_get_hashes : postdb.

Ltac post_tac :=
  lazymatch goal with
  | |- post _ (rbind _ _) => apply (post_bind (fun _ => True)); [post_tac | intros ? _; post_tac]
  | |- post _ (rret _) => apply post_ret; first [exact I | reflexivity | idtac]
  | |- post _ rfail => apply post_fail
  | |- post _ (fun _ => Eof) => apply post_eof
  | |- post _ (if ?c then _ else _) => destruct c; post_tac
  | |- post _ (match ?x with _ => _ end) => destruct x; post_tac
  | |- post _ (fun l => ?g (S (length l)) l) => idtac
  | |- _ => first [ solve [auto with postdb] | match goal with H : _ |- _ => solve [apply H] end | idtac ]
  end.

Lemma sfx_getstr size : sfx (getstr size).
Proof. unfold getstr. post_tac. Qed.
Lemma sfx_getcstr size : sfx (getcstr size).
Proof. unfold getcstr. post_tac. apply sfx_getstr. Qed.
Lemma sfx_get_mapping d : sfx (get_mapping d).
Proof. unfold get_mapping. post_tac. Qed.
#[export] Hint Resolve sfx_getstr sfx_getcstr sfx_get_mapping : postdb.

(* ---- the fuelled loops ---- *)

Lemma sfx_read_runs : forall fuel k hs bm fbm v_idx acc, sfx (read_runs fuel k hs bm fbm v_idx acc).
Proof.
  induction fuel as [|fuel IH]; intros; cbn [read_runs]; post_tac.
Qed.

Lemma sfx_read_info : forall fuel s bm oldest v_pos acc, sfx (read_info fuel s bm oldest v_pos acc).
Proof.
  induction fuel as [|fuel IH]; intros; cbn [read_info]; post_tac.
Qed.

Lemma sfx_read_holes : forall fuel k hs bs bm v_pos acc, sfx (read_holes fuel k hs bs bm v_pos acc).
Proof.
  induction fuel as [|fuel IH]; intros; cbn [read_holes]; post_tac.
Qed.

Lemma sfx_read_splits : forall fuel k used mac i acc, sfx (read_splits fuel k used mac i acc).
Proof.
  induction fuel as [|fuel IH]; intros; cbn [read_splits]; post_tac.
Qed.

(* ---- the records: suffix + crc_checked untouched ---- *)

Notation keeps d := (post (fun d' : dstate => d_crc d' = d_crc d)).

Lemma keeps_rec_file k d : keeps d (rec_file k d).
Proof.
  unfold rec_file. cbv zeta. post_tac.
  apply (post_fuelled _ (fun f => read_runs f k (c_hash_size (d_st d)) (d_blockmax d) _ 0 [])). intros f. apply sfx_read_runs.
Qed.

Lemma keeps_rec_info d : keeps d (rec_info d).
Proof.
  unfold rec_info. cbv zeta. post_tac.
  apply (post_fuelled _ (fun f => read_info f (d_st d) (d_blockmax d) _ 0 [])). intros f. apply sfx_read_info.
Qed.

Lemma keeps_rec_hole k d : keeps d (rec_hole k d).
Proof.
  unfold rec_hole. cbv zeta. post_tac.
  apply (post_fuelled _ (fun f => read_holes f k (c_hash_size (d_st d)) (c_block_size (d_st d)) (d_blockmax d) 0 [])). intros f. apply sfx_read_holes.
Qed.

Lemma keeps_rec_link h d : keeps d (rec_link h d).
Proof. unfold rec_link. cbv zeta. post_tac. Qed.
Lemma keeps_rec_dir d : keeps d (rec_dir d).
Proof. unfold rec_dir. cbv zeta. post_tac. Qed.
Lemma keeps_rec_hash p d : keeps d (rec_hash p d).
Proof. unfold rec_hash. cbv zeta. post_tac. Qed.
Lemma keeps_rec_blocksize k d : keeps d (rec_blocksize k d).
Proof. unfold rec_blocksize. cbv zeta. post_tac. Qed.
Lemma keeps_rec_hashsize k d : keeps d (rec_hashsize k d).
Proof. unfold rec_hashsize. cbv zeta. post_tac. Qed.
Lemma keeps_rec_blockmax d : keeps d (rec_blockmax d).
Proof. unfold rec_blockmax. post_tac. Qed.
Lemma keeps_rec_map k c d : keeps d (rec_map k c d).
Proof. unfold rec_map. cbv zeta. post_tac. Qed.
Lemma keeps_rec_parity_P k d : keeps d (rec_parity_P k d).
Proof. unfold rec_parity_P. cbv zeta. post_tac. Qed.
Lemma keeps_rec_parity_Q k d : keeps d (rec_parity_Q k d).
Proof.
  unfold rec_parity_Q. cbv zeta. post_tac.
  match goal with |- post _ (fun l => read_splits (S (length l)) ?k ?u ?m ?i ?acc l) =>
    apply (post_fuelled _ (fun f => read_splits f k u m i acc)) end. intros f. apply sfx_read_splits.
Qed.

Lemma keeps_record k all d c : (c =? 78) = false -> keeps d (record k all d c).
Proof.
  intros HN. unfold record. rewrite HN.
  repeat match goal with |- post _ (if ?c then _ else _) => destruct c end;
    first [apply keeps_rec_file | apply keeps_rec_info | apply keeps_rec_hole | apply keeps_rec_link | apply keeps_rec_dir
          | apply keeps_rec_hash | apply keeps_rec_blocksize | apply keeps_rec_hashsize | apply keeps_rec_blockmax
          | apply keeps_rec_map | apply keeps_rec_parity_P | apply keeps_rec_parity_Q | apply post_fail | idtac].
Qed.
