(* C09, part E: truncated and altered content files are rejected -- for every loader of the shape LoaderModel.loader
   whose header and record parsers are
       regular    : a successful read depends only on the bytes it consumed  (r inp = Ok (a, rest) -> inp = l ++ rest and
                    r reads l whatever follows)
       EOF-strict : on every strict prefix of what it reads it answers Eof   (Varint.strict)
   Both properties hold of getc / sgetb32 / sgetb64 / sgetble32 / sgetbs / take and are preserved by rbind
   (regular_bind, strict_bind below), which is how the record parsers of the content grammar are built.

     accept_sealed          a loaded file is P ++ 'N'-terminated-prefix crc:  sealed in the sense of CrcBurstBytes
     truncation_rejected    no strict prefix of a loaded file is loaded
     alteration_rejected    no byte string of the same length that differs from a loaded file only inside a window of
                            32 bits is loaded (single bit, single byte, 4 adjacent bytes; the window may cover the 'N'
                            and the crc bytes themselves)                                                                *)
From Coq Require Import NArith List Bool Arith Lia.
From Snap.Crc Require Import CrcModel CrcProofs.
From Snap.Codec Require Import Varint.
From Snap.Content Require Import CrcBurstBytes LoaderModel.
Import ListNotations.
Local Open Scope N_scope.

(* ------------------------------------------------------------------------------------------------ *)
(** * Regular readers *)

Definition regular {A} (r : reader A) : Prop :=
  forall inp a rest, r inp = Ok (a, rest) -> exists l, inp = l ++ rest /\ reads r l a.

Lemma regular_ret {A} (a : A) : regular (rret a).
Proof. intros inp x rest H. injection H as <- <-. exists []. split; [reflexivity|]. intros r. reflexivity. Qed.

Lemma regular_getc : regular getc.
Proof.
  intros inp a rest H. destruct inp as [|c t]; [discriminate|]. injection H as <- <-.
  exists [c]. split; [reflexivity|]. intros r. reflexivity.
Qed.

Lemma regular_bind {A B} (r : reader A) (f : A -> reader B) : regular r -> (forall a, regular (f a)) -> regular (rbind r f).
Proof.
  intros Rr Rf inp b rest H. unfold rbind in H.
  destruct (r inp) as [[a mid]| |] eqn:E; try discriminate.
  destruct (Rr _ _ _ E) as (l1 & -> & H1). destruct (Rf a _ _ _ H) as (l2 & -> & H2).
  exists (l1 ++ l2). split; [rewrite app_assoc; reflexivity|]. apply (reads_bind r f l1 l2 a b); assumption.
Qed.

Lemma strict_ret {A} (a : A) : strict (rret a).
Proof.
  intros l x H l1 l2 -> Hl2. specialize (H []). unfold rret in H. injection H as _ H.
  rewrite app_nil_r in H. destruct l1; destruct l2; try discriminate; congruence.
Qed.

Lemma strict_bind {A B} (r : reader A) (f : A -> reader B) :
  regular r -> (forall a, regular (f a)) -> strict r -> (forall a, strict (f a)) -> strict (rbind r f).
Proof.
  intros Rr Rf Sr Sf l b H p q -> Hq.
  pose proof (H []) as H0. rewrite app_nil_r in H0. unfold rbind in H0.
  destruct (r (p ++ q)) as [[a mid]| |] eqn:E; try discriminate.
  destruct (Rr _ _ _ E) as (l1 & E1 & H1). destruct (Rf a _ _ _ H0) as (l2 & E2 & H2).
  rewrite app_nil_r in E2. subst mid.
  exact (strict_bind_run r f l1 l2 a b Sr Sf H1 H2 p q (eq_sym E1) Hq).
Qed.

Lemma regular_take n : regular (take n).
Proof.
  intros inp a rest H. destruct (take_ok _ _ _ _ H) as [-> <-]. exists a. split; [reflexivity|]. intros r. apply take_app.
Qed.

Lemma strict_take n : strict (take n).
Proof.
  intros l a H l1 l2 -> Hl2.
  pose proof (H []) as H0. rewrite app_nil_r in H0. destruct (take_ok _ _ _ _ H0) as [E <-].
  rewrite app_nil_r in E. subst a. apply take_short. rewrite app_length.
  destruct l2; [congruence|]. cbn [length]. lia.
Qed.

Lemma regular_sgetble32 : regular sgetble32.
Proof.
  intros inp a rest H. unfold sgetble32 in H.
  destruct (take 4 inp) as [[h r]| |] eqn:E; try discriminate.
  destruct (take_ok _ _ _ _ E) as [-> L].
  destruct h as [|b0 [|b1 [|b2 [|b3 [|? ?]]]]]; try discriminate.
  injection H as <- <-. exists [b0; b1; b2; b3]. split; [reflexivity|]. intros r'. unfold sgetble32. cbn [app]. rewrite take4. reflexivity.
Qed.

(* ------------------------------------------------------------------------------------------------ *)
(** * consumed_of *)

Lemma consumed_of_app l rest : consumed_of (l ++ rest) rest = l.
Proof.
  unfold consumed_of. rewrite app_length. replace (length l + length rest - length rest)%nat with (length l) by lia.
  rewrite firstn_app, Nat.sub_diag, firstn_all. cbn [firstn]. apply app_nil_r.
Qed.

Section Reject.
  Variable St : Type.
  Variable header : reader St.
  Variable record : N -> St -> reader St.
  Hypothesis header_regular : regular header.
  Hypothesis header_strict : strict header.
  Hypothesis record_regular : forall c st, regular (record c st).
  Hypothesis record_strict : forall c st, strict (record c st).

  Notation loop := (loader_loop St record).
  Notation load := (loader St header record).

  (* ---------------------------------------------------------------------------------------------- *)
  (** ** a loaded file is sealed *)

  Lemma loop_checked fuel consumed st inp r : loop fuel consumed st true inp = Ok r -> inp = [].
  Proof using Type. destruct fuel; cbn [loader_loop]; [discriminate|]. destruct inp; [reflexivity|discriminate]. Qed.

  Lemma loop_sealed : forall fuel consumed st inp r, bytes inp ->
    loop fuel consumed st false inp = Ok r -> sealed (consumed ++ inp).
  Proof using record_regular.
    clear record_strict header_strict header_regular.
    induction fuel as [|fuel IH]; intros consumed st inp r Hb H; cbn [loader_loop] in H; [discriminate|].
    destruct inp as [|c t]; [discriminate|].
    inversion Hb as [|? ? Hc Ht]; subst.
    destruct (c =? TAG_N) eqn:EN.
    - destruct (sgetble32 t) as [[stored rest]| |] eqn:EG; try discriminate.
      destruct (stored =? crc32c_spec 0 (consumed ++ [c])) eqn:EC; [|discriminate].
      apply loop_checked in H. subst rest. apply N.eqb_eq in EC.
      unfold sgetble32 in EG. destruct (take 4 t) as [[h r']| |] eqn:ET; try discriminate.
      destruct (take_ok _ _ _ _ ET) as [Et _].
      destruct h as [|b0 [|b1 [|b2 [|b3 [|? ?]]]]]; try discriminate.
      injection EG as EG ->. rewrite app_nil_r in Et. subst t.
      inversion Ht as [|? ? B0 Ht1]; subst. inversion Ht1 as [|? ? B1 Ht2]; subst.
      inversion Ht2 as [|? ? B2 Ht3]; subst. inversion Ht3 as [|? ? B3 _]; subst.
      exists (consumed ++ [c]). rewrite <- app_assoc. cbn [app]. do 2 f_equal.
      assert (E32 : le32 b0 b1 b2 b3 = crc32c_spec 0 (consumed ++ [c])).
      { rewrite <- EC. unfold le32. rewrite (N.mod_small (N.shiftl b3 24)); [reflexivity|].
        rewrite N.shiftl_mul_pow2. change (2^24) with 16777216. change (2^32) with 4294967296. lia. }
      assert (Hw : crc32c_spec 0 (consumed ++ [c]) < 2^32) by (rewrite <- E32; apply le32_lt; assumption).
      unfold sputble32. apply le32_inj; try assumption; try apply land255_lt.
      rewrite le32_sputble32 by exact Hw. exact E32.
    - destruct (record c st t) as [[st' rest]| |] eqn:ER; try discriminate.
      destruct (record_regular c st _ _ _ ER) as (l & -> & _).
      rewrite consumed_of_app in H.
      apply bytes_app in Ht. destruct Ht as [_ Hrest].
      apply (IH _ _ _ _ Hrest) in H.
      replace (consumed ++ c :: l ++ rest) with ((consumed ++ c :: l) ++ rest) by (rewrite <- app_assoc; reflexivity).
      exact H.
  Qed.

  Theorem accept_sealed b st : bytes b -> load b = Ok st -> sealed b.
  Proof using header_regular record_regular.
    intros Hb H. unfold loader in H.
    destruct (header b) as [[st0 rest]| |] eqn:EH; try discriminate.
    destruct (header_regular _ _ _ EH) as (h & -> & _).
    rewrite consumed_of_app in H. apply bytes_app in Hb. destruct Hb as [_ Hrest].
    exact (loop_sealed _ _ _ _ _ Hrest H).
  Qed.

  (* ---------------------------------------------------------------------------------------------- *)
  (** ** truncation *)

  Definition rejected (r : result St) : Prop := forall st, r <> Ok st.

  Lemma loop_truncated : forall fuel consumed st inp r, loop fuel consumed st false inp = Ok r ->
    forall p q, inp = p ++ q -> q <> [] -> forall fuel' consumed', rejected (loop fuel' consumed' st false p).
  Proof using record_regular record_strict.
    induction fuel as [|fuel IH]; intros consumed st inp r H p q E Hq fuel' consumed' x; cbn [loader_loop] in H; [discriminate|].
    destruct fuel' as [|fuel']; cbn [loader_loop]; [discriminate|].
    destruct inp as [|c t]; [discriminate|].
    destruct p as [|c' p']; [discriminate|].
    injection E as <- E.
    destruct (c =? TAG_N) eqn:EN.
    - destruct (sgetble32 t) as [[stored rest]| |] eqn:EG; try discriminate.
      destruct (stored =? crc32c_spec 0 (consumed ++ [c])); [|discriminate].
      apply loop_checked in H. subst rest.
      destruct (regular_sgetble32 _ _ _ EG) as (l & El & Hl). rewrite app_nil_r in El. subst l.
      assert (S4 : strict sgetble32).
      { intros l0 a0 H0 l1 l2 -> Hl2. unfold sgetble32.
        pose proof (H0 []) as K. rewrite app_nil_r in K. unfold sgetble32 in K.
        destruct (take 4 (l1 ++ l2)) as [[h r']| |] eqn:ET; try discriminate.
        destruct (take_ok _ _ _ _ ET) as [Et L4].
        destruct h as [|b0 [|b1 [|b2 [|b3 [|? ?]]]]]; try discriminate.
        injection K as _ K. subst r'. rewrite app_nil_r in Et.
        assert (Ls : N.of_nat (length l1) < 4).
        { assert (LL : length (l1 ++ l2) = 4%nat) by (rewrite Et; reflexivity). rewrite app_length in LL.
          destruct l2; [congruence|]. cbn [length] in LL. lia. }
        rewrite (take_short 4 l1 Ls). reflexivity. }
      rewrite (S4 _ _ Hl p' q E Hq). discriminate.
    - destruct (record c st t) as [[st' rest]| |] eqn:ER; try discriminate.
      destruct (record_regular c st _ _ _ ER) as (l & -> & Hl).
      rewrite consumed_of_app in H.
      destruct (split_prefix l rest p' q E) as [[m [-> ->]]|[m [-> ->]]].
      + destruct m as [|y m].
        * rewrite app_nil_r in Hl. pose proof (Hl []) as K. rewrite app_nil_r in K. rewrite K.
          destruct fuel'; cbn [loader_loop]; discriminate.
        * rewrite (record_strict c st _ _ Hl p' (y :: m) eq_refl); discriminate.
      + rewrite (Hl m). exact (IH _ _ _ _ H m q eq_refl Hq fuel' _ x).
  Qed.

  Theorem truncation_rejected b st p q : load b = Ok st -> b = p ++ q -> q <> [] -> rejected (load p).
  Proof using header_regular header_strict record_regular record_strict.
    intros H E Hq x. unfold loader in *.
    destruct (header b) as [[st0 rest]| |] eqn:EH; try discriminate.
    destruct (header_regular _ _ _ EH) as (h & -> & Hh).
    rewrite consumed_of_app in H.
    destruct (split_prefix h rest p q E) as [[m [-> ->]]|[m [-> ->]]].
    - destruct m as [|y m].
      + rewrite app_nil_r in Hh. pose proof (Hh []) as K. rewrite app_nil_r in K. rewrite K. cbn [length loader_loop]. discriminate.
      + rewrite (header_strict _ _ Hh p (y :: m) eq_refl); discriminate.
    - rewrite (Hh m). exact (loop_truncated _ _ _ _ _ H m q eq_refl Hq _ _ x).
  Qed.

  (* ---------------------------------------------------------------------------------------------- *)
  (** ** alteration inside a window of 32 bits *)

  Theorem alteration_rejected b st b' i : bytes b -> bytes b' -> load b = Ok st ->
    agree_outside i 4 b b' -> b <> b' -> rejected (load b').
  Proof using header_regular record_regular.
    intros Hb Hb' H Hw Hne x K.
    apply Hne. apply (sealed_window32 i b b' Hb Hb'); [exact (accept_sealed b st Hb H)|exact (accept_sealed b' x Hb' K)|exact Hw].
  Qed.

  Corollary single_bit_rejected pre c j post st : bytes (pre ++ [c] ++ post) -> j < 8 ->
    load (pre ++ [c] ++ post) = Ok st -> rejected (load (pre ++ [N.lxor c (2^j)] ++ post)).
  Proof using header_regular record_regular.
    intros Hb Hj H x K.
    assert (Hc : c < 256).
    { apply bytes_app in Hb. destruct Hb as [_ Hb2]. apply bytes_app in Hb2. destruct Hb2 as [Hb2 _]. inversion Hb2; assumption. }
    assert (Hb' : bytes (pre ++ [N.lxor c (2^j)] ++ post)).
    { apply bytes_app in Hb. destruct Hb as [Hpre Hb2]. apply bytes_app in Hb2. destruct Hb2 as [_ Hpost].
      apply bytes_app; split; [assumption|]. apply bytes_app; split; [|assumption]. repeat constructor.
      apply lxor_lt256; [exact Hc|apply pow2_lt256, Hj]. }
    apply (single_bit_unsealed pre c j post Hb Hj (accept_sealed _ st Hb H)).
    exact (accept_sealed _ x Hb' K).
  Qed.
End Reject.

(* ------------------------------------------------------------------------------------------------ *)
(** * Non-vacuity: the toy instance satisfies the four hypotheses and loads its file *)

Lemma list_eqb_eq a : forall b, list_eqb a b = true -> a = b.
Proof.
  induction a as [|x a IH]; intros [|y b] H; cbn [list_eqb] in H; try discriminate; [reflexivity|].
  apply andb_true_iff in H. destruct H as [H1 H2]. apply N.eqb_eq in H1. subst y. f_equal. apply IH, H2.
Qed.

Lemma toy_header_regular : regular toy_header.
Proof.
  intros inp a rest H. unfold toy_header in H.
  destruct (take 12 inp) as [[h r]| |] eqn:E; try discriminate.
  destruct (list_eqb h MAGIC2) eqn:EM; [|discriminate]. injection H as <- <-.
  destruct (take_ok _ _ _ _ E) as [-> L]. exists h. split; [reflexivity|].
  intros r'. unfold toy_header. replace 12 with (N.of_nat (length h)) by exact L. rewrite take_app, EM. reflexivity.
Qed.

Lemma toy_header_strict : strict toy_header.
Proof.
  intros l a H l1 l2 -> Hl2. unfold toy_header.
  pose proof (H []) as K. rewrite app_nil_r in K. unfold toy_header in K.
  destruct (take 12 (l1 ++ l2)) as [[h r]| |] eqn:E; try discriminate.
  destruct (list_eqb h MAGIC2); [|discriminate]. injection K as _ K. subst r.
  destruct (take_ok _ _ _ _ E) as [Et L]. rewrite app_nil_r in Et. subst h.
  rewrite (take_short 12 l1); [reflexivity|]. rewrite app_length in L. destruct l2; [congruence|]. cbn [length] in L. lia.
Qed.

Lemma toy_record_regular c st : regular (toy_record c st).
Proof. apply regular_bind; [apply regular_getc|intros; apply regular_ret]. Qed.

Lemma toy_record_strict c st : strict (toy_record c st).
Proof. apply strict_bind; [apply regular_getc|intros; apply regular_ret|apply strict_getc|intros; apply strict_ret]. Qed.

Example toy_loads : toy_loader toy_file = Ok [(122, 7); (120, 9)] /\ bytes toy_file /\ length toy_file = 21%nat.
Proof. split; [vm_compute; reflexivity|]. split; [|reflexivity]. vm_compute. repeat constructor. Qed.

Example toy_truncations_rejected : forall n, (n < 21)%nat -> forall st, toy_loader (firstn n toy_file) <> Ok st.
Proof.
  intros n Hn. apply (truncation_rejected _ toy_header toy_record toy_header_regular toy_header_strict
                        toy_record_regular toy_record_strict toy_file _ (firstn n toy_file) (skipn n toy_file) (proj1 toy_loads)).
  - symmetry. apply firstn_skipn.
  - intros K. assert (L : length (skipn n toy_file) = 0%nat) by (rewrite K; reflexivity).
    rewrite skipn_length in L. change (length toy_file) with 21%nat in L. lia.
Qed.
