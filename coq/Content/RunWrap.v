(* C09: the 32-bit range sums of the block-run loader wrap, and what rejects a wrapped run.

   state_read_content, 'f' record, for every run:   if (v_idx + v_count > file->blockmax) error;  if (v_pos + v_count > blockmax) error;
   both sums are uint32_t.  Codec.CodecModel.read_runs writes them `u32 (v_idx + v_count)` / `u32 (v_pos + v_count)`, i.e. WITH the
   wrap, so the rejection theorems of Properties_C09_codec.v are not about a check the C does not make.  A count such as 0xFFFFFFFF
   with v_idx >= 1 and v_pos >= 1 passes both tests (range_tests_wrap); the run is then refused by the PER-BLOCK check of
   fs_file2block_get() in the fill loop (os_abort "Dereferencing file ..."), which the model represents by its (WRAP) clause
   `2^32 <= v_idx + v_count || 2^32 <= v_pos + v_count -> Bad`.  wrapped_run_rejected: whatever the bytes that follow, a run whose
   sums reach 2^32 is never loaded.  The C side (no store beyond the block array, prompt refusal) is tested under ASan by the
   integer-field mutants of harness/py/c09_fields.py.
   [History: before the repair of finding F-C09-wrapped-run-count-long-loop the C tests did wrap; the 'i' and 'h' loops then ran
   2^32 times / asked for 73 GB.  See the end of this file for the repaired tests.] *)
From Coq Require Import NArith List Bool Lia.
From Snap.Codec Require Import Varint CodecModel.
Import ListNotations.
Local Open Scope N_scope.

Example range_tests_wrap :
  let fbm := 2 in let bm := 3 in let v_idx := 1 in let v_pos := 2 in let v_count := 4294967295 in
  (fbm <? u32 (v_idx + v_count)) = false /\ (bm <? u32 (v_pos + v_count)) = false /\
  (fbm <? v_idx + v_count) = true /\ sgetb32 [127; 127; 127; 127; 143] = Ok (v_count, []).
Proof. cbv zeta. repeat split. Qed.

Theorem wrapped_run_rejected : forall f k hs bm fbm v_idx acc c v_pos v_count rest,
  v_idx < fbm -> v_pos < 2^32 -> v_count < 2^32 -> v_count <> 0 ->
  (2^32 <= v_idx + v_count \/ 2^32 <= v_pos + v_count) ->
  read_runs (S f) k hs bm fbm v_idx acc (c :: sputb32 v_pos ++ sputb32 v_count ++ rest) = Bad.
Proof.
  intros f k hs bm fbm v_idx acc c v_pos v_count rest Hi Hp Hc Hn Hw.
  cbn [read_runs].
  assert (E1 : (fbm <=? v_idx) = false) by (apply N.leb_gt; exact Hi). rewrite E1.
  unfold rbind at 1. cbn [getc].
  unfold rbind at 1. rewrite (getb32_putb32 v_pos _ Hp).
  unfold rbind at 1. rewrite (getb32_putb32 v_count _ Hc).
  destruct (fbm <? u32 (v_idx + v_count)); [reflexivity|].
  destruct (bm <? u32 (v_pos + v_count)); [reflexivity|].
  assert (E2 : (v_count =? 0) = false) by (apply N.eqb_neq; exact Hn). rewrite E2.
  destruct (block_state_of c); [|reflexivity].
  assert (E3 : (4294967296 <=? v_idx + v_count) || (4294967296 <=? v_pos + v_count) = true).
  { change 4294967296 with (2^32). apply orb_true_iff. destruct Hw as [H|H]; [left|right]; apply N.leb_le; exact H. }
  rewrite E3. reflexivity.
Qed.

(* the damaged run of the regression case: second run of a 2-block file, count overwritten by 7F 7F 7F 7F 8F *)
Example wrapped_run_instance : forall k acc rest,
  read_runs 5 k 16 3 2 1 acc ([98; 130; 127; 127; 127; 127; 143] ++ rest) = Bad.
Proof.
  intros k acc rest.
  apply (wrapped_run_rejected 4 k 16 3 2 1 acc 98 2 4294967295 rest); try reflexivity; try discriminate.
  left. discriminate.
Qed.

(* After the repair "fix: overflow-safe range tests in the content loader" the C makes the tests as
       if (v_count > max || v > max - v_count) error;
   for the 'f' runs (twice), the 'i' info runs and the 'h' hole runs.  For 32-bit values this is exactly what the model's pair
   "u32 test, then (WRAP) clause" rejects: both are `max < v + v_count` in unbounded arithmetic.  So CodecModel needs no change,
   and a wrapped count is refused BEFORE the fill loop. *)
Lemma model_range_test_is_overflow_safe v n mx : v < 2^32 -> n < 2^32 -> mx < 2^32 ->
  ((mx <? u32 (v + n)) || (4294967296 <=? v + n)) = ((mx <? n) || (mx - n <? v)).
Proof.
  intros Hv Hn Hm. change 4294967296 with (2^32) in *. unfold u32. change 4294967296 with (2^32).
  assert (L : ((mx <? n) || (mx - n <? v)) = (mx <? v + n)).
  { destruct (mx <? n) eqn:A; destruct (mx - n <? v) eqn:B; destruct (mx <? v + n) eqn:C; try reflexivity; exfalso;
      repeat match goal with
             | H : (_ <? _) = true |- _ => apply N.ltb_lt in H
             | H : (_ <? _) = false |- _ => apply N.ltb_ge in H
             end; lia. }
  rewrite L.
  destruct (2^32 <=? v + n) eqn:W.
  - apply N.leb_le in W. rewrite orb_true_r. symmetry. apply N.ltb_lt. lia.
  - apply N.leb_gt in W. rewrite orb_false_r. rewrite (N.mod_small _ _ W). reflexivity.
Qed.
