(* C09, part C: model of state_write (cmdline/state.c) = state_write_content ; state_verify_content ;
   state_rename_content, as a list of file-system operations over an abstract file system.
   Executable definitions only; the theorems are in SaveProofs.v.

   What the C does (HAVE_MT_WRITE is not defined: one multi-handle STREAM; HAVE_MT_VERIFY is: the verification reads
   run in threads, they only read; `#if defined(_linux)` in state_rename_content is never true, the plain loop is used):

     for every content c_i:   remove("c_i.tmp")  (ENOENT tolerated);  open("c_i.tmp", O_WRONLY|O_CREAT|O_EXCL)
     for every flush of the 64 KiB buffer (sflush):   for every i:  write(fd_i, buffer)
        [the last two flushes are: everything up to and including the 'N' tag; then the 4 crc bytes]
     for every i: fsync(fd_i)            (ssync)
     for every i: close(fd_i)            (sclose)
     for every i: open("c_i.tmp", O_RDONLY); read to end of file; compare the stored and the computed crc with the
                  crc computed while writing (one thread per copy);  join loop: if ANY thread failed: exit(EXIT_FAILURE)
     for every i: rename("c_i.tmp", "c_i")

   The same sequence is observed on the real binary by harness/c/c09_shim.c on every run (check_C09.py compares the
   numbered system calls with [save_ops] printed by the extracted model). *)
From Coq Require Import NArith List Bool Arith.
From Snap.Crc Require Import CrcModel.
From Snap.Codec Require Import Varint.
Import ListNotations.
Local Open Scope N_scope.

Definition bstr := list N.

Inductive path : Type :=
| Content (i : nat)      (* the i-th `content` line of the configuration *)
| Tmp (i : nat)          (* the same with ".tmp" appended *)
| Other (n : nat).       (* anything else: data, parity, lock files *)

Definition path_eq_dec (p q : path) : {p = q} + {p <> q}.
Proof. decide equality; apply Nat.eq_dec. Defined.

(* the file system: a map from paths to file contents *)
Definition fsys := path -> option bstr.
Definition upd (f : fsys) (p : path) (v : option bstr) : fsys := fun q => if path_eq_dec q p then v else f q.

Inductive op : Type :=
| Unlink (p : path)                 (* remove(): a missing file is not an error *)
| CreateExcl (p : path)             (* open(O_WRONLY|O_CREAT|O_EXCL): fails when the path exists *)
| Write (p : path) (chunk : bstr)   (* write() on the descriptor opened on p: appends *)
| Fsync (p : path)
| Close (p : path)
| VerifyJoin (ps : list path) (crc : N)   (* state_verify_content: one state_verify_thread per path, then the join loop *)
| Rename (src dst : path).          (* rename(): atomic replacement of dst *)

(* sdeplete(): the last four bytes of the file, zeros shifted in from the front when it is shorter *)
Definition last4 (d : bstr) : bstr := let z := [0; 0; 0; 0] ++ d in skipn (length z - 4) z.

Definition le32_of (l : bstr) : N :=
  match l with [b0; b1; b2; b3] => le32 b0 b1 b2 b3 | _ => 0 end.

(* state_verify_thread:
     crc_stored = buf[0] | buf[1] << 8 | buf[2] << 16 | buf[3] << 24;
     if (crc_stored != context->crc) fail;
     crc_computed = scrc(f);                         [crc32c chain from 0 over all bytes read]
     crc_stored = crc32c(crc_stored, buf, 4);
     if (crc_computed != crc_stored) fail; *)
Definition verify_ok (d : bstr) (crc : N) : bool :=
  let buf := last4 d in
  let crc_stored := le32_of buf in
  (crc_stored =? crc) && (crc32c_spec 0 d =? crc32c_spec crc_stored buf).

(* the outcome of the verification threads, one boolean per copy (true = that thread returned 0) *)
Definition verify_results (f : path -> option bstr) (ps : list path) (crc : N) : list bool :=
  map (fun p => match f p with Some d => verify_ok d crc | None => false end) ps.
(* the join loop:   fail = 0;  for every copy { thread_join(&retval); if (retval) fail = 1; else sclose(f); }  if (fail) exit
   EVERY result counts.  (A loop that assigned `fail = retval != 0` would keep only the last one: join_fail_last below,
   which is NOT what the model uses; SaveProofs.mutant_join_misses shows the difference.) *)
Definition join_fail (rs : list bool) : bool := existsb negb rs.
Definition join_fail_last (rs : list bool) : bool := negb (last rs true).

(* one completed call; None = the call fails and the command stops with exit(EXIT_FAILURE) *)
Definition step (f : fsys) (o : op) : option fsys :=
  match o with
  | Unlink p => Some (upd f p None)
  | CreateExcl p => match f p with None => Some (upd f p (Some [])) | Some _ => None end
  | Write p c => match f p with Some d => Some (upd f p (Some (d ++ c))) | None => None end
  | Fsync p => Some f
  | Close p => Some f
  | VerifyJoin ps crc => if join_fail (verify_results f ps crc) then None else Some f
  | Rename s d => match f s with Some x => Some (upd (upd f d (Some x)) s None) | None => None end
  end.

(* a whole run without kill: None as soon as one call fails *)
Fixpoint exec (f : fsys) (ops : list op) : option fsys :=
  match ops with
  | [] => Some f
  | o :: t => match step f o with Some f' => exec f' t | None => None end
  end.

(* the operation list of state_write for the content list cs, the flushes `chunks` and the writer's crc.
   A flush is a function copy -> bytes: what the write() of that flush stored in the temporary of that copy.  The writer hands
   the same buffer to every copy ([uniform]); a write fault (bit rot in the buffer between two write() calls, a short write
   reported as complete, a bad disk) makes them differ, which is exactly what the verification is there to catch. *)
Definition flush := nat -> bstr.
Definition uniform (chunks : list bstr) : list flush := map (fun c (_ : nat) => c) chunks.
Definition landed (chunks : list flush) (i : nat) : bstr := concat (map (fun ch => ch i) chunks).
Definition prepare_ops (cs : list nat) : list op := flat_map (fun i => [Unlink (Tmp i); CreateExcl (Tmp i)]) cs.
Definition flush_ops (cs : list nat) (chunk : flush) : list op := flat_map (fun i => [Write (Tmp i) (chunk i)]) cs.
Definition write_ops (cs : list nat) (chunks : list flush) : list op := flat_map (flush_ops cs) chunks.
Definition fsync_ops (cs : list nat) : list op := flat_map (fun i => [Fsync (Tmp i)]) cs.
Definition close_ops (cs : list nat) : list op := flat_map (fun i => [Close (Tmp i)]) cs.
Definition verify_ops (cs : list nat) (crc : N) : list op := [VerifyJoin (map Tmp cs) crc].
Definition rename_ops (cs : list nat) : list op := flat_map (fun i => [Rename (Tmp i) (Content i)]) cs.

Definition before_rename_ops (cs : list nat) (chunks : list flush) (crc : N) : list op :=
  prepare_ops cs ++ write_ops cs chunks ++ fsync_ops cs ++ close_ops cs ++ verify_ops cs crc.

Definition save_ops (cs : list nat) (chunks : list flush) (crc : N) : list op :=
  before_rename_ops cs chunks crc ++ rename_ops cs.

(* what state_write_thread hands to the stream: the covered part P (header .. 'N') in flushes, then the crc *)
Definition writer_chunks (flushes : list bstr) : list flush :=
  uniform (flushes ++ [sputble32 (crc32c_spec 0 (concat flushes))]).
Definition writer_crc (flushes : list bstr) : N := crc32c_spec 0 (concat flushes).

(* rendering for the correspondence with the system-call log: (call, copy index, byte count) *)
Inductive call : Type := CUnlink | COpenExcl | CWrite | CFsync | CClose | CVerify | CRename.
Definition nidx (p : path) : N := N.of_nat (match p with Content i => i | Tmp i => i | Other n => n end).
Definition nlen (c : bstr) : N := N.of_nat (length c).
Definition render (o : op) : list (call * N * N) :=
  match o with
  | Unlink p => [(CUnlink, nidx p, 0)]
  | CreateExcl p => [(COpenExcl, nidx p, 0)]
  | Write p c => [(CWrite, nidx p, nlen c)]
  | Fsync p => [(CFsync, nidx p, 0)]
  | Close p => [(CClose, nidx p, 0)]
  | VerifyJoin ps _ => map (fun p => (CVerify, nidx p, 0)) ps
  | Rename s _ => [(CRename, nidx s, 0)]
  end.
(* the calls of one save with `ncopies` content lines whose flushes have the given sizes (the bytes do not matter) *)
Definition save_calls (ncopies : N) (chunk_sizes : list N) : list (call * N * N) :=
  flat_map render (save_ops (seq 0 (N.to_nat ncopies)) (uniform (map (fun n => repeat 0 (N.to_nat n)) chunk_sizes)) 0).
