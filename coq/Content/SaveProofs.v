(* C09, part C: atomic replacement of the content copies (proofs about SaveModel.v).

   Kill semantics ([crash]): the process can die before any call; every completed call persists; if it dies inside a
   write(), a prefix of the intended bytes has been appended to the file being written (and nothing else changed).
   A call that fails makes the command exit: the state stays what the completed calls made it.

     save_atomic        for every crash state of save_ops, for ANY initial file system (stale .tmp files of any content
                        included) and any number of copies: the content list splits into a prefix whose copies are the
                        complete new file and a suffix whose copies are untouched
     save_atomic_each   hence every copy is the complete old or the complete new file
     save_frame         nothing but c_i and c_i.tmp is ever touched
     verify_guards_rename   if the verification of any copy fails no copy is replaced (in every crash state all copies
                        are old) and the run stops
     save_complete      if the verification passes the whole list runs from ANY initial file system (a stale .tmp never
                        blocks it) and ends with every copy = the new file and no .tmp left
     writer_verifies    what state_write_thread produces (P ++ crc32c(P), crc = crc32c(P)) passes the verification *)
From Coq Require Import NArith List Bool Arith Lia.
From Snap.Crc Require Import CrcModel CrcProofs.
From Snap.Codec Require Import Varint.
From Snap.Content Require Import SaveModel CrcBurstBytes.
Import ListNotations.

(* ------------------------------------------------------------------------------------------------ *)
(** * Kill points *)

Definition is_prefix (p l : bstr) : Prop := exists q, l = p ++ q.

Inductive crash : fsys -> list op -> fsys -> Prop :=
| crash_here f ops : crash f ops f
| crash_torn f p ch ops d pre : f p = Some d -> is_prefix pre ch -> crash f (Write p ch :: ops) (upd f p (Some (d ++ pre)))
| crash_step f o ops f' f'' : step f o = Some f' -> crash f' ops f'' -> crash f (o :: ops) f''.

(* ------------------------------------------------------------------------------------------------ *)
(** * upd *)

Lemma upd_same f p v : upd f p v p = v.
Proof. unfold upd. destruct (path_eq_dec p p); congruence. Qed.

Lemma upd_other f p v q : q <> p -> upd f p v q = f q.
Proof. unfold upd. destruct (path_eq_dec q p); congruence. Qed.

(* ------------------------------------------------------------------------------------------------ *)
(** * Frame: what a call can touch *)

Definition touches (o : op) (q : path) : Prop :=
  match o with
  | Unlink p | CreateExcl p | Write p _ => q = p
  | Rename s d => q = s \/ q = d
  | Fsync _ | Close _ | VerifyJoin _ _ => False
  end.

Lemma step_frame f o f' q : step f o = Some f' -> ~ touches o q -> f' q = f q.
Proof.
  destruct o; cbn [step touches]; intros H N.
  - injection H as <-. apply upd_other. exact N.
  - destruct (f p); [discriminate|]. injection H as <-. apply upd_other. exact N.
  - destruct (f p); [|discriminate]. injection H as <-. apply upd_other. exact N.
  - injection H as <-. reflexivity.
  - injection H as <-. reflexivity.
  - destruct (join_fail (verify_results f ps crc)); [discriminate|]. injection H as <-. reflexivity.
  - destruct (f src); [|discriminate]. injection H as <-.
    rewrite upd_other by (intros ->; apply N; left; reflexivity).
    apply upd_other. intros ->; apply N; right; reflexivity.
Qed.

Lemma crash_frame q : forall ops f f', crash f ops f' -> Forall (fun o => ~ touches o q) ops -> f' q = f q.
Proof.
  intros ops f f' C. induction C as [f ops|f p ch ops d pre Hp Hpre|f o ops f' f'' Hs C IH]; intros F.
  - reflexivity.
  - inversion F as [|? ? N _]; subst. cbn [touches] in N. apply upd_other. exact N.
  - inversion F as [|? ? N F']; subst. rewrite (IH F'). exact (step_frame f o f' q Hs N).
Qed.

Lemma exec_crash : forall ops f f', exec f ops = Some f' -> crash f ops f'.
Proof.
  induction ops as [|o ops IH]; intros f f' H; cbn [exec] in H.
  - injection H as <-. constructor.
  - destruct (step f o) as [f1|] eqn:S; [|discriminate]. exact (crash_step f o ops f1 f' S (IH f1 f' H)).
Qed.

Lemma exec_frame q ops f f' : exec f ops = Some f' -> Forall (fun o => ~ touches o q) ops -> f' q = f q.
Proof. intros H. apply crash_frame, exec_crash, H. Qed.

Lemma exec_app : forall l1 l2 f, exec f (l1 ++ l2) = match exec f l1 with Some f1 => exec f1 l2 | None => None end.
Proof.
  induction l1 as [|o l1 IH]; intros l2 f; [reflexivity|].
  cbn [app exec]. destruct (step f o); [apply IH|reflexivity].
Qed.

(* a crash inside l1 ++ l2 is a crash inside l1, or l1 ran completely and the crash is inside l2 *)
Lemma crash_app : forall l1 l2 f f', crash f (l1 ++ l2) f' ->
  crash f l1 f' \/ exists f1, exec f l1 = Some f1 /\ crash f1 l2 f'.
Proof.
  induction l1 as [|o l1 IH]; intros l2 f f' C.
  - right. exists f. split; [reflexivity|exact C].
  - cbn [app] in C. inversion C as [| ? p ch ? d pre Hp Hpre | ? ? ? f1 ? Hs C1]; subst.
    + left. constructor.
    + left. apply crash_torn; assumption.
    + destruct (IH l2 f1 f' C1) as [L|[f2 [E C2]]].
      * left. exact (crash_step f o l1 f1 f' Hs L).
      * right. exists f2. split; [|exact C2]. cbn [exec]. rewrite Hs. exact E.
Qed.

(* ------------------------------------------------------------------------------------------------ *)
(** * A phase that handles the copies one after the other, each call sequence touching only c_i.tmp *)

Definition local_phase (F : nat -> list op) (pre : nat -> option bstr -> Prop) (h : nat -> option bstr -> option bstr) : Prop :=
  forall i f, pre i (f (Tmp i)) ->
    exists f', exec f (F i) = Some f' /\ f' (Tmp i) = h i (f (Tmp i)) /\ forall q, q <> Tmp i -> f' q = f q.

Lemma phase_exec F pre h : local_phase F pre h -> forall l f, NoDup l -> (forall i, In i l -> pre i (f (Tmp i))) ->
  exists f', exec f (flat_map F l) = Some f' /\ (forall i, In i l -> f' (Tmp i) = h i (f (Tmp i))) /\
             (forall q, (forall i, In i l -> q <> Tmp i) -> f' q = f q).
Proof.
  intros LP. induction l as [|i l IH]; intros f ND Hpre.
  - exists f. split; [reflexivity|]. split; [intros i []|reflexivity].
  - inversion ND as [|? ? Hni ND']; subst.
    destruct (LP i f (Hpre i (or_introl eq_refl))) as (f1 & E1 & V1 & Fr1).
    assert (Hpre1 : forall j, In j l -> pre j (f1 (Tmp j))).
    { intros j Hj. rewrite Fr1 by (intros K; injection K as ->; exact (Hni Hj)). apply Hpre. right. exact Hj. }
    destruct (IH f1 ND' Hpre1) as (f2 & E2 & V2 & Fr2).
    exists f2. split; [|split].
    + cbn [flat_map]. rewrite exec_app, E1. exact E2.
    + intros j [<-|Hj].
      * rewrite Fr2 by (intros k Hk K; injection K as ->; exact (Hni Hk)). exact V1.
      * rewrite (V2 j Hj). rewrite Fr1 by (intros K; injection K as ->; exact (Hni Hj)). reflexivity.
    + intros q Hq. rewrite Fr2 by (intros k Hk; apply Hq; right; exact Hk).
      apply Fr1. apply Hq. left. reflexivity.
Qed.

(* the five phases before the renames *)
Lemma prepare_local : local_phase (fun i => [Unlink (Tmp i); CreateExcl (Tmp i)]) (fun _ _ => True) (fun _ _ => Some []).
Proof.
  intros i f _. exists (upd (upd f (Tmp i) None) (Tmp i) (Some [])). split; [|split].
  - cbn [exec step]. rewrite upd_same. reflexivity.
  - apply upd_same.
  - intros q Hq. rewrite !upd_other by exact Hq. reflexivity.
Qed.

Lemma flush_local (ch : flush) : local_phase (fun i => [Write (Tmp i) (ch i)]) (fun _ v => v <> None)
                                   (fun i v => match v with Some d => Some (d ++ ch i) | None => None end).
Proof.
  intros i f Hv. destruct (f (Tmp i)) as [d|] eqn:E; [|congruence].
  exists (upd f (Tmp i) (Some (d ++ ch i))). split; [|split].
  - cbn [exec step]. rewrite E. reflexivity.
  - apply upd_same.
  - intros q Hq. apply upd_other, Hq.
Qed.

Lemma fsync_local : local_phase (fun i => [Fsync (Tmp i)]) (fun _ _ => True) (fun _ v => v).
Proof. intros i f _. exists f. repeat split. Qed.

Lemma close_local : local_phase (fun i => [Close (Tmp i)]) (fun _ _ => True) (fun _ v => v).
Proof. intros i f _. exists f. repeat split. Qed.

(* ------------------------------------------------------------------------------------------------ *)
(** * The writes *)

Lemma write_exec cs : NoDup cs -> forall (chunks : list flush) f (d0 : nat -> bstr), (forall i, In i cs -> f (Tmp i) = Some (d0 i)) ->
  exists f', exec f (write_ops cs chunks) = Some f' /\ (forall i, In i cs -> f' (Tmp i) = Some (d0 i ++ landed chunks i)) /\
             (forall q, (forall i, In i cs -> q <> Tmp i) -> f' q = f q).
Proof.
  intros ND. induction chunks as [|ch chunks IH]; intros f d0 H0.
  - exists f. split; [reflexivity|]. split; [|reflexivity]. intros i Hi. unfold landed. cbn [map concat]. rewrite app_nil_r. apply H0, Hi.
  - destruct (phase_exec _ _ _ (flush_local ch) cs f ND) as (f1 & E1 & V1 & Fr1).
    { intros i Hi. rewrite (H0 i Hi). discriminate. }
    destruct (IH f1 (fun i => d0 i ++ ch i)) as (f2 & E2 & V2 & Fr2).
    { intros i Hi. rewrite (V1 i Hi), (H0 i Hi). reflexivity. }
    exists f2. split; [|split].
    + unfold write_ops. cbn [flat_map]. rewrite exec_app. unfold flush_ops at 1. rewrite E1. exact E2.
    + intros i Hi. rewrite (V2 i Hi). unfold landed. cbn [map concat]. rewrite app_assoc. reflexivity.
    + intros q Hq. rewrite (Fr2 q Hq). apply Fr1, Hq.
Qed.

(* ------------------------------------------------------------------------------------------------ *)
(** * Nothing before the renames touches a content copy *)

Lemma flat_map_Forall {A} (P : op -> Prop) (F : A -> list op) l : (forall a, In a l -> Forall P (F a)) -> Forall P (flat_map F l).
Proof.
  intros H. induction l as [|a l IH]; cbn [flat_map]; [constructor|]. apply Forall_app. split.
  - apply H. left. reflexivity.
  - apply IH. intros b Hb. apply H. right. exact Hb.
Qed.

Definition tmp_in (cs : list nat) (o : op) : Prop := forall q, touches o q -> exists i, In i cs /\ q = Tmp i.

Lemma before_rename_tmp_in cs chunks crc : Forall (tmp_in cs) (before_rename_ops cs chunks crc).
Proof.
  unfold before_rename_ops, prepare_ops, write_ops, flush_ops, fsync_ops, close_ops, verify_ops.
  repeat (apply Forall_app; split).
  - apply flat_map_Forall. intros i Hi. repeat constructor; intros q T; cbn [touches] in T; eauto.
  - apply flat_map_Forall. intros ch _. apply flat_map_Forall. intros i Hi. repeat constructor; intros q T; cbn [touches] in T; eauto.
  - apply flat_map_Forall. intros i Hi. repeat constructor; intros q T; cbn [touches] in T; contradiction.
  - apply flat_map_Forall. intros i Hi. repeat constructor; intros q T; cbn [touches] in T; contradiction.
  - repeat constructor. intros q T. cbn [touches] in T. contradiction.
Qed.

Lemma tmp_in_not ops cs q : (forall i, In i cs -> q <> Tmp i) -> Forall (tmp_in cs) ops -> Forall (fun o => ~ touches o q) ops.
Proof. intros Hq. apply Forall_impl. intros o H T. destruct (H _ T) as (i & Hi & K). exact (Hq i Hi K). Qed.

(* ------------------------------------------------------------------------------------------------ *)
(** * The renames *)

Lemma rename_not_touch l q : (forall i, In i l -> q <> Tmp i /\ q <> Content i) ->
  Forall (fun o => ~ touches o q) (rename_ops l).
Proof.
  intros H. unfold rename_ops. induction l as [|i l IH]; cbn [flat_map app]; constructor.
  - cbn [touches]. destruct (H i (or_introl eq_refl)). tauto.
  - apply IH. intros j Hj. apply H. right. exact Hj.
Qed.

Lemma rename_crash (new : nat -> bstr) : forall l f f', NoDup l -> (forall i, In i l -> f (Tmp i) = Some (new i)) ->
  crash f (rename_ops l) f' ->
  exists l1 l2, l = l1 ++ l2 /\ (forall i, In i l1 -> f' (Content i) = Some (new i) /\ f' (Tmp i) = None) /\
                (forall i, In i l2 -> f' (Content i) = f (Content i) /\ f' (Tmp i) = Some (new i)).
Proof.
  induction l as [|i l IH]; intros f f' ND Ht C.
  - exists [], []. split; [reflexivity|]. split; intros i [].
  - inversion ND as [|? ? Hni ND']; subst.
    unfold rename_ops in C. cbn [flat_map app] in C. fold (rename_ops l) in C.
    inversion C as [| |? ? ? f1 ? Hs C1]; subst.
    + exists [], (i :: l). split; [reflexivity|]. split; [intros j []|]. intros j Hj. split; [reflexivity|apply Ht, Hj].
    + cbn [step] in Hs. rewrite (Ht i (or_introl eq_refl)) in Hs. injection Hs as <-.
      set (f1 := upd (upd f (Content i) (Some (new i))) (Tmp i) None) in *.
      assert (Ht1 : forall j, In j l -> f1 (Tmp j) = Some (new j)).
      { intros j Hj. unfold f1. rewrite upd_other by (intros K; injection K as ->; exact (Hni Hj)).
        rewrite upd_other by discriminate. apply Ht. right. exact Hj. }
      destruct (IH f1 f' ND' Ht1 C1) as (l1 & l2 & -> & Hn & Ho).
      assert (Fr : forall q, (q = Tmp i \/ q = Content i) -> f' q = f1 q).
      { intros q Hq. apply (crash_frame q _ _ _ C1). apply rename_not_touch.
        intros j Hj. destruct Hq as [-> | ->]; split; try discriminate; intros K; injection K as ->; exact (Hni Hj). }
      exists (i :: l1), l2. split; [reflexivity|]. split.
      * intros j [<-|Hj]; [|apply Hn, Hj]. split.
        -- rewrite Fr by (right; reflexivity). unfold f1. rewrite upd_other by discriminate. apply upd_same.
        -- rewrite Fr by (left; reflexivity). unfold f1. apply upd_same.
      * intros j Hj. destruct (Ho j Hj) as [A B]. split; [|exact B]. rewrite A. unfold f1.
        rewrite upd_other by discriminate. apply upd_other.
        intros K; injection K as ->. apply Hni. apply in_or_app. right. exact Hj.
Qed.

Lemma rename_exec (new : nat -> bstr) : forall l f, NoDup l -> (forall i, In i l -> f (Tmp i) = Some (new i)) ->
  exists f', exec f (rename_ops l) = Some f' /\ (forall i, In i l -> f' (Content i) = Some (new i) /\ f' (Tmp i) = None) /\
             (forall q, (forall i, In i l -> q <> Tmp i /\ q <> Content i) -> f' q = f q).
Proof.
  induction l as [|i l IH]; intros f ND Ht.
  - exists f. split; [reflexivity|]. split; [intros i []|reflexivity].
  - inversion ND as [|? ? Hni ND']; subst.
    set (f1 := upd (upd f (Content i) (Some (new i))) (Tmp i) None).
    assert (Ht1 : forall j, In j l -> f1 (Tmp j) = Some (new j)).
    { intros j Hj. unfold f1. rewrite upd_other by (intros K; injection K as ->; exact (Hni Hj)).
      rewrite upd_other by discriminate. apply Ht. right. exact Hj. }
    destruct (IH f1 ND' Ht1) as (f2 & E2 & V2 & Fr2).
    exists f2. split; [|split].
    + unfold rename_ops. cbn [flat_map app exec step]. rewrite (Ht i (or_introl eq_refl)). exact E2.
    + intros j [<-|Hj]; [|apply V2, Hj].
      assert (K : forall k, In k l -> Content i <> Tmp k /\ Content i <> Content k /\ Tmp i <> Tmp k /\ Tmp i <> Content k).
      { intros k Hk. repeat split; try discriminate; intros K; injection K as ->; exact (Hni Hk). }
      split.
      * rewrite Fr2 by (intros k Hk; destruct (K k Hk); tauto). unfold f1. rewrite upd_other by discriminate. apply upd_same.
      * rewrite Fr2 by (intros k Hk; destruct (K k Hk); tauto). unfold f1. apply upd_same.
    + intros q Hq. rewrite Fr2 by (intros k Hk; apply Hq; right; exact Hk).
      destruct (Hq i (or_introl eq_refl)) as [A B]. unfold f1. rewrite upd_other by exact A. apply upd_other, B.
Qed.

(* ------------------------------------------------------------------------------------------------ *)
(** * The join of the verification threads *)

Lemma join_fail_false_iff rs : join_fail rs = false <-> forall b, In b rs -> b = true.
Proof.
  unfold join_fail. induction rs as [|r rs IH]; cbn [existsb].
  - split; [intros _ b []|reflexivity].
  - rewrite orb_false_iff, IH. split.
    + intros [Hr H] b [<-|Hb]; [destruct r; [reflexivity|discriminate]|apply H, Hb].
    + intros H. split; [rewrite (H r (or_introl eq_refl)); reflexivity|intros b Hb; apply H; right; exact Hb].
Qed.

(* all temporaries hold what landed in them: the join fails iff the verification of SOME copy fails *)
Lemma join_all_ok cs crc (new : nat -> bstr) f : (forall i, In i cs -> f (Tmp i) = Some (new i)) ->
  (join_fail (verify_results f (map Tmp cs) crc) = false <-> forall i, In i cs -> verify_ok (new i) crc = true).
Proof.
  intros Ht. rewrite join_fail_false_iff. unfold verify_results. rewrite map_map. split.
  - intros H i Hi. specialize (H (match f (Tmp i) with Some d => verify_ok d crc | None => false end)).
    rewrite (Ht i Hi) in H. apply H. apply in_map_iff. exists i. rewrite (Ht i Hi). split; [reflexivity|exact Hi].
  - intros H b Hb. apply in_map_iff in Hb. destruct Hb as (i & <- & Hi). rewrite (Ht i Hi). apply H, Hi.
Qed.

(* the loop that keeps only the last result lets a damaged first copy through; the model's join does not *)
Example mutant_join_misses : join_fail [false; true] = true /\ join_fail_last [false; true] = false.
Proof. split; reflexivity. Qed.

(* ------------------------------------------------------------------------------------------------ *)
(** * Everything before the renames, run to the end *)

Definition all_verified (cs : list nat) (chunks : list flush) (crc : N) : Prop :=
  forall i, In i cs -> verify_ok (landed chunks i) crc = true.

(* write, fsync, close: the temporaries hold exactly what landed in them *)
Lemma before_verify_exec cs chunks f0 : NoDup cs ->
  exists f4, exec f0 (prepare_ops cs ++ write_ops cs chunks ++ fsync_ops cs ++ close_ops cs) = Some f4 /\
             (forall i, In i cs -> f4 (Tmp i) = Some (landed chunks i)) /\
             (forall q, (forall i, In i cs -> q <> Tmp i) -> f4 q = f0 q).
Proof.
  intros ND.
  destruct (phase_exec _ _ _ prepare_local cs f0 ND (fun _ _ => I)) as (f1 & E1 & V1 & Fr1).
  destruct (write_exec cs ND chunks f1 (fun _ => []) V1) as (f2 & E2 & V2 & Fr2). cbn [app] in V2.
  destruct (phase_exec _ _ _ fsync_local cs f2 ND (fun _ _ => I)) as (f3 & E3 & V3 & Fr3).
  destruct (phase_exec _ _ _ close_local cs f3 ND (fun _ _ => I)) as (f4 & E4 & V4 & Fr4).
  exists f4. split; [|split].
  - unfold prepare_ops, fsync_ops, close_ops. rewrite exec_app, E1. rewrite exec_app, E2. rewrite exec_app, E3. exact E4.
  - intros i Hi. rewrite (V4 i Hi), (V3 i Hi). apply V2, Hi.
  - intros q Hq. rewrite (Fr4 q Hq), (Fr3 q Hq), (Fr2 q Hq). apply Fr1, Hq.
Qed.

Lemma before_rename_split cs chunks crc :
  before_rename_ops cs chunks crc = (prepare_ops cs ++ write_ops cs chunks ++ fsync_ops cs ++ close_ops cs) ++ verify_ops cs crc.
Proof. unfold before_rename_ops. rewrite <- !app_assoc. reflexivity. Qed.

Lemma before_rename_exec cs chunks crc f0 : NoDup cs -> all_verified cs chunks crc ->
  exists f3, exec f0 (before_rename_ops cs chunks crc) = Some f3 /\ (forall i, In i cs -> f3 (Tmp i) = Some (landed chunks i)) /\
             (forall q, (forall i, In i cs -> q <> Tmp i) -> f3 q = f0 q).
Proof.
  intros ND V. destruct (before_verify_exec cs chunks f0 ND) as (f4 & E4 & V4 & Fr4).
  exists f4. split; [|split; assumption].
  rewrite before_rename_split, exec_app, E4. unfold verify_ops. cbn [exec step].
  rewrite (proj2 (join_all_ok cs crc (landed chunks) f4 V4) V). reflexivity.
Qed.

(* if the verification of ANY copy fails the list stops before the first rename *)
Lemma verify_fail_exec cs chunks crc f0 j : NoDup cs -> In j cs -> verify_ok (landed chunks j) crc = false ->
  exec f0 (before_rename_ops cs chunks crc) = None.
Proof.
  intros ND Hj V. destruct (before_verify_exec cs chunks f0 ND) as (f4 & E4 & V4 & Fr4).
  rewrite before_rename_split, exec_app, E4. unfold verify_ops. cbn [exec step].
  destruct (join_fail (verify_results f4 (map Tmp cs) crc)) eqn:J; [reflexivity|].
  rewrite (proj1 (join_all_ok cs crc (landed chunks) f4 V4) J j Hj) in V. discriminate.
Qed.

(* conversely: if the list gets past the join, every copy verified *)
Lemma exec_before_rename_verified cs chunks crc f0 f3 : NoDup cs ->
  exec f0 (before_rename_ops cs chunks crc) = Some f3 -> all_verified cs chunks crc.
Proof.
  intros ND E j Hj. destruct (verify_ok (landed chunks j) crc) eqn:V; [reflexivity|].
  rewrite (verify_fail_exec cs chunks crc f0 j ND Hj V) in E. discriminate.
Qed.

(* ------------------------------------------------------------------------------------------------ *)
(** * The theorems *)

Theorem save_atomic cs chunks crc f0 f' : NoDup cs -> crash f0 (save_ops cs chunks crc) f' ->
  exists cs1 cs2, cs = cs1 ++ cs2 /\
    (forall i, In i cs1 -> f' (Content i) = Some (landed chunks i)) /\
    (forall i, In i cs2 -> f' (Content i) = f0 (Content i)) /\
    (cs1 <> [] -> all_verified cs chunks crc).
Proof.
  intros ND C. unfold save_ops in C.
  destruct (crash_app _ _ _ _ C) as [C1|[f3 [E3 C2]]].
  - exists [], cs. split; [reflexivity|]. split; [intros i []|]. split; [|congruence]. intros i _.
    apply (crash_frame _ _ _ _ C1). apply (tmp_in_not _ cs); [intros k _; discriminate|apply before_rename_tmp_in].
  - pose proof (exec_before_rename_verified cs chunks crc f0 f3 ND E3) as V.
    destruct (before_rename_exec cs chunks crc f0 ND V) as (f3' & E3' & V3 & Fr3).
    rewrite E3 in E3'. injection E3' as <-.
    destruct (rename_crash (landed chunks) cs f3 f' ND V3 C2) as (l1 & l2 & -> & Hn & Ho).
    exists l1, l2. split; [reflexivity|]. split; [|split].
    + intros i Hi. apply Hn, Hi.
    + intros i Hi. destruct (Ho i Hi) as [A _]. rewrite A. apply Fr3. intros k _. discriminate.
    + intros _. exact V.
Qed.

Corollary save_atomic_each cs chunks crc f0 f' i : NoDup cs -> crash f0 (save_ops cs chunks crc) f' -> In i cs ->
  f' (Content i) = f0 (Content i) \/ (f' (Content i) = Some (landed chunks i) /\ all_verified cs chunks crc).
Proof.
  intros ND C Hi. destruct (save_atomic cs chunks crc f0 f' ND C) as (l1 & l2 & -> & Hn & Ho & Hv).
  apply in_app_or in Hi. destruct Hi as [Hi|Hi]; [right|left; apply Ho, Hi].
  split; [apply Hn, Hi|]. apply Hv. intros ->. exact Hi.
Qed.

Theorem save_frame cs chunks crc f0 f' : crash f0 (save_ops cs chunks crc) f' ->
  (forall n, f' (Other n) = f0 (Other n)) /\ (forall i, ~ In i cs -> f' (Content i) = f0 (Content i) /\ f' (Tmp i) = f0 (Tmp i)).
Proof.
  intros C.
  assert (G : forall q, (forall i, In i cs -> q <> Tmp i /\ q <> Content i) -> f' q = f0 q).
  { intros q Hq. apply (crash_frame q _ _ _ C). unfold save_ops. apply Forall_app. split.
    - apply (tmp_in_not _ cs); [intros i Hi; apply Hq, Hi|apply before_rename_tmp_in].
    - apply rename_not_touch, Hq. }
  split.
  - intros n. apply G. intros i _. split; discriminate.
  - intros i Hi. split; apply G; intros k Hk; split; try discriminate; intros K; injection K as ->; exact (Hi Hk).
Qed.

(* re-read and verified BEFORE any copy is replaced, and EVERY copy's result counts: when the verification of some copy j
   fails -- whichever j, first, middle or last -- no crash state has a replaced copy and the complete run stops with an error *)
Theorem verify_all_guard cs chunks crc f0 j : NoDup cs -> In j cs -> verify_ok (landed chunks j) crc = false ->
  exec f0 (save_ops cs chunks crc) = None /\
  forall f', crash f0 (save_ops cs chunks crc) f' -> forall i, f' (Content i) = f0 (Content i).
Proof.
  intros ND Hj V. split.
  - unfold save_ops. rewrite exec_app, (verify_fail_exec cs chunks crc f0 j ND Hj V). reflexivity.
  - intros f' C i. unfold save_ops in C. destruct (crash_app _ _ _ _ C) as [C1|[f3 [E3 _]]].
    + apply (crash_frame _ _ _ _ C1). apply (tmp_in_not _ cs); [intros k _; discriminate|apply before_rename_tmp_in].
    + rewrite (verify_fail_exec cs chunks crc f0 j ND Hj V) in E3. discriminate.
Qed.

(* the same read the other way: a copy that changed proves that the verification of every copy had succeeded *)
Corollary renamed_implies_all_verified cs chunks crc f0 f' i : NoDup cs -> crash f0 (save_ops cs chunks crc) f' ->
  f' (Content i) <> f0 (Content i) -> all_verified cs chunks crc.
Proof.
  intros ND C Hne j Hj. destruct (verify_ok (landed chunks j) crc) eqn:V; [reflexivity|exfalso].
  exact (Hne (proj2 (verify_all_guard cs chunks crc f0 j ND Hj V) f' C i)).
Qed.

(* the whole list runs from ANY file system -- stale temporaries of any content included -- and ends with all copies new *)
Theorem save_complete cs chunks crc f0 : NoDup cs -> all_verified cs chunks crc ->
  exists f1, exec f0 (save_ops cs chunks crc) = Some f1 /\
    (forall i, In i cs -> f1 (Content i) = Some (landed chunks i) /\ f1 (Tmp i) = None) /\
    (forall q, (forall i, In i cs -> q <> Tmp i /\ q <> Content i) -> f1 q = f0 q).
Proof.
  intros ND V.
  destruct (before_rename_exec cs chunks crc f0 ND V) as (f3 & E3 & V3 & Fr3).
  destruct (rename_exec (landed chunks) cs f3 ND V3) as (f4 & E4 & V4 & Fr4).
  exists f4. split; [|split].
  - unfold save_ops. rewrite exec_app, E3. exact E4.
  - exact V4.
  - intros q Hq. rewrite (Fr4 q Hq). apply Fr3. intros i Hi. apply Hq, Hi.
Qed.

(* a save interrupted anywhere never blocks the next one *)
Corollary save_after_crash cs chunks crc chunks2 crc2 f0 fc : NoDup cs -> crash f0 (save_ops cs chunks crc) fc ->
  all_verified cs chunks2 crc2 ->
  exists f1, exec fc (save_ops cs chunks2 crc2) = Some f1 /\ forall i, In i cs -> f1 (Content i) = Some (landed chunks2 i) /\ f1 (Tmp i) = None.
Proof.
  intros ND _ V. destruct (save_complete cs chunks2 crc2 fc ND V) as (f1 & E & H & _). exists f1. split; assumption.
Qed.

Lemma landed_uniform chunks i : landed (uniform chunks) i = concat chunks.
Proof. unfold landed, uniform. rewrite map_map. rewrite map_id. reflexivity. Qed.

(* ------------------------------------------------------------------------------------------------ *)
(** * What the writer produces passes the verification *)

Local Open Scope N_scope.

Lemma last4_app P C : length C = 4%nat -> last4 (P ++ C) = C.
Proof.
  intros LC. unfold last4.
  replace ([0; 0; 0; 0] ++ P ++ C) with (([0; 0; 0; 0] ++ P) ++ C) by (rewrite <- app_assoc; reflexivity).
  set (z := [0; 0; 0; 0] ++ P).
  rewrite app_length, LC. replace (length z + 4 - 4)%nat with (length z) by lia.
  rewrite skipn_app, skipn_all, Nat.sub_diag. reflexivity.
Qed.

Theorem writer_verifies P : bytes P -> verify_ok (P ++ sputble32 (crc32c_spec 0 P)) (crc32c_spec 0 P) = true.
Proof.
  intros HP. unfold verify_ok. rewrite last4_app by reflexivity.
  assert (Hw : crc32c_spec 0 P < 2^32).
  { rewrite crc_spec0. apply lxor_lt32; [|exact iv_lt32]. apply crc_bytes_lt32; [exact iv_lt32|exact HP]. }
  assert (E : le32_of (sputble32 (crc32c_spec 0 P)) = crc32c_spec 0 P).
  { unfold sputble32, le32_of. apply le32_sputble32, Hw. }
  rewrite E, N.eqb_refl. cbn [andb]. rewrite <- crc32c_spec_app. apply N.eqb_refl.
Qed.

Corollary writer_save_complete cs flushes f0 : NoDup cs -> bytes (concat flushes) ->
  exists f1, exec f0 (save_ops cs (writer_chunks flushes) (writer_crc flushes)) = Some f1 /\
    forall i, In i cs -> f1 (Content i) = Some (concat flushes ++ sputble32 (crc32c_spec 0 (concat flushes))) /\ f1 (Tmp i) = None.
Proof.
  intros ND HB.
  assert (Ec : forall i, landed (writer_chunks flushes) i = concat flushes ++ sputble32 (crc32c_spec 0 (concat flushes))).
  { intros i. unfold writer_chunks. rewrite landed_uniform, concat_app. cbn [concat]. rewrite app_nil_r. reflexivity. }
  destruct (save_complete cs (writer_chunks flushes) (writer_crc flushes) f0 ND) as (f1 & E & H & _).
  { intros i _. rewrite Ec. apply writer_verifies, HB. }
  exists f1. split; [exact E|]. intros i Hi. rewrite <- (Ec i). apply H, Hi.
Qed.

(* ------------------------------------------------------------------------------------------------ *)
(** * Non-vacuity: three copies, a stale temporary, a torn write and a kill between two renames *)

Definition f_demo : fsys := fun q =>
  match q with Content 0 => Some [1] | Content 1 => Some [1] | Content 2 => Some [1] | Tmp 1 => Some [9; 9] | _ => None end.

Example demo_crash_between_renames :
  let flushes := [[83; 78]; [65; 78]] in
  let ops := save_ops [0; 1; 2]%nat (writer_chunks flushes) (writer_crc flushes) in
  exists f', crash f_demo ops f' /\ f' (Content 0%nat) = Some (landed (writer_chunks flushes) 0%nat) /\
             f' (Content 1%nat) = Some [1] /\ f' (Content 2%nat) = Some [1] /\ length ops = 25%nat.
Proof.
  cbv zeta.
  set (ops := save_ops [0; 1; 2]%nat (writer_chunks [[83; 78]; [65; 78]]) (writer_crc [[83; 78]; [65; 78]])).
  destruct (exec f_demo (firstn 23 ops)) as [f'|] eqn:E; [|vm_compute in E; discriminate].
  exists f'. split; [|split; [|split; [|split]]].
  - replace ops with (firstn 23 ops ++ skipn 23 ops) by apply firstn_skipn.
    assert (G : forall l1 l2 f f1, exec f l1 = Some f1 -> crash f (l1 ++ l2) f1).
    { induction l1 as [|o l1 IH]; intros l2 f f1 H; cbn [exec] in H.
      - injection H as <-. constructor.
      - destruct (step f o) eqn:S; [|discriminate]. cbn [app]. eapply crash_step; [exact S|]. apply IH, H. }
    apply G, E.
  - vm_compute in E. injection E as <-. vm_compute. reflexivity.
  - vm_compute in E. injection E as <-. vm_compute. reflexivity.
  - vm_compute in E. injection E as <-. vm_compute. reflexivity.
  - vm_compute. reflexivity.
Qed.

(* a write fault on the FIRST of two copies (one bit of its first flush inverted on the way to the disk), the last copy is
   perfect: the hypotheses of verify_all_guard hold with j = 0, so nothing is renamed *)
Definition fault_flushes : list flush :=
  [fun i => match i with O => [83; 79] | _ => [83; 78] end; fun _ => [65; 78]; fun _ => sputble32 (crc32c_spec 0 [83; 78; 65; 78])].
Definition fault_crc : N := crc32c_spec 0 [83; 78; 65; 78].

Example fault_on_first_copy_blocks_every_rename :
  verify_ok (landed fault_flushes 0%nat) fault_crc = false /\ verify_ok (landed fault_flushes 1%nat) fault_crc = true /\
  exec f_demo (save_ops [0; 1]%nat fault_flushes fault_crc) = None /\
  forall f', crash f_demo (save_ops [0; 1]%nat fault_flushes fault_crc) f' -> forall i, f' (Content i) = f_demo (Content i).
Proof.
  assert (V0 : verify_ok (landed fault_flushes 0%nat) fault_crc = false) by (vm_compute; reflexivity).
  split; [exact V0|]. split; [vm_compute; reflexivity|].
  apply (verify_all_guard [0; 1]%nat fault_flushes fault_crc f_demo 0%nat).
  - repeat constructor; cbn; intuition discriminate.
  - left. reflexivity.
  - exact V0.
Qed.
