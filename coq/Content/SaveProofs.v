(* C09, part C: atomic replacement of the content copies (proofs about SaveModel.v).

   Kill semantics ([crash]): the process can die before any call; every completed call persists; if it dies inside a
   write(), a prefix of the intended bytes has been appended to the file being written (and nothing else changed).
   A call that fails makes the command exit: the state stays what the completed calls made it.

     save_atomic        for every crash state of save_ops, for ANY initial file system (stale .tmp files of any content
                        included) and any number of copies: the content list splits into a prefix whose copies are the
                        complete new file and a suffix whose copies are untouched
     save_atomic_each   hence every copy is the complete old or the complete new file
     save_frame         nothing but c_i and c_i.tmp is ever touched
     verify_guards_rename   if the verification of any copy fails no copy is replaced (in every crash state all copies
                        are old) and the run stops
     save_complete      if the verification passes the whole list runs from ANY initial file system (a stale .tmp never
                        blocks it) and ends with every copy = the new file and no .tmp left
     writer_verifies    what state_write_thread produces (P ++ crc32c(P), crc = crc32c(P)) passes the verification *)
From Coq Require Import NArith List Bool Arith Lia.
From Snap.Crc Require Import CrcModel CrcProofs.
From Snap.Codec Require Import Varint.
From Snap.Content Require Import SaveModel CrcBurstBytes.
Import ListNotations.

(* ------------------------------------------------------------------------------------------------ *)
(** * Kill points *)

Definition is_prefix (p l : bstr) : Prop := exists q, l = p ++ q.

Inductive crash : fsys -> list op -> fsys -> Prop :=
| crash_here f ops : crash f ops f
| crash_torn f p ch ops d pre : f p = Some d -> is_prefix pre ch -> crash f (Write p ch :: ops) (upd f p (Some (d ++ pre)))
| crash_step f o ops f' f'' : step f o = Some f' -> crash f' ops f'' -> crash f (o :: ops) f''.

(* ------------------------------------------------------------------------------------------------ *)
(** * upd *)

Lemma upd_same f p v : upd f p v p = v.
Proof. unfold upd. destruct (path_eq_dec p p); congruence. Qed.

Lemma upd_other f p v q : q <> p -> upd f p v q = f q.
Proof. unfold upd. destruct (path_eq_dec q p); congruence. Qed.

(* ------------------------------------------------------------------------------------------------ *)
(** * Frame: what a call can touch *)

Definition touches (o : op) (q : path) : Prop :=
  match o with
  | Unlink p | CreateExcl p | Write p _ => q = p
  | Rename s d => q = s \/ q = d
  | Fsync _ | Close _ | Verify _ _ => False
  end.

Lemma step_frame f o f' q : step f o = Some f' -> ~ touches o q -> f' q = f q.
Proof.
  destruct o; cbn [step touches]; intros H N.
  - injection H as <-. apply upd_other. exact N.
  - destruct (f p); [discriminate|]. injection H as <-. apply upd_other. exact N.
  - destruct (f p); [|discriminate]. injection H as <-. apply upd_other. exact N.
  - injection H as <-. reflexivity.
  - injection H as <-. reflexivity.
  - destruct (f p); [|discriminate]. destruct (verify_ok b crc); [|discriminate]. injection H as <-. reflexivity.
  - destruct (f src); [|discriminate]. injection H as <-.
    rewrite upd_other by (intros ->; apply N; left; reflexivity).
    apply upd_other. intros ->; apply N; right; reflexivity.
Qed.

Lemma crash_frame q : forall ops f f', crash f ops f' -> Forall (fun o => ~ touches o q) ops -> f' q = f q.
Proof.
  intros ops f f' C. induction C as [f ops|f p ch ops d pre Hp Hpre|f o ops f' f'' Hs C IH]; intros F.
  - reflexivity.
  - inversion F as [|? ? N _]; subst. cbn [touches] in N. apply upd_other. exact N.
  - inversion F as [|? ? N F']; subst. rewrite (IH F'). exact (step_frame f o f' q Hs N).
Qed.

Lemma exec_crash : forall ops f f', exec f ops = Some f' -> crash f ops f'.
Proof.
  induction ops as [|o ops IH]; intros f f' H; cbn [exec] in H.
  - injection H as <-. constructor.
  - destruct (step f o) as [f1|] eqn:S; [|discriminate]. exact (crash_step f o ops f1 f' S (IH f1 f' H)).
Qed.

Lemma exec_frame q ops f f' : exec f ops = Some f' -> Forall (fun o => ~ touches o q) ops -> f' q = f q.
Proof. intros H. apply crash_frame, exec_crash, H. Qed.

Lemma exec_app : forall l1 l2 f, exec f (l1 ++ l2) = match exec f l1 with Some f1 => exec f1 l2 | None => None end.
Proof.
  induction l1 as [|o l1 IH]; intros l2 f; [reflexivity|].
  cbn [app exec]. destruct (step f o); [apply IH|reflexivity].
Qed.

(* a crash inside l1 ++ l2 is a crash inside l1, or l1 ran completely and the crash is inside l2 *)
Lemma crash_app : forall l1 l2 f f', crash f (l1 ++ l2) f' ->
  crash f l1 f' \/ exists f1, exec f l1 = Some f1 /\ crash f1 l2 f'.
Proof.
  induction l1 as [|o l1 IH]; intros l2 f f' C.
  - right. exists f. split; [reflexivity|exact C].
  - cbn [app] in C. inversion C as [| ? p ch ? d pre Hp Hpre | ? ? ? f1 ? Hs C1]; subst.
    + left. constructor.
    + left. apply crash_torn; assumption.
    + destruct (IH l2 f1 f' C1) as [L|[f2 [E C2]]].
      * left. exact (crash_step f o l1 f1 f' Hs L).
      * right. exists f2. split; [|exact C2]. cbn [exec]. rewrite Hs. exact E.
Qed.

(* ------------------------------------------------------------------------------------------------ *)
(** * A phase that handles the copies one after the other, each call sequence touching only c_i.tmp *)

Definition local_phase (F : nat -> list op) (pre : nat -> option bstr -> Prop) (h : nat -> option bstr -> option bstr) : Prop :=
  forall i f, pre i (f (Tmp i)) ->
    exists f', exec f (F i) = Some f' /\ f' (Tmp i) = h i (f (Tmp i)) /\ forall q, q <> Tmp i -> f' q = f q.

Lemma phase_exec F pre h : local_phase F pre h -> forall l f, NoDup l -> (forall i, In i l -> pre i (f (Tmp i))) ->
  exists f', exec f (flat_map F l) = Some f' /\ (forall i, In i l -> f' (Tmp i) = h i (f (Tmp i))) /\
             (forall q, (forall i, In i l -> q <> Tmp i) -> f' q = f q).
Proof.
  intros LP. induction l as [|i l IH]; intros f ND Hpre.
  - exists f. split; [reflexivity|]. split; [intros i []|reflexivity].
  - inversion ND as [|? ? Hni ND']; subst.
    destruct (LP i f (Hpre i (or_introl eq_refl))) as (f1 & E1 & V1 & Fr1).
    assert (Hpre1 : forall j, In j l -> pre j (f1 (Tmp j))).
    { intros j Hj. rewrite Fr1 by (intros K; injection K as ->; exact (Hni Hj)). apply Hpre. right. exact Hj. }
    destruct (IH f1 ND' Hpre1) as (f2 & E2 & V2 & Fr2).
    exists f2. split; [|split].
    + cbn [flat_map]. rewrite exec_app, E1. exact E2.
    + intros j [<-|Hj].
      * rewrite Fr2 by (intros k Hk K; injection K as ->; exact (Hni Hk)). exact V1.
      * rewrite (V2 j Hj). rewrite Fr1 by (intros K; injection K as ->; exact (Hni Hj)). reflexivity.
    + intros q Hq. rewrite Fr2 by (intros k Hk; apply Hq; right; exact Hk).
      apply Fr1. apply Hq. left. reflexivity.
Qed.

(* the five phases before the renames *)
Lemma prepare_local : local_phase (fun i => [Unlink (Tmp i); CreateExcl (Tmp i)]) (fun _ _ => True) (fun _ _ => Some []).
Proof.
  intros i f _. exists (upd (upd f (Tmp i) None) (Tmp i) (Some [])). split; [|split].
  - cbn [exec step]. rewrite upd_same. reflexivity.
  - apply upd_same.
  - intros q Hq. rewrite !upd_other by exact Hq. reflexivity.
Qed.

Lemma flush_local ch : local_phase (fun i => [Write (Tmp i) ch]) (fun _ v => v <> None)
                                   (fun _ v => match v with Some d => Some (d ++ ch) | None => None end).
Proof.
  intros i f Hv. destruct (f (Tmp i)) as [d|] eqn:E; [|congruence].
  exists (upd f (Tmp i) (Some (d ++ ch))). split; [|split].
  - cbn [exec step]. rewrite E. reflexivity.
  - apply upd_same.
  - intros q Hq. apply upd_other, Hq.
Qed.

Lemma fsync_local : local_phase (fun i => [Fsync (Tmp i)]) (fun _ _ => True) (fun _ v => v).
Proof. intros i f _. exists f. repeat split. Qed.

Lemma close_local : local_phase (fun i => [Close (Tmp i)]) (fun _ _ => True) (fun _ v => v).
Proof. intros i f _. exists f. repeat split. Qed.

Lemma verify_local new crc : verify_ok new crc = true ->
  local_phase (fun i => [Verify (Tmp i) crc]) (fun _ v => v = Some new) (fun _ v => v).
Proof.
  intros V i f Hv. exists f. split; [|split; [reflexivity|reflexivity]].
  cbn [exec step]. rewrite Hv, V. reflexivity.
Qed.

(* ------------------------------------------------------------------------------------------------ *)
(** * The writes *)

Lemma write_exec cs : NoDup cs -> forall chunks f d0, (forall i, In i cs -> f (Tmp i) = Some d0) ->
  exists f', exec f (write_ops cs chunks) = Some f' /\ (forall i, In i cs -> f' (Tmp i) = Some (d0 ++ concat chunks)) /\
             (forall q, (forall i, In i cs -> q <> Tmp i) -> f' q = f q).
Proof.
  intros ND. induction chunks as [|ch chunks IH]; intros f d0 H0.
  - exists f. split; [reflexivity|]. split; [|reflexivity]. intros i Hi. cbn [concat]. rewrite app_nil_r. apply H0, Hi.
  - destruct (phase_exec _ _ _ (flush_local ch) cs f ND) as (f1 & E1 & V1 & Fr1).
    { intros i Hi. rewrite (H0 i Hi). discriminate. }
    destruct (IH f1 (d0 ++ ch)) as (f2 & E2 & V2 & Fr2).
    { intros i Hi. rewrite (V1 i Hi), (H0 i Hi). reflexivity. }
    exists f2. split; [|split].
    + unfold write_ops. cbn [flat_map]. rewrite exec_app. unfold flush_ops at 1. rewrite E1. exact E2.
    + intros i Hi. rewrite (V2 i Hi). cbn [concat]. rewrite app_assoc. reflexivity.
    + intros q Hq. rewrite (Fr2 q Hq). apply Fr1, Hq.
Qed.

(* ------------------------------------------------------------------------------------------------ *)
(** * Nothing before the renames touches a content copy *)

Lemma flat_map_Forall {A} (P : op -> Prop) (F : A -> list op) l : (forall a, In a l -> Forall P (F a)) -> Forall P (flat_map F l).
Proof.
  intros H. induction l as [|a l IH]; cbn [flat_map]; [constructor|]. apply Forall_app. split.
  - apply H. left. reflexivity.
  - apply IH. intros b Hb. apply H. right. exact Hb.
Qed.

Definition tmp_in (cs : list nat) (o : op) : Prop := forall q, touches o q -> exists i, In i cs /\ q = Tmp i.

Lemma before_rename_tmp_in cs chunks crc : Forall (tmp_in cs) (before_rename_ops cs chunks crc).
Proof.
  unfold before_rename_ops, prepare_ops, write_ops, flush_ops, fsync_ops, close_ops, verify_ops.
  repeat (apply Forall_app; split).
  - apply flat_map_Forall. intros i Hi. repeat constructor; intros q T; cbn [touches] in T; eauto.
  - apply flat_map_Forall. intros ch _. apply flat_map_Forall. intros i Hi. repeat constructor; intros q T; cbn [touches] in T; eauto.
  - apply flat_map_Forall. intros i Hi. repeat constructor; intros q T; cbn [touches] in T; contradiction.
  - apply flat_map_Forall. intros i Hi. repeat constructor; intros q T; cbn [touches] in T; contradiction.
  - apply flat_map_Forall. intros i Hi. repeat constructor; intros q T; cbn [touches] in T; contradiction.
Qed.

Lemma tmp_in_not ops cs q : (forall i, In i cs -> q <> Tmp i) -> Forall (tmp_in cs) ops -> Forall (fun o => ~ touches o q) ops.
Proof. intros Hq. apply Forall_impl. intros o H T. destruct (H _ T) as (i & Hi & K). exact (Hq i Hi K). Qed.

(* ------------------------------------------------------------------------------------------------ *)
(** * The renames *)

Lemma rename_not_touch l q : (forall i, In i l -> q <> Tmp i /\ q <> Content i) ->
  Forall (fun o => ~ touches o q) (rename_ops l).
Proof.
  intros H. unfold rename_ops. induction l as [|i l IH]; cbn [flat_map app]; constructor.
  - cbn [touches]. destruct (H i (or_introl eq_refl)). tauto.
  - apply IH. intros j Hj. apply H. right. exact Hj.
Qed.

Lemma rename_crash new : forall l f f', NoDup l -> (forall i, In i l -> f (Tmp i) = Some new) ->
  crash f (rename_ops l) f' ->
  exists l1 l2, l = l1 ++ l2 /\ (forall i, In i l1 -> f' (Content i) = Some new /\ f' (Tmp i) = None) /\
                (forall i, In i l2 -> f' (Content i) = f (Content i) /\ f' (Tmp i) = Some new).
Proof.
  induction l as [|i l IH]; intros f f' ND Ht C.
  - exists [], []. split; [reflexivity|]. split; intros i [].
  - inversion ND as [|? ? Hni ND']; subst.
    unfold rename_ops in C. cbn [flat_map app] in C. fold (rename_ops l) in C.
    inversion C as [| |? ? ? f1 ? Hs C1]; subst.
    + exists [], (i :: l). split; [reflexivity|]. split; [intros j []|]. intros j Hj. split; [reflexivity|apply Ht, Hj].
    + cbn [step] in Hs. rewrite (Ht i (or_introl eq_refl)) in Hs. injection Hs as <-.
      set (f1 := upd (upd f (Content i) (Some new)) (Tmp i) None) in *.
      assert (Ht1 : forall j, In j l -> f1 (Tmp j) = Some new).
      { intros j Hj. unfold f1. rewrite upd_other by (intros K; injection K as ->; exact (Hni Hj)).
        rewrite upd_other by discriminate. apply Ht. right. exact Hj. }
      destruct (IH f1 f' ND' Ht1 C1) as (l1 & l2 & -> & Hn & Ho).
      assert (Fr : forall q, (q = Tmp i \/ q = Content i) -> f' q = f1 q).
      { intros q Hq. apply (crash_frame q _ _ _ C1). apply rename_not_touch.
        intros j Hj. destruct Hq as [-> | ->]; split; try discriminate; intros K; injection K as ->; exact (Hni Hj). }
      exists (i :: l1), l2. split; [reflexivity|]. split.
      * intros j [<-|Hj]; [|apply Hn, Hj]. split.
        -- rewrite Fr by (right; reflexivity). unfold f1. rewrite upd_other by discriminate. apply upd_same.
        -- rewrite Fr by (left; reflexivity). unfold f1. apply upd_same.
      * intros j Hj. destruct (Ho j Hj) as [A B]. split; [|exact B]. rewrite A. unfold f1.
        rewrite upd_other by discriminate. apply upd_other.
        intros K; injection K as ->. apply Hni. apply in_or_app. right. exact Hj.
Qed.

Lemma rename_exec new : forall l f, NoDup l -> (forall i, In i l -> f (Tmp i) = Some new) ->
  exists f', exec f (rename_ops l) = Some f' /\ (forall i, In i l -> f' (Content i) = Some new /\ f' (Tmp i) = None) /\
             (forall q, (forall i, In i l -> q <> Tmp i /\ q <> Content i) -> f' q = f q).
Proof.
  induction l as [|i l IH]; intros f ND Ht.
  - exists f. split; [reflexivity|]. split; [intros i []|reflexivity].
  - inversion ND as [|? ? Hni ND']; subst.
    set (f1 := upd (upd f (Content i) (Some new)) (Tmp i) None).
    assert (Ht1 : forall j, In j l -> f1 (Tmp j) = Some new).
    { intros j Hj. unfold f1. rewrite upd_other by (intros K; injection K as ->; exact (Hni Hj)).
      rewrite upd_other by discriminate. apply Ht. right. exact Hj. }
    destruct (IH f1 ND' Ht1) as (f2 & E2 & V2 & Fr2).
    exists f2. split; [|split].
    + unfold rename_ops. cbn [flat_map app exec step]. rewrite (Ht i (or_introl eq_refl)). exact E2.
    + intros j [<-|Hj]; [|apply V2, Hj].
      assert (K : forall k, In k l -> Content i <> Tmp k /\ Content i <> Content k /\ Tmp i <> Tmp k /\ Tmp i <> Content k).
      { intros k Hk. repeat split; try discriminate; intros K; injection K as ->; exact (Hni Hk). }
      split.
      * rewrite Fr2 by (intros k Hk; destruct (K k Hk); tauto). unfold f1. rewrite upd_other by discriminate. apply upd_same.
      * rewrite Fr2 by (intros k Hk; destruct (K k Hk); tauto). unfold f1. apply upd_same.
    + intros q Hq. rewrite Fr2 by (intros k Hk; apply Hq; right; exact Hk).
      destruct (Hq i (or_introl eq_refl)) as [A B]. unfold f1. rewrite upd_other by exact A. apply upd_other, B.
Qed.

(* ------------------------------------------------------------------------------------------------ *)
(** * Everything before the renames, run to the end *)

Lemma before_rename_exec cs chunks crc f0 : NoDup cs -> verify_ok (concat chunks) crc = true ->
  exists f3, exec f0 (before_rename_ops cs chunks crc) = Some f3 /\ (forall i, In i cs -> f3 (Tmp i) = Some (concat chunks)) /\
             (forall q, (forall i, In i cs -> q <> Tmp i) -> f3 q = f0 q).
Proof.
  intros ND V. unfold before_rename_ops.
  destruct (phase_exec _ _ _ prepare_local cs f0 ND (fun _ _ => I)) as (f1 & E1 & V1 & Fr1).
  destruct (write_exec cs ND chunks f1 [] V1) as (f2 & E2 & V2 & Fr2). cbn [app] in V2.
  destruct (phase_exec _ _ _ fsync_local cs f2 ND (fun _ _ => I)) as (f3 & E3 & V3 & Fr3).
  destruct (phase_exec _ _ _ close_local cs f3 ND (fun _ _ => I)) as (f4 & E4 & V4 & Fr4).
  destruct (phase_exec _ _ _ (verify_local _ _ V) cs f4 ND) as (f5 & E5 & V5 & Fr5).
  { intros i Hi. rewrite (V4 i Hi), (V3 i Hi). apply V2, Hi. }
  exists f5. split; [|split].
  - unfold prepare_ops, fsync_ops, close_ops, verify_ops.
    rewrite exec_app, E1. rewrite exec_app, E2. rewrite exec_app, E3. rewrite exec_app, E4. exact E5.
  - intros i Hi. rewrite (V5 i Hi), (V4 i Hi), (V3 i Hi). apply V2, Hi.
  - intros q Hq. rewrite (Fr5 q Hq), (Fr4 q Hq), (Fr3 q Hq), (Fr2 q Hq). apply Fr1, Hq.
Qed.

(* if the verification fails the list stops before the first rename *)
Lemma verify_fail_exec cs chunks crc f0 : NoDup cs -> cs <> [] -> verify_ok (concat chunks) crc = false ->
  exec f0 (before_rename_ops cs chunks crc) = None.
Proof.
  intros ND NE V. unfold before_rename_ops.
  destruct (phase_exec _ _ _ prepare_local cs f0 ND (fun _ _ => I)) as (f1 & E1 & V1 & Fr1).
  destruct (write_exec cs ND chunks f1 [] V1) as (f2 & E2 & V2 & Fr2). cbn [app] in V2.
  destruct (phase_exec _ _ _ fsync_local cs f2 ND (fun _ _ => I)) as (f3 & E3 & V3 & Fr3).
  destruct (phase_exec _ _ _ close_local cs f3 ND (fun _ _ => I)) as (f4 & E4 & V4 & Fr4).
  unfold prepare_ops, fsync_ops, close_ops.
  rewrite exec_app, E1. rewrite exec_app, E2. rewrite exec_app, E3. rewrite exec_app, E4.
  destruct cs as [|i cs]; [congruence|]. unfold verify_ops. cbn [flat_map app exec step].
  rewrite (V4 i (or_introl eq_refl)), (V3 i (or_introl eq_refl)), (V2 i (or_introl eq_refl)), V. reflexivity.
Qed.

(* ------------------------------------------------------------------------------------------------ *)
(** * The theorems *)

Theorem save_atomic cs chunks crc f0 f' : NoDup cs -> crash f0 (save_ops cs chunks crc) f' ->
  exists cs1 cs2, cs = cs1 ++ cs2 /\
    (forall i, In i cs1 -> f' (Content i) = Some (concat chunks)) /\
    (forall i, In i cs2 -> f' (Content i) = f0 (Content i)).
Proof.
  intros ND C. unfold save_ops in C.
  destruct (crash_app _ _ _ _ C) as [C1|[f3 [E3 C2]]].
  - exists [], cs. split; [reflexivity|]. split; [intros i []|]. intros i _.
    apply (crash_frame _ _ _ _ C1). apply (tmp_in_not _ cs); [intros k _; discriminate|apply before_rename_tmp_in].
  - destruct (verify_ok (concat chunks) crc) eqn:V.
    + destruct (before_rename_exec cs chunks crc f0 ND V) as (f3' & E3' & V3 & Fr3).
      rewrite E3 in E3'. injection E3' as <-.
      destruct (rename_crash (concat chunks) cs f3 f' ND V3 C2) as (l1 & l2 & -> & Hn & Ho).
      exists l1, l2. split; [reflexivity|]. split.
      * intros i Hi. apply Hn, Hi.
      * intros i Hi. destruct (Ho i Hi) as [A _]. rewrite A. apply Fr3. intros k _. discriminate.
    + destruct cs as [|i cs].
      * exists [], []. split; [reflexivity|]. split; intros i [].
      * rewrite (verify_fail_exec (i :: cs) chunks crc f0 ND ltac:(discriminate) V) in E3. discriminate.
Qed.

Corollary save_atomic_each cs chunks crc f0 f' i : NoDup cs -> crash f0 (save_ops cs chunks crc) f' -> In i cs ->
  f' (Content i) = f0 (Content i) \/ f' (Content i) = Some (concat chunks).
Proof.
  intros ND C Hi. destruct (save_atomic cs chunks crc f0 f' ND C) as (l1 & l2 & -> & Hn & Ho).
  apply in_app_or in Hi. destruct Hi as [Hi|Hi]; [right; apply Hn, Hi|left; apply Ho, Hi].
Qed.

Theorem save_frame cs chunks crc f0 f' : crash f0 (save_ops cs chunks crc) f' ->
  (forall n, f' (Other n) = f0 (Other n)) /\ (forall i, ~ In i cs -> f' (Content i) = f0 (Content i) /\ f' (Tmp i) = f0 (Tmp i)).
Proof.
  intros C.
  assert (G : forall q, (forall i, In i cs -> q <> Tmp i /\ q <> Content i) -> f' q = f0 q).
  { intros q Hq. apply (crash_frame q _ _ _ C). unfold save_ops. apply Forall_app. split.
    - apply (tmp_in_not _ cs); [intros i Hi; apply Hq, Hi|apply before_rename_tmp_in].
    - apply rename_not_touch, Hq. }
  split.
  - intros n. apply G. intros i _. split; discriminate.
  - intros i Hi. split; apply G; intros k Hk; split; try discriminate; intros K; injection K as ->; exact (Hi Hk).
Qed.

(* re-read and verified BEFORE any copy is replaced: when the verification fails, no crash state has a replaced copy,
   and the complete run stops with an error *)
Theorem verify_guards_rename cs chunks crc f0 : NoDup cs -> cs <> [] -> verify_ok (concat chunks) crc = false ->
  exec f0 (save_ops cs chunks crc) = None /\
  forall f', crash f0 (save_ops cs chunks crc) f' -> forall i, f' (Content i) = f0 (Content i).
Proof.
  intros ND NE V. split.
  - unfold save_ops. rewrite exec_app, (verify_fail_exec cs chunks crc f0 ND NE V). reflexivity.
  - intros f' C i. unfold save_ops in C. destruct (crash_app _ _ _ _ C) as [C1|[f3 [E3 _]]].
    + apply (crash_frame _ _ _ _ C1). apply (tmp_in_not _ cs); [intros k _; discriminate|apply before_rename_tmp_in].
    + rewrite (verify_fail_exec cs chunks crc f0 ND NE V) in E3. discriminate.
Qed.

(* the whole list runs from ANY file system -- stale temporaries of any content included -- and ends with all copies new *)
Theorem save_complete cs chunks crc f0 : NoDup cs -> verify_ok (concat chunks) crc = true ->
  exists f1, exec f0 (save_ops cs chunks crc) = Some f1 /\
    (forall i, In i cs -> f1 (Content i) = Some (concat chunks) /\ f1 (Tmp i) = None) /\
    (forall q, (forall i, In i cs -> q <> Tmp i /\ q <> Content i) -> f1 q = f0 q).
Proof.
  intros ND V.
  destruct (before_rename_exec cs chunks crc f0 ND V) as (f3 & E3 & V3 & Fr3).
  destruct (rename_exec (concat chunks) cs f3 ND V3) as (f4 & E4 & V4 & Fr4).
  exists f4. split; [|split].
  - unfold save_ops. rewrite exec_app, E3. exact E4.
  - exact V4.
  - intros q Hq. rewrite (Fr4 q Hq). apply Fr3. intros i Hi. apply Hq, Hi.
Qed.

(* a save interrupted anywhere never blocks the next one *)
Corollary save_after_crash cs chunks crc chunks2 crc2 f0 fc : NoDup cs -> crash f0 (save_ops cs chunks crc) fc ->
  verify_ok (concat chunks2) crc2 = true ->
  exists f1, exec fc (save_ops cs chunks2 crc2) = Some f1 /\ forall i, In i cs -> f1 (Content i) = Some (concat chunks2) /\ f1 (Tmp i) = None.
Proof.
  intros ND _ V. destruct (save_complete cs chunks2 crc2 fc ND V) as (f1 & E & H & _). exists f1. split; assumption.
Qed.

(* ------------------------------------------------------------------------------------------------ *)
(** * What the writer produces passes the verification *)

Local Open Scope N_scope.

Lemma last4_app P C : length C = 4%nat -> last4 (P ++ C) = C.
Proof.
  intros LC. unfold last4.
  replace ([0; 0; 0; 0] ++ P ++ C) with (([0; 0; 0; 0] ++ P) ++ C) by (rewrite <- app_assoc; reflexivity).
  set (z := [0; 0; 0; 0] ++ P).
  rewrite app_length, LC. replace (length z + 4 - 4)%nat with (length z) by lia.
  rewrite skipn_app, skipn_all, Nat.sub_diag. reflexivity.
Qed.

Theorem writer_verifies P : bytes P -> verify_ok (P ++ sputble32 (crc32c_spec 0 P)) (crc32c_spec 0 P) = true.
Proof.
  intros HP. unfold verify_ok. rewrite last4_app by reflexivity.
  assert (Hw : crc32c_spec 0 P < 2^32).
  { rewrite crc_spec0. apply lxor_lt32; [|exact iv_lt32]. apply crc_bytes_lt32; [exact iv_lt32|exact HP]. }
  assert (E : le32_of (sputble32 (crc32c_spec 0 P)) = crc32c_spec 0 P).
  { unfold sputble32, le32_of. apply le32_sputble32, Hw. }
  rewrite E, N.eqb_refl. cbn [andb]. rewrite <- crc32c_spec_app. apply N.eqb_refl.
Qed.

Corollary writer_save_complete cs flushes f0 : NoDup cs -> bytes (concat flushes) ->
  exists f1, exec f0 (save_ops cs (writer_chunks flushes) (writer_crc flushes)) = Some f1 /\
    forall i, In i cs -> f1 (Content i) = Some (concat flushes ++ sputble32 (crc32c_spec 0 (concat flushes))) /\ f1 (Tmp i) = None.
Proof.
  intros ND HB.
  assert (Ec : concat (writer_chunks flushes) = concat flushes ++ sputble32 (crc32c_spec 0 (concat flushes))).
  { unfold writer_chunks. rewrite concat_app. cbn [concat]. rewrite app_nil_r. reflexivity. }
  destruct (save_complete cs (writer_chunks flushes) (writer_crc flushes) f0 ND) as (f1 & E & H & _).
  { rewrite Ec. apply writer_verifies, HB. }
  exists f1. split; [exact E|]. intros i Hi. rewrite <- Ec. apply H, Hi.
Qed.

(* ------------------------------------------------------------------------------------------------ *)
(** * Non-vacuity: three copies, a stale temporary, a torn write and a kill between two renames *)

Definition f_demo : fsys := fun q =>
  match q with Content 0 => Some [1] | Content 1 => Some [1] | Content 2 => Some [1] | Tmp 1 => Some [9; 9] | _ => None end.

Example demo_crash_between_renames :
  let flushes := [[83; 78]; [65; 78]] in
  let ops := save_ops [0; 1; 2]%nat (writer_chunks flushes) (writer_crc flushes) in
  exists f', crash f_demo ops f' /\ f' (Content 0%nat) = Some (concat (writer_chunks flushes)) /\
             f' (Content 1%nat) = Some [1] /\ f' (Content 2%nat) = Some [1] /\ length ops = 27%nat.
Proof.
  cbv zeta.
  set (ops := save_ops [0; 1; 2]%nat (writer_chunks [[83; 78]; [65; 78]]) (writer_crc [[83; 78]; [65; 78]])).
  destruct (exec f_demo (firstn 25 ops)) as [f'|] eqn:E; [|vm_compute in E; discriminate].
  exists f'. split; [|split; [|split; [|split]]].
  - replace ops with (firstn 25 ops ++ skipn 25 ops) by apply firstn_skipn.
    assert (G : forall l1 l2 f f1, exec f l1 = Some f1 -> crash f (l1 ++ l2) f1).
    { induction l1 as [|o l1 IH]; intros l2 f f1 H; cbn [exec] in H.
      - injection H as <-. constructor.
      - destruct (step f o) eqn:S; [|discriminate]. cbn [app]. eapply crash_step; [exact S|]. apply IH, H. }
    apply G, E.
  - vm_compute in E. injection E as <-. vm_compute. reflexivity.
  - vm_compute in E. injection E as <-. vm_compute. reflexivity.
  - vm_compute in E. injection E as <-. vm_compute. reflexivity.
  - vm_compute. reflexivity.
Qed.
