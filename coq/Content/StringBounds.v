(* C09: the string reads of the content loader stay inside their buffers.

   sgetbs(f, str, size) writes str[0 .. len-1] (sread) and str[len] = 0.  All of these indexes are < size exactly when the
   accepted length satisfies len < size.  The loader of Codec.CodecModel reads strings with [getstr size], size being
   PATH_MAX (names, paths, link targets, split paths) or UUID_MAX (uuids).

     getstr_is_sgetbs          CodecModel.getstr is Varint.sgetbs (the primitive whose bound C16 proves), pointwise
     string_write_in_bounds    a string that getstr accepts is SHORTER than the buffer: every index written, the
                               terminating NUL included, is < size
     sgetbs_never_oob          Varint.sgetbs_in_bounds re-exported: the flag "the length test passed although len >= size"
                               is never set, for every input

   If Varint.sgetbs is ever weakened to accept len = size (the C test `len > size`), getstr_is_sgetbs or
   Varint.sgetbs_in_bounds stops checking and with it Props/Properties_C09_codec.v.  The C side of the same boundary is
   TESTED by harness/py/c09_fields.py (length prefixes 126..129, 4094..4097, 2^31, 2^32-1, over-long, under ASan). *)
From Coq Require Import NArith List Bool Lia.
From Snap.Codec Require Import Varint CodecModel.
Import ListNotations.
Local Open Scope N_scope.

Lemma getstr_is_sgetbs size l : getstr size l = sgetbs size l.
Proof.
  unfold getstr, sgetbs, rbind, sgetbs_len_ok, u32. change 4294967296 with (2^32).
  destruct (sgetb32 l) as [[len t]| |]; try reflexivity.
  destruct (size mod 2^32 <=? len); reflexivity.
Qed.

Theorem string_write_in_bounds size inp s rest : size < 2^32 -> getstr size inp = Ok (s, rest) -> N.of_nat (length s) < size.
Proof.
  intros Hs H. rewrite getstr_is_sgetbs in H. unfold sgetbs in H.
  destruct (sgetb32 inp) as [[len t]| |]; try discriminate.
  destruct (sgetbs_len_ok len size) eqn:K; [|discriminate].
  destruct (take_ok _ _ _ _ H) as [_ L]. rewrite L. exact (sgetbs_len_ok_sound len size Hs K).
Qed.

(* the two capacities the loader uses *)
Lemma loader_buffer_sizes : PATH_MAX = 4096 /\ UUID_MAX = 128 /\ PATH_MAX < 2^32 /\ UUID_MAX < 2^32.
Proof. repeat split. Qed.

Corollary path_string_in_bounds inp s rest : getstr PATH_MAX inp = Ok (s, rest) -> N.of_nat (length s) < 4096.
Proof. apply (string_write_in_bounds PATH_MAX). reflexivity. Qed.
Corollary uuid_string_in_bounds inp s rest : getstr UUID_MAX inp = Ok (s, rest) -> N.of_nat (length s) < 128.
Proof. apply (string_write_in_bounds UUID_MAX). reflexivity. Qed.

Theorem sgetbs_never_oob size l : size < 2^32 -> sgetbs_oob size l = false.
Proof. exact (sgetbs_in_bounds size l). Qed.

(* non-vacuity and sharpness: length capacity-1 is read, length = capacity is refused whatever follows *)
Example string_boundary :
  (exists s rest, getstr 128 ([127; 128] ++ repeat 85 127) = Ok (s, rest) /\ length s = 127%nat) /\
  (forall t, getstr 128 ([0; 129] ++ t) = Bad) /\ (forall t, getstr 4096 ([0; 160] ++ t) = Bad).
Proof.
  split; [|split].
  - eexists. eexists. split; [vm_compute; reflexivity|reflexivity].
  - intros t. reflexivity.
  - intros t. reflexivity.
Qed.
