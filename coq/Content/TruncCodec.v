(* C09, part E on the full grammar: no strict prefix of a byte string that Codec.CodecModel.decode loads is loaded.

   The readers of CodecModel run their loops on fuel computed from the input length, and answer Eof when the fuel runs
   out.  A shorter input therefore means less fuel, and "the same bytes give the same result" is true only up to a
   premature Eof -- which is a rejection too.  The invariant used is [ok]:

     r inp = Ok (a, rest)  ->  inp = l ++ rest  and
        (1) on l followed by anything else, r answers Ok (a, that) or Eof
        (2) on every strict prefix of l, r answers Eof

   [ok] holds of the primitive readers, is preserved by rbind / if / match, and by computing the fuel from the input
   provided the loop satisfies [fuel_mono] (one more unit of fuel changes nothing, or turns an Eof into something). *)
From Coq Require Import NArith ZArith List Bool Arith Lia.
From Snap.Crc Require Import CrcModel CrcProofs.
From Snap.Codec Require Import Varint CodecModel.
From Snap.Content Require Import CrcBurstBytes RejectProofs RejectCodec.
Import ListNotations.
Local Open Scope N_scope.

Definition ok {A} (r : reader A) : Prop :=
  forall inp a rest, r inp = Ok (a, rest) ->
    exists l, inp = l ++ rest /\
      (forall m, r (l ++ m) = Ok (a, m) \/ r (l ++ m) = Eof) /\
      (forall p q, l = p ++ q -> q <> [] -> r p = Eof).

Lemma ok_of_regular_strict {A} (r : reader A) : regular r -> strict r -> ok r.
Proof.
  intros R S inp a rest H. destruct (R _ _ _ H) as (l & -> & Hl).
  exists l. split; [reflexivity|]. split.
  - intros m. left. apply Hl.
  - intros p q E Hq. exact (S l a Hl p q E Hq).
Qed.

Lemma ok_ext {A} (r r' : reader A) : (forall x, r x = r' x) -> ok r' -> ok r.
Proof.
  intros E H inp a rest K. rewrite E in K. destruct (H _ _ _ K) as (l & -> & H1 & H2).
  exists l. split; [reflexivity|]. split.
  - intros m. rewrite E. apply H1.
  - intros p q Ep Hq. rewrite E. exact (H2 p q Ep Hq).
Qed.

Lemma ok_ret {A} (a : A) : ok (rret a).
Proof. apply ok_of_regular_strict; [apply regular_ret|apply strict_ret]. Qed.

Lemma ok_fail {A} : ok (@rfail A).
Proof. intros inp a rest H. discriminate H. Qed.

Lemma ok_eof {A} : ok (fun _ : list N => @Eof (A * list N)).
Proof. intros inp a rest H. discriminate H. Qed.

Lemma ok_getc : ok getc.
Proof. apply ok_of_regular_strict; [apply regular_getc|apply strict_getc]. Qed.

Lemma ok_take n : ok (take n).
Proof. apply ok_of_regular_strict; [apply regular_take|apply strict_take]. Qed.

Lemma ok_bind {A B} (r : reader A) (f : A -> reader B) : ok r -> (forall a, ok (f a)) -> ok (rbind r f).
Proof.
  intros Hr Hf inp b rest H. unfold rbind in H.
  destruct (r inp) as [[a mid]| |] eqn:E; try discriminate.
  destruct (Hr _ _ _ E) as (l1 & -> & R1 & R2). destruct (Hf a _ _ _ H) as (l2 & -> & F1 & F2).
  exists (l1 ++ l2). split; [rewrite app_assoc; reflexivity|]. split.
  - intros m. unfold rbind. rewrite <- app_assoc. destruct (R1 (l2 ++ m)) as [K|K]; rewrite K; [apply F1|right; reflexivity].
  - intros p q Ep Hq. unfold rbind.
    destruct (split_prefix l1 l2 p q Ep) as [[y [-> ->]]|[y [-> ->]]].
    + destruct y as [|y0 y].
      * rewrite app_nil_r in *. destruct (R1 []) as [K|K]; rewrite app_nil_r in K; rewrite K; [|reflexivity].
        apply (F2 [] l2); [reflexivity|exact Hq].
      * rewrite (R2 p (y0 :: y) eq_refl); [reflexivity|discriminate].
    + destruct (R1 y) as [K|K]; rewrite K; [|reflexivity]. exact (F2 y q eq_refl Hq).
Qed.

(* ---- packed integers ---- *)

Lemma ok_getb W : forall fuel v s, ok (getb W fuel v s).
Proof.
  induction fuel as [|fuel IH]; intros v s inp a rest H; cbn [getb] in H; [discriminate|].
  destruct inp as [|c t]; [discriminate|].
  destruct (N.testbit c 7) eqn:E7.
  - injection H as <- <-. exists [c]. split; [reflexivity|]. split.
    + intros m. left. cbn [app getb]. rewrite E7. reflexivity.
    + intros p q Ep Hq. destruct p as [|x p]; [reflexivity|]. injection Ep as -> Ep.
      destruct p; destruct q; try discriminate; congruence.
  - destruct (W <=? (s + 7) mod 256) eqn:EW; [discriminate|].
    destruct (IH _ _ _ _ _ H) as (l & -> & H1 & H2).
    exists (c :: l). split; [reflexivity|]. split.
    + intros m. cbn [app getb]. rewrite E7, EW. apply H1.
    + intros p q Ep Hq. destruct p as [|x p]; [reflexivity|]. injection Ep as -> Ep.
      cbn [getb]. rewrite E7, EW. exact (H2 p q Ep Hq).
Qed.

Lemma ok_sgetb32 : ok sgetb32.
Proof. apply ok_getb. Qed.
Lemma ok_sgetb64 : ok sgetb64.
Proof. apply ok_getb. Qed.

(* ---- fuel computed from the input ---- *)

Definition fuel_mono {A} (G : nat -> reader A) : Prop := forall f x, G f x = G (S f) x \/ G f x = Eof.

Lemma fuel_mono_le {A} (G : nat -> reader A) : fuel_mono G -> forall d f x, G f x = G (d + f)%nat x \/ G f x = Eof.
Proof.
  intros M. induction d as [|d IH]; intros f x; [left; reflexivity|].
  destruct (IH f x) as [E|E]; [|right; exact E].
  destruct (M (d + f)%nat x) as [E2|E2].
  - left. rewrite E. exact E2.
  - (* G (d+f) x = Eof, so G f x = Eof *) right. rewrite E. exact E2.
Qed.

Lemma ok_fuelled {A} (G : nat -> reader A) : (forall f, ok (G f)) -> fuel_mono G -> ok (fun l => G (S (length l)) l).
Proof.
  intros HG M inp a rest H. cbv beta in H.
  destruct (HG _ _ _ _ H) as (l & -> & H1 & H2).
  exists l. split; [reflexivity|]. split.
  - intros m. cbv beta.
    set (F := S (length (l ++ rest))) in *. set (f' := S (length (l ++ m))).
    destruct (Nat.le_ge_cases f' F) as [L|L].
    + (* less fuel: the same result or Eof *)
      destruct (fuel_mono_le G M (F - f') f' (l ++ m)) as [E|E]; [|right; exact E].
      replace (F - f' + f')%nat with F in E by lia. rewrite E. apply H1.
    + (* more fuel: lift the successful run, then use ok at that fuel *)
      destruct (fuel_mono_le G M (f' - F) F (l ++ rest)) as [E|E]; [|rewrite E in H; discriminate].
      replace (f' - F + F)%nat with f' in E by lia. rewrite H in E. symmetry in E.
      destruct (HG _ _ _ _ E) as (l' & El & K1 & _). apply app_inv_tail in El. subst l'. apply K1.
  - intros p q Ep Hq. cbv beta.
    assert (L : (S (length p) <= S (length (l ++ rest)))%nat) by (subst l; rewrite !app_length; lia).
    destruct (fuel_mono_le G M (S (length (l ++ rest)) - S (length p)) (S (length p)) p) as [E|E]; [|exact E].
    replace (S (length (l ++ rest)) - S (length p) + S (length p))%nat with (S (length (l ++ rest))) in E by lia.
    rewrite E. exact (H2 p q Ep Hq).
Qed.

(* congruence for fuel_mono through the reader combinators *)
Definition rle {A} (r r' : reader A) : Prop := forall x, r x = r' x \/ r x = Eof.

Lemma rle_refl {A} (r : reader A) : rle r r.
Proof. intros x. left. reflexivity. Qed.

Lemma rle_eof {A} (r' : reader A) : rle (fun _ => Eof) r'.
Proof. intros x. right. reflexivity. Qed.

Lemma rle_bind {A B} (r : reader A) (F F' : A -> reader B) : (forall a, rle (F a) (F' a)) -> rle (rbind r F) (rbind r F').
Proof.
  intros H x. unfold rbind. destruct (r x) as [[a mid]| |]; [apply H|left; reflexivity|left; reflexivity].
Qed.

Lemma rle_bind_l {A B} (r r' : reader A) (F : A -> reader B) : rle r r' -> rle (rbind r F) (rbind r' F).
Proof. intros H x. unfold rbind. destruct (H x) as [E|E]; rewrite E; [left|right]; reflexivity. Qed.

Ltac rle_tac :=
  lazymatch goal with
  | |- rle (rbind ?r _) (rbind ?r _) => apply rle_bind; intros ?; rle_tac
  | |- rle (rbind _ ?F) (rbind _ ?F) => apply rle_bind_l; rle_tac
  | |- rle (if ?c then _ else _) (if ?c then _ else _) => destruct c; rle_tac
  | |- rle (match ?x with _ => _ end) (match ?x with _ => _ end) => destruct x; rle_tac
  | |- rle (fun _ => Eof) _ => apply rle_eof
  | |- _ => first [ apply rle_refl | match goal with H : _ |- _ => solve [apply H] end | idtac ]
  end.

Create HintDb okdb.
#[export] Hint Resolve ok_getc ok_take ok_sgetb32 ok_sgetb64 : okdb.

Ltac ok_tac :=
  lazymatch goal with
  | |- ok (rbind _ _) => apply ok_bind; [ok_tac | intros ?; ok_tac]
  | |- ok (rret _) => apply ok_ret
  | |- ok rfail => apply ok_fail
  | |- ok (fun _ => Eof) => apply ok_eof
  | |- ok (if ?c then _ else _) => destruct c; ok_tac
  | |- ok (match ?x with _ => _ end) => destruct x; ok_tac
  | |- ok (fun l => ?g (S (length l)) l) => idtac
  | |- _ => first [ solve [auto with okdb] | match goal with H : _ |- _ => solve [apply H] end | idtac ]
  end.

(* ---- strings, hashes ---- *)

Lemma ok_getstr size : ok (getstr size).
Proof. unfold getstr. ok_tac. Qed.
Lemma ok_getcstr size : ok (getcstr size).
Proof. unfold getcstr. ok_tac. apply ok_getstr. Qed.
Lemma ok_get_mapping d : ok (get_mapping d).
Proof. unfold get_mapping. ok_tac. Qed.
#[export] Hint Resolve ok_getstr ok_getcstr ok_get_mapping : okdb.

(* read_hashes in monadic form *)
Definition read_hashes_m (rec : N -> reader (list (list N))) (hs n : N) : reader (list (list N)) :=
  if n =? 0 then rret []
  else rbind (take hs) (fun h => rbind (rec (n - 1)) (fun hl => rret (h :: hl))).

Lemma read_hashes_S fuel hs n x : read_hashes (S fuel) hs n x = read_hashes_m (read_hashes fuel hs) hs n x.
Proof.
  cbn [read_hashes]. unfold read_hashes_m. destruct (n =? 0); [reflexivity|].
  unfold rbind, rret. destruct (take hs x) as [[h r]| |]; reflexivity.
Qed.

Lemma read_hashes_O hs n x : read_hashes O hs n x = (if n =? 0 then rret [] else fun _ => Eof) x.
Proof. cbn [read_hashes]. destruct (n =? 0); reflexivity. Qed.

Lemma ok_read_hashes : forall fuel hs n, ok (read_hashes fuel hs n).
Proof.
  induction fuel as [|fuel IH]; intros hs n.
  - apply (ok_ext _ _ (read_hashes_O hs n)). ok_tac.
  - apply (ok_ext _ _ (read_hashes_S fuel hs n)). unfold read_hashes_m. ok_tac.
Qed.

Lemma mono_read_hashes hs : forall f n, rle (read_hashes f hs n) (read_hashes (S f) hs n).
Proof.
  induction f as [|f IH]; intros n x.
  - rewrite read_hashes_O. destruct (n =? 0) eqn:E.
    + left. cbn [read_hashes]. rewrite E. reflexivity.
    + right. reflexivity.
  - rewrite !read_hashes_S.
    assert (R : rle (read_hashes_m (read_hashes f hs) hs n) (read_hashes_m (read_hashes (S f) hs) hs n)) by (unfold read_hashes_m; rle_tac).
    apply R.
Qed.

Lemma ok_get_hashes hs n : ok (get_hashes hs n).
Proof.
  unfold get_hashes. apply (ok_fuelled (fun f => read_hashes f hs n)).
  - intros f. apply ok_read_hashes.
  - intros f x. apply mono_read_hashes.
Qed.
#[export] Hint Resolve ok_get_hashes : okdb.

(* ---- the fuelled loops of the records ---- *)

Lemma ok_read_runs : forall fuel k hs bm fbm v_idx acc, ok (read_runs fuel k hs bm fbm v_idx acc).
Proof. induction fuel as [|fuel IH]; intros; cbn [read_runs]; ok_tac. Qed.
Lemma step_read_runs k hs bm fbm f g : (forall v_idx acc, rle (read_runs f k hs bm fbm v_idx acc) (read_runs g k hs bm fbm v_idx acc)) ->
  forall v_idx acc, rle (read_runs (S f) k hs bm fbm v_idx acc) (read_runs (S g) k hs bm fbm v_idx acc).
Proof. intros IH v_idx acc. cbn [read_runs]. rle_tac. Qed.
Lemma mono_read_runs k hs bm fbm : forall f v_idx acc, rle (read_runs f k hs bm fbm v_idx acc) (read_runs (S f) k hs bm fbm v_idx acc).
Proof.
  induction f as [|f IH]; [|apply step_read_runs, IH].
  intros v_idx acc. cbn [read_runs]. destruct (fbm <=? v_idx); [apply rle_refl|apply rle_eof].
Qed.

Lemma ok_read_info : forall fuel s bm oldest v_pos acc, ok (read_info fuel s bm oldest v_pos acc).
Proof. induction fuel as [|fuel IH]; intros; cbn [read_info]; ok_tac. Qed.
Lemma step_read_info s bm oldest f g : (forall v_pos acc, rle (read_info f s bm oldest v_pos acc) (read_info g s bm oldest v_pos acc)) ->
  forall v_pos acc, rle (read_info (S f) s bm oldest v_pos acc) (read_info (S g) s bm oldest v_pos acc).
Proof. intros IH v_pos acc. cbn [read_info]. rle_tac. Qed.
Lemma mono_read_info s bm oldest : forall f v_pos acc, rle (read_info f s bm oldest v_pos acc) (read_info (S f) s bm oldest v_pos acc).
Proof.
  induction f as [|f IH]; [|apply step_read_info, IH].
  intros v_pos acc. cbn [read_info]. destruct (bm <=? v_pos); [apply rle_refl|apply rle_eof].
Qed.

Lemma ok_read_holes : forall fuel k hs bs bm v_pos acc, ok (read_holes fuel k hs bs bm v_pos acc).
Proof. induction fuel as [|fuel IH]; intros; cbn [read_holes]; ok_tac. Qed.
Lemma step_read_holes k hs bs bm f g : (forall v_pos acc, rle (read_holes f k hs bs bm v_pos acc) (read_holes g k hs bs bm v_pos acc)) ->
  forall v_pos acc, rle (read_holes (S f) k hs bs bm v_pos acc) (read_holes (S g) k hs bs bm v_pos acc).
Proof. intros IH v_pos acc. cbn [read_holes]. rle_tac. Qed.
Lemma mono_read_holes k hs bs bm : forall f v_pos acc, rle (read_holes f k hs bs bm v_pos acc) (read_holes (S f) k hs bs bm v_pos acc).
Proof.
  induction f as [|f IH]; [|apply step_read_holes, IH].
  intros v_pos acc. cbn [read_holes]. destruct (bm <=? v_pos); [apply rle_refl|apply rle_eof].
Qed.

Lemma ok_read_splits : forall fuel k used mac i acc, ok (read_splits fuel k used mac i acc).
Proof. induction fuel as [|fuel IH]; intros; cbn [read_splits]; ok_tac. Qed.
Lemma step_read_splits k used mac f g : (forall i acc, rle (read_splits f k used mac i acc) (read_splits g k used mac i acc)) ->
  forall i acc, rle (read_splits (S f) k used mac i acc) (read_splits (S g) k used mac i acc).
Proof. intros IH i acc. cbn [read_splits]. rle_tac. Qed.
Lemma mono_read_splits k used mac : forall f i acc, rle (read_splits f k used mac i acc) (read_splits (S f) k used mac i acc).
Proof.
  induction f as [|f IH]; [|apply step_read_splits, IH].
  intros i acc. cbn [read_splits]. destruct (mac <=? i); [apply rle_refl|apply rle_eof].
Qed.

(* ---- the records ---- *)

Lemma ok_rec_file k d : ok (rec_file k d).
Proof.
  unfold rec_file. cbv zeta. ok_tac.
  match goal with |- ok (fun l => read_runs (S (length l)) ?k ?hs ?bm ?fbm ?i ?acc l) =>
    apply (ok_fuelled (fun f => read_runs f k hs bm fbm i acc)); [intros f; apply ok_read_runs|intros f x; apply mono_read_runs] end.
Qed.
Lemma ok_rec_info d : ok (rec_info d).
Proof.
  unfold rec_info. cbv zeta. ok_tac.
  match goal with |- ok (fun l => read_info (S (length l)) ?s ?bm ?o ?p ?acc l) =>
    apply (ok_fuelled (fun f => read_info f s bm o p acc)); [intros f; apply ok_read_info|intros f x; apply mono_read_info] end.
Qed.
Lemma ok_rec_hole k d : ok (rec_hole k d).
Proof.
  unfold rec_hole. cbv zeta. ok_tac.
  match goal with |- ok (fun l => read_holes (S (length l)) ?k ?hs ?bs ?bm ?p ?acc l) =>
    apply (ok_fuelled (fun f => read_holes f k hs bs bm p acc)); [intros f; apply ok_read_holes|intros f x; apply mono_read_holes] end.
Qed.
Lemma ok_rec_link h d : ok (rec_link h d).
Proof. unfold rec_link. cbv zeta. ok_tac. Qed.
Lemma ok_rec_dir d : ok (rec_dir d).
Proof. unfold rec_dir. cbv zeta. ok_tac. Qed.
Lemma ok_rec_hash p d : ok (rec_hash p d).
Proof. unfold rec_hash. cbv zeta. ok_tac. Qed.
Lemma ok_rec_blocksize k d : ok (rec_blocksize k d).
Proof. unfold rec_blocksize. cbv zeta. ok_tac. Qed.
Lemma ok_rec_hashsize k d : ok (rec_hashsize k d).
Proof. unfold rec_hashsize. cbv zeta. ok_tac. Qed.
Lemma ok_rec_blockmax d : ok (rec_blockmax d).
Proof. unfold rec_blockmax. ok_tac. Qed.
Lemma ok_rec_map k c d : ok (rec_map k c d).
Proof. unfold rec_map. cbv zeta. ok_tac. Qed.
Lemma ok_rec_parity_P k d : ok (rec_parity_P k d).
Proof. unfold rec_parity_P. cbv zeta. ok_tac. Qed.
Lemma ok_rec_parity_Q k d : ok (rec_parity_Q k d).
Proof.
  unfold rec_parity_Q. cbv zeta. ok_tac.
  match goal with |- ok (fun l => read_splits (S (length l)) ?k ?u ?m ?i ?acc l) =>
    apply (ok_fuelled (fun f => read_splits f k u m i acc)); [intros f; apply ok_read_splits|intros f x; apply mono_read_splits] end.
Qed.

Lemma ok_record k all d c : (c =? 78) = false -> ok (record k all d c).
Proof.
  intros HN. unfold record. rewrite HN.
  repeat match goal with |- ok (if ?c then _ else _) => destruct c end;
    first [apply ok_rec_file | apply ok_rec_info | apply ok_rec_hole | apply ok_rec_link | apply ok_rec_dir
          | apply ok_rec_hash | apply ok_rec_blocksize | apply ok_rec_hashsize | apply ok_rec_blockmax
          | apply ok_rec_map | apply ok_rec_parity_P | apply ok_rec_parity_Q | apply ok_fail | idtac].
Qed.

Lemma record_all_irrelevant k all all' d c : (c =? 78) = false -> record k all d c = record k all' d c.
Proof. intros HN. unfold record. rewrite HN. reflexivity. Qed.

(* ------------------------------------------------------------------------------------------------ *)
(** * The record loop on a truncated stream *)

(* the full stream l is read to the end (with crc_checked false at the start); on a strict prefix p of l the loop fails,
   or reaches the end of p with crc_checked still false.  `all` / `all'` (the whole files, used by the 'N' record for the
   crc) and the fuels are unrelated: the 'N' record of the full run is last, the truncated run never completes it. *)
Lemma records_truncated : forall fuel k all d l r, d_crc d = false -> records fuel k all d l = Ok r ->
  forall p q, l = p ++ q -> q <> [] -> forall fuel' all' x, records fuel' k all' d p = Ok x -> d_crc x = false.
Proof.
  induction fuel as [|fuel IH]; intros k all d l r Hd H p q E Hq fuel' all' x K.
  - destruct l as [|c t]; cbn [records] in H.
    + destruct p; destruct q; try discriminate; congruence.
    + rewrite Hd in H. discriminate.
  - destruct l as [|c t]; cbn [records] in H; [destruct p; destruct q; try discriminate; congruence|].
    rewrite Hd in H.
    destruct (record k all d c t) as [[d' rest]| |] eqn:ER; try discriminate.
    destruct p as [|c' p'].
    + destruct fuel'; cbn [records] in K; injection K as <-; exact Hd.
    + injection E as <- E.
      destruct fuel' as [|fuel']; cbn [records] in K; rewrite Hd in K; [discriminate|].
      destruct (record k all' d c p') as [[d2 rest2]| |] eqn:ER2; try discriminate.
      destruct (c =? 78) eqn:EN.
      * (* 'N': the full run has exactly the four crc bytes after it; fewer than four give Eof *)
        exfalso. assert (Ec : c = 78) by (apply N.eqb_eq, EN). subst c.
        unfold record in ER, ER2. cbn in ER, ER2. unfold rec_crc in ER, ER2.
        destruct (sgetble32 t) as [[stored rest']| |] eqn:EG; try discriminate.
        destruct (stored =? u32 (crc_consumed all t)); [|discriminate].
        injection ER as <- <-.
        apply records_done_checked in H; [|reflexivity]. destruct H as [-> _].
        destruct (regular_sgetble32 _ _ _ EG) as (l4 & El & Hl). rewrite app_nil_r in El. subst l4.
        assert (S4 : sgetble32 p' = Eof).
        { unfold sgetble32 in EG |- *. destruct (take 4 t) as [[h r']| |] eqn:ET; try discriminate.
          destruct (take_ok _ _ _ _ ET) as [Et L4].
          destruct h as [|b0 [|b1 [|b2 [|b3 [|? ?]]]]]; try discriminate.
          injection EG as _ ->. rewrite app_nil_r in Et.
          rewrite (take_short 4 p'); [reflexivity|].
          assert (LL : length (p' ++ q) = 4%nat) by (rewrite <- E, Et; reflexivity). rewrite app_length in LL.
          destruct q; [congruence|]. cbn [length] in LL. lia. }
        rewrite S4 in ER2. discriminate.
      * rewrite (record_all_irrelevant k all' all d c EN) in ER2.
        destruct (ok_record k all d c EN _ _ _ ER) as (l0 & -> & R1 & R2).
        destruct (keeps_record k all d c EN _ _ _ ER) as [_ Hk]. rewrite Hd in Hk.
        destruct (split_prefix l0 rest p' q E) as [[y [-> ->]]|[y [-> ->]]].
        -- destruct y as [|y0 y].
           ++ rewrite app_nil_r in *. destruct (R1 []) as [K1|K1]; rewrite app_nil_r in K1; rewrite K1 in ER2; [|discriminate].
              injection ER2 as <- <-. destruct fuel'; cbn [records] in K; injection K as <-; exact Hk.
           ++ rewrite (R2 p' (y0 :: y) eq_refl) in ER2; discriminate.
        -- destruct (R1 y) as [K1|K1]; rewrite K1 in ER2; [|discriminate].
           injection ER2 as <- <-.
           exact (IH k all d' (y ++ q) r Hk H y q eq_refl Hq fuel' all' x K).
Qed.

Theorem decode_truncation_rejected k b s p q : decode k b = Ok s -> b = p ++ q -> q <> [] -> forall s', decode k p <> Ok s'.
Proof.
  intros H E Hq s' K. unfold decode in H, K.
  destruct (take 12 b) as [[h l]| |] eqn:ET; try discriminate.
  destruct (take_ok _ _ _ _ ET) as [Eb L12].
  destruct (bytes_eqb h (header 1) || bytes_eqb h (header 2) || bytes_eqb h (header 3)) eqn:EH; [|discriminate].
  match type of H with match ?R with _ => _ end = _ => destruct R as [d| |] eqn:ER; try discriminate end.
  destruct (take 12 p) as [[h' l']| |] eqn:ET'; try discriminate.
  destruct (take_ok _ _ _ _ ET') as [Ep L12'].
  (* the two headers are the same 12 bytes *)
  assert (Eh : h' = h /\ l = l' ++ q).
  { subst b p. rewrite <- app_assoc in Eb.
    assert (LL : length h' = length h) by (apply Nat2N.inj; rewrite L12, L12'; reflexivity).
    clear - Eb LL. revert h Eb LL. induction h' as [|a h' IH]; intros [|c h] Eb LL; try discriminate LL.
    - split; [reflexivity|]. cbn [app] in Eb. symmetry. exact Eb.
    - cbn [app] in Eb. injection Eb as -> Eb. injection LL as LL. destruct (IH h Eb LL) as [-> ->]. split; reflexivity. }
  destruct Eh as [-> ->]. rewrite EH in K.
  match type of K with match ?R with _ => _ end = _ => destruct R as [d2| |] eqn:ER2; try discriminate end.
  assert (Hx : d_crc d2 = false).
  { assert (Hd0 : d_crc {| d_st := init_state k; d_blockmax := 0; d_mapping := []; d_crc := false |} = false) by reflexivity.
    exact (records_truncated _ _ _ _ _ _ Hd0 ER l' q eq_refl Hq _ _ _ ER2). }
  rewrite Hx in K. cbn in K. discriminate.
Qed.

(* non-vacuity on a file written by the real binary: every strict prefix of it is rejected by the model *)
Example real_file_truncations : forall n, (n < 128)%nat -> forall s, decode NoConfModel.noconf (firstn n real_file) <> Ok s.
Proof.
  intros n Hn. destruct real_file_loaded as [[s0 H0] _].
  apply (decode_truncation_rejected NoConfModel.noconf real_file s0 (firstn n real_file) (skipn n real_file) H0).
  - symmetry. apply firstn_skipn.
  - intros K. assert (L : length (skipn n real_file) = 0%nat) by (rewrite K; reflexivity).
    rewrite skipn_length in L. change (length real_file) with 128%nat in L. lia.
Qed.
