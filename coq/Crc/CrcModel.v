(* CRC-32C (Castagnoli, reflected polynomial 0x82F63B78) of cmdline/util.h / util.c.
   Executable definitions only.  Bytes are N < 256, the crc register is an N < 2^32.

     zstep / zn / crc_byte / crc_bytes     the bit-serial DEFINITION (the reference)
     tbl_byte / crc_table                  crc32c_plain_char and the byte tail loops: one lookup in CRC32C_0
     crc32c_gen_plain                      slicing-by-4 through CRC32C_3..0, then the byte tail
     crc32c_x86_plain                      crc32q on 8 bytes per step, then crc32b on the tail
     crc32c_gen / crc32c_x86               the same with the tool's pre/post inversion by CRC_IV

   The four tables are Gen.CrcTables.crc32c_0..3, regenerated from cmdline/util.c on every run. *)
From Coq Require Import NArith List.
From Snap.Gen Require Import CrcTables.
Import ListNotations.
Local Open Scope N_scope.

Definition POLY : N := 2197175160.      (* 0x82F63B78 *)
Definition CRC_IV : N := 4294967295.    (* 0xffffffffU *)

(* ---- the definition: shift right one bit, subtract the polynomial when a one falls out ---- *)
Definition zstep (s : N) : N := if N.odd s then N.lxor (N.shiftr s 1) POLY else N.shiftr s 1.
Fixpoint zn (n : nat) (s : N) : N := match n with O => s | S k => zn k (zstep s) end.

Definition crc_byte (s c : N) : N := zn 8 (N.lxor s c).
Definition crc_bytes (init : N) (l : list N) : N := fold_left crc_byte l init.

(* CRC as the tool uses it for files: crc32c(crc, ptr, size) with IV inversion before and after *)
Definition crc32c_spec (crc : N) (l : list N) : N := N.lxor (crc_bytes (N.lxor crc CRC_IV) l) CRC_IV.

(* ---- table lookup ---- *)
Definition tab (t : list N) (i : N) : N := nth (N.to_nat i) t 0.

(* crc32c_plain_char (portable branch) and the tail loop of crc32c_gen_plain:
     crc = CRC32C_0[(crc ^ c) & 0xff] ^ (crc >> 8) *)
Definition tbl_byte (s c : N) : N := N.lxor (tab crc32c_0 (N.land (N.lxor s c) 255)) (N.shiftr s 8).
Definition crc_table (init : N) (l : list N) : N := fold_left tbl_byte l init.

(* ptr[0] | (uint32_t)ptr[1] << 8 | (uint32_t)ptr[2] << 16 | (uint32_t)ptr[3] << 24 *)
Definition le32 (b0 b1 b2 b3 : N) : N := N.lor (N.lor (N.lor b0 (N.shiftl b1 8)) (N.shiftl b2 16)) (N.shiftl b3 24).

(* crc ^= word;
   crc = CRC32C_3[crc & 0xff] ^ CRC32C_2[(crc >> 8) & 0xff] ^ CRC32C_1[(crc >> 16) & 0xff] ^ CRC32C_0[crc >> 24]; *)
Definition slice4_step (crc b0 b1 b2 b3 : N) : N :=
  let crc := N.lxor crc (le32 b0 b1 b2 b3) in
  N.lxor (N.lxor (N.lxor (tab crc32c_3 (N.land crc 255))
                         (tab crc32c_2 (N.land (N.shiftr crc 8) 255)))
                 (tab crc32c_1 (N.land (N.shiftr crc 16) 255)))
         (tab crc32c_0 (N.shiftr crc 24)).

(* while (size >= 4) { ...; ptr += 4; size -= 4; }  while (size) { byte step } *)
Fixpoint crc32c_gen_plain (crc : N) (l : list N) {struct l} : N :=
  match l with
  | b0 :: b1 :: b2 :: b3 :: t => crc32c_gen_plain (slice4_step crc b0 b1 b2 b3) t
  | _ => crc_table crc l
  end.

Definition crc32c_gen (crc : N) (l : list N) : N := N.lxor (crc32c_gen_plain (N.lxor crc CRC_IV) l) CRC_IV.

(* ---- SSE4.2 ----
   ASSUMED instruction semantics (trusted base, validated by the correspondence on CPUs that have it):
   crc32b r32, m8   = one byte step of the bit-serial definition;
   crc32q r64, m64  = eight byte steps on the low 32 bits of the destination over the 8 source bytes in
                      memory (little endian) order, result zero-extended to 64 bits. *)
Definition hw_crc32b (crc c : N) : N := crc_byte crc c.
Definition hw_crc32q (crc64 b0 b1 b2 b3 b4 b5 b6 b7 : N) : N :=
  crc_bytes (crc64 mod 2^32) [b0; b1; b2; b3; b4; b5; b6; b7].

(* uint64_t crc64 = crc; while (size >= 8) { crc32q; ptr += 8; size -= 8; } crc = crc64; while (size) { crc32b } *)
Fixpoint crc32c_x86_loop8 (crc64 : N) (l : list N) {struct l} : N * list N :=
  match l with
  | b0 :: b1 :: b2 :: b3 :: b4 :: b5 :: b6 :: b7 :: t => crc32c_x86_loop8 (hw_crc32q crc64 b0 b1 b2 b3 b4 b5 b6 b7) t
  | _ => (crc64, l)
  end.
Definition crc32c_x86_plain (crc : N) (l : list N) : N :=
  let '(crc64, tail) := crc32c_x86_loop8 crc l in
  fold_left hw_crc32b tail (crc64 mod 2^32).

Definition crc32c_x86 (crc : N) (l : list N) : N := N.lxor (crc32c_x86_plain (N.lxor crc CRC_IV) l) CRC_IV.

(* ---- streams (cmdline/stream.c) ----
   file CRC: s->crc starts at 0 and is advanced buffer by buffer with crc32c(s->crc, buffer, n);
   write-side shadow CRC: crc_stream starts at CRC_IV, is advanced with crc32c_plain / crc32c_plain_char per
   swrite / sputc, and read back as scrc_stream = crc_stream ^ CRC_IV. *)
Definition stream_crc_chunks (chunks : list (list N)) : N := fold_left crc32c_spec chunks 0.
Definition stream_crc_stream (writes : list (list N)) : N := N.lxor (fold_left crc_bytes writes CRC_IV) CRC_IV.

(* closed form of the tables: entry i of CRC32C_k is i pushed through 8(k+1) shifts *)
Definition table_of (k : nat) : list N := map (fun i => zn (8 * k) (N.of_nat i)) (seq 0 256).
