(* Proofs about the CRC-32C models: the regenerated tables are the closed form, and the table loop, the
   slicing-by-4 loop and the 8-byte hardware shape all equal the bit-serial definition for EVERY byte string
   and every 32-bit start value; chunking; detection of every change confined to 4 consecutive bytes. *)
From Coq Require Import NArith List Bool Lia ZArith.
From Snap.Gen Require Import CrcTables.
From Snap.Crc Require Import CrcModel.
Import ListNotations.
Local Open Scope N_scope.
Ltac Zify.zify_post_hook ::= Z.to_euclidean_division_equations.

Definition bytes (l : list N) : Prop := Forall (fun b => b < 256) l.

(* ------------------------------------------------------------------------------------------------ *)
(** * The tables *)

Theorem crc_table_ok :
  crc32c_0 = table_of 1 /\ crc32c_1 = table_of 2 /\ crc32c_2 = table_of 3 /\ crc32c_3 = table_of 4.
Proof. repeat split; vm_compute; reflexivity. Qed.

Lemma zn_0 n : zn n 0 = 0.
Proof. induction n as [|n IH]; [reflexivity|]. cbn [zn]. exact IH. Qed.

Lemma table_of_nth k i : i < 256 -> tab (table_of k) i = zn (8 * k) i.
Proof.
  intros Hi. unfold tab, table_of.
  rewrite <- (zn_0 (8 * k)) at 1. change 0 with (N.of_nat 0) at 1.
  rewrite (map_nth (fun i => zn (8 * k) (N.of_nat i))).
  rewrite seq_nth by lia. cbn [Nat.add]. rewrite N2Nat.id. reflexivity.
Qed.

Lemma tab0 i : i < 256 -> tab crc32c_0 i = zn 8 i.
Proof. intros H. rewrite (proj1 crc_table_ok). exact (table_of_nth 1 i H). Qed.
Lemma tab1 i : i < 256 -> tab crc32c_1 i = zn 16 i.
Proof. intros H. rewrite (proj1 (proj2 crc_table_ok)). exact (table_of_nth 2 i H). Qed.
Lemma tab2 i : i < 256 -> tab crc32c_2 i = zn 24 i.
Proof. intros H. rewrite (proj1 (proj2 (proj2 crc_table_ok))). exact (table_of_nth 3 i H). Qed.
Lemma tab3 i : i < 256 -> tab crc32c_3 i = zn 32 i.
Proof. intros H. rewrite (proj2 (proj2 (proj2 crc_table_ok))). exact (table_of_nth 4 i H). Qed.

(* ------------------------------------------------------------------------------------------------ *)
(** * Linearity of the shift register *)

Lemma odd_lxor a b : N.odd (N.lxor a b) = xorb (N.odd a) (N.odd b).
Proof. rewrite <- !N.bit0_odd. apply N.lxor_spec. Qed.

Lemma zstep_lxor a b : zstep (N.lxor a b) = N.lxor (zstep a) (zstep b).
Proof.
  unfold zstep. rewrite odd_lxor, N.shiftr_lxor.
  destruct (N.odd a), (N.odd b); cbn [xorb].
  - rewrite (N.lxor_comm (N.shiftr b 1) POLY), N.lxor_assoc, <- (N.lxor_assoc POLY POLY), N.lxor_nilpotent, N.lxor_0_l. reflexivity.
  - rewrite !N.lxor_assoc. f_equal. apply N.lxor_comm.
  - rewrite !N.lxor_assoc. reflexivity.
  - reflexivity.
Qed.

Lemma zn_lxor n : forall a b, zn n (N.lxor a b) = N.lxor (zn n a) (zn n b).
Proof. induction n as [|n IH]; intros a b; [reflexivity|]. cbn [zn]. rewrite zstep_lxor. apply IH. Qed.

Lemma zn_add a : forall b s, zn (a + b) s = zn b (zn a s).
Proof. induction a as [|a IH]; intros b s; [reflexivity|]. cbn [Nat.add zn]. apply IH. Qed.

(* a value shifted left by n bits comes back unchanged after n steps: no one falls out *)
Lemma zstep_shiftl y k : zstep (N.shiftl y (N.succ k)) = N.shiftl y k.
Proof.
  unfold zstep.
  assert (O : N.odd (N.shiftl y (N.succ k)) = false).
  { rewrite <- N.bit0_odd. apply N.shiftl_spec_low. lia. }
  rewrite O, N.shiftr_shiftl_l by lia. f_equal. lia.
Qed.

Lemma zn_shiftl n y : zn n (N.shiftl y (N.of_nat n)) = y.
Proof.
  induction n as [|n IH]; [apply N.shiftl_0_r|].
  cbn [zn]. rewrite Nat2N.inj_succ, zstep_shiftl. exact IH.
Qed.

(* xoring a later byte into the register = xoring it, shifted, into the input *)
Lemma zn_absorb n x b : N.lxor (zn n x) b = zn n (N.lxor x (N.shiftl b (N.of_nat n))).
Proof. rewrite zn_lxor, zn_shiftl. reflexivity. Qed.

(* ------------------------------------------------------------------------------------------------ *)
(** * Bit plumbing *)

Lemma split8 x : x = N.lxor (N.land x 255) (N.shiftl (N.shiftr x 8) 8).
Proof.
  apply N.bits_inj. intros p. rewrite N.lxor_spec, N.land_spec. change 255 with (N.ones 8).
  destruct (N.ltb_spec p 8) as [H|H].
  - rewrite N.ones_spec_low, N.shiftl_spec_low by exact H. rewrite andb_true_r, xorb_false_r. reflexivity.
  - rewrite N.ones_spec_high, N.shiftl_spec_high' by exact H. rewrite N.shiftr_spec', andb_false_r.
    replace (p - 8 + 8) with p by lia. destruct (N.testbit x p); reflexivity.
Qed.

Lemma land255_lt x : N.land x 255 < 256.
Proof. change 255 with (N.ones 8). rewrite N.land_ones. apply N.mod_lt. discriminate. Qed.

Lemma shiftr8_byte c : c < 256 -> N.shiftr c 8 = 0.
Proof. intros H. rewrite N.shiftr_div_pow2. apply N.div_small. exact H. Qed.

Lemma bits_above a s p : a < 2^s -> s <= p -> N.testbit a p = false.
Proof. intros Ha Hp. rewrite <- (N.mod_small a (2^s) Ha). apply N.mod_pow2_bits_high. exact Hp. Qed.

Lemma land_shiftl_0 a x s : a < 2^s -> N.land a (N.shiftl x s) = 0.
Proof.
  intros Ha. apply N.bits_inj_0. intros p. rewrite N.land_spec.
  destruct (N.ltb_spec p s) as [Hp|Hp].
  - rewrite N.shiftl_spec_low by exact Hp. apply andb_false_r.
  - rewrite (bits_above a s p Ha Hp). reflexivity.
Qed.

Lemma lor_shiftl_lxor a x s : a < 2^s -> N.lor a (N.shiftl x s) = N.lxor a (N.shiftl x s).
Proof. intros Ha. symmetry. apply N.lxor_lor, land_shiftl_0, Ha. Qed.

Lemma lor_shiftl_add a x s : a < 2^s -> N.lor a (N.shiftl x s) = a + x * 2^s.
Proof.
  intros Ha. rewrite (lor_shiftl_lxor a x s Ha), <- N.shiftl_mul_pow2. symmetry.
  apply N.add_nocarry_lxor, land_shiftl_0, Ha.
Qed.

Lemma le32_add b0 b1 b2 b3 : b0 < 256 -> b1 < 256 -> b2 < 256 ->
  le32 b0 b1 b2 b3 = b0 + b1 * 2^8 + b2 * 2^16 + b3 * 2^24.
Proof.
  intros H0 H1 H2. unfold le32.
  rewrite (lor_shiftl_add b0 b1 8) by exact H0.
  rewrite (lor_shiftl_add _ b2 16) by (change (2^8) with 256; change (2^16) with 65536; lia).
  rewrite (lor_shiftl_add _ b3 24) by (change (2^8) with 256; change (2^16) with 65536; change (2^24) with 16777216; lia).
  reflexivity.
Qed.

Lemma le32_lxor b0 b1 b2 b3 : b0 < 256 -> b1 < 256 -> b2 < 256 ->
  le32 b0 b1 b2 b3 = N.lxor (N.lxor (N.lxor b0 (N.shiftl b1 8)) (N.shiftl b2 16)) (N.shiftl b3 24).
Proof.
  intros H0 H1 H2. unfold le32.
  assert (A : N.lor b0 (N.shiftl b1 8) < 2^16).
  { rewrite (lor_shiftl_add b0 b1 8) by exact H0. change (2^8) with 256; change (2^16) with 65536; lia. }
  assert (B : N.lor (N.lor b0 (N.shiftl b1 8)) (N.shiftl b2 16) < 2^24).
  { rewrite (lor_shiftl_add _ b2 16) by exact A. rewrite (lor_shiftl_add b0 b1 8) by exact H0.
    change (2^8) with 256; change (2^16) with 65536; change (2^24) with 16777216; lia. }
  rewrite (lor_shiftl_lxor _ b3 24) by exact B.
  rewrite (lor_shiftl_lxor _ b2 16) by exact A.
  rewrite (lor_shiftl_lxor b0 b1 8) by exact H0. reflexivity.
Qed.

Lemma le32_lt b0 b1 b2 b3 : b0 < 256 -> b1 < 256 -> b2 < 256 -> b3 < 256 -> le32 b0 b1 b2 b3 < 2^32.
Proof.
  intros H0 H1 H2 H3. rewrite le32_add by assumption.
  change (2^8) with 256; change (2^16) with 65536; change (2^24) with 16777216; change (2^32) with 4294967296. lia.
Qed.

Lemma lxor_lt32 a b : a < 2^32 -> b < 2^32 -> N.lxor a b < 2^32.
Proof.
  intros Ha Hb.
  destruct (N.eq_dec (N.lxor a b) 0) as [->|Hn]; [lia|].
  apply N.log2_lt_pow2; [lia|].
  apply N.le_lt_trans with (N.max (N.log2 a) (N.log2 b)); [apply N.log2_lxor|].
  destruct (N.eq_dec a 0) as [->|Ha0]; destruct (N.eq_dec b 0) as [->|Hb0]; cbn [N.log2]; try lia.
  - rewrite N.lxor_0_l in Hn. apply N.max_lub_lt; [lia|]. apply N.log2_lt_pow2; lia.
  - apply N.max_lub_lt; [apply N.log2_lt_pow2; lia|lia].
  - apply N.max_lub_lt; apply N.log2_lt_pow2; lia.
Qed.

(* a 32-bit word is the xor of its four bytes in place *)
Lemma split32 w :
  w = N.lxor (N.lxor (N.lxor (N.land w 255) (N.shiftl (N.land (N.shiftr w 8) 255) 8))
                     (N.shiftl (N.land (N.shiftr w 16) 255) 16))
             (N.shiftl (N.shiftr w 24) 24).
Proof.
  rewrite (split8 w) at 1.
  rewrite (split8 (N.shiftr w 8)) at 1. rewrite N.shiftr_shiftr. change (8 + 8) with 16.
  rewrite (split8 (N.shiftr w 16)) at 1. rewrite N.shiftr_shiftr. change (16 + 8) with 24.
  rewrite !N.shiftl_lxor, !N.shiftl_shiftl. change (8 + 8) with 16. change (16 + 8) with 24.
  rewrite !N.lxor_assoc. reflexivity.
Qed.

(* ------------------------------------------------------------------------------------------------ *)
(** * Table-driven byte step = definition *)

Lemma tbl_byte_eq s c : c < 256 -> tbl_byte s c = crc_byte s c.
Proof.
  intros Hc. unfold tbl_byte, crc_byte.
  rewrite tab0 by apply land255_lt.
  rewrite (split8 (N.lxor s c)) at 2. rewrite zn_lxor. f_equal.
  change 8 with (N.of_nat 8) at 3. rewrite zn_shiftl.
  rewrite N.shiftr_lxor, (shiftr8_byte c Hc), N.lxor_0_r. reflexivity.
Qed.

Theorem crc_table_eq : forall l init, bytes l -> crc_table init l = crc_bytes init l.
Proof.
  unfold crc_table, crc_bytes. induction l as [|c l IH]; intros init Hl; [reflexivity|].
  inversion Hl; subst. cbn [fold_left]. rewrite tbl_byte_eq by assumption. apply IH. assumption.
Qed.

(* ------------------------------------------------------------------------------------------------ *)
(** * Slicing by 4 = definition *)

(* four byte steps of the definition are 32 shifts of (register xor little-endian word) *)
Lemma crc_bytes4 s b0 b1 b2 b3 : b0 < 256 -> b1 < 256 -> b2 < 256 ->
  crc_bytes s [b0; b1; b2; b3] = zn 32 (N.lxor s (le32 b0 b1 b2 b3)).
Proof.
  intros H0 H1 H2. unfold crc_bytes, crc_byte. cbn [fold_left].
  rewrite (zn_absorb 8 _ b1). rewrite <- (zn_add 8 8).
  rewrite (zn_absorb (8 + 8) _ b2). rewrite <- (zn_add (8 + 8) 8).
  rewrite (zn_absorb (8 + 8 + 8) _ b3). rewrite <- (zn_add (8 + 8 + 8) 8).
  change (8 + 8 + 8 + 8)%nat with 32%nat.
  change (N.of_nat 8) with 8. change (N.of_nat (8 + 8)) with 16. change (N.of_nat (8 + 8 + 8)) with 24.
  rewrite le32_lxor by assumption. rewrite !N.lxor_assoc. reflexivity.
Qed.

Lemma zn32_bytes w : w < 2^32 ->
  zn 32 w = N.lxor (N.lxor (N.lxor (tab crc32c_3 (N.land w 255)) (tab crc32c_2 (N.land (N.shiftr w 8) 255)))
                           (tab crc32c_1 (N.land (N.shiftr w 16) 255)))
                   (tab crc32c_0 (N.shiftr w 24)).
Proof.
  intros Hw.
  assert (H3 : N.shiftr w 24 < 256).
  { rewrite N.shiftr_div_pow2. change (2^24) with 16777216. change (2^32) with 4294967296 in Hw. lia. }
  rewrite tab3, tab2, tab1, tab0 by (try apply land255_lt; exact H3).
  rewrite (split32 w) at 1. rewrite !zn_lxor. f_equal; [f_equal; [f_equal|]|].
  - change 32%nat with (8 + 24)%nat. rewrite zn_add. change 8 with (N.of_nat 8) at 1. rewrite zn_shiftl. reflexivity.
  - change 32%nat with (16 + 16)%nat. rewrite zn_add. change 16 with (N.of_nat 16) at 1. rewrite zn_shiftl. reflexivity.
  - change 32%nat with (24 + 8)%nat. rewrite zn_add. change 24 with (N.of_nat 24) at 2. rewrite zn_shiftl. reflexivity.
Qed.

Lemma zstep_lt32 s : s < 2^32 -> zstep s < 2^32.
Proof.
  intros Hs. unfold zstep.
  assert (N.shiftr s 1 < 2^32).
  { rewrite N.shiftr_div_pow2. change (2^1) with 2. change (2^32) with 4294967296 in *. lia. }
  destruct (N.odd s); [|assumption]. apply lxor_lt32; [assumption|unfold POLY; change (2^32) with 4294967296; lia].
Qed.

Lemma zn_lt32 n : forall s, s < 2^32 -> zn n s < 2^32.
Proof. induction n as [|n IH]; intros s Hs; [exact Hs|]. cbn [zn]. apply IH, zstep_lt32, Hs. Qed.

Lemma byte_lt32 c : c < 256 -> c < 2^32.
Proof. change (2^32) with 4294967296. lia. Qed.

Lemma crc_byte_lt32 s c : s < 2^32 -> c < 256 -> crc_byte s c < 2^32.
Proof. intros Hs Hc. unfold crc_byte. apply zn_lt32, lxor_lt32; [exact Hs|apply byte_lt32, Hc]. Qed.

Lemma crc_bytes_lt32 l : forall s, s < 2^32 -> bytes l -> crc_bytes s l < 2^32.
Proof.
  unfold crc_bytes. induction l as [|c l IH]; intros s Hs Hl; [exact Hs|].
  inversion Hl; subst. cbn [fold_left]. apply IH; [apply crc_byte_lt32|]; assumption.
Qed.

Lemma slice4_step_eq s b0 b1 b2 b3 : s < 2^32 -> b0 < 256 -> b1 < 256 -> b2 < 256 -> b3 < 256 ->
  slice4_step s b0 b1 b2 b3 = crc_bytes s [b0; b1; b2; b3].
Proof.
  intros Hs H0 H1 H2 H3. rewrite crc_bytes4 by assumption. unfold slice4_step. cbv zeta.
  symmetry. apply zn32_bytes. apply lxor_lt32; [exact Hs|apply le32_lt; assumption].
Qed.

Lemma crc_bytes_app s l1 l2 : crc_bytes s (l1 ++ l2) = crc_bytes (crc_bytes s l1) l2.
Proof. unfold crc_bytes. apply fold_left_app. Qed.

Theorem crc_slice4_eq : forall l init, init < 2^32 -> bytes l -> crc32c_gen_plain init l = crc_bytes init l.
Proof.
  (* strong induction on the length: the loop eats 4 bytes at a time *)
  assert (G : forall n l init, (length l <= n)%nat -> init < 2^32 -> bytes l -> crc32c_gen_plain init l = crc_bytes init l).
  { induction n as [|n IH]; intros l init Hn Hi Hl.
    - destruct l; [reflexivity|cbn in Hn; lia].
    - destruct l as [|b0 [|b1 [|b2 [|b3 t]]]]; try (apply crc_table_eq; exact Hl).
      cbn [crc32c_gen_plain].
      inversion Hl as [|? ? H0 Hl1]; subst. inversion Hl1 as [|? ? H1 Hl2]; subst.
      inversion Hl2 as [|? ? H2 Hl3]; subst. inversion Hl3 as [|? ? H3 Hl4]; subst.
      rewrite slice4_step_eq by assumption.
      change (b0 :: b1 :: b2 :: b3 :: t) with ([b0; b1; b2; b3] ++ t). rewrite crc_bytes_app.
      apply IH; [cbn [length] in Hn; lia| |exact Hl4].
      apply crc_bytes_lt32; [exact Hi|repeat constructor; assumption]. }
  intros l init. apply (G (length l)). lia.
Qed.

(* ------------------------------------------------------------------------------------------------ *)
(** * The hardware shape = definition (given the assumed instruction semantics) *)

Lemma fold_hw_crc32b l s : fold_left hw_crc32b l s = crc_bytes s l.
Proof. reflexivity. Qed.

Theorem crc_hw8_eq : forall l init, init < 2^32 -> bytes l -> crc32c_x86_plain init l = crc_bytes init l.
Proof.
  assert (G : forall n l init, (length l <= n)%nat -> init < 2^32 -> bytes l -> crc32c_x86_plain init l = crc_bytes init l).
  { induction n as [|n IH]; intros l init Hn Hi Hl.
    - destruct l; [|cbn in Hn; lia]. unfold crc32c_x86_plain. cbn [crc32c_x86_loop8 fold_left].
      rewrite N.mod_small by exact Hi. reflexivity.
    - destruct l as [|b0 [|b1 [|b2 [|b3 [|b4 [|b5 [|b6 [|b7 t]]]]]]]];
        try (unfold crc32c_x86_plain; cbn [crc32c_x86_loop8]; rewrite N.mod_small by exact Hi; apply fold_hw_crc32b).
      unfold crc32c_x86_plain. cbn [crc32c_x86_loop8]. fold (crc32c_x86_plain (hw_crc32q init b0 b1 b2 b3 b4 b5 b6 b7) t).
      unfold hw_crc32q. rewrite N.mod_small by exact Hi.
      change (b0 :: b1 :: b2 :: b3 :: b4 :: b5 :: b6 :: b7 :: t) with ([b0; b1; b2; b3; b4; b5; b6; b7] ++ t).
      rewrite crc_bytes_app.
      assert (Hs : bytes [b0; b1; b2; b3; b4; b5; b6; b7] /\ bytes t).
      { change (b0 :: b1 :: b2 :: b3 :: b4 :: b5 :: b6 :: b7 :: t) with ([b0; b1; b2; b3; b4; b5; b6; b7] ++ t) in Hl.
        apply Forall_app in Hl. exact Hl. }
      apply IH; [cbn [length] in Hn; lia| |apply Hs].
      apply crc_bytes_lt32; [exact Hi|apply Hs]. }
  intros l init. apply (G (length l)). lia.
Qed.

(* ------------------------------------------------------------------------------------------------ *)
(** * The tool's conventions *)

Lemma iv_lt32 : CRC_IV < 2^32. Proof. reflexivity. Qed.

Theorem crc32c_gen_eq l crc : crc < 2^32 -> bytes l -> crc32c_gen crc l = crc32c_spec crc l.
Proof. intros Hc Hl. unfold crc32c_gen, crc32c_spec. rewrite crc_slice4_eq; [reflexivity|apply lxor_lt32; [exact Hc|exact iv_lt32]|exact Hl]. Qed.

Theorem crc32c_x86_eq l crc : crc < 2^32 -> bytes l -> crc32c_x86 crc l = crc32c_spec crc l.
Proof. intros Hc Hl. unfold crc32c_x86, crc32c_spec. rewrite crc_hw8_eq; [reflexivity|apply lxor_lt32; [exact Hc|exact iv_lt32]|exact Hl]. Qed.

Lemma lxor_iv_iv x : N.lxor (N.lxor x CRC_IV) CRC_IV = x.
Proof. rewrite N.lxor_assoc, N.lxor_nilpotent. apply N.lxor_0_r. Qed.

(* feeding a buffer in pieces (sfill / sflush) gives the CRC of the whole *)
Theorem crc32c_spec_app crc l1 l2 : crc32c_spec (crc32c_spec crc l1) l2 = crc32c_spec crc (l1 ++ l2).
Proof. unfold crc32c_spec. rewrite lxor_iv_iv, crc_bytes_app. reflexivity. Qed.

Theorem stream_crc_chunks_eq chunks : stream_crc_chunks chunks = crc32c_spec 0 (concat chunks).
Proof.
  unfold stream_crc_chunks.
  assert (G : forall cs c, fold_left crc32c_spec cs c = crc32c_spec c (concat cs)).
  { induction cs as [|x cs IH]; intros c.
    - unfold crc32c_spec. cbn [concat fold_left crc_bytes]. symmetry. apply lxor_iv_iv.
    - cbn [fold_left concat]. rewrite IH. apply crc32c_spec_app. }
  apply G.
Qed.

(* the write-side shadow CRC (crc_stream / scrc_stream) is the same function of the bytes written *)
Theorem stream_crc_stream_eq writes : stream_crc_stream writes = crc32c_spec 0 (concat writes).
Proof.
  unfold stream_crc_stream, crc32c_spec. rewrite N.lxor_0_l. f_equal.
  generalize CRC_IV. induction writes as [|x ws IH]; intros c; [reflexivity|].
  cbn [fold_left concat]. rewrite IH, crc_bytes_app. reflexivity.
Qed.

(* ------------------------------------------------------------------------------------------------ *)
(** * Bursts: any change confined to 4 consecutive bytes changes the CRC *)

Lemma zstep_nonzero s : s < 2^32 -> s <> 0 -> zstep s <> 0.
Proof.
  intros Hs Hn Hz. unfold zstep in Hz. change (2^32) with 4294967296 in Hs.
  destruct (N.odd s) eqn:Ho.
  - apply N.lxor_eq in Hz.
    assert (N.shiftr s 1 < 2147483648) by (rewrite N.shiftr_div_pow2; change (2^1) with 2; lia).
    unfold POLY in Hz. lia.
  - rewrite N.shiftr_div_pow2 in Hz. change (2^1) with 2 in Hz.
    assert (s mod 2 = 0) by (rewrite <- N.bit0_mod, N.bit0_odd, Ho; reflexivity).
    lia.
Qed.

Lemma zn_nonzero n : forall s, s < 2^32 -> s <> 0 -> zn n s <> 0.
Proof.
  induction n as [|n IH]; intros s Hs Hn; [exact Hn|]. cbn [zn].
  apply IH; [apply zstep_lt32, Hs|apply zstep_nonzero; assumption].
Qed.

Lemma zn_inj n a b : a < 2^32 -> b < 2^32 -> zn n a = zn n b -> a = b.
Proof.
  intros Ha Hb E. apply N.lxor_eq.
  destruct (N.eq_dec (N.lxor a b) 0) as [Z|NZ]; [exact Z|exfalso].
  apply (zn_nonzero n (N.lxor a b) (lxor_lt32 a b Ha Hb) NZ).
  rewrite zn_lxor, E. apply N.lxor_nilpotent.
Qed.

Lemma lxor_cancel_l s a b : N.lxor s a = N.lxor s b -> a = b.
Proof.
  intros E.
  assert (K : forall x, N.lxor s (N.lxor s x) = x).
  { intros x. rewrite <- N.lxor_assoc, N.lxor_nilpotent. apply N.lxor_0_l. }
  rewrite <- (K a), E. apply K.
Qed.

Lemma crc_byte_inj s s' c : s < 2^32 -> s' < 2^32 -> c < 256 -> crc_byte s c = crc_byte s' c -> s = s'.
Proof.
  intros Hs Hs' Hc E. unfold crc_byte in E.
  apply zn_inj in E; [|apply lxor_lt32; [assumption|apply byte_lt32, Hc]..].
  rewrite (N.lxor_comm s c), (N.lxor_comm s' c) in E. exact (lxor_cancel_l c s s' E).
Qed.

Lemma crc_bytes_inj l : forall s s', s < 2^32 -> s' < 2^32 -> bytes l -> crc_bytes s l = crc_bytes s' l -> s = s'.
Proof.
  unfold crc_bytes. induction l as [|c l IH]; intros s s' Hs Hs' Hl E; [exact E|].
  inversion Hl; subst. cbn [fold_left] in E.
  apply IH in E; [|apply crc_byte_lt32; assumption..|assumption].
  exact (crc_byte_inj s s' c Hs Hs' ltac:(assumption) E).
Qed.

Lemma le32_inj a0 a1 a2 a3 b0 b1 b2 b3 :
  a0 < 256 -> a1 < 256 -> a2 < 256 -> a3 < 256 -> b0 < 256 -> b1 < 256 -> b2 < 256 -> b3 < 256 ->
  le32 a0 a1 a2 a3 = le32 b0 b1 b2 b3 -> [a0; a1; a2; a3] = [b0; b1; b2; b3].
Proof.
  intros. rewrite !le32_add in * by assumption.
  change (2^8) with 256 in *; change (2^16) with 65536 in *; change (2^24) with 16777216 in *.
  assert (a0 = b0 /\ a1 = b1 /\ a2 = b2 /\ a3 = b3) as (-> & -> & -> & ->) by lia. reflexivity.
Qed.

Theorem crc_burst32 s pre a a' post :
  s < 2^32 -> bytes pre -> bytes a -> bytes a' -> bytes post ->
  length a = 4%nat -> length a' = 4%nat -> a <> a' ->
  crc_bytes s (pre ++ a ++ post) <> crc_bytes s (pre ++ a' ++ post).
Proof.
  intros Hs Hpre Ha Ha' Hpost La La' Hne E.
  rewrite !crc_bytes_app in E.
  set (s1 := crc_bytes s pre) in *.
  assert (H1 : s1 < 2^32) by (apply crc_bytes_lt32; assumption).
  apply crc_bytes_inj in E; [|apply crc_bytes_lt32; assumption..|assumption].
  destruct a as [|a0 [|a1 [|a2 [|a3 [|? ?]]]]]; try discriminate La.
  destruct a' as [|b0 [|b1 [|b2 [|b3 [|? ?]]]]]; try discriminate La'.
  inversion Ha as [|? ? A0 Ha1]; subst. inversion Ha1 as [|? ? A1 Ha2]; subst.
  inversion Ha2 as [|? ? A2 Ha3]; subst. inversion Ha3 as [|? ? A3 _]; subst.
  inversion Ha' as [|? ? B0 Hb1]; subst. inversion Hb1 as [|? ? B1 Hb2]; subst.
  inversion Hb2 as [|? ? B2 Hb3]; subst. inversion Hb3 as [|? ? B3 _]; subst.
  rewrite !crc_bytes4 in E by assumption.
  apply zn_inj in E; [|apply lxor_lt32; [exact H1|apply le32_lt; assumption]..].
  apply lxor_cancel_l in E. apply Hne. apply le32_inj; assumption.
Qed.

(* the same through the tool's entry points: crc32c_gen / crc32c_x86 on whole buffers *)
Corollary crc32c_gen_burst32 crc pre a a' post :
  crc < 2^32 -> bytes pre -> bytes a -> bytes a' -> bytes post ->
  length a = 4%nat -> length a' = 4%nat -> a <> a' ->
  crc32c_gen crc (pre ++ a ++ post) <> crc32c_gen crc (pre ++ a' ++ post).
Proof.
  intros Hc Hpre Ha Ha' Hpost La La' Hne E.
  rewrite !crc32c_gen_eq in E; try exact Hc; try (repeat (apply Forall_app; split); assumption).
  unfold crc32c_spec in E.
  assert (E' : forall x y, N.lxor x CRC_IV = N.lxor y CRC_IV -> x = y).
  { intros x y K. rewrite (N.lxor_comm x), (N.lxor_comm y) in K. exact (lxor_cancel_l _ _ _ K). }
  apply E' in E. revert E. apply crc_burst32; try assumption. apply lxor_lt32; [exact Hc|exact iv_lt32].
Qed.

(* non-vacuity / known answer: CRC-32C("123456789") = 0xE3069283 through every route *)
Example crc_check_value :
  let m := [49; 50; 51; 52; 53; 54; 55; 56; 57] in
  crc32c_spec 0 m = 3808858755 /\ crc32c_gen 0 m = 3808858755 /\ crc32c_x86 0 m = 3808858755 /\ bytes m.
Proof. cbv zeta. repeat split; try (vm_compute; reflexivity). repeat constructor. Qed.
