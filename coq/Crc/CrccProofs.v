(* The CRC-32C code TRANSLATED from cmdline/util.h / util.c on every run (Gen.CrcProgs, emitted by harness/gen/crcc.py)
   equals the models of Crc.CrcModel that the C09 / C10 / C16 theorems use, for every start value and byte list. *)
From Coq Require Import NArith List Bool Lia ZArith.
From Snap.Gen Require Import CrcTables CrcProgs.
From Snap.Hash Require Import Words.
From Snap.Crc Require Import CrcModel CrcProofs.
Import ListNotations.
Local Open Scope N_scope.

Lemma w32_shl_byte b k : b < 256 -> k <= 24 -> w32 (N.shiftl b k) = N.shiftl b k.
Proof.
  intros Hb Hk. rewrite w32_mod. apply N.mod_small. rewrite N.shiftl_mul_pow2.
  apply N.lt_le_trans with (256 * 2^k); [apply N.mul_lt_mono_pos_r; [apply N.neq_0_lt_0, N.pow_nonzero; lia|exact Hb]|].
  change 256 with (2^8). rewrite <- N.pow_add_r. apply N.pow_le_mono_r; lia.
Qed.

Lemma t_CRC_IV_eq : t_CRC_IV = CRC_IV.
Proof. reflexivity. Qed.

Lemma t_plain_char_eq crc c : t_plain_char crc c = tbl_byte crc c.
Proof. reflexivity. Qed.

Lemma t_byte_step_eq crc c : t_byte_step crc c = tbl_byte crc c.
Proof. reflexivity. Qed.

Lemma t_slice4_step_eq crc p0 p1 p2 p3 : p1 < 256 -> p2 < 256 -> p3 < 256 ->
  t_slice4_step crc p0 p1 p2 p3 = slice4_step crc p0 p1 p2 p3.
Proof.
  intros H1 H2 H3. unfold t_slice4_step, slice4_step, le32, tab.
  rewrite !w32_shl_byte by (first [assumption | lia]). reflexivity.
Qed.

Lemma t_byte_loop_eq l : forall crc, fold_left t_byte_step l crc = crc_table crc l.
Proof.
  unfold crc_table. induction l as [|c l IH]; intros crc; [reflexivity|].
  cbn [fold_left]. rewrite t_byte_step_eq. apply IH.
Qed.

Theorem t_crc32c_gen_plain_eq : forall l crc, bytes l -> t_crc32c_gen_plain crc l = crc32c_gen_plain crc l.
Proof.
  assert (G : forall n l crc, (length l <= n)%nat -> bytes l -> t_crc32c_gen_plain crc l = crc32c_gen_plain crc l).
  { induction n as [|n IH]; intros l crc Hn Hl.
    - destruct l; [reflexivity|cbn in Hn; lia].
    - destruct l as [|b0 [|b1 [|b2 [|b3 t]]]]; try (cbn [t_crc32c_gen_plain crc32c_gen_plain]; apply t_byte_loop_eq).
      cbn [t_crc32c_gen_plain crc32c_gen_plain].
      inversion Hl as [|? ? H0 Hl1]; subst. inversion Hl1 as [|? ? H1 Hl2]; subst.
      inversion Hl2 as [|? ? H2 Hl3]; subst. inversion Hl3 as [|? ? H3 Hl4]; subst.
      rewrite t_slice4_step_eq by assumption. apply IH; [cbn [length] in Hn; lia|exact Hl4]. }
  intros l crc. apply (G (length l)). lia.
Qed.

Theorem t_crc32c_gen_eq l crc : bytes l -> t_crc32c_gen crc l = crc32c_gen crc l.
Proof. intros H. unfold t_crc32c_gen, crc32c_gen. cbv zeta. rewrite t_crc32c_gen_plain_eq by exact H. reflexivity. Qed.

(* hence the translated entry point computes the CRC-32C of the definition (bit-serial, with the IV conventions) *)
Theorem t_crc32c_gen_spec l crc : crc < 2^32 -> bytes l -> t_crc32c_gen crc l = crc32c_spec crc l.
Proof. intros Hc H. rewrite t_crc32c_gen_eq by exact H. apply crc32c_gen_eq; assumption. Qed.

(* the two loops are the same fixpoint over the assumed crc32q step *)
Lemma t_x86_loop8_eq : forall l crc, t_x86_loop8 crc l = crc32c_x86_loop8 crc l.
Proof. intros l crc. reflexivity. Qed.

Theorem t_crc32c_x86_plain_eq l crc : t_crc32c_x86_plain crc l = crc32c_x86_plain crc l.
Proof.
  unfold t_crc32c_x86_plain, crc32c_x86_plain. cbv zeta. rewrite t_x86_loop8_eq.
  destruct (crc32c_x86_loop8 crc l) as [c64 tail]. rewrite w32_mod. reflexivity.
Qed.

Theorem t_crc32c_x86_eq l crc : t_crc32c_x86 crc l = crc32c_x86 crc l.
Proof. unfold t_crc32c_x86, crc32c_x86. cbv zeta. rewrite t_crc32c_x86_plain_eq. reflexivity. Qed.

Theorem t_crc32c_x86_spec l crc : crc < 2^32 -> bytes l -> t_crc32c_x86 crc l = crc32c_spec crc l.
Proof. intros Hc H. rewrite t_crc32c_x86_eq. apply crc32c_x86_eq; assumption. Qed.
