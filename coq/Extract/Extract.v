(* Extraction of the executable models.  ExtrOcamlBasic only (bool, option, unit, list, prod, sumbool,
   comparison mapped to OCaml's); N / positive / nat / Z stay the inductive types.  No Extract Constant. *)
Require Import ExtrOcamlBasic.
From Coq Require Import NArith List.
From Snap.GF Require Import Gf.
From Snap.Raid Require Import GenModel.
Extraction Language OCaml.
Set Extraction Optimize.
Extraction "../ocaml/snapext.ml"
  GenModel.gen_blocks GenModel.spec_blocks GenModel.gen_mat GenModel.gen_np Gf.gmul.
