(* Extraction of the executable models.  ExtrOcamlBasic only (bool, option, unit, list, prod, sumbool,
   comparison mapped to OCaml's); N / positive / nat / Z stay the inductive types.  No Extract Constant. *)
Require Import ExtrOcamlBasic.
From Coq Require Import NArith List.
From Snap.GF Require Import Gf.
From Snap.Raid Require Import GenModel RecModel.
Extraction Language OCaml.
Set Extraction Optimize.
Extraction "../ocaml/snapext.ml"
  GenModel.gen_blocks GenModel.spec_blocks GenModel.gen_mat GenModel.gen_np Gf.gmul
  RecModel.raid_rec_blocks RecModel.raid_data_blocks RecModel.raid_check_blocks RecModel.raid_scan_blocks
  RecModel.invertN RecModel.mx_of_list RecModel.list_of_mx RecModel.raid_sort_model RecModel.raid_insert_model
  RecModel.comb_all RecModel.comb_first RecModel.binom.
