(* Extraction of the check / fix / scrub-detection model used by the command-level correspondence of C01, C04, C05. *)
Require Import ExtrOcamlBasic.
From Coq Require Import NArith ZArith List.
From Snap.Array Require Import ArrayDefs.
From Snap.Fix Require Import FixModel ScrubStep.
Extraction Language OCaml.
Set Extraction Optimize.
Extraction "../ocaml/C01/c01_ext.ml" ArrayDefs.slot_at FixModel.check_run FixModel.filter_files FixModel.filter_parity
  FixModel.repair FixModel.combos ScrubStep.scrub_run ScrubStep.scrub_fails.
