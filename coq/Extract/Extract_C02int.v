(* Extraction of the interpreter of the portable generators, of the checker (for per-function diagnostics) and of
   the generated programs (ExtrOcamlBasic only). *)
Require Import ExtrOcamlBasic.
From Coq Require Import NArith List String.
From Snap.IntC Require Import IntDefs IntSem IntCheck.
From Snap.Gen Require Import IntProgs.
Extraction Language OCaml.
Set Extraction Optimize.
Extraction "../ocaml/C02int/c02int_ext.ml" IntSem.exec_prog IntCheck.checker_opt IntCheck.analyse IntCheck.rows_of_gen
  IntCheck.helper_coef IntProgs.all_int_progs IntProgs.int_untranslated.
