(* Extraction of the SIMD interpreter, of the checker (for per-function diagnostics) and of the generated
   programs (ExtrOcamlBasic only). *)
Require Import ExtrOcamlBasic.
From Coq Require Import NArith List String.
From Snap.Simd Require Import SimdDefs SimdSem SimdCheck.
From Snap.Gen Require Import X86Progs.
Extraction Language OCaml.
Set Extraction Optimize.
Extraction "../ocaml/C02simd/c02simd_ext.ml" SimdSem.exec_prog SimdCheck.checker_opt SimdCheck.analyse SimdCheck.rows_of_gen
  X86Progs.all_gen_progs X86Progs.untranslated_decoders.
