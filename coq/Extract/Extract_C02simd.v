(* Extraction of the SIMD interpreter and of the generated programs (ExtrOcamlBasic only). *)
Require Import ExtrOcamlBasic.
From Coq Require Import NArith List String.
From Snap.Simd Require Import SimdDefs SimdSem.
From Snap.Gen Require Import X86Progs.
Extraction Language OCaml.
Set Extraction Optimize.
Extraction "../ocaml/C02simd/c02simd_ext.ml" SimdSem.exec_prog X86Progs.all_gen_progs.
