(* Extraction of the byte-loop interpreter of the portable decoders, the composed raid_rec / raid_data models and the
   generated decoder programs (ExtrOcamlBasic only). *)
Require Import ExtrOcamlBasic.
From Coq Require Import NArith List String.
From Snap.Raid Require Import GenModel.
From Snap.IntC Require Import IntRecDefs IntRecSem IntRecCheck IntRecModel.
From Snap.Gen Require Import IntRecProgs.
Extraction Language OCaml.
Set Extraction Optimize.
Extraction "../ocaml/C03int/c03int_ext.ml" IntRecModel.int_raid_rec_blocks IntRecModel.int_raid_data_blocks
  IntRecCheck.ichecker_opt IntRecCheck.icheck_n IntRecCheck.analyse IntRecCheck.expected IntRecSem.loop_n
  IntRecProgs.all_int_rec_progs IntRecProgs.int_rec_untranslated IntRecProgs.recognised_raid_rec1of1 IntRecProgs.recognised_raid_delta_gen.
