(* Extraction of the decoder-loop interpreter, the composed raid_rec model and the generated decoder programs. *)
Require Import ExtrOcamlBasic.
From Coq Require Import NArith List String.
From Snap.Raid Require Import GenModel.
From Snap.Simd Require Import SimdDefs SimdSem RecDefs RecSem RecCheck RecSimdModel.
From Snap.Gen Require Import X86RecProgs.
Extraction Language OCaml.
Set Extraction Optimize.
Extraction "../ocaml/C03simd/c03simd_ext.ml" RecSimdModel.simd_raid_rec_blocks RecCheck.rchecker_opt RecCheck.rcheck_n RecCheck.ranalyse
  X86RecProgs.all_rec_progs.
