(* Extraction of the array model used by the command-level correspondence of C06 (and reused by C05/C07/C08). *)
Require Import ExtrOcamlBasic.
From Coq Require Import NArith ZArith List.
From Snap.Array Require Import ArrayDefs SyncModel.
Extraction Language OCaml.
Set Extraction Optimize.
Extraction "../ocaml/C06/c06_ext.ml" ArrayDefs.slot_at SyncModel.sync_loop SyncModel.sync_stripe SyncModel.stripe_enabled SyncModel.save_normalise SyncModel.clear_past.
