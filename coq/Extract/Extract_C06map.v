(* Extraction of the disk -> position mapping model (Array/MapModel.v) for the correspondence of check_C06.py:
   after every command that follows a configuration change the 'M' records of the content file are compared with `remap`. *)
Require Import ExtrOcamlBasic.
From Coq Require Import NArith List.
From Snap.Array Require Import MapModel.
Extraction Language OCaml.
Set Extraction Optimize.
Extraction "../ocaml/C06map/c06map_ext.ml" MapModel.remap.
