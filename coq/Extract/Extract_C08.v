(* Extraction of the fault model of C08 (and of the effect trace of C07, request `trace`): the sync loop with writer outcomes (FaultModel.sync_loop_w) and one scrub stripe. *)
Require Import ExtrOcamlBasic.
From Coq Require Import NArith ZArith List.
From Snap.Array Require Import ArrayDefs SyncModel.
From Snap.Fault Require Import FaultModel.
Extraction Language OCaml.
Set Extraction Optimize.
Extraction "../ocaml/C08/c08_ext.ml" ArrayDefs.slot_at SyncModel.sync_loop SyncModel.save_normalise SyncModel.clear_past
  FaultModel.sync_loop_w FaultModel.recorded_healthy FaultModel.scrub_stripe FaultModel.sync_trace FaultModel.classify_pwrite FaultModel.hash_phase FaultModel.hash_failing.
