(* Extraction of the save model (C09): the list of file-system calls of one state_write.
   ExtrOcamlBasic only; N / positive / nat stay inductive. *)
Require Import ExtrOcamlBasic.
From Coq Require Import NArith List.
From Snap.Content Require Import SaveModel.
Extraction Language OCaml.
Set Extraction Optimize.
Extraction "../ocaml/C09/c09_ext.ml" SaveModel.save_calls.
