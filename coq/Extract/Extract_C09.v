(* Extraction for C09: the list of file-system calls of one state_write (SaveModel) and the accept/reject class of the
   content loader in no-configuration mode (CodecModel.decode through NoConfModel).
   ExtrOcamlBasic only; N / positive / nat stay inductive. *)
Require Import ExtrOcamlBasic.
From Coq Require Import NArith List.
From Snap.Content Require Import SaveModel NoConfModel LoadChoice.
Extraction Language OCaml.
Set Extraction Optimize.
Extraction "../ocaml/C09/c09_ext.ml" SaveModel.save_calls NoConfModel.decode_class LoadChoice.need_write LoadChoice.loaded.
