(* Extraction of the content-file codec (C10).  ExtrOcamlBasic only; N / positive / nat / Z stay inductive. *)
Require Import ExtrOcamlBasic.
From Coq Require Import NArith ZArith List.
From Snap.Codec Require Import Varint CodecModel.
Extraction Language OCaml.
Set Extraction Optimize.
Extraction "../ocaml/C10/c10_ext.ml"
  CodecModel.decode CodecModel.encode CodecModel.normalise CodecModel.conf_of CodecModel.prepare
  CodecModel.alloc_size CodecModel.version CodecModel.file_blockmax CodecModel.info_make.
