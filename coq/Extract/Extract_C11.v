(* Extraction of the scan model (C11, C19): scan + the sync loop of Array/SyncModel.v + the pre-hash phase. *)
Require Import ExtrOcamlBasic.
From Coq Require Import NArith ZArith List.
From Snap.Array Require Import ArrayDefs SyncModel.
From Snap.Scan Require Import ScanModel PrehashModel.
Extraction Language OCaml.
Set Extraction Optimize.
Extraction "../ocaml/C11/c11_ext.ml" ScanModel.scan ScanModel.sync_scan ScanModel.diff_scan ScanModel.diff_exit ScanModel.nocopy_load ScanModel.has_past_inodes
  PrehashModel.sync_run PrehashModel.sync_fails PrehashModel.hash_process SyncModel.save_normalise SyncModel.clear_past SyncModel.allocated_size.
