(* Extraction of the C12/C14 command effect model.  ExtrOcamlBasic only; N / positive / nat stay inductive. *)
Require Import ExtrOcamlBasic.
From Coq Require Import NArith List.
From Snap.Cmd Require Import CmdModel.
Extraction Language OCaml.
Set Extraction Optimize.
Extraction "../ocaml/C12/c12_ext.ml" CmdModel.run_full CmdModel.run CmdModel.reports CmdModel.empty_trigger
  CmdModel.zero_trigger CmdModel.short_parity CmdModel.mismatch_trigger CmdModel.opts_compatible CmdModel.par_excluded
  CmdModel.lock_try CmdModel.valid_blocks.
