(* Extraction of the ring model (C13).  ExtrOcamlBasic only; nat stays inductive. *)
Require Import ExtrOcamlBasic.
From Coq Require Import Arith List.
From Snap.Ring Require Import RingModel RingErr.
Extraction Language OCaml.
Set Extraction Optimize.
Extraction "../ocaml/C13/c13_ext.ml" RingModel.step RingModel.init RingModel.is_final RingModel.replay RingModel.obs RingErr.ereplay_all.
