(* Extraction of the C15 scrub model.  ExtrOcamlBasic only; N / Z / positive / nat stay inductive. *)
Require Import ExtrOcamlBasic.
From Coq Require Import NArith ZArith List.
From Snap.Scrub Require Import ScrubModel ScrubBooks.
Extraction Language OCaml.
Set Extraction Optimize.
Extraction "../ocaml/C15/c15_ext.ml"
  ScrubModel.scrub_limits ScrubModel.scrub_selected ScrubModel.scrub_plan ScrubModel.scrub_stripe
  ScrubModel.stripe_outcome ScrubModel.scrub_update ScrubModel.apply_outcomes
  ScrubModel.info_make ScrubModel.info_get_time ScrubModel.info_get_bad ScrubModel.info_get_rehash
  ScrubModel.info_get_justsynced ScrubModel.info_set_bad ScrubModel.md
  ScrubModel.parse_plan_number ScrubModel.parse_older_number ScrubModel.no_test_opts
  ScrubBooks.verified ScrubBooks.damaged.
