(* Extraction of the executable C16 models.  ExtrOcamlBasic only; N / positive / nat stay inductive. *)
Require Import ExtrOcamlBasic.
From Coq Require Import NArith List.
From Snap.Codec Require Import Varint.
From Snap.Crc Require Import CrcModel.
From Snap.Hash Require Import Words Murmur3 Spooky2 BlockSize HashSelect.
Extraction Language OCaml.
Set Extraction Optimize.
Extraction "../ocaml/C16/c16_ext.ml"
  Varint.sputb32 Varint.sgetb32 Varint.sputb64 Varint.sgetb64 Varint.sputble32 Varint.sgetble32
  Varint.sputbs Varint.sgetbs Varint.sgetbs_oob Varint.getc
  CrcModel.crc_bytes CrcModel.crc32c_spec CrcModel.crc_table CrcModel.crc32c_gen_plain CrcModel.crc32c_gen
  CrcModel.crc32c_x86_plain CrcModel.crc32c_x86 CrcModel.hw_crc32b CrcModel.stream_crc_chunks CrcModel.stream_crc_stream
  Murmur3.murmur3_x86_128 Spooky2.spooky2_128 Words.vec_data BlockSize.file_block_size HashSelect.block_hash HashSelect.blockcmp HashSelect.rehash_conf.
