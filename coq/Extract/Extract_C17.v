(* Extraction of the split-parity model (C17).  ExtrOcamlBasic only; N / positive / nat / Z stay inductive. *)
Require Import ExtrOcamlBasic.
From Coq Require Import NArith ZArith List.
From Snap.Split Require Import SplitModel.
Extraction Language OCaml.
Set Extraction Optimize.
Extraction "../ocaml/C17/c17_ext.ml"
  SplitModel.split_find_raw SplitModel.split_find_z SplitModel.split_find SplitModel.parity_addr
  SplitModel.hbit SplitModel.parity_limit SplitModel.limits_oracle
  SplitModel.chsize_limits SplitModel.chsize SplitModel.chsize_loop_trace SplitModel.handle_fill_trace
  SplitModel.chsize_data SplitModel.to_h SplitModel.parity_write SplitModel.parity_read
  SplitModel.parity_reopen SplitModel.parity_truncate SplitModel.concat_view SplitModel.run_ops
  SplitModel.load_splits.
