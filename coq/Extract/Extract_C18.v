(* Extraction of the C18 models (glob matcher + filters).  ExtrOcamlBasic only. *)
Require Import ExtrOcamlBasic.
From Coq Require Import NArith List.
From Snap.Filter Require Import GlobModel FilterModel.
Extraction Language OCaml.
Set Extraction Optimize.
Extraction "../ocaml/C18/c18_ext.ml"
  GlobModel.glob_match GlobModel.tokenize
  FilterModel.filter_parse FilterModel.filter_parse_disk
  FilterModel.g_filter_path FilterModel.g_filter_subdir FilterModel.g_filter_emptydir
  FilterModel.g_sel_excluded FilterModel.g_parity_excluded FilterModel.g_scan_skips FilterModel.g_scan_why
  FilterModel.filter_hidden FilterModel.filter_content.
