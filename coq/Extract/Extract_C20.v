(* Extraction of the C20 models.  ExtrOcamlBasic only; N / Z / positive / nat stay inductive. *)
Require Import ExtrOcamlBasic.
From Coq Require Import NArith ZArith List.
From Snap.Report Require Import EscModel ViewModel TermModel.
Extraction Language OCaml.
Set Extraction Optimize.
Extraction "../ocaml/C20/c20_ext.ml"
  EscModel.esc_tag EscModel.esc_tag_buf EscModel.unesc_tag EscModel.esc_shell EscModel.esc_shell_buf EscModel.esc_shell_multi
  EscModel.unesc_shell EscModel.parse_log EscModel.print_log EscModel.dec_N EscModel.dec_Z
  ViewModel.list_log ViewModel.list_records ViewModel.dup_report ViewModel.dup_records ViewModel.status_count
  ViewModel.zerosub_lines
  TermModel.print_term_list TermModel.parse_term.
