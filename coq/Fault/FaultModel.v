(* C07 / C08 -- fault and interruption model on top of the array model (Array/ArrayDefs.v, Array/SyncModel.v).
   Executable definitions only (Part A is extracted: Extract/Extract_C08.v); the theorems are in FaultProofs.v
   and KillProofs.v.

   Part A (C08): the sync loop with the WRITER outcome.  `sync_loop_w` is SyncModel.sync_loop where each parity
   write of a stripe has an outcome per level and the error accounting of cmdline/io.c is modelled as it is:
     - sync.c:630-661 sync_parity_writer: pwrite fails with EIO -> TASK_STATE_IOERROR_CONTINUE, with anything
       else (ENOSPC...) -> TASK_STATE_ERROR; the stripe's blocks were already set BLK and its info word refreshed
       (sync.c:1179-1224) BEFORE io_write_next only queues the write (sync.c:1255);
     - threaded mode (io.c:342-354, 448-484, 620-693): a writer adds its last task state to io->writer_error[] when it
       next takes the mutex; the caller drains these counters at its NEXT io_write_next.  io_parity_write makes the
       caller wait only until the writer has left the slot io_max-1 iterations back, so the report of the stripe
       processed at iteration i is seen at iteration i + d for some 1 <= d <= io_max - 1 (the schedule; parameter
       `lag`); what is still unreported when the loop ends (normally or by a graceful stop) is collected after io_stop
       by io_write_flush_errors (repair 1304269 of F-C08-last-writer-errors-lost: ++io_error / ++error once per kind,
       no limit test, no bail; before the repair these reports were lost); on a bail they stay uncollected;
     - single-thread mode (io.c io_write_preset_mono / io_parity_write_mono / io_write_next_mono, after the repair
       55c30f5 of F-C08-mono-writer-errors-lost): io_write_preset_mono clears io->writer_error[], io_parity_write_mono runs
       the writer synchronously and counts its task state, io_write_next_mono reports the counters: the errors of a
       stripe are seen at that stripe's own io_write_next (before the repair nothing stored the task state and no
       report was ever seen);
     - the caller (sync.c:1258-1286): if some IOERROR_CONTINUE was reported: ++io_error ONCE (whatever the count),
       bail when the limit is reached; if some ERROR was reported: ++error, bail.
   A failing pwrite leaves the parity block as it was (the file was sized by parity_chsize beforehand).

   Part A' (C08): the per-stripe error handling of scrub (scrub.c:362-613), flags and counters only.

   Part B (C07): the effect trace of a sync -- the main thread's state-changing events in program order -- and its
   crash states.  A content save (state_write) is ONE event here: Content/SaveProofs.save_atomic proves that a kill
   inside it leaves every copy either old or new, a prefix of the copies being new; `copies_at` is exactly that set. *)
From Coq Require Import NArith ZArith List Bool Arith.
From Snap.Array Require Import ArrayDefs SyncModel.
Import ListNotations.

(* ================================================================================================================ *)
(* Part A: writer outcomes                                                                                           *)
(* ================================================================================================================ *)
(* WShort: the pwrite transferred fewer bytes than the block (a filling disk): parity_write (parity.c) accepts a write only when the
   count is the whole block (`write_ret != block_size` -> error); the block on disk is then half new.  Since /repo 79689a5
   parity_write clears errno on entry and sets ENOSPC for a short count, so sync_parity_writer classifies it deterministically as
   the fatal non-EIO write error (TASK_STATE_ERROR), like ENOSPC (before that fix a stale errno decided) *)
Inductive wres := WOk | WEio | WErr | WShort.

(* what the system call returns, and how parity_write + sync_parity_writer classify it *)
Inductive pwret := PwCount (n : N) | PwFail (eio : bool).
Definition classify_pwrite (bs : N) (r : pwret) : wres :=
  match r with
  | PwCount n => if N.eqb n bs then WOk else WShort
  | PwFail true => WEio
  | PwFail false => WErr
  end.
Definition w_is_eio (w : wres) : bool := match w with WEio => true | _ => false end.
Definition w_is_err (w : wres) : bool := match w with WErr | WShort => true | _ => false end.
Definition w_failed (w : wres) : bool := match w with WOk => false | _ => true end.

(* --test-io-cache 1 / n >= 3 (IO_MIN) *)
Inductive iomode := Mono | Threaded (n : nat).

(* what the writers of one stripe will add to io->writer_error[], and the iteration whose io_write_next sees it *)
(* wr_pos = the stripe of the failed write: since the repair 0ecd44a of F-C08-parity-write-error-recorded-synced the writer files
   it (io_writer_bad) together with its error counter, io_write_bad hands it to sync right after the io_write_next that sees the
   counter -- and once more after io_stop at `bail:`, which every exit of the loop reaches -- and sync marks that stripe bad *)
Record wrep := mkWR { wr_due : option nat; wr_eio : nat; wr_err : nat; wr_pos : nat }.

(* info_set(pos, info_set_bad(info_get(pos))): the CURRENT info word with the bad flag; an absent word is 0 *)
Definition mark_bad (oi : option info) : option info :=
  Some (match oi with Some i => mkInfo (i_time i) true (i_rehash i) (i_justsynced i) | None => mkInfo 0 true false false end).
Definition mark_bad_at (c : content) (pos : nat) : content :=
  mkC (c_disks c) (set_ext None pos (mark_bad (nth pos (c_info c) None)) (c_info c)) (c_blockmax c).
Definition mark_bad_all (c : content) (ps : list nat) : content := fold_left mark_bad_at ps c.

Definition eff_lag (n lag : nat) : nat := Nat.max 1 (Nat.min lag (n - 1)).
(* the iteration whose io_write_next sees the report of a write queued at iteration `it` (lagv = the schedule of that writer) *)
Definition report_due (m : iomode) (lagv it : nat) : option nat :=
  match m with Mono => Some it | Threaded n => Some (it + eff_lag n lagv) end.
Definition is_due (it : nat) (w : wrep) : bool := match wr_due w with Some d => (d <=? it)%nat | None => false end.
Definition sum_eio (l : list wrep) : nat := fold_right (fun w s => (wr_eio w + s)%nat) 0%nat l.
Definition sum_err (l : list wrep) : nat := fold_right (fun w s => (wr_err w + s)%nat) 0%nat l.
Definition rep_nonzero (w : wrep) : bool := negb ((wr_eio w + wr_err w =? 0)%nat).

(* the pwrite of each level: PEnc v where it succeeds, the old block where it fails, junk after a short count *)
Definition write_levels (par : parity) (pos : nat) (v : list bid) (wl : nat -> wres) : parity :=
  map (fun llv : nat * list penc => match wl (fst llv) with
                                    | WOk => set_ext PNone pos (PEnc v) (snd llv)
                                    | WShort => set_ext PNone pos (PJunk 0) (snd llv)      (* half written *)
                                    | _ => snd llv end)
      (combine (seq 0 (length par)) par).
(* one report per failing level: every level has its own writer thread, which reports on its own schedule `lag pos l` *)
Definition level_reports (m : iomode) (lag : nat -> nat -> nat) (it pos : nat) (wl : nat -> wres) (nl : nat) : list wrep :=
  flat_map (fun l => match wl l with
                     | WOk => []
                     | WEio => [mkWR (report_due m (lag pos l) it) 1 0 pos]
                     | WErr | WShort => [mkWR (report_due m (lag pos l) it) 0 1 pos]
                     end) (seq 0 nl).

(* sync.c `end:` after the repair 1304269: io_stop, then the counters filled since the last io_write_next are drained *)
Definition flush_counts (q : list wrep) (ne ni : nat) : nat * nat :=
  ((if (0 <? sum_err q)%nat then S ne else ne), (if (0 <? sum_eio q)%nat then S ni else ni)).

(* w_fpos = the stripes of the failed pwrites of the run (one entry per failing level), in order; w_lost = reports never COUNTED
   (only on a bail; their stripes are marked bad all the same) *)
Record wrun := mkWRun { w_run : run_out; w_lost : list wrep; w_fpos : list nat; w_iters : nat }.
Definition w_nfail (r : wrun) : nat := length (w_fpos r).

Definition run_failing (r : run_out) : bool := negb ((ro_nerr r + ro_nsilent r + ro_nio r =? 0)%nat).

Section SyncW.
  Variable hashf : bid -> N -> hval.
  Variable bs : N.
  Variable nlev : nat.

  (* wf pos l = outcome of the pwrite of level l for stripe pos;  lag pos l = schedule of that write's report;  it = number of
     stripes processed so far (the loop iteration);  q = reports not yet seen by the caller;  fp = stripes of the failed pwrites so far *)
  Fixpoint sync_loop_w (o : sopts) (now : N) (fs : list (option fsdisk)) (faults : nat -> list (option rd))
           (wf : nat -> nat -> wres) (m : iomode) (lag : nat -> nat -> nat)
           (stripes : list nat) (stop : option nat) (it : nat) (q : list wrep) (fp : list nat)
           (c : content) (par : parity) (ne ns ni : nat) : wrun :=
    match stripes with
    | [] => mkWRun (mkRun (mark_bad_all c (map wr_pos q)) par (fst (flush_counts q ne ni)) ns (snd (flush_counts q ne ni)) false) [] fp it
    | pos :: rest =>
        let slots := map (fun od => match od with Some d => slot_at d pos | None => SEmpty end) (c_disks c) in
        if negb (stripe_enabled o slots) then sync_loop_w o now fs faults wf m lag rest stop it q fp c par ne ns ni else
        match stop with
        | Some O => mkWRun (mkRun (mark_bad_all c (map wr_pos q)) par (fst (flush_counts q ne ni)) ns (snd (flush_counts q ne ni)) false) [] fp it
        | _ =>
            let r := sync_stripe hashf bs nlev o now ni c (map (fun lv => nth pos lv PNone) par) fs (faults pos) pos in
            let ne1 := (ne + so_nerr r)%nat in let ns1 := (ns + so_nsilent r)%nat in let ni1 := (ni + so_nio r)%nat in
            (* a fatal read error: goto bail, io_stop, the stripes of all the failed writes still pending are marked bad *)
            if so_bail r then mkWRun (mkRun (mark_bad_all (so_content r) (map wr_pos q)) par ne1 ns1 ni1 true) q fp it else
            (* the stripe's blocks are handed to the writers (threaded: queued, executed at the latest when io_stop
               drains; single-thread: written now) and their report is filed for the iteration that will see it ... *)
            let par' := match so_write r with Some v => write_levels par pos v (wf pos) | None => par end in
            let reps := match so_write r with Some _ => level_reports m lag it pos (wf pos) (length par) | None => [] end in
            let qa := q ++ reps in
            let fp' := fp ++ map wr_pos reps in
            (* ... io_write_next drains the counters filled so far: in threaded mode those of earlier stripes only
               (a report is due at it + lag >= it + 1), in single-thread mode exactly those of this stripe;
               io_write_bad then gives the stripes of these failed writes, which are marked bad (sync.c:1273-1277) *)
            let seen := filter (is_due it) qa in
            let q2 := filter (fun w => negb (is_due it w)) qa in
            let ceio := sum_eio seen in let cerr := sum_err seen in
            (* sync.c:1279-1308; on a bail the marks of ALL the failed writes are made after io_stop *)
            let ni2 := if (0 <? ceio)%nat then S ni1 else ni1 in
            if (0 <? ceio)%nat && (o_io_error_limit o <=? ni2)%nat
            then mkWRun (mkRun (mark_bad_all (so_content r) (map wr_pos qa)) par' ne1 ns1 ni2 true) q2 fp' it else
            if (0 <? cerr)%nat
            then mkWRun (mkRun (mark_bad_all (so_content r) (map wr_pos qa)) par' (S ne1) ns1 ni2 true) q2 fp' it else
            sync_loop_w o now fs faults wf m lag rest (match stop with Some (S k) => Some k | _ => None end)
                        (S it) q2 fp' (mark_bad_all (so_content r) (map wr_pos seen)) par' ne1 ns1 ni2
        end
    end.
End SyncW.

(* what the property asks of the stripe hit by a fault: NOT (every block BLK, info present and not bad) *)
Definition slots_of (c : content) (pos : nat) : list slot :=
  map (fun od => match od with Some d => slot_at d pos | None => SEmpty end) (c_disks c).
Definition recorded_healthy (c : content) (pos : nat) : bool :=
  existsb slot_has_file (slots_of c pos) && negb (existsb slot_invalid_parity (slots_of c pos)) &&
  match nth pos (c_info c) None with Some i => negb (i_bad i) | None => false end.

(* ================================================================================================================ *)
(* Part A': scrub, one stripe (scrub.c:346-613): flags, counters, the info word                                      *)
(* ================================================================================================================ *)
Inductive sdata :=
| SdOk (hash_ok : bool)     (* TASK_STATE_DONE; the computed hash equals / differs from the recorded one *)
| SdErrCont                 (* open / non-EIO read error: TASK_STATE_ERROR_CONTINUE *)
| SdIoCont                  (* EIO while reading: TASK_STATE_IOERROR_CONTINUE *)
| SdFatalIo | SdFatal.      (* TASK_STATE_IOERROR / TASK_STATE_ERROR: bail *)
Record stask := mkST {
  st_used : bool;            (* the disk position is used *)
  st_invalid : bool;         (* block_has_invalid_parity *)
  st_file : bool;            (* block_has_file *)
  st_tsdiff : bool;          (* task->is_timestamp_different *)
  st_updhash : bool;         (* block_has_updated_hash: BLK or REP *)
  st_out : sdata }.
Inductive spar :=
| SpOk (equal : bool)       (* read done; the recomputed parity equals / differs from it *)
| SpErrCont | SpIoCont | SpFatalIo | SpFatal.

Record sacc := mkSA { sa_err : bool; sa_silent : bool; sa_io : bool; sa_unsynced : bool; sa_bail : bool;
                      sa_nerr : nat; sa_nsilent : nat; sa_nio : nat }.

Definition scrub_disk_step (limit io_before : nat) (a : sacc) (t : stask) : sacc :=
  if sa_bail a then a else
  if negb (st_used t) then a else
  let uns1 := sa_unsynced a || st_invalid t in
  if negb (st_file t) then mkSA (sa_err a) (sa_silent a) (sa_io a) uns1 false (sa_nerr a) (sa_nsilent a) (sa_nio a) else
  let uns := uns1 || st_tsdiff t in
  let file_unsynced := st_invalid t || st_tsdiff t in
  match st_out t with
  | SdFatalIo => mkSA (sa_err a) (sa_silent a) (sa_io a) uns true (sa_nerr a) (sa_nsilent a) (S (sa_nio a))
  | SdFatal => mkSA (sa_err a) (sa_silent a) (sa_io a) uns true (S (sa_nerr a)) (sa_nsilent a) (sa_nio a)
  | SdErrCont => mkSA true (sa_silent a) (sa_io a) uns false (S (sa_nerr a)) (sa_nsilent a) (sa_nio a)
  | SdIoCont =>
      let nio := S (sa_nio a) in
      if (limit <=? io_before + nio)%nat
      then mkSA (sa_err a) (sa_silent a) (sa_io a) uns true (sa_nerr a) (sa_nsilent a) nio
      else mkSA (sa_err a) (sa_silent a) true uns false (sa_nerr a) (sa_nsilent a) nio
  | SdOk ok =>
      if st_updhash t && negb ok
      then if file_unsynced
           then mkSA true (sa_silent a) (sa_io a) uns false (S (sa_nerr a)) (sa_nsilent a) (sa_nio a)
           else mkSA (sa_err a) true (sa_io a) uns false (sa_nerr a) (S (sa_nsilent a)) (sa_nio a)
      else mkSA (sa_err a) (sa_silent a) (sa_io a) uns false (sa_nerr a) (sa_nsilent a) (sa_nio a)
  end.

(* the parity reads (scrub.c:509-563) *)
Definition scrub_par_step (limit io_before : nat) (a : sacc) (p : spar) : sacc :=
  if sa_bail a then a else
  match p with
  | SpFatalIo => mkSA (sa_err a) (sa_silent a) (sa_io a) (sa_unsynced a) true (sa_nerr a) (sa_nsilent a) (S (sa_nio a))
  | SpFatal => mkSA (sa_err a) (sa_silent a) (sa_io a) (sa_unsynced a) true (S (sa_nerr a)) (sa_nsilent a) (sa_nio a)
  | SpErrCont => mkSA true (sa_silent a) (sa_io a) (sa_unsynced a) false (S (sa_nerr a)) (sa_nsilent a) (sa_nio a)
  | SpIoCont =>
      let nio := S (sa_nio a) in
      if (limit <=? io_before + nio)%nat
      then mkSA (sa_err a) (sa_silent a) (sa_io a) (sa_unsynced a) true (sa_nerr a) (sa_nsilent a) nio
      else mkSA (sa_err a) (sa_silent a) true (sa_unsynced a) false (sa_nerr a) (sa_nsilent a) nio
  | SpOk _ => a
  end.
(* the comparison (scrub.c:566-588), entered only when no flag is set *)
Definition scrub_cmp_step (a : sacc) (p : spar) : sacc :=
  match p with
  | SpOk false =>
      if sa_unsynced a
      then mkSA true (sa_silent a) (sa_io a) (sa_unsynced a) (sa_bail a) (S (sa_nerr a)) (sa_nsilent a) (sa_nio a)
      else mkSA (sa_err a) true (sa_io a) (sa_unsynced a) (sa_bail a) (sa_nerr a) (S (sa_nsilent a)) (sa_nio a)
  | _ => a
  end.

Record scrub_out := mkSO2 { sc_info : info; sc_bail : bool; sc_nerr : nat; sc_nsilent : nat; sc_nio : nat }.

Definition scrub_stripe (limit io_before : nat) (now : N) (inf : info) (disks : list stask) (pars : list spar) : scrub_out :=
  let a0 := mkSA false false false false false 0 0 0 in
  let a1 := fold_left (scrub_disk_step limit io_before) disks a0 in
  let a2 := fold_left (scrub_par_step limit io_before) pars a1 in
  if sa_bail a2 then mkSO2 inf true (sa_nerr a2) (sa_nsilent a2) (sa_nio a2) else
  let a3 := if negb (sa_err a2) && negb (sa_silent a2) && negb (sa_io a2) then fold_left scrub_cmp_step pars a2 else a2 in
  let inf' := if sa_silent a3 || sa_io a3 then mkInfo (i_time inf) true (i_rehash inf) (i_justsynced inf)
              else if sa_err a3 then inf
              else mkInfo now false false false in
  mkSO2 inf' false (sa_nerr a3) (sa_nsilent a3) (sa_nio a3).

(* ================================================================================================================ *)
(* Part A'': the pre-hash phase of `sync -h` (sync.c state_hash_process): one outcome per block read, counters, status *)
(* ================================================================================================================ *)
Inductive hrd :=
| HOk                 (* read and hashed (a REP block: the hash matches) *)
| HMissing            (* file missing / no access / changed: ++error, the file is skipped, the phase goes on *)
| HRepMismatch        (* a REP (copied) block whose data differs from the recorded hash: ++silent_error, skip_sync *)
| HEio                (* EIO while reading: ++io_error, bail *)
| HErr.               (* any other read/open/close error: ++error, bail *)
Record hout := mkHO { h_nerr : nat; h_nsilent : nat; h_nio : nat; h_skip : bool; h_bailed : bool }.
Definition hash_step (a : hout) (x : hrd) : hout :=
  if h_bailed a then a else
  match x with
  | HOk => a
  | HMissing => mkHO (S (h_nerr a)) (h_nsilent a) (h_nio a) (h_skip a) false
  | HRepMismatch => mkHO (h_nerr a) (S (h_nsilent a)) (h_nio a) true false
  | HEio => mkHO (h_nerr a) (h_nsilent a) (S (h_nio a)) true true
  | HErr => mkHO (S (h_nerr a)) (h_nsilent a) (h_nio a) true true
  end.
Definition hash_phase (outs : list hrd) : hout := fold_left hash_step outs (mkHO 0 0 0 false false).
(* state_hash_process returns -1, hence state_sync counts an unrecoverable error and the command exits with a failing status *)
Definition hash_failing (h : hout) : bool := negb ((h_nerr h + h_nsilent h + h_nio h =? 0)%nat).

(* ================================================================================================================ *)
(* Part B: the effect trace of a sync and its crash states                                                           *)
(* ================================================================================================================ *)
(* the main thread's state-changing events, in program order *)
Inductive mev :=
| MResize (len : nat)                   (* parity_chsize of every level to len blocks (sync.c:1533-1553) *)
| MSave (c : content)                   (* state_write: every content copy replaced (save sequence of C09) *)
| MSched (pos : nat) (v : list bid)     (* io_write_next: the stripe's parity blocks, one per level, handed to the writers *)
| MFsync                                (* parity_sync of every level *)
| MDrain.                               (* io_stop: the writers empty their queues and exit *)

Section Trace.
  Variable hashf : bid -> N -> hval.
  Variable bs : N.
  Variable nlev : nat.

  (* SyncModel.sync_loop with the events it issues; `autosave pos` = an autosave follows stripe pos
     (sync.c: the size-based rule, or --test-force-autosave-at): since the repair 6a618a2 of F-C07-autosave-writers-not-drained
     it is io_stop (every queued parity write completes, in every io mode), parity_sync of every level, state_write, io_start.  A stop request honoured after a stripe
     (state_progress, sync.c:1295) precedes the autosave test. *)
  Fixpoint sync_events (o : sopts) (now : N) (fs : list (option fsdisk)) (faults : nat -> list (option rd))
           (autosave : nat -> bool) (stripes : list nat) (stop : option nat) (c : content) (par : parity)
           (ne ns ni : nat) : list mev * run_out :=
    match stripes with
    | [] => ([], mkRun c par ne ns ni false)
    | pos :: rest =>
        let slots := map (fun od => match od with Some d => slot_at d pos | None => SEmpty end) (c_disks c) in
        if negb (stripe_enabled o slots) then sync_events o now fs faults autosave rest stop c par ne ns ni else
        match stop with
        | Some O => ([], mkRun c par ne ns ni false)
        | _ =>
            let r := sync_stripe hashf bs nlev o now ni c (map (fun lv => nth pos lv PNone) par) fs (faults pos) pos in
            let ne' := (ne + so_nerr r)%nat in let ns' := (ns + so_nsilent r)%nat in let ni' := (ni + so_nio r)%nat in
            if so_bail r then ([], mkRun (so_content r) par ne' ns' ni' true) else
            let par' := match so_write r with Some v => set_parity par pos v | None => par end in
            let stop' := match stop with Some (S k) => Some k | _ => None end in
            let ev_w := match so_write r with Some v => [MSched pos v] | None => [] end in
            let ev_s := if autosave pos && negb (match stop' with Some O => true | _ => false end)
                        then [MDrain; MFsync; MSave (so_content r)] else [] in
            let '(evs, out) := sync_events o now fs faults autosave rest stop' (so_content r) par' ne' ns' ni' in
            (ev_w ++ ev_s ++ evs, out)
        end
    end.

  (* state_sync + snapraid.c: resize, save the post-scan state, the loop, io_stop, [parity_sync unless bailed], final save
     (since the repair 1304269 io_stop precedes the final parity_sync: the last queued writes are fsynced too).
     c1 = the state after scan (what is in memory when state_sync starts) *)
  Definition sync_trace (o : sopts) (now : N) (fs : list (option fsdisk)) (faults : nat -> list (option rd))
             (autosave : nat -> bool) (stripes : list nat) (stop : option nat) (c1 : content) (par : parity) : list mev :=
    let '(evs, out) := sync_events o now fs faults autosave stripes stop c1 par 0 0 0 in
    [MResize (allocated_size c1); MSave c1] ++ evs ++ [MDrain] ++ (if ro_bailed out then [] else [MFsync]) ++ [MSave (ro_content out)].
End Trace.

(* ---- the state on disk ---- *)
Record dstate := mkDS { ds_copies : list content; ds_par : parity }.

Definition scheds (evs : list mev) : list (nat * list bid) :=
  flat_map (fun e => match e with MSched p v => [(p, v)] | _ => [] end) evs.
Definition apply_writes (ws : list (nat * list bid)) (lv : list penc) : list penc :=
  fold_left (fun lv pv => set_ext PNone (fst pv) (PEnc (snd pv)) lv) ws lv.
(* truncation, or extension with blocks that encode nothing known *)
Definition resize_lv (len : nat) (lv : list penc) : list penc := firstn len lv ++ repeat (PJunk 0) (len - length lv).
Definition par_base (par0 : parity) (evs : list mev) : parity :=
  fold_left (fun p e => match e with MResize len => map (resize_lv len) p | _ => p end) evs par0.
Definition last_save (c0 : content) (evs : list mev) : content :=
  fold_left (fun c e => match e with MSave c' => c' | _ => c end) evs c0.
(* scheduled writes that io_stop has certainly flushed *)
Fixpoint drained (evs : list mev) (nsched : nat) : nat :=
  match evs with
  | [] => 0
  | MDrain :: t => Nat.max nsched (drained t nsched)
  | MSched _ _ :: t => drained t (S nsched)
  | _ :: t => drained t nsched
  end.

(* the copies when the main thread has completed `pre` and is inside the first event of `rest`: a save in progress has
   replaced the first j copies (SaveProofs.save_atomic) *)
Definition copies_at (ncopies : nat) (c0 : content) (pre rest : list mev) (j : nat) : list content :=
  match rest with
  | MSave c' :: _ => repeat c' (Nat.min j ncopies) ++ repeat (last_save c0 pre) (ncopies - j)
  | _ => repeat (last_save c0 pre) ncopies
  end.

(* one level: the first k writes of the schedule are on disk, and optionally the (k+1)-th is torn *)
Definition level_state (sch : list (nat * list bid)) (base : list penc) (k : nat) (torn : bool) : list penc :=
  let lv := apply_writes (firstn k sch) base in
  if torn then match nth_error sch k with Some (p, _) => set_ext PNone p (PJunk 1) lv | None => lv end else lv.

(* admissible progress of one writer when the main thread is at pre | rest.
   Mono: writes are synchronous (io_parity_write_mono calls the writer): all the scheduled ones are done; inside an
   MSched event each level may or may not have done it, and the one in progress may be torn.
   Threaded n: at least the drained ones and all but the last n-1 scheduled, at most all scheduled; the next may be torn. *)
Definition k_ok (m : iomode) (pre rest : list mev) (k : nat) (torn : bool) : Prop :=
  let w := length (scheds pre) in
  match m with
  | Mono =>
      match rest with
      | MSched _ _ :: _ => (k = w \/ (k = S w /\ torn = false))
      | _ => k = w /\ torn = false
      end
  | Threaded n => Nat.max (drained pre 0) (w - (n - 1)) <= k /\ k <= w /\ (torn = true -> k < w)
  end.

Inductive crash_state (m : iomode) (ncopies : nat) (c0 : content) (par0 : parity) (tr : list mev) : dstate -> Prop :=
| CrashAt : forall pre rest j ks torn,
    tr = pre ++ rest ->
    length ks = length par0 -> length torn = length par0 ->
    (forall l, l < length par0 -> k_ok m pre rest (nth l ks 0) (nth l torn false)) ->
    crash_state m ncopies c0 par0 tr
      (mkDS (copies_at ncopies c0 pre rest j)
            (map (fun l => level_state (scheds tr) (nth l (par_base par0 pre) []) (nth l ks 0) (nth l torn false))
                 (seq 0 (length par0)))).

(* the state the same prefix leaves when every scheduled write has completed (a graceful stop there) *)
Definition ideal_par (par0 : parity) (pre : list mev) : parity :=
  map (apply_writes (scheds pre)) (par_base par0 pre).
