(* C08 -- lemmas about the fault model: read errors are safe (stripe level, on top of Array/SyncProofsStripe.v), the
   error limit, the writer error accounting (what is proved of it, and the three refutations). *)
From Coq Require Import NArith ZArith List Bool Arith Lia.
From Snap.Array Require Import ArrayDefs SyncModel SyncProofsDefs SyncProofsStripe.
From Snap.Fault Require Import FaultModel.
Import ListNotations.

Arguments sync_stripe : simpl never.
Arguments stripe_enabled : simpl never.

(* ---------------------------------------------------------------------------------------------------------------- *)
(* without write faults sync_loop_w IS sync_loop                                                                     *)
(* ---------------------------------------------------------------------------------------------------------------- *)
Lemma write_levels_ok par pos v wl : (forall l, wl l = WOk) -> write_levels par pos v wl = set_parity par pos v.
Proof.
  intro H. unfold write_levels, set_parity. generalize 0 as s.
  induction par as [|lv t IH]; intro s; simpl; [reflexivity|]. rewrite H. f_equal. apply IH.
Qed.

Lemma level_reports_ok m lag it pos wl nl : (forall l, wl l = WOk) -> level_reports m lag it pos wl nl = [].
Proof.
  intro H. unfold level_reports.
  assert (G : forall s, flat_map (fun l => match wl l with
                                          | WOk => []
                                          | WEio => [mkWR (report_due m (lag pos l) it) 1 0 pos]
                                          | WErr | WShort => [mkWR (report_due m (lag pos l) it) 0 1 pos]
                                          end) (seq s nl) = []).
  { induction nl as [|n IH]; intro s; simpl; [reflexivity|]. rewrite H. apply IH. }
  apply G.
Qed.

Lemma level_reports_nonzero m lag it pos wl nl : Forall (fun w => rep_nonzero w = true) (level_reports m lag it pos wl nl).
Proof.
  unfold level_reports. apply Forall_forall. intros w Hin. apply in_flat_map in Hin. destruct Hin as [l [_ Hin]].
  destruct (wl l); [destruct Hin | destruct Hin as [<-|[]]; reflexivity | destruct Hin as [<-|[]]; reflexivity | destruct Hin as [<-|[]]; reflexivity].
Qed.

Lemma level_reports_mono_due lag it pos wl nl :
  filter (fun w => negb (is_due it w)) (level_reports Mono lag it pos wl nl) = [].
Proof.
  unfold level_reports. generalize (seq 0 nl) as ls. induction ls as [|l t IH]; [reflexivity|].
  cbn [flat_map]. rewrite filter_app, IH, app_nil_r.
  destruct (wl l); cbn [filter]; [reflexivity | | |];
    unfold is_due, report_due; cbn [wr_due]; rewrite Nat.leb_refl; reflexivity.
Qed.

Section W.
  Variable hashf : bid -> N -> hval.
  Variable bs : N.
  Variable nlev : nat.

  Theorem sync_loop_w_nofault o now fs faults wf m lag :
    (forall p l, wf p l = WOk) ->
    forall stripes stop it nfail c par ne ns ni,
      let r := sync_loop_w hashf bs nlev o now fs faults wf m lag stripes stop it [] nfail c par ne ns ni in
      w_run r = sync_loop hashf bs nlev o now fs faults stripes stop c par ne ns ni /\ w_lost r = [] /\ w_fpos r = nfail.
  Proof.
    intro Hok. induction stripes as [|pos rest IH]; intros stop it nfail c par ne ns ni; cbn [sync_loop_w sync_loop]; [repeat split|].
    destruct (negb (stripe_enabled o _)); [apply IH|].
    destruct stop as [[|k]|]; [repeat split | |];
      (cbv zeta;
       destruct (so_bail (sync_stripe hashf bs nlev o now ni c (map (fun lv => nth pos lv PNone) par) fs (faults pos) pos)); [repeat split|];
       destruct (so_write (sync_stripe hashf bs nlev o now ni c (map (fun lv => nth pos lv PNone) par) fs (faults pos) pos)) as [v|];
       [ rewrite level_reports_ok by (auto); cbn [Nat.add Nat.eqb negb app length map filter mark_bad_all fold_left sum_eio sum_err fold_right Nat.ltb Nat.leb andb];
         rewrite write_levels_ok by auto; rewrite app_nil_r; apply IH
       | cbn [Nat.add Nat.eqb negb app length map filter mark_bad_all fold_left sum_eio sum_err fold_right Nat.ltb Nat.leb andb]; rewrite app_nil_r; apply IH ]).
  Qed.

  (* ---------------------------------------------------------------------------------------------------------------- *)
  (* counters of one stripe                                                                                            *)
  (* ---------------------------------------------------------------------------------------------------------------- *)
  Ltac dmatch := repeat match goal with |- context [match ?x with _ => _ end] => destruct x eqn:?; simpl in * end.

  Lemma disk_step_counts o iob a x :
    a_nerr a <= a_nerr (disk_step hashf bs o iob a x) /\ a_nio a <= a_nio (disk_step hashf bs o iob a x).
  Proof. destruct x as [[j s] r]. unfold disk_step. dmatch; lia. Qed.

  Lemma fold_counts o iob l : forall a,
    a_nerr a <= a_nerr (fold_left (disk_step hashf bs o iob) l a) /\ a_nio a <= a_nio (fold_left (disk_step hashf bs o iob) l a).
  Proof.
    induction l as [|x t IH]; intro a; simpl; [lia|].
    destruct (IH (disk_step hashf bs o iob a x)). destruct (disk_step_counts o iob a x). lia.
  Qed.

  Lemma disk_step_io o iob a j f i b : a_bail a = false ->
    a_nio (disk_step hashf bs o iob a (j, SFile f i b, RdIoCont)) = S (a_nio a).
  Proof. intro H. unfold disk_step. rewrite H. dmatch; reflexivity. Qed.
  Lemma disk_step_err o iob a j f i b : a_bail a = false ->
    a_nerr (disk_step hashf bs o iob a (j, SFile f i b, RdErrCont)) = S (a_nerr a).
  Proof. intro H. unfold disk_step. rewrite H. dmatch; reflexivity. Qed.

  Lemma fold_count_io o iob l : forall a j f i b,
    In (j, SFile f i b, RdIoCont) l -> a_bail (fold_left (disk_step hashf bs o iob) l a) = false ->
    0 < a_nio (fold_left (disk_step hashf bs o iob) l a).
  Proof.
    induction l as [|x t IH]; intros a j f i b Hin Hb; [destruct Hin|]. simpl in *.
    destruct Hin as [->|Hin].
    - assert (Ea : a_bail a = false).
      { destruct (a_bail a) eqn:E; [|reflexivity]. rewrite disk_step_bail in Hb by exact E. rewrite fold_bail in Hb by exact E. congruence. }
      pose proof (disk_step_io o iob a j f i b Ea). destruct (fold_counts o iob t (disk_step hashf bs o iob a (j, SFile f i b, RdIoCont))). lia.
    - eapply IH; eauto.
  Qed.
  Lemma fold_count_err o iob l : forall a j f i b,
    In (j, SFile f i b, RdErrCont) l -> a_bail (fold_left (disk_step hashf bs o iob) l a) = false ->
    0 < a_nerr (fold_left (disk_step hashf bs o iob) l a).
  Proof.
    induction l as [|x t IH]; intros a j f i b Hin Hb; [destruct Hin|]. simpl in *.
    destruct Hin as [->|Hin].
    - assert (Ea : a_bail a = false).
      { destruct (a_bail a) eqn:E; [|reflexivity]. rewrite disk_step_bail in Hb by exact E. rewrite fold_bail in Hb by exact E. congruence. }
      pose proof (disk_step_err o iob a j f i b Ea). destruct (fold_counts o iob t (disk_step hashf bs o iob a (j, SFile f i b, RdErrCont))). lia.
    - eapply IH; eauto.
  Qed.

  (* the io-error limit inside one stripe: no bail => no io error yet, or the total is still below the limit *)
  Definition lim_ok (o : sopts) (iob : nat) (a : acc) : Prop :=
    a_bail a = true \/ a_nio a = 0 \/ iob + a_nio a < o_io_error_limit o.
  Lemma disk_step_lim o iob a x : lim_ok o iob a -> lim_ok o iob (disk_step hashf bs o iob a x).
  Proof.
    intro H. destruct x as [[j s] r]. unfold disk_step. destruct (a_bail a) eqn:Eb; [exact H|].
    destruct H as [H|H]; [congruence|]. unfold lim_ok.
    dmatch; auto;
      try (right; right; match goal with E : (_ <=? _) = false |- _ => apply Nat.leb_gt in E; lia end).
  Qed.
  Lemma fold_lim o iob l : forall a, lim_ok o iob a -> lim_ok o iob (fold_left (disk_step hashf bs o iob) l a).
  Proof. induction l as [|x t IH]; intros a H; simpl; [exact H|]. apply IH. apply disk_step_lim. exact H. Qed.

  Lemma sync_stripe_counters o now iob c par fs faults pos :
    let r := sync_stripe hashf bs nlev o now iob c par fs faults pos in
    so_nerr r = a_nerr (ss_A hashf bs o iob c fs faults pos) /\ so_nio r = a_nio (ss_A hashf bs o iob c fs faults pos)
    /\ so_bail r = a_bail (ss_A hashf bs o iob c fs faults pos).
  Proof. cbv zeta. rewrite (sync_stripe_eq hashf bs nlev). cbv zeta. destruct (a_bail _); simpl; auto. Qed.

  Theorem stripe_error_limit o now iob c par fs faults pos :
    let r := sync_stripe hashf bs nlev o now iob c par fs faults pos in
    so_bail r = false -> so_nio r = 0 \/ iob + so_nio r < o_io_error_limit o.
  Proof.
    cbv zeta. destruct (sync_stripe_counters o now iob c par fs faults pos) as (_ & -> & ->).
    intro Hb. assert (L : lim_ok o iob (ss_A hashf bs o iob c fs faults pos)).
    { unfold ss_A. apply fold_lim. right. left. reflexivity. }
    destruct L as [L|L]; [congruence | exact L].
  Qed.

  (* ---------------------------------------------------------------------------------------------------------------- *)
  (* read_error_safe                                                                                                   *)
  (* ---------------------------------------------------------------------------------------------------------------- *)
  Theorem read_error_safe o now iob c par fs faults pos j f i b :
    j < length (c_disks c) -> slot_of c pos j = SFile f i b ->
    nth j faults None = Some RdIoCont \/ nth j faults None = Some RdErrCont ->
    let r := sync_stripe hashf bs nlev o now iob c par fs faults pos in
    so_bail r = false ->
    (* the stripe is not completed: nothing is written, no block of the stripe changes (none becomes BLK, no hash is stored) *)
    so_write r = None
    /\ (forall k, slot_of (so_content r) pos k = slot_of c pos k)
    (* no info refresh: the word is the old one, or the old one marked bad *)
    /\ (nth pos (c_info (so_content r)) None = nth pos (c_info c) None
        \/ nth pos (c_info (so_content r)) None = mark_bad (nth pos (c_info c) None))
    (* an I/O error marks the stripe bad and is counted; a file error is counted: the exit status is failing *)
    /\ (nth j faults None = Some RdIoCont ->
        nth pos (c_info (so_content r)) None = mark_bad (nth pos (c_info c) None) /\ 0 < so_nio r)
    /\ (nth j faults None = Some RdErrCont -> 0 < so_nerr r).
  Proof.
    intros Hj Hs Hf r Hb.
    destruct (sync_stripe_counters o now iob c par fs faults pos) as (En & Ei & Ebl). fold r in En, Ei, Ebl.
    rewrite Ebl in Hb.
    set (A := ss_A hashf bs o iob c fs faults pos) in *.
    assert (HR : ss_rd bs c fs faults pos j = match nth j faults None with Some x => x | None => RdNone end).
    { unfold ss_rd. rewrite Hs. unfold read_slot. destruct Hf as [-> | ->]; reflexivity. }
    assert (Hin : In (j, slot_of c pos j, ss_rd bs c fs faults pos j) (ss_L bs c fs faults pos)).
    { apply (in_ss_L bs c fs faults pos). exists j. split; [exact Hj | reflexivity]. }
    destruct (ss_spec hashf bs o iob c fs faults pos Hb) as (_ & SE & _ & SI & _ & _ & _). fold A in SE, SI.
    assert (Hflag : a_err A = true \/ a_io A = true).
    { destruct Hf as [E|E].
      - right. destruct (a_io A) eqn:Eio; [reflexivity|]. specialize (SI eq_refl j Hj). rewrite Hs, HR, E in SI. discriminate SI.
      - left. destruct (a_err A) eqn:Ee; [reflexivity|]. specialize (SE eq_refl j Hj). rewrite Hs, HR, E in SE. discriminate SE. }
    assert (Hpro : forall fixed, ss_proceed A fixed = false).
    { intro fixed. unfold ss_proceed. destruct Hflag as [-> | ->]; simpl; [reflexivity | rewrite andb_false_r; reflexivity]. }
    clear En Ei Ebl. unfold r. clear r. rewrite (sync_stripe_eq hashf bs nlev). cbv zeta. fold A. rewrite Hb. rewrite Hpro.
    cbn [so_write so_content so_nio so_nerr c_info c_disks andb].
    split; [reflexivity|]. split; [|split; [|split]].
    - intro k. rewrite ss_disks_slot. rewrite slot_of_nth.
      destruct (nth k (c_disks c) None) as [d|]; [|reflexivity]. apply skipped_disk_slot.
    - unfold ss_info. cbv zeta. rewrite andb_false_l.
      destruct (a_silent A || a_io A); [right; apply nth_set_ext_same | left; reflexivity].
    - intro E. split.
      + assert (Eio : a_io A = true).
        { destruct (a_io A) eqn:Eio; [reflexivity|]. specialize (SI eq_refl j Hj). rewrite Hs, HR, E in SI. discriminate SI. }
        unfold ss_info. cbv zeta. rewrite andb_false_l, Eio, orb_true_r. apply nth_set_ext_same.
      + unfold A, ss_A. eapply fold_count_io; [|exact Hb]. rewrite Hs, HR, E in Hin. exact Hin.
    - intro E. unfold A, ss_A. eapply fold_count_err; [|exact Hb]. rewrite Hs, HR, E in Hin. exact Hin.
  Qed.

  (* ---------------------------------------------------------------------------------------------------------------- *)
  (* the loop: error limit and writer-error accounting                                                                 *)
  (* ---------------------------------------------------------------------------------------------------------------- *)
  Definition below_limit (o : sopts) (ni : nat) : Prop := ni = 0 \/ ni < o_io_error_limit o.

  (* during the loop the count stays below the limit (a run that did not bail never reached it); the end-of-run flush of the
     writers' last reports (sync.c `end:`) may add ONE without testing the limit *)
  Definition below_limit_end (o : sopts) (n : nat) : Prop := below_limit o (pred n) \/ below_limit o n.

  Theorem error_limit o now fs faults wf m lag : forall stripes stop it q nfail c par ne ns ni,
    below_limit o ni ->
    let r := sync_loop_w hashf bs nlev o now fs faults wf m lag stripes stop it q nfail c par ne ns ni in
    ro_bailed (w_run r) = false -> below_limit_end o (ro_nio (w_run r)).
  Proof.
    assert (Base : forall q ni, below_limit o ni -> below_limit_end o (snd (flush_counts q 0 ni))).
    { intros q ni HL. unfold flush_counts. cbn [snd]. destruct (0 <? sum_eio q); [left; exact HL | right; exact HL]. }
    induction stripes as [|pos rest IH]; intros stop it q nfail c par ne ns ni HL; cbn [sync_loop_w]; cbv zeta; [intros _; apply (Base q ni HL)|].
    destruct (negb (stripe_enabled o _)); [apply IH; exact HL|].
    pose proof (stripe_error_limit o now ni c (map (fun lv => nth pos lv PNone) par) fs (faults pos) pos) as SL. cbv zeta in SL.
    destruct stop as [[|k]|]; [intros _; apply (Base q ni HL) | |];
      (destruct (so_bail (sync_stripe hashf bs nlev o now ni c (map (fun lv => nth pos lv PNone) par) fs (faults pos) pos)); [simpl; discriminate|];
       specialize (SL eq_refl);
       assert (HL1 : below_limit o (ni + so_nio (sync_stripe hashf bs nlev o now ni c (map (fun lv => nth pos lv PNone) par) fs (faults pos) pos)))
         by (unfold below_limit in *; destruct SL as [E|E]; [rewrite E, Nat.add_0_r; exact HL | right; exact E]);
       destruct (0 <? sum_eio (filter (is_due it) _)) eqn:Ec; cbn [andb];
       [ destruct (o_io_error_limit o <=? S _) eqn:El; [simpl; discriminate|];
         apply Nat.leb_gt in El;
         destruct (0 <? sum_err (filter (is_due it) _)); [simpl; discriminate|];
         apply IH; right; exact El
       | destruct (0 <? sum_err (filter (is_due it) _)); [simpl; discriminate|];
         apply IH; exact HL1 ]).
  Qed.

  (* every report in the queue is non-zero; while all counters are zero every failed stripe still has its report queued *)
  Definition acct_ok (q : list wrep) (nfail ne ns ni : nat) : Prop :=
    Forall (fun w => rep_nonzero w = true) q /\ (ne + ns + ni = 0 -> length q = nfail).

  Lemma filter_split_length {A} (p : A -> bool) l : length l = length (filter p l) + length (filter (fun x => negb (p x)) l).
  Proof. induction l as [|x t IH]; simpl; [reflexivity|]. destruct (p x); simpl; lia. Qed.
  Lemma sums_zero_nil l : Forall (fun w => rep_nonzero w = true) l -> sum_eio l = 0 -> sum_err l = 0 -> l = [].
  Proof.
    destruct l as [|w t]; [reflexivity|]. intros H E1 E2. inversion H as [|? ? Hw _]. subst. simpl in *.
    unfold rep_nonzero in Hw. apply negb_true_iff, Nat.eqb_neq in Hw. lia.
  Qed.
  Lemma Forall_filter {A} (P : A -> Prop) p l : Forall P l -> Forall P (filter p l).
  Proof. induction 1; simpl; [constructor|]. destruct (p x); [constructor|]; assumption. Qed.

  Theorem writer_accounting o now fs faults wf m lag : forall stripes stop it q nfail c par ne ns ni,
    acct_ok q (length nfail) ne ns ni ->
    let r := sync_loop_w hashf bs nlev o now fs faults wf m lag stripes stop it q nfail c par ne ns ni in
    acct_ok (w_lost r) (w_nfail r) (ro_nerr (w_run r)) (ro_nsilent (w_run r)) (ro_nio (w_run r)).
  Proof.
    assert (Base : forall q nfail ne ns ni, acct_ok q nfail ne ns ni ->
                     acct_ok [] nfail (fst (flush_counts q ne ni)) ns (snd (flush_counts q ne ni))).
    { intros q nfail ne ns ni [HF HL]. split; [constructor|]. unfold flush_counts. cbn [fst snd]. intro E.
      destruct (0 <? sum_err q) eqn:E1; [lia|]. destruct (0 <? sum_eio q) eqn:E2; [lia|].
      apply Nat.ltb_ge in E1. apply Nat.ltb_ge in E2.
      assert (Eq : q = []) by (apply sums_zero_nil; [exact HF | lia | lia]).
      rewrite <- (HL E). rewrite Eq. reflexivity. }
    induction stripes as [|pos rest IH]; intros stop it q nfail c par ne ns ni HK; cbn [sync_loop_w]; cbv zeta; unfold w_nfail; [apply Base; exact HK|].
    destruct (negb (stripe_enabled o _)); [apply IH; exact HK|].
    set (r := sync_stripe hashf bs nlev o now ni c (map (fun lv => nth pos lv PNone) par) fs (faults pos) pos).
    destruct stop as [[|k]|]; [apply Base; exact HK | |];
      (destruct HK as [HF HL];
       destruct (so_bail r); [simpl; split; [exact HF | intro E; apply HL; lia]|];
       set (reps := match so_write r with Some _ => level_reports m lag it pos (wf pos) (length par) | None => [] end);
       set (qa := q ++ reps);
       set (fp' := nfail ++ map wr_pos reps);
       assert (HLn : length fp' = length nfail + length reps) by (unfold fp'; rewrite app_length, map_length; reflexivity);
       set (q2 := filter (fun w => negb (is_due it w)) qa);
       set (seen := filter (is_due it) qa);
       assert (HFr : Forall (fun w => rep_nonzero w = true) reps)
         by (unfold reps; destruct (so_write r); [apply level_reports_nonzero | constructor]);
       assert (HFa : Forall (fun w => rep_nonzero w = true) qa) by (apply Forall_app; split; assumption);
       assert (HLa : ne + so_nerr r + (ns + so_nsilent r) + (ni + so_nio r) = 0 -> length qa = length fp')
         by (intro E; unfold qa; rewrite app_length, HL, HLn by lia; reflexivity);
       assert (HF2 : Forall (fun w => rep_nonzero w = true) q2) by (apply Forall_filter; exact HFa);
       assert (HFs : Forall (fun w => rep_nonzero w = true) seen) by (apply Forall_filter; exact HFa);
       destruct (0 <? sum_eio seen) eqn:Ece; cbn [andb];
       [ destruct (o_io_error_limit o <=? S (ni + so_nio r));
         [ simpl; split; [exact HF2 | intro E; lia]
         | destruct (0 <? sum_err seen);
           [ simpl; split; [exact HF2 | intro E; lia]
           | apply IH; split; [exact HF2 | intro E; lia] ] ]
       | destruct (0 <? sum_err seen) eqn:Ecr;
         [ simpl; split; [exact HF2 | intro E; lia]
         | apply IH; split; [exact HF2|]; intro E;
           apply Nat.ltb_ge in Ece; apply Nat.ltb_ge in Ecr;
           assert (Es : seen = []) by (apply sums_zero_nil; [exact HFs | lia | lia]);
           pose proof (filter_split_length (is_due it) qa) as SPL; fold seen q2 in SPL; rewrite Es in SPL; simpl in SPL;
           rewrite <- SPL; apply HLa; lia ] ]).
  Qed.

  (* single-thread mode: every report is seen at its own iteration, nothing is ever left in the queue *)
  Theorem mono_nothing_lost o now fs faults wf lag : forall stripes stop it nfail c par ne ns ni,
    w_lost (sync_loop_w hashf bs nlev o now fs faults wf Mono lag stripes stop it [] nfail c par ne ns ni) = [].
  Proof.
    induction stripes as [|pos rest IH]; intros stop it nfail c par ne ns ni; cbn [sync_loop_w]; cbv zeta; [reflexivity|].
    destruct (negb (stripe_enabled o _)); [apply IH|].
    set (r := sync_stripe hashf bs nlev o now ni c (map (fun lv => nth pos lv PNone) par) fs (faults pos) pos).
    assert (Q : filter (fun w => negb (is_due it w))
                  ([] ++ match so_write r with Some _ => level_reports Mono lag it pos (wf pos) (length par) | None => [] end) = []).
    { simpl. destruct (so_write r); [apply level_reports_mono_due | reflexivity]. }
    destruct stop as [[|k]|]; [reflexivity | |];
      (destruct (so_bail r); [reflexivity|];
       rewrite Q;
       destruct ((0 <? _) && _); [reflexivity|];
       destruct (0 <? _); [reflexivity|];
       apply IH).
  Qed.

  (* a bail always comes with a counted error *)
  Definition bail_counted (a : acc) : Prop := a_bail a = true -> 0 < a_nerr a + a_nio a.
  Lemma disk_step_bail_counted o iob a x : bail_counted a -> bail_counted (disk_step hashf bs o iob a x).
  Proof.
    intro H. destruct x as [[j s] r]. unfold disk_step. destruct (a_bail a) eqn:Eb; [exact H|].
    unfold bail_counted. dmatch; intro; try congruence; simpl in *; lia.
  Qed.
  Lemma fold_bail_counted o iob l : forall a, bail_counted a -> bail_counted (fold_left (disk_step hashf bs o iob) l a).
  Proof. induction l as [|x t IH]; intros a H; simpl; [exact H|]. apply IH. apply disk_step_bail_counted. exact H. Qed.
  Lemma stripe_bail_counted o now iob c par fs faults pos :
    let r := sync_stripe hashf bs nlev o now iob c par fs faults pos in
    so_bail r = true -> 0 < so_nerr r + so_nio r.
  Proof.
    cbv zeta. destruct (sync_stripe_counters o now iob c par fs faults pos) as (-> & -> & ->).
    apply (fold_bail_counted o iob). intro H. discriminate H.
  Qed.

  Lemma not_bailed_nothing_lost o now fs faults wf m lag : forall stripes stop it q nfail c par ne ns ni,
    let r := sync_loop_w hashf bs nlev o now fs faults wf m lag stripes stop it q nfail c par ne ns ni in
    ro_bailed (w_run r) = false -> w_lost r = [].
  Proof.
    induction stripes as [|pos rest IH]; intros stop it q nfail c par ne ns ni; cbn [sync_loop_w]; cbv zeta; [reflexivity|].
    destruct (negb (stripe_enabled o _)); [apply IH|].
    destruct stop as [[|k]|]; [reflexivity | |];
      (destruct (so_bail _); [simpl; discriminate|];
       destruct ((0 <? _) && _); [simpl; discriminate|];
       destruct (0 <? _); [simpl; discriminate|];
       apply IH).
  Qed.

  Lemma failing_of_pos a b d : 0 < a + b + d -> run_failing (mkRun (mkC [] [] 0) [] a b d true) = true.
  Proof. intro H. unfold run_failing. simpl. destruct (a + b + d =? 0) eqn:E; [apply Nat.eqb_eq in E; lia | reflexivity]. Qed.

  Lemma bailed_failing o now fs faults wf m lag : forall stripes stop it q nfail c par ne ns ni,
    let r := sync_loop_w hashf bs nlev o now fs faults wf m lag stripes stop it q nfail c par ne ns ni in
    ro_bailed (w_run r) = true -> run_failing (w_run r) = true.
  Proof.
    assert (F : forall c' p' a b d, 0 < a + b + d -> run_failing (mkRun c' p' a b d true) = true).
    { intros c' p' a b d H. unfold run_failing. simpl. destruct (a + b + d =? 0) eqn:E; [apply Nat.eqb_eq in E; lia | reflexivity]. }
    induction stripes as [|pos rest IH]; intros stop it q nfail c par ne ns ni; cbn [sync_loop_w]; cbv zeta; [simpl; discriminate|].
    destruct (negb (stripe_enabled o _)); [apply IH|].
    pose proof (stripe_bail_counted o now ni c (map (fun lv => nth pos lv PNone) par) fs (faults pos) pos) as SB. cbv zeta in SB.
    destruct stop as [[|k]|]; [simpl; discriminate | |];
      (destruct (so_bail _) eqn:Eb; [intros _; simpl; apply F; specialize (SB eq_refl); lia|];
       destruct (0 <? sum_eio _) eqn:Ece; cbn [andb];
       [ destruct (o_io_error_limit o <=? _); [intros _; simpl; apply F; lia|];
         destruct (0 <? sum_err _); [intros _; simpl; apply F; lia | apply IH]
       | destruct (0 <? sum_err _); [intros _; simpl; apply F; lia | apply IH] ]).
  Qed.
End W.

(* ---------------------------------------------------------------------------------------------------------------- *)
(* the exit status: what IS true of the writer accounting                                                            *)
(* ---------------------------------------------------------------------------------------------------------------- *)
Theorem write_error_exit_partial hashf bs nlev o now fs faults wf m lag stripes stop c par :
  let r := sync_loop_w hashf bs nlev o now fs faults wf m lag stripes stop 0 [] [] c par 0 0 0 in
  length (w_lost r) < w_nfail r -> run_failing (w_run r) = true.
Proof.
  intros r H.
  destruct (writer_accounting hashf bs nlev o now fs faults wf m lag stripes stop 0 [] [] c par 0 0 0) as [_ K].
  { split; [constructor | reflexivity]. }
  fold r in K. unfold w_nfail in *. unfold run_failing. destruct (ro_nerr (w_run r) + ro_nsilent (w_run r) + ro_nio (w_run r) =? 0) eqn:E; [|reflexivity].
  apply Nat.eqb_eq in E. specialize (K E). lia.
Qed.

(* in single-thread mode a failed parity write always gives a failing exit status (repair 55c30f5 of
   F-C08-mono-writer-errors-lost; on the tree before it this statement was refuted by `wrun Mono 3`) *)
Theorem write_error_exit_mono hashf bs nlev o now fs faults wf lag stripes stop c par :
  let r := sync_loop_w hashf bs nlev o now fs faults wf Mono lag stripes stop 0 [] [] c par 0 0 0 in
  0 < w_nfail r -> run_failing (w_run r) = true.
Proof.
  intros r H. apply write_error_exit_partial. fold r.
  unfold r. rewrite mono_nothing_lost. exact H.
Qed.

(* since the repair 1304269 of F-C08-last-writer-errors-lost: whenever ANY parity write of the run failed the exit status is
   failing, in every mode and for every writer schedule (half of the full-strength statement; on the tree before the repair
   it was refuted by `wrun (Threaded 3) 7`) *)
Theorem write_error_exit_safe hashf bs nlev o now fs faults wf m lag stripes stop c par :
  let r := sync_loop_w hashf bs nlev o now fs faults wf m lag stripes stop 0 [] [] c par 0 0 0 in
  0 < w_nfail r -> run_failing (w_run r) = true.
Proof.
  intros r H. destruct (ro_bailed (w_run r)) eqn:Eb.
  - apply (bailed_failing hashf bs nlev o now fs faults wf m lag stripes stop 0 [] [] c par 0 0 0). exact Eb.
  - apply write_error_exit_partial.
    rewrite (not_bailed_nothing_lost hashf bs nlev o now fs faults wf m lag stripes stop 0 [] [] c par 0 0 0 Eb). exact H.
Qed.

(* ---------------------------------------------------------------------------------------------------------------- *)
(* write_error_safe: the stripe of every failed parity write ends marked bad (repair 0ecd44a)                        *)
(* ---------------------------------------------------------------------------------------------------------------- *)
Definition bad_at (c : content) (p : nat) : Prop := exists i, nth p (c_info c) None = Some i /\ i_bad i = true.

Lemma mark_bad_is_bad oi : exists i, mark_bad oi = Some i /\ i_bad i = true.
Proof. unfold mark_bad. destruct oi; eexists; split; reflexivity. Qed.
Lemma mark_bad_at_same c p : bad_at (mark_bad_at c p) p.
Proof. unfold bad_at, mark_bad_at. cbn [c_info]. rewrite nth_set_ext_same. apply mark_bad_is_bad. Qed.
Lemma mark_bad_at_keeps c p' p : bad_at c p -> bad_at (mark_bad_at c p') p.
Proof.
  intro H. destruct (Nat.eq_dec p p') as [->|Hne]; [apply mark_bad_at_same|].
  unfold bad_at, mark_bad_at in *. cbn [c_info]. rewrite nth_set_ext_other by exact Hne. exact H.
Qed.
Lemma mark_bad_all_keeps ps : forall c p, bad_at c p -> bad_at (mark_bad_all c ps) p.
Proof. unfold mark_bad_all. induction ps as [|x t IH]; intros c p H; simpl; [exact H|]. apply IH. apply mark_bad_at_keeps. exact H. Qed.
Lemma mark_bad_all_marks ps : forall c p, In p ps -> bad_at (mark_bad_all c ps) p.
Proof.
  unfold mark_bad_all. induction ps as [|x t IH]; intros c p H; [destruct H|]. simpl. destruct H as [->|H].
  - apply (mark_bad_all_keeps t). apply mark_bad_at_same.
  - apply IH. exact H.
Qed.
(* the marks touch nothing else: the block maps are unchanged, and so is every info word outside the listed stripes *)
Lemma mark_bad_all_frame ps : forall c,
  c_disks (mark_bad_all c ps) = c_disks c /\ c_blockmax (mark_bad_all c ps) = c_blockmax c /\
  forall p, ~ In p ps -> nth p (c_info (mark_bad_all c ps)) None = nth p (c_info c) None.
Proof.
  unfold mark_bad_all. induction ps as [|x t IH]; intro c; simpl; [repeat split|].
  destruct (IH (mark_bad_at c x)) as (D & B & I). split; [rewrite D; reflexivity|]. split; [rewrite B; reflexivity|].
  intros p Hp. rewrite I by (intro H; apply Hp; right; exact H).
  unfold mark_bad_at. cbn [c_info]. apply nth_set_ext_other. intro E. apply Hp. left. symmetry. exact E.
Qed.

Lemma bad_not_healthy c p : bad_at c p -> recorded_healthy c p = false.
Proof. intros [i [E B]]. unfold recorded_healthy. rewrite E, B. simpl. apply andb_false_r. Qed.

Lemma level_reports_pos m lag it pos wl nl w : In w (level_reports m lag it pos wl nl) -> wr_pos w = pos.
Proof.
  unfold level_reports. intro H. apply in_flat_map in H. destruct H as [l [_ H]].
  destruct (wl l); [destruct H | destruct H as [<-|[]]; reflexivity | destruct H as [<-|[]]; reflexivity | destruct H as [<-|[]]; reflexivity].
Qed.

Section Safe.
  Variable hashf : bid -> N -> hval.
  Variable bs : N.
  Variable nlev : nat.

  (* every failed write so far is still waiting in the queue, or its stripe is already marked *)
  Definition marks_ok (q : list wrep) (fp : list nat) (c : content) : Prop :=
    forall p, In p fp -> In p (map wr_pos q) \/ bad_at c p.

  Lemma stripe_keeps_bad o now iob c par fs faults pos p :
    p <> pos -> bad_at c p -> bad_at (so_content (sync_stripe hashf bs nlev o now iob c par fs faults pos)) p.
  Proof.
    intros Hne [i [E B]]. destruct (sync_stripe_other_stripes hashf bs nlev o now iob c par fs faults pos) as [_ Fr].
    destruct (Fr p Hne) as (_ & Ei & _). exists i. rewrite Ei. auto.
  Qed.

  Lemma in_map_filter_split (f : wrep -> bool) (l : list wrep) p :
    In p (map wr_pos l) -> In p (map wr_pos (filter f l)) \/ In p (map wr_pos (filter (fun w => negb (f w)) l)).
  Proof.
    intro H. apply in_map_iff in H. destruct H as [w [E Hw]]. destruct (f w) eqn:Ef.
    - left. apply in_map_iff. exists w. split; [exact E|]. apply filter_In. auto.
    - right. apply in_map_iff. exists w. split; [exact E|]. apply filter_In. rewrite Ef. auto.
  Qed.

  Theorem failed_writes_marked o now fs faults wf m lag : forall stripes stop it q fp c par ne ns ni,
    NoDup stripes -> (forall p, In p fp -> ~ In p stripes) -> marks_ok q fp c ->
    let r := sync_loop_w hashf bs nlev o now fs faults wf m lag stripes stop it q fp c par ne ns ni in
    forall p, In p (w_fpos r) -> bad_at (ro_content (w_run r)) p.
  Proof.
    assert (End : forall q fp c, marks_ok q fp c -> forall p, In p fp -> bad_at (mark_bad_all c (map wr_pos q)) p).
    { intros q fp c H p Hp. destruct (H p Hp) as [Hq|Hb]; [apply mark_bad_all_marks; exact Hq | apply mark_bad_all_keeps; exact Hb]. }
    induction stripes as [|pos rest IH]; intros stop it q fp c par ne ns ni ND Hfp HM; cbn [sync_loop_w]; cbv zeta.
    - cbn [w_fpos w_run ro_content]. apply (End q fp c HM).
    - inversion ND as [|? ? Hnin ND']. subst.
      assert (Hfp' : forall p, In p fp -> ~ In p rest) by (intros p Hp H; apply (Hfp p Hp); right; exact H).
      destruct (negb (stripe_enabled o _)); [apply IH; assumption|].
      set (r := sync_stripe hashf bs nlev o now ni c (map (fun lv => nth pos lv PNone) par) fs (faults pos) pos).
      (* after the stripe itself: the marks of the earlier stripes are kept *)
      assert (HM1 : marks_ok q fp (so_content r)).
      { intros p Hp. destruct (HM p Hp) as [Hq|Hb]; [left; exact Hq|]. right. apply stripe_keeps_bad; [|exact Hb].
        intro E. subst p. apply (Hfp pos Hp). left. reflexivity. }
      destruct stop as [[|k]|]; [cbn [w_fpos w_run ro_content]; apply (End q fp c HM) | |];
        (destruct (so_bail r); [cbn [w_fpos w_run ro_content]; apply (End q fp (so_content r) HM1)|];
         set (reps := match so_write r with Some _ => level_reports m lag it pos (wf pos) (length par) | None => [] end);
         assert (Hrp : forall x, In x (map wr_pos reps) -> x = pos)
           by (intros x Hx; apply in_map_iff in Hx; destruct Hx as [w [<- Hw]]; unfold reps in Hw; destruct (so_write r); [eapply level_reports_pos; exact Hw | destruct Hw]);
         assert (HMa : marks_ok (q ++ reps) (fp ++ map wr_pos reps) (so_content r))
           by (intros p Hp; apply in_app_or in Hp; destruct Hp as [Hp|Hp];
               [ destruct (HM1 p Hp) as [Hq|Hb]; [left; rewrite map_app; apply in_or_app; left; exact Hq | right; exact Hb]
               | left; rewrite map_app; apply in_or_app; right; exact Hp ]);
         assert (Hfpa : forall p, In p (fp ++ map wr_pos reps) -> ~ In p rest)
           by (intros p Hp; apply in_app_or in Hp; destruct Hp as [Hp|Hp]; [apply Hfp'; exact Hp | rewrite (Hrp p Hp); exact Hnin]);
         destruct ((0 <? _) && _);
         [ cbn [w_fpos w_run ro_content]; apply (End _ _ _ HMa)
         | destruct (0 <? _);
           [ cbn [w_fpos w_run ro_content]; apply (End _ _ _ HMa)
           | apply IH; [exact ND' | exact Hfpa |];
             intros p Hp; destruct (HMa p Hp) as [Hq|Hb];
             [ destruct (in_map_filter_split (is_due it) (q ++ reps) p Hq) as [Hs|Hu];
               [ right; apply mark_bad_all_marks; exact Hs | left; exact Hu ]
             | right; apply mark_bad_all_keeps; exact Hb ] ] ]).
  Qed.
End Safe.

(* C08 for parity writes (after the repairs 55c30f5, 1304269, 0ecd44a): for every fault sequence, io mode and writer schedule,
   (1) whenever a parity write failed the exit status is failing, (2) the stripe of every failed write is marked bad in the
   final state, hence not recorded synced-and-healthy; the marks touch nothing else (mark_bad_all_frame) *)
Theorem write_error_safe hashf bs nlev o now fs faults wf m lag stripes stop c par :
  NoDup stripes ->
  let r := sync_loop_w hashf bs nlev o now fs faults wf m lag stripes stop 0 [] [] c par 0 0 0 in
  (0 < w_nfail r -> run_failing (w_run r) = true) /\
  (forall p, In p (w_fpos r) -> bad_at (ro_content (w_run r)) p /\ recorded_healthy (ro_content (w_run r)) p = false).
Proof.
  intros ND r. split; [apply write_error_exit_safe|].
  intros p Hp.
  assert (B : bad_at (ro_content (w_run r)) p).
  { apply (failed_writes_marked hashf bs nlev o now fs faults wf m lag stripes stop 0 [] [] c par 0 0 0 ND); [intros x [] | intros x [] | exact Hp]. }
  split; [exact B | apply bad_not_healthy; exact B].
Qed.

(* ---------------------------------------------------------------------------------------------------------------- *)
(* parity_write accepts a pwrite iff the whole block was transferred; the pre-hash phase fails on any read problem    *)
(* ---------------------------------------------------------------------------------------------------------------- *)
Lemma classify_pwrite_ok bs r : classify_pwrite bs r = WOk <-> r = PwCount bs.
Proof.
  split.
  - destruct r as [n|[|]]; simpl; try discriminate. destruct (N.eqb n bs) eqn:E; [|discriminate]. apply N.eqb_eq in E. subst. reflexivity.
  - intros ->. simpl. rewrite N.eqb_refl. reflexivity.
Qed.
(* a short count is reported as the fatal (non-EIO) kind, like ENOSPC *)
Lemma classify_short_reported bs n m lag it pos nl l :
  n <> bs -> l < nl ->
  In (mkWR (report_due m (lag pos l) it) 0 1 pos)
     (level_reports m lag it pos (fun k => if Nat.eqb k l then classify_pwrite bs (PwCount n) else WOk) nl).
Proof.
  intros Hn Hl. unfold level_reports.
  apply in_flat_map. exists l. split; [apply in_seq; lia|]. rewrite Nat.eqb_refl. simpl.
  destruct (N.eqb n bs) eqn:E; [apply N.eqb_eq in E; contradiction | left; reflexivity].
Qed.

Lemma hash_step_counts a x : h_nerr a + h_nsilent a + h_nio a <= h_nerr (hash_step a x) + h_nsilent (hash_step a x) + h_nio (hash_step a x).
Proof. unfold hash_step. destruct (h_bailed a); [lia|]. destruct x; simpl; lia. Qed.
Lemma hash_fold_counts l : forall a, h_nerr a + h_nsilent a + h_nio a <=
  h_nerr (fold_left hash_step l a) + h_nsilent (fold_left hash_step l a) + h_nio (fold_left hash_step l a).
Proof. induction l as [|x t IH]; intro a; simpl; [lia|]. pose proof (hash_step_counts a x). pose proof (IH (hash_step a x)). lia. Qed.
Definition hash_inv (a : hout) : Prop := h_bailed a = true -> 0 < h_nerr a + h_nsilent a + h_nio a.
(* any block of the pre-hash phase that is not read-and-matching makes the command fail, wherever it is: either it is reached and
   counted, or an earlier one stopped the phase and was counted *)
Theorem prehash_error_fails outs : (exists x, In x outs /\ x <> HOk) -> hash_failing (hash_phase outs) = true.
Proof.
  intros [x [Hin Hx]]. unfold hash_failing, hash_phase.
  assert (G : forall l a, hash_inv a -> In x l -> 0 < h_nerr (fold_left hash_step l a) + h_nsilent (fold_left hash_step l a) + h_nio (fold_left hash_step l a)).
  { induction l as [|y t IH]; intros a Ha H; [destruct H|]. simpl. destruct H as [->|H].
    - pose proof (hash_fold_counts t (hash_step a x)) as M.
      assert (0 < h_nerr (hash_step a x) + h_nsilent (hash_step a x) + h_nio (hash_step a x)).
      { unfold hash_step. destruct (h_bailed a) eqn:Eb; [apply Ha; exact Eb|]. destruct x; simpl; try lia. contradiction. }
      lia.
    - apply IH; [|exact H]. unfold hash_inv, hash_step. destruct (h_bailed a) eqn:Eb; [exact Ha|]. destruct y; simpl; intro Hb; try discriminate Hb; try lia; rewrite Eb in Hb; discriminate Hb. }
  specialize (G outs (mkHO 0 0 0 false false)). 
  assert (P : 0 < h_nerr (fold_left hash_step outs (mkHO 0 0 0 false false)) + h_nsilent (fold_left hash_step outs (mkHO 0 0 0 false false)) + h_nio (fold_left hash_step outs (mkHO 0 0 0 false false))).
  { apply G; [intro H; discriminate H | exact Hin]. }
  destruct (_ =? 0) eqn:E; [apply Nat.eqb_eq in E; lia | reflexivity].
Qed.
(* an I/O error also makes the sync phase be skipped: nothing gets recorded synced by this run *)
Theorem prehash_eio_skips outs : In HEio outs -> h_skip (hash_phase outs) = true.
Proof.
  unfold hash_phase. intro Hin.
  assert (K : forall l a, h_skip a = true -> h_skip (fold_left hash_step l a) = true).
  { induction l as [|y t IH]; intros a H; simpl; [exact H|]. apply IH. unfold hash_step. destruct (h_bailed a); [exact H|]. destruct y; simpl; auto. }
  assert (G : forall l a, (h_bailed a = true -> h_skip a = true) -> In HEio l -> h_skip (fold_left hash_step l a) = true).
  { induction l as [|y t IH]; intros a Ha H; [destruct H|]. simpl. destruct H as [->|H].
    - apply K. unfold hash_step. destruct (h_bailed a) eqn:Eb; [apply Ha; reflexivity | reflexivity].
    - apply IH; [|exact H]. unfold hash_step. destruct (h_bailed a) eqn:Eb; [intros _; apply Ha; reflexivity|]. destruct y; simpl; auto; intro Hb; try discriminate Hb; rewrite Eb in Hb; discriminate Hb. }
  apply G; [intro H; discriminate H | exact Hin].
Qed.

(* ---------------------------------------------------------------------------------------------------------------- *)
(* scrub                                                                                                             *)
(* ---------------------------------------------------------------------------------------------------------------- *)
Ltac dm := repeat match goal with |- context [match ?x with _ => _ end] => destruct x eqn:?; simpl in * end.

Definition sio_ok (a : sacc) : Prop := sa_bail a = true \/ (sa_io a = true /\ 0 < sa_nio a).
Lemma scrub_disk_step_keeps l i a t : sio_ok a -> sio_ok (scrub_disk_step l i a t).
Proof. unfold sio_ok, scrub_disk_step. intros [H|[H1 H2]]; [rewrite H; auto|]. dm; auto; right; split; auto; lia. Qed.
Lemma scrub_par_step_keeps l i a p : sio_ok a -> sio_ok (scrub_par_step l i a p).
Proof. unfold sio_ok, scrub_par_step. intros [H|[H1 H2]]; [rewrite H; auto|]. dm; auto; right; split; auto; lia. Qed.
Lemma scrub_disk_step_io l i a t : st_used t = true -> st_file t = true -> st_out t = SdIoCont -> sio_ok (scrub_disk_step l i a t).
Proof. unfold sio_ok, scrub_disk_step. intros H1 H2 H3. rewrite H1, H2, H3. dm; auto; right; split; auto; lia. Qed.
Lemma scrub_par_step_io l i a : sio_ok (scrub_par_step l i a SpIoCont).
Proof. unfold sio_ok, scrub_par_step. dm; auto; right; split; auto; lia. Qed.
Lemma fold_disk_keeps l i ts : forall a, sio_ok a -> sio_ok (fold_left (scrub_disk_step l i) ts a).
Proof. induction ts; intros; simpl; auto using scrub_disk_step_keeps. Qed.
Lemma fold_par_keeps l i ps : forall a, sio_ok a -> sio_ok (fold_left (scrub_par_step l i) ps a).
Proof. induction ps; intros; simpl; auto using scrub_par_step_keeps. Qed.
Lemma fold_disk_io l i ts : forall a t, In t ts -> st_used t = true -> st_file t = true -> st_out t = SdIoCont ->
  sio_ok (fold_left (scrub_disk_step l i) ts a).
Proof.
  induction ts as [|x tl IH]; intros a t Hin H1 H2 H3; [destruct Hin|]. simpl. destruct Hin as [->|Hin].
  - apply fold_disk_keeps. apply scrub_disk_step_io; assumption.
  - eapply IH; eauto.
Qed.
Lemma fold_par_io l i ps : forall a, In SpIoCont ps -> sio_ok (fold_left (scrub_par_step l i) ps a).
Proof.
  induction ps as [|x tl IH]; intros a Hin; [destruct Hin|]. simpl. destruct Hin as [->|Hin].
  - apply fold_par_keeps. apply scrub_par_step_io.
  - apply IH. exact Hin.
Qed.

Theorem scrub_read_error_safe limit iob now inf disks pars :
  (exists t, In t disks /\ st_used t = true /\ st_file t = true /\ st_out t = SdIoCont) \/ In SpIoCont pars ->
  let r := scrub_stripe limit iob now inf disks pars in
  sc_bail r = false ->
  sc_info r = mkInfo (i_time inf) true (i_rehash inf) (i_justsynced inf) /\ 0 < sc_nio r.
Proof.
  intros H r. unfold r, scrub_stripe. cbv zeta.
  set (a1 := fold_left (scrub_disk_step limit iob) disks _).
  set (a2 := fold_left (scrub_par_step limit iob) pars a1).
  assert (K : sio_ok a2).
  { destruct H as [[t (Hin & H1 & H2 & H3)]|H].
    - apply fold_par_keeps. eapply fold_disk_io; eauto.
    - apply fold_par_io. exact H. }
  destruct (sa_bail a2) eqn:Eb; [simpl; discriminate|]. intros _.
  destruct K as [K|[K1 K2]]; [congruence|].
  rewrite K1. rewrite !andb_false_r. simpl. rewrite K1, orb_true_r. split; [reflexivity | exact K2].
Qed.

