(* C08 -- the full-strength statement about parity-write errors and its three refutations (concrete witnesses evaluated
   by vm_compute on CLOSED terms only), plus the non-vacuity examples.  Kept apart from FaultProofs.v so that each file
   compiles in a few seconds. *)
From Coq Require Import NArith ZArith List Bool Arith Lia.
From Snap.Array Require Import ArrayDefs SyncModel SyncProofsDefs.
From Snap.Fault Require Import FaultModel.
Import ListNotations.

(* ---------------------------------------------------------------------------------------------------------------- *)
(* write faults: the full-strength statement and its three refutations                                               *)
(* ---------------------------------------------------------------------------------------------------------------- *)
(* a stripe recorded synced and healthy holds, in every level, a block produced by the generator *)
Definition no_false_protection (c : content) (par : parity) : Prop :=
  forall pos, recorded_healthy c pos = true -> forall lv, In lv par -> exists v, nth pos lv PNone = PEnc v.

(* C08 for parity writes, at full strength: whenever some pwrite of the run fails the exit status is failing, and no
   stripe ends recorded synced-and-healthy over a block that was not written *)
Definition write_error_safe_stmt : Prop :=
  forall hashf bs nlev o now fs faults wf m lag stripes stop c par,
    no_false_protection c par ->
    let r := sync_loop_w hashf bs nlev o now fs faults wf m lag stripes stop 0 [] 0 c par 0 0 0 in
    (0 < w_nfail r -> run_failing (w_run r) = true) /\ no_false_protection (ro_content (w_run r)) (ro_parity (w_run r)).

(* the witness array: two data disks, one 8 KiB file each (8 blocks, just added: CHG with cleared past hash), one parity
   level of 8 blocks holding nothing known, no faults but ONE failing pwrite (EIO) at stripe k *)
Definition hz (b : bid) (len : N) : hval := HReal b.
Definition wfile (name : N) : cfile :=
  mkCF name 8192 100 0 (name + 10) false (map (fun i => mkFB SChg i HInvalid) (seq 0 8)).
Definition wc : content := mkC [Some (mkCD [wfile 1] [] [] []); Some (mkCD [wfile 2] [] [] [])] [] 8.
Definition wfs : list (option fsdisk) :=
  [Some [mkFF 1 8192 100 0 11 (map (fun i => N.of_nat (i + 1)) (seq 0 8))];
   Some [mkFF 2 8192 100 0 12 (map (fun i => N.of_nat (i + 11)) (seq 0 8))]].
Definition wpar : parity := [map (fun i => PJunk (N.of_nat (S i))) (seq 0 8)].
Definition wo : sopts := mkSO false false 100.
Definition wrun (m : iomode) (k : nat) : wrun :=
  sync_loop_w hz 1024 1 wo 7 wfs (fun _ => []) (fun pos l => if Nat.eqb pos k then WEio else WOk) m (fun _ _ => 1)
              (seq 0 8) None 0 [] 0 wc wpar 0 0 0.

Lemma wc_no_false_protection : no_false_protection wc wpar.
Proof.
  intros pos H. unfold recorded_healthy in H.
  assert (E : nth pos (c_info wc) None = None) by (destruct pos; reflexivity).
  rewrite E in H. rewrite andb_false_r in H. discriminate.
Qed.

(* threaded, the failing write is not among the last queued: the error is counted (exit 1) but the stripe is recorded
   synced, just-synced, not bad, over the old parity block *)
Theorem write_error_refuted_threaded_notlast :
  let r := wrun (Threaded 3) 3 in
  w_nfail r = 1 /\ run_failing (w_run r) = true /\ ro_nio (w_run r) = 1 /\
  recorded_healthy (ro_content (w_run r)) 3 = true /\ nth 3 (nth 0 (ro_parity (w_run r)) []) PNone = PJunk 4.
Proof. vm_compute. repeat split. Qed.

(* threaded, the failing write is the last one queued: since the repair 1304269 of F-C08-last-writer-errors-lost its report is
   collected by the end-of-run flush and the exit status is failing (FaultProofs.write_error_exit_safe); the stripe is
   nevertheless recorded synced over the old block *)
Theorem write_error_last_recorded_synced :
  let r := wrun (Threaded 3) 7 in
  w_nfail r = 1 /\ run_failing (w_run r) = true /\ length (w_lost r) = 0 /\
  recorded_healthy (ro_content (w_run r)) 7 = true /\ nth 7 (nth 0 (ro_parity (w_run r)) []) PNone = PJunk 8.
Proof. vm_compute. repeat split. Qed.

(* single-thread mode (after the repair of F-C08-mono-writer-errors-lost the exit status is failing:
   FaultProofs.write_error_exit_mono): the stripe is nevertheless recorded synced over the old parity block *)
Theorem write_error_refuted_mono_recorded_synced :
  let r := wrun Mono 3 in
  w_nfail r = 1 /\ run_failing (w_run r) = true /\ length (w_lost r) = 0 /\
  recorded_healthy (ro_content (w_run r)) 3 = true /\ nth 3 (nth 0 (ro_parity (w_run r)) []) PNone = PJunk 4.
Proof. vm_compute. repeat split. Qed.

Theorem write_error_safe_refuted : ~ write_error_safe_stmt.
Proof.
  intro H.
  destruct (H hz 1024%N 1 wo 7%N wfs (fun _ => []) (fun pos l => if Nat.eqb pos 3 then WEio else WOk) (Threaded 3) (fun _ _ => 1)
              (seq 0 8) None wc wpar wc_no_false_protection) as [_ NF].
  (* only closed terms are evaluated, by vm_compute; the hypotheses are matched syntactically *)
  match type of NF with
  | no_false_protection ?c ?p =>
      assert (Hh : recorded_healthy c 3 = true) by (vm_compute; reflexivity);
      assert (Hp : nth 3 (nth 0 p []) PNone = PJunk 4) by (vm_compute; reflexivity);
      assert (Hin : In (nth 0 p []) p) by (vm_compute; left; reflexivity)
  end.
  destruct (NF 3 Hh _ Hin) as [v Hv]. rewrite Hp in Hv. discriminate Hv.
Qed.

(* non-vacuity of read_error_safe and error_limit: an EIO reading disk 0 at stripe 2 of the witness array *)
Example read_error_safe_nonvacuous :
  let r := sync_stripe hz 1024 1 wo 7 0 wc [PJunk 3] wfs [Some RdIoCont] 2 in
  slot_has_file (slot_of wc 2 0) = true /\ so_bail r = false /\ so_nio r = 1 /\ so_write r = None.
Proof. vm_compute. repeat split. Qed.
Example error_limit_nonvacuous :
  let r := sync_loop_w hz 1024 1 (mkSO false false 2) 7 wfs (fun p => if Nat.eqb p 1 || Nat.eqb p 4 then [Some RdIoCont] else [])
                       (fun _ _ => WOk) (Threaded 3) (fun _ _ => 1) (seq 0 8) None 0 [] 0 wc wpar 0 0 0 in
  ro_bailed (w_run r) = true /\ ro_nio (w_run r) = 2 /\ recorded_healthy (ro_content (w_run r)) 5 = false.
Proof. vm_compute. repeat split. Qed.
Example scrub_read_error_nonvacuous :
  let r := scrub_stripe 100 0 77 (mkInfo 8 false false true) [mkST true false true false true (SdOk true); mkST true false true false true SdIoCont] [SpOk true] in
  sc_bail r = false /\ sc_nio r = 1 /\ i_bad (sc_info r) = true /\ i_time (sc_info r) = 8%N.
Proof. vm_compute. repeat split. Qed.
