(* C08 -- concrete instances (vm_compute on CLOSED terms only): the former refutation witnesses of the parity-write statement,
   now regression examples, plus the non-vacuity examples.  Kept apart from FaultProofs.v so that each file
   compiles in a few seconds. *)
From Coq Require Import NArith ZArith List Bool Arith Lia.
From Snap.Array Require Import ArrayDefs SyncModel SyncProofsDefs.
From Snap.Fault Require Import FaultModel.
Import ListNotations.

(* ---------------------------------------------------------------------------------------------------------------- *)
(* write faults: the three situations that refuted the property on the pinned tree (F-C08, three keys), replayed on the model of the   *)
(* repaired tree (55c30f5, 1304269, 0ecd44a): now instances of FaultProofs.write_error_safe.  The check replays them on the binary.    *)
(* ---------------------------------------------------------------------------------------------------------------- *)
(* the witness array: two data disks, one 8 KiB file each (8 blocks, just added: CHG with cleared past hash), one parity
   level of 8 blocks holding nothing known, no faults but ONE failing pwrite (EIO) at stripe k *)
Definition hz (b : bid) (len : N) : hval := HReal b.
Definition wfile (name : N) : cfile :=
  mkCF name 8192 100 0 (name + 10) false (map (fun i => mkFB SChg i HInvalid) (seq 0 8)).
Definition wc : content := mkC [Some (mkCD [wfile 1] [] [] []); Some (mkCD [wfile 2] [] [] [])] [] 8.
Definition wfs : list (option fsdisk) :=
  [Some [mkFF 1 8192 100 0 11 (map (fun i => N.of_nat (i + 1)) (seq 0 8))];
   Some [mkFF 2 8192 100 0 12 (map (fun i => N.of_nat (i + 11)) (seq 0 8))]].
Definition wpar : parity := [map (fun i => PJunk (N.of_nat (S i))) (seq 0 8)].
Definition wo : sopts := mkSO false false 100.
Definition wrun (m : iomode) (k : nat) : wrun :=
  sync_loop_w hz 1024 1 wo 7 wfs (fun _ => []) (fun pos l => if Nat.eqb pos k then WEio else WOk) m (fun _ _ => 1)
              (seq 0 8) None 0 [] [] wc wpar 0 0 0.

(* threaded, the failing write is not among the last queued (was: exit 1 but recorded synced and healthy) *)
Example write_error_threaded_notlast_now_bad :
  let r := wrun (Threaded 3) 3 in
  w_fpos r = [3] /\ run_failing (w_run r) = true /\ ro_nio (w_run r) = 1 /\
  recorded_healthy (ro_content (w_run r)) 3 = false /\
  nth 3 (c_info (ro_content (w_run r))) None = Some (mkInfo 7 true false true) /\
  recorded_healthy (ro_content (w_run r)) 4 = true /\
  nth 3 (nth 0 (ro_parity (w_run r)) []) PNone = PJunk 4.
Proof. vm_compute. repeat split. Qed.

(* threaded, the failing write is the last one queued (was: exit 0, 'Everything OK'): counted and marked by the end-of-run flush *)
Example write_error_threaded_last_now_bad :
  let r := wrun (Threaded 3) 7 in
  w_fpos r = [7] /\ run_failing (w_run r) = true /\ length (w_lost r) = 0 /\
  recorded_healthy (ro_content (w_run r)) 7 = false /\ nth 7 (nth 0 (ro_parity (w_run r)) []) PNone = PJunk 8.
Proof. vm_compute. repeat split. Qed.

(* single-thread mode (was: exit 0 wherever the write failed) *)
Example write_error_mono_now_bad :
  let r := wrun Mono 3 in
  w_fpos r = [3] /\ run_failing (w_run r) = true /\ length (w_lost r) = 0 /\
  recorded_healthy (ro_content (w_run r)) 3 = false /\ nth 3 (nth 0 (ro_parity (w_run r)) []) PNone = PJunk 4.
Proof. vm_compute. repeat split. Qed.

(* a fatal write error (ENOSPC) stops the run at the iteration that sees it: the stripe is marked bad all the same, the stripes
   after the stop stay unsynced *)
Example write_error_fatal_now_bad :
  let r := sync_loop_w hz 1024 1 wo 7 wfs (fun _ => []) (fun pos l => if Nat.eqb pos 2 then WErr else WOk) (Threaded 3) (fun _ _ => 1)
                       (seq 0 8) None 0 [] [] wc wpar 0 0 0 in
  ro_bailed (w_run r) = true /\ run_failing (w_run r) = true /\ w_fpos r = [2] /\
  recorded_healthy (ro_content (w_run r)) 2 = false /\ recorded_healthy (ro_content (w_run r)) 3 = true /\
  recorded_healthy (ro_content (w_run r)) 4 = false.
Proof. vm_compute. repeat split. Qed.

(* a short count (half the block written) at stripe 5, single-thread mode: fatal, the stripe is marked bad, its block is junk *)
Example write_short_count_now_bad :
  let r := sync_loop_w hz 1024 1 wo 7 wfs (fun _ => []) (fun pos l => if Nat.eqb pos 5 then classify_pwrite 1024 (PwCount 512) else WOk) Mono (fun _ _ => 1)
                       (seq 0 8) None 0 [] [] wc wpar 0 0 0 in
  ro_bailed (w_run r) = true /\ run_failing (w_run r) = true /\ w_fpos r = [5] /\
  recorded_healthy (ro_content (w_run r)) 5 = false /\ nth 5 (nth 0 (ro_parity (w_run r)) []) PNone = PJunk 0 /\
  recorded_healthy (ro_content (w_run r)) 6 = false.
Proof. vm_compute. repeat split. Qed.
Example prehash_nonvacuous :
  hash_failing (hash_phase [HOk; HOk; HEio; HOk]) = true /\ h_skip (hash_phase [HOk; HOk; HEio; HOk]) = true /\
  h_nio (hash_phase [HOk; HOk; HEio; HOk]) = 1 /\ hash_failing (hash_phase [HOk; HOk]) = false.
Proof. vm_compute. repeat split. Qed.

(* non-vacuity of read_error_safe and error_limit: an EIO reading disk 0 at stripe 2 of the witness array *)
Example read_error_safe_nonvacuous :
  let r := sync_stripe hz 1024 1 wo 7 0 wc [PJunk 3] wfs [Some RdIoCont] 2 in
  slot_has_file (slot_of wc 2 0) = true /\ so_bail r = false /\ so_nio r = 1 /\ so_write r = None.
Proof. vm_compute. repeat split. Qed.
Example error_limit_nonvacuous :
  let r := sync_loop_w hz 1024 1 (mkSO false false 2) 7 wfs (fun p => if Nat.eqb p 1 || Nat.eqb p 4 then [Some RdIoCont] else [])
                       (fun _ _ => WOk) (Threaded 3) (fun _ _ => 1) (seq 0 8) None 0 [] [] wc wpar 0 0 0 in
  ro_bailed (w_run r) = true /\ ro_nio (w_run r) = 2 /\ recorded_healthy (ro_content (w_run r)) 5 = false.
Proof. vm_compute. repeat split. Qed.
Example scrub_read_error_nonvacuous :
  let r := scrub_stripe 100 0 77 (mkInfo 8 false false true) [mkST true false true false true (SdOk true); mkST true false true false true SdIoCont] [SpOk true] in
  sc_bail r = false /\ sc_nio r = 1 /\ i_bad (sc_info r) = true /\ i_time (sc_info r) = 8%N.
Proof. vm_compute. repeat split. Qed.
