(* C07 -- kill_inv for a FORCED full sync (-F), which KillProofs.kill_inv excludes.

   Verdict.  With -F a stripe recorded synced in a content already on disk IS rewritten.  In the crash-state model of
   FaultModel.v a torn write always leaves PJunk 1, so there kill_inv is false for -F (kill_inv_forced_torn_refuted).  But
   that is an over-approximation, not tool behaviour: the block sync -F writes over a synced stripe with valid parity is
   the block that is already there (synced_rewrite_identical: the vector it encodes fits the same recorded hashes, hence
   is the same vector when the hash does not collide), and a torn write of bytes over the same bytes leaves those bytes.
   With the crash states refined by exactly this (level_state_eq: a torn write whose target already holds the value
   written changes nothing; everything else as in FaultModel) kill_inv holds for forced and unforced syncs alike
   (kill_inv_forced), given the C06 invariant at the start of the loop and collision-freedom of the block hash.  The
   refinement changes nothing for the writes kill_inv is about (level_state_eq_cases), and without torn writes the two
   notions of crash state coincide (kill_inv_forced_notorn is about FaultModel.level_state itself). *)
From Coq Require Import NArith ZArith List Bool Arith Lia.
From Snap.Array Require Import ArrayDefs SyncModel SyncProofsDefs SyncProofsStripe SyncProofsLoop.
From Snap.Fault Require Import FaultModel KillProofs.
Import ListNotations.

(* ---------------------------------------------------------------------------------------------------------------- *)
(* refined crash states                                                                                              *)
(* ---------------------------------------------------------------------------------------------------------------- *)
Definition penc_eq_dec (a b : penc) : {a = b} + {a <> b}.
Proof. decide equality; [apply (list_eq_dec N.eq_dec) | apply N.eq_dec]. Defined.

(* FaultModel.level_state, except that a torn write of a block over an equal block leaves that block *)
Definition level_state_eq (sch : list (nat * list bid)) (base : list penc) (k : nat) (torn : bool) : list penc :=
  let lv := apply_writes (firstn k sch) base in
  if torn then match nth_error sch k with
               | Some (p, v) => if penc_eq_dec (nth p lv PNone) (PEnc v) then lv else set_ext PNone p (PJunk 1) lv
               | None => lv end
  else lv.

Lemma level_state_eq_notorn sch base k : level_state_eq sch base k false = level_state sch base k false.
Proof. reflexivity. Qed.
(* the refinement only concerns a torn write whose target already holds the value being written: then the state is the one
   without the torn write; in every other case it is FaultModel's *)
Lemma level_state_eq_cases sch base k torn :
  level_state_eq sch base k torn = level_state sch base k torn \/
  (exists p v, torn = true /\ nth_error sch k = Some (p, v) /\ nth p (apply_writes (firstn k sch) base) PNone = PEnc v /\
               level_state_eq sch base k torn = level_state sch base k false).
Proof.
  unfold level_state_eq, level_state. destruct torn; [|left; reflexivity].
  destruct (nth_error sch k) as [[p v]|] eqn:E; [|left; reflexivity].
  destruct (penc_eq_dec (nth p (apply_writes (firstn k sch) base) PNone) (PEnc v)) as [H|H]; [|left; reflexivity].
  right. exists p, v. auto.
Qed.

Inductive crash_state_eq (m : iomode) (ncopies : nat) (c0 : content) (par0 : parity) (tr : list mev) : dstate -> Prop :=
| CrashAtEq : forall pre rest j ks torn,
    tr = pre ++ rest ->
    length ks = length par0 -> length torn = length par0 ->
    (forall l, l < length par0 -> k_ok m pre rest (nth l ks 0) (nth l torn false)) ->
    crash_state_eq m ncopies c0 par0 tr
      (mkDS (copies_at ncopies c0 pre rest j)
            (map (fun l => level_state_eq (scheds tr) (nth l (par_base par0 pre) []) (nth l ks 0) (nth l torn false))
                 (seq 0 (length par0)))).

(* a save may be followed by writes to stripes it records as synced, provided they write what the parity holds at the save *)
Definition trace_ok_id (par0 : parity) (tr : list mev) : Prop :=
  forall pre c post, tr = pre ++ MSave c :: post ->
    forall p v, In (p, v) (scheds post) -> stripe_synced c p ->
    forall l, l < length par0 -> nth p (nth l (ideal_par par0 pre) []) PNone = PEnc v.

Lemma apply_writes_id ws : forall lv p,
  (forall v, In (p, v) ws -> nth p lv PNone = PEnc v) -> nth p (apply_writes ws lv) PNone = nth p lv PNone.
Proof.
  induction ws as [|[q w] t IH]; intros lv p H; [reflexivity|]. simpl.
  destruct (Nat.eq_dec q p) as [->|Hq].
  - rewrite IH.
    + rewrite nth_set_ext_same. symmetry. apply H. left. reflexivity.
    + intros v Hin. rewrite nth_set_ext_same. rewrite <- (H w (or_introl eq_refl)). apply H. right. exact Hin.
  - rewrite IH.
    + apply nth_set_ext_other. intro E. apply Hq. symmetry. exact E.
    + intros v Hin. rewrite nth_set_ext_other by (intro E; apply Hq; symmetry; exact E). apply H. right. exact Hin.
Qed.

Lemma level_state_eq_at sch base w0 k torn p :
  w0 <= k ->
  (forall v, In (p, v) (skipn w0 sch) -> nth p (apply_writes (firstn w0 sch) base) PNone = PEnc v) ->
  nth p (level_state_eq sch base k torn) PNone = nth p (apply_writes (firstn w0 sch) base) PNone.
Proof.
  intros Hk Hid. unfold level_state_eq.
  assert (E : firstn k sch = firstn w0 sch ++ firstn (k - w0) (skipn w0 sch)) by (apply firstn_split; exact Hk).
  assert (W : nth p (apply_writes (firstn k sch) base) PNone = nth p (apply_writes (firstn w0 sch) base) PNone).
  { rewrite E, apply_writes_app. apply apply_writes_id. intros v Hin. apply Hid. eapply in_firstn. exact Hin. }
  destruct torn; [|exact W].
  destruct (nth_error sch k) as [[q v]|] eqn:En; [|exact W].
  destruct (penc_eq_dec _ _) as [Heq|Hne]; [exact W|].
  destruct (Nat.eq_dec q p) as [->|Hq].
  - exfalso. apply Hne. rewrite W. apply Hid.
    assert (Hs : nth_error (skipn w0 sch) (k - w0) = Some (p, v)).
    { rewrite nth_error_skipn'. replace (w0 + (k - w0)) with k by lia. exact En. }
    eapply nth_error_In. exact Hs.
  - rewrite nth_set_ext_other by (intro E'; apply Hq; symmetry; exact E'). exact W.
Qed.

(* KillProofs.kill_inv_generic with trace_ok weakened to trace_ok_id, for the refined crash states *)
Theorem kill_inv_generic_eq m ncopies c0 par0 tr ds :
  trace_ok_id par0 tr -> resize_before_saves tr -> (m = Mono \/ saves_drained tr) ->
  crash_state_eq m ncopies c0 par0 tr ds ->
  forall c, In c (ds_copies ds) ->
    c = c0 \/
    exists pre1 post1, tr = pre1 ++ MSave c :: post1 /\
      forall p, stripe_synced c p -> forall l, l < length par0 ->
        nth p (nth l (ds_par ds) []) PNone = nth p (nth l (ideal_par par0 pre1) []) PNone.
Proof.
  intros Hok Hres Hmode Hcr c Hc.
  destruct Hcr as [pre rest j ks torn Htr Hlk Hlt Hk]. cbn [ds_copies ds_par] in *.
  assert (Hsrc : c = c0 \/ exists pre1 post1, tr = pre1 ++ MSave c :: post1 /\
                   ((exists pre2, pre = pre1 ++ MSave c :: pre2) \/ (pre1 = pre /\ exists rest', rest = MSave c :: rest'))).
  { assert (Hlast : c = last_save c0 pre -> c = c0 \/ exists pre1 post1, tr = pre1 ++ MSave c :: post1 /\
                   ((exists pre2, pre = pre1 ++ MSave c :: pre2) \/ (pre1 = pre /\ exists rest', rest = MSave c :: rest'))).
    { intro E. destruct (last_save_cases pre c0) as [[E0 _]|[p1 [p2 E1]]]; [left; congruence|].
      right. exists p1, (p2 ++ rest). rewrite <- E in E1. split.
      - rewrite Htr, E1, <- app_assoc. reflexivity.
      - left. exists p2. exact E1. }
    unfold copies_at in Hc. destruct rest as [|e rest']; [apply repeat_spec in Hc; auto|].
    destruct e as [len|c'|p v| |]; try (apply repeat_spec in Hc; auto).
    apply in_app_or in Hc. destruct Hc as [Hc|Hc]; apply repeat_spec in Hc; [|auto].
    subst c'. right. exists pre, rest'. split; [exact Htr|]. right. split; [reflexivity | exists rest'; reflexivity]. }
  destruct Hsrc as [E|[pre1 [post1 [Etr Hpos]]]]; [left; exact E|]. right. exists pre1, post1. split; [exact Etr|].
  intros p Hsyn l Hl.
  set (w0 := length (scheds pre1)).
  assert (Hsch : scheds tr = scheds pre1 ++ scheds post1) by (rewrite Etr, scheds_app; reflexivity).
  assert (Hfirst : firstn w0 (scheds tr) = scheds pre1).
  { rewrite Hsch. unfold w0. rewrite firstn_app, firstn_all, Nat.sub_diag. simpl. apply app_nil_r. }
  assert (Hpre : exists x, pre = pre1 ++ x /\ no_resize x).
  { destruct Hpos as [[pre2 E]|[E _]].
    - exists (MSave c :: pre2). split; [exact E|]. intros len [H|H]; [discriminate H|].
      apply (Hres pre1 c post1 Etr len). rewrite Htr, E, <- app_assoc in Etr. apply app_inv_head in Etr.
      injection Etr as Etr. rewrite <- Etr. apply in_or_app. left. exact H.
    - exists []. split; [rewrite app_nil_r; auto | intros len []]. }
  destruct Hpre as [x [Epre Hnr]].
  assert (Hbase : par_base par0 pre = par_base par0 pre1).
  { rewrite Epre, par_base_app. apply par_base_no_resize. exact Hnr. }
  assert (Hideal : nth p (nth l (ideal_par par0 pre1) []) PNone =
                   nth p (apply_writes (scheds pre1) (nth l (par_base par0 pre1) [])) PNone).
  { unfold ideal_par.
    rewrite (nth_indep (map (apply_writes (scheds pre1)) (par_base par0 pre1)) [] (apply_writes (scheds pre1) []))
      by (rewrite map_length, par_base_length; exact Hl).
    rewrite map_nth. reflexivity. }
  assert (Hid : forall v, In (p, v) (skipn w0 (scheds tr)) ->
                  nth p (apply_writes (firstn w0 (scheds tr)) (nth l (par_base par0 pre) [])) PNone = PEnc v).
  { intros v Hin. rewrite Hsch in Hin. unfold w0 in Hin. rewrite skipn_app, skipn_all, Nat.sub_diag in Hin. simpl in Hin.
    rewrite Hfirst, Hbase, <- Hideal. exact (Hok pre1 c post1 Etr p v Hin Hsyn l Hl). }
  assert (Hw : w0 <= length (scheds pre)).
  { rewrite Epre, scheds_app, app_length. unfold w0. lia. }
  assert (Hkl : w0 <= nth l ks 0).
  { specialize (Hk l Hl). unfold k_ok in Hk. destruct m as [|n].
    - destruct rest as [|e rest']; [lia|]. destruct e; lia.
    - destruct Hmode as [Hm|Hd]; [discriminate Hm|].
      destruct Hk as [Hlo _].
      assert (Hdr : w0 <= drained pre 0).
      { destruct Hpos as [[pre2 E]|[E _]].
        - pose proof (Hd pre1 c post1 Etr) as D. fold w0 in D. rewrite E. pose proof (drained_app_ge pre1 (MSave c :: pre2) 0). lia.
        - subst pre1. pose proof (Hd pre c post1 Etr) as D. fold w0 in D. lia. }
      lia. }
  rewrite (SyncProofsStripe.nth_map_seq (fun l => level_state_eq (scheds tr) (nth l (par_base par0 pre) []) (nth l ks 0) (nth l torn false))) by exact Hl.
  rewrite (level_state_eq_at _ _ w0) by assumption.
  rewrite Hfirst, Hbase, Hideal. reflexivity.
Qed.

(* ---------------------------------------------------------------------------------------------------------------- *)
(* a sync iteration over a synced stripe with valid parity rewrites what is there                                    *)
(* ---------------------------------------------------------------------------------------------------------------- *)
Lemma slot_at_file_pos d pos f i b : slot_at d pos = SFile f i b -> fb_pos b = pos.
Proof.
  unfold slot_at. destruct (find_in_files pos (cd_files d)) as [[[f' i'] b']|] eqn:E.
  - intro H. injection H as _ _ <-. apply find_in_files_pos in E. tauto.
  - destruct (find_deleted pos (cd_deleted d)); discriminate.
Qed.

Section Forced.
  Variable hashf : bid -> N -> hval.
  Variable bs : N.
  Variable nlev : nat.
  (* collision-freedom of the block hash (blocks of equal length) *)
  Definition HashInj : Prop := forall x y l, hashf x l = hashf y l -> x = y.

  Lemma synced_stays o now iob c par fs faults pos :
    stripe_synced c pos -> same_views c (so_content (sync_stripe hashf bs nlev o now iob c par fs faults pos)) pos.
  Proof.
    intros [Hs _]. rewrite sync_stripe_eq. cbv zeta.
    destruct (a_bail (ss_A hashf bs o iob c fs faults pos)); simpl; [apply same_views_refl|].
    destruct (ss_proceed _ _).
    - split; [simpl; unfold ss_disks; apply length_map_combine_seq|].
      intro j. rewrite ss_disks_slot. specialize (Hs j). rewrite slot_of_nth in *.
      destruct (nth j (c_disks c) None) as [d|]; [|reflexivity]. rewrite complete_disk_slot.
      destruct (slot_at d pos) as [|f i b|h] eqn:E; simpl in *; [reflexivity | | destruct Hs].
      apply slot_at_file_pos in E. unfold newh. rewrite Hs. destruct b as [st p h]. simpl in *. subst. reflexivity.
    - split; [simpl; unfold ss_disks; apply length_map_combine_seq|].
      intro j. rewrite ss_disks_slot. rewrite slot_of_nth.
      destruct (nth j (c_disks c) None) as [d|]; reflexivity.
  Qed.

  Theorem synced_rewrite_identical o now iob c par fs faults pos vec :
    HashInj -> faults_wf bs c pos faults -> stripe_synced c pos -> par_enc hashf bs c par pos ->
    so_write (sync_stripe hashf bs nlev o now iob c (map (fun lv => nth pos lv PNone) par) fs faults pos) = Some vec ->
    forall lv, In lv par -> nth pos lv PNone = PEnc vec.
  Proof.
    intros HI Hwf Hs HP Hw lv Hlv.
    pose proof (synced_stays o now iob c (map (fun lv => nth pos lv PNone) par) fs faults pos Hs) as HV.
    pose proof (same_views_synced _ _ _ HV Hs) as Hs'.
    pose proof (stripe_local hashf bs nlev o now iob c (map (fun lv => nth pos lv PNone) par) fs faults pos Hwf) as HL.
    cbv zeta in HL. specialize (HL Hs'). rewrite Hw in HL.
    apply (same_views_enc hashf bs _ _ pos vec (same_views_sym _ _ _ HV)) in HL.
    destruct (HP lv Hlv) as [v [E1 [L1 V1]]]. destruct HL as [L2 V2]. rewrite E1. f_equal.
    apply (nth_ext _ _ 0%N 0%N); [transitivity (length (c_disks c)); [exact L1 | symmetry; exact L2]|].
    intros j Hj. assert (Hj' : j < length (c_disks c)) by (rewrite <- L1; exact Hj). clear Hj. rename Hj' into Hj.
    specialize (V1 j Hj). specialize (V2 j Hj). destruct Hs as [Hsj _]. specialize (Hsj j).
    destruct (slot_of c pos j) as [|f i b|h]; simpl in *; [transitivity 0%N; [exact V1 | symmetry; exact V2] | | destruct Hsj].
    apply (HI _ _ (block_len bs (cf_size f) i)). transitivity (fb_hash b); [exact V1 | symmetry; exact V2].
  Qed.

  (* ---- the events of the loop: writes to stripes that are synced are identity writes ---- *)
  Fixpoint save_posts_p (evs : list mev) (par : parity) : list (content * list (nat * list bid) * parity) :=
    match evs with
    | [] => []
    | MSave c :: t => (c, scheds t, par) :: save_posts_p t par
    | MSched p v :: t => save_posts_p t (set_parity par p v)
    | _ :: t => save_posts_p t par
    end.
  Definition K1 (c : content) (par : parity) (stripes : list nat) (evs : list mev) : Prop :=
    forall p v, In (p, v) (scheds evs) ->
      In p stripes /\ (stripe_synced c p -> forall lv, In lv par -> nth p lv PNone = PEnc v).
  Definition entry_ok (x : content * list (nat * list bid) * parity) : Prop :=
    forall p v, In (p, v) (snd (fst x)) -> stripe_synced (fst (fst x)) p -> forall lv, In lv (snd x) -> nth p lv PNone = PEnc v.
  Definition K2 (par : parity) (evs : list mev) : Prop := forall x, In x (save_posts_p evs par) -> entry_ok x.

  Definition ew_of (pos : nat) (ow : option (list bid)) : list mev := match ow with Some v => [MSched pos v] | None => [] end.
  Definition par_of (par : parity) (pos : nat) (ow : option (list bid)) : parity :=
    match ow with Some v => set_parity par pos v | None => par end.

  Lemma K_compose c c1 par pos rest ow (b : bool) evs' :
    (forall v0, ow = Some v0 -> stripe_synced c pos -> forall lv, In lv par -> nth pos lv PNone = PEnc v0) ->
    (forall p, p <> pos -> stripe_synced c p -> stripe_synced c1 p) ->
    ~ In pos rest ->
    K1 c1 (par_of par pos ow) rest evs' -> K2 (par_of par pos ow) evs' ->
    K1 c par (pos :: rest) (ew_of pos ow ++ (if b then [MDrain; MFsync; MSave c1] else []) ++ evs')
    /\ K2 par (ew_of pos ow ++ (if b then [MDrain; MFsync; MSave c1] else []) ++ evs').
  Proof.
    intros HA HB Hnin H1 H2.
    assert (J1 : forall p v, In (p, v) (scheds evs') ->
                   In p (pos :: rest) /\ (stripe_synced c p -> forall lv, In lv par -> nth p lv PNone = PEnc v)).
    { intros p v Hin. destruct (H1 p v Hin) as [Hr Hid]. split; [right; exact Hr|].
      assert (Hne : p <> pos) by (intro E; subst p; exact (Hnin Hr)).
      intros Hs lv Hlv. specialize (Hid (HB p Hne Hs)). unfold par_of in Hid. destruct ow as [v0|]; [|exact (Hid lv Hlv)].
      rewrite <- (nth_set_ext_other PNone pos (PEnc v0) lv p Hne). apply Hid.
      unfold set_parity. apply in_map. exact Hlv. }
    assert (Sch : scheds (ew_of pos ow ++ (if b then [MDrain; MFsync; MSave c1] else []) ++ evs') =
                  match ow with Some v0 => [(pos, v0)] | None => [] end ++ scheds evs').
    { rewrite !scheds_app. destruct ow, b; reflexivity. }
    split.
    - intros p v Hin. rewrite Sch in Hin. apply in_app_or in Hin. destruct Hin as [Hin|Hin]; [|exact (J1 p v Hin)].
      destruct ow as [v0|]; [|destruct Hin]. destruct Hin as [E|[]]. injection E as <- <-.
      split; [left; reflexivity|]. apply HA. reflexivity.
    - intros x Hin. destruct ow as [v0|]; destruct b; cbn [ew_of app save_posts_p par_of] in *.
      + destruct Hin as [<-|Hin]; [|exact (H2 x Hin)].
        intros p v Hpv Hs lv Hlv. cbn [fst snd] in *. exact (proj2 (H1 p v Hpv) Hs lv Hlv).
      + exact (H2 x Hin).
      + destruct Hin as [<-|Hin]; [|exact (H2 x Hin)].
        intros p v Hpv Hs lv Hlv. cbn [fst snd] in *. exact (proj2 (H1 p v Hpv) Hs lv Hlv).
      + exact (H2 x Hin).
  Qed.

  Hypothesis HI : HashInj.

  Lemma events_id o now fs faults autosave : forall stripes stop c par ne ns ni,
    NoDup stripes -> (forall p, In p stripes -> faults_wf bs c p (faults p)) ->
    MapOK c -> ParOK hashf bs c par -> (forall p, In p stripes -> PastOK hashf bs c par p) ->
    K1 c par stripes (evs_of hashf bs nlev o now fs faults autosave stripes stop c par ne ns ni)
    /\ K2 par (evs_of hashf bs nlev o now fs faults autosave stripes stop c par ne ns ni).
  Proof.
    unfold evs_of.
    induction stripes as [|pos rest IH]; intros stop c par ne ns ni ND Hwf HM HP HPast; cbn [sync_events].
    - simpl. split; [intros p v [] | intros x []].
    - apply NoDup_cons_iff in ND. destruct ND as [Hnin ND].
      assert (Triv : K1 c par (pos :: rest) [] /\ K2 par []) by (split; [intros p v [] | intros x []]).
      destruct (stripe_enabled o _) eqn:Een; cbn [negb].
      2:{ destruct (IH stop c par ne ns ni ND) as [I1 I2]; auto.
          - intros p Hp. apply Hwf. right. exact Hp.
          - intros p Hp. apply HPast. right. exact Hp.
          - split; [|exact I2]. intros p v H. destruct (I1 p v H) as [A B]. split; [right; exact A | exact B]. }
      pose proof (loop_step_inv hashf bs nlev o now ni fs faults pos rest c par Hnin Hwf HM HP HPast) as HS. cbv zeta in HS.
      destruct (sync_stripe_other_stripes hashf bs nlev o now ni c (map (fun lv => nth pos lv PNone) par) fs (faults pos) pos) as [_ Fr].
      set (r := sync_stripe hashf bs nlev o now ni c (map (fun lv => nth pos lv PNone) par) fs (faults pos) pos) in *.
      destruct HS as (M' & P' & W' & Q').
      assert (Main : forall stop' (b : bool),
        K1 c par (pos :: rest)
           (ew_of pos (so_write r) ++ (if b then [MDrain; MFsync; MSave (so_content r)] else []) ++
            fst (sync_events hashf bs nlev o now fs faults autosave rest stop' (so_content r) (par_of par pos (so_write r))
                             (ne + so_nerr r) (ns + so_nsilent r) (ni + so_nio r)))
        /\ K2 par
           (ew_of pos (so_write r) ++ (if b then [MDrain; MFsync; MSave (so_content r)] else []) ++
            fst (sync_events hashf bs nlev o now fs faults autosave rest stop' (so_content r) (par_of par pos (so_write r))
                             (ne + so_nerr r) (ns + so_nsilent r) (ni + so_nio r)))).
      { intros stop' b.
        destruct (IH stop' (so_content r) (par_of par pos (so_write r)) (ne + so_nerr r) (ns + so_nsilent r) (ni + so_nio r) ND W' M' P' Q') as [I1 I2].
        apply (K_compose c (so_content r) par pos rest (so_write r) b); auto.
        - intros v0 Ew Hs. apply (synced_rewrite_identical o now ni c par fs (faults pos) pos v0 HI); auto.
          apply Hwf. left. reflexivity.
        - intros p Hne Hs. destruct (Fr p Hne) as (_ & _ & Hsy & _). apply Hsy. exact Hs. }
      destruct stop as [[|k]|]; [exact Triv | |].
      + destruct (so_bail r); [exact Triv|]. cbv zeta.
        pose proof (Main (Some k) (autosave pos && negb (match k with O => true | _ => false end))) as M.
        unfold ew_of, par_of in M.
        destruct (sync_events hashf bs nlev o now fs faults autosave rest (Some k) (so_content r) _ _ _ _) as [evs' out'] eqn:Erec.
        cbn [fst] in *. exact M.
      + destruct (so_bail r); [exact Triv|]. cbv zeta.
        pose proof (Main None (autosave pos && negb false)) as M.
        unfold ew_of, par_of in M.
        destruct (sync_events hashf bs nlev o now fs faults autosave rest None (so_content r) _ _ _ _) as [evs' out'] eqn:Erec.
        cbn [fst] in *. exact M.
  Qed.
End Forced.

(* ---------------------------------------------------------------------------------------------------------------- *)
(* the structure of the trace (no resize inside the loop, every save drained): KillProofs.sync_events_ok without its   *)
(* o_force_full hypothesis, which these two parts never used                                                          *)
(* ---------------------------------------------------------------------------------------------------------------- *)
Section Shape.
  Variable hashf : bid -> N -> hval.
  Variable bs : N.
  Variable nlev : nat.

  Lemma sync_events_shape o now fs faults autosave : forall stripes stop c par ne ns ni,
    no_resize (evs_of hashf bs nlev o now fs faults autosave stripes stop c par ne ns ni) /\
    (forall pre c' post n, evs_of hashf bs nlev o now fs faults autosave stripes stop c par ne ns ni = pre ++ MSave c' :: post ->
                           drained pre n = n + length (scheds pre)).
  Proof.
    unfold evs_of.
    induction stripes as [|pos rest IH]; intros stop c par ne ns ni; cbn [sync_events].
    - simpl. split; [intros len []|]. intros pre c' post n E. destruct pre; discriminate E.
    - assert (Triv : no_resize (@nil mev) /\
                     (forall pre c' post n, @nil mev = pre ++ MSave c' :: post -> drained pre n = n + length (scheds pre))).
      { split; [intros len []|]. intros pre c' post n E. destruct pre; discriminate E. }
      destruct (stripe_enabled o _); cbn [negb]; [|apply IH].
      set (r := sync_stripe hashf bs nlev o now ni c (map (fun lv => nth pos lv PNone) par) fs (faults pos) pos).
      assert (Main : forall stop',
        let rec := sync_events hashf bs nlev o now fs faults autosave rest stop' (so_content r)
                     (match so_write r with Some v => set_parity par pos v | None => par end) (ne + so_nerr r) (ns + so_nsilent r) (ni + so_nio r) in
        forall ev_s, (ev_s = [] \/ ev_s = [MDrain; MFsync; MSave (so_content r)]) ->
        let evs := (match so_write r with Some v => [MSched pos v] | None => [] end) ++ ev_s ++ fst rec in
        no_resize evs /\
        (forall pre c' post n, evs = pre ++ MSave c' :: post -> drained pre n = n + length (scheds pre))).
      { intros stop' rec ev_s Hevs evs.
        destruct (IH stop' (so_content r) (match so_write r with Some v => set_parity par pos v | None => par end)
                     (ne + so_nerr r) (ns + so_nsilent r) (ni + so_nio r)) as (I3 & I4).
        fold rec in I3, I4. unfold evs. split.
        - intros len Hin. apply in_app_or in Hin. destruct Hin as [Hin|Hin].
          + destruct (so_write r); [destruct Hin as [E|[]]; discriminate E | destruct Hin].
          + apply in_app_or in Hin. destruct Hin as [Hin|Hin]; [|exact (I3 len Hin)].
            destruct Hevs as [-> | ->]; [destruct Hin|]. destruct Hin as [E|[E|[E|[]]]]; discriminate E.
        - intros pre c' post n E.
          set (W := match so_write r with Some v => [MSched pos v] | None => [] end) in *.
          assert (HW : forall x y z, W = x ++ MSave y :: z -> False).
          { intros x y z EW. unfold W in EW. destruct (so_write r); destruct x as [|e [|e2 x]]; simpl in EW; discriminate EW. }
          destruct (split_app _ _ _ _ _ E) as [[a2 [E1 _]]|[b1 [E1 E2]]]; [exfalso; exact (HW _ _ _ E1)|].
          destruct (split_app _ _ _ _ _ E1) as [[a2 [E3 _]]|[b2 [E3 E4]]].
          + destruct Hevs as [Ee | Ee]; rewrite Ee in E3; [destruct b1; discriminate E3|].
            assert (Eb : b1 = [MDrain; MFsync]).
            { destruct b1 as [|x [|y [|z b1]]]; simpl in E3; try discriminate E3.
              - injection E3 as Ex Ey _. subst x y. reflexivity.
              - injection E3 as _ _ _ E3. destruct b1; discriminate E3. }
            rewrite E2, Eb.
            change (W ++ [MDrain; MFsync]) with (W ++ [MDrain] ++ [MFsync]). rewrite app_assoc, drained_app_fsync, drained_snoc.
            rewrite !scheds_app. simpl. rewrite !app_nil_r. reflexivity.
          + rewrite E2, E4. rewrite app_assoc. rewrite drained_app.
            rewrite (I4 b2 c' post _ E3).
            pose proof (drained_le (W ++ ev_s) n) as L.
            rewrite (scheds_app (W ++ ev_s) b2), app_length. lia. }
      destruct stop as [[|k]|]; [exact Triv | |].
      + destruct (so_bail r); [exact Triv|]. cbv zeta.
        destruct (sync_events hashf bs nlev o now fs faults autosave rest (Some k) (so_content r) _ _ _ _) as [evs' out'] eqn:Erec.
        cbn [fst].
        pose proof (Main (Some k)) as M. cbv zeta in M. rewrite Erec in M. cbn [fst] in M.
        destruct (autosave pos && negb _); apply M; auto.
      + destruct (so_bail r); [exact Triv|]. cbv zeta.
        destruct (sync_events hashf bs nlev o now fs faults autosave rest None (so_content r) _ _ _ _) as [evs' out'] eqn:Erec.
        cbn [fst].
        pose proof (Main None) as M. cbv zeta in M. rewrite Erec in M. cbn [fst] in M.
        destruct (autosave pos && negb _); apply M; auto.
  Qed.

  Theorem sync_trace_struct o now fs faults autosave stripes stop c1 par :
    let tr := sync_trace hashf bs nlev o now fs faults autosave stripes stop c1 par in
    resize_before_saves tr /\ saves_drained tr.
  Proof.
    intro tr. unfold tr.
    destruct (sync_trace_shape hashf bs nlev o now fs faults autosave stripes stop c1 par) as (evs & F & cf & HF & Eevs & ->).
    destruct (sync_events_shape o now fs faults autosave stripes stop c1 par 0 0 0) as (I3 & I4).
    rewrite <- Eevs in I3, I4.
    assert (NRF : no_resize ([MDrain] ++ F ++ [MSave cf])).
    { intros len Hin. destruct HF as [-> | ->]; simpl in Hin; repeat (destruct Hin as [Hin|Hin]; [discriminate Hin|]); exact Hin. }
    split.
    - intros pre c post E len Hin.
      destruct pre as [|e pre']; simpl in E; [discriminate E|]. injection E as _ E.
      assert (Hin2 : In (MResize len) (pre' ++ MSave c :: post)) by (apply in_or_app; right; right; exact Hin).
      rewrite <- E in Hin2.
      destruct Hin2 as [D|Hin2]; [discriminate D|]. apply in_app_or in Hin2. destruct Hin2 as [Hin2|Hin2]; [exact (I3 len Hin2) | exact (NRF len Hin2)].
    - intros pre c post E.
      change ([MResize (allocated_size c1); MSave c1] ++ evs ++ [MDrain] ++ F ++ [MSave cf])
        with ([MResize (allocated_size c1)] ++ [MSave c1] ++ evs ++ [MDrain] ++ F ++ [MSave cf]) in E.
      destruct pre as [|e pre']; simpl in E; [discriminate E|]. injection E as <- E.
      destruct pre' as [|e2 pre'']; simpl in E.
      + reflexivity.
      + injection E as <- E.
        destruct (split_app _ _ _ _ _ E) as [[a2 [E1 _]]|[b1 [E1 E2]]].
        * simpl. rewrite (I4 pre'' c a2 0 E1). reflexivity.
        * subst pre''.
          assert (Eb : b1 = [MDrain] ++ F) by (eapply tail_split; [exact HF | exact E1]).
          subst b1.
          assert (Ed : drained ((MResize (allocated_size c1) :: MSave c1 :: evs) ++ [MDrain] ++ F) 0 =
                       drained ((MResize (allocated_size c1) :: MSave c1 :: evs) ++ [MDrain]) 0).
          { destruct HF as [-> | ->]; [rewrite app_nil_r; reflexivity|]. rewrite app_assoc. apply drained_app_fsync. }
          change (MResize (allocated_size c1) :: MSave c1 :: evs ++ [MDrain] ++ F)
            with ((MResize (allocated_size c1) :: MSave c1 :: evs) ++ [MDrain] ++ F).
          rewrite Ed, drained_snoc. rewrite !scheds_app, !app_length.
          assert (SF0 : length (scheds ([MDrain] ++ F)) = 0) by (destruct HF as [-> | ->]; reflexivity).
          simpl in SF0 |- *. rewrite ?scheds_app, ?app_length in *. simpl in *. lia.
  Qed.
End Shape.

(* ---------------------------------------------------------------------------------------------------------------- *)
(* the traces of sync, forced or not, satisfy trace_ok_id                                                             *)
(* ---------------------------------------------------------------------------------------------------------------- *)
Lemma nth_firstn_lt {A} (d : A) : forall n (l : list A) i, i < n -> nth i (firstn n l) d = nth i l d.
Proof.
  induction n as [|n IH]; intros l i H; [lia|]. destruct l as [|x t]; [reflexivity|].
  destruct i as [|i]; [reflexivity|]. simpl. apply IH. lia.
Qed.
Lemma aw_rel p ws : forall lv lv',
  (nth p lv PNone = nth p lv' PNone \/ forall v, nth p lv PNone <> PEnc v) ->
  (nth p (apply_writes ws lv) PNone = nth p (apply_writes ws lv') PNone \/ forall v, nth p (apply_writes ws lv) PNone <> PEnc v).
Proof.
  induction ws as [|[q w] t IH]; intros lv lv' H; [exact H|]. simpl. apply IH.
  destruct (Nat.eq_dec q p) as [->|Hq].
  - left. rewrite !nth_set_ext_same. reflexivity.
  - rewrite !nth_set_ext_other by (intro E; apply Hq; symmetry; exact E). exact H.
Qed.
Lemma aw_resize p ws lv len v :
  p < len -> nth p (apply_writes ws lv) PNone = PEnc v -> nth p (apply_writes ws (resize_lv len lv)) PNone = PEnc v.
Proof.
  intros Hp H.
  assert (H0 : nth p lv PNone = nth p (resize_lv len lv) PNone \/ forall v0, nth p lv PNone <> PEnc v0).
  { destruct (Nat.lt_ge_cases p (length lv)) as [Hl|Hl].
    - left. unfold resize_lv. rewrite app_nth1 by (rewrite firstn_length; lia). symmetry. apply nth_firstn_lt. exact Hp.
    - right. intros v0. rewrite nth_overflow by exact Hl. discriminate. }
  destruct (aw_rel p ws lv (resize_lv len lv) H0) as [E|E]; [rewrite <- E; exact H | exfalso; exact (E v H)].
Qed.

Lemma map_apply_nil (par : parity) : map (apply_writes []) par = par.
Proof. induction par; simpl; congruence. Qed.

Section Assemble.
  Variable hashf : bid -> N -> hval.
  Variable bs : N.
  Variable nlev : nat.

  Lemma save_posts_p_split pre : forall tr par c post,
    tr = pre ++ MSave c :: post -> In (c, scheds post, map (apply_writes (scheds pre)) par) (save_posts_p tr par).
  Proof.
    induction pre as [|e pre IH]; intros tr par c post ->.
    - simpl. left. rewrite map_apply_nil. reflexivity.
    - destruct e as [len|c'|p v| |]; simpl; try (apply IH; reflexivity).
      + right. apply IH. reflexivity.
      + specialize (IH (pre ++ MSave c :: post) (set_parity par p v) c post eq_refl).
        unfold set_parity in IH at 1. rewrite map_map in IH. exact IH.
  Qed.
  Lemma save_posts_p_app a : forall b par,
    save_posts_p (a ++ b) par =
    map (fun x => (fst (fst x), snd (fst x) ++ scheds b, snd x)) (save_posts_p a par) ++ save_posts_p b (map (apply_writes (scheds a)) par).
  Proof.
    induction a as [|e a IH]; intros b par.
    - simpl. rewrite map_apply_nil. reflexivity.
    - destruct e as [len|c'|p v| |]; simpl; try apply IH.
      + rewrite IH, scheds_app. reflexivity.
      + rewrite IH. unfold set_parity at 2. rewrite map_map. reflexivity.
  Qed.

  Theorem sync_trace_ok_id o now fs faults autosave stripes stop c1 par0 :
    HashInj hashf -> NoDup stripes -> (forall p, In p stripes -> p < allocated_size c1) ->
    (forall p, In p stripes -> faults_wf bs c1 p (faults p)) ->
    MapOK c1 -> ParOK hashf bs c1 par0 -> (forall p, In p stripes -> PastOK hashf bs c1 par0 p) ->
    trace_ok_id par0 (sync_trace hashf bs nlev o now fs faults autosave stripes stop c1 par0).
  Proof.
    intros HI ND Hlt Hwf HM HP HPast.
    destruct (sync_trace_shape hashf bs nlev o now fs faults autosave stripes stop c1 par0) as (evs & F & cf & HF & Eevs & ->).
    destruct (events_id hashf bs nlev HI o now fs faults autosave stripes stop c1 par0 0 0 0 ND Hwf HM HP HPast) as [HK1 HK2].
    destruct (sync_events_shape hashf bs nlev o now fs faults autosave stripes stop c1 par0 0 0 0) as [I3 _].
    rewrite <- Eevs in HK1, HK2, I3.
    set (tail := [MDrain] ++ F ++ [MSave cf]).
    assert (ST : scheds tail = []) by (unfold tail; destruct HF as [-> | ->]; reflexivity).
    assert (PT : forall ps, save_posts_p tail ps = [(cf, [], ps)]) by (intro ps; unfold tail; destruct HF as [-> | ->]; reflexivity).
    assert (NT : no_resize tail).
    { intros len Hin. unfold tail in Hin. destruct HF as [-> | ->]; simpl in Hin; repeat (destruct Hin as [Hin|Hin]; [discriminate Hin|]); exact Hin. }
    set (tr := [MResize (allocated_size c1); MSave c1] ++ evs ++ tail).
    assert (Hall : forall x, In x (save_posts_p tr par0) -> entry_ok x).
    { intros x Hin. unfold tr in Hin. cbn [app save_posts_p] in Hin. destruct Hin as [<-|Hin].
      - intros p v Hpv Hs lv Hlv. cbn [fst snd] in *. rewrite scheds_app, ST, app_nil_r in Hpv.
        exact (proj2 (HK1 p v Hpv) Hs lv Hlv).
      - rewrite save_posts_p_app in Hin. apply in_app_or in Hin. destruct Hin as [Hin|Hin].
        + apply in_map_iff in Hin. destruct Hin as [y [<- Hy]]. intros p v Hpv Hs lv Hlv. cbn [fst snd] in *.
          rewrite ST, app_nil_r in Hpv. exact (HK2 y Hy p v Hpv Hs lv Hlv).
        + rewrite PT in Hin. destruct Hin as [<-|[]]. intros p v []. }
    intros pre c post E p v Hin Hs l Hl.
    assert (Hevs : In (p, v) (scheds evs)).
    { assert (E2 : scheds tr = scheds evs) by (unfold tr; rewrite !scheds_app, ST, app_nil_r; reflexivity).
      rewrite <- E2. fold tr in E. rewrite E, scheds_app. apply in_or_app. right. simpl. exact Hin. }
    assert (Hp : p < allocated_size c1) by (apply Hlt; exact (proj1 (HK1 p v Hevs))).
    fold tr in E.
    pose proof (Hall _ (save_posts_p_split pre tr par0 c post E) p v Hin Hs) as HE. cbn [fst snd] in HE.
    assert (Hl0 : In (nth l par0 []) par0) by (apply nth_In; exact Hl).
    specialize (HE (apply_writes (scheds pre) (nth l par0 [])) (in_map _ _ _ Hl0)).
    (* the ideal parity at the save: the resized levels with the writes scheduled so far *)
    unfold ideal_par.
    rewrite (nth_indep (map (apply_writes (scheds pre)) (par_base par0 pre)) [] (apply_writes (scheds pre) []))
      by (rewrite map_length, par_base_length; exact Hl).
    rewrite map_nth.
    destruct pre as [|e pre']; [unfold tr in E; discriminate E|].
    unfold tr in E. cbn [app] in E. injection E as <- E.
    assert (NR : no_resize pre').
    { intros len Hr. assert (Hr2 : In (MResize len) (MSave c1 :: evs ++ tail)) by (rewrite E; apply in_or_app; left; exact Hr).
      destruct Hr2 as [D|Hr2]; [discriminate D|]. apply in_app_or in Hr2. destruct Hr2 as [Hr2|Hr2]; [exact (I3 len Hr2) | exact (NT len Hr2)]. }
    change (par_base par0 (MResize (allocated_size c1) :: pre')) with (par_base (map (resize_lv (allocated_size c1)) par0) pre').
    rewrite (par_base_no_resize pre' _ NR).
    rewrite (nth_indep (map (resize_lv (allocated_size c1)) par0) [] (resize_lv (allocated_size c1) []))
      by (rewrite map_length; exact Hl).
    rewrite map_nth.
    change (scheds (MResize (allocated_size c1) :: pre')) with (scheds pre') in *.
    apply aw_resize; assumption.
  Qed.

  (* kill_inv for ANY sync, forced or not, on the refined crash states *)
  Theorem kill_inv_forced m ncopies c0 par0 o now fs faults autosave stripes stop c1 ds :
    HashInj hashf -> NoDup stripes -> (forall p, In p stripes -> p < allocated_size c1) ->
    (forall p, In p stripes -> faults_wf bs c1 p (faults p)) ->
    MapOK c1 -> ParOK hashf bs c1 par0 -> (forall p, In p stripes -> PastOK hashf bs c1 par0 p) ->
    let tr := sync_trace hashf bs nlev o now fs faults autosave stripes stop c1 par0 in
    crash_state_eq m ncopies c0 par0 tr ds ->
    forall c, In c (ds_copies ds) ->
      c = c0 \/
      exists pre1 post1, tr = pre1 ++ MSave c :: post1 /\
        forall p, stripe_synced c p -> forall l, l < length par0 ->
          nth p (nth l (ds_par ds) []) PNone = nth p (nth l (ideal_par par0 pre1) []) PNone.
  Proof.
    intros HI ND Hlt Hwf HM HP HPast tr Hcr.
    destruct (sync_trace_struct hashf bs nlev o now fs faults autosave stripes stop c1 par0) as [T2 T3]. fold tr in T2, T3.
    apply (kill_inv_generic_eq m ncopies c0 par0 tr ds); auto.
    apply sync_trace_ok_id; assumption.
  Qed.

  (* ... hence, for FaultModel's own crash states, whenever no parity write is torn (kills between system calls) *)
  Theorem kill_inv_forced_notorn m ncopies c0 par0 o now fs faults autosave stripes stop c1 pre rest j ks :
    HashInj hashf -> NoDup stripes -> (forall p, In p stripes -> p < allocated_size c1) ->
    (forall p, In p stripes -> faults_wf bs c1 p (faults p)) ->
    MapOK c1 -> ParOK hashf bs c1 par0 -> (forall p, In p stripes -> PastOK hashf bs c1 par0 p) ->
    let tr := sync_trace hashf bs nlev o now fs faults autosave stripes stop c1 par0 in
    tr = pre ++ rest -> length ks = length par0 ->
    (forall l, l < length par0 -> k_ok m pre rest (nth l ks 0) false) ->
    let ds := mkDS (copies_at ncopies c0 pre rest j)
                   (map (fun l => level_state (scheds tr) (nth l (par_base par0 pre) []) (nth l ks 0) false) (seq 0 (length par0))) in
    crash_state m ncopies c0 par0 tr ds /\
    forall c, In c (ds_copies ds) ->
      c = c0 \/
      exists pre1 post1, tr = pre1 ++ MSave c :: post1 /\
        forall p, stripe_synced c p -> forall l, l < length par0 ->
          nth p (nth l (ds_par ds) []) PNone = nth p (nth l (ideal_par par0 pre1) []) PNone.
  Proof.
    intros HI ND Hlt Hwf HM HP HPast tr Etr Hlk Hk ds.
    assert (Hnth : forall l, nth l (repeat false (length par0)) false = false).
    { intro l. destruct (Nat.lt_ge_cases l (length par0)) as [H|H]; [apply nth_repeat | apply nth_overflow; rewrite repeat_length; exact H]. }
    assert (Eds : ds = mkDS (copies_at ncopies c0 pre rest j)
                   (map (fun l => level_state (scheds tr) (nth l (par_base par0 pre) []) (nth l ks 0) (nth l (repeat false (length par0)) false))
                        (seq 0 (length par0)))).
    { unfold ds. f_equal. apply map_ext. intro l. rewrite Hnth. reflexivity. }
    split.
    - rewrite Eds. apply CrashAt; auto; [apply repeat_length|]. intros l Hl. rewrite Hnth. apply Hk. exact Hl.
    - apply (kill_inv_forced m ncopies c0 par0 o now fs faults autosave stripes stop c1 ds HI ND Hlt Hwf HM HP HPast).
      rewrite Eds.
      assert (E2 : map (fun l => level_state (scheds tr) (nth l (par_base par0 pre) []) (nth l ks 0) (nth l (repeat false (length par0)) false)) (seq 0 (length par0)) =
                   map (fun l => level_state_eq (scheds tr) (nth l (par_base par0 pre) []) (nth l ks 0) (nth l (repeat false (length par0)) false)) (seq 0 (length par0))).
      { apply map_ext. intro l. rewrite Hnth. reflexivity. }
      rewrite E2. apply CrashAtEq; auto; [apply repeat_length|]. intros l Hl. rewrite Hnth. apply Hk. exact Hl.
  Qed.
End Assemble.

(* ---------------------------------------------------------------------------------------------------------------- *)
(* witness: sync -F, single-thread io, one parity level.  Stripe 0 is synced (file 1, block 5); the scan has added file 2  *)
(* (stripe 1, CHG).  The content c1 saved at the start of the sync records stripe 0 as synced.  The process dies inside the *)
(* pwrite that rewrites the parity block of stripe 0.                                                                   *)
(* ---------------------------------------------------------------------------------------------------------------- *)
Definition kf_hash (b : bid) (l : N) : hval := HReal (b * 4096 + l)%N.
Definition kf_c0 : content :=
  mkC [Some (mkCD [mkCF 1 1024 0 0 5 false [mkFB SBlk 0 (kf_hash 5%N 1024%N)]] [] [] [])] [Some (mkInfo 3 false false false)] 1.
Definition kf_c1 : content :=
  mkC [Some (mkCD [mkCF 1 1024 0 0 5 false [mkFB SBlk 0 (kf_hash 5%N 1024%N)];
                   mkCF 2 1024 0 0 6 false [mkFB SChg 1 HZero]] [] [] [])] [Some (mkInfo 3 false false false)] 1.
Definition kf_par : parity := [[PEnc [5%N]]].
Definition kf_fs : list (option fsdisk) := [Some [mkFF 1 1024 0 0 5 [5%N]; mkFF 2 1024 0 0 6 [6%N]]].
Definition kf_o := mkSO true false 100.
(* a notation, not a constant: the theorems below mention the sync_trace term itself (a folded constant makes the unifier
   compute the trace) *)
Notation kf_tr := (sync_trace kf_hash 1024%N 1 kf_o 7%N kf_fs (fun _ => []) (fun _ => false) [0; 1] None kf_c1 kf_par) (only parsing).
Definition kf_pre : list mev := firstn 2 kf_tr.      (* [MResize 2; MSave kf_c1] *)
Definition kf_rest : list mev := skipn 2 kf_tr.      (* MSched 0 [5] :: MSched 1 [6] :: ... *)
(* FaultModel's crash state: the write in progress leaves PJunk 1 *)
Definition kf_ds : dstate :=
  mkDS (copies_at 1 kf_c0 kf_pre kf_rest 0)
       (map (fun l => level_state (scheds kf_tr) (nth l (par_base kf_par kf_pre) []) (nth l [0] 0) (nth l [true] false)) (seq 0 1)).
(* the refined crash state at the same point *)
Definition kf_ds_eq : dstate :=
  mkDS (copies_at 1 kf_c0 kf_pre kf_rest 0)
       (map (fun l => level_state_eq (scheds kf_tr) (nth l (par_base kf_par kf_pre) []) (nth l [0] 0) (nth l [true] false)) (seq 0 1)).

Example kf_trace_shape :
  map (fun e => match e with MResize n => (0, n) | MSave _ => (1, 0) | MSched p _ => (2, p) | MFsync => (3, 0) | MDrain => (4, 0) end) kf_tr =
  [(0, 2); (1, 0); (2, 0); (2, 1); (4, 0); (3, 0); (1, 0)].
Proof. vm_compute. reflexivity. Qed.

Lemma kf_synced0 : stripe_synced kf_c1 0.
Proof.
  split; [|exists 0; reflexivity]. intro j. destruct j as [|j]; [reflexivity|].
  rewrite slot_of_out by (simpl; lia). exact I.
Qed.

Lemma kf_only_split pre1 post1 : kf_tr = pre1 ++ MSave kf_c1 :: post1 -> pre1 = [MResize 2].
Proof.
  intro E. remember kf_tr as t eqn:Et in E. vm_compute in Et. subst t. unfold kf_c1, kf_hash in E.
  destruct pre1 as [|e1 pre1]; simpl in E; [discriminate E|]. injection E as <- E.
  destruct pre1 as [|e2 pre1]; simpl in E; [reflexivity|]. exfalso. injection E as _ E.
  repeat (destruct pre1 as [|? pre1]; simpl in E; [discriminate E | injection E as _ E]).
  destruct pre1; discriminate E.
Qed.

(* kill_inv with `o_force_full o = false` dropped is FALSE in FaultModel's crash-state model *)
Theorem kill_inv_forced_torn_refuted :
  exists hashf bs nlev m ncopies c0 par0 o now fs faults autosave stripes stop c1 ds,
    NoDup stripes /\ MapOK c1 /\ ParOK hashf bs c1 par0 /\ o_force_full o = true /\
    crash_state m ncopies c0 par0 (sync_trace hashf bs nlev o now fs faults autosave stripes stop c1 par0) ds /\
    exists c, In c (ds_copies ds) /\
      ~ (c = c0 \/
         exists pre1 post1, sync_trace hashf bs nlev o now fs faults autosave stripes stop c1 par0 = pre1 ++ MSave c :: post1 /\
           forall p, stripe_synced c p -> forall l, l < length par0 ->
             nth p (nth l (ds_par ds) []) PNone = nth p (nth l (ideal_par par0 pre1) []) PNone).
Proof.
  exists kf_hash, 1024%N, 1, Mono, 1, kf_c0, kf_par, kf_o, 7%N, kf_fs, (fun _ => []), (fun _ => false), [0; 1], None, kf_c1, kf_ds.
  split; [repeat constructor; simpl; intuition discriminate|].
  split.
  { intros d [E|[]]. injection E as <-. unfold MapOK_disk, map_ok. simpl.
    split; [repeat constructor; simpl; intuition discriminate|].
    split; [|split; [constructor | intros p []]].
    intros l [<-|[<-|[]]] i j Hij; simpl in Hij; lia. }
  split.
  { intros pos [Hs Hf]. destruct pos as [|[|pos]].
    - intros lv [<-|[]]. exists [5%N]. split; [reflexivity|]. split; [reflexivity|].
      intros j Hj. assert (j = 0) by (simpl in Hj; lia). subst j. vm_compute. reflexivity.
    - specialize (Hs 0). vm_compute in Hs. discriminate Hs.
    - exfalso. destruct Hf as [j Hj]. rewrite slot_of_nth in Hj. destruct j as [|j]; [discriminate Hj | destruct j; discriminate Hj]. }
  split; [reflexivity|].
  split.
  { unfold kf_ds. apply (CrashAt Mono 1 kf_c0 kf_par kf_tr kf_pre kf_rest 0 [0] [true]).
    - symmetry. apply firstn_skipn.
    - reflexivity.
    - reflexivity.
    - intros l Hl. assert (El : l = 0) by (vm_compute in Hl; lia). subst l. unfold k_ok. vm_compute. left. reflexivity. }
  exists kf_c1. split; [vm_compute; left; reflexivity|].
  intros [E|[pre1 [post1 [E H]]]].
  - discriminate E.
  - apply kf_only_split in E. subst pre1. specialize (H 0 kf_synced0 0 (Nat.lt_0_succ 0)). vm_compute in H. discriminate H.
Qed.

(* the same crash point with the refined crash states: the block of stripe 0 is intact, as kill_inv_forced says *)
Example kill_forced_same_point_refined :
  crash_state_eq Mono 1 kf_c0 kf_par kf_tr kf_ds_eq /\
  nth 0 (nth 0 (ds_par kf_ds) []) PNone = PJunk 1 /\
  nth 0 (nth 0 (ds_par kf_ds_eq) []) PNone = PEnc [5%N] /\
  HashInj kf_hash.
Proof.
  split; [|split; [vm_compute; reflexivity | split; [vm_compute; reflexivity|]]].
  - unfold kf_ds_eq. apply (CrashAtEq Mono 1 kf_c0 kf_par kf_tr kf_pre kf_rest 0 [0] [true]).
    + symmetry. apply firstn_skipn.
    + reflexivity.
    + reflexivity.
    + intros l Hl. assert (El : l = 0) by (vm_compute in Hl; lia). subst l. unfold k_ok. vm_compute. left. reflexivity.
  - intros x y l H. unfold kf_hash in H. injection H as H. lia.
Qed.

(* the hypotheses of kill_inv_forced hold on this forced sync, and its conclusion at the crash point above *)
Lemma kf_hyps :
  HashInj kf_hash /\ NoDup [0; 1] /\ (forall p, In p [0; 1] -> p < allocated_size kf_c1) /\
  (forall p, In p [0; 1] -> faults_wf 1024%N kf_c1 p []) /\
  MapOK kf_c1 /\ ParOK kf_hash 1024%N kf_c1 kf_par /\ (forall p, In p [0; 1] -> PastOK kf_hash 1024%N kf_c1 kf_par p).
Proof.
  assert (E0 : par_enc kf_hash 1024%N kf_c1 kf_par 0).
  { intros lv [<-|[]]. exists [5%N]. split; [reflexivity|]. split; [reflexivity|].
    intros j Hj. assert (j = 0) by (simpl in Hj; lia). subst j. vm_compute. reflexivity. }
  assert (Q : forall pos, stripe_quiet kf_c1 pos -> par_enc kf_hash 1024%N kf_c1 kf_par pos).
  { intros pos [Hs Hf]. destruct pos as [|[|pos]]; [exact E0 | |].
    - specialize (Hs 0). vm_compute in Hs. destruct Hs as [Hs|[_ Hs]]; discriminate Hs.
    - exfalso. destruct Hf as [j Hj]. rewrite slot_of_nth in Hj. destruct j as [|j]; [discriminate Hj | destruct j; discriminate Hj]. }
  split; [intros x y l H; unfold kf_hash in H; injection H as H; lia|].
  split; [repeat constructor; simpl; intuition discriminate|].
  split; [intros p [<-|[<-|[]]]; vm_compute; lia|].
  split; [intros p _ j; unfold fault_wf; destruct (slot_of kf_c1 p j); destruct j; simpl; exact I|].
  split.
  { intros d [E|[]]. injection E as <-. unfold MapOK_disk, map_ok. simpl.
    split; [repeat constructor; simpl; intuition discriminate|].
    split; [|split; [constructor | intros p []]].
    intros l [<-|[<-|[]]] i j Hij; simpl in Hij; lia. }
  split; [intros pos Hs; apply Q; apply stripe_synced_quiet; exact Hs|].
  intros p _ Hq. apply Q. exact Hq.
Qed.

Example kill_forced_example :
  forall c, In c (ds_copies kf_ds_eq) ->
    c = kf_c0 \/
    exists pre1 post1, kf_tr = pre1 ++ MSave c :: post1 /\
      forall p, stripe_synced c p -> forall l, l < length kf_par ->
        nth p (nth l (ds_par kf_ds_eq) []) PNone = nth p (nth l (ideal_par kf_par pre1) []) PNone.
Proof.
  destruct kf_hyps as (H1 & H2 & H3 & H4 & H5 & H6 & H7).
  apply (kill_inv_forced kf_hash 1024%N 1 Mono 1 kf_c0 kf_par kf_o 7%N kf_fs (fun _ => []) (fun _ => false) [0; 1] None kf_c1 kf_ds_eq); auto.
  apply kill_forced_same_point_refined.
Qed.
