(* C07 -- concrete crash points of the model (closed terms, vm_compute).
   (1) the crash point of the former finding F-C07-autosave-writers-not-drained (threaded mode, an autosave after stripe 3, the
   process dies right after the autosave's save): since the repair 6a618a2 the autosave is preceded by io_stop, so in EVERY io mode
   the four scheduled writes are on disk there; (2) the parity truncated before the content save. *)
From Coq Require Import NArith ZArith List Bool Arith Lia.
From Snap.Array Require Import ArrayDefs SyncModel SyncProofsDefs.
From Snap.Fault Require Import FaultModel FaultWitness KillProofs.
Import ListNotations.

(* the witness array of FaultWitness.v (two disks, 8 stripes of additions, one parity level), autosave after stripe 3 *)
Definition wtrace : list mev :=
  sync_trace hz 1024 1 wo 7 wfs (fun _ => []) (fun p => Nat.eqb p 3) (seq 0 8) None wc wpar.
(* R S W0 W1 W2 W3 D F S | W4 ... : the main thread has completed the autosave *)
Definition wpre : list mev := firstn 9 wtrace.
Definition wrest : list mev := skipn 9 wtrace.
Definition wks : list nat := [0].
Definition wtorn : list bool := [false].

Example wtrace_shape :
  map (fun e => match e with MResize n => (0, n) | MSave _ => (1, 0) | MSched p _ => (2, p) | MFsync => (3, 0) | MDrain => (4, 0) end) wtrace =
  [(0, 8); (1, 0); (2, 0); (2, 1); (2, 2); (2, 3); (4, 0); (3, 0); (1, 0); (2, 4); (2, 5); (2, 6); (2, 7); (4, 0); (3, 0); (1, 0)].
Proof. vm_compute. reflexivity. Qed.

(* right after the autosave every writer has done the four writes scheduled before it, in threaded mode (whatever the cache
   depth) as in single-thread mode: the crash state of the former finding (no write done) is not admissible any more *)
Example autosave_crash_point_drained :
  (forall n k t, k_ok (Threaded n) wpre wrest k t -> 4 <= k) /\ (forall k t, k_ok Mono wpre wrest k t -> 4 <= k).
Proof.
  split.
  - intros n k t H. unfold k_ok in H. destruct H as [H _].
    assert (E : drained wpre 0 = 4) by (vm_compute; reflexivity). rewrite E in H. lia.
  - intros k t H. unfold k_ok in H. vm_compute in H. lia.
Qed.

(* ---------------------------------------------------------------------------------------------------------------- *)
(* F-C07-parity-truncated-before-content-save: for the PRE-SYNC content c0 kill_inv claims nothing (its `c = c0` case), and   *)
(* indeed nothing holds: the parity is shrunk before the save that records the deletion.                               *)
(* d1 holds a 2-block file, d2 a 3-block file (alone in stripe 2); d2's file is deleted; the sync dies right after the resize. *)
Definition tc0 : content :=
  mkC [Some (mkCD [mkCF 1 2048 100 0 11 false [mkFB SBlk 0 (HReal 1); mkFB SBlk 1 (HReal 2)]] [] [] []);
       Some (mkCD [mkCF 2 3072 100 0 12 false [mkFB SBlk 0 (HReal 11); mkFB SBlk 1 (HReal 12); mkFB SBlk 2 (HReal 13)]] [] [] [])]
      [Some (mkInfo 5 false false false); Some (mkInfo 5 false false false); Some (mkInfo 5 false false false)] 3.
(* after the scan: the blocks of the deleted file are DELETED, the allocated size is 2 *)
Definition tc1 : content :=
  mkC [Some (mkCD [mkCF 1 2048 100 0 11 false [mkFB SBlk 0 (HReal 1); mkFB SBlk 1 (HReal 2)]] [] [] []);
       Some (mkCD [] [(0, HInvalid); (1, HInvalid); (2, HInvalid)] [] [])]
      [Some (mkInfo 5 false false false); Some (mkInfo 5 false false false); Some (mkInfo 5 false false false)] 3.
Definition tfs : list (option fsdisk) := [Some [mkFF 1 2048 100 0 11 [1%N; 2%N]]; Some []].
Definition tpar : parity := [[PEnc [1%N; 11%N]; PEnc [2%N; 12%N]; PEnc [0%N; 13%N]]].
Definition ttrace : list mev := sync_trace hz 1024 1 wo 7 tfs (fun _ => []) (fun _ => false) (seq 0 3) None tc1 tpar.
Definition tpre : list mev := firstn 1 ttrace.        (* [MResize 2] *)
Definition trest : list mev := skipn 1 ttrace.        (* MSave tc1 :: ... *)
Definition tcrash : dstate :=
  mkDS (copies_at 1 tc0 tpre trest 0)
       (map (fun l => level_state (scheds ttrace) (nth l (par_base tpar tpre) []) (nth l wks 0) (nth l wtorn false))
            (seq 0 (length tpar))).

Theorem kill_c0_parity_truncated :
  crash_state Mono 1 tc0 tpar ttrace tcrash /\
  ds_copies tcrash = [tc0] /\
  recorded_healthy tc0 2 = true /\
  nth 2 (nth 0 tpar []) PNone = PEnc [0%N; 13%N] /\
  nth 2 (nth 0 (ds_par tcrash) []) PNone = PNone.
Proof.
  split.
  - unfold tcrash. apply (CrashAt Mono 1 tc0 tpar ttrace tpre trest 0 wks wtorn).
    + symmetry. apply firstn_skipn.
    + reflexivity.
    + reflexivity.
    + intros l Hl. assert (El : l = 0) by (vm_compute in Hl; lia). subst l.
      unfold k_ok. vm_compute. split; reflexivity.
  - repeat split; vm_compute; reflexivity.
Qed.
