(* C07 -- resume_converges: the sync that follows an interrupted one, without faults, completes every stripe it visits. *)
From Coq Require Import NArith ZArith List Bool Arith Lia.
From Snap.Array Require Import ArrayDefs SyncModel SyncProofsDefs SyncProofsStripe.
From Snap.Fault Require Import FaultModel KillProofs ResumeProofs.
Import ListNotations.

Arguments sync_stripe : simpl never.
Arguments stripe_enabled : simpl never.

Lemma read_slot_view bs fsd s s' fo : sview_of s' = sview_of s -> read_slot bs fsd s' fo = read_slot bs fsd s fo.
Proof.
  destruct s as [|f i b|h], s' as [|f' i' b'|h']; simpl; intro H; try discriminate H; try reflexivity.
  destruct f, f'. simpl in H. inversion H. subst. reflexivity.
Qed.

Lemma bstate_eqb_true a b : bstate_eqb a b = true -> a = b.
Proof. destruct a, b; simpl; intro H; try discriminate H; reflexivity. Qed.

Lemma not_invalid_synced s : slot_invalid_parity s = false -> slot_synced s.
Proof.
  destruct s as [|f i b|h]; simpl; intro H; [exact I | | discriminate H].
  apply negb_false_iff in H. apply bstate_eqb_true in H. exact H.
Qed.

Lemma not_enabled_synced o c pos :
  stripe_enabled o (slots c pos) = false -> (exists j, slot_has_file (slot_of c pos j) = true) -> stripe_synced c pos.
Proof.
  intros He [j Hj]. split; [|exists j; exact Hj].
  assert (Hlt : j < length (slots c pos)).
  { destruct (Nat.lt_ge_cases j (length (slots c pos))) as [H|H]; [exact H|].
    unfold slot_of in Hj. rewrite nth_overflow in Hj by exact H. discriminate Hj. }
  assert (Hex : existsb slot_has_file (slots c pos) = true).
  { apply existsb_exists. exists (slot_of c pos j). split; [apply nth_In; exact Hlt | exact Hj]. }
  unfold stripe_enabled in He. rewrite Hex in He. simpl in He. apply orb_false_iff in He. destruct He as [_ He].
  intro k. apply not_invalid_synced.
  destruct (Nat.lt_ge_cases k (length (slots c pos))) as [H|H].
  - apply (existsb_false_In _ _ _ He). apply nth_In. exact H.
  - unfold slot_of. rewrite nth_overflow by exact H. reflexivity.
Qed.

Section Loop.
  Variable hashf : bid -> N -> hval.
  Variable bs : N.
  Variable nlev : nat.

  Lemma reads_clean_views c c' fs faults p :
    same_views c c' p -> reads_clean hashf bs c fs faults p -> reads_clean hashf bs c' fs faults p.
  Proof.
    intros [Hl Hv] H j Hj. rewrite Hl in Hj. specialize (H j Hj). specialize (Hv j).
    assert (Er : ss_rd bs c' fs faults p j = ss_rd bs c fs faults p j).
    { unfold ss_rd. apply read_slot_view. exact Hv. }
    destruct (slot_of c' p j) as [|f' i' b'|h'] eqn:E'; [exact I | | exact I].
    destruct (slot_of c p j) as [|f i b|h] eqn:E; simpl in Hv; try discriminate Hv.
    inversion Hv. subst. rewrite Er. exact H.
  Qed.

  Theorem resume_converges o now fs : forall stripes c par ne ns ni,
    NoDup stripes ->
    (forall pos, In pos stripes -> reads_clean hashf bs c fs [] pos) ->
    let r := sync_loop hashf bs nlev o now fs (fun _ => []) stripes None c par ne ns ni in
    ro_bailed r = false /\ ro_nerr r = ne /\ ro_nio r = ni /\
    (forall pos, In pos stripes -> (exists j, slot_has_file (slot_of c pos j) = true) -> stripe_synced (ro_content r) pos) /\
    (forall p, ~ In p stripes -> same_views c (ro_content r) p).
  Proof.
    induction stripes as [|pos rest IH]; intros c par ne ns ni ND Hc; cbn [sync_loop].
    - simpl. split; [reflexivity|]. split; [reflexivity|]. split; [reflexivity|]. split; [intros p []|]. intros p _. apply same_views_refl.
    - inversion ND as [|? ? Hnin ND']. subst.
      fold (slots c pos).
      destruct (stripe_enabled o (slots c pos)) eqn:Een; cbn [negb].
      + (* processed *)
        pose proof (resume_stripe_completes hashf bs nlev o now ni c (map (fun lv => nth pos lv PNone) par) fs [] pos (Hc pos (or_introl eq_refl))) as RS.
        cbv zeta in RS.
        set (r1 := sync_stripe hashf bs nlev o now ni c (map (fun lv => nth pos lv PNone) par) fs [] pos) in *.
        destruct RS as (Rb & Rn & Ri & Rs & Rf).
        cbv zeta. rewrite Rb.
        destruct (sync_stripe_other_stripes hashf bs nlev o now ni c (map (fun lv => nth pos lv PNone) par) fs [] pos) as [_ Fr]. fold r1 in Fr.
        assert (Hc' : forall p, In p rest -> reads_clean hashf bs (so_content r1) fs [] p).
        { intros p Hp. apply (reads_clean_views c). 
          - apply Fr. intro E. subst p. exact (Hnin Hp).
          - apply Hc. right. exact Hp. }
        destruct (IH (so_content r1) (match so_write r1 with Some v => set_parity par pos v | None => par end)
                     (ne + so_nerr r1) (ns + so_nsilent r1) (ni + so_nio r1) ND' Hc') as (I1 & I2 & I3 & I4 & I5).
        split; [exact I1|]. split; [rewrite I2, Rn; lia|]. split; [rewrite I3, Ri; lia|]. split.
        * intros p [E|Hp] Hf.
          -- subst p. eapply same_views_synced; [apply I5; exact Hnin|].
             split; [exact Rs|]. destruct Hf as [j Hj]. exists j. rewrite Rf. exact Hj.
          -- apply I4; [exact Hp|]. destruct Hf as [j Hj]. exists j.
             assert (Hne : p <> pos) by (intro E; subst p; exact (Hnin Hp)).
             destruct (Fr p Hne) as ([_ Hv] & _). rewrite (view_has_file _ _ (Hv j)). exact Hj.
        * intros p Hp.
          assert (Hne : p <> pos) by (intro E; apply Hp; left; symmetry; exact E).
          eapply same_views_trans; [apply Fr; exact Hne | apply I5; intro H; apply Hp; right; exact H].
      + (* not enabled: the stripe has nothing unsynced *)
        destruct (IH c par ne ns ni ND' (fun p Hp => Hc p (or_intror Hp))) as (I1 & I2 & I3 & I4 & I5).
        split; [exact I1|]. split; [exact I2|]. split; [exact I3|]. split.
        * intros p [E|Hp] Hf.
          -- subst p. eapply same_views_synced; [apply I5; exact Hnin|]. apply (not_enabled_synced o); assumption.
          -- apply I4; assumption.
        * intros p Hp. apply I5. intro H. apply Hp. right. exact H.
  Qed.
End Loop.
