(* C07 -- (1) what a parity block can be in a crash state (old, new, or torn), (2) additions only: a previously synced block
   is rebuilt exactly from an intact level, old or new, (3) a resumed sync completes every stripe it can read. *)
From Coq Require Import NArith ZArith List Bool Arith Lia.
From Snap.Array Require Import ArrayDefs SyncModel SyncProofsDefs SyncProofsStripe.
From Snap.Fault Require Import FaultModel KillProofs.
Import ListNotations.

Arguments sync_stripe : simpl never.

(* ---------------------------------------------------------------------------------------------------------------- *)
(* (1) a parity block in a crash state                                                                               *)
(* ---------------------------------------------------------------------------------------------------------------- *)
Lemma apply_writes_cases ws : forall lv p,
  nth p (apply_writes ws lv) PNone = nth p lv PNone \/
  exists v, In (p, v) ws /\ nth p (apply_writes ws lv) PNone = PEnc v.
Proof.
  induction ws as [|[q v] t IH]; intros lv p; [left; reflexivity|]. simpl.
  destruct (IH (set_ext PNone q (PEnc v) lv) p) as [E|[v' [Hin E]]].
  - destruct (Nat.eq_dec p q) as [->|Hne].
    + right. exists v. split; [left; reflexivity|]. rewrite E. apply nth_set_ext_same.
    + left. rewrite E. apply nth_set_ext_other. exact Hne.
  - right. exists v'. split; [right; exact Hin | exact E].
Qed.

(* every block of every level is: what was there before the sync (after the resize), or the block of a write this sync
   scheduled for that position, or -- only at the position of the one write in progress -- torn *)
Theorem crash_block_cases m ncopies c0 par0 tr ds :
  crash_state m ncopies c0 par0 tr ds ->
  forall l p, l < length par0 ->
    (exists pre, nth p (nth l (ds_par ds) []) PNone = nth p (nth l (par_base par0 pre) []) PNone)
    \/ (exists v, In (p, v) (scheds tr) /\ nth p (nth l (ds_par ds) []) PNone = PEnc v)
    \/ nth p (nth l (ds_par ds) []) PNone = PJunk 1.
Proof.
  intros Hcr l p Hl. destruct Hcr as [pre rest j ks torn Htr Hlk Hlt Hk]. cbn [ds_par].
  rewrite (nth_map_seq (fun l => level_state (scheds tr) (nth l (par_base par0 pre) []) (nth l ks 0) (nth l torn false))) by exact Hl.
  unfold level_state.
  set (base := nth l (par_base par0 pre) []). set (k := nth l ks 0).
  assert (C : nth p (apply_writes (firstn k (scheds tr)) base) PNone = nth p base PNone \/
              exists v, In (p, v) (scheds tr) /\ nth p (apply_writes (firstn k (scheds tr)) base) PNone = PEnc v).
  { destruct (apply_writes_cases (firstn k (scheds tr)) base p) as [E|[v [Hin E]]]; [left; exact E|].
    right. exists v. split; [eapply in_firstn; exact Hin | exact E]. }
  destruct (nth l torn false).
  - destruct (nth_error (scheds tr) k) as [[q v]|].
    + destruct (Nat.eq_dec p q) as [->|Hne].
      * right. right. apply nth_set_ext_same.
      * rewrite nth_set_ext_other by exact Hne.
        destruct C as [E|[v' [Hin E]]]; [left; exists pre; exact E | right; left; exists v'; auto].
    + destruct C as [E|[v' [Hin E]]]; [left; exists pre; exact E | right; left; exists v'; auto].
  - destruct C as [E|[v' [Hin E]]]; [left; exists pre; exact E | right; left; exists v'; auto].
Qed.

(* ---------------------------------------------------------------------------------------------------------------- *)
(* (2) additions only                                                                                                *)
(* ---------------------------------------------------------------------------------------------------------------- *)
(* One stripe of a sync that only ADDS files: every slot is empty, or a block synced before (BLK), or a new block over a
   position that held nothing (CHG with past hash ZERO).  d = the data on the disks now (0 where there is no block).
   The parity block of a level is OLD (encodes d with the new blocks zeroed) or NEW (encodes d).  Whatever single disk j0
   holding a synced block is lost, fix rebuilds it exactly: with the parity as it is when it is new (strategy 1 of
   check.c: repair), with the new blocks taken as zeros when it is old (strategy 2), and the hash of the lost block
   tells which one succeeded.  Reconstruction of F from PEnc v and the survivors d succeeds with v|F iff
   agree_outside F v d (Array/ArrayDefs.v header: this is C03's theorem). *)
Definition is_blk_slot (s : slot) : bool := match s with SFile _ _ b => bstate_eqb (fb_state b) SBlk | _ => false end.
Definition adds_only_slot (s : slot) (x : bid) : Prop :=
  match s with
  | SEmpty => x = 0%N
  | SFile _ _ b => fb_state b = SBlk \/ (fb_state b = SChg /\ fb_hash b = HZero)
  | SDeleted _ => False
  end.
Definition zero_new (slots : list slot) (d : list bid) : list bid :=
  map (fun j => if is_blk_slot (nth j slots SEmpty) then nth j d 0%N else 0%N) (seq 0 (length d)).

Lemma agree_outside_refl F d : agree_outside F d d = true.
Proof. unfold agree_outside. apply forallb_forall. intros i _. rewrite N.eqb_refl. apply orb_true_r. Qed.

Lemma nth_zero_new slots d j : j < length d ->
  nth j (zero_new slots d) 0%N = if is_blk_slot (nth j slots SEmpty) then nth j d 0%N else 0%N.
Proof. intro H. unfold zero_new. apply (nth_map_seq (fun j => if is_blk_slot (nth j slots SEmpty) then nth j d 0%N else 0%N)). exact H. Qed.

Theorem adds_only_recoverable_stripe (slots : list slot) (d v : list bid) (j0 : nat) :
  j0 < length d -> is_blk_slot (nth j0 slots SEmpty) = true ->
  (v = d \/ v = zero_new slots d) ->                      (* the level is intact: entirely new or entirely old *)
  (agree_outside [j0] v d = true \/ agree_outside [j0] v (zero_new slots d) = true)   (* strategy 1 or strategy 2 applies *)
  /\ nth j0 v 0%N = nth j0 d 0%N.                          (* and yields the synced block *)
Proof.
  intros Hj Hb [-> | ->].
  - split; [left; apply agree_outside_refl | reflexivity].
  - split; [right; apply agree_outside_refl|]. rewrite nth_zero_new by exact Hj. rewrite Hb. reflexivity.
Qed.

(* What fix can actually do in strategy 2 (check.c repair): it zeroes exactly the CHG blocks whose recorded past hash is ZERO.
   The old parity encodes zero_new (every block that is not a synced BLK block zeroed).  The two coincide when the additions are
   recorded as CHG/ZERO -- NOT after the pre-hash phase of `sync -h`, which turns them into REP blocks with the hash of the new
   data (finding F-C07-prehash-loses-empty-marker): hypothesis `no_prehash_stripe`. *)
Definition can_zero_slot (s : slot) : bool :=
  match s with SFile _ _ b => bstate_eqb (fb_state b) SChg && hval_eqb (fb_hash b) HZero | _ => false end.
Definition zero_chg (slots : list slot) (d : list bid) : list bid :=
  map (fun j => if can_zero_slot (nth j slots SEmpty) then 0%N else nth j d 0%N) (seq 0 (length d)).
Definition no_prehash_stripe (slots : list slot) (d : list bid) : Prop :=
  forall j, j < length d -> adds_only_slot (nth j slots SEmpty) (nth j d 0%N).

Lemma zero_chg_eq slots d : no_prehash_stripe slots d -> zero_chg slots d = zero_new slots d.
Proof.
  intro H. unfold zero_chg, zero_new. apply map_ext_in. intros j Hj. apply in_seq in Hj. specialize (H j ltac:(lia)).
  destruct (nth j slots SEmpty) as [|f i b|h]; simpl in *.
  - exact H.
  - destruct H as [E|[E1 E2]]; rewrite ?E, ?E1, ?E2; reflexivity.
  - destruct H.
Qed.

Theorem adds_only_recoverable_noprehash (slots : list slot) (d v : list bid) (j0 : nat) :
  j0 < length d -> is_blk_slot (nth j0 slots SEmpty) = true ->
  no_prehash_stripe slots d ->
  (v = d \/ v = zero_new slots d) ->
  (agree_outside [j0] v d = true \/ agree_outside [j0] v (zero_chg slots d) = true) /\ nth j0 v 0%N = nth j0 d 0%N.
Proof.
  intros Hj Hb Hn Hv. rewrite (zero_chg_eq slots d Hn). apply adds_only_recoverable_stripe; assumption.
Qed.

(* with the pre-hash phase the statement is false: d1 holds a synced block (5), d2 a just-added block recorded REP (data 9), the
   level still holds the old parity (5, 0, 0): neither strategy of fix applies *)
Example adds_only_prehash_refuted :
  let slots := [SFile (mkCF 1 1024 0 0 1 false []) 0 (mkFB SBlk 0 (HReal 5)); SFile (mkCF 2 1024 0 0 2 false []) 0 (mkFB SRep 0 (HReal 9)); SEmpty] in
  let d := [5; 9; 0]%N in
  zero_new slots d = [5; 0; 0]%N /\ zero_chg slots d = d /\
  agree_outside [0] (zero_new slots d) d = false /\ agree_outside [0] (zero_new slots d) (zero_chg slots d) = false.
Proof. vm_compute. repeat split. Qed.

(* the old parity of such a stripe IS zero_new: it fits enc_ok of C06 for the content before the additions *)
Lemma zero_new_at_new slots d j : j < length d -> is_blk_slot (nth j slots SEmpty) = false -> nth j (zero_new slots d) 0%N = 0%N.
Proof. intros H E. rewrite nth_zero_new by exact H. rewrite E. reflexivity. Qed.

(* ---------------------------------------------------------------------------------------------------------------- *)
(* (3) the resumed sync completes a stripe whose blocks can all be read                                              *)
(* ---------------------------------------------------------------------------------------------------------------- *)
Section Resume.
  Variable hashf : bid -> N -> hval.
  Variable bs : N.
  Variable nlev : nat.

  Ltac dmatch := repeat match goal with |- context [match ?x with _ => _ end] => destruct x eqn:?; simpl in * end.

  Lemma disk_step_nobail o iob a j s r :
    a_bail a = false -> x_fatal s r = false -> x_io s r = false -> a_bail (disk_step hashf bs o iob a (j, s, r)) = false.
  Proof. intros Hb Hf Hi. unfold disk_step. rewrite Hb. unfold x_fatal, x_io in *. dmatch; try reflexivity; try congruence. Qed.

  Lemma fold_nobail o iob l : forall a,
    a_bail a = false -> (forall x, In x l -> x_fatal (t_s x) (t_r x) = false /\ x_io (t_s x) (t_r x) = false) ->
    a_bail (fold_left (disk_step hashf bs o iob) l a) = false.
  Proof.
    induction l as [|[[j s] r] t IH]; intros a Hb H; [exact Hb|]. simpl. apply IH.
    - destruct (H (j, s, r) (or_introl eq_refl)) as [Hf Hi]. apply disk_step_nobail; assumption.
    - intros x Hx. apply H. right. exact Hx.
  Qed.

  (* every file block of the stripe is read, and the blocks the content knows the hash of (BLK, REP) still have it *)
  Definition reads_clean (c : content) (fs : list (option fsdisk)) (faults : list (option rd)) (pos : nat) : Prop :=
    forall j, j < length (c_disks c) ->
      match slot_of c pos j with
      | SFile f i b => exists blk len, ss_rd bs c fs faults pos j = RdOk blk len /\
                                       (fb_state b <> SChg -> hval_eqb (hashf blk len) (fb_hash b) = true)
      | _ => True
      end.

  Lemma existsb_false_all {A} (f : A -> bool) l : (forall x, In x l -> f x = false) -> existsb f l = false.
  Proof. induction l as [|x t IH]; intro H; simpl; [reflexivity|]. rewrite (H x (or_introl eq_refl)). apply IH. intros y Hy. apply H. right. exact Hy. Qed.

  Theorem resume_stripe_completes o now iob c par fs faults pos :
    reads_clean c fs faults pos ->
    let r := sync_stripe hashf bs nlev o now iob c par fs faults pos in
    so_bail r = false /\ so_nerr r = 0 /\ so_nio r = 0 /\
    (forall j, slot_synced (slot_of (so_content r) pos j)) /\
    (forall j, slot_has_file (slot_of (so_content r) pos j) = slot_has_file (slot_of c pos j)).
  Proof.
    intros Hc r.
    (* the contribution of every disk is harmless *)
    assert (HX : forall x, In x (ss_L bs c fs faults pos) ->
                   x_fatal (t_s x) (t_r x) = false /\ x_io (t_s x) (t_r x) = false /\
                   x_err hashf (t_s x) (t_r x) = false /\ x_silent hashf (t_s x) (t_r x) = false).
    { intros x Hx. apply (in_ss_L bs c fs faults pos) in Hx. destruct Hx as [j [Hj ->]]. unfold t_s, t_r. cbn [fst snd].
      specialize (Hc j Hj). destruct (slot_of c pos j) as [|f i b|h]; [repeat split | | repeat split].
      destruct Hc as [blk [len [-> Hh]]]. unfold x_fatal, x_io, x_err, x_silent.
      destruct (fb_state b) eqn:Es; repeat split; try reflexivity; rewrite Hh by congruence; reflexivity. }
    assert (Hb : a_bail (ss_A hashf bs o iob c fs faults pos) = false).
    { unfold ss_A. apply fold_nobail; [reflexivity|]. intros x Hx. destruct (HX x Hx) as (A & B & _). auto. }
    destruct (fold_spec hashf bs o iob (ss_L bs c fs faults pos) (ss_a0 o c pos) Hb) as (_ & _ & E1 & S1 & I1 & _).
    fold (ss_A hashf bs o iob c fs faults pos) in E1, S1, I1.
    rewrite existsb_false_all in E1 by (intros x Hx; apply (HX x Hx)).
    rewrite existsb_false_all in S1 by (intros x Hx; apply (HX x Hx)).
    rewrite existsb_false_all in I1 by (intros x Hx; apply (HX x Hx)).
    simpl in E1, S1, I1.
    unfold r. rewrite (sync_stripe_eq hashf bs nlev). cbv zeta. rewrite Hb.
    assert (Hp : forall fixed, ss_proceed (ss_A hashf bs o iob c fs faults pos) fixed = true).
    { intro fixed. unfold ss_proceed. rewrite E1, S1, I1. reflexivity. }
    rewrite Hp. cbn [so_bail so_nerr so_nio so_content].
    split; [reflexivity|].
    (* the counters: no contribution increments them *)
    assert (Hcnt : forall l a, (forall x, In x l -> x_fatal (t_s x) (t_r x) = false /\ x_io (t_s x) (t_r x) = false /\
                                   x_err hashf (t_s x) (t_r x) = false /\ x_silent hashf (t_s x) (t_r x) = false) ->
                     a_bail a = false ->
                     a_nerr (fold_left (disk_step hashf bs o iob) l a) = a_nerr a /\ a_nio (fold_left (disk_step hashf bs o iob) l a) = a_nio a).
    { induction l as [|[[j s] rr] t IH]; intros a H Ha; [split; reflexivity|]. cbn [fold_left].
      destruct (H (j, s, rr) (or_introl eq_refl)) as (F1 & F2 & F3 & F4). unfold t_s, t_r in *. cbn [fst snd] in *.
      assert (Hstep : a_bail (disk_step hashf bs o iob a (j, s, rr)) = false /\
                      a_nerr (disk_step hashf bs o iob a (j, s, rr)) = a_nerr a /\ a_nio (disk_step hashf bs o iob a (j, s, rr)) = a_nio a).
      { unfold disk_step. rewrite Ha. unfold x_fatal, x_io, x_err, x_silent in *.
        destruct s as [|ff ii bb|hh]; simpl; [repeat split; assumption | | repeat split; assumption].
        destruct bb as [st pp hh]. simpl in *.
        destruct rr as [|blk len| | |]; try discriminate; simpl.
        - destruct st; simpl; repeat split; assumption.
        - destruct st; simpl in *.
          + apply negb_false_iff in F4. rewrite F4. repeat split; assumption.
          + repeat split; assumption.
          + apply negb_false_iff in F3. rewrite F3. repeat split; assumption. }
      destruct Hstep as (B & N1 & N2).
      destruct (IH (disk_step hashf bs o iob a (j, s, rr)) (fun x Hx => H x (or_intror Hx)) B) as [G1 G2].
      split; congruence. }
    destruct (Hcnt (ss_L bs c fs faults pos) (ss_a0 o c pos) HX eq_refl) as [C1 C2].
    fold (ss_A hashf bs o iob c fs faults pos) in C1, C2.
    split; [rewrite C1; reflexivity|]. split; [rewrite C2; reflexivity|].
    split.
    - intro j. rewrite ss_disks_slot.
      destruct (nth j (c_disks c) None) as [d|] eqn:Ed; [|exact I].
      rewrite complete_disk_slot. destruct (slot_at d pos); simpl; auto.
    - intro j. rewrite ss_disks_slot. rewrite slot_of_nth.
      destruct (nth j (c_disks c) None) as [d|] eqn:Ed; [|reflexivity].
      rewrite complete_disk_slot. destruct (slot_at d pos); reflexivity.
  Qed.
End Resume.
