(* C08 -- scrub, one stripe: a bad mark is cleared only by a complete, clean verification of the stripe.  In particular a stripe
   that is not fully synced (a touched file, CHG/REP/DELETED blocks) whose parity differs, or any parity read that did not succeed,
   leaves the mark (scrub.c:509-613).  Model: FaultModel.scrub_stripe. *)
From Coq Require Import NArith List Bool Arith Lia.
From Snap.Array Require Import ArrayDefs.
From Snap.Fault Require Import FaultModel.
Import ListNotations.

Definition flagged (a : sacc) : bool := sa_err a || sa_silent a || sa_io a.
Definition stuck (a : sacc) : Prop := sa_bail a = true \/ flagged a = true.

Lemma par_step_stuck l i a p : stuck a -> stuck (scrub_par_step l i a p).
Proof.
  unfold stuck, flagged, scrub_par_step. destruct a as [e s io u b ne ns ni]; simpl.
  intros [H|H]; [rewrite H; auto|]. destruct b; [auto|].
  destruct p; simpl; try (destruct (l <=? i + S ni); simpl); auto; right; rewrite ?orb_true_r; auto.
Qed.
Lemma par_step_notok l i a p : (forall b, p <> SpOk b) -> stuck (scrub_par_step l i a p).
Proof.
  unfold stuck, flagged, scrub_par_step. destruct a as [e s io u b ne ns ni]; simpl. intros H.
  destruct b; [auto|].
  destruct p as [ok| | | |]; [exfalso; apply (H ok); reflexivity| | | |];
    simpl; try (destruct (l <=? i + S ni); simpl); auto; right; rewrite ?orb_true_r; reflexivity.
Qed.
Lemma fold_par_stuck l i ps : forall a, stuck a -> stuck (fold_left (scrub_par_step l i) ps a).
Proof. induction ps; intros; simpl; auto using par_step_stuck. Qed.
Lemma fold_par_notok l i p ps : forall a, In p ps -> (forall b, p <> SpOk b) -> stuck (fold_left (scrub_par_step l i) ps a).
Proof.
  induction ps as [|q ps IH]; intros a Hin Hp; [destruct Hin|]. simpl. destruct Hin as [->|Hin].
  - apply fold_par_stuck. apply par_step_notok. exact Hp.
  - apply IH; assumption.
Qed.

Lemma cmp_step_flag a p : flagged a = true -> flagged (scrub_cmp_step a p) = true.
Proof.
  unfold flagged, scrub_cmp_step. destruct a as [e s io u b ne ns ni]; simpl. intros H.
  destruct p as [[|]| | | |]; simpl; auto. destruct u; simpl; auto.
  destruct e, s, io; simpl in *; auto.
Qed.
Lemma cmp_step_differs a : flagged (scrub_cmp_step a (SpOk false)) = true.
Proof. unfold flagged, scrub_cmp_step. destruct a as [e s io u b ne ns ni]; simpl. destruct u; simpl; auto. destruct e; reflexivity. Qed.
Lemma fold_cmp_flag ps : forall a, flagged a = true -> flagged (fold_left scrub_cmp_step ps a) = true.
Proof. induction ps; intros; simpl; auto using cmp_step_flag. Qed.
Lemma fold_cmp_differs ps : forall a, In (SpOk false) ps -> flagged (fold_left scrub_cmp_step ps a) = true.
Proof.
  induction ps as [|q ps IH]; intros a Hin; [destruct Hin|]. simpl. destruct Hin as [->|Hin].
  - apply fold_cmp_flag. apply cmp_step_differs.
  - apply IH. exact Hin.
Qed.

(* what the info word becomes, by the flags of the accumulator *)
Lemma flagged_keeps_bad (a : sacc) (now : N) (inf : info) :
  flagged a = true -> i_bad inf = true ->
  i_bad (if sa_silent a || sa_io a then mkInfo (i_time inf) true (i_rehash inf) (i_justsynced inf)
         else if sa_err a then inf else mkInfo now false false false) = true.
Proof. unfold flagged. destruct (sa_err a), (sa_silent a), (sa_io a); simpl; auto; discriminate. Qed.

Theorem scrub_clears_bad_only_verified limit iob now inf disks pars :
  let r := scrub_stripe limit iob now inf disks pars in
  i_bad inf = true -> sc_bail r = false -> i_bad (sc_info r) = false ->
  (forall p, In p pars -> p = SpOk true) /\ sc_info r = mkInfo now false false false.
Proof.
  intros r Hbad. unfold r, scrub_stripe. cbv zeta.
  set (a1 := fold_left (scrub_disk_step limit iob) disks _).
  set (a2 := fold_left (scrub_par_step limit iob) pars a1).
  destruct (sa_bail a2) eqn:Eb; [simpl; discriminate|]. intros _.
  destruct (flagged a2) eqn:Ef.
  - (* a flag is up after the reads: the comparison is skipped, the mark stays *)
    assert (E : negb (sa_err a2) && negb (sa_silent a2) && negb (sa_io a2) = false).
    { unfold flagged in Ef. destruct (sa_err a2), (sa_silent a2), (sa_io a2); simpl in *; auto; discriminate. }
    rewrite E. simpl. intros H. rewrite (flagged_keeps_bad a2 now inf Ef Hbad) in H. discriminate.
  - assert (E : negb (sa_err a2) && negb (sa_silent a2) && negb (sa_io a2) = true).
    { unfold flagged in Ef. destruct (sa_err a2), (sa_silent a2), (sa_io a2); simpl in *; auto; discriminate. }
    rewrite E. simpl. set (a3 := fold_left scrub_cmp_step pars a2). intros H.
    destruct (flagged a3) eqn:Ef3; [rewrite (flagged_keeps_bad a3 now inf Ef3 Hbad) in H; discriminate|].
    split.
    + intros p Hin. destruct p as [[|]| | | |]; auto.
      * unfold a3 in Ef3. rewrite (fold_cmp_differs pars a2 Hin) in Ef3. discriminate.
      * destruct (fold_par_notok limit iob SpErrCont pars a1 Hin) as [K|K]; [discriminate| |]; fold a2 in K; congruence.
      * destruct (fold_par_notok limit iob SpIoCont pars a1 Hin) as [K|K]; [discriminate| |]; fold a2 in K; congruence.
      * destruct (fold_par_notok limit iob SpFatalIo pars a1 Hin) as [K|K]; [discriminate| |]; fold a2 in K; congruence.
      * destruct (fold_par_notok limit iob SpFatal pars a1 Hin) as [K|K]; [discriminate| |]; fold a2 in K; congruence.
    + unfold flagged in Ef3. destruct (sa_err a3), (sa_silent a3), (sa_io a3); simpl in *; try discriminate. reflexivity.
Qed.

(* the two situations the check drives through the binary *)
(* a stripe marked bad by a failed parity write, a file of it touched since, parity stale: `scrub -p bad` leaves the mark, exit failing *)
Example scrub_bad_touched_stale_keeps_mark :
  let r := scrub_stripe 100 0 77 (mkInfo 8 true false true)
             [mkST true false true true true (SdOk true); mkST true false true false true (SdOk true)] [SpOk false] in
  sc_info r = mkInfo 8 true false true /\ sc_nerr r = 1 /\ sc_nio r = 0 /\ sc_nsilent r = 0.
Proof. vm_compute. repeat split. Qed.
(* a stripe with a CHG block, the parity read fails with EIO: counted, marked bad, time kept *)
Example scrub_unsynced_parity_eio_marks_bad :
  let r := scrub_stripe 100 0 77 (mkInfo 8 false false true)
             [mkST true true true false false (SdOk true); mkST true false true false true (SdOk true)] [SpIoCont] in
  sc_info r = mkInfo 8 true false true /\ sc_nio r = 1 /\ sc_bail r = false.
Proof. vm_compute. repeat split. Qed.
(* one of three parity levels unreadable (EIO), the two others read and equal: the stripe is NOT booked as scrubbed: marked bad, time kept,
   the failed read counted; the same on a stripe already bad.  (scrub_read_error_safe states it for any list of per-level outcomes.) *)
Example scrub_partial_parity_eio_marks_bad :
  let disks := [mkST true false true false true (SdOk true); mkST true false true false true (SdOk true)] in
  let r := scrub_stripe 100 0 77 (mkInfo 8 false false true) disks [SpOk true; SpIoCont; SpOk true] in
  let r' := scrub_stripe 100 0 77 (mkInfo 8 true false false) disks [SpIoCont; SpOk true; SpIoCont] in
  sc_info r = mkInfo 8 true false true /\ sc_nio r = 1 /\ sc_bail r = false /\
  sc_info r' = mkInfo 8 true false false /\ sc_nio r' = 2 /\ sc_bail r' = false.
Proof. vm_compute. repeat split. Qed.
