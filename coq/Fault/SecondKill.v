(* C07 -- two successive interrupted syncs (finding F-C07-second-interrupted-sync-clears-empty-marker).  The adds-only statement
   (ResumeProofs.adds_only_recoverable_noprehash) speaks of ONE interrupted sync: its hypothesis no_prehash_stripe asks every
   addition to be recorded CHG with past hash ZERO.  The content a killed sync leaves satisfies it; the content the NEXT sync works
   on is clear_past of it (state_read with clear_past_hash: CHG/ZERO -> CHG/INVALID), which that sync saves before its loop: the
   hypothesis no longer holds, and with the parity level still the old one neither of fix's two strategies applies. *)
From Coq Require Import NArith ZArith List Bool Arith Lia.
From Snap.Array Require Import ArrayDefs SyncModel SyncProofsDefs.
From Snap.Fault Require Import FaultModel ResumeProofs.
Import ListNotations.

(* disk 1: a synced one-block file; disk 2: a one-block file just added (CHG, ZERO) -- what the first, killed, sync saved *)
Definition c_kill1 : content :=
  mkC [Some (mkCD [mkCF 1 1024 100 0 11 false [mkFB SBlk 0 (HReal 5)]] [] [] []);
       Some (mkCD [mkCF 2 1024 100 0 12 false [mkFB SChg 0 HZero]] [] [] []); None] [Some (mkInfo 5 false false false)] 1.
Definition d_now : list bid := [5; 9; 0]%N.

Example second_kill_clears_empty_marker :
  (* after the first kill the hypothesis of the adds-only theorem holds and strategy 2 (zero the CHG/ZERO blocks) fits the old parity *)
  (forall j, j < 3 -> adds_only_slot (slot_of c_kill1 0 j) (nth j d_now 0%N)) /\
  agree_outside [0] (zero_new (slots c_kill1 0) d_now) (zero_chg (slots c_kill1 0) d_now) = true /\
  (* the next sync loads clear_past of it: the addition is CHG/INVALID, the hypothesis fails at slot 1 ... *)
  slot_of (clear_past c_kill1) 0 1 = SFile (mkCF 2 1024 100 0 12 false [mkFB SChg 0 HInvalid]) 0 (mkFB SChg 0 HInvalid) /\
  ~ adds_only_slot (slot_of (clear_past c_kill1) 0 1) (nth 1 d_now 0%N) /\
  (* ... and with the parity level still the old one (zero_new) neither strategy of fix yields the lost block of disk 1 *)
  zero_chg (slots (clear_past c_kill1) 0) d_now = d_now /\
  agree_outside [0] (zero_new (slots (clear_past c_kill1) 0) d_now) d_now = false /\
  agree_outside [0] (zero_new (slots (clear_past c_kill1) 0) d_now) (zero_chg (slots (clear_past c_kill1) 0) d_now) = false.
Proof.
  split; [|split; [|split; [|split; [|split; [|split]]]]]; try (vm_compute; reflexivity).
  - intros j Hj. destruct j as [|[|[|j]]]; try lia; vm_compute; auto.
  - vm_compute. intros [H|[_ H]]; discriminate.
Qed.
