(* C08 -- writer errors are collected at EVERY visited stripe, also at those that need no parity update (io_write_next is called with
   skip set there, sync.c:1262): a closed instance.  Disk 1 holds an 8-block file re-saved with the same bytes (CHG blocks whose past
   hash is the hash of the data on disk: no parity update), disk 2 a new one-block file in stripe 0: only stripe 0 is written. *)
From Coq Require Import NArith ZArith List Bool Arith Lia.
From Snap.Array Require Import ArrayDefs SyncModel SyncProofsDefs.
From Snap.Fault Require Import FaultModel FaultWitness.
Import ListNotations.

Definition kfile1 : cfile := mkCF 1 8192 100 0 11 false (map (fun i => mkFB SChg i (HReal (N.of_nat (i + 1)))) (seq 0 8)).
Definition kfile2 : cfile := mkCF 2 1024 100 0 12 false [mkFB SChg 0 HZero].
Definition kc : content := mkC [Some (mkCD [kfile1] [] [] []); Some (mkCD [kfile2] [] [] [])]
      (map (fun _ => Some (mkInfo 5 false false false)) (seq 0 8)) 8.   (* every stripe was synced (and scrubbed at time 5) before *)
Definition kfs : list (option fsdisk) :=
  [Some [mkFF 1 8192 100 0 11 (map (fun i => N.of_nat (i + 1)) (seq 0 8))]; Some [mkFF 2 1024 100 0 12 [11%N]]].
Definition krun (m : iomode) (w : wres) : FaultModel.wrun :=
  sync_loop_w hz 1024 1 wo 7 kfs (fun _ => []) (fun pos l => if Nat.eqb pos 0 then w else WOk) m (fun _ _ => 1)
              (seq 0 8) None 0 [] [] kc wpar 0 0 0.

(* the seven later stripes are visited and need no parity update *)
Example skip_stripes_not_written :
  forallb (fun pos => match so_write (sync_stripe hz 1024 1 wo 7 0 kc [PJunk 9] kfs [] pos) with None => true | Some _ => false end) (seq 1 7) = true /\
  so_write (sync_stripe hz 1024 1 wo 7 0 kc [PJunk 9] kfs [] 0) <> None.
Proof. vm_compute. split; [reflexivity | discriminate]. Qed.

(* the failed write of stripe 0 is reported while the loop visits the no-update stripes (cache 3 and 8), or by the end-of-run flush *)
Example write_error_collected_at_skipped_stripes :
  forallb (fun n => let r := krun (Threaded n) WEio in
     (length (w_fpos r) =? 1) && run_failing (w_run r) && (ro_nio (w_run r) =? 1) && (length (w_lost r) =? 0) &&
     negb (recorded_healthy (ro_content (w_run r)) 0) && recorded_healthy (ro_content (w_run r)) 1 && recorded_healthy (ro_content (w_run r)) 7)
    [3; 4; 8; 128] = true /\
  (let r := krun (Threaded 3) WErr in ro_bailed (w_run r) = true /\ run_failing (w_run r) = true /\ w_iters r = 1 /\
     recorded_healthy (ro_content (w_run r)) 0 = false) /\
  (let r := krun (Threaded 3) WShort in ro_bailed (w_run r) = true /\ run_failing (w_run r) = true /\
     recorded_healthy (ro_content (w_run r)) 0 = false /\ nth 0 (nth 0 (ro_parity (w_run r)) []) PNone = PJunk 0).
Proof. vm_compute. repeat split. Qed.
