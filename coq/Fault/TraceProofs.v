(* C07 -- the event generator is SyncModel.sync_loop: same result, and the parity of the result is the initial parity with
   exactly the scheduled writes applied (so the complete trace, all writes done, ends in the state C06 reasons about). *)
From Coq Require Import NArith ZArith List Bool Arith Lia.
From Snap.Array Require Import ArrayDefs SyncModel SyncProofsDefs.
From Snap.Fault Require Import FaultModel KillProofs.
Import ListNotations.

Arguments sync_stripe : simpl never.
Arguments stripe_enabled : simpl never.

Lemma map_apply_nil (par : parity) : map (apply_writes []) par = par.
Proof. induction par as [|lv t IH]; simpl; [reflexivity|]. rewrite IH. reflexivity. Qed.
Lemma set_parity_apply par pos v : set_parity par pos v = map (apply_writes [(pos, v)]) par.
Proof. reflexivity. Qed.
Lemma map_apply_app a b (par : parity) : map (apply_writes (a ++ b)) par = map (apply_writes b) (map (apply_writes a) par).
Proof. rewrite map_map. apply map_ext. intro lv. apply apply_writes_app. Qed.

Section T.
  Variable hashf : bid -> N -> hval.
  Variable bs : N.
  Variable nlev : nat.

  Theorem sync_events_run o now fs faults autosave : forall stripes stop c par ne ns ni,
    snd (sync_events hashf bs nlev o now fs faults autosave stripes stop c par ne ns ni) =
      sync_loop hashf bs nlev o now fs faults stripes stop c par ne ns ni /\
    ro_parity (snd (sync_events hashf bs nlev o now fs faults autosave stripes stop c par ne ns ni)) =
      map (apply_writes (scheds (fst (sync_events hashf bs nlev o now fs faults autosave stripes stop c par ne ns ni)))) par.
  Proof.
    induction stripes as [|pos rest IH]; intros stop c par ne ns ni; cbn [sync_events sync_loop].
    - simpl. split; [reflexivity | symmetry; apply map_apply_nil].
    - destruct (negb (stripe_enabled o _)); [apply IH|].
      assert (Triv : forall c' p' a b d bl, snd (@nil mev, mkRun c' p' a b d bl) = mkRun c' p' a b d bl /\
                       ro_parity (snd (@nil mev, mkRun c' p' a b d bl)) = map (apply_writes (scheds (fst (@nil mev, mkRun c' p' a b d bl)))) p').
      { intros. simpl. split; [reflexivity | symmetry; apply map_apply_nil]. }
      set (r := sync_stripe hashf bs nlev o now ni c (map (fun lv => nth pos lv PNone) par) fs (faults pos) pos).
      destruct stop as [[|k]|]; [apply Triv | |];
        (cbv zeta; destruct (so_bail r); [apply Triv|];
         match goal with |- context [sync_events hashf bs nlev o now fs faults autosave rest ?st ?cc ?pp ?a ?b ?d] =>
           destruct (IH st cc pp a b d) as [I1 I2];
           destruct (sync_events hashf bs nlev o now fs faults autosave rest st cc pp a b d) as [evs' out'] eqn:Erec
         end;
         cbn [fst snd] in *; split; [exact I1|];
         rewrite I2, !scheds_app;
         match goal with |- context [scheds (if ?b then _ else _)] => replace (scheds (if b then [MDrain; MFsync; MSave (so_content r)] else [])) with (@nil (nat * list bid)) by (destruct b; reflexivity) end;
         cbn [app];
         destruct (so_write r) as [v|]; cbn [scheds flat_map app]; [rewrite set_parity_apply, <- map_apply_app; reflexivity | reflexivity]).
  Qed.

  (* the complete trace: its last save is the result of sync_loop, and with every scheduled write done the parity is
     sync_loop's parity (after the resize) *)
  Theorem sync_trace_final o now fs faults autosave stripes stop c1 par :
    let tr := sync_trace hashf bs nlev o now fs faults autosave stripes stop c1 par in
    let r := sync_loop hashf bs nlev o now fs faults stripes stop c1 par 0 0 0 in
    exists pre, tr = pre ++ [MSave (ro_content r)] /\
      map (apply_writes (scheds pre)) par = ro_parity r.
  Proof.
    cbv zeta. unfold sync_trace.
    destruct (sync_events_run o now fs faults autosave stripes stop c1 par 0 0 0) as [E1 E2].
    destruct (sync_events hashf bs nlev o now fs faults autosave stripes stop c1 par 0 0 0) as [evs out]. cbn [fst snd] in *.
    subst out.
    set (r := sync_loop hashf bs nlev o now fs faults stripes stop c1 par 0 0 0) in *.
    exists ([MResize (allocated_size c1); MSave c1] ++ evs ++ [MDrain] ++ (if ro_bailed r then [] else [MFsync])).
    split.
    - rewrite <- !app_assoc. reflexivity.
    - rewrite E2. f_equal. rewrite !scheds_app. destruct (ro_bailed r); simpl; rewrite ?app_nil_r; reflexivity.
  Qed.
End T.
