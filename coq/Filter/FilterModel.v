(** C18 — executable model of the include/exclude filters (cmdline/elem.c:45-364, elem.h:522-529,
    state.c:4108-4198).  Executable definitions only; proofs are in FilterProofs.v.

    Byte strings are [list N].  The glob matcher is a parameter [fnm pathname pat s] of the generic
    definitions (the C code calls the C library's fnmatch); the closed instances at the end use
    [GlobModel.glob_match].  Strings are assumed shorter than PATH_MAX (pathimport/pathcpy abort otherwise). *)

From Coq Require Import NArith List Bool.
From Snap.Filter Require Import GlobModel.
Import ListNotations.
Open Scope N_scope.

(** struct snapraid_filter (elem.h:61-68); direction +1 = [f_include = true], -1 = [false]. *)
Record filter : Type := mkFilter {
  f_include : bool;
  f_pattern : list N;
  f_is_disk : bool;
  f_is_path : bool;
  f_is_dir : bool
}.

(** elem.c:64-90 — the token scan.  State: a slash was seen ([first != 0]), token_is_valid, token_is_filled.
    [None] = rejected; [Some seen] = accepted. *)
Fixpoint tok_scan (seen valid filled : bool) (p : list N) : option bool :=
  match p with
  | [] => if negb valid && (negb seen || filled) then None else Some seen
  | c :: p' =>
      if c =? SLASH then
        if negb valid && (seen || filled) then None
        else tok_scan true false false p'
      else if negb (c =? DOT) then tok_scan seen true true p'
      else tok_scan seen valid true p'
  end.

Fixpoint count_slash (p : list N) : nat :=
  match p with
  | [] => O
  | c :: p' => if c =? SLASH then S (count_slash p') else count_slash p'
  end.

Definition ends_slash (p : list N) : bool :=
  match rev p with
  | c :: _ => c =? SLASH
  | [] => false
  end.

Definition starts_slash (p : list N) : bool :=
  match p with
  | c :: _ => c =? SLASH
  | [] => false
  end.

(** filter_alloc_file (elem.c:45-122). *)
Definition filter_parse (incl : bool) (pat : list N) : option filter :=
  match tok_scan false false false pat with
  | None => None
  | Some _ =>
      match count_slash pat with
      | O => Some (mkFilter incl pat false false false)                       (* no slash *)
      | S n =>
          if (match n with O => true | S _ => false end) && ends_slash pat
          then Some (mkFilter incl (removelast pat) false false true)         (* one slash, at the end *)
          else if negb (starts_slash pat) then None                           (* PATH/FILE, PATH/DIR/ *)
          else if ends_slash pat
               then Some (mkFilter incl (removelast pat) false true true)
               else Some (mkFilter incl pat false true false)
      end
  end.

(** filter_alloc_disk (elem.c:124-146). *)
Definition filter_parse_disk (incl : bool) (pat : list N) : option filter :=
  match count_slash pat with
  | O => Some (mkFilter incl pat true false false)
  | S _ => None
  end.

Section Generic.

Variable fnm : bool -> list N -> list N -> bool.

(** filter_apply (elem.c:172-195): does the rule match this element (result != 0). *)
Definition filter_apply (f : filter) (path name : list N) (is_dir : bool) : bool :=
  if xorb (f_is_dir f) is_dir then false
  else if f_is_path f then fnm true (tl (f_pattern f)) path
  else fnm false (f_pattern f) name.

(** filter_recurse (elem.c:197-229).  [pre] = the bytes of the path already passed, [name] = the bytes
    passed since the last slash, [rest] = what remains. *)
Fixpoint recurse_from (f : filter) (pre name rest : list N) (is_dir : bool) : bool :=
  match rest with
  | [] => filter_apply f pre name is_dir
  | c :: r =>
      if c =? SLASH then
        filter_apply f pre name true || recurse_from f (pre ++ [c]) [] r is_dir
      else recurse_from f (pre ++ [c]) (name ++ [c]) r is_dir
  end.

Definition filter_recurse (f : filter) (sub : list N) (is_dir : bool) : bool :=
  recurse_from f [] [] sub is_dir.

(** One iteration of filter_element's loop: does the rule decide ([ret != 0]). *)
Definition rule_matches (f : filter) (disk sub : list N) (is_dir : bool) : bool :=
  if f_is_disk f then fnm false (f_pattern f) disk
  else filter_recurse f sub is_dir.

(** filter_element (elem.c:231-278); result [true] = -1 = excluded.  [dirn] = the variable [direction]
    ([true] = +1). *)
Fixpoint filter_element_from (dirn : bool) (fl : list filter) (disk sub : list N)
         (is_dir is_def_include : bool) : bool :=
  match fl with
  | [] => if is_def_include then false else negb dirn
  | f :: fl' =>
      if rule_matches f disk sub is_dir then negb (f_include f)
      else filter_element_from (negb (f_include f)) fl' disk sub is_dir is_def_include
  end.

Definition filter_element (fl : list filter) (disk sub : list N) (is_dir is_def_include : bool) : bool :=
  filter_element_from true fl disk sub is_dir is_def_include.

(** filter_element with its [reason] out-parameter (elem.c:191-192, 247-248, 262-263): the index of the rule the
    verbose messages of the scan name ("Excluding file '...' for rule '...'").  [cur] = the current value of *reason. *)
Fixpoint filter_reason_from (i : nat) (cur : option nat) (dirn : bool) (fl : list filter) (disk sub : list N)
         (is_dir is_def_include : bool) : bool * option nat :=
  match fl with
  | [] => (if is_def_include then false else negb dirn, cur)
  | f :: fl' =>
      if rule_matches f disk sub is_dir
      then (negb (f_include f), if f_include f then cur else Some i)
      else filter_reason_from (S i) (if f_include f then Some i else cur) (negb (f_include f)) fl' disk sub
                              is_dir is_def_include
  end.

Definition filter_reason (fl : list filter) (disk sub : list N) (is_dir is_def_include : bool) : bool * option nat :=
  filter_reason_from O None true fl disk sub is_dir is_def_include.

Definition filter_path (fl : list filter) (disk sub : list N) : bool := filter_element fl disk sub false false.
Definition filter_subdir (fl : list filter) (disk sub : list N) : bool := filter_element fl disk sub true true.
Definition filter_emptydir (fl : list filter) (disk sub : list N) : bool := filter_element fl disk sub true false.

(** state_filter (state.c:4108-4198).  An element of the loaded state, with what the two stat-based tests
    see: [e_present] (lstat succeeds) and [e_has_bad] (some block of the file is marked bad). *)
Inductive ekind : Type := KFile | KLink | KDir.

Record elem : Type := mkElem {
  e_kind : ekind;
  e_disk : list N;
  e_sub : list N;
  e_present : bool;
  e_has_bad : bool
}.

(** [true] = FILE_IS_EXCLUDED is set by state_filter. *)
Definition sel_excluded (fl_file fl_disk : list filter) (missing error : bool) (e : elem) : bool :=
  match fl_file, fl_disk, missing, error with
  | [], [], false, false => false                                  (* "if no filter, include all" *)
  | _, _, _, _ =>
      match e_kind e with
      | KFile => filter_path fl_disk (e_disk e) (e_sub e) || filter_path fl_file (e_disk e) (e_sub e)
                 || (missing && e_present e) || (error && negb (e_has_bad e))
      | KLink => filter_path fl_disk (e_disk e) (e_sub e) || filter_path fl_file (e_disk e) (e_sub e)
                 || (missing && e_present e)
      | KDir => filter_emptydir fl_disk (e_disk e) (e_sub e) || filter_emptydir fl_file (e_disk e) (e_sub e)
                || (missing && e_present e)
      end
  end.

(** parity[l].is_excluded_by_filter (state.c:4179-4197); [pname] = lev_config_name(l). *)
Definition parity_excluded (fl_file fl_disk : list filter) (missing error : bool) (pname : list N) : bool :=
  match fl_file, fl_disk, missing, error with
  | [], [], false, false => false
  | _, _, _, _ =>
      match fl_disk with
      | _ :: _ => filter_path fl_disk pname []
      | [] => missing || (match fl_file with [] => false | _ :: _ => true end)
      end
  end.

End Generic.

(** filter_hidden (elem.h:522, unix.c:45): a directory entry whose name starts with '.', when [nohidden]. *)
Definition filter_hidden (enable : bool) (name : list N) : bool :=
  enable && match name with c :: _ => c =? DOT | [] => false end.

Fixpoint bytes_eqb (a b : list N) : bool :=
  match a, b with
  | [], [] => true
  | x :: a', y :: b' => (x =? y) && bytes_eqb a' b'
  | _, _ => false
  end.

Definition SUFFIX_TMP : list N := [46; 116; 109; 112].          (* ".tmp" *)
Definition SUFFIX_LOCK : list N := [46; 108; 111; 99; 107].    (* ".lock" *)

(** filter_content (elem.c:341-364): [path] is the full path of the entry; [true] = excluded. *)
Definition filter_content (contents : list (list N)) (path : list N) : bool :=
  existsb (fun c => bytes_eqb c path || bytes_eqb (c ++ SUFFIX_TMP) path || bytes_eqb (c ++ SUFFIX_LOCK) path)
          contents.

(** What scan_sub (scan.c:1302-1529) does with one directory entry, as far as the filters go.
    [k]: 0 regular, 1 symlink, 2 directory, 3 special. Result [true] = the entry is skipped. *)
Definition scan_skips (fnm : bool -> list N -> list N -> bool) (nohidden : bool) (contents : list (list N))
           (fl : list filter) (disk dir sub name : list N) (is_directory : bool) : bool :=
  filter_hidden nohidden name
  || filter_content contents (dir ++ sub)
  || (if is_directory then filter_subdir fnm fl disk sub else filter_path fnm fl disk sub).

(** the same, with the reason the verbose scan prints *)
Inductive why : Type := WKeep | WHidden | WContent | WRule (k : option nat).

Definition scan_why (fnm : bool -> list N -> list N -> bool) (nohidden : bool) (contents : list (list N))
           (fl : list filter) (disk dir sub name : list N) (is_directory : bool) : why :=
  if filter_hidden nohidden name then WHidden
  else if filter_content contents (dir ++ sub) then WContent
  else let (ex, r) := filter_reason fnm fl disk sub is_directory is_directory in
       if ex then WRule r else WKeep.

(** Closed instances with the modelled matcher. *)
Definition g_filter_path := filter_path glob_match.
Definition g_filter_subdir := filter_subdir glob_match.
Definition g_filter_emptydir := filter_emptydir glob_match.
Definition g_filter_recurse := filter_recurse glob_match.
Definition g_sel_excluded := sel_excluded glob_match.
Definition g_parity_excluded := parity_excluded glob_match.
Definition g_scan_skips := scan_skips glob_match.
Definition g_scan_why := scan_why glob_match.
