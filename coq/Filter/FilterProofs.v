(** C18 — proofs about the filter model: first match decides, default direction, directory rules take the
    subtree, rooted patterns never cross a slash, rejected pattern forms, selection. *)
From Coq Require Import NArith List Bool Lia.
From Snap.Filter Require Import GlobModel GlobProofs FilterModel.
Import ListNotations.
Open Scope N_scope.

Section Generic.

Variable fnm : bool -> list N -> list N -> bool.

Notation rule_matches := (rule_matches fnm).
Notation filter_element := (filter_element fnm).
Notation filter_element_from := (filter_element_from fnm).
Notation filter_recurse := (filter_recurse fnm).
Notation recurse_from := (recurse_from fnm).
Notation filter_apply := (filter_apply fnm).

(** * The decision procedure over the rule list *)

Fixpoint last_rule (fl : list filter) : option filter :=
  match fl with
  | [] => None
  | f :: fl' => match last_rule fl' with None => Some f | Some g => Some g end
  end.

Lemma last_rule_snoc fl f : last_rule (fl ++ [f]) = Some f.
Proof. induction fl as [|g fl IH]; simpl; [reflexivity|]. rewrite IH. reflexivity. Qed.

Lemma last_rule_none fl : last_rule fl = None -> fl = [].
Proof. destruct fl as [|f fl]; [reflexivity|]. simpl. destruct (last_rule fl); discriminate. Qed.

(** what the list decides when no rule matches: [dirn0] is the value of [direction] before the loop *)
Definition default_excluded (dirn0 : bool) (fl : list filter) (is_def_include : bool) : bool :=
  if is_def_include then false
  else match last_rule fl with
       | None => negb dirn0
       | Some f => f_include f
       end.

Lemma last_rule_cons f fl : last_rule (f :: fl) = match last_rule fl with None => Some f | Some g => Some g end.
Proof. reflexivity. Qed.

Lemma filter_element_from_spec : forall fl dirn disk sub isdir def,
  filter_element_from dirn fl disk sub isdir def =
  match find (fun g => rule_matches g disk sub isdir) fl with
  | Some f => negb (f_include f)
  | None => default_excluded dirn fl def
  end.
Proof.
  induction fl as [|f fl IH]; intros dirn disk sub isdir def; simpl.
  - unfold default_excluded. simpl. reflexivity.
  - destruct (rule_matches f disk sub isdir); [reflexivity|].
    rewrite IH. destruct (find _ fl); [reflexivity|].
    unfold default_excluded. destruct def; [reflexivity|].
    rewrite last_rule_cons. destruct (last_rule fl); [reflexivity|].
    rewrite negb_involutive. reflexivity.
Qed.

Lemma find_first_match (fl1 : list filter) f fl2 (P : filter -> bool) :
  (forall g, In g fl1 -> P g = false) -> P f = true -> find P (fl1 ++ f :: fl2) = Some f.
Proof.
  induction fl1 as [|g fl1 IH]; intros Hn Hf; simpl.
  - rewrite Hf. reflexivity.
  - rewrite (Hn g (or_introl eq_refl)). apply IH; [|exact Hf]. intros h Hh. apply Hn. right. exact Hh.
Qed.

Lemma find_no_match (fl : list filter) (P : filter -> bool) :
  (forall g, In g fl -> P g = false) -> find P fl = None.
Proof.
  induction fl as [|g fl IH]; intros Hn; simpl; [reflexivity|].
  rewrite (Hn g (or_introl eq_refl)). apply IH. intros h Hh. apply Hn. right. exact Hh.
Qed.

(** rules are tried in order and the first one that matches decides, whatever follows *)
Theorem first_match_decides fl1 f fl2 disk sub isdir def :
  (forall g, In g fl1 -> rule_matches g disk sub isdir = false) ->
  rule_matches f disk sub isdir = true ->
  filter_element (fl1 ++ f :: fl2) disk sub isdir def = negb (f_include f).
Proof.
  intros Hn Hf. unfold FilterModel.filter_element. rewrite filter_element_from_spec.
  rewrite (find_first_match fl1 f fl2 _ Hn Hf). reflexivity.
Qed.

(** with no match: directories met by the scan are entered; anything else is excluded iff the LAST rule is an
    include; with no rule at all everything is included *)
Theorem default_direction fl disk sub isdir def :
  (forall g, In g fl -> rule_matches g disk sub isdir = false) ->
  filter_element fl disk sub isdir def =
  if def then false
  else match last_rule fl with
       | None => false
       | Some f => f_include f
       end.
Proof.
  intros Hn. unfold FilterModel.filter_element. rewrite filter_element_from_spec.
  rewrite (find_no_match fl _ Hn). reflexivity.
Qed.

Corollary subdir_default_include fl disk sub :
  (forall g, In g fl -> rule_matches g disk sub true = false) ->
  filter_subdir fnm fl disk sub = false.
Proof. intros Hn. unfold filter_subdir. rewrite (default_direction fl disk sub true true Hn). reflexivity. Qed.

(** * Which components a rule is tried on *)

(** the bytes after the last slash, given the bytes [name] already read since the last slash *)
Fixpoint last_comp_from (name rest : list N) : list N :=
  match rest with
  | [] => name
  | c :: r => if c =? SLASH then last_comp_from [] r else last_comp_from (name ++ [c]) r
  end.

Definition last_comp (p : list N) : list N := last_comp_from [] p.

Lemma last_comp_from_app name a c r :
  last_comp_from name (a ++ c :: r) =
  if c =? SLASH then last_comp_from [] r else last_comp_from (last_comp_from name a ++ [c]) r.
Proof.
  revert name. induction a as [|x a IH]; intros name; simpl; [reflexivity|].
  destruct (x =? 47); apply IH.
Qed.

(** a rule matches an element iff it matches a directory above it (as a directory) or the element itself *)
Lemma recurse_from_spec f : forall rest pre name isdir,
  recurse_from f pre name rest isdir = true <->
  (exists d r, rest = d ++ SLASH :: r /\ filter_apply f (pre ++ d) (last_comp_from name d) true = true)
  \/ filter_apply f (pre ++ rest) (last_comp_from name rest) isdir = true.
Proof.
  induction rest as [|c rest IH]; intros pre name isdir; simpl.
  - rewrite app_nil_r. split; [intros H; right; exact H|].
    intros [[d [r [E _]]]|H]; [destruct d; discriminate|exact H].
  - destruct (c =? 47) eqn:Ec.
    + apply N.eqb_eq in Ec. subst c. rewrite orb_true_iff, IH. split.
      * intros [H|[[d [r [E H]]]|H]].
        -- left. exists [], rest. rewrite app_nil_r. auto.
        -- left. exists (47 :: d), r. subst rest. split; [reflexivity|].
           rewrite <- app_assoc in H. simpl in H. simpl. exact H.
        -- right. rewrite <- app_assoc in H. exact H.
      * intros [[d [r [E H]]]|H].
        -- destruct d as [|x d]; simpl in E; inversion E; subst.
           ++ left. rewrite app_nil_r in H. exact H.
           ++ right. left. exists d, r. split; [reflexivity|].
              rewrite <- app_assoc. simpl. simpl in H. exact H.
        -- right. right. rewrite <- app_assoc. exact H.
    + rewrite IH. split.
      * intros [[d [r [E H]]]|H].
        -- left. exists (c :: d), r. subst rest. split; [reflexivity|].
           rewrite <- app_assoc in H. simpl in H. simpl. rewrite Ec. exact H.
        -- right. rewrite <- app_assoc in H. exact H.
      * intros [[d [r [E H]]]|H].
        -- destruct d as [|x d]; simpl in E; inversion E; subst.
           ++ rewrite N.eqb_refl in Ec. discriminate.
           ++ left. exists d, r. split; [reflexivity|].
              rewrite <- app_assoc. simpl. simpl in H. rewrite Ec in H. exact H.
        -- right. rewrite <- app_assoc. exact H.
Qed.

Theorem rule_component_spec f sub isdir :
  filter_recurse f sub isdir = true <->
  (exists d r, sub = d ++ SLASH :: r /\ filter_apply f d (last_comp d) true = true)
  \/ filter_apply f sub (last_comp sub) isdir = true.
Proof. unfold FilterModel.filter_recurse. rewrite recurse_from_spec. reflexivity. Qed.

(** a rule that matches a directory matches everything below that directory *)
Theorem dir_rule_matches_below f d rest isdir :
  filter_recurse f d true = true -> filter_recurse f (d ++ SLASH :: rest) isdir = true.
Proof.
  rewrite !rule_component_spec. intros [[d1 [r1 [E H]]]|H].
  - left. exists d1, (r1 ++ 47 :: rest). subst d. rewrite <- app_assoc. auto.
  - left. exists d, rest. auto.
Qed.

(** ... and only directory rules (DIR/ and /PATH/DIR/) can match a directory *)
Lemma apply_dir_needs_dir_rule f path name : filter_apply f path name true = true -> f_is_dir f = true.
Proof. unfold FilterModel.filter_apply. destruct (f_is_dir f); simpl; [reflexivity|discriminate]. Qed.

Theorem dir_match_needs_dir_rule f d : filter_recurse f d true = true -> f_is_dir f = true.
Proof.
  rewrite rule_component_spec. intros [[d1 [r1 [_ H]]]|H]; exact (apply_dir_needs_dir_rule _ _ _ H).
Qed.

(** the decision below a matched directory: the first rule that matches the directory or the element decides *)
Theorem dir_rule_takes_subtree fl1 f fl2 disk d rest isdir def :
  f_is_disk f = false ->
  filter_recurse f d true = true ->
  (forall g, In g fl1 -> rule_matches g disk (d ++ SLASH :: rest) isdir = false) ->
  filter_element (fl1 ++ f :: fl2) disk (d ++ SLASH :: rest) isdir def = negb (f_include f).
Proof.
  intros Hd Hm Hn. apply first_match_decides; [exact Hn|].
  unfold FilterModel.rule_matches. rewrite Hd. apply dir_rule_matches_below. exact Hm.
Qed.

(** file rules (FILE and /PATH/FILE) look at the element itself only: FILE at its last component, with wildcards
    free to match anything; /PATH/FILE at the whole path in pathname mode *)
Theorem file_rule_last_component f sub :
  f_is_dir f = false ->
  filter_recurse f sub false =
  if f_is_path f then fnm true (tl (f_pattern f)) sub else fnm false (f_pattern f) (last_comp sub).
Proof.
  intros Hf.
  assert (A : forall path name, filter_apply f path name true = false).
  { intros. unfold FilterModel.filter_apply. rewrite Hf. reflexivity. }
  assert (B : filter_recurse f sub false = filter_apply f sub (last_comp sub) false).
  { destruct (filter_recurse f sub false) eqn:E.
    - apply rule_component_spec in E. destruct E as [[d [r [_ H]]]|H]; [rewrite A in H; discriminate|].
      symmetry. exact H.
    - destruct (filter_apply f sub (last_comp sub) false) eqn:E2; [|reflexivity].
      assert (T : filter_recurse f sub false = true) by (apply rule_component_spec; right; exact E2).
      congruence. }
  rewrite B. unfold FilterModel.filter_apply. rewrite Hf. reflexivity.
Qed.

(** file rules never decide a directory, directory rules never decide a file by its own name *)
Theorem file_rule_ignores_dirs f sub : f_is_dir f = false -> filter_recurse f sub true = false.
Proof.
  intros Hf. destruct (filter_recurse f sub true) eqn:E; [|reflexivity].
  apply dir_match_needs_dir_rule in E. congruence.
Qed.

(** * Selection (state_filter) *)

Theorem selection_exact fl_file fl_disk missing error e :
  (fl_file <> [] \/ fl_disk <> [] \/ missing = true \/ error = true) ->
  sel_excluded fnm fl_file fl_disk missing error e = false <->
  (match e_kind e with
   | KDir => filter_emptydir fnm fl_disk (e_disk e) (e_sub e) = false /\
             filter_emptydir fnm fl_file (e_disk e) (e_sub e) = false
   | _ => filter_path fnm fl_disk (e_disk e) (e_sub e) = false /\
          filter_path fnm fl_file (e_disk e) (e_sub e) = false
   end) /\
  (missing = true -> e_present e = false) /\
  (error = true -> e_kind e = KFile -> e_has_bad e = true).
Proof.
  intros Hany. unfold sel_excluded.
  assert (G : forall X : bool,
            match fl_file, fl_disk, missing, error with
            | [], [], false, false => false
            | _, _, _, _ => X
            end = X).
  { intros X. destruct fl_file, fl_disk, missing, error; try reflexivity.
    destruct Hany as [H|[H|[H|H]]]; congruence. }
  rewrite G. clear G Hany.
  destruct (e_kind e); rewrite ?orb_false_iff, ?andb_false_iff, ?negb_false_iff.
  - split.
    + intros [[[A B] C] D]. repeat split; auto.
      * intros M. destruct C; congruence.
      * intros M _. destruct D; congruence.
    + intros [[A B] [C D]]. repeat split; auto.
      * destruct missing; [right; auto|left; reflexivity].
      * destruct error; [right; auto|left; reflexivity].
  - split.
    + intros [[A B] C]. repeat split; auto.
      * intros M. destruct C; congruence.
      * intros _ K. discriminate.
    + intros [[A B] [C D]]. repeat split; auto.
      destruct missing; [right; auto|left; reflexivity].
  - split.
    + intros [[A B] C]. repeat split; auto.
      * intros M. destruct C; congruence.
      * intros _ K. discriminate.
    + intros [[A B] [C D]]. repeat split; auto.
      destruct missing; [right; auto|left; reflexivity].
Qed.

(** no selection option at all: nothing is excluded *)
Theorem selection_none e : sel_excluded fnm [] [] false false e = false.
Proof. reflexivity. Qed.

(** the -d list: a disk rule list includes a disk iff some -d pattern matches its name (all rules are includes) *)
Lemma disk_list_spec fl disk sub :
  Forall (fun f => f_is_disk f = true /\ f_include f = true) fl -> fl <> [] ->
  filter_path fnm fl disk sub = negb (existsb (fun f => fnm false (f_pattern f) disk) fl).
Proof.
  intros Hall Hne. unfold filter_path, FilterModel.filter_element. rewrite filter_element_from_spec.
  induction Hall as [|f fl [Hd Hi] Hall IH]; [congruence|].
  cbn [find existsb]. unfold FilterModel.rule_matches at 1. rewrite Hd.
  destruct (fnm false (f_pattern f) disk); cbn [orb negb]; [rewrite Hi; reflexivity|].
  destruct fl as [|g fl].
  - cbn [find existsb]. unfold default_excluded. cbn [last_rule]. rewrite Hi. reflexivity.
  - assert (Hne' : g :: fl <> []) by discriminate. specialize (IH Hne').
    destruct (find _ (g :: fl)) eqn:F.
    + exact IH.
    + rewrite <- IH. unfold default_excluded. rewrite last_rule_cons.
      destruct (last_rule (g :: fl)) eqn:L; [reflexivity|].
      apply last_rule_none in L. discriminate.
Qed.

End Generic.

(** * Pattern parsing: rejected forms *)

(** the loop body of the token scan, without the final test *)
Fixpoint scan_state (seen valid filled : bool) (p : list N) : option (bool * bool * bool) :=
  match p with
  | [] => Some (seen, valid, filled)
  | c :: p' =>
      if c =? SLASH then
        if negb valid && (seen || filled) then None
        else scan_state true false false p'
      else if negb (c =? DOT) then scan_state seen true true p'
      else scan_state seen valid true p'
  end.

Lemma tok_scan_app a : forall seen valid filled b,
  tok_scan seen valid filled (a ++ b) =
  match scan_state seen valid filled a with
  | None => None
  | Some (s, v, f) => tok_scan s v f b
  end.
Proof.
  induction a as [|c a IH]; intros seen valid filled b; simpl; [reflexivity|].
  destruct (c =? 47).
  - destruct (negb valid && (seen || filled)); [reflexivity|apply IH].
  - destruct (negb (c =? 46)); apply IH.
Qed.

Lemma scan_state_slash_end a : forall seen valid filled s v f,
  scan_state seen valid filled (a ++ [SLASH]) = Some (s, v, f) -> (s, v, f) = (true, false, false).
Proof.
  induction a as [|c a IH]; intros seen valid filled s v f; simpl.
  - destruct (negb valid && (seen || filled)); [discriminate|]. intros H; inversion H; reflexivity.
  - destruct (c =? 47).
    + destruct (negb valid && (seen || filled)); [discriminate|apply IH].
    + destruct (negb (c =? 46)); apply IH.
Qed.

Lemma scan_state_dots dots : Forall (fun c => c = DOT) dots -> dots <> [] -> forall seen,
  scan_state seen false false dots = Some (seen, false, true).
Proof.
  intros Hd Hne seen.
  assert (G : forall filled, scan_state seen false filled dots = Some (seen, false, filled || negb (match dots with [] => true | _ => false end))).
  { induction Hd as [|c dots Hc Hd IH]; intros filled; simpl.
    - rewrite orb_false_r. reflexivity.
    - subst c. simpl. destruct dots as [|c' dots'].
      + simpl. rewrite orb_true_r. reflexivity.
      + rewrite IH; [|discriminate]. simpl. rewrite orb_true_r. reflexivity. }
  rewrite G. destruct dots; [congruence|reflexivity].
Qed.

(** a component made only of dots ("." ".." "..." ...) is rejected wherever it stands *)
Theorem parse_rejects_dots incl a dots b :
  Forall (fun c => c = DOT) dots -> dots <> [] ->
  (a = [] \/ exists a', a = a' ++ [SLASH]) ->
  (b = [] \/ exists b', b = SLASH :: b') ->
  filter_parse incl (a ++ dots ++ b) = None.
Proof.
  intros Hd Hne Ha Hb. unfold filter_parse.
  assert (T : tok_scan false false false (a ++ dots ++ b) = None); [|rewrite T; reflexivity].
  rewrite tok_scan_app.
  destruct (scan_state false false false a) as [[[s v] f]|] eqn:Ea; [|reflexivity].
  assert (Es : v = false /\ f = false).
  { destruct Ha as [Ha|[a' Ha]]; subst a.
    - simpl in Ea. inversion Ea. auto.
    - apply scan_state_slash_end in Ea. inversion Ea. auto. }
  destruct Es; subst v f.
  rewrite tok_scan_app, (scan_state_dots dots Hd Hne s).
  destruct Hb as [Hb|[b' Hb]]; subst b; simpl.
  - rewrite orb_true_r. reflexivity.
  - rewrite orb_true_r. reflexivity.
Qed.

(** an empty component in the middle (two adjacent slashes) is rejected *)
Theorem parse_rejects_double_slash incl a b :
  filter_parse incl (a ++ SLASH :: SLASH :: b) = None.
Proof.
  unfold filter_parse.
  assert (T : tok_scan false false false (a ++ 47 :: 47 :: b) = None); [|rewrite T; reflexivity].
  rewrite tok_scan_app.
  destruct (scan_state false false false a) as [[[s v] f]|]; [|reflexivity].
  simpl. destruct (negb v && (s || f)); reflexivity.
Qed.

Lemma count_slash_app a b : count_slash (a ++ b) = (count_slash a + count_slash b)%nat.
Proof. induction a as [|x a IH]; simpl; [reflexivity|]. destruct (x =? 47); simpl; rewrite IH; reflexivity. Qed.

Lemma ends_slash_snoc p c : ends_slash (p ++ [c]) = (c =? SLASH).
Proof. unfold ends_slash. rewrite rev_app_distr. reflexivity. Qed.

(** PATH/FILE and PATH/DIR/ : a slash that is not the last byte, in a pattern that does not start with a slash *)
Theorem parse_rejects_relative incl a b :
  b <> [] -> starts_slash (a ++ SLASH :: b) = false ->
  filter_parse incl (a ++ SLASH :: b) = None.
Proof.
  intros Hb Hs. unfold filter_parse.
  destruct (tok_scan false false false (a ++ 47 :: b)); [|reflexivity].
  destruct (count_slash (a ++ 47 :: b)) as [|n] eqn:Ec.
  { rewrite count_slash_app in Ec. simpl in Ec. lia. }
  rewrite Hs. simpl.
  destruct n as [|n]; simpl; [|reflexivity].
  destruct (ends_slash (a ++ 47 :: b)) eqn:Ee; [|reflexivity].
  exfalso. destruct (exists_last Hb) as [b' [c Eb]]. subst b.
  rewrite app_comm_cons, app_assoc, ends_slash_snoc in Ee. apply N.eqb_eq in Ee. subst c.
  rewrite count_slash_app in Ec. simpl in Ec. rewrite count_slash_app in Ec. simpl in Ec. lia.
Qed.

(** * Accepted forms *)

Definition valid_comp (c : list N) : bool := existsb (fun x => negb (x =? DOT)) c.
Definition no_slash (c : list N) : Prop := count_slash c = O.

Lemma scan_state_comp c : no_slash c -> forall seen valid filled,
  scan_state seen valid filled c =
  Some (seen, valid || valid_comp c, filled || negb (match c with [] => true | _ => false end)).
Proof.
  unfold no_slash. induction c as [|x c IH]; intros Hn seen valid filled; simpl.
  - rewrite !orb_false_r. reflexivity.
  - simpl in Hn. destruct (x =? 47) eqn:E; [discriminate|].
    destruct (negb (x =? 46)) eqn:E2; rewrite (IH Hn); simpl.
    + rewrite !orb_true_r. destruct c; reflexivity.
    + rewrite !orb_true_r. destruct c; simpl; rewrite ?orb_false_r; reflexivity.
Qed.

Lemma tok_scan_comp c : no_slash c -> forall seen valid filled,
  tok_scan seen valid filled c =
  if negb (valid || valid_comp c) && (negb seen || (filled || negb (match c with [] => true | _ => false end)))
  then None else Some seen.
Proof.
  intros Hn seen valid filled.
  rewrite <- (app_nil_r c) at 1. rewrite tok_scan_app, (scan_state_comp c Hn). reflexivity.
Qed.

Lemma removelast_snoc (p : list N) c : removelast (p ++ [c]) = p.
Proof. apply removelast_last. Qed.

(** FILE *)
Theorem parse_file_form incl c :
  no_slash c -> valid_comp c = true ->
  filter_parse incl c = Some (mkFilter incl c false false false).
Proof.
  intros Hn Hv. unfold filter_parse. rewrite (tok_scan_comp c Hn), Hv. simpl.
  unfold no_slash in Hn. rewrite Hn. reflexivity.
Qed.

(** DIR/ *)
Theorem parse_dir_form incl c :
  no_slash c -> valid_comp c = true ->
  filter_parse incl (c ++ [SLASH]) = Some (mkFilter incl c false false true).
Proof.
  intros Hn Hv. unfold filter_parse.
  rewrite tok_scan_app, (scan_state_comp c Hn), Hv. simpl.
  rewrite count_slash_app. unfold no_slash in Hn. rewrite Hn. simpl.
  rewrite ends_slash_snoc, removelast_snoc. reflexivity.
Qed.

(** the rooted forms: /c1/.../cn (file) and /c1/.../cn/ (directory), every component valid *)
Fixpoint join_path (cs : list (list N)) : list N :=
  match cs with
  | [] => []
  | c :: cs' => SLASH :: c ++ join_path cs'
  end.

Definition good_comp (c : list N) : Prop := no_slash c /\ valid_comp c = true.

Lemma join_path_app a b : join_path (a ++ b) = join_path a ++ join_path b.
Proof. induction a as [|c a IH]; simpl; [reflexivity|]. rewrite IH, <- app_assoc. reflexivity. Qed.

Lemma tok_scan_rooted cs : forall c tail, good_comp c -> Forall good_comp cs ->
  (tail = [] \/ tail = [SLASH]) ->
  tok_scan true false false (c ++ join_path cs ++ tail) = Some true.
Proof.
  induction cs as [|c2 cs IH]; intros c tail [Hn Hv] Hall Ht.
  - simpl. rewrite tok_scan_app, (scan_state_comp c Hn), Hv. simpl.
    destruct Ht; subst tail; reflexivity.
  - inversion Hall; subst. simpl. rewrite tok_scan_app, (scan_state_comp c Hn), Hv. simpl.
    rewrite <- app_assoc. apply IH; assumption.
Qed.

Lemma good_comp_last c : good_comp c -> exists c' y, c = c' ++ [y] /\ (y =? SLASH) = false.
Proof.
  intros [Hn Hv]. destruct c as [|x c]; [discriminate|].
  destruct (exists_last (l := x :: c)) as [c' [y E]]; [discriminate|]. exists c', y. split; [exact E|].
  unfold no_slash in Hn. rewrite E, count_slash_app in Hn. simpl in Hn.
  destruct (y =? 47); [lia|reflexivity].
Qed.

Theorem parse_path_file_form incl cs c :
  Forall good_comp cs -> good_comp c ->
  filter_parse incl (join_path (cs ++ [c])) = Some (mkFilter incl (join_path (cs ++ [c])) false true false).
Proof.
  intros Hall Hc. unfold filter_parse.
  assert (Hall' : Forall good_comp (cs ++ [c])) by (apply Forall_app; split; [exact Hall|constructor; [exact Hc|constructor]]).
  assert (T : tok_scan false false false (join_path (cs ++ [c])) = Some true).
  { destruct (cs ++ [c]) as [|c1 rest] eqn:E; [destruct cs; discriminate|].
    inversion Hall'; subst. simpl.
    rewrite <- (app_nil_r (join_path rest)). apply tok_scan_rooted; auto. }
  rewrite T.
  assert (Ee : ends_slash (join_path (cs ++ [c])) = false).
  { rewrite join_path_app. simpl. rewrite app_nil_r.
    destruct (good_comp_last c Hc) as [c' [y [E Ey]]]. rewrite E.
    rewrite app_comm_cons, app_assoc, ends_slash_snoc. exact Ey. }
  assert (Es : starts_slash (join_path (cs ++ [c])) = true).
  { destruct cs; reflexivity. }
  assert (Ec : exists n, count_slash (join_path (cs ++ [c])) = S n).
  { destruct cs; simpl; eauto. }
  destruct Ec as [n Ec]. rewrite Ec, Ee, Es. rewrite andb_false_r. reflexivity.
Qed.

Theorem parse_path_dir_form incl cs c :
  Forall good_comp cs -> good_comp c ->
  filter_parse incl (join_path (cs ++ [c]) ++ [SLASH]) = Some (mkFilter incl (join_path (cs ++ [c])) false true true).
Proof.
  intros Hall Hc. unfold filter_parse.
  assert (Hall' : Forall good_comp (cs ++ [c])) by (apply Forall_app; split; [exact Hall|constructor; [exact Hc|constructor]]).
  assert (T : tok_scan false false false (join_path (cs ++ [c]) ++ [47]) = Some true).
  { destruct (cs ++ [c]) as [|c1 rest] eqn:E; [destruct cs; discriminate|].
    inversion Hall'; subst. simpl. rewrite <- app_assoc. apply tok_scan_rooted; auto. }
  rewrite T.
  assert (Es : starts_slash (join_path (cs ++ [c]) ++ [47]) = true).
  { destruct cs; reflexivity. }
  assert (Ec : exists n, count_slash (join_path (cs ++ [c]) ++ [47]) = S (S n)).
  { rewrite count_slash_app. simpl. destruct cs; simpl; eexists; rewrite PeanoNat.Nat.add_1_r; reflexivity. }
  destruct Ec as [n Ec]. rewrite Ec, Es, ends_slash_snoc, removelast_snoc. reflexivity.
Qed.

(** "/" alone is accepted as a directory rule with an empty name (it can match nothing) *)
Lemma parse_lone_slash incl : filter_parse incl [SLASH] = Some (mkFilter incl [] false false true).
Proof. reflexivity. Qed.

(** * Rooted rules with the modelled matcher: wildcards never match a slash *)

Theorem rooted_no_slash_cross f path name isdir :
  f_is_path f = true ->
  FilterModel.filter_apply glob_match f path name isdir = true ->
  slashes path = lit_slashes (tokenize (tl (f_pattern f))) /\
  Forall2 (fun tc sc => Matches true tc sc /\ slash_free tc /\ slashes sc = O)
          (toks_components (tokenize (tl (f_pattern f)))) (str_components path).
Proof.
  intros Hp. unfold FilterModel.filter_apply. rewrite Hp.
  destruct (xorb (f_is_dir f) isdir); [discriminate|]. intros H. split.
  - apply glob_pathname_slashes. exact H.
  - apply glob_pathname_components. exact H.
Qed.

(** * Hidden files, content / temporary / lock files *)

Lemma bytes_eqb_refl a : bytes_eqb a a = true.
Proof. induction a as [|x a IH]; simpl; [reflexivity|]. rewrite N.eqb_refl. exact IH. Qed.

Lemma bytes_eqb_eq a : forall b, bytes_eqb a b = true <-> a = b.
Proof.
  induction a as [|x a IH]; intros [|y b]; simpl; split; try congruence; try discriminate.
  - rewrite andb_true_iff, N.eqb_eq, IH. intros [-> ->]. reflexivity.
  - intros H; inversion H; subst. rewrite N.eqb_refl, bytes_eqb_refl. reflexivity.
Qed.

Theorem content_lock_tmp_always_excluded fnm nohidden contents fl disk dir sub name isdir c :
  In c contents ->
  (dir ++ sub = c \/ dir ++ sub = c ++ SUFFIX_TMP \/ dir ++ sub = c ++ SUFFIX_LOCK) ->
  scan_skips fnm nohidden contents fl disk dir sub name isdir = true.
Proof.
  intros Hin Hp. unfold scan_skips.
  assert (T : filter_content contents (dir ++ sub) = true).
  { unfold filter_content. apply existsb_exists. exists c. split; [exact Hin|].
    destruct Hp as [E|[E|E]]; rewrite E, bytes_eqb_refl, ?orb_true_r; reflexivity. }
  rewrite T, orb_true_r. reflexivity.
Qed.

Theorem content_spec contents path :
  filter_content contents path = true <->
  exists c, In c contents /\ (path = c \/ path = c ++ SUFFIX_TMP \/ path = c ++ SUFFIX_LOCK).
Proof.
  unfold filter_content. rewrite existsb_exists. split.
  - intros [c [Hin H]]. exists c. split; [exact Hin|].
    rewrite !orb_true_iff, !bytes_eqb_eq in H. destruct H as [[H|H]|H]; auto.
  - intros [c [Hin H]]. exists c. split; [exact Hin|].
    rewrite !orb_true_iff, !bytes_eqb_eq. destruct H as [H|[H|H]]; auto.
Qed.

Theorem hidden_skipped fnm contents fl disk dir sub name isdir :
  scan_skips fnm true contents fl disk dir sub (DOT :: name) isdir = true.
Proof. reflexivity. Qed.

Theorem hidden_kept_without_option fnm contents fl disk dir sub name isdir :
  scan_skips fnm false contents fl disk dir sub name isdir =
  (filter_content contents (dir ++ sub)
   || (if isdir then filter_subdir fnm fl disk sub else filter_path fnm fl disk sub)).
Proof. reflexivity. Qed.

(** * The content-file rule at full strength is refuted: the comparison is textual *)

(** two spellings of the same file under POSIX pathname resolution (only the rules needed here: a "." component
    and a repeated slash change nothing) *)
Inductive same_file : list N -> list N -> Prop :=
| sf_refl : forall p, same_file p p
| sf_dot : forall a b, same_file (a ++ SLASH :: b) (a ++ SLASH :: DOT :: SLASH :: b)
| sf_slash : forall a b, same_file (a ++ SLASH :: b) (a ++ SLASH :: SLASH :: b)
| sf_sym : forall p q, same_file p q -> same_file q p
| sf_trans : forall p q r, same_file p q -> same_file q r -> same_file p r.

(** the property as the documentation states it ("this file is automatically excluded from the sync process"):
    whatever spelling the configuration uses for the content file *)
Definition content_excluded_full : Prop :=
  forall fnm nohidden contents fl disk dir sub name isdir c,
    In c contents -> same_file (dir ++ sub) c ->
    scan_skips fnm nohidden contents fl disk dir sub name isdir = true.

(** witness: data dir "/d/", entry "content", configuration line "content /d/./content", no rule *)
Definition wit_dir : list N := [47; 100; 47].
Definition wit_sub : list N := [99; 111; 110; 116; 101; 110; 116].
Definition wit_content : list N := [47; 100; 47; 46; 47; 99; 111; 110; 116; 101; 110; 116].

Theorem content_excluded_refuted :
  exists fnm nohidden contents fl disk dir sub name isdir c,
    In c contents /\ same_file (dir ++ sub) c /\
    scan_skips fnm nohidden contents fl disk dir sub name isdir = false.
Proof.
  exists glob_match, false, [wit_content], [], [100; 49], wit_dir, wit_sub, wit_sub, false, wit_content.
  split; [left; reflexivity|]. split; [|vm_compute; reflexivity].
  exact (sf_dot [47; 100] wit_sub).
Qed.

Corollary content_excluded_full_is_false : ~ content_excluded_full.
Proof.
  intros H. destruct content_excluded_refuted as [fnm [nh [cs [fl [disk [dir [sub [name [isdir [c [Hin [Hs Hf]]]]]]]]]]]].
  rewrite (H fnm nh cs fl disk dir sub name isdir c Hin Hs) in Hf. discriminate.
Qed.

(** * Which parity files a selection leaves alone (state.c state_filter, last part) *)

(** without -d: the parity files are excluded as soon as -m or any -f is given; -e alone keeps them *)
Theorem parity_excluded_no_disk_option fnm fl_file missing error pname :
  parity_excluded fnm fl_file [] missing error pname =
  missing || (match fl_file with [] => false | _ :: _ => true end).
Proof. unfold parity_excluded. destruct fl_file, missing, error; reflexivity. Qed.

Corollary parity_excluded_by_missing fnm fl_file error pname :
  parity_excluded fnm fl_file [] true error pname = true.
Proof. rewrite parity_excluded_no_disk_option. reflexivity. Qed.

Corollary parity_excluded_by_file_filter fnm f fl_file missing error pname :
  parity_excluded fnm (f :: fl_file) [] missing error pname = true.
Proof. rewrite parity_excluded_no_disk_option. apply orb_true_r. Qed.

Corollary parity_kept_without_selection fnm error pname :
  parity_excluded fnm [] [] false error pname = false.
Proof. rewrite parity_excluded_no_disk_option. reflexivity. Qed.

(** with -d: a parity file is kept iff one of the -d names matches its name, whatever -f / -m say *)
Theorem parity_excluded_disk_option fnm fl_file fl_disk missing error pname :
  Forall (fun f => f_is_disk f = true /\ f_include f = true) fl_disk -> fl_disk <> [] ->
  parity_excluded fnm fl_file fl_disk missing error pname =
  negb (existsb (fun f => fnm false (f_pattern f) pname) fl_disk).
Proof.
  intros Hall Hne. unfold parity_excluded.
  destruct fl_disk as [|d fl_disk]; [congruence|].
  rewrite <- (disk_list_spec fnm (d :: fl_disk) pname [] Hall Hne).
  destruct fl_file, missing, error; reflexivity.
Qed.

(** * The rule named by the verbose messages of the scan (the [reason] out-parameter of filter_element) *)

Section Reason.
Variable fnm : bool -> list N -> list N -> bool.

Lemma filter_reason_from_fst : forall fl i cur dirn disk sub isdir def,
  fst (filter_reason_from fnm i cur dirn fl disk sub isdir def) = filter_element_from fnm dirn fl disk sub isdir def.
Proof.
  induction fl as [|f fl IH]; intros; simpl; [reflexivity|].
  destruct (rule_matches fnm f disk sub isdir); [reflexivity|apply IH].
Qed.

Theorem filter_reason_result fl disk sub isdir def :
  fst (filter_reason fnm fl disk sub isdir def) = filter_element fnm fl disk sub isdir def.
Proof. apply filter_reason_from_fst. Qed.

(** index of the first rule that matches *)
Fixpoint first_match_idx (i : nat) (fl : list filter) (disk sub : list N) (isdir : bool) : option nat :=
  match fl with
  | [] => None
  | f :: fl' => if rule_matches fnm f disk sub isdir then Some i else first_match_idx (S i) fl' disk sub isdir
  end.

(** when the element is excluded, the rule named is the one that decided: the first matching rule (an exclude),
    or, when no rule matches, the last rule of the list (an include) *)
Lemma filter_reason_from_spec : forall fl i cur dirn disk sub isdir def,
  fst (filter_reason_from fnm i cur dirn fl disk sub isdir def) = true ->
  snd (filter_reason_from fnm i cur dirn fl disk sub isdir def) =
  match first_match_idx i fl disk sub isdir with
  | Some k => Some k
  | None => match fl with [] => cur | _ :: _ => Some (i + length fl - 1)%nat end
  end.
Proof.
  induction fl as [|f fl IH]; intros i cur dirn disk sub isdir def; simpl; [reflexivity|].
  destruct (rule_matches fnm f disk sub isdir).
  - simpl. destruct (f_include f); simpl; [discriminate|reflexivity].
  - intros H. rewrite (IH _ _ _ _ _ _ _ H).
    destruct (first_match_idx (S i) fl disk sub isdir); [reflexivity|].
    destruct fl as [|g fl].
    + simpl in H. destruct def; [discriminate|]. rewrite negb_involutive in H. rewrite H.
      simpl. f_equal. lia.
    + f_equal. simpl. lia.
Qed.

Theorem filter_reason_spec fl disk sub isdir def :
  fst (filter_reason fnm fl disk sub isdir def) = true ->
  snd (filter_reason fnm fl disk sub isdir def) =
  match first_match_idx O fl disk sub isdir with
  | Some k => Some k
  | None => match fl with [] => None | _ :: _ => Some (length fl - 1)%nat end
  end.
Proof. intros H. unfold filter_reason in *. rewrite (filter_reason_from_spec _ _ _ _ _ _ _ _ H). reflexivity. Qed.

(** the verdict with a reason agrees with the plain verdict *)
Theorem scan_why_skips nohidden contents fl disk dir sub name isdir :
  scan_skips fnm nohidden contents fl disk dir sub name isdir = true <->
  scan_why fnm nohidden contents fl disk dir sub name isdir <> WKeep.
Proof.
  unfold scan_skips, scan_why.
  destruct (filter_hidden nohidden name); simpl; [split; [discriminate|reflexivity]|].
  destruct (filter_content contents (dir ++ sub)); simpl; [split; [discriminate|reflexivity]|].
  pose proof (filter_reason_result fl disk sub isdir isdir) as R.
  destruct (filter_reason fnm fl disk sub isdir isdir) as [ex r]. simpl in R.
  assert (E : (if isdir then filter_subdir fnm fl disk sub else filter_path fnm fl disk sub) = ex).
  { rewrite R. destruct isdir; reflexivity. }
  rewrite E. destruct ex; split; try discriminate; try reflexivity. intros H. exfalso. apply H. reflexivity.
Qed.

End Reason.
